(* C05 extension: re-save stability of EVERY XBin file the loader (as it is after C02's fixes, Model/C02Loaders.v load_xb2)
   accepts - 256- and 512-character mode, uncompressed and compressed data, saved again with either value of
   SaveOptions.compress - with the known finding C05-xb-resave-512-chars-without-font as the exact exception. *)
From Coq Require Import NArith ZArith Bool List Lia PeanoNat.
From IE Require Import Lib.Tbl Lib.Bits Lib.C18Lib Lib.C05Lib Gen.Codepage Gen.Formats Model.Attr Model.C05Buf Model.C05Bin
  Model.C05XBin Model.C05Spec Model.C05SpecX Model.C02Loaders Model.C05XBinC
  Proofs.AttrProofs Proofs.C05BufProofs Proofs.C05BinProofs Proofs.C05AdfProofs Proofs.C05XBinProofs Proofs.C02BridgeProofs
  Proofs.C05XBinCProofs.
Import ListNotations.
Local Open Scope Z_scope.

(* ------------------------------------------------------------------ the font pages a writer finds *)
Notation pg c := (font_page (c_attr c)).

Lemma insert_sorted_In x y : forall l, In x (insert_sorted y l) <-> x = y \/ In x l.
Proof.
  induction l as [|h t IH]; cbn [insert_sorted].
  - cbn. intuition.
  - destruct (y <? h)%N; [cbn; intuition|].
    destruct (N.eqb_spec y h) as [->|Hne].
    + cbn. intuition.
    + cbn [In]. rewrite IH. intuition.
Qed.

Lemma fold_insert_In : forall (cells : list cell) acc x,
  In x (fold_left (fun acc c => insert_sorted (pg c) acc) cells acc) <-> In x acc \/ exists c, In c cells /\ pg c = x.
Proof.
  induction cells as [|c t IH]; intros acc x; cbn [fold_left].
  - split; [auto|]. intros [H|(c & [] & _)]. exact H.
  - rewrite IH, insert_sorted_In. split.
    + intros [[->|H]|(c' & Hc' & E)]; [right; exists c; cbn; auto|auto|right; exists c'; cbn; auto].
    + intros [H|(c' & [<-|Hc'] & E)]; [auto|left; left; auto|right; exists c'; auto].
Qed.

Lemma used_pages_In rows c : In c (concat rows) -> In (pg c) (used_pages rows).
Proof.
  intro H. unfold used_pages.
  assert (Hin : In (pg c) (fold_left (fun acc c0 => insert_sorted (pg c0) acc) (concat rows) [])).
  { apply fold_insert_In. right. exists c. auto. }
  destruct (fold_left _ (concat rows) []); [destruct Hin|exact Hin].
Qed.

Lemma used_pages_all rows slots : used_pages rows = slots -> Forall (Forall (fun c => In (pg c) slots)) rows.
Proof.
  intros <-. apply Forall_forall. intros r Hr. apply Forall_forall. intros c Hc.
  apply used_pages_In. apply in_concat. exists r. auto.
Qed.

Lemma used_pages_single_all rows k : used_pages rows = [k] -> Forall (Forall (fun c => pg c = k)) rows.
Proof.
  intro H. eapply Forall_impl; [|exact (used_pages_all rows [k] H)]. intros r Hr.
  eapply Forall_impl; [|exact Hr]. intros c [E|[]]. auto.
Qed.

Lemma used_pages_01 rows : Forall (Forall (fun c => pg c = 0%N \/ pg c = 1%N)) rows ->
  used_pages rows = [0%N] \/ used_pages rows = [1%N] \/ used_pages rows = [0%N; 1%N].
Proof.
  intro H. unfold used_pages.
  assert (Hall : Forall (fun c => pg c = 0%N \/ pg c = 1%N) (concat rows)) by (apply Forall_concat; exact H).
  assert (Hinv : forall cells acc, Forall (fun c => pg c = 0%N \/ pg c = 1%N) cells ->
            (acc = [] \/ acc = [0%N] \/ acc = [1%N] \/ acc = [0%N; 1%N]) ->
            let r := fold_left (fun acc c => insert_sorted (pg c) acc) cells acc in
            r = [] \/ r = [0%N] \/ r = [1%N] \/ r = [0%N; 1%N]).
  { induction cells as [|c t IH]; intros acc Hc Hacc; [exact Hacc|].
    inversion Hc as [|? ? Hc1 Ht]; subst. cbn [fold_left]. apply IH; [exact Ht|].
    destruct Hc1 as [-> | ->]; destruct Hacc as [->|[->|[->| ->]]]; cbn; auto. }
  specialize (Hinv (concat rows) [] Hall (or_introl eq_refl)). cbv zeta in Hinv.
  destruct Hinv as [->|[->|[->| ->]]]; auto.
Qed.

(* ------------------------------------------------------------------ pictures compared through their glyph tables *)
Lemma Forall2_Forall_l {A B} (R R' : A -> B -> Prop) (P : A -> Prop) l l' :
  (forall a b, P a -> R a b -> R' a b) -> Forall P l -> Forall2 R l l' -> Forall2 R' l l'.
Proof.
  intros Himp HP H. induction H as [|a b l l' Hab _ IH]; constructor.
  - apply Himp; [apply (Forall_inv HP)|exact Hab].
  - apply IH. apply (Forall_inv_tail HP).
Qed.

Lemma Forall2_map_l_inv {A B C} (R : B -> C -> Prop) (g : A -> B) l : forall l',
  Forall2 R (map g l) l' -> Forall2 (fun a b => R (g a) b) l l'.
Proof.
  induction l as [|a l IH]; intros l' H; inversion H; subst; constructor; [assumption|apply IH; assumption].
Qed.

Lemma same_picture_to_glyphs slots p p' :
  same_picture true slots p p' -> Forall (Forall (fun c => In (pg c) slots)) (p_rows p) -> same_picture_glyphs p p'.
Proof.
  intros (Hw & Hh & Hm & Hcells & Hpal & Hfonts) Hin.
  split; [exact Hw|]. split; [exact Hh|]. split; [exact Hm|]. split; [|exact Hpal].
  eapply Forall2_Forall_l; [|exact Hin|exact Hcells]. cbv beta. intros r r' Hr Hrr.
  eapply Forall2_Forall_l; [|exact Hr|exact Hrr]. cbv beta. intros c c' Hc (Hch & Hsh & Hpg).
  split; [exact Hch|]. split; [exact Hsh|].
  rewrite <- (Hpg eq_refl). unfold same_fonts in Hfonts. rewrite Forall_forall in Hfonts. apply (Hfonts _ Hc).
Qed.

(* ------------------------------------------------------------------ a picture that uses one font page, whatever its number *)
(* what the one-font layout needs of a font *)
Definition fontok (f : font) : Prop :=
  font_wf (f_h f) f /\ (1 <= f_h f <= 32)%N /\ (f_default f = true -> same_font f default_font).

Definition renum0 (p : pic) (f : font) : pic :=
  mkPic (p_w p) (p_h p) (p_ice p) (map (map (fun c => cell_with_page c 0)) (p_rows p)) (p_pal p) [(0%N, f)].

Lemma save_rows_map (enc : cell -> list N) (g : cell -> cell) rows :
  save_rows enc (map (map g) rows) = save_rows (fun c => enc (g c)) rows.
Proof.
  unfold save_rows. rewrite map_map. f_equal. apply map_ext. intro r. rewrite map_map. reflexivity.
Qed.

Lemma xb_roundtrip_page p s comp k f :
  xb_common p -> used_pages (p_rows p) = [k] -> all_pic_cells (cell8 (p_ice p)) p ->
  get_font (p_fonts p) k = Some f -> fontok f ->
  exists data b, save_xbo comp p = Ok data /\ load_xb2 data s = Ok b /\ same_picture_glyphs p (pic_of b).
Proof.
  intros Hcommon Hused Hcells Hf (Hwf & Hfh & Hdef).
  pose proof Hcommon as (Hrect & Hw & Hh & Hpl & Hp6).
  set (p0 := renum0 p f).
  assert (Hpages : Forall (Forall (fun c => pg c = k)) (p_rows p)) by (apply used_pages_single_all, Hused).
  assert (Hr0 : representable_xb1 p0).
  { split; [|split].
    - unfold xb_common, p0, renum0. cbn [p_w p_h p_pal p_rows].
      split; [|auto]. destruct Hrect as (H1 & H2 & H3 & H4). unfold rect. cbn [p_w p_h p_rows].
      split; [exact H1|]. split; [exact H2|]. split; [rewrite map_length; exact H3|].
      apply Forall_forall. intros r' Hr'. apply in_map_iff in Hr'. destruct Hr' as (r & <- & Hr).
      rewrite map_length. rewrite Forall_forall in H4. apply H4, Hr.
    - unfold all_pic_cells, p0, renum0. cbn [p_rows p_ice].
      apply Forall_forall. intros r' Hr'. apply in_map_iff in Hr'. destruct Hr' as (r & <- & Hr).
      apply Forall_forall. intros c' Hc'. apply in_map_iff in Hc'. destruct Hc' as (c & <- & Hc).
      unfold all_pic_cells in Hcells. rewrite Forall_forall in Hcells. specialize (Hcells r Hr).
      rewrite Forall_forall in Hcells. split; [exact (Hcells c Hc)|reflexivity].
    - exists f. unfold p0, renum0. cbn [p_fonts get_font N.eqb]. auto. }
  destruct (xb1_hyps p0 Hr0) as (f' & Hh0).
  assert (Ef : f' = f).
  { destruct Hh0 as (_ & _ & Hg & _). unfold p0, renum0 in Hg. cbn [p_fonts get_font N.eqb] in Hg. congruence. }
  subst f'.
  (* the uncompressed file of p is the file of p0 *)
  assert (Hshape : xb_shape_g p false k 0 f f (f_h f)).
  { split; [split; [exact Hcommon|split; [exact Hwf|split; [exact Hfh|discriminate]]]|].
    split; [exact Hused|]. split; [exact Hf|discriminate]. }
  assert (Hch : Forall (Forall (fun c => (c_ch c < 256)%N)) (p_rows p)).
  { eapply Forall_impl; [|exact Hcells]. intros r Hr. eapply Forall_impl; [|exact Hr]. intros c (Hc & _). exact Hc. }
  assert (Hdu : save_xbo false p = Ok (xb_data p0 false f f (f_h f))).
  { rewrite (xb_saveo p false k 0 f f (f_h f) false Hshape). unfold xb_data_section, xb_pages.
    rewrite (save_rows_chk_ok _ 11 (p_rows p) Hch). cbn [bind].
    rewrite <- xb_file_plain. unfold p0, renum0, xb_file, xb_enc, xb_palb, xb_pal_part. cbn [p_w p_h p_ice p_pal p_rows].
    rewrite save_rows_map. reflexivity. }
  destruct (xb_load_any_compress p false k 0 f f (f_h f) s comp _ _ Hshape Hdu
              (xb_fixed_accepts _ _ _ (xb_load p0 s false f f (f_h f) Hh0))) as (data & Hs & Hl).
  exists data, (xb_bfin p0 false f f (f_h f)). split; [exact Hs|]. split; [exact Hl|].
  pose proof (xb_same p0 false f f (f_h f) Hh0) as (Sw & Sh & Sm & Scells & Spal & Sfonts).
  cbn [xb_fonts] in Sfonts.
  split; [exact Sw|]. split; [exact Sh|]. split; [exact Sm|]. split; [|exact Spal].
  (* cells: p -> p0 is a relabelling, p0 -> loaded is same_cell with pages *)
  unfold p0 at 1, renum0 in Scells. cbn [p_rows] in Scells.
  apply Forall2_map_l_inv in Scells.
  eapply Forall2_Forall_l; [|exact Hpages|exact Scells]. cbv beta. intros r r' Hr Hrr.
  apply Forall2_map_l_inv in Hrr.
  eapply Forall2_Forall_l; [|exact Hr|exact Hrr]. cbv beta. intros c c' Hck (Hch1 & Hsh & Hpg').
  split; [exact Hch1|]. split; [exact Hsh|].
  rewrite Hck, Hf. rewrite <- (Hpg' eq_refl). cbn [cell_with_page c_attr with_page font_page].
  unfold same_fonts in Sfonts. apply Forall_inv in Sfonts. unfold p0, renum0 in Sfonts. cbn [p_fonts get_font N.eqb] in Sfonts.
  exact Sfonts.
Qed.

(* ------------------------------------------------------------------ a picture that uses two font pages, whatever their numbers *)
Definition renum2 (p : pic) (pb : N) (fa fb : font) : pic :=
  mkPic (p_w p) (p_h p) (p_ice p)
        (map (map (fun c => cell_with_page c (if (pg c =? pb)%N then 1 else 0)%N)) (p_rows p)) (p_pal p) [(0%N, fa); (1%N, fb)].

Lemma used_pages_from_cells rows l : used_pages rows = l -> (2 <= length l)%nat ->
  forall x, In x l -> exists c, In c (concat rows) /\ pg c = x.
Proof.
  unfold used_pages. intros H Hl x Hx.
  destruct (fold_left (fun acc c => insert_sorted (pg c) acc) (concat rows) []) as [|a t] eqn:E.
  - subst l. cbn in Hl. lia.
  - subst l. rewrite <- E in Hx. apply fold_insert_In in Hx. destruct Hx as [[]|Hx]. exact Hx.
Qed.

Lemma save_rows_ext (e1 e2 : cell -> list N) rows : (forall c, e1 c = e2 c) -> save_rows e1 rows = save_rows e2 rows.
Proof. intro H. unfold save_rows. f_equal. apply map_ext. intro r. f_equal. apply map_ext. exact H. Qed.

Lemma xb_roundtrip_pages2 p s comp pa pb fa fb h :
  xb_common p -> used_pages (p_rows p) = [pa; pb] -> pa <> pb ->
  all_pic_cells (fun c => cell8 (p_ice p) c /\ (foreground_color (c_attr c) < 8)%N /\ is_bold (c_attr c) = false) p ->
  get_font (p_fonts p) pa = Some fa -> get_font (p_fonts p) pb = Some fb -> font_wf h fa -> font_wf h fb -> (1 <= h <= 32)%N ->
  exists data b, save_xbo comp p = Ok data /\ load_xb2 data s = Ok b /\ same_picture_glyphs p (pic_of b).
Proof.
  intros Hcommon Hused Hne Hcells Hfa Hfb Hwa Hwb Hh.
  pose proof Hcommon as (Hrect & Hw & Hhh & Hpl & Hp6).
  set (g := fun c : cell => cell_with_page c (if (pg c =? pb)%N then 1 else 0)%N).
  set (p0 := renum2 p pb fa fb).
  assert (Hpages : Forall (Forall (fun c => In (pg c) [pa; pb])) (p_rows p)) by (apply used_pages_all, Hused).
  destruct (used_pages_from_cells _ _ Hused ltac:(cbn; lia) pa ltac:(cbn; auto)) as (ca & Hca & Hpa).
  destruct (used_pages_from_cells _ _ Hused ltac:(cbn; lia) pb ltac:(cbn; auto)) as (cb & Hcb & Hpb).
  assert (Hr0 : representable_xb2 p0).
  { split; [|split; [|split]].
    - unfold xb_common, p0, renum2. cbn [p_w p_h p_pal p_rows].
      split; [|auto]. destruct Hrect as (H1 & H2 & H3 & H4). unfold rect. cbn [p_w p_h p_rows].
      split; [exact H1|]. split; [exact H2|]. split; [rewrite map_length; exact H3|].
      apply Forall_forall. intros r' Hr'. apply in_map_iff in Hr'. destruct Hr' as (r & <- & Hr).
      rewrite map_length. rewrite Forall_forall in H4. apply H4, Hr.
    - (* pages 0 and 1 are both in use *)
      assert (H01 : Forall (Forall (fun c => pg c = 0%N \/ pg c = 1%N)) (p_rows p0)).
      { unfold p0, renum2. cbn [p_rows]. apply Forall_forall. intros r' Hr'. apply in_map_iff in Hr'. destruct Hr' as (r & <- & Hr).
        apply Forall_forall. intros c' Hc'. apply in_map_iff in Hc'. destruct Hc' as (c & <- & Hc).
        cbn [cell_with_page c_attr with_page font_page]. destruct (pg c =? pb)%N; auto. }
      assert (Hin : forall c, In c (concat (p_rows p)) -> In (g c) (concat (p_rows p0))).
      { intros c Hc. unfold p0, renum2. cbn [p_rows]. rewrite <- concat_map. apply in_map. exact Hc. }
      pose proof (used_pages_In _ _ (Hin ca Hca)) as H0. pose proof (used_pages_In _ _ (Hin cb Hcb)) as H1.
      unfold g in H0, H1. cbn [cell_with_page c_attr with_page font_page] in H0, H1.
      rewrite Hpa in H0. rewrite Hpb, N.eqb_refl in H1.
      destruct (N.eqb_spec pa pb) as [E|_]; [contradiction|].
      destruct (used_pages_01 _ H01) as [Hu|[Hu|Hu]]; rewrite Hu in H0, H1; cbn in H0, H1.
      + destruct H1 as [H1|[]]. discriminate.
      + destruct H0 as [H0|[]]. discriminate.
      + exact Hu.
    - unfold all_pic_cells, p0, renum2. cbn [p_rows p_ice].
      apply Forall_forall. intros r' Hr'. apply in_map_iff in Hr'. destruct Hr' as (r & <- & Hr).
      apply Forall_forall. intros c' Hc'. apply in_map_iff in Hc'. destruct Hc' as (c & <- & Hc).
      unfold all_pic_cells in Hcells. rewrite Forall_forall in Hcells. specialize (Hcells r Hr).
      rewrite Forall_forall in Hcells. destruct (Hcells c Hc) as (H8 & Hfg & Hb).
      split; [exact H8|]. split; [exact Hfg|]. split; [exact Hb|].
      cbn [cell_with_page c_attr with_page font_page]. destruct (pg c =? pb)%N; auto.
    - exists fa, fb, h. unfold p0, renum2. cbn [p_fonts get_font N.eqb Pos.eqb]. auto. }
  destruct (xb2_hyps p0 Hr0) as (f0' & f1' & h' & Hh0).
  assert (Ef : f0' = fa /\ f1' = fb /\ h' = h).
  { destruct Hh0 as (_ & _ & Hg0 & Hwf0' & _ & Hg1 & _). destruct (Hg1 eq_refl) as (Hg1' & _).
    unfold p0, renum2 in Hg0, Hg1'. cbn [p_fonts get_font N.eqb Pos.eqb] in Hg0, Hg1'.
    injection Hg0 as <-. injection Hg1' as <-. split; [reflexivity|]. split; [reflexivity|].
    destruct Hwf0' as (E1 & _). destruct Hwa as (E2 & _). congruence. }
  destruct Ef as (-> & -> & ->).
  assert (Hshape : xb_shape_g p true pa pb fa fb h).
  { split; [split; [exact Hcommon|split; [exact Hwa|split; [exact Hh|intros _; exact Hwb]]]|].
    split; [exact Hused|]. split; [exact Hfa|intros _; exact Hfb]. }
  assert (Hch : Forall (Forall (fun c => (c_ch c < 256)%N)) (p_rows p)).
  { eapply Forall_impl; [|exact Hcells]. intros r Hr. eapply Forall_impl; [|exact Hr]. intros c ((Hc & _) & _). exact Hc. }
  assert (Hdu : save_xbo false p = Ok (xb_data p0 true fa fb h)).
  { rewrite (xb_saveo p true pa pb fa fb h false Hshape). unfold xb_data_section, xb_pages.
    rewrite (save_rows_chk_ok _ 11 (p_rows p) Hch). cbn [bind].
    assert (Hrows0 : save_rows (fun c => [c_ch c; encode_attr (p_ice p) [pa; pb] c]) (p_rows p) = save_rows (xb_enc p0 true) (p_rows p0)).
    { unfold p0 at 2, renum2. cbn [p_rows]. rewrite save_rows_map. apply save_rows_ext. intro c.
      unfold xb_enc, xb_fonts, encode_attr, p0, renum2. cbn [p_ice cell_with_page c_ch c_attr with_page font_page].
      f_equal. f_equal. f_equal. destruct (pg c =? pb)%N; reflexivity. }
    rewrite Hrows0. rewrite <- xb_file_plain. reflexivity. }
  destruct (xb_load_any_compress p true pa pb fa fb h s comp _ _ Hshape Hdu
              (xb_fixed_accepts _ _ _ (xb_load p0 s true fa fb h Hh0))) as (data & Hs & Hl).
  exists data, (xb_bfin p0 true fa fb h). split; [exact Hs|]. split; [exact Hl|].
  pose proof (xb_same p0 true fa fb h Hh0) as (Sw & Sh & Sm & Scells & Spal & Sfonts).
  cbn [xb_fonts] in Sfonts.
  split; [exact Sw|]. split; [exact Sh|]. split; [exact Sm|]. split; [|exact Spal].
  unfold p0 at 1, renum2 in Scells. cbn [p_rows] in Scells.
  apply Forall2_map_l_inv in Scells.
  eapply Forall2_Forall_l; [|exact Hpages|exact Scells]. cbv beta. intros r r' Hr Hrr.
  apply Forall2_map_l_inv in Hrr.
  eapply Forall2_Forall_l; [|exact Hr|exact Hrr]. cbv beta. intros c c' Hck (Hch1 & Hsh & Hpg').
  split; [exact Hch1|]. split; [exact Hsh|].
  rewrite <- (Hpg' eq_refl). cbn [cell_with_page c_attr with_page font_page].
  unfold same_fonts in Sfonts. pose proof (Forall_inv Sfonts) as S0. pose proof (Forall_inv (Forall_inv_tail Sfonts)) as S1'.
  unfold p0, renum2 in S0, S1'. cbn [p_fonts get_font N.eqb Pos.eqb] in S0, S1'.
  destruct Hck as [Hck|[Hck|[]]].
  - rewrite <- Hck, Hfa. destruct (N.eqb_spec pa pb) as [E|_]; [contradiction|]. exact S0.
  - rewrite <- Hck, Hfb, N.eqb_refl. exact S1'.
Qed.

(* ------------------------------------------------------------------ what the readers store, on arbitrary bytes *)
Definition stored_xb (m : IceMode) (ext : bool) (c : cell) : Prop :=
  c = invisible_cell \/ exists ch a, (ch < 256)%N /\ (a < 256)%N /\ c = xb_decode m ext ch a.

Lemma stored_xb_plain m c : stored_xb m false c -> stored8 m c.
Proof.
  intros [->|(ch & a & Hch & Ha & ->)]; [left; reflexivity|right]. exists ch, a. rewrite xb_decode_plain. auto.
Qed.

(* 512-character mode: 256 attribute bytes x 3 modes *)
Lemma xb_dec2_sweep :
  forallb (fun m => forallb (fun a =>
     let d := xb_decode m true 0 a in
     is_visible d && expressible_core m (foreground_color (c_attr d)) (background_color (c_attr d)) (is_blinking (c_attr d))
     && (foreground_color (c_attr d) <? 8)%N && negb (is_bold (c_attr d))
     && ((font_page (c_attr d) =? 0)%N || (font_page (c_attr d) =? 1)%N)) (nrange 256)) all_modes = true.
Proof. vm_compute. reflexivity. Qed.

Lemma default_two_fonts m : cell8_two_fonts m (cell_with_page default_cell 0).
Proof.
  split; [apply default_cell8|]. split; [vm_compute; reflexivity|]. split; [reflexivity|left; reflexivity].
Qed.

Lemma stored2_seen m c : stored_xb m true c -> cell8_two_fonts m (seen c).
Proof.
  intros [->|(ch & a & Hch & Ha & ->)].
  - unfold seen. change (is_visible invisible_cell) with false. apply default_two_fonts.
  - pose proof (all_modes_forallb _ xb_dec2_sweep m) as H. cbv beta in H.
    pose proof (nrange_forallb _ _ H a Ha) as H1. cbv beta zeta in H1.
    apply andb_prop in H1 as [H1 Hp]. apply andb_prop in H1 as [H1 Hb]. apply andb_prop in H1 as [H1 Hfg].
    apply andb_prop in H1 as [Hv He].
    assert (Hdec : xb_decode m true ch a = mkCell ch (c_attr (xb_decode m true 0 a))) by reflexivity.
    rewrite Hdec. unfold seen.
    assert (Hv' : is_visible (mkCell ch (c_attr (xb_decode m true 0 a))) = true) by exact Hv.
    rewrite Hv'. cbn [c_ch c_attr].
    split; [split; [exact Hch|exact He]|]. split; [apply N.ltb_lt, Hfg|]. split; [apply negb_true_iff, Hb|].
    apply orb_prop in Hp as [Hp|Hp]; apply N.eqb_eq in Hp; auto.
Qed.

(* ------------------------------------------------------------------ layer invariant of the readers *)
Section LInv.
  Variable P : cell -> Prop.
  Variable w h : Z.
  Hypothesis Hw : 0 < w.
  Hypothesis HPi : P invisible_cell.

  Definition linv (L : layer) : Prop :=
    l_w L = w /\ l_h L = h /\ lines_nonempty (l_lines L) /\ all_cells P (l_lines L) /\
    (length (l_lines L) <= Z.to_nat h)%nat.

  Lemma linv_put L x y c : P c -> linv L -> linv (put false L x y c).
  Proof.
    intros Hc (H1 & H2 & H3 & H4 & H5).
    destruct (put_false_lines_bound L x y c ltac:(rewrite H2; exact H5)) as (Hh & Hl).
    split; [rewrite put_width; exact H1|]. split; [rewrite Hh; exact H2|].
    split; [apply put_nonempty; [rewrite H1; exact Hw|exact H3]|].
    split; [apply put_all_cells; assumption|]. rewrite <- H2. exact Hl.
  Qed.

  Variable m : IceMode.
  Variable fixed : bool.
  Variable rw : Z.
  Hypothesis Hdec : forall ch a, (ch < 256)%N -> (a < 256)%N -> P (xb_decode m fixed ch a).
  Let dec := xb_decode m fixed.

  Lemma xbc_off_inv : forall n L x y bs L' x' y' r,
    is_bytes bs -> linv L -> xbc_off rw dec n L x y bs = (L', x', y', r) -> linv L' /\ is_bytes r.
  Proof.
    induction n as [|n IH]; intros L x y bs L' x' y' r Hb Hi H.
    - cbn in H. injection H as <- _ _ <-. auto.
    - destruct bs as [|c [|a t]]; try (cbn in H; injection H as <- _ _ <-; auto).
      cbn [xbc_off] in H. destruct (xb_adv rw x y) as [x1 y1].
      inversion Hb as [|? ? Hc Hb1]; subst. inversion Hb1 as [|? ? Ha Hb2]; subst.
      apply (IH _ _ _ _ _ _ _ _ Hb2 (linv_put L x y _ (Hdec c a Hc Ha) Hi) H).
  Qed.

  Lemma xbc_char_inv code : (code < 256)%N -> forall n L x y bs L' x' y' r,
    is_bytes bs -> linv L -> xbc_char rw dec code n L x y bs = (L', x', y', r) -> linv L' /\ is_bytes r.
  Proof.
    intro Hcode. induction n as [|n IH]; intros L x y bs L' x' y' r Hb Hi H.
    - cbn in H. injection H as <- _ _ <-. auto.
    - destruct bs as [|a t]; [cbn in H; injection H as <- _ _ <-; auto|].
      cbn [xbc_char] in H. destruct (xb_adv rw x y) as [x1 y1].
      inversion Hb as [|? ? Ha Hb1]; subst.
      apply (IH _ _ _ _ _ _ _ _ Hb1 (linv_put L x y _ (Hdec code a Hcode Ha) Hi) H).
  Qed.

  Lemma xbc_attr_inv a : (a < 256)%N -> forall n L x y bs L' x' y' r,
    is_bytes bs -> linv L -> xbc_attr rw dec a n L x y bs = (L', x', y', r) -> linv L' /\ is_bytes r.
  Proof.
    intro Ha. induction n as [|n IH]; intros L x y bs L' x' y' r Hb Hi H.
    - cbn in H. injection H as <- _ _ <-. auto.
    - destruct bs as [|c t]; [cbn in H; injection H as <- _ _ <-; auto|].
      cbn [xbc_attr] in H. destruct (xb_adv rw x y) as [x1 y1].
      inversion Hb as [|? ? Hc Hb1]; subst.
      apply (IH _ _ _ _ _ _ _ _ Hb1 (linv_put L x y _ (Hdec c a Hc Ha) Hi) H).
  Qed.

  Lemma xbc_full_inv c : P c -> forall n L x y L' x' y',
    linv L -> xbc_full rw c n L x y = (L', x', y') -> linv L'.
  Proof.
    intro Hc. induction n as [|n IH]; intros L x y L' x' y' Hi H.
    - cbn in H. injection H as <- _ _. exact Hi.
    - cbn [xbc_full] in H. destruct (xb_adv rw x y) as [x1 y1].
      apply (IH _ _ _ _ _ _ (linv_put L x y _ Hc Hi) H).
  Qed.

  Lemma xbc_loop_inv : forall fuel bs L x y L',
    is_bytes bs -> linv L -> xbc_loop rw dec fuel L x y bs = Ok L' -> linv L'.
  Proof.
    induction fuel as [|f IH]; intros bs L x y L' Hb Hi H.
    - destruct bs; cbn in H; [injection H as <-; exact Hi|discriminate].
    - destruct bs as [|hd t]; [cbn in H; injection H as <-; exact Hi|].
      unfold dec in H. rewrite xbc_step in H. cbv zeta in H. fold dec in H.
      inversion Hb as [|? ? Hhd Ht]; subst.
      destruct (xb_run_type hd =? 0)%N.
      { destruct (xbc_off rw dec (xb_run_count hd) L x y t) as [[[L1 x1] y1] r] eqn:E.
        destruct (xbc_off_inv _ _ _ _ _ _ _ _ _ Ht Hi E) as (Hi1 & Hr). apply (IH _ _ _ _ _ Hr Hi1 H). }
      destruct (xb_run_type hd =? 64)%N.
      { destruct t as [|code t']; [cbn in H; injection H as <-; exact Hi|].
        cbn [length Nat.ltb Nat.leb rd bind] in H. inversion Ht as [|? ? Hcode Ht']; subst.
        destruct (xbc_char rw dec code (xb_run_count hd) L x y t') as [[[L1 x1] y1] r] eqn:E.
        destruct (xbc_char_inv code Hcode _ _ _ _ _ _ _ _ _ Ht' Hi E) as (Hi1 & Hr). apply (IH _ _ _ _ _ Hr Hi1 H). }
      destruct (xb_run_type hd =? 128)%N.
      { destruct t as [|a t']; [cbn in H; injection H as <-; exact Hi|].
        cbn [length Nat.ltb Nat.leb rd bind] in H. inversion Ht as [|? ? Ha Ht']; subst.
        destruct (xbc_attr rw dec a (xb_run_count hd) L x y t') as [[[L1 x1] y1] r] eqn:E.
        destruct (xbc_attr_inv a Ha _ _ _ _ _ _ _ _ _ Ht' Hi E) as (Hi1 & Hr). apply (IH _ _ _ _ _ Hr Hi1 H). }
      destruct t as [|code [|a r]]; try (cbn in H; injection H as <-; exact Hi).
      cbn [length Nat.ltb Nat.leb rd bind] in H.
      inversion Ht as [|? ? Hcode Ht']; subst. inversion Ht' as [|? ? Ha Hr]; subst.
      destruct (xbc_full rw (dec code a) (xb_run_count hd) L x y) as [[L1 x1] y1] eqn:E.
      pose proof (xbc_full_inv _ (Hdec code a Hcode Ha) _ _ _ _ _ _ _ Hi E) as Hi1. apply (IH _ _ _ _ _ Hr Hi1 H).
  Qed.

  Lemma pair_loop_inv : forall n data, (length data <= n)%nat -> is_bytes data -> forall L x y,
    linv L -> linv (pair_loop false dec rw L x y data).
  Proof.
    induction n as [|n IH]; intros data Hn Hb L x y Hi.
    - destruct data; [exact Hi|cbn in Hn; lia].
    - destruct data as [|c [|a t]]; try exact Hi. cbn [length] in Hn. cbn [pair_loop].
      inversion Hb as [|? ? Hc Hb1]; subst. inversion Hb1 as [|? ? Ha Hb2]; subst.
      destruct (x + 1 >=? rw); apply IH; try lia; try assumption; apply linv_put; try assumption; apply Hdec; assumption.
  Qed.
End LInv.

(* ------------------------------------------------------------------ what any accepted XBin file loads as *)
Lemma fontok_default : fontok default_font.
Proof.
  destruct default_font_wf as (D1 & D2 & D3 & D4). unfold fontok. rewrite D1.
  split; [repeat split; assumption|]. split; [lia|]. intros _. unfold same_font. auto.
Qed.

Lemma xb2_loaded : forall data s b, is_bytes data -> load_xb2 data s = Ok b ->
  exists (ext : bool) fonts,
    xb_common (pic_of b) /\
    all_pic_cells (fun c => if ext then cell8_two_fonts (p_ice (pic_of b)) c else cell8_page0 (p_ice (pic_of b)) c) (pic_of b) /\
    p_fonts (pic_of b) = fonts /\
    ((ext = false /\ exists f, fonts = [(0%N, f)] /\ fontok f) \/
     (ext = true /\ exists f g, fonts = [(0%N, f); (1%N, g)] /\ fontok f /\ fontok g /\ f_h f = f_h g) \/
     (ext = true /\ fonts = [(0%N, default_font)])).
Proof.
  intros data s b Hbytes Hload. unfold load_xb2 in Hload.
  destruct (Nat.ltb_spec (length data) (N.to_nat XBIN_HEADER_SIZE)) as [|_]; [discriminate|].
  destruct data as [|i0 [|i1 [|i2 [|i3 [|eof [|wl [|wh [|hl [|hh [|fs [|flags rest]]]]]]]]]]]; try discriminate.
  destruct (list_eq_dec N.eq_dec [i0; i1; i2; i3] XBIN_ID); cbn [negb] in Hload; [|discriminate].
  set (w := Z.of_N (wl + wh * 256)) in *. set (h := Z.of_N (hl + hh * 256)) in *.
  destruct ((w <? 1) || (4096 <? w)) eqn:Ew; [discriminate|].
  apply orb_false_elim in Ew as [Ew1 Ew2]. apply Z.ltb_ge in Ew1, Ew2.
  set (font_size := if (fs =? 0)%N then 16%N else fs) in *.
  destruct (N.ltb_spec 32 font_size) as [|Hfs32]; [discriminate|].
  assert (Hfs1 : (1 <= font_size)%N) by (unfold font_size; destruct (N.eqb_spec fs 0); lia).
  set (ext := has_flag8 flags XBIN_FLAG_512CHAR_MODE) in *.
  set (ice := has_flag8 flags XBIN_FLAG_NON_BLINK_MODE) in *.
  rewrite (xb_header_state s w h ext ice) in Hload.
  assert (Hb : is_bytes rest /\ (hl < 256)%N /\ (hh < 256)%N).
  { unfold is_bytes in Hbytes. repeat match goal with H : Forall _ (_ :: _) |- _ => inversion H; clear H; subst end. auto. }
  destruct Hb as (Hrest & Hhl & Hhh).
  assert (Hh : 0 <= h <= 65535) by (unfold h; lia).
  (* palette *)
  assert (Hpal : exists pal rest1, is_bytes rest1 /\ length pal = 16%nat /\ Forall six_bit pal /\
            (if has_flag8 flags XBIN_FLAG_PALETTE
             then if (length rest <? N.to_nat XBIN_PALETTE_LENGTH)%nat then Err 5 else
                  let* '(pb, rest0) := take_slice (N.to_nat XBIN_PALETTE_LENGTH) rest in
                  let* pal0 := from_63 pb in Ok (set_pal (xb_base w h ext ice) pal0, rest0)
             else Ok (xb_base w h ext ice, rest)) = Ok (set_pal (xb_base w h ext ice) pal, rest1)).
  { destruct (has_flag8 flags XBIN_FLAG_PALETTE).
    - destruct (length rest <? N.to_nat XBIN_PALETTE_LENGTH)%nat; [discriminate|].
      destruct (take_slice (N.to_nat XBIN_PALETTE_LENGTH) rest) as [[pb r0]| |] eqn:Ets; cbn [bind] in Hload |- *; try discriminate.
      destruct (take_slice_ok _ _ _ _ Ets) as (Hl & ->).
      apply Forall_app in Hrest as (Hpb & Hr0).
      destruct (from_63 pb) as [pal0| |] eqn:E63; cbn [bind] in Hload |- *; try discriminate.
      destruct (from_63_shape pb pal0 Hpb E63) as (H3 & H6).
      exists pal0, r0. split; [exact Hr0|]. split; [|split; [exact H6|reflexivity]].
      rewrite Hl in H3. change (N.to_nat XBIN_PALETTE_LENGTH) with 48%nat in H3. lia.
    - exists DOS_DEFAULT_PALETTE, rest. destruct dos_default_six_bit as (H6 & Hl).
      split; [exact Hrest|]. split; [exact Hl|]. split; [exact H6|]. destruct ext, ice; reflexivity. }
  destruct Hpal as (pal & rest1 & Hrest1 & Hpl & Hp6 & Hpaleq). rewrite Hpaleq in Hload. cbn [bind] in Hload.
  set (b1 := set_pal (xb_base w h ext ice) pal) in *.
  (* fonts *)
  assert (Hfont : exists fonts rest2, is_bytes rest2 /\
            ((ext = false /\ exists f, fonts = [(0%N, f)] /\ fontok f) \/
             (ext = true /\ exists f g, fonts = [(0%N, f); (1%N, g)] /\ fontok f /\ fontok g /\ f_h f = f_h g) \/
             (ext = true /\ fonts = [(0%N, default_font)])) /\
            (if has_flag8 flags XBIN_FLAG_FONT
             then if (length rest1 <? N.to_nat font_size * 256 * (if ext then 2 else 1))%nat then Err 5 else
                  let* '(fb, rest0) := take_slice (N.to_nat font_size * 256) rest1 in
                  let* f0 := font_create_8 font_size fb in
                  if ext then
                    let* '(fb1, rest3) := take_slice (N.to_nat font_size * 256) rest0 in
                    let* f1 := font_create_8 font_size fb1 in
                    Ok (set_fonts b1 [(0%N, font_named_default f0); (1%N, font_named_default f1)], rest3)
                  else Ok (set_fonts b1 [(0%N, font_named_default f0)], rest0)
             else Ok (b1, rest1)) = Ok (set_fonts b1 fonts, rest2)).
  { destruct (has_flag8 flags XBIN_FLAG_FONT).
    - destruct (length rest1 <? N.to_nat font_size * 256 * (if ext then 2 else 1))%nat; [discriminate|].
      destruct (take_slice (N.to_nat font_size * 256) rest1) as [[fb r0]| |] eqn:Ets; cbn [bind] in Hload |- *; try discriminate.
      destruct (take_slice_ok _ _ _ _ Ets) as (Hl & ->).
      apply Forall_app in Hrest1 as (Hfb & Hr0).
      destruct (font_create_8 font_size fb) as [f0| |] eqn:Ef; cbn [bind] in Hload |- *; try discriminate.
      destruct (loaded_font_ok font_size fb f0 ltac:(lia) Hl Ef) as (H1 & H2 & H3).
      destruct ext eqn:Eext.
      + destruct (take_slice (N.to_nat font_size * 256) r0) as [[fb1 r1]| |] eqn:Ets1; cbn [bind] in Hload |- *; try discriminate.
        destruct (take_slice_ok _ _ _ _ Ets1) as (Hl1 & ->).
        apply Forall_app in Hr0 as (Hfb1 & Hr1).
        destruct (font_create_8 font_size fb1) as [f1| |] eqn:Ef1; cbn [bind] in Hload |- *; try discriminate.
        destruct (loaded_font_ok font_size fb1 f1 ltac:(lia) Hl1 Ef1) as (G1 & G2 & G3).
        exists [(0%N, font_named_default f0); (1%N, font_named_default f1)], r1.
        split; [exact Hr1|]. split; [|reflexivity].
        right. left. split; [reflexivity|]. exists (font_named_default f0), (font_named_default f1).
        split; [reflexivity|]. split; [exact (conj H1 (conj H2 H3))|]. split; [exact (conj G1 (conj G2 G3))|].
        destruct (font_create_8_wf font_size fb f0 ltac:(lia) ltac:(lia) Ef) as ((E0 & _) & _).
        destruct (font_create_8_wf font_size fb1 f1 ltac:(lia) ltac:(lia) Ef1) as ((E1 & _) & _).
        cbn [font_named_default f_h]. congruence.
      + exists [(0%N, font_named_default f0)], r0. split; [exact Hr0|]. split; [|reflexivity].
        left. split; [reflexivity|]. exists (font_named_default f0). split; [reflexivity|exact (conj H1 (conj H2 H3))].
    - exists [(0%N, default_font)], rest1. split; [exact Hrest1|]. split.
      + destruct ext; [right; right; auto|left; split; [reflexivity|]]. exists default_font. split; [reflexivity|apply fontok_default].
      + unfold b1. destruct ext, ice; reflexivity. }
  destruct Hfont as (fonts & rest2 & Hrest2 & Hfcase & Hfonteq). rewrite Hfonteq in Hload. cbn [bind] in Hload.
  set (b2 := set_fonts b1 fonts) in *.
  change (b_w b2) with w in Hload. change (b_ice b2) with (if ice then Ice else Blink) in Hload.
  change (b_layer b2) with (mkLayer w h []) in Hload.
  set (m := if ice then Ice else Blink) in *.
  (* the data section, either layout *)
  assert (Hinv0 : linv (stored_xb m ext) w h (mkLayer w h [])).
  { unfold linv. cbn [l_w l_h l_lines length]. repeat split; try constructor. lia. }
  assert (Hdec : forall ch a, (ch < 256)%N -> (a < 256)%N -> stored_xb m ext (xb_decode m ext ch a)).
  { intros ch a Hch Ha. right. exists ch, a. auto. }
  assert (HL : exists L, linv (stored_xb m ext) w h L /\ b = crop_loaded_file (set_layer b2 L)).
  { destruct (has_flag8 flags XBIN_FLAG_COMPRESS).
    - destruct (xb_read_compressed w m ext (mkLayer w h []) rest2) as [L| |] eqn:EL; cbn [bind] in Hload; try discriminate.
      injection Hload as <-. exists L. split; [|reflexivity].
      unfold xb_read_compressed in EL.
      apply (xbc_loop_inv (stored_xb m ext) w h ltac:(lia) (or_introl eq_refl) m ext w Hdec _ _ _ _ _ _ Hrest2 Hinv0 EL).
    - cbn [bind] in Hload. injection Hload as <-. eexists. split; [|reflexivity].
      unfold xb_read_uncompressed.
      apply (pair_loop_inv (stored_xb m ext) w h ltac:(lia) (or_introl eq_refl) m ext w Hdec _ rest2 (le_n _) Hrest2 _ _ _ Hinv0). }
  destruct HL as (L & (HLw & HLh & HLne & HLcells & HLlen) & ->).
  rewrite crop_nonempty by exact HLne. cbn [b_layer set_layer l_w l_lines]. rewrite HLw.
  set (n := Z.of_nat (length (l_lines L))) in *.
  exists ext, fonts.
  cbn [pic_of p_w p_h p_ice p_pal p_fonts b_w b_h b_ice b_pal b_fonts set_height set_layer].
  change (b_w b2) with w. change (b_ice b2) with m. change (b_pal b2) with pal. change (b_fonts b2) with fonts.
  split; [|split; [|split; [reflexivity|exact Hfcase]]].
  - unfold xb_common. cbn [pic_of p_w p_h p_pal b_w b_h b_pal set_height set_layer].
    change (b_w b2) with w. change (b_pal b2) with pal.
    split; [|split; [lia|split; [unfold n; lia|split; [exact Hpl|exact Hp6]]]].
    unfold rect. apply (pic_of_rect (set_height (set_layer b2 (mkLayer w n (l_lines L))) n)); cbn [b_w b_h set_height set_layer].
    + change (b_w b2) with w. lia.
    + unfold n. lia.
  - unfold all_pic_cells.
    apply (pic_of_all_cells (stored_xb m ext) (fun c => if ext then cell8_two_fonts m c else cell8_page0 m c));
      cbn [b_w b_h b_layer set_height set_layer l_w l_h l_lines].
    + change (b_w b2) with w. lia.
    + lia.
    + left. reflexivity.
    + exact HLcells.
    + intros c Hc. destruct ext; [apply stored2_seen, Hc|apply stored8_seen, stored_xb_plain, Hc].
Qed.

(* ------------------------------------------------------------------ re-save *)
Lemma cells_two_to_page0 m rows :
  Forall (Forall (cell8_two_fonts m)) rows -> Forall (Forall (fun c => pg c = 0%N)) rows -> Forall (Forall (cell8_page0 m)) rows.
Proof.
  intros H1 H2. apply Forall_forall. intros r Hr. rewrite Forall_forall in H1, H2.
  specialize (H1 r Hr). specialize (H2 r Hr). apply Forall_forall. intros c Hc. rewrite Forall_forall in H1, H2.
  destruct (H1 c Hc) as (H8 & _). split; [exact H8|exact (H2 c Hc)].
Qed.

Lemma xb1_of_fontok p f : xb_common p -> all_pic_cells (cell8_page0 (p_ice p)) p -> get_font (p_fonts p) 0 = Some f -> fontok f ->
  representable_xb1 p.
Proof. intros Hc Hcells Hf (H1 & H2 & H3). split; [exact Hc|]. split; [exact Hcells|]. exists f. auto. Qed.

(* every file the loader accepts, unless it loads as known finding 2 *)
Lemma xb2_resave_proof : forall data s b,
  is_bytes data -> load_xb2 data s = Ok b -> ~ KnownC05_xb_font2_missing (pic_of b) ->
  forall compress s', exists data' b',
    save_xbo compress (pic_of b) = Ok data' /\ load_xb2 data' s' = Ok b' /\
    same_picture_glyphs (pic_of b) (pic_of b') /\
    (used_pages (p_rows (pic_of b)) <> [1%N] ->
     same_picture true (used_pages (p_rows (pic_of b))) (pic_of b) (pic_of b')).
Proof.
  intros data s b Hbytes Hload Hnk comp s'.
  destruct (xb2_loaded data s b Hbytes Hload) as (ext & fonts & Hcommon & Hcells & Hfonts & Hcase).
  set (p := pic_of b) in *.
  (* the one-font outcome, shared by several cases *)
  assert (Hone : forall f, all_pic_cells (cell8_page0 (p_ice p)) p -> get_font (p_fonts p) 0 = Some f -> fontok f ->
            exists data' b', save_xbo comp p = Ok data' /\ load_xb2 data' s' = Ok b' /\ same_picture_glyphs p (pic_of b') /\
                             (used_pages (p_rows p) <> [1%N] -> same_picture true (used_pages (p_rows p)) p (pic_of b'))).
  { intros f Hc0 Hf Hok.
    destruct (xb_roundtrip1_o_proof comp p s' (xb1_of_fontok p f Hcommon Hc0 Hf Hok)) as (d' & b' & Hs & Hl & Hsame).
    assert (Hu : used_pages (p_rows p) = [0%N]) by (apply used_pages_page0, (cells_page0 (p_ice p)), Hc0).
    exists d', b'. split; [exact Hs|]. split; [exact Hl|]. split.
    - apply (same_picture_to_glyphs [0%N]); [exact Hsame|]. apply used_pages_all, Hu.
    - intros _. rewrite Hu. exact Hsame. }
  destruct Hcase as [(-> & f & Ef & Hok) | [(-> & f & g & Ef & Hokf & Hokg & Hfg) | (-> & Ef)]].
  - (* 256-character mode *)
    apply (Hone f); [exact Hcells| |exact Hok]. rewrite Hfonts, Ef. reflexivity.
  - (* 512-character mode with two fonts *)
    assert (H01 : Forall (Forall (fun c => pg c = 0%N \/ pg c = 1%N)) (p_rows p)).
    { eapply Forall_impl; [|exact Hcells]. intros r Hr. eapply Forall_impl; [|exact Hr]. intros c (_ & _ & _ & H). exact H. }
    assert (Hg0 : get_font (p_fonts p) 0 = Some f) by (rewrite Hfonts, Ef; reflexivity).
    assert (Hg1 : get_font (p_fonts p) 1 = Some g) by (rewrite Hfonts, Ef; reflexivity).
    destruct (used_pages_01 _ H01) as [Hu|[Hu|Hu]].
    + apply (Hone f); [|exact Hg0|exact Hokf].
      apply cells_two_to_page0; [exact Hcells|]. apply used_pages_single_all, Hu.
    + (* only page 1 is in use: written as a one-font file *)
      assert (Hc8 : all_pic_cells (cell8 (p_ice p)) p).
      { eapply Forall_impl; [|exact Hcells]. intros r Hr. eapply Forall_impl; [|exact Hr]. intros c (H8 & _). exact H8. }
      destruct (xb_roundtrip_page p s' comp 1 g Hcommon Hu Hc8 Hg1 Hokg) as (d' & b' & Hs & Hl & Hsame).
      exists d', b'. split; [exact Hs|]. split; [exact Hl|]. split; [exact Hsame|]. intro Hne. congruence.
    + destruct Hokf as (Hwf & Hfh & _). destruct Hokg as (Hwg & _ & _).
      assert (Hr2 : representable_xb2 p).
      { split; [exact Hcommon|]. split; [exact Hu|]. split; [exact Hcells|].
        exists f, g, (f_h f). split; [exact Hg0|]. split; [exact Hg1|]. split; [exact Hwf|]. split; [rewrite Hfg; exact Hwg|exact Hfh]. }
      destruct (xb_roundtrip2_o_proof comp p s' Hr2) as (d' & b' & Hs & Hl & Hsame).
      exists d', b'. split; [exact Hs|]. split; [exact Hl|]. split.
      * apply (same_picture_to_glyphs [0%N; 1%N]); [exact Hsame|]. apply used_pages_all, Hu.
      * intros _. rewrite Hu. exact Hsame.
  - (* 512-character mode without a font block *)
    assert (H01 : Forall (Forall (fun c => pg c = 0%N \/ pg c = 1%N)) (p_rows p)).
    { eapply Forall_impl; [|exact Hcells]. intros r Hr. eapply Forall_impl; [|exact Hr]. intros c (_ & _ & _ & H). exact H. }
    assert (Hg1 : get_font (p_fonts p) 1 = None) by (rewrite Hfonts, Ef; reflexivity).
    destruct (used_pages_01 _ H01) as [Hu|[Hu|Hu]].
    + apply (Hone default_font); [| |apply fontok_default].
      * apply cells_two_to_page0; [exact Hcells|]. apply used_pages_single_all, Hu.
      * rewrite Hfonts, Ef. reflexivity.
    + exfalso. apply Hnk. split; [rewrite Hu; left; reflexivity|exact Hg1].
    + exfalso. apply Hnk. split; [rewrite Hu; right; left; reflexivity|exact Hg1].
Qed.

(* known finding 2 is exactly the class of accepted files that cannot be saved again: the writer refuses with
   NoFontFound (only page 1 in use) or "Can't get second font" (both pages in use) *)
Lemma xb2_known_refused : forall data s b compress,
  is_bytes data -> load_xb2 data s = Ok b -> KnownC05_xb_font2_missing (pic_of b) ->
  save_xbo compress (pic_of b) = Err 1 \/ save_xbo compress (pic_of b) = Err 10.
Proof.
  intros data s b comp Hbytes Hload (Hin & Hnone).
  destruct (xb2_loaded data s b Hbytes Hload) as (ext & fonts & Hcommon & Hcells & Hfonts & Hcase).
  set (p := pic_of b) in *.
  destruct Hcase as [(-> & f & Ef & Hok) | [(-> & f & g & Ef & Hokf & Hokg & Hfg) | (-> & Ef)]].
  - exfalso. rewrite (used_pages_page0 _ (cells_page0 (p_ice p) p Hcells)) in Hin. destruct Hin as [E|[]]. discriminate.
  - exfalso. rewrite Hfonts, Ef in Hnone. discriminate.
  - assert (H01 : Forall (Forall (fun c => pg c = 0%N \/ pg c = 1%N)) (p_rows p)).
    { eapply Forall_impl; [|exact Hcells]. intros r Hr. eapply Forall_impl; [|exact Hr]. intros c (_ & _ & _ & H). exact H. }
    destruct (used_pages_01 _ H01) as [Hu|[Hu|Hu]].
    + exfalso. rewrite Hu in Hin. destruct Hin as [E|[]]. discriminate.
    + left. unfold save_xbo. rewrite Hu, Hnone. reflexivity.
    + right. destruct Hcommon as (_ & _ & _ & Hpl & _).
      destruct default_font_wf as (D1 & D2 & D3 & D4).
      unfold save_xbo. rewrite Hu, Hfonts, Ef. cbn [get_font N.eqb]. rewrite D2, D1.
      cbn [N.eqb Pos.eqb negb length Nat.ltb Nat.leb Nat.eqb N.ltb N.compare Pos.compare Pos.compare_cont orb].
      change ((if negb (f_default default_font) || true then XBIN_FLAG_FONT else 0) + (if negb (pal_is_default (p_pal p)) then XBIN_FLAG_PALETTE else 0)
              + (if comp then XBIN_FLAG_COMPRESS else 0)
              + (if is_ice (p_ice p) then XBIN_FLAG_NON_BLINK_MODE else 0) + XBIN_FLAG_512CHAR_MODE)%N
        with (xb_flagsc (xb_fontb default_font true) (xb_palb p) comp (is_ice (p_ice p)) true).
      destruct (xb_flagsc_decode (xb_fontb default_font true) (xb_palb p) comp (is_ice (p_ice p)) true) as (Hd1 & Hd2 & _ & _ & _).
      rewrite Hd1, Hd2.
      assert (Hpp : exists d, (if xb_palb p then
                       (if negb (length (as_vec_63 (fill_to_16 (p_pal p))) =? N.to_nat XBIN_PALETTE_LENGTH)%nat then Err 5
                        else Ok (as_vec_63 (fill_to_16 (p_pal p))))
                     else Ok []) = Ok d).
      { destruct (xb_palb p); [|eexists; reflexivity]. rewrite fill_to_16_full by exact Hpl.
        rewrite as_vec_63_length, Hpl. eexists. reflexivity. }
      destruct Hpp as (d & Hpp). rewrite Hpp. cbn [bind].
      unfold xb_fontb. rewrite orb_true_r.
      rewrite (convert_wf_length 16 default_font default_font_wf). rewrite Nat.eqb_refl. cbn [negb]. reflexivity.
Qed.

Lemma xb2_refused_iff_known : forall data s b compress,
  is_bytes data -> load_xb2 data s = Ok b ->
  ((exists e, save_xbo compress (pic_of b) = Err e) <-> KnownC05_xb_font2_missing (pic_of b)).
Proof.
  intros data s b comp Hbytes Hload. split.
  - intros (e & He).
    destruct (in_dec N.eq_dec 1%N (used_pages (p_rows (pic_of b)))) as [Hin|Hnin].
    + destruct (get_font (p_fonts (pic_of b)) 1) as [f|] eqn:Eg; [|split; assumption].
      exfalso. destruct (xb2_resave_proof data s b Hbytes Hload ltac:(intros (_ & H); congruence) comp None) as (d' & b' & Hs & _).
      congruence.
    + exfalso. destruct (xb2_resave_proof data s b Hbytes Hload ltac:(intros (H & _); auto) comp None) as (d' & b' & Hs & _).
      congruence.
  - intro Hk. destruct (xb2_known_refused data s b comp Hbytes Hload Hk) as [H|H]; eexists; exact H.
Qed.

(* a file in 512-character mode: byte 10 (the flags) has FLAG_512CHAR_MODE set *)
Definition xb_512_file (data : list N) : Prop :=
  exists flags, nth_error data 10 = Some flags /\ has_flag8 flags XBIN_FLAG_512CHAR_MODE = true.

(* the witness file of known finding 2 also through the loader as it is now and both writers *)
Lemma known_xb_font2_witness2 : forall compress,
  exists b, load_xb2 known_xb_file None = Ok b /\ KnownC05_xb_font2_missing (pic_of b) /\ save_xbo compress (pic_of b) = Err 1.
Proof.
  intro comp. destruct known_xb_font2_witness as (b & Hl & Hk & Hs).
  exists b. split; [apply xb_fixed_accepts, Hl|]. split; [exact Hk|].
  destruct Hk as (Hin & Hnone).
  assert (Hu : used_pages (p_rows (pic_of b)) = [1%N]).
  { assert (H : match load_xb known_xb_file None with Ok b' => used_pages (p_rows (pic_of b')) = [1%N] | _ => False end) by (vm_compute; reflexivity).
    rewrite Hl in H. exact H. }
  unfold save_xbo. rewrite Hu, Hnone. reflexivity.
Qed.
