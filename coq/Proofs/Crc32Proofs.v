(* CRC-32: the sliced table implementation equals bitwise division. *)
From Coq Require Import NArith Arith List Lia Btauto Bool.
From AAC_tactics Require Import AAC.
From IE Require Import Lib.Tbl Lib.Bits Gen.Crc Model.Crc.
Import ListNotations.
Local Open Scope N_scope.

Fixpoint bitn (n : nat) (c : N) : N :=
  match n with O => c | S n' => bit32 (bitn n' c) end.

Lemma bitn_iter n c : Nat.iter n bit32 c = bitn n c.
Proof. induction n as [|n IH]; [reflexivity|]. cbn [bitn]. rewrite <- IH. reflexivity. Qed.

Lemma bit32_lin a b : bit32 (N.lxor a b) = N.lxor (bit32 a) (bit32 b).
Proof.
  unfold bit32. rewrite N.shiftr_lxor, N.lxor_spec.
  destruct (N.testbit a 0), (N.testbit b 0); cbn [xorb]; xor_bits.
Qed.

Lemma bitn_lin n a b : bitn n (N.lxor a b) = N.lxor (bitn n a) (bitn n b).
Proof.
  induction n as [|n IH]; cbn [bitn]; [reflexivity|].
  rewrite IH, bit32_lin. reflexivity.
Qed.

Lemma bitn_0 n : bitn n 0 = 0.
Proof. induction n as [|n IH]; cbn [bitn]; [reflexivity|]. rewrite IH. reflexivity. Qed.

Lemma bitn_add n m c : bitn (n + m) c = bitn n (bitn m c).
Proof. induction n as [|n IH]; cbn [bitn Nat.add]; [reflexivity|]. rewrite IH. reflexivity. Qed.

Lemma bit32_shl y k : bit32 (N.shiftl y (N.succ k)) = N.shiftl y k.
Proof.
  unfold bit32. rewrite N.shiftl_spec_low by lia.
  rewrite N.shiftr_shiftl_l by lia. replace (N.succ k - 1) with k by lia.
  apply N.lxor_0_r.
Qed.

Lemma bitn8_shl8 y : bitn 8 (N.shiftl y 8) = y.
Proof.
  cbn [bitn].
  change 8 with (N.succ 7). rewrite bit32_shl.
  change 7 with (N.succ 6). rewrite bit32_shl.
  change 6 with (N.succ 5). rewrite bit32_shl.
  change 5 with (N.succ 4). rewrite bit32_shl.
  change 4 with (N.succ 3). rewrite bit32_shl.
  change 3 with (N.succ 2). rewrite bit32_shl.
  change 2 with (N.succ 1). rewrite bit32_shl.
  change 1 with (N.succ 0). rewrite bit32_shl.
  apply N.shiftl_0_r.
Qed.

(* one byte step = table part on the low byte, shift on the rest *)
Lemma bitn8_split x : bitn 8 x = N.lxor (bitn 8 (N.land x 255)) (N.shiftr x 8).
Proof.
  rewrite (split_low8 x) at 1. rewrite bitn_lin, bitn8_shl8. reflexivity.
Qed.

Lemma bitn_split (n m : nat) x : m = (n + 8)%nat ->
  bitn m x = N.lxor (bitn m (N.land x 255)) (bitn n (N.shiftr x 8)).
Proof. intros ->. rewrite !bitn_add, bitn8_split, bitn_lin. reflexivity. Qed.

(* ---- the tables, checked completely against the recurrence ---- *)
Definition entry_ok (k i : N) : bool :=
  (tget (tget2 CRC32_TABLE k) i =? bitn (8 * (N.to_nat k + 1)) i) && (tget (tget2 CRC32_TABLE k) i <? 4294967296).

Lemma table_ok_true : forallb (fun k => forallb (entry_ok k) (nrange 256)) (nrange 16) = true.
Proof. vm_compute. reflexivity. Qed.

Lemma table_spec k i : k < 16 -> i < 256 ->
  tget (tget2 CRC32_TABLE k) i = bitn (8 * (N.to_nat k + 1)) i /\ tget (tget2 CRC32_TABLE k) i < 4294967296.
Proof.
  intros Hk Hi.
  pose proof (nrange_forallb _ _ table_ok_true k Hk) as H1.
  pose proof (nrange_forallb _ _ H1 i Hi) as H2.
  unfold entry_ok in H2.
  apply andb_true_iff in H2. destruct H2 as [Ha Hb].
  apply N.eqb_eq in Ha. apply N.ltb_lt in Hb. split; assumption.
Qed.

Lemma table0_spec i : i < 256 -> tget (tget2 CRC32_TABLE 0) i = bitn 8 i.
Proof. intro Hi. apply (table_spec 0 i); [reflexivity|exact Hi]. Qed.

(* ---- single-byte steps ---- *)
Lemma low_xor c b : b < 256 -> N.land (N.lxor c b) 255 = N.lxor (c mod 256) b.
Proof. intro Hb. rewrite land_lxor_distr_l, (land255_small b) by exact Hb. rewrite land_255_mod. reflexivity. Qed.

Lemma idx_lt c b : b < 256 -> N.lxor (c mod 256) b < 256.
Proof. intro Hb. apply lxor_lt_256; [apply N.mod_lt; discriminate|exact Hb]. Qed.

Lemma idx2_lt b x : b < 256 -> N.lxor b (N.land x 255) < 256.
Proof. intro Hb. apply lxor_lt_256; [exact Hb|]. rewrite land_255_mod. apply N.mod_lt. discriminate. Qed.

Lemma byte32_table c b : b < 256 ->
  byte32 c b = N.lxor (tget (tget2 CRC32_TABLE 0) (N.lxor (c mod 256) b)) (N.shiftr c 8).
Proof.
  intro Hb. unfold byte32. rewrite bitn_iter. rewrite bitn8_split.
  rewrite low_xor by exact Hb. rewrite table0_spec by (apply idx_lt; exact Hb).
  rewrite N.shiftr_lxor, (shiftr8_small b Hb), N.lxor_0_r. reflexivity.
Qed.

Lemma update_slow_step_spec c b : b < 256 -> update_slow_step c b = byte32 c b.
Proof. intro Hb. rewrite byte32_table by exact Hb. reflexivity. Qed.

Lemma update_crc32_spec c b : b < 256 -> update_crc32 c b = byte32 c b.
Proof.
  intro Hb. rewrite byte32_table by exact Hb. unfold update_crc32.
  rewrite (N.lxor_comm b), N.lxor_comm. reflexivity.
Qed.

Lemma fold_ext_bytes (f g : N -> N -> N) bs : Forall (fun b => b < 256) bs ->
  (forall c b, b < 256 -> f c b = g c b) -> forall c, fold_left f bs c = fold_left g bs c.
Proof.
  intros Hbs Hfg. induction Hbs as [|b bs Hb Hbs IH]; intro c; cbn [fold_left]; [reflexivity|].
  rewrite Hfg by exact Hb. apply IH.
Qed.

(* ---- linearity of the byte fold in the state ---- *)
Fixpoint xsum (bs : list N) : N :=
  match bs with [] => 0 | b :: bs' => N.lxor (bitn (8 * S (length bs')) b) (xsum bs') end.

Lemma fold_byte32_lin bs : forall c,
  fold_left byte32 bs c = N.lxor (bitn (8 * length bs) c) (xsum bs).
Proof.
  induction bs as [|b bs IH]; intro c; cbn [fold_left xsum length].
  - cbn. rewrite N.lxor_0_r. reflexivity.
  - rewrite IH. unfold byte32. rewrite bitn_iter.
    rewrite bitn_lin, bitn_lin.
    replace (8 * S (length bs))%nat with (8 * length bs + 8)%nat by lia.
    rewrite !bitn_add. xor_bits.
Qed.

(* ---- one 16-byte slice ---- *)
Lemma lt32_shiftr32 c : c < 4294967296 -> N.shiftr c 32 = 0.
Proof. intro H. rewrite N.shiftr_div_pow2. apply N.div_small. exact H. Qed.

Lemma bitn128_bytes c : c < 4294967296 ->
  bitn 128 c = N.lxor (bitn 128 (N.land c 255))
              (N.lxor (bitn 120 (N.land (N.shiftr c 8) 255))
              (N.lxor (bitn 112 (N.land (N.shiftr c 16) 255))
                      (bitn 104 (N.land (N.shiftr c 24) 255)))).
Proof.
  intro Hc.
  rewrite (bitn_split 120 128 c eq_refl). rewrite (bitn_split 112 120 (N.shiftr c 8) eq_refl).
  rewrite (bitn_split 104 112 (N.shiftr (N.shiftr c 8) 8) eq_refl).
  rewrite (bitn_split 96 104 (N.shiftr (N.shiftr (N.shiftr c 8) 8) 8) eq_refl).
  rewrite !N.shiftr_shiftr. change (8 + 8) with 16. change (16 + 8) with 24. change (24 + 8) with 32.
  rewrite (lt32_shiftr32 c Hc), bitn_0, N.lxor_0_r. reflexivity.
Qed.

Lemma slice16_spec c b0 b1 b2 b3 b4 b5 b6 b7 b8 b9 b10 b11 b12 b13 b14 b15 rest :
  c < 4294967296 ->
  Forall (fun b => b < 256) [b0;b1;b2;b3;b4;b5;b6;b7;b8;b9;b10;b11;b12;b13;b14;b15] ->
  crc32_slice16 c (b0::b1::b2::b3::b4::b5::b6::b7::b8::b9::b10::b11::b12::b13::b14::b15::rest)
  = fold_left byte32 [b0;b1;b2;b3;b4;b5;b6;b7;b8;b9;b10;b11;b12;b13;b14;b15] c.
Proof.
  intros Hc Hb.
  repeat match goal with H : Forall _ (_ :: _) |- _ => inversion H; clear H; subst end.
  rewrite fold_byte32_lin. cbn [length xsum Nat.mul Nat.add].
  rewrite (bitn128_bytes c Hc).
  unfold crc32_slice16.
  set (buf := b0::b1::b2::b3::b4::b5::b6::b7::b8::b9::b10::b11::b12::b13::b14::b15::rest).
  change (tget buf 15) with b15. change (tget buf 14) with b14. change (tget buf 13) with b13.
  change (tget buf 12) with b12. change (tget buf 11) with b11. change (tget buf 10) with b10.
  change (tget buf 9) with b9. change (tget buf 8) with b8. change (tget buf 7) with b7.
  change (tget buf 6) with b6. change (tget buf 5) with b5. change (tget buf 4) with b4.
  change (tget buf 3) with b3. change (tget buf 2) with b2. change (tget buf 1) with b1.
  change (tget buf 0) with b0. clear buf.
  rewrite (proj1 (table_spec 0 b15 eq_refl ltac:(assumption))).
  rewrite (proj1 (table_spec 1 b14 eq_refl ltac:(assumption))).
  rewrite (proj1 (table_spec 2 b13 eq_refl ltac:(assumption))).
  rewrite (proj1 (table_spec 3 b12 eq_refl ltac:(assumption))).
  rewrite (proj1 (table_spec 4 b11 eq_refl ltac:(assumption))).
  rewrite (proj1 (table_spec 5 b10 eq_refl ltac:(assumption))).
  rewrite (proj1 (table_spec 6 b9 eq_refl ltac:(assumption))).
  rewrite (proj1 (table_spec 7 b8 eq_refl ltac:(assumption))).
  rewrite (proj1 (table_spec 8 b7 eq_refl ltac:(assumption))).
  rewrite (proj1 (table_spec 9 b6 eq_refl ltac:(assumption))).
  rewrite (proj1 (table_spec 10 b5 eq_refl ltac:(assumption))).
  rewrite (proj1 (table_spec 11 b4 eq_refl ltac:(assumption))).
  rewrite (proj1 (table_spec 12 _ eq_refl (idx2_lt b3 (N.shiftr c 24) ltac:(assumption)))).
  rewrite (proj1 (table_spec 13 _ eq_refl (idx2_lt b2 (N.shiftr c 16) ltac:(assumption)))).
  rewrite (proj1 (table_spec 14 _ eq_refl (idx2_lt b1 (N.shiftr c 8) ltac:(assumption)))).
  rewrite (proj1 (table_spec 15 _ eq_refl (idx2_lt b0 c ltac:(assumption)))).
  rewrite !bitn_lin.
  change (8 * (N.to_nat 0 + 1))%nat with 8%nat. change (8 * (N.to_nat 1 + 1))%nat with 16%nat. change (8 * (N.to_nat 2 + 1))%nat with 24%nat. change (8 * (N.to_nat 3 + 1))%nat with 32%nat. change (8 * (N.to_nat 4 + 1))%nat with 40%nat. change (8 * (N.to_nat 5 + 1))%nat with 48%nat. change (8 * (N.to_nat 6 + 1))%nat with 56%nat. change (8 * (N.to_nat 7 + 1))%nat with 64%nat. change (8 * (N.to_nat 8 + 1))%nat with 72%nat. change (8 * (N.to_nat 9 + 1))%nat with 80%nat. change (8 * (N.to_nat 10 + 1))%nat with 88%nat. change (8 * (N.to_nat 11 + 1))%nat with 96%nat. change (8 * (N.to_nat 12 + 1))%nat with 104%nat. change (8 * (N.to_nat 13 + 1))%nat with 112%nat. change (8 * (N.to_nat 14 + 1))%nat with 120%nat. change (8 * (N.to_nat 15 + 1))%nat with 128%nat.
  rewrite N.lxor_0_r.
  repeat match goal with |- context [bitn ?k ?x] => generalize (bitn k x); intro end.
  xor_ac.
Qed.

(* ---- ranges ---- *)
Lemma bit32_lt c : c < 4294967296 -> bit32 c < 4294967296.
Proof.
  intro Hc. unfold bit32. apply (lxor_lt_pow2 _ _ 32).
  - rewrite N.shiftr_div_pow2. apply N.le_lt_trans with c; [|exact Hc].
    apply N.div_le_upper_bound; [discriminate|]. change (2 ^ 1) with 2. lia.
  - destruct (N.testbit c 0); reflexivity.
Qed.

Lemma bitn_lt n c : c < 4294967296 -> bitn n c < 4294967296.
Proof. intro Hc. induction n as [|n IH]; cbn [bitn]; [exact Hc|]. apply bit32_lt, IH. Qed.

Lemma byte32_lt c b : c < 4294967296 -> b < 256 -> byte32 c b < 4294967296.
Proof.
  intros Hc Hb. unfold byte32. rewrite bitn_iter. apply bitn_lt.
  apply (lxor_lt_pow2 _ _ 32); [exact Hc|]. apply N.lt_trans with 256; [exact Hb|reflexivity].
Qed.

Lemma fold_byte32_lt bs : Forall (fun b => b < 256) bs -> forall c, c < 4294967296 ->
  fold_left byte32 bs c < 4294967296.
Proof.
  intro Hbs. induction Hbs as [|b bs Hb Hbs IH]; intros c Hc; cbn [fold_left]; [exact Hc|].
  apply IH, byte32_lt; assumption.
Qed.

(* ---- the slice loop ---- *)
Local Strategy opaque [crc32_slice16 byte32 bitn CRC32_TABLE].
Lemma fold_left_16 {A B} (f : A -> B -> A) c b0 b1 b2 b3 b4 b5 b6 b7 b8 b9 b10 b11 b12 b13 b14 b15 rest :
  fold_left f (b0::b1::b2::b3::b4::b5::b6::b7::b8::b9::b10::b11::b12::b13::b14::b15::rest) c
  = fold_left f rest (fold_left f [b0;b1;b2;b3;b4;b5;b6;b7;b8;b9;b10;b11;b12;b13;b14;b15] c).
Proof. reflexivity. Qed.

Lemma slice_loop_step f c b0 b1 b2 b3 b4 b5 b6 b7 b8 b9 b10 b11 b12 b13 b14 b15 rest :
  slice_loop (S f) c (b0::b1::b2::b3::b4::b5::b6::b7::b8::b9::b10::b11::b12::b13::b14::b15::rest)
  = slice_loop f (crc32_slice16 c (b0::b1::b2::b3::b4::b5::b6::b7::b8::b9::b10::b11::b12::b13::b14::b15::rest)) rest.
Proof. reflexivity. Qed.

Lemma slice_loop_stop f c buf : (length buf < 16)%nat -> slice_loop f c buf = (c, buf).
Proof.
  intro H. destruct f as [|f]; cbn [slice_loop]; [reflexivity|].
  destruct (Nat.leb 16 (length buf)) eqn:E; [apply Nat.leb_le in E; lia|reflexivity].
Qed.

Lemma take16 (buf : list N) : (16 <= length buf)%nat ->
  exists b0 b1 b2 b3 b4 b5 b6 b7 b8 b9 b10 b11 b12 b13 b14 b15 rest,
    buf = b0::b1::b2::b3::b4::b5::b6::b7::b8::b9::b10::b11::b12::b13::b14::b15::rest.
Proof.
  intro E. do 16 (destruct buf as [|? buf]; [cbn [length] in E; lia|]).
  repeat eexists.
Qed.

Lemma slice_loop_spec fuel : forall c buf,
  c < 4294967296 -> Forall (fun b => b < 256) buf -> (length buf <= fuel)%nat ->
  fold_left byte32 (snd (slice_loop fuel c buf)) (fst (slice_loop fuel c buf)) = fold_left byte32 buf c
  /\ (length (snd (slice_loop fuel c buf)) < 16)%nat
  /\ Forall (fun b => b < 256) (snd (slice_loop fuel c buf)).
Proof.
  induction fuel as [|f IH]; intros c buf Hc Hbuf Hlen.
  - destruct buf; [|cbn [length] in Hlen; lia]. cbn [slice_loop fst snd length]. repeat split; [lia|constructor].
  - destruct (Nat.le_gt_cases 16 (length buf)) as [E|E].
    + destruct (take16 buf E) as (b0&b1&b2&b3&b4&b5&b6&b7&b8&b9&b10&b11&b12&b13&b14&b15&rest&->).
      rewrite slice_loop_step.
      assert (H16 : Forall (fun b => b < 256) [b0;b1;b2;b3;b4;b5;b6;b7;b8;b9;b10;b11;b12;b13;b14;b15]
                    /\ Forall (fun b => b < 256) rest).
      { repeat match goal with H : Forall _ (_ :: _) |- _ => inversion H; clear H; subst end.
        split; [repeat constructor; assumption|assumption]. }
      destruct H16 as [H16 Hrest].
      rewrite (slice16_spec c b0 b1 b2 b3 b4 b5 b6 b7 b8 b9 b10 b11 b12 b13 b14 b15 rest Hc H16).
      rewrite (fold_left_16 byte32 c b0 b1 b2 b3 b4 b5 b6 b7 b8 b9 b10 b11 b12 b13 b14 b15 rest).
      apply IH.
      * apply fold_byte32_lt; [exact H16|exact Hc].
      * exact Hrest.
      * cbn [length] in Hlen. lia.
    + rewrite slice_loop_stop by exact E. cbn [fst snd]. repeat split; assumption.
Qed.

Lemma lnot32_invol x : lnot32 (lnot32 x) = x.
Proof. unfold lnot32. rewrite N.lxor_assoc, N.lxor_nilpotent, N.lxor_0_r. reflexivity. Qed.

Definition bytes (bs : list N) : Prop := Forall (fun b => b < 256) bs.

Lemma get_crc32_spec_proof bs : bytes bs -> get_crc32 bs = crc32_spec bs.
Proof.
  intro Hbs. unfold get_crc32, crc32_spec.
  pose proof (slice_loop_spec (length bs) crc32_init bs eq_refl Hbs (le_n _)) as (H1 & _ & H3).
  destruct (slice_loop (length bs) crc32_init bs) as [r rest]. cbn [fst snd] in *.
  unfold update_slow. rewrite lnot32_invol.
  rewrite (fold_ext_bytes update_slow_step byte32 rest H3 update_slow_step_spec).
  rewrite H1. reflexivity.
Qed.

Lemma crc32_incremental_proof bs : bytes bs -> crc32_incremental bs = get_crc32 bs.
Proof.
  intro Hbs. rewrite get_crc32_spec_proof by exact Hbs. unfold crc32_incremental, crc32_spec.
  rewrite (fold_ext_bytes update_crc32 byte32 bs Hbs update_crc32_spec). reflexivity.
Qed.

(* fuel never runs out: the loop leaves fewer than 16 bytes, as the Rust `while` does *)
Lemma slice_loop_rest_short bs : bytes bs ->
  (length (snd (slice_loop (length bs) crc32_init bs)) < 16)%nat.
Proof. intro Hbs. apply (slice_loop_spec (length bs) crc32_init bs eq_refl Hbs (le_n _)). Qed.
