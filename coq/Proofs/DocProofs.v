(* C08 (extension), part 1: the equivalence on full documents, the lifting of everything proved about Model/EditModel.v
   into the full document, and the soundness of the records that only swap a component of the document
   (palette, SAUCE, font table, modes, whole layer lists).

   xeqv a b : eqv on the embedded layer document  /\  same palette, same font table (as a finite map), same SAUCE record,
              same ice / palette / font mode.  The caret font page and the selection mask are not part of it
              (like current layer, selection and caret position in eqv). *)
From Coq Require Import List ZArith NArith Bool Arith Lia.
From IE Require Import Lib.C08Lib Gen.UndoGen Model.Undo Model.EditModel Model.EditOps Model.DocModel Model.DocOps
  Proofs.UndoProofs Proofs.LayerProofs Proofs.EditProofs.
Import ListNotations.
Local Open Scope Z_scope.

(* ------------------------------------------------------------------ the font table as a finite map *)
Lemma fget_fdel k k' l : fget k (fdel k' l) = if (k =? k')%N then None else fget k l.
Proof.
  unfold fdel. induction l as [|[a v] l IH]; cbn [filter fget fst].
  - destruct (k =? k')%N; reflexivity.
  - destruct (a =? k')%N eqn:E; cbn [negb].
    + rewrite IH. apply N.eqb_eq in E. subst a. destruct (k =? k')%N; reflexivity.
    + cbn [fget]. rewrite IH. destruct (k =? a)%N eqn:E2; [|reflexivity].
      apply N.eqb_eq in E2. subst a. rewrite E. reflexivity.
Qed.

Lemma fget_fset k k' v l : fget k (fset k' v l) = if (k =? k')%N then Some v else fget k l.
Proof. unfold fset. cbn [fget]. destruct (k =? k')%N eqn:E; [reflexivity|]. rewrite fget_fdel, E. reflexivity. Qed.

Definition fonts_eq (a b : fonts) : Prop := forall k, fget k a = fget k b.

Lemma fonts_eq_refl a : fonts_eq a a.
Proof. intro; reflexivity. Qed.
Lemma fonts_eq_sym a b : fonts_eq a b -> fonts_eq b a.
Proof. intros H k. symmetry. apply H. Qed.
Lemma fonts_eq_trans a b c : fonts_eq a b -> fonts_eq b c -> fonts_eq a c.
Proof. intros H1 H2 k. rewrite H1. apply H2. Qed.
Lemma fset_eq k v a b : fonts_eq a b -> fonts_eq (fset k v a) (fset k v b).
Proof. intros H j. rewrite !fget_fset, H. reflexivity. Qed.
Lemma fdel_eq k a b : fonts_eq a b -> fonts_eq (fdel k a) (fdel k b).
Proof. intros H j. rewrite !fget_fdel, H. reflexivity. Qed.

(* ------------------------------------------------------------------ the equivalence *)
Definition rest_eq (a b : xstate) : Prop :=
  x_pal a = x_pal b /\ fonts_eq (x_fonts a) (x_fonts b) /\ x_sauce a = x_sauce b /\
  x_ice a = x_ice b /\ x_palmode a = x_palmode b /\ x_fontmode a = x_fontmode b.

Definition xeqv (a b : xstate) : Prop := eqv (xb a) (xb b) /\ rest_eq a b.

Lemma rest_eq_refl a : rest_eq a a.
Proof. repeat split; auto using fonts_eq_refl. Qed.
Lemma rest_eq_sym a b : rest_eq a b -> rest_eq b a.
Proof. intros (H1 & H2 & H3 & H4 & H5 & H6). repeat split; auto using fonts_eq_sym. Qed.
Lemma rest_eq_trans a b c : rest_eq a b -> rest_eq b c -> rest_eq a c.
Proof.
  intros (H1 & H2 & H3 & H4 & H5 & H6) (G1 & G2 & G3 & G4 & G5 & G6).
  repeat split; try congruence; try (eapply fonts_eq_trans; eauto).
Qed.

Lemma xeqv_refl a : xeqv a a.
Proof. split; [apply eqv_refl|apply rest_eq_refl]. Qed.
Lemma xeqv_sym a b : xeqv a b -> xeqv b a.
Proof. intros [H1 H2]. split; [apply eqv_sym|apply rest_eq_sym]; assumption. Qed.
Lemma xeqv_trans a b c : xeqv a b -> xeqv b c -> xeqv a c.
Proof. intros [H1 H2] [H3 H4]. split; [eapply eqv_trans|eapply rest_eq_trans]; eauto. Qed.

Lemma xeqv_with_xb s t a b : rest_eq s t -> eqv a b -> xeqv (with_xb s a) (with_xb t b).
Proof. intros H E. split; [exact E|exact H]. Qed.

Lemma with_xb_twice s a b : with_xb (with_xb s a) b = with_xb s b.
Proof. reflexivity. Qed.
Lemma with_xb_xb s : with_xb s (xb s) = s.
Proof. destruct s; reflexivity. Qed.

(* changes that xeqv does not see *)
Lemma xeqv_with_cfp s p : xeqv (with_cfp s p) s.
Proof. split; [exact (eqv_refl (xb s))|exact (rest_eq_refl s)]. Qed.
Lemma xeqv_with_mask s m : xeqv (with_mask s m) s.
Proof. split; [exact (eqv_refl (xb s))|exact (rest_eq_refl s)]. Qed.
Lemma xeqv_mask_resize s : xeqv (mask_resize s) s.
Proof. split; [exact (eqv_refl (xb s))|exact (rest_eq_refl s)]. Qed.

Local Notation xlclosed := (lclosed xop_undo xop_redo xeqv).
Local Notation XUndoable := (Undoable xop_undo xop_redo xeqv).
Local Notation XRedoable := (Redoable xop_undo xop_redo xeqv).
Local Notation BUndoable := (Undoable op_undo op_redo eqv).
Local Notation BRedoable := (Redoable op_undo op_redo eqv).

(* ------------------------------------------------------------------ lifting: the records of EditModel inside the full document *)
Section FopInd.
  Variable P : fop uop -> Prop.
  Hypothesis HL : forall u, P (Leaf u).
  Hypothesis HA : forall l, Forall P l -> P (Atomic l).
  Fixpoint fop_ind' (o : fop uop) : P o :=
    match o with
    | Leaf u => HL u
    | Atomic l => HA l ((fix go (l : list (fop uop)) : Forall P l :=
                           match l with [] => Forall_nil P | x :: r => Forall_cons x (fop_ind' x) (go r) end) l)
    end.
End FopInd.

Definition lift_res (s : xstate) (r : res (fop uop * estate)) : res (fop xuop * xstate) :=
  match r with Ok (o', b') => Ok (xfop o', with_xb s b') | Err e => Err e | Panic p => Panic p end.
Definition lift_res_list (s : xstate) (r : res (list (fop uop) * estate)) : res (list (fop xuop) * xstate) :=
  match r with Ok (l', b') => Ok (map xfop l', with_xb s b') | Err e => Err e | Panic p => Panic p end.

Lemma f_undo_xfop : forall o s, f_undo xop_undo (xfop o) s = lift_res s (f_undo op_undo o (xb s)).
Proof.
  apply (fop_ind' (fun o => forall s, f_undo xop_undo (xfop o) s = lift_res s (f_undo op_undo o (xb s)))).
  - intros u s. cbn [xfop]. rewrite !f_undo_leaf. cbn [xop_undo].
    destruct (op_undo u (xb s)) as [[u' b']| |]; reflexivity.
  - intros l HF s. cbn [xfop]. rewrite !f_undo_atomic.
    assert (HL : forall s, undo_list xop_undo (map xfop l) s = lift_res_list s (undo_list op_undo l (xb s))).
    { clear s. induction HF as [|x r Hx HF IH]; intro s; [cbn; rewrite with_xb_xb; reflexivity|].
      cbn [map undo_list]. rewrite IH.
      destruct (undo_list op_undo r (xb s)) as [[r' b1]| |]; cbn [lift_res_list bind]; try reflexivity.
      rewrite Hx. cbn [xb with_xb].
      destruct (f_undo op_undo x b1) as [[x' b2]| |]; cbn [lift_res bind]; reflexivity. }
    rewrite HL. destruct (undo_list op_undo l (xb s)) as [[l' b']| |]; reflexivity.
Qed.

Lemma f_redo_xfop : forall o s, f_redo xop_redo (xfop o) s = lift_res s (f_redo op_redo o (xb s)).
Proof.
  apply (fop_ind' (fun o => forall s, f_redo xop_redo (xfop o) s = lift_res s (f_redo op_redo o (xb s)))).
  - intros u s. cbn [xfop]. rewrite !f_redo_leaf. cbn [xop_redo].
    destruct (op_redo u (xb s)) as [[u' b']| |]; reflexivity.
  - intros l HF s. cbn [xfop]. rewrite !f_redo_atomic.
    assert (HL : forall s, redo_list xop_redo (map xfop l) s = lift_res_list s (redo_list op_redo l (xb s))).
    { clear s. induction HF as [|x r Hx HF IH]; intro s; [cbn; rewrite with_xb_xb; reflexivity|].
      cbn [map redo_list]. rewrite Hx.
      destruct (f_redo op_redo x (xb s)) as [[x' b1]| |]; cbn [lift_res bind]; try reflexivity.
      rewrite IH. cbn [xb with_xb].
      destruct (redo_list op_redo r b1) as [[r' b2]| |]; cbn [lift_res_list bind]; reflexivity. }
    rewrite HL. destruct (redo_list op_redo l (xb s)) as [[l' b']| |]; reflexivity.
Qed.

Definition LU (F : fop xuop) (x y : xstate) : Prop := exists o, F = xfop o /\ BUndoable o (xb x) (xb y) /\ rest_eq x y.
Definition LR (F : fop xuop) (x y : xstate) : Prop := exists o, F = xfop o /\ BRedoable o (xb x) (xb y) /\ rest_eq x y.

Lemma lift_closed : closed xop_undo xop_redo xeqv LU LR.
Proof.
  split.
  - intros F x y (o & -> & HU & Hr) t [Ht Htr].
    destruct (Undoable_step op_undo op_redo eqv _ _ _ HU (xb t) Ht) as (o' & b' & E & Ea & HR).
    exists (xfop o'), (with_xb t b'). rewrite f_undo_xfop, E. cbn [lift_res]. split; [reflexivity|]. split.
    + split; [exact Ea|]. cbn. eapply rest_eq_trans; [exact Htr|apply rest_eq_sym; exact Hr].
    + exists o'. auto.
  - intros F x y (o & -> & HR & Hr) t [Ht Htr].
    destruct (Redoable_step op_undo op_redo eqv _ _ _ HR (xb t) Ht) as (o' & b' & E & Eb & HU).
    exists (xfop o'), (with_xb t b'). rewrite f_redo_xfop, E. cbn [lift_res]. split; [reflexivity|]. split.
    + split; [exact Eb|]. cbn. eapply rest_eq_trans; [exact Htr|exact Hr].
    + exists o'. auto.
Qed.

Lemma Undoable_lift o x y : BUndoable o (xb x) (xb y) -> rest_eq x y -> XUndoable (xfop o) x y.
Proof. intros H Hr. exists LU, LR. split; [apply lift_closed|]. exists o. auto. Qed.
Lemma Redoable_lift o x y : BRedoable o (xb x) (xb y) -> rest_eq x y -> XRedoable (xfop o) x y.
Proof. intros H Hr. exists LU, LR. split; [apply lift_closed|]. exists o. auto. Qed.

Lemma UChain_lift : forall l a b s, UChain op_undo op_redo eqv l a b ->
  UChain xop_undo xop_redo xeqv (map xfop l) (with_xb s a) (with_xb s b).
Proof.
  induction l as [|x r IH]; intros a b s H; cbn [map UChain] in *.
  - apply xeqv_with_xb; [apply rest_eq_refl|exact H].
  - destruct H as (c & Hx & Hr). exists (with_xb s c). split; [|apply IH; exact Hr].
    apply Undoable_lift; [exact Hx|exact (rest_eq_refl s)].
Qed.

(* a leaf family of EditModel as a leaf family of the full document *)
Lemma leaf_lift U R : lclosed op_undo op_redo eqv U R ->
  xlclosed (fun o x y => exists u, o = XB u /\ U u (xb x) (xb y) /\ rest_eq x y)
           (fun o x y => exists u, o = XB u /\ R u (xb x) (xb y) /\ rest_eq x y).
Proof.
  intros [HU HR]. split.
  - intros o x y (u & -> & H & Hr) t [Ht Htr]. destruct (HU _ _ _ H (xb t) Ht) as (u' & b' & E & Ea & H').
    exists (XB u'), (with_xb t b'). cbn [xop_undo]. rewrite E. cbn [bind]. split; [reflexivity|]. split.
    + split; [exact Ea|]. cbn. eapply rest_eq_trans; [exact Htr|apply rest_eq_sym; exact Hr].
    + exists u'. auto.
  - intros o x y (u & -> & H & Hr) t [Ht Htr]. destruct (HR _ _ _ H (xb t) Ht) as (u' & b' & E & Eb & H').
    exists (XB u'), (with_xb t b'). cbn [xop_redo]. rewrite E. cbn [bind]. split; [reflexivity|]. split.
    + split; [exact Eb|]. cbn. eapply rest_eq_trans; [exact Htr|exact Hr].
    + exists u'. auto.
Qed.

(* ------------------------------------------------------------------ families *)
Definition xstable (P : xuop -> xstate -> xstate -> Prop) : Prop :=
  forall o a b, P o a b ->
    (forall t, xeqv t b -> exists t', xop_undo o t = Ok (o, t') /\ xeqv t' a) /\
    (forall t, xeqv t a -> exists t', xop_redo o t = Ok (o, t') /\ xeqv t' b).

Lemma xstable_lclosed P : xstable P -> xlclosed P P.
Proof.
  intro H. split; intros o a b HP t Ht.
  - destruct (proj1 (H _ _ _ HP) t Ht) as (t' & E & Ea). exists o, t'. auto.
  - destruct (proj2 (H _ _ _ HP) t Ht) as (t' & E & Eb). exists o, t'. auto.
Qed.

(* --- records that leave the document alone (caret font page, selection, selection mask) *)
Definition P_xnodoc (o : xuop) (a b : xstate) : Prop :=
  ((exists old new, o = XSwitchFontPage old new) \/ (exists old new, o = XSetMask old new) \/ (exists old sl, o = XAddToMask old sl) \/
   (exists sl old new, o = XInverse sl old new) \/ (exists sl m, o = XSelectNothing sl m)) /\ xeqv a b.

Lemma xeqv_sel_mask s sl m : xeqv (with_mask (with_xb s (with_sel (xb s) sl)) m) s.
Proof. split; [exact (eqv_with_sel (xb s) sl)|exact (rest_eq_refl s)]. Qed.

Lemma xnodoc_stable : xstable P_xnodoc.
Proof.
  intros o a b (Ho & Hab). split; intros t Ht.
  - destruct Ho as [(old & new & ->)|[(old & new & ->)|[(old & sl & ->)|[(sl & old & new & ->)|(sl & m & ->)]]]]; cbn [xop_undo];
      eexists; (split; [reflexivity|]);
      (eapply xeqv_trans; [first [apply xeqv_with_cfp|apply xeqv_with_mask|apply xeqv_sel_mask]|]);
      eauto using xeqv_trans, xeqv_sym.
  - destruct Ho as [(old & new & ->)|[(old & new & ->)|[(old & sl & ->)|[(sl & old & new & ->)|(sl & m & ->)]]]]; cbn [xop_redo];
      eexists; (split; [reflexivity|]);
      (eapply xeqv_trans; [first [apply xeqv_with_cfp|apply xeqv_with_mask|apply xeqv_sel_mask]|]);
      eauto using xeqv_trans, xeqv_sym.
Qed.

(* --- SwitchPalettte: swaps the palette with its payload *)
Lemma xeqv_with_pal a b p : xeqv a b -> xeqv (with_pal a p) (with_pal b p).
Proof. intros [H (H1 & H2 & H3 & H4 & H5 & H6)]. split; [exact H|]. repeat split; assumption. Qed.
Lemma with_pal_back a p : with_pal (with_pal a p) (x_pal a) = a.
Proof. destruct a; reflexivity. Qed.

Definition U_palette (o : xuop) (a b : xstate) : Prop := exists p, o = XSwitchPalette p /\ xeqv a (with_pal b p).
Definition R_palette (o : xuop) (a b : xstate) : Prop := exists p, o = XSwitchPalette p /\ xeqv b (with_pal a p).

Lemma palette_flip x y p t : xeqv x (with_pal y p) -> xeqv t y ->
  xeqv (with_pal t p) x /\ xeqv y (with_pal x (x_pal t)).
Proof.
  intros Hx Ht. split.
  - eapply xeqv_trans; [apply xeqv_with_pal; exact Ht|apply xeqv_sym; exact Hx].
  - replace (x_pal t) with (x_pal y) by (symmetry; apply Ht).
    apply xeqv_sym. eapply xeqv_trans; [apply xeqv_with_pal; exact Hx|]. rewrite with_pal_back. apply xeqv_refl.
Qed.

Lemma palette_closed : xlclosed U_palette R_palette.
Proof.
  split.
  - intros o a b (p & -> & Ha) t Ht. destruct (palette_flip a b p t Ha Ht) as [H1 H2].
    cbn [xop_undo]. eexists _, _. split; [reflexivity|]. split; [exact H1|]. exists (x_pal t). auto.
  - intros o a b (p & -> & Hb) t Ht. destruct (palette_flip b a p t Hb Ht) as [H1 H2].
    cbn [xop_redo]. eexists _, _. split; [reflexivity|]. split; [exact H1|]. exists (x_pal t). auto.
Qed.

(* --- SetSauceData: swaps the SAUCE record with its payload *)
Lemma xeqv_with_sauce a b d : xeqv a b -> xeqv (with_sauce a d) (with_sauce b d).
Proof. intros [H (H1 & H2 & H3 & H4 & H5 & H6)]. split; [exact H|]. repeat split; assumption. Qed.
Lemma with_sauce_back a d : with_sauce (with_sauce a d) (x_sauce a) = a.
Proof. destruct a; reflexivity. Qed.

Definition U_sauce (o : xuop) (a b : xstate) : Prop := exists d, o = XSetSauce d /\ xeqv a (with_sauce b d).
Definition R_sauce (o : xuop) (a b : xstate) : Prop := exists d, o = XSetSauce d /\ xeqv b (with_sauce a d).

Lemma sauce_flip x y d t : xeqv x (with_sauce y d) -> xeqv t y ->
  xeqv (with_sauce t d) x /\ xeqv y (with_sauce x (x_sauce t)).
Proof.
  intros Hx Ht. split.
  - eapply xeqv_trans; [apply xeqv_with_sauce; exact Ht|apply xeqv_sym; exact Hx].
  - replace (x_sauce t) with (x_sauce y) by (symmetry; apply Ht).
    apply xeqv_sym. eapply xeqv_trans; [apply xeqv_with_sauce; exact Hx|]. rewrite with_sauce_back. apply xeqv_refl.
Qed.

Lemma sauce_closed : xlclosed U_sauce R_sauce.
Proof.
  split.
  - intros o a b (d & -> & Ha) t Ht. destruct (sauce_flip a b d t Ha Ht) as [H1 H2].
    cbn [xop_undo]. eexists _, _. split; [reflexivity|]. split; [exact H1|]. exists (x_sauce t). auto.
  - intros o a b (d & -> & Hb) t Ht. destruct (sauce_flip b a d t Hb Ht) as [H1 H2].
    cbn [xop_redo]. eexists _, _. split; [reflexivity|]. split; [exact H1|]. exists (x_sauce t). auto.
Qed.

(* --- the font table *)
Lemma xeqv_with_fonts a b f g : xeqv a b -> fonts_eq f g -> xeqv (with_fonts a f) (with_fonts b g).
Proof. intros [H (H1 & H2 & H3 & H4 & H5 & H6)] Hf. split; [exact H|]. repeat split; assumption. Qed.
Lemma xeqv_fonts_id a f : fonts_eq f (x_fonts a) -> xeqv (with_fonts a f) a.
Proof. intro Hf. split; [apply eqv_refl|]. repeat split; auto. Qed.
Lemma with_fonts_twice a f g : with_fonts (with_fonts a f) g = with_fonts a g.
Proof. reflexivity. Qed.
Lemma xeqv_fonts a b : xeqv a b -> fonts_eq (x_fonts a) (x_fonts b).
Proof. intros [_ H]. apply H. Qed.

(* SetFont: the recorded old font is the content of the slot that is written (`None` = the slot was empty) *)
Definition P_setfont (o : xuop) (a b : xstate) : Prop :=
  exists slot new, o = XSetFont slot (fget slot (x_fonts a)) new /\
    xeqv b (with_fonts a (fset slot new (x_fonts a))).

Lemma setfont_stable : xstable P_setfont.
Proof.
  intros o a b (slot & new & -> & Hb). split; intros t Ht.
  - cbn [xop_undo]. eexists. split; [reflexivity|].
    pose proof (xeqv_trans _ _ _ Ht Hb) as Htb. pose proof (xeqv_fonts _ _ Htb) as Hf. cbn [x_fonts with_fonts] in Hf.
    eapply xeqv_trans; [apply (xeqv_with_fonts _ _ _ (x_fonts a) Htb)|rewrite with_fonts_twice; apply xeqv_fonts_id; apply fonts_eq_refl].
    intro k. destruct (fget slot (x_fonts a)) as [f|] eqn:Hold.
    + rewrite fget_fset, Hf, fget_fset. destruct (k =? slot)%N eqn:E; [|reflexivity]. apply N.eqb_eq in E. subst. symmetry. exact Hold.
    + rewrite fget_fdel, Hf, fget_fset. destruct (k =? slot)%N eqn:E; [|reflexivity]. apply N.eqb_eq in E. subst. symmetry. exact Hold.
  - cbn [xop_redo]. eexists. split; [reflexivity|]. eapply xeqv_trans; [|apply xeqv_sym; exact Hb].
    apply xeqv_with_fonts; [exact Ht|]. apply fset_eq. apply (xeqv_fonts _ _ Ht).
Qed.

(* AddFont: redo captures the font the slot held (`replaced_font`), undo takes it and puts it back *)
Definition U_addfont (o : xuop) (a b : xstate) : Prop :=
  exists op np f, o = XAddFont op np f (fget np (x_fonts a)) /\ xeqv b (with_fonts a (fset np f (x_fonts a))).
Definition R_addfont (o : xuop) (a b : xstate) : Prop :=
  exists op np f pay, o = XAddFont op np f pay /\ xeqv b (with_fonts a (fset np f (x_fonts a))).

Lemma addfont_closed : xlclosed U_addfont R_addfont.
Proof.
  split.
  - intros o a b (op & np & f & -> & Hb) t Ht. cbn [xop_undo]. eexists _, _. split; [reflexivity|]. split.
    + pose proof (xeqv_trans _ _ _ Ht Hb) as Htb. pose proof (xeqv_fonts _ _ Htb) as Hf. cbn [x_fonts with_fonts] in Hf.
      eapply xeqv_trans; [apply xeqv_with_cfp|].
      eapply xeqv_trans; [apply (xeqv_with_fonts _ _ _ (x_fonts a) Htb)|rewrite with_fonts_twice; apply xeqv_fonts_id; apply fonts_eq_refl].
      intro k. destruct (fget np (x_fonts a)) as [r|] eqn:Hold.
      * rewrite fget_fset, Hf, fget_fset. destruct (k =? np)%N eqn:E; [|reflexivity]. apply N.eqb_eq in E. subst. symmetry. exact Hold.
      * rewrite fget_fdel, Hf, fget_fset. destruct (k =? np)%N eqn:E; [|reflexivity]. apply N.eqb_eq in E. subst. symmetry. exact Hold.
    + exists op, np, f, None. auto.
  - intros o a b (op & np & f & pay & -> & Hb) t Ht. cbn [xop_redo]. eexists _, _. split; [reflexivity|]. split.
    + eapply xeqv_trans; [apply xeqv_with_cfp|]. eapply xeqv_trans; [|apply xeqv_sym; exact Hb].
      apply xeqv_with_fonts; [exact Ht|]. apply fset_eq. apply (xeqv_fonts _ _ Ht).
    + exists op, np, f. rewrite (xeqv_fonts _ _ Ht np). auto.
Qed.

(* RemoveFont: the font travels between table and payload *)
Definition U_remfont (o : xuop) (a b : xstate) : Prop :=
  exists slot f, o = XRemoveFont slot (Some f) /\ fget slot (x_fonts a) = Some f /\ xeqv b (with_fonts a (fdel slot (x_fonts a))).
Definition R_remfont (o : xuop) (a b : xstate) : Prop :=
  exists slot pay f, o = XRemoveFont slot pay /\ fget slot (x_fonts a) = Some f /\ xeqv b (with_fonts a (fdel slot (x_fonts a))).

Lemma remfont_closed : xlclosed U_remfont R_remfont.
Proof.
  split.
  - intros o a b (slot & f & -> & Hf & Hb) t Ht. cbn [xop_undo]. eexists _, _. split; [reflexivity|]. split.
    + pose proof (xeqv_trans _ _ _ Ht Hb) as Htb.
      eapply xeqv_trans; [apply (xeqv_with_fonts _ _ _ (fset slot f (fdel slot (x_fonts a))) Htb)|].
      { apply fset_eq. apply (xeqv_fonts _ _ Htb). }
      rewrite with_fonts_twice. apply xeqv_fonts_id. intro k. rewrite fget_fset, fget_fdel. destruct (k =? slot)%N eqn:E; [|reflexivity].
      apply N.eqb_eq in E. subst. symmetry. exact Hf.
    + exists slot, None, f. auto.
  - intros o a b (slot & pay & f & -> & Hf & Hb) t Ht. cbn [xop_redo].
    rewrite (xeqv_fonts _ _ Ht slot), Hf. eexists _, _. split; [reflexivity|]. split.
    + eapply xeqv_trans; [|apply xeqv_sym; exact Hb]. apply xeqv_with_fonts; [exact Ht|]. apply fdel_eq. apply (xeqv_fonts _ _ Ht).
    + exists slot, f. auto.
Qed.

(* ChangeFontSlot: redo captures the font of the target slot (after the source slot was emptied), undo takes it and puts it back *)
Definition U_fontslot (o : xuop) (a b : xstate) : Prop :=
  exists from to f, o = XChangeFontSlot from to (fget to (fdel from (x_fonts a))) /\ fget from (x_fonts a) = Some f /\
    xeqv b (with_fonts a (fset to f (fdel from (x_fonts a)))).
Definition R_fontslot (o : xuop) (a b : xstate) : Prop :=
  exists from to f pay, o = XChangeFontSlot from to pay /\ fget from (x_fonts a) = Some f /\
    xeqv b (with_fonts a (fset to f (fdel from (x_fonts a)))).

Lemma fontslot_closed : xlclosed U_fontslot R_fontslot.
Proof.
  split.
  - intros o a b (from & to & f & -> & Hf & Hb) t Ht. cbn [xop_undo].
    pose proof (xeqv_trans _ _ _ Ht Hb) as Htb. pose proof (xeqv_fonts _ _ Htb) as Hft. cbn [x_fonts with_fonts] in Hft.
    rewrite (Hft to), fget_fset, N.eqb_refl. eexists _, _. split; [reflexivity|]. split.
    + eapply xeqv_trans; [apply (xeqv_with_fonts _ _ _ (x_fonts a) Htb)|rewrite with_fonts_twice; apply xeqv_fonts_id; apply fonts_eq_refl].
      intro k. rewrite fget_fdel. destruct (to =? from)%N eqn:Etf.
      * apply N.eqb_eq in Etf. subst to. rewrite fget_fset, fget_fdel, Hft, fget_fset, fget_fdel.
        destruct (k =? from)%N eqn:E; [|reflexivity]. apply N.eqb_eq in E. subst. symmetry. exact Hf.
      * destruct (fget to (x_fonts a)) as [r|] eqn:Hto.
        -- rewrite !fget_fset, fget_fdel, Hft, fget_fset, fget_fdel. destruct (k =? to)%N eqn:E1.
           ++ apply N.eqb_eq in E1. subst. symmetry. exact Hto.
           ++ destruct (k =? from)%N eqn:E2; [|reflexivity]. apply N.eqb_eq in E2. subst. symmetry. exact Hf.
        -- rewrite fget_fset, fget_fdel, Hft, fget_fset, fget_fdel. destruct (k =? from)%N eqn:E2.
           ++ apply N.eqb_eq in E2. subst. symmetry. exact Hf.
           ++ destruct (k =? to)%N eqn:E1; [|reflexivity]. apply N.eqb_eq in E1. subst. symmetry. exact Hto.
    + exists from, to, f, None. auto.
  - intros o a b (from & to & f & pay & -> & Hf & Hb) t Ht. cbn [xop_redo]. pose proof (xeqv_fonts _ _ Ht) as Hft.
    rewrite (Hft from), Hf. eexists _, _. split; [reflexivity|]. split.
    + eapply xeqv_trans; [|apply xeqv_sym; exact Hb]. apply xeqv_with_fonts; [exact Ht|]. apply fset_eq, fdel_eq. exact Hft.
    + exists from, to, f. rewrite !fget_fdel, (Hft to). auto.
Qed.

(* --- records that store whole layer lists (ReplaceFontUsage, SetIceMode, SwitchPalette): whatever the new state is *)
Lemma xeqv_with_xlayers a b la lb : xeqv a b -> Forall2 leqv la lb -> xeqv (with_xlayers a la) (with_xlayers b lb).
Proof.
  intros [(H1 & H2 & H3) Hr] Hl. split; [|exact Hr]. cbn. apply eqv_with_layers; assumption.
Qed.
Lemma xeqv_with_ice a b m : xeqv a b -> xeqv (with_ice a m) (with_ice b m).
Proof. intros [H (H1 & H2 & H3 & H4 & H5 & H6)]. split; [exact H|]. repeat split; assumption. Qed.
Lemma xeqv_with_palmode a b m : xeqv a b -> xeqv (with_palmode a m) (with_palmode b m).
Proof. intros [H (H1 & H2 & H3 & H4 & H5 & H6)]. split; [exact H|]. repeat split; assumption. Qed.
Lemma with_xlayers_id a : with_xlayers a (xlayers a) = a.
Proof. destruct a as [b ? ? ? ? ? ? ? ?]. destruct b. reflexivity. Qed.

Definition P_replfont (o : xuop) (a b : xstate) : Prop :=
  exists ocp ncp nl, o = XReplaceFontUsage ocp (xlayers a) ncp nl /\ xeqv b (with_xlayers a nl).

Lemma replfont_stable : xstable P_replfont.
Proof.
  intros o a b (ocp & ncp & nl & -> & Hb). split; intros t Ht.
  - cbn [xop_undo]. eexists. split; [reflexivity|]. eapply xeqv_trans; [apply xeqv_with_cfp|].
    eapply xeqv_trans; [apply (xeqv_with_xlayers _ _ _ (xlayers a) (xeqv_trans _ _ _ Ht Hb)); apply Forall2_leqv_refl|].
    match goal with |- xeqv ?x a => replace x with a; [apply xeqv_refl|] end.
    destruct a as [ba ? ? ? ? ? ? ? ?]. destruct ba. reflexivity.
  - cbn [xop_redo]. eexists. split; [reflexivity|]. eapply xeqv_trans; [apply xeqv_with_cfp|].
    eapply xeqv_trans; [|apply xeqv_sym; exact Hb]. apply xeqv_with_xlayers; [exact Ht|apply Forall2_leqv_refl].
Qed.

Definition P_icemode (o : xuop) (a b : xstate) : Prop :=
  exists nm nl, o = XSetIceMode (x_ice a) (xlayers a) nm nl /\ xeqv b (with_ice (with_xlayers a nl) nm).

Lemma with_ice_xlayers_id a : with_ice (with_xlayers a (xlayers a)) (x_ice a) = a.
Proof. destruct a as [b ? ? ? ? ? ? ? ?]. destruct b. reflexivity. Qed.

Lemma icemode_stable : xstable P_icemode.
Proof.
  intros o a b (nm & nl & -> & Hb). split; intros t Ht.
  - cbn [xop_undo]. eexists. split; [reflexivity|].
    eapply xeqv_trans; [apply xeqv_with_ice, (xeqv_with_xlayers _ _ _ (xlayers a) (xeqv_trans _ _ _ Ht Hb)); apply Forall2_leqv_refl|].
    replace (with_ice (with_xlayers (with_ice (with_xlayers a nl) nm) (xlayers a)) (x_ice a)) with a; [apply xeqv_refl|].
    destruct a as [ba ? ? ? ? ? ? ? ?]. destruct ba. reflexivity.
  - cbn [xop_redo]. eexists. split; [reflexivity|]. eapply xeqv_trans; [|apply xeqv_sym; exact Hb].
    apply xeqv_with_ice, xeqv_with_xlayers; [exact Ht|apply Forall2_leqv_refl].
Qed.

Definition P_palmode (o : xuop) (a b : xstate) : Prop :=
  exists nm npal nl, o = XSwitchPaletteMode (x_palmode a) (x_pal a) (xlayers a) nm npal nl /\
    xeqv b (with_xlayers (with_palmode (with_pal a npal) nm) nl).

Lemma palmode_stable : xstable P_palmode.
Proof.
  intros o a b (nm & npal & nl & -> & Hb). split; intros t Ht.
  - cbn [xop_undo]. eexists. split; [reflexivity|].
    eapply xeqv_trans; [apply xeqv_with_xlayers; [|apply Forall2_leqv_refl];
                        apply xeqv_with_palmode, xeqv_with_pal; exact (xeqv_trans _ _ _ Ht Hb)|].
    match goal with |- xeqv ?x a => replace x with a; [apply xeqv_refl|] end.
    destruct a as [ba ? ? ? ? ? ? ? ?]. destruct ba. reflexivity.
  - cbn [xop_redo]. eexists. split; [reflexivity|]. eapply xeqv_trans; [|apply xeqv_sym; exact Hb].
    apply xeqv_with_xlayers; [|apply Forall2_leqv_refl]. apply xeqv_with_palmode, xeqv_with_pal. exact Ht.
Qed.

(* --- ResizeBuffer in the full document: Buffer::set_size also rewrites the size stored in the SAUCE record; the record keeps the
       size the SAUCE record carried (get_sauce_size) and undo puts it back (restore_sauce_size) *)
Lemma xeqv_set_bsize a b w h : xeqv a b -> xeqv (x_set_bsize a w h) (x_set_bsize b w h).
Proof.
  intros [H (H1 & H2 & H3 & H4 & H5 & H6)]. split; [cbn; apply eqv_with_bsize; exact H|].
  unfold x_set_bsize. repeat split; cbn; try assumption. rewrite H3. reflexivity.
Qed.

Lemma xeqv_sauce_restore a b sz : xeqv a b -> xeqv (sauce_restore a sz) (sauce_restore b sz).
Proof.
  intros Hab. pose proof Hab as [H (H1 & H2 & H3 & H4 & H5 & H6)]. unfold sauce_restore. destruct sz as [[w h]|]; [|exact Hab].
  rewrite H3. destruct (x_sauce b); [|exact Hab]. apply xeqv_with_sauce. exact Hab.
Qed.

Lemma set_bsize_back a w h : sauce_restore (x_set_bsize (x_set_bsize a w h) (bw (xb a)) (bh (xb a))) (sauce_size a) = a.
Proof.
  destruct a as [ba p f sa i pm fm c m]. destruct ba as [w0 h0 ls cl sl mi cx cy].
  unfold x_set_bsize, sauce_restore, sauce_size. cbn. destruct sa as [[sw sh sr]|]; reflexivity.
Qed.

Definition P_xresize (o : xuop) (a b : xstate) : Prop :=
  exists nw nh, o = XResizeBuffer (bw (xb a)) (bh (xb a)) nw nh (sauce_size a) /\ xeqv b (x_set_bsize a nw nh).

Lemma xresize_stable : xstable P_xresize.
Proof.
  intros o a b (nw & nh & -> & Hb). split; intros t Ht.
  - cbn [xop_undo]. eexists. split; [reflexivity|]. eapply xeqv_trans; [apply xeqv_mask_resize|].
    eapply xeqv_trans; [apply xeqv_sauce_restore, xeqv_set_bsize; exact (xeqv_trans _ _ _ Ht Hb)|].
    rewrite set_bsize_back. apply xeqv_refl.
  - cbn [xop_redo]. eexists. split; [reflexivity|]. eapply xeqv_trans; [apply xeqv_mask_resize|].
    eapply xeqv_trans; [apply xeqv_set_bsize; exact Ht|apply xeqv_sym; exact Hb].
Qed.

(* ================================================================================================================
   stage 2: layer-list surgery (Paste, MergeLayerDown) *)
Lemma xeqv_layers a b : xeqv a b -> Forall2 leqv (xlayers a) (xlayers b).
Proof. intros [(_ & _ & H) _]. exact H. Qed.
Lemma xeqv_length a b : xeqv a b -> length (xlayers a) = length (xlayers b).
Proof. intro H. eapply Forall2_len. apply xeqv_layers. exact H. Qed.
Lemma xeqv_with_curl s n : xeqv (with_xb s (with_curl (xb s) n)) s.
Proof. split; [exact (eqv_with_curl (xb s) n)|exact (rest_eq_refl s)]. Qed.
Lemma with_xlayers_twice a l1 l2 : with_xlayers (with_xlayers a l1) l2 = with_xlayers a l2.
Proof. reflexivity. Qed.
Lemma xlayers_with_xlayers a l : xlayers (with_xlayers a l) = l.
Proof. reflexivity. Qed.
Lemma xeqv_xlayers_id a l : Forall2 leqv l (xlayers a) -> xeqv (with_xlayers a l) a.
Proof.
  intro H. split; [|exact (rest_eq_refl a)]. cbn. repeat split; try reflexivity. exact H.
Qed.

(* Paste: insert / remove at current_layer + 1, the layer travels between payload and document (no clamp of the current layer) *)
Definition U_paste (o : xuop) (a b : xstate) : Prop :=
  exists c L pay, o = XPaste c pay /\ (S c <= length (xlayers a))%nat /\ xeqv b (with_xlayers a (insert_at (S c) L (xlayers a))).
Definition R_paste (o : xuop) (a b : xstate) : Prop :=
  exists c L, o = XPaste c (Some L) /\ (S c <= length (xlayers a))%nat /\ xeqv b (with_xlayers a (insert_at (S c) L (xlayers a))).

Lemma paste_closed : lclosed xop_undo xop_redo xeqv U_paste R_paste.
Proof.
  split.
  - intros o a b (c & L & pay & -> & Hi & Hb) t Ht.
    pose proof (xeqv_trans _ _ _ Ht Hb) as Htb.
    assert (Hn : nth_error (insert_at (S c) L (xlayers a)) (S c) = Some L).
    { rewrite nth_error_insert_at by exact Hi. rewrite Nat.ltb_irrefl, Nat.eqb_refl. reflexivity. }
    destruct (Forall2_nth_error_r leqv _ _ _ _ (xeqv_layers _ _ Htb) Hn) as (Lt & Hnt & HLt).
    cbn [xop_undo]. rewrite Hnt. eexists _, _. split; [reflexivity|]. split.
    + eapply xeqv_trans; [apply (xeqv_with_xlayers _ _ _ (remove_at (S c) (insert_at (S c) L (xlayers a))) Htb)|].
      { apply Forall2_remove_at. exact (xeqv_layers _ _ Htb). }
      rewrite with_xlayers_twice, remove_at_insert_at by exact Hi. apply xeqv_xlayers_id. apply Forall2_leqv_refl.
    + exists c, Lt. split; [reflexivity|]. split; [exact Hi|]. eapply xeqv_trans; [exact Hb|].
      apply xeqv_with_xlayers; [apply xeqv_refl|]. apply Forall2_insert_at; [apply Forall2_leqv_refl|apply leqv_sym; exact HLt].
  - intros o a b (c & L & -> & Hi & Hb) t Ht.
    cbn [xop_redo]. rewrite <- (xeqv_length _ _ Ht) in Hi.
    replace (S c <=? length (xlayers t))%nat with true by (symmetry; apply Nat.leb_le; exact Hi).
    eexists _, _. split; [reflexivity|]. split.
    + eapply xeqv_trans; [|apply xeqv_sym; exact Hb]. apply xeqv_with_xlayers; [exact Ht|].
      apply Forall2_insert_at; [exact (xeqv_layers _ _ Ht)|apply leqv_refl].
    + exists c, L, None. split; [reflexivity|]. rewrite (xeqv_length _ _ Ht) in Hi. split; [exact Hi|exact Hb].
Qed.

(* MergeLayerDown: two adjacent layers are replaced by one; the two originals / the merged layer travel between payload and document *)
Definition merged_list (j : nat) (M : layer) (l : list layer) : list layer := firstn j l ++ M :: skipn (S (S j)) l.

Lemma Forall2_merged j M1 M2 l1 l2 : Forall2 leqv l1 l2 -> leqv M1 M2 -> Forall2 leqv (merged_list j M1 l1) (merged_list j M2 l2).
Proof.
  intros H HM. unfold merged_list. apply Forall2_app; [apply Forall2_firstn; exact H|]. constructor; [exact HM|apply Forall2_skipn; exact H].
Qed.

Lemma split_two {A} j (l : list A) : (S j < length l)%nat ->
  exists x y, firstn 2 (skipn j l) = [x; y] /\ l = firstn j l ++ x :: y :: skipn (S (S j)) l.
Proof.
  revert l. induction j as [|j IH]; intros l H.
  - destruct l as [|x [|y l]]; cbn in H; try lia. exists x, y. split; reflexivity.
  - destruct l as [|z l]; cbn in H; [lia|]. destruct (IH l) as (x & y & E1 & E2); [lia|]. exists x, y. cbn [skipn firstn app].
    split; [exact E1|]. f_equal. exact E2.
Qed.

Lemma firstn_app_exact {A} (l1 l2 : list A) : firstn (length l1) (l1 ++ l2) = l1.
Proof. rewrite firstn_app, Nat.sub_diag, firstn_all, firstn_O, app_nil_r. reflexivity. Qed.
Lemma skipn_app_exact {A} (l1 l2 : list A) : skipn (length l1) (l1 ++ l2) = l2.
Proof. rewrite skipn_app, Nat.sub_diag, skipn_all, skipn_O. reflexivity. Qed.

(* undoing the merge on a list of the merged shape gives back the original shape *)
Lemma unmerge_list j (pre post : list layer) (L1 L2 M : layer) : length pre = j ->
  let lt := pre ++ M :: post in
  nth_error (firstn j lt ++ [L1; L2] ++ skipn j lt) (S (S j)) = Some M /\
  remove_at (S (S j)) (firstn j lt ++ [L1; L2] ++ skipn j lt) = pre ++ L1 :: L2 :: post.
Proof.
  intros Hj lt. subst lt j. rewrite firstn_app_exact, skipn_app_exact. split.
  - rewrite nth_error_app2 by lia. replace (S (S (length pre)) - length pre)%nat with 2%nat by lia. reflexivity.
  - unfold remove_at. rewrite firstn_app. replace (S (S (length pre)) - length pre)%nat with 2%nat by lia.
    rewrite firstn_all2 by lia. cbn [firstn app].
    replace (S (S (S (length pre)))) with (length pre + 3)%nat by lia. rewrite skipn_app.
    rewrite skipn_all2 by lia. replace (length pre + 3 - length pre)%nat with 3%nat by lia. cbn [skipn app].
    rewrite <- app_assoc. reflexivity.
Qed.

Lemma Forall2_cons_inv_r {A B} (R : A -> B -> Prop) l b l' : Forall2 R l (b :: l') -> exists a l0, l = a :: l0 /\ R a b /\ Forall2 R l0 l'.
Proof. intro H. inversion H; subst. eauto. Qed.

Lemma xeqv_curl_layers t l n : xeqv (with_xb t (with_curl (with_layers (xb t) l) n)) (with_xlayers t l).
Proof. split; [exact (eqv_with_curl (with_layers (xb t) l) n)|exact (rest_eq_refl t)]. Qed.

Definition U_merge (o : xuop) (a b : xstate) : Prop :=
  exists j pay L1 L2 M, o = XMergeDown (S j) pay (Some [L1; L2]) /\ (S j < length (xlayers a))%nat /\
    Forall2 leqv (firstn j (xlayers a) ++ L1 :: L2 :: skipn (S (S j)) (xlayers a)) (xlayers a) /\
    xeqv b (with_xlayers a (merged_list j M (xlayers a))).
Definition R_merge (o : xuop) (a b : xstate) : Prop :=
  exists j pay M, o = XMergeDown (S j) (Some M) pay /\ (S j < length (xlayers a))%nat /\
    xeqv b (with_xlayers a (merged_list j M (xlayers a))).

Lemma merge_closed : lclosed xop_undo xop_redo xeqv U_merge R_merge.
Proof.
  split.
  - intros o a b (j & pay & L1 & L2 & M & -> & Hlen & Horig & Hb) t Ht.
    pose proof (xeqv_trans _ _ _ Ht Hb) as Htb. pose proof (xeqv_layers _ _ Htb) as HF. rewrite xlayers_with_xlayers in HF.
    unfold merged_list in HF. apply Forall2_app_inv_r in HF. destruct HF as (pre & rest & Hpre & Hrest & Elt).
    apply Forall2_cons_inv_r in Hrest. destruct Hrest as (Mt & post & -> & HM & Hpost).
    assert (Hj : length pre = j).
    { rewrite (Forall2_len _ _ _ Hpre), firstn_length. lia. }
    destruct (unmerge_list j pre post L1 L2 Mt Hj) as [Hnth Hrem]. cbv zeta in Hnth, Hrem.
    cbn [xop_undo]. rewrite Elt.
    replace (j <=? length (pre ++ Mt :: post))%nat with true by (symmetry; apply Nat.leb_le; rewrite app_length; lia).
    cbn [bind]. rewrite Hnth, Hrem. eexists _, _. split; [reflexivity|]. split.
    + eapply xeqv_trans; [apply xeqv_curl_layers|].
      eapply xeqv_trans; [apply (xeqv_with_xlayers _ _ _ (xlayers a) Htb)|].
      { eapply Forall2_leqv_trans; [|exact Horig]. apply Forall2_app; [exact Hpre|]. constructor; [apply leqv_refl|]. constructor; [apply leqv_refl|exact Hpost]. }
      rewrite with_xlayers_twice. apply xeqv_xlayers_id. apply Forall2_leqv_refl.
    + exists j, None, Mt. split; [reflexivity|]. split; [exact Hlen|]. eapply xeqv_trans; [exact Hb|].
      apply xeqv_with_xlayers; [apply xeqv_refl|]. apply Forall2_merged; [apply Forall2_leqv_refl|apply leqv_sym; exact HM].
  - intros o a b (j & pay & M & -> & Hlen & Hb) t Ht.
    pose proof (xeqv_layers _ _ Ht) as HF. pose proof (xeqv_length _ _ Ht) as HL.
    cbn [xop_redo]. replace (S j <? length (xlayers t))%nat with true by (symmetry; apply Nat.ltb_lt; lia).
    eexists _, _. split; [reflexivity|]. split.
    + eapply xeqv_trans; [apply xeqv_curl_layers|]. fold (merged_list j M (xlayers t)).
      eapply xeqv_trans; [|apply xeqv_sym; exact Hb]. apply xeqv_with_xlayers; [exact Ht|]. apply Forall2_merged; [exact HF|apply leqv_refl].
    + destruct (split_two j (xlayers t)) as (x & y & E1 & E2); [lia|]. rewrite E1.
      exists j, None, x, y, M. split; [reflexivity|]. split; [exact Hlen|]. split; [|exact Hb].
      assert (H1 : Forall2 leqv (firstn j (xlayers a) ++ x :: y :: skipn (S (S j)) (xlayers a))
                                (firstn j (xlayers t) ++ x :: y :: skipn (S (S j)) (xlayers t))).
      { apply Forall2_app; [apply Forall2_leqv_sym, Forall2_firstn; exact HF|].
        constructor; [apply leqv_refl|]. constructor; [apply leqv_refl|]. apply Forall2_leqv_sym, Forall2_skipn. exact HF. }
      rewrite <- E2 in H1. eapply Forall2_leqv_trans; [exact H1|exact HF].
Qed.

(* ================================================================================================================
   stage 3: Crop (buffer size + the whole layer list, swapped with the payload) *)
Definition U_crop (o : xuop) (a b : xstate) : Prop :=
  exists nw nh ls lb, o = XCrop (bw (xb a)) (bh (xb a)) nw nh (sauce_size a) ls /\ Forall2 leqv ls (xlayers a) /\
    xeqv b (with_xlayers (x_set_bsize a nw nh) lb).
Definition R_crop (o : xuop) (a b : xstate) : Prop :=
  exists nw nh ls, o = XCrop (bw (xb a)) (bh (xb a)) nw nh (sauce_size a) ls /\ xeqv b (with_xlayers (x_set_bsize a nw nh) ls).

Lemma set_bsize_xlayers a w h l : x_set_bsize (with_xlayers a l) w h = with_xlayers (x_set_bsize a w h) l.
Proof. reflexivity. Qed.
Lemma sauce_restore_xlayers a sz l : sauce_restore (with_xlayers a l) sz = with_xlayers (sauce_restore a sz) l.
Proof. unfold sauce_restore. destruct sz as [[w h]|]; [|reflexivity]. cbn [x_sauce with_xlayers with_xb]. destruct (x_sauce a); reflexivity. Qed.

Lemma crop_closed : lclosed xop_undo xop_redo xeqv U_crop R_crop.
Proof.
  split.
  - intros o a b (nw & nh & ls & lb & -> & Hls & Hb) t Ht.
    pose proof (xeqv_trans _ _ _ Ht Hb) as Htb.
    cbn [xop_undo]. eexists _, _. split; [reflexivity|]. split.
    + eapply xeqv_trans.
      { apply xeqv_with_xlayers; [|exact Hls]. eapply xeqv_trans; [apply xeqv_mask_resize|apply xeqv_sauce_restore, xeqv_set_bsize; exact Htb]. }
      rewrite set_bsize_xlayers, sauce_restore_xlayers, with_xlayers_twice, set_bsize_back. apply xeqv_xlayers_id. apply Forall2_leqv_refl.
    + exists nw, nh, (xlayers t). split; [reflexivity|]. eapply xeqv_trans; [exact Hb|].
      apply xeqv_with_xlayers; [apply xeqv_refl|]. apply Forall2_leqv_sym. exact (xeqv_layers _ _ Htb).
  - intros o a b (nw & nh & ls & -> & Hb) t Ht.
    cbn [xop_redo]. eexists _, _. split; [reflexivity|]. split.
    + eapply xeqv_trans; [|apply xeqv_sym; exact Hb]. apply xeqv_with_xlayers; [|apply Forall2_leqv_refl].
      eapply xeqv_trans; [apply xeqv_mask_resize|apply xeqv_set_bsize; exact Ht].
    + exists nw, nh, (xlayers t), ls. split; [reflexivity|]. split; [exact (xeqv_layers _ _ Ht)|exact Hb].
Qed.

(* ================================================================================================================
   stage 5: RotateLayer (whole `lines` vectors + swapped size) and the whole-layer scroll records *)
Definition rot_swap (L : layer) (v : list line) : layer := with_lines (with_size L (l_h L) (l_w L)) v.

Lemma rot_swap_leqv L1 L2 v : leqv L1 L2 -> leqv (rot_swap L1 v) (rot_swap L2 v).
Proof.
  intros [Hm _]. pose proof (meta_fields _ _ Hm) as (H1&H2&H3&H4&H5&H6&H7&H8&H9&H10&H11&H12).
  split; [|intros; reflexivity]. unfold meta, rot_swap. cbn. congruence.
Qed.
Lemma rot_swap_back L v : rot_swap (rot_swap L v) (l_lines L) = L.
Proof. destruct L; reflexivity. Qed.

Lemma upd_nth_const {A} (f : A -> A) : forall l i a, nth_error l i = Some a -> upd_nth i (fun _ => f a) l = upd_nth i f l.
Proof.
  induction l as [|x l IH]; intros i a H; [reflexivity|]. destruct i; cbn in *; [injection H as ->; reflexivity|]. f_equal. eapply IH. exact H.
Qed.

Lemma xeqv_upd_xlayer a b i f g : xeqv a b -> (forall L1 L2, leqv L1 L2 -> leqv (f L1) (g L2)) ->
  xeqv (with_xb a (upd_layer (xb a) i f)) (with_xb b (upd_layer (xb b) i g)).
Proof. intros [H Hr] Hf. split; [exact (eqv_upd_layer _ _ i f g H Hf)|exact Hr]. Qed.

Lemma xeqv_upd_xlayer_id a i f : (forall L, nth_error (xlayers a) i = Some L -> leqv (f L) L) -> xeqv (with_xb a (upd_layer (xb a) i f)) a.
Proof. intro H. split; [exact (eqv_upd_layer_id (xb a) i f H)|exact (rest_eq_refl a)]. Qed.

Lemma xupd_twice a i f g : with_xb (with_xb a (upd_layer (xb a) i g)) (upd_layer (xb (with_xb a (upd_layer (xb a) i g))) i f) =
  with_xb a (upd_layer (xb a) i (fun L => f (g L))).
Proof. cbn [xb with_xb]. rewrite upd_layer_twice. reflexivity. Qed.

Lemma xeqv_has_layer t b i L : xeqv t b -> nth_error (xlayers b) i = Some L -> exists Lt, nth_error (xlayers t) i = Some Lt /\ leqv Lt L.
Proof. intros [H _] Hn. exact (eqv_has_layer _ _ i L H Hn). Qed.

Lemma xupd_const s i (f : layer -> layer) L : nth_error (xlayers s) i = Some L ->
  with_xb s (upd_layer (xb s) i (fun _ => f L)) = with_xb s (upd_layer (xb s) i f).
Proof. intro H. unfold upd_layer, with_layers. f_equal. f_equal. apply upd_nth_const. exact H. Qed.

Definition P_rotate (o : xuop) (a b : xstate) : Prop :=
  exists i new L, o = XRotate i (l_lines L) new /\ nth_error (xlayers a) i = Some L /\
    xeqv b (with_xb a (upd_layer (xb a) i (fun L0 => rot_swap L0 new))).

Lemma rotate_stable : xstable P_rotate.
Proof.
  intros o a b (i & new & L & -> & Hn & Hb). split; intros t Ht.
  - pose proof (xeqv_trans _ _ _ Ht Hb) as Htb.
    assert (Hnb : nth_error (xlayers (with_xb a (upd_layer (xb a) i (fun L0 => rot_swap L0 new)))) i = Some (rot_swap L new)).
    { exact (nth_upd_layer (xb a) i (fun L0 => rot_swap L0 new) L Hn). }
    destruct (xeqv_has_layer t _ i _ Htb Hnb) as (Lt & Hnt & _).
    cbn [xop_undo]. rewrite Hnt. eexists. split; [reflexivity|].
    match goal with |- xeqv ?x a => replace x with (with_xb t (upd_layer (xb t) i (fun L0 => rot_swap L0 (l_lines L))))
      by (symmetry; exact (xupd_const t i (fun L0 => rot_swap L0 (l_lines L)) Lt Hnt)) end.
    eapply xeqv_trans; [apply (xeqv_upd_xlayer _ _ i _ (fun L0 => rot_swap L0 (l_lines L)) Htb); intros; apply rot_swap_leqv; assumption|].
    rewrite xupd_twice. apply xeqv_upd_xlayer_id. intros L' HL'. assert (L' = L) by (unfold xlayers in *; congruence). subst.
    rewrite rot_swap_back. apply leqv_refl.
  - destruct (xeqv_has_layer t _ i _ Ht Hn) as (Lt & Hnt & _).
    cbn [xop_redo]. rewrite Hnt. eexists. split; [reflexivity|].
    match goal with |- xeqv ?x b => replace x with (with_xb t (upd_layer (xb t) i (fun L0 => rot_swap L0 new)))
      by (symmetry; exact (xupd_const t i (fun L0 => rot_swap L0 new) Lt Hnt)) end.
    eapply xeqv_trans; [|apply xeqv_sym; exact Hb]. apply xeqv_upd_xlayer; [exact Ht|]. intros; apply rot_swap_leqv; assumption.
Qed.

(* --- whole-layer scroll: rotates the `height` rows of the layer, whatever rows are stored *)
Lemma nth_error_rot_left {A} (l : list A) y : (y < length l)%nat ->
  nth_error (rot_left l) y = if (S y <? length l)%nat then nth_error l (S y) else nth_error l 0.
Proof.
  intro H. unfold rot_left. destruct (S y <? length l)%nat eqn:E.
  - apply Nat.ltb_lt in E. rewrite nth_error_app1 by (rewrite skipn_length; lia). rewrite nth_error_skipn. reflexivity.
  - apply Nat.ltb_ge in E. rewrite nth_error_app2 by (rewrite skipn_length; lia). rewrite skipn_length.
    replace (y - (length l - 1))%nat with 0%nat by lia. apply nth_error_firstn_lt. lia.
Qed.

Lemma nth_error_rot_right {A} (l : list A) y : (y < length l)%nat ->
  nth_error (rot_right l) y = match y with O => nth_error l (length l - 1) | S y' => nth_error l y' end.
Proof.
  intro H. unfold rot_right. destruct y as [|y'].
  - rewrite nth_error_app1 by (rewrite skipn_length; lia). rewrite nth_error_skipn. f_equal. lia.
  - rewrite nth_error_app2 by (rewrite skipn_length; lia). rewrite skipn_length.
    replace (S y' - (length l - (length l - 1)))%nat with y' by lia. apply nth_error_firstn_lt. lia.
Qed.

Lemma rot_left_length {A} (l : list A) : length (rot_left l) = length l.
Proof. unfold rot_left. rewrite app_length, skipn_length, firstn_length. lia. Qed.
Lemma rot_right_length {A} (l : list A) : length (rot_right l) = length l.
Proof. unfold rot_right. rewrite app_length, skipn_length, firstn_length. lia. Qed.

Lemma raw_resize_to lines n x y : raw (resize_to lines n []) x y = raw lines x y.
Proof.
  unfold resize_to. destruct (length lines <? n)%nat; [|reflexivity]. rewrite !raw_cell_at. unfold line in *.
  destruct (lt_dec y (length lines)) as [H|H].
  - rewrite nth_error_app1 by exact H. reflexivity.
  - rewrite nth_error_app2 by lia. rewrite nth_error_repeat.
    assert (nth_error lines y = None) as -> by (apply nth_error_None; lia).
    destruct (_ <? _)%nat; [|reflexivity]. unfold cell_at. destruct x; reflexivity.
Qed.
Lemma resize_to_length {A} (l : list A) n d : (n <= length (resize_to l n d))%nat.
Proof. unfold resize_to. destruct (length l <? n)%nat eqn:E; [apply Nat.ltb_lt in E; rewrite app_length, repeat_length; lia|apply Nat.ltb_ge in E; lia]. Qed.

Definition hrows (L : layer) : nat := Z.to_nat (Z.max (l_h L) 0).

(* rows below the layer height are left alone; inside, row y takes the place the rotation gives it *)
Lemma scroll_rows_spec (rot : list line -> list line) (src : nat -> nat -> nat) L :
  (forall l, length (rot l) = length l) ->
  (forall l y, (y < length l)%nat -> nth_error (rot l) y = nth_error l (src (length l) y)) ->
  (forall n y, (y < n)%nat -> (src n y < n)%nat) ->
  let '(h, lines) := rows_of L in
  forall x y, raw (rot (firstn h lines) ++ skipn h lines) x y = if (y <? h)%nat then raw (l_lines L) x (src h y) else raw (l_lines L) x y.
Proof.
  intros Hlen Hnth Hsrc. unfold rows_of. fold (hrows L). set (h := hrows L). set (lines := resize_to (l_lines L) h []).
  intros x y. assert (Hl : (h <= length lines)%nat) by apply resize_to_length.
  assert (Hf : length (firstn h lines) = h) by (rewrite firstn_length; lia).
  rewrite <- !(raw_resize_to (l_lines L) h). fold lines. rewrite !raw_cell_at.
  destruct (y <? h)%nat eqn:E.
  - apply Nat.ltb_lt in E. rewrite nth_error_app1 by (rewrite Hlen, Hf; exact E). rewrite Hnth by (rewrite Hf; exact E). rewrite Hf.
    rewrite nth_error_firstn_lt by (apply Hsrc; exact E). reflexivity.
  - apply Nat.ltb_ge in E. rewrite nth_error_app2 by (rewrite Hlen, Hf; exact E). rewrite Hlen, Hf, nth_error_skipn.
    replace (h + (y - h))%nat with y by lia. reflexivity.
Qed.

Definition src_up (n y : nat) : nat := if (S y <? n)%nat then S y else 0%nat.
Definition src_down (n y : nat) : nat := match y with O => (n - 1)%nat | S y' => y' end.

Lemma scroll_up_spec L : meta (l_scroll_up L) = meta L /\
  forall x y, rawL (l_scroll_up L) x y = if (y <? hrows L)%nat then rawL L x (src_up (hrows L) y) else rawL L x y.
Proof.
  pose proof (scroll_rows_spec rot_left src_up L (@rot_left_length _)) as H. unfold l_scroll_up, rawL. unfold rows_of in *. fold (hrows L) in *.
  split; [reflexivity|]. cbn [l_lines with_lines]. apply H.
  - intros l y Hy. rewrite nth_error_rot_left by exact Hy. unfold src_up. destruct (S y <? length l)%nat; reflexivity.
  - intros n y Hy. unfold src_up. destruct (S y <? n)%nat eqn:E; [apply Nat.ltb_lt in E; exact E|lia].
Qed.

Lemma scroll_down_spec L : meta (l_scroll_down L) = meta L /\
  forall x y, rawL (l_scroll_down L) x y = if (y <? hrows L)%nat then rawL L x (src_down (hrows L) y) else rawL L x y.
Proof.
  pose proof (scroll_rows_spec rot_right src_down L (@rot_right_length _)) as H. unfold l_scroll_down, rawL. unfold rows_of in *. fold (hrows L) in *.
  split; [reflexivity|]. cbn [l_lines with_lines]. apply H.
  - intros l y Hy. rewrite nth_error_rot_right by exact Hy. unfold src_down. destruct y; reflexivity.
  - intros n y Hy. unfold src_down. destruct y; lia.
Qed.

Lemma hrows_meta L1 L2 : meta L1 = meta L2 -> hrows L1 = hrows L2.
Proof. intro H. apply meta_fields in H. destruct H as (_&_&_&_&_&_&_&_&_&_&Hh&_). unfold hrows. rewrite Hh. reflexivity. Qed.

Lemma scroll_up_leqv L1 L2 : leqv L1 L2 -> leqv (l_scroll_up L1) (l_scroll_up L2).
Proof.
  intros [Hm Hr]. destruct (scroll_up_spec L1) as [M1 R1]. destruct (scroll_up_spec L2) as [M2 R2].
  split; [congruence|]. intros x y. rewrite R1, R2, (hrows_meta _ _ Hm), !Hr. reflexivity.
Qed.
Lemma scroll_down_leqv L1 L2 : leqv L1 L2 -> leqv (l_scroll_down L1) (l_scroll_down L2).
Proof.
  intros [Hm Hr]. destruct (scroll_down_spec L1) as [M1 R1]. destruct (scroll_down_spec L2) as [M2 R2].
  split; [congruence|]. intros x y. rewrite R1, R2, (hrows_meta _ _ Hm), !Hr. reflexivity.
Qed.

Lemma scroll_down_up L : leqv (l_scroll_down (l_scroll_up L)) L.
Proof.
  destruct (scroll_up_spec L) as [M1 R1]. destruct (scroll_down_spec (l_scroll_up L)) as [M2 R2].
  split; [congruence|]. intros x y. rewrite R2, (hrows_meta _ _ M1). set (h := hrows L).
  destruct (y <? h)%nat eqn:E; [|rewrite R1; fold h; rewrite E; reflexivity]. apply Nat.ltb_lt in E.
  rewrite R1. fold h. unfold src_down, src_up. destruct y as [|y'].
  - replace (h - 1 <? h)%nat with true by (symmetry; apply Nat.ltb_lt; lia).
    replace (S (h - 1) <? h)%nat with false by (symmetry; apply Nat.ltb_ge; lia). reflexivity.
  - replace (y' <? h)%nat with true by (symmetry; apply Nat.ltb_lt; lia).
    replace (S y' <? h)%nat with true by (symmetry; apply Nat.ltb_lt; lia). reflexivity.
Qed.

Lemma scroll_up_down L : leqv (l_scroll_up (l_scroll_down L)) L.
Proof.
  destruct (scroll_down_spec L) as [M1 R1]. destruct (scroll_up_spec (l_scroll_down L)) as [M2 R2].
  split; [congruence|]. intros x y. rewrite R2, (hrows_meta _ _ M1). set (h := hrows L).
  destruct (y <? h)%nat eqn:E; [|rewrite R1; fold h; rewrite E; reflexivity]. apply Nat.ltb_lt in E.
  rewrite R1. fold h. unfold src_down, src_up. destruct (S y <? h)%nat eqn:E2.
  - rewrite E2. reflexivity.
  - apply Nat.ltb_ge in E2. replace (0 <? h)%nat with true by (symmetry; apply Nat.ltb_lt; lia). f_equal. lia.
Qed.

Definition P_scroll (o : xuop) (a b : xstate) : Prop :=
  exists i L, nth_error (xlayers a) i = Some L /\
    ((o = XScrollUp i /\ xeqv b (with_xb a (upd_layer (xb a) i l_scroll_up))) \/
     (o = XScrollDown i /\ xeqv b (with_xb a (upd_layer (xb a) i l_scroll_down)))).

Lemma xon_layer_ok s i o f L : nth_error (xlayers s) i = Some L ->
  xon_layer s i o (fun L => Ok (f L)) 1 = Ok (o, with_xb s (upd_layer (xb s) i f)).
Proof.
  intro H. unfold xon_layer. rewrite H. cbn [bind]. rewrite (xupd_const s i f L H). reflexivity.
Qed.

Lemma scroll_stable : xstable P_scroll.
Proof.
  intros o a b (i & L & Hn & [[-> Hb]|[-> Hb]]); split; intros t Ht.
  - pose proof (xeqv_trans _ _ _ Ht Hb) as Htb.
    destruct (xeqv_has_layer t _ i _ Htb (nth_upd_layer _ _ l_scroll_up _ Hn)) as (Lt & Hnt & _).
    cbn [xop_undo]. rewrite (xon_layer_ok _ _ _ l_scroll_down _ Hnt). eexists. split; [reflexivity|].
    eapply xeqv_trans; [apply (xeqv_upd_xlayer _ _ i _ l_scroll_down Htb); apply scroll_down_leqv|].
    rewrite xupd_twice. apply xeqv_upd_xlayer_id. intros L' _. apply scroll_down_up.
  - destruct (xeqv_has_layer t _ i _ Ht Hn) as (Lt & Hnt & _).
    cbn [xop_redo]. rewrite (xon_layer_ok _ _ _ l_scroll_up _ Hnt). eexists. split; [reflexivity|].
    eapply xeqv_trans; [|apply xeqv_sym; exact Hb]. apply xeqv_upd_xlayer; [exact Ht|apply scroll_up_leqv].
  - pose proof (xeqv_trans _ _ _ Ht Hb) as Htb.
    destruct (xeqv_has_layer t _ i _ Htb (nth_upd_layer _ _ l_scroll_down _ Hn)) as (Lt & Hnt & _).
    cbn [xop_undo]. rewrite (xon_layer_ok _ _ _ l_scroll_up _ Hnt). eexists. split; [reflexivity|].
    eapply xeqv_trans; [apply (xeqv_upd_xlayer _ _ i _ l_scroll_up Htb); apply scroll_up_leqv|].
    rewrite xupd_twice. apply xeqv_upd_xlayer_id. intros L' _. apply scroll_up_down.
  - destruct (xeqv_has_layer t _ i _ Ht Hn) as (Lt & Hnt & _).
    cbn [xop_redo]. rewrite (xon_layer_ok _ _ _ l_scroll_down _ Hnt). eexists. split; [reflexivity|].
    eapply xeqv_trans; [|apply xeqv_sym; exact Hb]. apply xeqv_upd_xlayer; [exact Ht|apply scroll_down_leqv].
Qed.
