(* C04 layer 2, part 1: from bytes to commands.  Decimal printing against parse_next_number, the CSI parameter
   reader, and for every command `c` the writer emits:  prun p (enc c ++ rest) = prun (exec c p) rest. *)
From Coq Require Import NArith ZArith Bool List Lia.
From IE Require Import Lib.Tbl Lib.C04Lib Gen.Codepage Gen.AnsiConsts Model.Attr Model.AnsiWriter Model.AnsiParser
  Proofs.AnsiPalProofs Proofs.AnsiSgrProofs Proofs.AnsiScreenProofs.
Import ListNotations.
Local Open Scope N_scope.

(* ---------------------------------------------------------------- dec *)
Lemma dec_aux_acc fuel : forall n acc, dec_aux fuel n acc = dec_aux fuel n [] ++ acc.
Proof.
  induction fuel as [|f IH]; intros n acc; [reflexivity|].
  cbn [dec_aux]. destruct (n / 10 =? 0); [reflexivity|].
  rewrite (IH (n / 10) (_ :: acc)), (IH (n / 10) [_]), <- app_assoc. reflexivity.
Qed.

Lemma dec_aux_snoc f n :
  dec_aux (S f) n [] = (if n / 10 =? 0 then [] else dec_aux f (n / 10) []) ++ [48 + n mod 10].
Proof.
  cbn [dec_aux]. destruct (n / 10 =? 0); [reflexivity|]. apply dec_aux_acc.
Qed.

Definition pnn := parse_next_number.

Lemma pnn_small x d : (0 <= x)%Z -> (x * 10 + Z.of_N d < 1073741824)%Z -> d < 10 ->
  pnn x (48 + d) = (x * 10 + Z.of_N d)%Z.
Proof.
  intros Hx Hb Hd. unfold pnn, parse_next_number, sat, i32_max, i32_min. rewrite N2Z.inj_add. change (Z.of_N 48) with 48%Z. lia.
Qed.

Lemma div10_lt_pow2 n f : n < 2 ^ N.of_nat (S f) -> n / 10 < 2 ^ N.of_nat f.
Proof.
  intro H. rewrite Nat2N.inj_succ, N.pow_succ_r' in H.
  assert (n / 10 <= n / 2) by (apply N.div_le_compat_l; lia).
  assert (n / 2 < 2 ^ N.of_nat f) by (apply N.div_lt_upper_bound; lia). lia.
Qed.

Lemma parse_dec_aux f : forall n, n < 2 ^ N.of_nat f -> n < 1073741824 ->
  fold_left pnn (dec_aux (S f) n []) 0%Z = Z.of_N n /\ Forall (fun c => is_digit c = true) (dec_aux (S f) n []) /\
  dec_aux (S f) n [] <> [].
Proof.
  induction f as [|f IH]; intros n Hf Hb.
  - change (2 ^ N.of_nat 0) with 1 in Hf. assert (n = 0) by lia. subst n. cbn. repeat split; [repeat constructor|discriminate].
  - rewrite dec_aux_snoc.
    pose proof (N.div_mod n 10 ltac:(lia)) as DM. pose proof (N.mod_lt n 10 ltac:(lia)) as ML.
    pose proof (div10_lt_pow2 _ _ Hf) as Hq.
    remember (n / 10) as q eqn:Eq. remember (n mod 10) as d eqn:Ed. clear Eq Ed.
    destruct (q =? 0) eqn:E.
    + apply N.eqb_eq in E. cbn [app fold_left]. rewrite pnn_small; [| lia | lia | lia].
      split; [lia|]. split; [|discriminate]. constructor; [|constructor].
      unfold is_digit. apply andb_true_intro. split; apply N.leb_le; lia.
    + assert (LB : q < 1073741824) by lia.
      destruct (IH q Hq LB) as (P1 & P2 & _).
      rewrite fold_left_app, P1. cbn [fold_left]. rewrite pnn_small; [| lia | lia | lia].
      split; [lia|]. split.
      * apply Forall_app. split; [exact P2|]. constructor; [|constructor].
        unfold is_digit. apply andb_true_intro. split; apply N.leb_le; lia.
      * intro H. apply app_eq_nil in H as [_ H]. discriminate.
Qed.

Lemma parse_dec n : n < 1073741824 ->
  fold_left pnn (dec n) 0%Z = Z.of_N n /\ Forall (fun c => is_digit c = true) (dec n) /\ dec n <> [].
Proof.
  intro Hb. unfold dec. apply parse_dec_aux; [|exact Hb].
  rewrite N2Nat.id. apply N.size_gt.
Qed.

(* ---------------------------------------------------------------- CSI parameters *)
Lemma push_digit_snoc pre v d : push_digit (pre ++ [v]) d = pre ++ [pnn v d].
Proof. unfold push_digit. rewrite rev_app_distr. cbn [rev app]. rewrite rev_involutive. reflexivity. Qed.

Lemma fold_push_snoc ds : forall pre v, fold_left push_digit ds (pre ++ [v]) = pre ++ [fold_left pnn ds v].
Proof.
  induction ds as [|d r IH]; intros pre v; [reflexivity|].
  cbn [fold_left]. rewrite push_digit_snoc. apply IH.
Qed.
Lemma fold_push_nil ds : ds <> [] -> fold_left push_digit ds [] = [fold_left pnn ds 0%Z].
Proof.
  destruct ds as [|d r]; [congruence|]. intros _. cbn [fold_left].
  change (push_digit [] d) with ([] ++ [pnn 0%Z d]). apply fold_push_snoc.
Qed.

Definition in_csi (p : pst) : Prop := p_unmodelled p = false /\ exists b, p_mode p = PCsi b.

Lemma pstep_digit p d : in_csi p -> is_digit d = true ->
  pstep p d = upd_mode_nums p (PCsi false) (push_digit (p_nums p) d).
Proof.
  intros [U [b M]] D. unfold pstep. rewrite U, M, D. reflexivity.
Qed.

Lemma prun_digits ds : Forall (fun c => is_digit c = true) ds -> ds <> [] -> forall p, in_csi p ->
  prun p ds = upd_mode_nums p (PCsi false) (fold_left push_digit ds (p_nums p)).
Proof.
  induction ds as [|d r IH]; intros FD NE p IC; [congruence|].
  inversion FD as [|? ? D FR]; subst. unfold prun. cbn [fold_left]. rewrite (pstep_digit p d IC D).
  destruct r as [|d2 r2]; [reflexivity|].
  fold (prun (upd_mode_nums p (PCsi false) (push_digit (p_nums p) d)) (d2 :: r2)).
  rewrite IH; [reflexivity|exact FR|discriminate|].
  destruct IC as [U _]. split; [exact U|exists false; reflexivity].
Qed.

Lemma prun_app p l1 l2 : prun p (l1 ++ l2) = prun (prun p l1) l2.
Proof. apply fold_left_app. Qed.

Definition nbound (n : N) : Prop := n < 1073741824.

Lemma prun_first_number n p : nbound n -> in_csi p -> p_nums p = [] ->
  prun p (dec n) = upd_mode_nums p (PCsi false) [Z.of_N n].
Proof.
  intros B IC E. destruct (parse_dec n B) as (V & D & NE).
  rewrite (prun_digits _ D NE p IC), E, (fold_push_nil _ NE). fold pnn. rewrite V. reflexivity.
Qed.
Lemma prun_next_number n p pre : nbound n -> in_csi p -> p_nums p = pre ++ [0%Z] ->
  prun p (dec n) = upd_mode_nums p (PCsi false) (pre ++ [Z.of_N n]).
Proof.
  intros B IC E. destruct (parse_dec n B) as (V & D & NE).
  rewrite (prun_digits _ D NE p IC), E, fold_push_snoc. rewrite V. reflexivity.
Qed.

Lemma pstep_semicolon p : in_csi p -> pstep p 59 = upd_mode_nums p (PCsi false) (p_nums p ++ [0%Z]).
Proof. intros [U [b M]]. unfold pstep. rewrite U, M. reflexivity. Qed.

Fixpoint more_nums (l : list N) : list N :=
  match l with [] => [] | n :: r => 59 :: dec n ++ more_nums r end.

Lemma enc_nums_more n r : enc_nums (n :: r) = dec n ++ more_nums r.
Proof.
  revert n. induction r as [|m r IH]; intro n; [cbn; symmetry; apply app_nil_r|].
  change (enc_nums (n :: m :: r)) with (dec n ++ [59] ++ enc_nums (m :: r)).
  rewrite IH. reflexivity.
Qed.

Lemma upd_mode_nums_id p : upd_mode_nums p (p_mode p) (p_nums p) = p.
Proof. destruct p. reflexivity. Qed.

Lemma prun_more l : Forall nbound l -> forall p, p_unmodelled p = false -> p_mode p = PCsi false ->
  prun p (more_nums l) = upd_mode_nums p (PCsi false) (p_nums p ++ zl l).
Proof.
  induction l as [|n r IH]; intros FB p U M.
  - cbn [more_nums zl map prun fold_left]. rewrite app_nil_r, <- M. symmetry. apply upd_mode_nums_id.
  - inversion FB as [|? ? B FR]; subst. cbn [more_nums].
    assert (IC : in_csi p) by (split; [exact U|exists false; exact M]).
    change (59 :: dec n ++ more_nums r) with ([59] ++ dec n ++ more_nums r).
    rewrite !prun_app. change (prun p [59]) with (pstep p 59). rewrite (pstep_semicolon p IC).
    set (p1 := upd_mode_nums p (PCsi false) (p_nums p ++ [0%Z])).
    assert (IC1 : in_csi p1) by (split; [exact U|exists false; reflexivity]).
    rewrite (prun_next_number n p1 (p_nums p) B IC1 eq_refl).
    set (p2 := upd_mode_nums p1 (PCsi false) (p_nums p ++ [Z.of_N n])).
    rewrite (IH FR p2 U eq_refl). unfold p2, p1. cbn [p_nums upd_mode_nums zl map].
    rewrite <- app_assoc. reflexivity.
Qed.

(* ESC [ n1 ; ... ; nk : from the default state to the state just before the final byte *)
Lemma prun_csi_params l p : l <> [] -> Forall nbound l -> p_unmodelled p = false -> p_mode p = PDefault ->
  prun p (csi ++ enc_nums l) = upd_mode_nums p (PCsi false) (zl l).
Proof.
  intros NE FB U M. destruct l as [|n r]; [congruence|]. inversion FB as [|? ? B FR]; subst.
  rewrite enc_nums_more. unfold csi. change ([27; 91] ++ dec n ++ more_nums r) with ([27] ++ [91] ++ dec n ++ more_nums r).
  rewrite !prun_app.
  assert (E1 : prun p [27] = upd_mode p PEsc) by (unfold prun; cbn [fold_left]; unfold pstep; rewrite U, M; reflexivity).
  rewrite E1.
  assert (E2 : prun (upd_mode p PEsc) [91] = upd_mode_nums p (PCsi true) []).
  { unfold prun; cbn [fold_left]; unfold pstep. cbn [p_unmodelled p_mode upd_mode]. rewrite U. reflexivity. }
  rewrite E2. set (p1 := upd_mode_nums p (PCsi true) []).
  assert (IC1 : in_csi p1) by (split; [exact U|exists true; reflexivity]).
  rewrite (prun_first_number n p1 B IC1 eq_refl).
  set (p2 := upd_mode_nums p1 (PCsi false) [Z.of_N n]).
  rewrite (prun_more r FR p2 U eq_refl). reflexivity.
Qed.

(* ---------------------------------------------------------------- commands *)
Definition pdefault (p : pst) : Prop := p_unmodelled p = false /\ p_mode p = PDefault.

(* what the parser does with one command of the writer, in the default state *)
Definition exec (c : cmd) (p : pst) : pst :=
  match c with
  | CSgr l => let q := upd_mode_nums p PDefault (zl l) in
              upd_attr_pal q (select_graphic_rendition (zl l) (p_attr p) (p_pal p))
  | CTc (k, r, g, b) => let q := upd_mode_nums p PDefault (zl [k; r; g; b]) in
              upd_attr_pal q (select_24bit_color (Z.of_N k) (Z.of_N r) (Z.of_N g) (Z.of_N b) (p_attr p) (p_pal p))
  | CBytes [ch] => print_char (upd_last p ch) ch
  | CBytes [_; ch] => print_char (upd_last (upd_mode p PDefault) ch) ch
  | CBytes _ => p
  | CCuf n => caret_right (upd_mode_nums p PDefault [Z.of_N n]) (Z.of_N n)
  | CRep n => repeat_print (N.to_nat n) (upd_mode_nums p PDefault [Z.of_N n]) (p_last p)
  | CCrLf => caret_lf (upd_pos p 0 (p_y p))
  | CSpace => print_char (upd_last p 32) 32
  | CGoto y => upd_pos (upd_mode_nums p PDefault [Z.of_N y]) (limit_x (p_w p) 0) (Z.max 0 (Z.of_N y - 1))
  | CRaw l => prun p l
  end.

Lemma prun_csi l f p : l <> [] -> Forall nbound l -> pdefault p ->
  is_digit f = false -> f <> 59 -> f <> 63 ->
  prun p (csi ++ enc_nums l ++ [f]) = csi_final (upd_mode_nums p (PCsi false) (zl l)) f.
Proof.
  intros NE FB [U M] D H1 H2. rewrite app_assoc, prun_app, (prun_csi_params l p NE FB U M).
  unfold prun. cbn [fold_left]. unfold pstep. cbn [p_unmodelled p_mode upd_mode_nums]. rewrite U, D.
  apply N.eqb_neq in H1, H2. rewrite H1, H2. reflexivity.
Qed.

Lemma exec_sgr l p : l <> [] -> Forall nbound l -> pdefault p -> prun p (enc (CSgr l)) = exec (CSgr l) p.
Proof.
  intros NE FB PD. cbn [enc]. rewrite (prun_csi l 109 p NE FB PD) by (reflexivity || discriminate).
  reflexivity.
Qed.

Lemma exec_tc t p : (let '(k, r, g, b) := t in nbound k /\ nbound r /\ nbound g /\ nbound b) -> pdefault p ->
  prun p (enc (CTc t)) = exec (CTc t) p.
Proof.
  destruct t as [[[k r] g] b]. intros (B1 & B2 & B3 & B4) PD. cbn [enc].
  rewrite (prun_csi [k; r; g; b] 116 p) by (try discriminate; try reflexivity; try assumption; repeat constructor; assumption).
  reflexivity.
Qed.

Lemma exec_cuf n p : nbound n -> pdefault p -> prun p (enc (CCuf n)) = exec (CCuf n) p.
Proof.
  intros B PD. cbn [enc]. change (csi ++ dec n ++ [67]) with (csi ++ enc_nums [n] ++ [67]).
  rewrite (prun_csi [n] 67 p) by (try discriminate; try reflexivity; try assumption; repeat constructor; assumption).
  reflexivity.
Qed.

Lemma exec_rep n p : nbound n -> pdefault p -> prun p (enc (CRep n)) = exec (CRep n) p.
Proof.
  intros B PD. cbn [enc]. change (csi ++ dec n ++ [98]) with (csi ++ enc_nums [n] ++ [98]).
  rewrite (prun_csi [n] 98 p) by (try discriminate; try reflexivity; try assumption; repeat constructor; assumption).
  unfold csi_final. cbn [N.eqb Pos.eqb p_nums upd_mode_nums zl map p_last].
  replace (Z.to_nat (Z.of_N n)) with (N.to_nat n) by lia. reflexivity.
Qed.

Lemma exec_goto y p : nbound y -> pdefault p -> prun p (enc (CGoto y)) = exec (CGoto y) p.
Proof.
  intros B PD. cbn [enc]. change (csi ++ dec y ++ [72]) with (csi ++ enc_nums [y] ++ [72]).
  rewrite (prun_csi [y] 72 p) by (try discriminate; try reflexivity; try assumption; repeat constructor; assumption).
  unfold csi_final. cbn [N.eqb Pos.eqb p_nums upd_mode_nums zl map p_w p_x p_y].
  assert (E : (0 <=? Z.of_N y)%Z = true) by (apply Z.leb_le; lia). rewrite E. reflexivity.
Qed.

Lemma exec_crlf p : pdefault p -> prun p (enc CCrLf) = exec CCrLf p.
Proof.
  intros [U M]. cbn [enc exec]. unfold prun. cbn [fold_left]. unfold pstep at 2. rewrite U, M.
  cbn [N.eqb Pos.eqb]. unfold pstep. cbn [p_unmodelled p_mode upd_pos]. rewrite U, M. reflexivity.
Qed.

Definition plain_char (ch : N) : bool :=
  negb ((ch =? 27) || (ch =? 10) || (ch =? 13) || (ch =? 12) || (ch =? 7) || (ch =? 127)).

Lemma exec_char ch p : plain_char ch = true -> pdefault p -> prun p [ch] = print_char (upd_last p ch) ch.
Proof.
  intros PC [U M]. unfold prun. cbn [fold_left]. unfold pstep. rewrite U, M.
  unfold plain_char in PC. apply negb_true_iff in PC.
  repeat (apply orb_false_elim in PC as [PC ?]).
  repeat match goal with H : (_ =? _) = false |- _ => rewrite H; clear H end. reflexivity.
Qed.

Lemma exec_space p : pdefault p -> prun p (enc CSpace) = exec CSpace p.
Proof. intro PD. exact (exec_char 32 p eq_refl PD). Qed.

Lemma exec_esc_char ch p : is_control_char ch = true -> pdefault p ->
  prun p [27; ch] = print_char (upd_last (upd_mode p PDefault) ch) ch.
Proof.
  intros CC [U M]. unfold prun. cbn [fold_left]. unfold pstep at 2. rewrite U, M. cbn [N.eqb Pos.eqb].
  unfold pstep. cbn [p_unmodelled p_mode upd_mode]. rewrite U.
  unfold is_control_char in CC. cbn [existsb ANSI_CONTROL_CHARS] in CC.
  assert (C : ch = 27 \/ ch = 7 \/ ch = 8 \/ ch = 9 \/ ch = 12 \/ ch = 127 \/ ch = 13 \/ ch = 10).
  { repeat (apply orb_prop in CC as [CC|CC]; [apply N.eqb_eq in CC; subst; tauto|]). discriminate. }
  destruct C as [->|[->|[->|[->|[->|[->|[->| ->]]]]]]]; reflexivity.
Qed.

Lemma pdefault_record p : pdefault p -> upd_mode p PDefault = p.
Proof. intros [_ M]. destruct p. cbn in M. subst. reflexivity. Qed.


(* ---------------------------------------------------------------- a whole command list *)
Definition raw_ok (l : list N) : Prop := l = ESC_ICE_ON \/ l = ESC_ICE_OFF \/ l = ESC_CLEAR_SCREEN \/ l = ESC_HOME.

Definition cmd_valid (c : cmd) : Prop :=
  match c with
  | CSgr l => l <> [] /\ Forall nbound l
  | CTc (k, r, g, b) => nbound k /\ nbound r /\ nbound g /\ nbound b
  | CBytes [ch] => plain_char ch = true
  | CBytes [e; ch] => e = 27 /\ is_control_char ch = true
  | CBytes _ => False
  | CCuf n | CRep n | CGoto n => nbound n
  | CCrLf | CSpace => True
  | CRaw l => raw_ok l
  end.

Lemma pdefault_misc p q : same_misc p q -> pdefault p -> pdefault q.
Proof. intros (M & _ & _ & _ & _ & _ & _ & U) [U0 M0]. split; congruence. Qed.

Lemma exec_raw l p : raw_ok l -> pdefault p -> pdefault (prun p l).
Proof.
  intros R [U M]. destruct p. cbn in U, M. subst.
  destruct R as [->|[->|[->| ->]]]; split; reflexivity.
Qed.

Lemma exec_valid c p : cmd_valid c -> pdefault p -> prun p (enc c) = exec c p /\ pdefault (exec c p).
Proof.
  intros V PD. destruct c as [l|t|l|n|n| | |y|l]; cbn [cmd_valid] in V.
  - destruct V as [NE FB]. split; [apply exec_sgr; assumption|]. destruct PD as [U M]. split; [exact U|reflexivity].
  - split; [apply exec_tc; [destruct t as [[[k r] g] b]; exact V|exact PD]|].
    destruct t as [[[k r] g] b]. destruct PD as [U M]. split; [exact U|reflexivity].
  - destruct l as [|e [|ch [|? ?]]]; try contradiction.
    + split; [apply exec_char; assumption|]. cbn [exec].
      eapply pdefault_misc; [apply print_char_misc|]. destruct PD as [U M]. split; assumption.
    + destruct V as [-> CC]. split; [apply exec_esc_char; assumption|]. cbn [exec].
      eapply pdefault_misc; [apply print_char_misc|]. destruct PD as [U M]. split; [exact U|reflexivity].
  - split; [apply exec_cuf; assumption|]. destruct PD as [U M]. split; [exact U|reflexivity].
  - split; [apply exec_rep; assumption|]. cbn [exec].
    eapply pdefault_misc; [apply repeat_print_misc|]. destruct PD as [U M]. split; [exact U|reflexivity].
  - split; [apply exec_crlf; assumption|]. cbn [exec].
    eapply pdefault_misc; [apply caret_lf_misc|]. destruct PD as [U M]. split; assumption.
  - split; [apply exec_space; assumption|]. cbn [exec].
    eapply pdefault_misc; [apply print_char_misc|]. destruct PD as [U M]. split; assumption.
  - split; [apply exec_goto; assumption|]. destruct PD as [U M]. split; [exact U|reflexivity].
  - split; [reflexivity|]. cbn [exec]. apply exec_raw; assumption.
Qed.

Definition exec_all (cmds : list cmd) (p : pst) : pst := fold_left (fun p c => exec c p) cmds p.

Lemma exec_all_app l1 l2 p : exec_all (l1 ++ l2) p = exec_all l2 (exec_all l1 p).
Proof. apply fold_left_app. Qed.

Lemma enc_all_app l1 l2 : enc_all (l1 ++ l2) = enc_all l1 ++ enc_all l2.
Proof. apply flat_map_app. Qed.

Lemma exec_all_valid cmds : Forall cmd_valid cmds -> forall p, pdefault p ->
  prun p (enc_all cmds) = exec_all cmds p /\ pdefault (exec_all cmds p).
Proof.
  induction cmds as [|c r IH]; intros FV p PD; [split; [reflexivity|exact PD]|].
  inversion FV as [|? ? V FR]; subst.
  destruct (exec_valid c p V PD) as [E PD'].
  cbn [enc_all flat_map]. rewrite prun_app, E. cbn [exec_all fold_left]. apply (IH FR _ PD').
Qed.
