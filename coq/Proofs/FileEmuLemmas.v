(* C02 (text loaders): the lemma of Proofs/EmuProofs.v that C01's wrapper scripts use, restated over Gen/FileEmu.v. *)
From Coq Require Import ZArith NArith List Bool Lia.
From IE Require Import Model.FileCore Gen.FileAnsiTok Gen.FileEmu Proofs.TermProofs.
Import ListNotations.
Local Open Scope Z_scope.

Lemma attr_from_u8_pgeo : forall t ice b, pgeo (attr_from_u8 t ice b) = pgeo t.
Proof. intros. unfold attr_from_u8. destruct ice; reflexivity. Qed.
