(* An additional invariant of the RIP tokenizer (Model/RipTok.v), kept next to TokInv: the Vec<i32> of the command under
   construction (SetPalette colours, polygon points) holds numbers of at most two base-36 digits.  Every element is pushed as 0
   at an even parameter index and receives one digit there and one at the following odd index.  Needed by the stream theorem
   of the line family: Polygon / PolyLine hand these numbers to Bgi::line as coordinates. *)
From Coq Require Import NArith ZArith List Bool Lia Arith.
From IE Require Import Gen.RipGen Model.RipTok Proofs.RipTokProofs.
Import ListNotations.
Local Open Scope Z_scope.

Definition VecRange (v : list Z) : Prop := Forall (fun x => 0 <= x < 1296) v.

Definition VecInv (c : pcmd) (st : Z) : Prop :=
  match cmd_parse (pc_cmd c) with
  | PSetPalette => VecRange (pc_vec c) /\ (Z.rem st 2 <> 0 -> forall r x, pop_last (pc_vec c) = Some (r, x) -> 0 <= x < 36)
  | PPoly => VecRange (pc_vec c) /\ (Z.rem st 2 <> 0 -> forall r x, pop_last (pc_vec c) = Some (r, x) -> 0 <= x < 36) /\
             (st <= 1 -> pc_vec c = [])
  | _ => pc_vec c = []
  end.

Lemma VecInv_range c st : VecInv c st -> VecRange (pc_vec c).
Proof. unfold VecInv. destruct (cmd_parse (pc_cmd c)); intros H; try (rewrite H; constructor); tauto. Qed.

Lemma new_cmd_vec c : VecInv (new_cmd c) 0.
Proof.
  unfold VecInv. simpl. destruct (cmd_parse c); try reflexivity.
  - split; [constructor|]. intros _ r x H. discriminate H.
  - split; [constructor|split; [|reflexivity]]. intros _ r x H. discriminate H.
Qed.

Definition VecPost (st : Z) (r : presult) : Prop :=
  match r with PMore c' | PDone c' => VecInv c' (st + 1) | _ => True end.

Lemma with_field_vec c f k cont (Q : presult -> Prop) :
  Q PErr -> (forall s, Q (PPanic s)) ->
  (forall c1, pc_vec c1 = pc_vec c -> pc_cmd c1 = pc_cmd c -> Q (cont c1)) -> Q (with_field c f k cont).
Proof.
  intros QE QP H. unfold with_field. destruct (nth_error (pc_fields c) f); [|apply QP].
  destruct (k z); [|exact QE]. destruct (set_nth (pc_fields c) f z0); [|apply QP]. apply H; reflexivity.
Qed.

Lemma apply_ret_vec r st c : VecInv c (st + 1) -> VecPost st (apply_ret r st c).
Proof. intros H. destruct r; simpl; auto. destruct (st <? n); exact H. Qed.

Lemma VecInv_same c c1 st : pc_vec c1 = pc_vec c -> pc_cmd c1 = pc_cmd c -> cmd_parse (pc_cmd c) <> PSetPalette -> cmd_parse (pc_cmd c) <> PPoly ->
  VecInv c st -> VecInv c1 (st + 1).
Proof.
  unfold VecInv. intros EV EC N1 N2. rewrite EC, EV. destruct (cmd_parse (pc_cmd c)); auto; congruence.
Qed.

Lemma pop_last_snoc (v : list Z) r x : pop_last v = Some (r, x) -> v = r ++ [x].
Proof.
  unfold pop_last. destruct (rev v) as [|y t] eqn:E; [discriminate|]. intros H. inversion H; subst.
  apply (f_equal (@rev Z)) in E. rewrite rev_involutive in E. simpl in E. exact E.
Qed.

Lemma VecRange_app v x : VecRange v -> 0 <= x < 1296 -> VecRange (v ++ [x]).
Proof. intros H Hx. apply Forall_app. split; [exact H|constructor; [exact Hx|constructor]]. Qed.

Lemma VecRange_front r x : VecRange (r ++ [x]) -> VecRange r.
Proof. intros H. apply Forall_app in H. tauto. Qed.

Lemma rem2_succ st : 0 <= st -> (Z.rem st 2 = 0 -> Z.rem (st + 1) 2 <> 0) /\ (Z.rem st 2 <> 0 -> Z.rem (st + 1) 2 = 0).
Proof.
  intros H. rewrite !Z.rem_mod_nonneg by lia.
  pose proof (Z.mod_pos_bound st 2 ltac:(lia)). pose proof (Z.mod_pos_bound (st + 1) 2 ltac:(lia)).
  pose proof (Z.div_mod st 2 ltac:(lia)). pose proof (Z.div_mod (st + 1) 2 ltac:(lia)). lia.
Qed.

(* one digit merged into the vector: at an even index a fresh element (one digit), at an odd index the second digit of the last *)
Lemma vec_digit_vec c st ch cont (Q : presult -> Prop) : 0 <= st ->
  VecRange (pc_vec c) -> (Z.rem st 2 <> 0 -> forall r x, pop_last (pc_vec c) = Some (r, x) -> 0 <= x < 36) ->
  Q PErr -> (forall s, Q (PPanic s)) ->
  (forall v, VecRange v -> (Z.rem (st + 1) 2 <> 0 -> forall r x, pop_last v = Some (r, x) -> 0 <= x < 36) -> Q (cont (with_vec c v))) ->
  Q (vec_digit c st ch cont).
Proof.
  intros Hst VR VL QE QP H. unfold vec_digit. destruct (rem2_succ st Hst) as [R1 R2].
  destruct (Z.rem st 2 =? 0) eqn:E; [apply Z.eqb_eq in E|apply Z.eqb_neq in E].
  - rewrite pop_last_app. destruct (parse_base_36 0 ch) as [x'|] eqn:PB; [|exact QE].
    apply parse_base_36_spec in PB. destruct PB as (d & Hd & -> & _).
    apply H; [apply VecRange_app; [exact VR|lia]|]. intros _ r x PL. rewrite pop_last_app in PL. inversion PL; subst. lia.
  - destruct (pop_last (pc_vec c)) as [[rest x]|] eqn:PL; [|apply QP].
    destruct (parse_base_36 x ch) as [x'|] eqn:PB; [|exact QE].
    apply parse_base_36_spec in PB. destruct PB as (d & Hd & -> & _).
    pose proof (pop_last_snoc _ _ _ PL) as SN. specialize (VL E rest x eq_refl). rewrite SN in VR.
    apply H; [apply VecRange_app; [exact (VecRange_front _ _ VR)|lia]|]. intros N. exfalso. apply N. apply R2. exact E.
Qed.

Lemma cmd_parse_step_vec c st ch : 0 <= st -> VecInv c st -> VecPost st (cmd_parse_step c st ch).
Proof.
  intros Hst VI. unfold cmd_parse_step. destruct (cmd_parse (pc_cmd c)) as [arms d| | | | | | | |] eqn:K.
  - (* tables: the vector is not touched *)
    assert (S : forall c1, pc_vec c1 = pc_vec c -> pc_cmd c1 = pc_cmd c -> VecInv c1 (st + 1)).
    { intros c1 EV EC. apply (VecInv_same c); auto; rewrite K; discriminate. }
    unfold apply_act.
    destruct (fst (if 0 <=? st then match nth_error arms (Z.to_nat st) with Some a => a | None => d end else d)).
    + apply with_field_vec; [exact I|intros; exact I|]. intros c1 EV EC. apply apply_ret_vec. apply S; auto.
    + apply with_field_vec; [exact I|intros; exact I|]. intros c1 EV EC. apply apply_ret_vec. apply S; auto.
    + apply apply_ret_vec. apply S; reflexivity.
    + exact I.
  - (* SetPalette *)
    unfold VecInv in VI. rewrite K in VI. destruct VI as [VR VL].
    apply vec_digit_vec; auto; [exact I|intros; exact I|]. intros v VR' VL'.
    assert (VecInv (with_vec c v) (st + 1)) by (unfold VecInv; simpl; rewrite K; auto).
    destruct (st <? 31); exact H.
  - (* polygons *)
    unfold VecInv in VI. rewrite K in VI. destruct VI as (VR & VL & V0).
    destruct ((st =? 0) || (st =? 1)) eqn:E01.
    + apply with_field_vec; [exact I|intros; exact I|]. intros c1 EV EC. simpl. unfold VecInv. rewrite EC, K, EV.
      assert (E : pc_vec c = []) by (apply V0; apply orb_true_iff in E01; destruct E01 as [E|E]; apply Z.eqb_eq in E; lia).
      rewrite E. split; [constructor|split; [intros _ r x PL; discriminate PL|reflexivity]].
    + apply orb_false_iff in E01. destruct E01 as [E0 E1]. apply Z.eqb_neq in E0. apply Z.eqb_neq in E1.
      apply vec_digit_vec; auto; [exact I|intros; exact I|]. intros v VR' VL'. cbn [pc_fields with_vec].
      assert (VecInv (with_vec c v) (st + 1)) by (unfold VecInv; simpl; rewrite K; split; [exact VR'|split; [exact VL'|lia]]).
      destruct (nth_error (pc_fields c) 1); [|exact I].
      destruct (in_i32 (z + 1) && in_i32 ((z + 1) * 4)); [|exact I].
      destruct (st <? (z + 1) * 4); exact H.
  - simpl. apply (VecInv_same c); auto; rewrite K; discriminate.
  - assert (S : forall c1, pc_vec c1 = pc_vec c -> pc_cmd c1 = pc_cmd c -> VecInv c1 (st + 1)).
    { intros c1 EV EC. apply (VecInv_same c); auto; rewrite K; discriminate. }
    destruct (st =? 0); [apply with_field_vec; [exact I|intros; exact I|]; intros c1 EV EC; simpl; apply S; auto|simpl; apply S; reflexivity].
  - assert (S : forall c1, pc_vec c1 = pc_vec c -> pc_cmd c1 = pc_cmd c -> VecInv c1 (st + 1)).
    { intros c1 EV EC. apply (VecInv_same c); auto; rewrite K; discriminate. }
    destruct (st =? 0); [apply with_field_vec; [exact I|intros; exact I|]; intros c1 EV EC; simpl; apply S; auto|simpl; apply S; reflexivity].
  - simpl. apply (VecInv_same c); auto; rewrite K; discriminate.
  - destruct (ch =? 36)%N; simpl; apply (VecInv_same c); auto; rewrite K; discriminate.
  - exact I.
Qed.

(* ---- the tokenizer keeps it ---- *)
Definition TokVec (t : tok) : Prop := match t_cmd t with Some c => VecInv c (t_pstate t) | None => True end.
Definition ActVec (a : action) : Prop := match a with ARun c => VecRange (pc_vec c) | _ => True end.

Lemma tok_init_vec : TokVec tok_init.
Proof. exact I. Qed.

Definition StepPostV (r : step_result) : Prop :=
  match r with SOk t' a _ => TokVec t' /\ ActVec a | SPanic _ => True end.

Lemma take_cmd_vec t s : TokVec t -> let '(t', a) := take_cmd t s in TokVec t' /\ ActVec a.
Proof.
  unfold TokVec, take_cmd. destruct (t_cmd t) as [c|] eqn:E; intros H; simpl.
  - split; [exact I|]. eapply VecInv_range; eauto.
  - rewrite E. auto.
Qed.

Lemma parse_parameter_vec t ch : 0 <= t_pstate t -> TokVec t ->
  match parse_parameter t ch with
  | PPReturn t' a => TokVec t' /\ ActVec a
  | PPFall t' => TokVec t' /\ t_cmd (set_state t' SReadParams) = t_cmd t'
  | PPPanic _ => True
  end.
Proof.
  intros P TV. unfold parse_parameter.
  destruct (ch =? 92)%N; [simpl; split; [exact TV|exact I]|].
  destruct (ch =? 13)%N; [simpl; split; [exact TV|exact I]|].
  destruct (ch =? 10)%N; [pose proof (take_cmd_vec t SDefault TV) as Q; destruct (take_cmd t SDefault); exact Q|].
  destruct (ch =? 124)%N; [pose proof (take_cmd_vec t (SReadCommand 0) TV) as Q; destruct (take_cmd t (SReadCommand 0)); exact Q|].
  unfold TokVec in TV. destruct (t_cmd t) as [c|] eqn:EC; [|exact I].
  pose proof (cmd_parse_step_vec c (t_pstate t) ch P TV) as S.
  destruct (cmd_parse_step c (t_pstate t) ch) as [c'|c'| |s]; simpl in S.
  - destruct (in_i32 (t_pstate t + 1)); [|exact I]. split; [exact S|reflexivity].
  - split; [exact I|]. eapply VecInv_range; eauto.
  - split; [unfold TokVec; simpl; rewrite EC; exact TV|exact I].
  - exact I.
Qed.

Lemma dispatch_vec t tab ch r : TokVec t -> dispatch t tab ch = Some r -> StepPostV r.
Proof.
  intros TV. unfold dispatch. destruct (lookup ch tab) as [[c b]|]; [|discriminate].
  destruct b; intros H; inversion H; subst; simpl.
  - split; [apply new_cmd_vec|exact I].
  - split; [exact TV|constructor].
Qed.

Lemma tok_step_vec fb t ch : 0 <= t_pstate t -> TokVec t -> StepPostV (tok_step fb t ch).
Proof.
  intros P TV. unfold tok_step.
  assert (ID : forall s a b, ActVec a -> StepPostV (SOk (set_state t s) a b)) by (intros; simpl; split; [exact TV|assumption]).
  assert (SM : forall a b, ActVec a -> StepPostV (SOk t a b)) by (intros; simpl; split; [exact TV|assumption]).
  destruct (t_state t) eqn:ST.
  - destruct fb as [|first|].
    + destruct (negb (t_enable t)); [apply SM; exact I|]. destruct (ch =? 33)%N; [apply ID; exact I|apply SM; exact I].
    + destruct (ch =? 33)%N; [|apply SM; exact I]. destruct first as [n|]; [|apply SM; exact I].
      destruct (n =? 0); [apply SM; exact I|]. destruct (n =? 1); [simpl; split; [exact TV|exact I]|].
      destruct (n =? 2); [simpl; split; [exact TV|exact I]|]. apply SM; exact I.
    + apply SM; exact I.
  - destruct (ch =? 33)%N; [apply SM; exact I|]. destruct ((ch =? 10)%N || (ch =? 13)%N); [apply SM; exact I|].
    destruct (negb (ch =? 124)%N); apply ID; exact I.
  - destruct (ch =? 33)%N; [apply ID; exact I|].
    destruct (level =? 1).
    { destruct (dispatch t rip_level1 ch) eqn:D; [eapply dispatch_vec; eauto|apply ID; exact I]. }
    destruct (level =? 9).
    { destruct (dispatch t rip_level9 ch) eqn:D; [eapply dispatch_vec; eauto|apply ID; exact I]. }
    destruct (dispatch t rip_level0 ch) eqn:D; [eapply dispatch_vec; eauto|].
    destruct (ch =? 49)%N; [apply ID; exact I|]. destruct (ch =? 57)%N; [apply ID; exact I|].
    destruct (ch =? 35)%N; apply ID; exact I.
  - pose proof (parse_parameter_vec t ch P TV) as Q.
    destruct (parse_parameter t ch); simpl in *; [exact Q|split; [tauto|exact I]|exact I].
  - destruct (ch =? 13)%N; [apply SM; exact I|]. destruct (ch =? 10)%N; [apply ID; exact I|].
    pose proof (parse_parameter_vec t ch P TV) as Q.
    destruct (parse_parameter t ch) as [t' a|t'|]; simpl in *; [exact Q| |exact I].
    split; [|exact I]. destruct Q as [Q _]. exact Q.
  - destruct (ch =? 13)%N; [apply SM; exact I|]. destruct (ch =? 10)%N; [apply ID; exact I|].
    destruct (ch =? 124)%N; apply ID; exact I.
Qed.
