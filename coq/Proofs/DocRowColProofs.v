(* C08 (extension), part 3: insert / delete row and column (finding C08-rowcol-raw-lines, repaired).

   The four records work on the raw `lines` vector (Vec::insert / remove at the caret row, per stored row insert / remove at
   the caret column) and re-capture their payload.  Since the fix commit their undo creates the rows / cells it needs
   (`resize`) and treats a row that is not stored as an empty one, so that BOTH directions compute a function of the cells of
   the layer (rawL) and of the cells of the payload only:

     del_row_raw / ins_row_raw / del_col_raw / ins_col_raw / reins_col_raw    what each direction does to the cell at (x, y)
     delrow_closed, insrow_closed, delcol_closed, inscol_stable               the record families are closed under undo / redo from
                                                                              ANY equivalent state (what the history theorem needs)
   Before the fix:
     rowcol_before_fix_refuted_proof   from an equivalent state that stores its rows in another shape the OLD undo of DeleteRow
                                       panics in Vec::insert (the new one restores the document). *)
From Coq Require Import List ZArith NArith Bool Arith Lia.
From IE Require Import Lib.C08Lib Gen.UndoGen Model.Undo Model.EditModel Model.EditOps Model.DocModel Model.DocOps
  Proofs.UndoProofs Proofs.LayerProofs Proofs.EditProofs Proofs.DocProofs.
Import ListNotations.
Local Open Scope Z_scope.

Local Notation xlclosed := (lclosed xop_undo xop_redo xeqv).

Lemma remove_at_ge {A} (l : list A) c : (length l <= c)%nat -> remove_at c l = l.
Proof. intro H. unfold remove_at. rewrite firstn_all2 by exact H. rewrite skipn_all2 by lia. apply app_nil_r. Qed.

Lemma resize_to_nth {A} (l : list A) n d : exists a, nth_error (resize_to l (n + 1) d) n = Some a.
Proof.
  destruct (nth_error (resize_to l (n + 1) d) n) eqn:E; [eauto|]. apply nth_error_None in E.
  pose proof (resize_to_length l (n + 1) d). lia.
Qed.

(* ------------------------------------------------------------------ cells of spliced rows *)
Lemma cell_at_nil x : cell_at [] x = invisible.
Proof. unfold cell_at. destruct x; reflexivity. Qed.

Lemma cell_at_ge row x : (length row <= x)%nat -> cell_at row x = invisible.
Proof. intro H. unfold cell_at. apply nth_error_None in H. rewrite H. reflexivity. Qed.

Lemma cell_at_resize row c x : cell_at (resize_to row c invisible) x = cell_at row x.
Proof. unfold resize_to. destruct (length row <? c)%nat; [apply cell_at_app_repeat|reflexivity]. Qed.

Lemma cell_at_remove_at row c x : cell_at (remove_at c row) x = if (x <? c)%nat then cell_at row x else cell_at row (S x).
Proof. unfold cell_at. rewrite nth_error_remove_at. destruct (x <? c)%nat; reflexivity. Qed.

Lemma cell_at_insert_at row c ch x : (c <= length row)%nat ->
  cell_at (insert_at c ch row) x = if (x <? c)%nat then cell_at row x else if (x =? c)%nat then ch else cell_at row (pred x).
Proof. intro H. unfold cell_at. rewrite nth_error_insert_at by exact H. destruct (x <? c)%nat; [reflexivity|]. destruct (x =? c)%nat; reflexivity. Qed.

Lemma raw_remove_at lines n x y : raw (remove_at n lines) x y = if (y <? n)%nat then raw lines x y else raw lines x (S y).
Proof. rewrite !raw_cell_at, nth_error_remove_at. destruct (y <? n)%nat; reflexivity. Qed.

Lemma raw_insert_at lines n row x y : (n <= length lines)%nat ->
  raw (insert_at n row lines) x y = if (y <? n)%nat then raw lines x y else if (y =? n)%nat then cell_at row x else raw lines x (pred y).
Proof.
  intro H. rewrite !raw_cell_at, nth_error_insert_at by exact H. destruct (y <? n)%nat; [reflexivity|]. destruct (y =? n)%nat; reflexivity.
Qed.

(* ------------------------------------------------------------------ rows *)
(* DeleteRow::redo (rows up to the deleted one are created first) and InsertRow::undo (a row that is not stored is empty) *)
Definition del_row (n : nat) (L : layer) : layer := l_set_height (with_lines L (remove_at n (resize_to (l_lines L) (n + 1) []))) (l_h L - 1).
Definition del_row0 (n : nat) (L : layer) : layer := l_set_height (with_lines L (remove_at n (l_lines L))) (l_h L - 1).
(* DeleteRow::undo (rows above are created first) and InsertRow::redo (rows up to the inserted one are created first) *)
Definition ins_row (n : nat) (row : line) (L : layer) : layer := l_set_height (with_lines L (insert_at n row (resize_to (l_lines L) n []))) (l_h L + 1).
Definition ins_row1 (n : nat) (row : line) (L : layer) : layer := l_set_height (with_lines L (insert_at n row (resize_to (l_lines L) (n + 1) []))) (l_h L + 1).

Lemma del_row_raw n L x y : rawL (del_row n L) x y = if (y <? n)%nat then rawL L x y else rawL L x (S y).
Proof. unfold del_row, rawL. cbn [l_lines l_set_height with_size with_lines]. rewrite raw_remove_at, !raw_resize_to. reflexivity. Qed.
Lemma del_row0_raw n L x y : rawL (del_row0 n L) x y = if (y <? n)%nat then rawL L x y else rawL L x (S y).
Proof. unfold del_row0, rawL. cbn [l_lines l_set_height with_size with_lines]. apply raw_remove_at. Qed.
Lemma ins_row_raw n row L x y :
  rawL (ins_row n row L) x y = if (y <? n)%nat then rawL L x y else if (y =? n)%nat then cell_at row x else rawL L x (pred y).
Proof.
  unfold ins_row, rawL. cbn [l_lines l_set_height with_size with_lines].
  rewrite raw_insert_at by apply resize_to_length. rewrite !raw_resize_to. reflexivity.
Qed.
Lemma ins_row1_raw n row L x y :
  rawL (ins_row1 n row L) x y = if (y <? n)%nat then rawL L x y else if (y =? n)%nat then cell_at row x else rawL L x (pred y).
Proof.
  unfold ins_row1, rawL. cbn [l_lines l_set_height with_size with_lines].
  rewrite raw_insert_at by (pose proof (resize_to_length (l_lines L) (n + 1) (@nil cell)); lia). rewrite !raw_resize_to. reflexivity.
Qed.

Definition meta_h (L : layer) (h : Z) :=
  (l_role L, l_visible L, l_locked L, l_pos_locked L, l_alpha_locked L, l_has_alpha L, l_mode L, l_ox L, l_oy L, l_w L, h, l_title L).
Definition meta_w (L : layer) (w : Z) :=
  (l_role L, l_visible L, l_locked L, l_pos_locked L, l_alpha_locked L, l_has_alpha L, l_mode L, l_ox L, l_oy L, w, l_h L, l_title L).

Lemma meta_h_eq L1 L2 h1 h2 : meta L1 = meta L2 -> h1 = h2 -> meta_h L1 h1 = meta_h L2 h2.
Proof. intros H ->. apply meta_fields in H. destruct H as (H1&H2&H3&H4&H5&H6&H7&H8&H9&H10&H11&H12). unfold meta_h. congruence. Qed.
Lemma meta_w_eq L1 L2 w1 w2 : meta L1 = meta L2 -> w1 = w2 -> meta_w L1 w1 = meta_w L2 w2.
Proof. intros H ->. apply meta_fields in H. destruct H as (H1&H2&H3&H4&H5&H6&H7&H8&H9&H10&H11&H12). unfold meta_w. congruence. Qed.
Lemma meta_h_id L : meta_h L (l_h L) = meta L.
Proof. reflexivity. Qed.
Lemma meta_w_id L : meta_w L (l_w L) = meta L.
Proof. reflexivity. Qed.
Lemma meta_hh L : l_h L = match meta L with (_, _, _, _, _, _, _, _, _, _, h, _) => h end.
Proof. reflexivity. Qed.
Lemma meta_l_h L1 L2 : meta L1 = meta L2 -> l_h L1 = l_h L2.
Proof. intro H. apply meta_fields in H. tauto. Qed.
Lemma meta_l_w L1 L2 : meta L1 = meta L2 -> l_w L1 = l_w L2.
Proof. intro H. apply meta_fields in H. tauto. Qed.

Lemma del_row_meta n L : meta (del_row n L) = meta_h L (l_h L - 1).
Proof. reflexivity. Qed.
Lemma del_row0_meta n L : meta (del_row0 n L) = meta_h L (l_h L - 1).
Proof. reflexivity. Qed.
Lemma ins_row_meta n row L : meta (ins_row n row L) = meta_h L (l_h L + 1).
Proof. reflexivity. Qed.
Lemma ins_row1_meta n row L : meta (ins_row1 n row L) = meta_h L (l_h L + 1).
Proof. reflexivity. Qed.

Lemma del_row_leqv n L1 L2 : leqv L1 L2 -> leqv (del_row n L1) (del_row0 n L2).
Proof.
  intros [Hm Hr]. split.
  - rewrite del_row_meta, del_row0_meta. apply meta_h_eq; [exact Hm|]. rewrite (meta_l_h _ _ Hm). reflexivity.
  - intros x y. rewrite del_row_raw, del_row0_raw, !Hr. reflexivity.
Qed.
Lemma del_row0_leqv n L1 L2 : leqv L1 L2 -> leqv (del_row0 n L1) (del_row0 n L2).
Proof.
  intros [Hm Hr]. split.
  - rewrite !del_row0_meta. apply meta_h_eq; [exact Hm|]. rewrite (meta_l_h _ _ Hm). reflexivity.
  - intros x y. rewrite !del_row0_raw, !Hr. reflexivity.
Qed.
Lemma ins_row_leqv n r1 r2 L1 L2 : leqv L1 L2 -> (forall x, cell_at r1 x = cell_at r2 x) -> leqv (ins_row n r1 L1) (ins_row n r2 L2).
Proof.
  intros [Hm Hr] Hc. split.
  - rewrite !ins_row_meta. apply meta_h_eq; [exact Hm|]. rewrite (meta_l_h _ _ Hm). reflexivity.
  - intros x y. rewrite !ins_row_raw, !Hr, Hc. reflexivity.
Qed.
Lemma ins_row1_leqv n r1 r2 L1 L2 : leqv L1 L2 -> (forall x, cell_at r1 x = cell_at r2 x) -> leqv (ins_row1 n r1 L1) (ins_row n r2 L2).
Proof.
  intros [Hm Hr] Hc. split.
  - rewrite ins_row1_meta, ins_row_meta. apply meta_h_eq; [exact Hm|]. rewrite (meta_l_h _ _ Hm). reflexivity.
  - intros x y. rewrite ins_row1_raw, ins_row_raw, !Hr, Hc. reflexivity.
Qed.

(* the two round trips *)
Lemma ins_del_row n row L : (forall x, cell_at row x = rawL L x n) -> leqv (ins_row n row (del_row0 n L)) L.
Proof.
  intro Hrow. split.
  - destruct L. unfold meta. cbn. repeat f_equal; lia.
  - intros x y. rewrite ins_row_raw, !del_row0_raw. destruct (y <? n)%nat eqn:E1; [reflexivity|]. apply Nat.ltb_ge in E1.
    destruct (y =? n)%nat eqn:E2; [apply Nat.eqb_eq in E2; subst y; apply Hrow|]. apply Nat.eqb_neq in E2.
    replace (pred y <? n)%nat with false by (symmetry; apply Nat.ltb_ge; lia). f_equal. lia.
Qed.
Lemma del_ins_row n row L : leqv (del_row0 n (ins_row n row L)) L.
Proof.
  split.
  - destruct L. unfold meta. cbn. repeat f_equal; lia.
  - intros x y. rewrite del_row0_raw, !ins_row_raw. destruct (y <? n)%nat eqn:E1; [reflexivity|]. apply Nat.ltb_ge in E1.
    replace (S y <? n)%nat with false by (symmetry; apply Nat.ltb_ge; lia).
    replace (S y =? n)%nat with false by (symmetry; apply Nat.eqb_neq; lia). reflexivity.
Qed.

Lemma as_index_ok ln : 0 <= ln -> as_index ln = Ok (Z.to_nat ln).
Proof. intro H. unfold as_index. replace (ln <? 0) with false by (symmetry; apply Z.ltb_ge; exact H). reflexivity. Qed.
Lemma col_index_ok ln : 0 <= ln -> col_index ln = Some (Z.to_nat ln).
Proof. intro H. unfold col_index. replace (ln <? 0) with false by (symmetry; apply Z.ltb_ge; exact H). reflexivity. Qed.

Lemma vec_remove_resized (lines : list line) n :
  exists r, vec_remove n (resize_to lines (n + 1) []) = Ok (r, remove_at n (resize_to lines (n + 1) [])) /\ forall x, cell_at r x = raw lines x n.
Proof.
  destruct (resize_to_nth lines n (@nil cell)) as (r & Hr). exists r. unfold vec_remove. rewrite Hr. split; [reflexivity|].
  intro x. rewrite <- (raw_resize_to lines (n + 1) x n). unfold raw, cell_at. unfold line in *. rewrite Hr. reflexivity.
Qed.

Lemma uninsert_pair (lines : list line) n :
  exists r, (match nth_error lines n with Some r => (r, remove_at n lines) | None => ([], lines) end) = (r, remove_at n lines) /\
            forall x, cell_at r x = raw lines x n.
Proof.
  destruct (nth_error lines n) as [r|] eqn:E.
  - exists r. split; [reflexivity|]. intro x. rewrite raw_cell_at, E. reflexivity.
  - exists []. split; [rewrite remove_at_ge by (apply nth_error_None; exact E); reflexivity|]. intro x. rewrite raw_cell_at, E. apply cell_at_nil.
Qed.

Definition upd_x (s : xstate) (i : nat) (f : layer -> layer) : xstate := with_xb s (upd_layer (xb s) i f).

Lemma upd_x_const s i (f : layer -> layer) L : nth_error (xlayers s) i = Some L -> upd_x s i (fun _ => f L) = upd_x s i f.
Proof. apply xupd_const. Qed.
Lemma upd_x_twice a i f g : upd_x (upd_x a i g) i f = upd_x a i (fun L => f (g L)).
Proof. apply xupd_twice. Qed.
Lemma upd_x_has s i f L : nth_error (xlayers s) i = Some L -> nth_error (xlayers (upd_x s i f)) i = Some (f L).
Proof. intro H. exact (nth_upd_layer (xb s) i f L H). Qed.

(* DeleteRow: the deleted row travels between payload and document *)
Definition U_delrow (o : xuop) (a b : xstate) : Prop :=
  exists i ln row L, o = XDeleteRow i ln row /\ 0 <= ln /\ nth_error (xlayers a) i = Some L /\
    (forall x, cell_at row x = rawL L x (Z.to_nat ln)) /\ xeqv b (upd_x a i (del_row0 (Z.to_nat ln))).
Definition R_delrow (o : xuop) (a b : xstate) : Prop :=
  exists i ln pay L, o = XDeleteRow i ln pay /\ 0 <= ln /\ nth_error (xlayers a) i = Some L /\ xeqv b (upd_x a i (del_row0 (Z.to_nat ln))).

Lemma delrow_closed : xlclosed U_delrow R_delrow.
Proof.
  split.
  - intros o a b (i & ln & row & L & -> & Hln & Hn & Hrow & Hb) t Ht. set (n := Z.to_nat ln) in *.
    pose proof (xeqv_trans _ _ _ Ht Hb) as Htb.
    destruct (xeqv_has_layer t _ i _ Htb (upd_x_has a i _ L Hn)) as (Lt & Hnt & _).
    cbn [xop_undo]. rewrite Hnt, (as_index_ok ln Hln). cbn [bind]. fold n. unfold vec_insert.
    replace (n <=? length (resize_to (l_lines Lt) n []))%nat with true by (symmetry; apply Nat.leb_le; apply resize_to_length).
    cbn [bind]. eexists _, _. split; [reflexivity|]. split.
    + change (xeqv (upd_x t i (fun _ => ins_row n row Lt)) a). rewrite (upd_x_const t i (ins_row n row) Lt Hnt).
      eapply xeqv_trans; [apply (xeqv_upd_xlayer _ _ i _ (ins_row n row) Htb); intros L1 L2 HL; apply ins_row_leqv; [exact HL|reflexivity]|].
      fold (upd_x (upd_x a i (del_row0 n)) i (ins_row n row)). rewrite upd_x_twice. apply xeqv_upd_xlayer_id.
      intros L' HL'. assert (L' = L) by (unfold xlayers in *; congruence). subst L'. apply ins_del_row. exact Hrow.
    + exists i, ln, [], L. auto.
  - intros o a b (i & ln & pay & L & -> & Hln & Hn & Hb) t Ht. set (n := Z.to_nat ln) in *.
    destruct (xeqv_has_layer t _ i _ Ht Hn) as (Lt & Hnt & HLt).
    cbn [xop_redo]. rewrite Hnt, (as_index_ok ln Hln). cbn [bind]. fold n.
    destruct (vec_remove_resized (l_lines Lt) n) as (r & Er & Hr). rewrite Er. cbn [bind].
    eexists _, _. split; [reflexivity|]. split.
    + change (xeqv (upd_x t i (fun _ => del_row n Lt)) b). rewrite (upd_x_const t i (del_row n) Lt Hnt).
      eapply xeqv_trans; [|apply xeqv_sym; exact Hb]. apply xeqv_upd_xlayer; [exact Ht|]. intros L1 L2 HL. apply del_row_leqv. exact HL.
    + exists i, ln, r, L. split; [reflexivity|]. split; [exact Hln|]. split; [exact Hn|]. split; [|exact Hb].
      intro x. rewrite Hr. fold n. destruct HLt as [_ HR]. apply HR.
Qed.

(* InsertRow: the inserted row (empty at first) travels between payload and document *)
Definition U_insrow (o : xuop) (a b : xstate) : Prop :=
  exists i ln pay row L, o = XInsertRow i ln pay /\ 0 <= ln /\ nth_error (xlayers a) i = Some L /\ xeqv b (upd_x a i (ins_row (Z.to_nat ln) row)).
Definition R_insrow (o : xuop) (a b : xstate) : Prop :=
  exists i ln row L, o = XInsertRow i ln row /\ 0 <= ln /\ nth_error (xlayers a) i = Some L /\ xeqv b (upd_x a i (ins_row (Z.to_nat ln) row)).

Lemma insrow_closed : xlclosed U_insrow R_insrow.
Proof.
  split.
  - intros o a b (i & ln & pay & row & L & -> & Hln & Hn & Hb) t Ht. set (n := Z.to_nat ln) in *.
    pose proof (xeqv_trans _ _ _ Ht Hb) as Htb.
    destruct (xeqv_has_layer t _ i _ Htb (upd_x_has a i _ L Hn)) as (Lt & Hnt & HLt).
    cbn [xop_undo]. rewrite Hnt, (col_index_ok ln Hln). fold n.
    destruct (uninsert_pair (l_lines Lt) n) as (r & Er & Hr). rewrite Er.
    eexists _, _. split; [reflexivity|]. split.
    + change (xeqv (upd_x t i (fun _ => del_row0 n Lt)) a). rewrite (upd_x_const t i (del_row0 n) Lt Hnt).
      eapply xeqv_trans; [apply (xeqv_upd_xlayer _ _ i _ (del_row0 n) Htb); intros L1 L2 HL; apply del_row0_leqv; exact HL|].
      fold (upd_x (upd_x a i (ins_row n row)) i (del_row0 n)). rewrite upd_x_twice. apply xeqv_upd_xlayer_id.
      intros L' _. apply del_ins_row.
    + exists i, ln, r, L. split; [reflexivity|]. split; [exact Hln|]. split; [exact Hn|].
      eapply xeqv_trans; [exact Hb|]. apply xeqv_upd_xlayer; [apply xeqv_refl|]. intros L1 L2 HL. apply ins_row_leqv; [exact HL|].
      intro x. rewrite Hr. destruct HLt as [_ HR]. fold (rawL Lt x n). rewrite HR, ins_row_raw, Nat.ltb_irrefl, Nat.eqb_refl. reflexivity.
  - intros o a b (i & ln & row & L & -> & Hln & Hn & Hb) t Ht. set (n := Z.to_nat ln) in *.
    destruct (xeqv_has_layer t _ i _ Ht Hn) as (Lt & Hnt & HLt).
    cbn [xop_redo]. rewrite Hnt, (as_index_ok ln Hln). cbn [bind]. fold n. unfold vec_insert.
    replace (n <=? length (resize_to (l_lines Lt) (n + 1) []))%nat with true
      by (symmetry; apply Nat.leb_le; pose proof (resize_to_length (l_lines Lt) (n + 1) (@nil cell)); lia).
    cbn [bind]. eexists _, _. split; [reflexivity|]. split.
    + change (xeqv (upd_x t i (fun _ => ins_row1 n row Lt)) b). rewrite (upd_x_const t i (ins_row1 n row) Lt Hnt).
      eapply xeqv_trans; [|apply xeqv_sym; exact Hb]. apply xeqv_upd_xlayer; [exact Ht|]. intros L1 L2 HL. apply ins_row1_leqv; [exact HL|reflexivity].
    + exists i, ln, [], row, L. auto.
Qed.

(* ------------------------------------------------------------------ columns *)
Lemma snd_col_delete col lines : snd (col_delete col lines) = col_uninsert col lines.
Proof. destruct col; reflexivity. Qed.

Definition del_col (col : option nat) (L : layer) : layer := l_set_width (with_lines L (col_uninsert col (l_lines L))) (l_w L - 1).
Definition ins_col (col : option nat) (L : layer) : layer := l_set_width (with_lines L (col_insert col (l_lines L))) (l_w L + 1).

Lemma raw_col_uninsert col lines x y :
  raw (col_uninsert col lines) x y = match col with Some c => if (x <? c)%nat then raw lines x y else raw lines (S x) y | None => raw lines x y end.
Proof.
  destruct col as [c|]; [|reflexivity]. cbn [col_uninsert]. rewrite !raw_cell_at, nth_error_map. unfold line in *.
  destruct (nth_error lines y) as [r|]; cbn [option_map]; [apply cell_at_remove_at|destruct (x <? c)%nat; reflexivity].
Qed.

Lemma raw_col_insert col lines x y :
  raw (col_insert col lines) x y =
  match col with Some c => if (x <? c)%nat then raw lines x y else if (x =? c)%nat then invisible else raw lines (pred x) y | None => raw lines x y end.
Proof.
  destruct col as [c|]; [|reflexivity]. cbn [col_insert]. rewrite !raw_cell_at, nth_error_map. unfold line in *.
  destruct (nth_error lines y) as [r|]; cbn [option_map]; [|destruct (x <? c)%nat; [reflexivity|destruct (x =? c)%nat; reflexivity]].
  destruct (c <=? length r)%nat eqn:E.
  - apply Nat.leb_le in E. apply cell_at_insert_at. exact E.
  - apply Nat.leb_gt in E. destruct (x <? c)%nat eqn:E1; [reflexivity|]. apply Nat.ltb_ge in E1.
    destruct (x =? c)%nat eqn:E2; [apply cell_at_ge; lia|]. apply Nat.eqb_neq in E2. rewrite !cell_at_ge by lia. reflexivity.
Qed.

Lemma del_col_raw col L x y :
  rawL (del_col col L) x y = match col with Some c => if (x <? c)%nat then rawL L x y else rawL L (S x) y | None => rawL L x y end.
Proof. unfold del_col, rawL. cbn [l_lines l_set_width with_size with_lines]. apply raw_col_uninsert. Qed.
Lemma ins_col_raw col L x y :
  rawL (ins_col col L) x y =
  match col with Some c => if (x <? c)%nat then rawL L x y else if (x =? c)%nat then invisible else rawL L (pred x) y | None => rawL L x y end.
Proof. unfold ins_col, rawL. cbn [l_lines l_set_width with_size with_lines]. apply raw_col_insert. Qed.
Lemma del_col_meta col L : meta (del_col col L) = meta_w L (l_w L - 1).
Proof. reflexivity. Qed.
Lemma ins_col_meta col L : meta (ins_col col L) = meta_w L (l_w L + 1).
Proof. reflexivity. Qed.

Lemma del_col_leqv col L1 L2 : leqv L1 L2 -> leqv (del_col col L1) (del_col col L2).
Proof.
  intros [Hm Hr]. split.
  - rewrite !del_col_meta. apply meta_w_eq; [exact Hm|]. rewrite (meta_l_w _ _ Hm). reflexivity.
  - intros x y. rewrite !del_col_raw. destruct col; rewrite !Hr; reflexivity.
Qed.
Lemma ins_col_leqv col L1 L2 : leqv L1 L2 -> leqv (ins_col col L1) (ins_col col L2).
Proof.
  intros [Hm Hr]. split.
  - rewrite !ins_col_meta. apply meta_w_eq; [exact Hm|]. rewrite (meta_l_w _ _ Hm). reflexivity.
  - intros x y. rewrite !ins_col_raw. destruct col; rewrite !Hr; reflexivity.
Qed.

Lemma del_ins_col col L : leqv (del_col col (ins_col col L)) L.
Proof.
  split.
  - destruct L. unfold meta. cbn. repeat f_equal; lia.
  - intros x y. rewrite del_col_raw. destruct col as [c|]; rewrite !ins_col_raw; [|reflexivity].
    destruct (x <? c)%nat eqn:E1; [reflexivity|]. apply Nat.ltb_ge in E1.
    replace (S x <? c)%nat with false by (symmetry; apply Nat.ltb_ge; lia).
    replace (S x =? c)%nat with false by (symmetry; apply Nat.eqb_neq; lia). reflexivity.
Qed.

(* InsertColumn carries no payload *)
Definition P_inscol (o : xuop) (a b : xstate) : Prop :=
  exists i col L, o = XInsertColumn i col /\ nth_error (xlayers a) i = Some L /\ xeqv b (upd_x a i (ins_col (col_index col))).

Lemma inscol_stable : xstable P_inscol.
Proof.
  intros o a b (i & col & L & -> & Hn & Hb). split; intros t Ht.
  - pose proof (xeqv_trans _ _ _ Ht Hb) as Htb.
    destruct (xeqv_has_layer t _ i _ Htb (upd_x_has a i _ L Hn)) as (Lt & Hnt & _).
    cbn [xop_undo]. rewrite Hnt. eexists. split; [reflexivity|].
    change (xeqv (upd_x t i (fun _ => del_col (col_index col) Lt)) a). rewrite (upd_x_const t i (del_col (col_index col)) Lt Hnt).
    eapply xeqv_trans; [apply (xeqv_upd_xlayer _ _ i _ (del_col (col_index col)) Htb); intros L1 L2 HL; apply del_col_leqv; exact HL|].
    fold (upd_x (upd_x a i (ins_col (col_index col))) i (del_col (col_index col))). rewrite upd_x_twice. apply xeqv_upd_xlayer_id.
    intros L' _. apply del_ins_col.
  - destruct (xeqv_has_layer t _ i _ Ht Hn) as (Lt & Hnt & _).
    cbn [xop_redo]. rewrite Hnt. eexists. split; [reflexivity|].
    change (xeqv (upd_x t i (fun _ => ins_col (col_index col) Lt)) b). rewrite (upd_x_const t i (ins_col (col_index col)) Lt Hnt).
    eapply xeqv_trans; [|apply xeqv_sym; exact Hb]. apply xeqv_upd_xlayer; [exact Ht|]. intros L1 L2 HL. apply ins_col_leqv. exact HL.
Qed.

(* DeleteColumn::undo as a function of the rows *)
Fixpoint reins (c : nat) (deleted : list (option cell)) (lines : list line) : list line :=
  match deleted, lines with
  | d :: dt, row :: lt => (match d with Some ch => insert_at c ch (resize_to row c invisible) | None => row end) :: reins c dt lt
  | _, _ => lines
  end.

Lemma resize_row_length (row : line) c : (c <= length (resize_to row c invisible))%nat.
Proof. apply resize_to_length. Qed.

(* the panic sites of col_reinsert cannot fire once `lines` holds a row for every entry of the payload *)
Lemma col_reinsert_ok c : forall deleted lines, (length deleted <= length lines)%nat -> col_reinsert (Some c) deleted lines = Ok (reins c deleted lines).
Proof.
  induction deleted as [|d dt IH]; intros lines H; [destruct lines; reflexivity|].
  destruct lines as [|row lt]; [cbn in H; lia|]. cbn [col_reinsert reins]. cbn [length] in H.
  rewrite (IH lt) by lia. destruct d as [ch|]; cbn [col_reinsert_row bind]; [|reflexivity].
  unfold vec_insert. replace (c <=? length (resize_to row c invisible))%nat with true by (symmetry; apply Nat.leb_le; apply resize_row_length).
  reflexivity.
Qed.

Lemma col_reinsert_nothing col : forall deleted lines, Forall (fun d => d = None) deleted -> col_reinsert col deleted lines = Ok lines.
Proof.
  induction deleted as [|d dt IH]; intros lines H; [reflexivity|]. inversion H as [|? ? Hd Ht]; subst.
  destruct lines as [|row lt]; cbn [col_reinsert col_reinsert_row bind]; [apply IH; exact Ht|]. rewrite (IH lt Ht). reflexivity.
Qed.

Lemma raw_reins c : forall deleted lines x y, (length deleted <= length lines)%nat ->
  raw (reins c deleted lines) x y =
  match nth_error deleted y with
  | Some (Some ch) => if (x <? c)%nat then raw lines x y else if (x =? c)%nat then ch else raw lines (pred x) y
  | _ => raw lines x y
  end.
Proof.
  induction deleted as [|d dt IH]; intros lines x y H; [destruct y; destruct lines; reflexivity|].
  destruct lines as [|row lt]; [cbn in H; lia|]. cbn [reins]. cbn [length] in H. destruct y as [|y].
  - cbn [nth_error]. rewrite !raw_cell_at. cbn [nth_error]. destruct d as [ch|]; [|reflexivity].
    rewrite cell_at_insert_at by apply resize_row_length. rewrite !cell_at_resize. reflexivity.
  - cbn [nth_error]. rewrite !raw_cell_at. cbn [nth_error]. rewrite <- !raw_cell_at. apply IH. lia.
Qed.

Definition reins_lines (col : option nat) (deleted : list (option cell)) (lines : list line) : list line :=
  match col with
  | Some c => reins c deleted (@resize_to line lines (length deleted) [])
  | None => @resize_to line lines (length deleted) []
  end.
Definition reins_col (col : option nat) (deleted : list (option cell)) (L : layer) : layer :=
  l_set_width (with_lines L (reins_lines col deleted (l_lines L))) (l_w L + 1).

(* no entry of the payload of a negative column holds a cell *)
Definition no_cells (col : option nat) (deleted : list (option cell)) : Prop := col = None -> Forall (fun d => d = None) deleted.

Lemma col_reinsert_resized col deleted (lines : list line) : no_cells col deleted ->
  col_reinsert col deleted (@resize_to line lines (length deleted) []) = Ok (reins_lines col deleted lines).
Proof.
  intro Hnc. unfold reins_lines. destruct col as [c|].
  - apply col_reinsert_ok. apply resize_to_length.
  - apply col_reinsert_nothing. apply Hnc. reflexivity.
Qed.

Lemma reins_col_raw col deleted L x y :
  rawL (reins_col col deleted L) x y =
  match col, nth_error deleted y with
  | Some c, Some (Some ch) => if (x <? c)%nat then rawL L x y else if (x =? c)%nat then ch else rawL L (pred x) y
  | _, _ => rawL L x y
  end.
Proof.
  unfold reins_col, rawL, reins_lines. cbn [l_lines l_set_width with_size with_lines]. destruct col as [c|]; [|apply raw_resize_to].
  rewrite raw_reins by apply resize_to_length. rewrite !raw_resize_to. reflexivity.
Qed.
Lemma reins_col_meta col deleted L : meta (reins_col col deleted L) = meta_w L (l_w L + 1).
Proof. reflexivity. Qed.

Lemma reins_col_leqv col deleted L1 L2 : leqv L1 L2 -> leqv (reins_col col deleted L1) (reins_col col deleted L2).
Proof.
  intros [Hm Hr]. split.
  - rewrite !reins_col_meta. apply meta_w_eq; [exact Hm|]. rewrite (meta_l_w _ _ Hm). reflexivity.
  - intros x y. rewrite !reins_col_raw, !Hr. reflexivity.
Qed.

(* what the payload of DeleteColumn says about the layer it was taken from: entry y holds the cell of column c in row y, or, when it
   holds none, row y has no visible cell from column c on *)
Definition payload_ok (col : option nat) (deleted : list (option cell)) (L : layer) : Prop :=
  no_cells col deleted /\
  forall c, col = Some c -> forall y,
    match nth_error deleted y with
    | Some (Some ch) => ch = rawL L c y
    | _ => forall x, (c <= x)%nat -> rawL L x y = invisible
    end.

Lemma reins_del_col col deleted L : payload_ok col deleted L -> leqv (reins_col col deleted (del_col col L)) L.
Proof.
  intros [_ Hp]. split.
  - destruct L. unfold meta. cbn. repeat f_equal; lia.
  - intros x y. rewrite reins_col_raw. destruct col as [c|]; [|rewrite del_col_raw; reflexivity].
    specialize (Hp c eq_refl y). rewrite !del_col_raw. destruct (nth_error deleted y) as [[ch|]|].
    + destruct (x <? c)%nat eqn:E1; [reflexivity|]. apply Nat.ltb_ge in E1.
      destruct (x =? c)%nat eqn:E2; [apply Nat.eqb_eq in E2; subst x; exact Hp|]. apply Nat.eqb_neq in E2.
      replace (pred x <? c)%nat with false by (symmetry; apply Nat.ltb_ge; lia). f_equal. lia.
    + destruct (x <? c)%nat eqn:E1; [reflexivity|]. apply Nat.ltb_ge in E1. rewrite !Hp by lia. reflexivity.
    + destruct (x <? c)%nat eqn:E1; [reflexivity|]. apply Nat.ltb_ge in E1. rewrite !Hp by lia. reflexivity.
Qed.

(* the payload DeleteColumn::redo captures describes the layer it is taken from *)
Lemma col_delete_payload col L : payload_ok col (fst (col_delete col (l_lines L))) L.
Proof.
  split.
  - intros ->. cbn [col_delete fst]. apply Forall_forall. intros d Hd. apply in_map_iff in Hd. destruct Hd as (r & <- & _). reflexivity.
  - intros c -> y. cbn [col_delete fst]. rewrite nth_error_map. unfold rawL, raw. unfold line in *.
    destruct (@nth_error (list cell) (l_lines L) y) as [r|] eqn:Er; cbn [option_map].
    + destruct (nth_error r c) as [ch|] eqn:Ec; cbv beta iota.
      * reflexivity.
      * intros x Hx. apply nth_error_None in Ec. assert (nth_error r x = None) as -> by (apply nth_error_None; lia). reflexivity.
    + intros x _. reflexivity.
Qed.

Lemma payload_ok_leqv col deleted L1 L2 : leqv L1 L2 -> payload_ok col deleted L1 -> payload_ok col deleted L2.
Proof.
  intros [_ Hr] [Hn Hp]. split; [exact Hn|]. intros c Hc y. specialize (Hp c Hc y).
  destruct (nth_error deleted y) as [[ch|]|]; [rewrite <- Hr; exact Hp|intros x Hx; rewrite <- Hr; apply Hp; exact Hx|intros x Hx; rewrite <- Hr; apply Hp; exact Hx].
Qed.

Definition U_delcol (o : xuop) (a b : xstate) : Prop :=
  exists i col deleted L, o = XDeleteColumn i col deleted /\ nth_error (xlayers a) i = Some L /\ payload_ok (col_index col) deleted L /\
    xeqv b (upd_x a i (del_col (col_index col))).
Definition R_delcol (o : xuop) (a b : xstate) : Prop :=
  exists i col pay L, o = XDeleteColumn i col pay /\ nth_error (xlayers a) i = Some L /\ xeqv b (upd_x a i (del_col (col_index col))).

Lemma delcol_closed : xlclosed U_delcol R_delcol.
Proof.
  split.
  - intros o a b (i & col & deleted & L & -> & Hn & Hp & Hb) t Ht. set (cl := col_index col) in *.
    pose proof (xeqv_trans _ _ _ Ht Hb) as Htb.
    destruct (xeqv_has_layer t _ i _ Htb (upd_x_has a i _ L Hn)) as (Lt & Hnt & _).
    cbn [xop_undo]. rewrite Hnt. fold cl. rewrite (col_reinsert_resized cl deleted (l_lines Lt) (proj1 Hp)). cbn [bind].
    eexists _, _. split; [reflexivity|]. split.
    + change (xeqv (upd_x t i (fun _ => reins_col cl deleted Lt)) a). rewrite (upd_x_const t i (reins_col cl deleted) Lt Hnt).
      eapply xeqv_trans; [apply (xeqv_upd_xlayer _ _ i _ (reins_col cl deleted) Htb); intros L1 L2 HL; apply reins_col_leqv; exact HL|].
      fold (upd_x (upd_x a i (del_col cl)) i (reins_col cl deleted)). rewrite upd_x_twice. apply xeqv_upd_xlayer_id.
      intros L' HL'. assert (L' = L) by (unfold xlayers in *; congruence). subst L'. apply reins_del_col. exact Hp.
    + exists i, col, deleted, L. auto.
  - intros o a b (i & col & pay & L & -> & Hn & Hb) t Ht. set (cl := col_index col) in *.
    destruct (xeqv_has_layer t _ i _ Ht Hn) as (Lt & Hnt & HLt).
    cbn [xop_redo]. rewrite Hnt. fold cl. destruct (col_delete cl (l_lines Lt)) as [deleted lines] eqn:Ed.
    assert (El : lines = col_uninsert cl (l_lines Lt)) by (rewrite <- snd_col_delete, Ed; reflexivity).
    assert (Edel : deleted = fst (col_delete cl (l_lines Lt))) by (rewrite Ed; reflexivity).
    eexists _, _. split; [reflexivity|]. split.
    + rewrite El. change (xeqv (upd_x t i (fun _ => del_col cl Lt)) b). rewrite (upd_x_const t i (del_col cl) Lt Hnt).
      eapply xeqv_trans; [|apply xeqv_sym; exact Hb]. apply xeqv_upd_xlayer; [exact Ht|]. intros L1 L2 HL. apply del_col_leqv. exact HL.
    + exists i, col, deleted, L. split; [reflexivity|]. split; [exact Hn|]. split; [|exact Hb].
      fold cl. rewrite Edel. eapply payload_ok_leqv; [exact HLt|]. apply col_delete_payload.
Qed.

(* ------------------------------------------------------------------ the code before the fix commit *)
(* DeleteRow::undo before the fix: `layer.lines.insert(self.line as usize, deleted_row)` on whatever rows are stored *)
Definition old_delete_row_undo (i : nat) (line : Z) (row : EditModel.line) (s : xstate) : res (xuop * xstate) :=
  match nth_error (xlayers s) i with
  | Some L =>
    do n <- as_index line;
    do lines <- vec_insert n row (l_lines L);
    Ok (XDeleteRow i line [], with_xb s (upd_layer (xb s) i (fun _ => l_set_height (with_lines L lines) (l_h L + 1))))
  | None => Err 1
  end.

(* a: a 3x3 layer whose three rows are stored; delete row 2 gives b; t stores no rows beyond the first but holds the same cells as b
   (rows 1.. of b are invisible): the old undo panics in Vec::insert, the repaired one restores the document *)
Definition rc_cell : cell := mkCell 65 7 0 0 0.
Definition rc_layer (lines : list line) (h : Z) : layer := mkLayer 0 true false false false false 0 0 0 3 h (10, 0)%N lines.
Definition rc_state (lines : list line) (h : Z) : xstate :=
  mkX (mkE 3 3 [rc_layer lines h] 0 None false 0 1) [] [(0, 1)]%N None 0 1 0 0 (mkMask 3 3 []).

Ltac crush_raw :=
  let x := fresh "x" in let y := fresh "y" in
  intros x y; unfold rawL, raw; cbn [l_lines rc_layer];
  do 4 (try (destruct y as [|y]; cbn [nth_error])); do 3 (try (destruct x as [|x]; cbn [nth_error])); reflexivity.

Theorem rowcol_before_fix_refuted_proof :
  exists a b t,
    a = rc_state [[rc_cell]; []; []] 3 /\
    xop_redo (XDeleteRow 0 2 []) a = Ok (XDeleteRow 0 2 [], b) /\ xeqv t b /\
    old_delete_row_undo 0 2 [] t = Panic 40 /\
    (exists o2 a', xop_undo (XDeleteRow 0 2 []) t = Ok (o2, a') /\ xeqv a' a).
Proof.
  exists (rc_state [[rc_cell]; []; []] 3). eexists _, (rc_state [[rc_cell]] 2). split; [reflexivity|].
  split; [vm_compute; reflexivity|]. split.
  - split; [|repeat split; try reflexivity; intro; reflexivity]. repeat split; try reflexivity. cbn. constructor; [|constructor]. split; [reflexivity|].
    crush_raw.
  - split; [vm_compute; reflexivity|]. eexists _, _. split; [vm_compute; reflexivity|]. split; [|repeat split; try reflexivity; intro; reflexivity].
    repeat split; try reflexivity. cbn. constructor; [|constructor]. split; [reflexivity|]. crush_raw.
Qed.
