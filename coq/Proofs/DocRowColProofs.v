(* C08 (extension), part 3: insert / delete row and column (known finding C08-rowcol-raw-lines).

   The four records work on the raw `lines` vector (Vec::insert / remove at the caret row, per stored row insert / remove at
   the caret column) and re-capture their payload.  What is true of them:
     rowcol_exact_roundtrip   undoing the record from EXACTLY the state its redo produced succeeds and restores the document
                              (and the stored shape, up to the rows `redo` itself materialised);
   what is false:
     rowcol_not_invariant     from a state that is equivalent (same cells everywhere) but stores its rows in another shape the
                              undo panics — so the records are not sound in the sense the history theorem needs, and an
                              operation in between that replaces `lines` by an equivalent vector breaks them. *)
From Coq Require Import List ZArith NArith Bool Arith Lia.
From IE Require Import Lib.C08Lib Gen.UndoGen Model.Undo Model.EditModel Model.EditOps Model.DocModel Model.DocOps
  Proofs.UndoProofs Proofs.LayerProofs Proofs.EditProofs Proofs.DocProofs.
Import ListNotations.
Local Open Scope Z_scope.

Lemma remove_at_ge {A} (l : list A) c : (length l <= c)%nat -> remove_at c l = l.
Proof. intro H. unfold remove_at. rewrite firstn_all2 by exact H. rewrite skipn_all2 by lia. apply app_nil_r. Qed.

Lemma remove_at_len {A} (l : list A) c : (c < length l)%nat -> length (remove_at c l) = (length l - 1)%nat.
Proof. intro H. unfold remove_at. rewrite app_length, firstn_length, skipn_length. lia. Qed.

(* DeleteColumn: putting the removed cells back gives exactly the old rows *)
Lemma col_reinsert_delete c : forall lines, col_reinsert (Some c) (fst (col_delete (Some c) lines)) (snd (col_delete (Some c) lines)) = Ok lines.
Proof.
  induction lines as [|r lines IH]; [reflexivity|]. cbn [col_delete fst snd map col_reinsert] in *.
  destruct (nth_error r c) as [ch|] eqn:E.
  - assert (Hc : (c < length r)%nat) by (apply nth_error_Some; congruence).
    unfold vec_insert. rewrite remove_at_len by exact Hc.
    replace (c <=? length r - 1)%nat with true by (symmetry; apply Nat.leb_le; lia). cbn [bind].
    rewrite insert_at_remove_at by exact E. rewrite IH. reflexivity.
  - rewrite IH. cbn [bind]. apply nth_error_None in E. rewrite remove_at_ge by exact E. reflexivity.
Qed.

Lemma col_reinsert_delete_none : forall lines, col_reinsert None (fst (col_delete None lines)) (snd (col_delete None lines)) = Ok lines.
Proof. induction lines as [|r lines IH]; [reflexivity|]. cbn [col_delete fst snd map col_reinsert] in *. rewrite IH. reflexivity. Qed.

(* InsertColumn: removing the inserted cells gives exactly the old rows *)
Lemma col_uninsert_insert c lines : col_uninsert c (col_insert c lines) = lines.
Proof.
  destruct c as [c|]; [|reflexivity]. cbn [col_uninsert col_insert]. rewrite map_map. rewrite <- (map_id lines) at 2. apply map_ext. intro r.
  destruct (c <=? length r)%nat eqn:E.
  - apply Nat.leb_le in E. apply remove_at_insert_at. exact E.
  - apply Nat.leb_gt in E. apply remove_at_ge. lia.
Qed.

Lemma leqv_resize_rows L n : leqv (with_lines L (resize_to (l_lines L) n [])) L.
Proof. split; [reflexivity|]. intros x y. unfold rawL. cbn [l_lines with_lines]. apply raw_resize_to. Qed.

Lemma resize_to_nth {A} (l : list A) n d : exists a, nth_error (resize_to l (n + 1) d) n = Some a.
Proof.
  destruct (nth_error (resize_to l (n + 1) d) n) eqn:E; [eauto|]. apply nth_error_None in E.
  pose proof (resize_to_length l (n + 1) d). lia.
Qed.

Definition is_rowcol (o : xuop) : Prop :=
  (exists i ln row, o = XDeleteRow i ln row) \/ (exists i ln row, o = XInsertRow i ln row) \/
  (exists i col del, o = XDeleteColumn i col del) \/ (exists i col, o = XInsertColumn i col).

Lemma with_size_with_lines L v w h : with_size (with_lines L v) w h = with_lines (with_size L w h) v.
Proof. reflexivity. Qed.

(* redo, then undo from exactly the state reached: the document is restored *)
Theorem rowcol_exact_roundtrip_proof : forall o a o1 b, is_rowcol o -> xop_redo o a = Ok (o1, b) ->
  exists o2 a', xop_undo o1 b = Ok (o2, a') /\ xeqv a' a.
Proof.
  intros o a o1 b Ho H.
  destruct Ho as [(i & ln & row & ->)|[(i & ln & row & ->)|[(i & col & del & ->)|(i & col & ->)]]]; cbn [xop_redo] in H.
  - (* DeleteRow *)
    destruct (nth_error (xlayers a) i) as [L|] eqn:Hn; [|discriminate].
    unfold as_index in H. destruct (ln <? 0) eqn:Eln; [discriminate|]. cbn [bind] in H.
    set (n := Z.to_nat ln) in *. unfold vec_remove in H.
    destruct (nth_error (resize_to (l_lines L) (n + 1) []) n) as [r|] eqn:Er; [|discriminate]. cbn [bind] in H. injection H as <- <-.
    cbn [xop_undo]. unfold xlayers. cbn [xb with_xb]. rewrite (nth_upd_layer (xb a) i _ L Hn).
    unfold as_index. rewrite Eln. cbn [bind]. fold n. unfold vec_insert. cbn [l_lines l_set_height with_size with_lines].
    assert (Hlen : (n < length (resize_to (l_lines L) (n + 1) []))%nat) by (apply nth_error_Some; congruence).
    rewrite remove_at_len by exact Hlen.
    replace (n <=? length (resize_to (l_lines L) (n + 1) []) - 1)%nat with true by (symmetry; apply Nat.leb_le; lia). cbn [bind].
    rewrite insert_at_remove_at by exact Er. eexists _, _. split; [reflexivity|].
    rewrite xupd_twice. apply xeqv_upd_xlayer_id. intros L' HL'. assert (L' = L) by (unfold xlayers in *; congruence). subst L'.
    cbn [l_h l_w l_set_height with_size with_lines]. replace (l_h L - 1 + 1) with (l_h L) by lia.
    eapply leqv_trans; [|apply (leqv_resize_rows L (n + 1))]. destruct L; split; reflexivity.
  - (* InsertRow *)
    destruct (nth_error (xlayers a) i) as [L|] eqn:Hn; [|discriminate].
    unfold as_index in H. destruct (ln <? 0) eqn:Eln; [discriminate|]. cbn [bind] in H.
    set (n := Z.to_nat ln) in *. unfold vec_insert in H.
    pose proof (resize_to_length (l_lines L) (n + 1) (@nil cell)) as Hlen.
    replace (n <=? length (resize_to (l_lines L) (n + 1) []))%nat with true in H by (symmetry; apply Nat.leb_le; lia).
    cbn [bind] in H. injection H as <- <-.
    cbn [xop_undo]. unfold xlayers. cbn [xb with_xb]. rewrite (nth_upd_layer (xb a) i _ L Hn).
    unfold as_index. rewrite Eln. cbn [bind]. fold n. unfold vec_remove. cbn [l_lines l_set_height with_size with_lines].
    assert (Hnth : nth_error (insert_at n row (resize_to (l_lines L) (n + 1) [])) n = Some row).
    { rewrite nth_error_insert_at by lia. rewrite Nat.ltb_irrefl, Nat.eqb_refl. reflexivity. }
    rewrite Hnth. cbn [bind]. rewrite remove_at_insert_at by lia. eexists _, _. split; [reflexivity|].
    rewrite xupd_twice. apply xeqv_upd_xlayer_id. intros L' HL'. assert (L' = L) by (unfold xlayers in *; congruence). subst L'.
    cbn [l_h l_w l_set_height with_size with_lines]. replace (l_h L + 1 - 1) with (l_h L) by lia.
    eapply leqv_trans; [|apply (leqv_resize_rows L (n + 1))]. destruct L; split; reflexivity.
  - (* DeleteColumn *)
    destruct (nth_error (xlayers a) i) as [L|] eqn:Hn; [|discriminate].
    destruct (col_delete (col_index col) (l_lines L)) as [deleted lines] eqn:Ed. injection H as <- <-.
    cbn [xop_undo]. unfold xlayers. cbn [xb with_xb]. rewrite (nth_upd_layer (xb a) i _ L Hn).
    cbn [l_lines l_set_width with_size with_lines].
    assert (Hre : col_reinsert (col_index col) deleted lines = Ok (l_lines L)).
    { replace deleted with (fst (col_delete (col_index col) (l_lines L))) by (rewrite Ed; reflexivity).
      replace lines with (snd (col_delete (col_index col) (l_lines L))) by (rewrite Ed; reflexivity).
      destruct (col_index col); [apply col_reinsert_delete|apply col_reinsert_delete_none]. }
    rewrite Hre. cbn [bind]. eexists _, _. split; [reflexivity|].
    rewrite xupd_twice. apply xeqv_upd_xlayer_id. intros L' HL'. assert (L' = L) by (unfold xlayers in *; congruence). subst L'.
    cbn [l_h l_w l_set_width with_size with_lines]. replace (l_w L - 1 + 1) with (l_w L) by lia. destruct L; split; reflexivity.
  - (* InsertColumn *)
    destruct (nth_error (xlayers a) i) as [L|] eqn:Hn; [|discriminate]. injection H as <- <-.
    cbn [xop_undo]. unfold xlayers. cbn [xb with_xb]. rewrite (nth_upd_layer (xb a) i _ L Hn).
    cbn [l_lines l_set_width with_size with_lines]. rewrite col_uninsert_insert. eexists _, _. split; [reflexivity|].
    rewrite xupd_twice. apply xeqv_upd_xlayer_id. intros L' HL'. assert (L' = L) by (unfold xlayers in *; congruence). subst L'.
    cbn [l_h l_w l_set_width with_size with_lines]. replace (l_w L + 1 - 1) with (l_w L) by lia. destruct L; split; reflexivity.
Qed.

(* ... but not from an equivalent state of another stored shape.  a: a 3x3 layer whose three rows are stored; delete row 1 gives b;
   t stores no rows beyond the first but holds the same cells as b (rows 1.. of b are invisible): undo panics in Vec::insert *)
Definition rc_cell : cell := mkCell 65 7 0 0 0.
Definition rc_layer (lines : list line) (h : Z) : layer := mkLayer 0 true false false false false 0 0 0 3 h (10, 0)%N lines.
Definition rc_state (lines : list line) (h : Z) : xstate :=
  mkX (mkE 3 3 [rc_layer lines h] 0 None false 0 1) [] [(0, 1)]%N None 0 1 0 0 (mkMask 3 3 []).

Ltac crush_raw :=
  let x := fresh "x" in let y := fresh "y" in
  intros x y; unfold rawL, raw; cbn [l_lines rc_layer];
  do 4 (try (destruct y as [|y]; cbn [nth_error])); do 3 (try (destruct x as [|x]; cbn [nth_error])); reflexivity.

Theorem rowcol_not_invariant_proof :
  exists a o1 b t,
    a = rc_state [[rc_cell]; []; []] 3 /\
    xop_redo (XDeleteRow 0 2 []) a = Ok (o1, b) /\ xeqv t b /\
    (exists o2 a', xop_undo o1 b = Ok (o2, a') /\ xeqv a' a) /\
    xop_undo o1 t = Panic 40.
Proof.
  exists (rc_state [[rc_cell]; []; []] 3). eexists _, _, (rc_state [[rc_cell]] 2). split; [reflexivity|].
  split; [vm_compute; reflexivity|]. split.
  - split; [|repeat split; try reflexivity; intro; reflexivity]. repeat split; try reflexivity. cbn. constructor; [|constructor]. split; [reflexivity|].
    crush_raw.
  - split; [|vm_compute; reflexivity]. eexists _, _. split; [vm_compute; reflexivity|]. split; [|repeat split; try reflexivity; intro; reflexivity].
    repeat split; try reflexivity. cbn. constructor; [|constructor]. split; [reflexivity|]. crush_raw.
Qed.
