(* Lemmas about Model/Tdf.v: round trip of TheDraw fonts / bundles and totality of the reader. *)
From Coq Require Import NArith ZArith List Lia Bool.
From IE Require Import Lib.C17Lib Gen.FontConsts Model.Tdf.
Import ListNotations.
Local Open Scope N_scope.

(* ------------------------------------------------------------------------------------------ specifications *)
(* glyph data the format can carry: no NUL (the terminator); colour fonts store (char, attribute) pairs, a
   carriage return has no attribute and the attribute byte is arbitrary (it may be 0) *)
Definition plain_ok (d : list N) : bool := forallb (fun c => negb (c =? 0)) d.
Fixpoint color_ok (d : list N) : bool :=
  match d with
  | [] => true
  | c :: t => if c =? 0 then false
              else if c =? 13 then color_ok t
              else match t with [] => false | _ :: t' => color_ok t' end
  end.
Definition gdata_ok (color : bool) (d : list N) : bool := if color then color_ok d else plain_ok d.

Definition wf_glyph (color : bool) (g : tglyph) : Prop :=
  (0 <= g_w g < 256)%Z /\ (0 <= g_h g < 256)%Z /\ gdata_ok color (g_data g) = true.
Definition wf_entry (color : bool) (e : option tglyph) : Prop :=
  match e with None => True | Some g => wf_glyph color g end.

(* bytes of glyph data a font needs in the file: 2 size bytes + data + terminator per defined glyph *)
Definition tbl_data (tbl : list (option tglyph)) : list N :=
  concat (map (fun e => match e with Some g => glyph_bytes g | None => [] end) tbl).

Definition wf_tfont (f : tfont) : Prop :=
  lenN (t_name f) <= FONT_NAME_LEN /\ Forall (fun c => c <> 0) (t_name f) /\ utf8_valid (t_name f) = true /\
  (0 <= t_spaces f <= Z.of_N MAX_LETTER_SPACE)%Z /\
  lenN (t_table f) = CHAR_TABLE_SIZE /\ Forall (wf_entry (is_color (t_type f))) (t_table f) /\
  lenN (tbl_data (t_table f)) <= 65535.

(* ------------------------------------------------------------------------------------------ small helpers *)
Lemma take_app' site n (a b : list N) : length a = n -> take site n (a ++ b) = Ok (a, b).
Proof. intros <-. apply take_app. Qed.

Lemma skipn_lenN_app (a b : list N) : skipn (N.to_nat (lenN a)) (a ++ b) = b.
Proof. unfold lenN. rewrite Nat2N.id, skipn_app, Nat.sub_diag, skipn_all. reflexivity. Qed.

Lemma glyph_bytes_len g : lenN (glyph_bytes g) = lenN (g_data g) + 3.
Proof. unfold glyph_bytes. rewrite !lenN_cons, lenN_app. cbn. lia. Qed.

(* ------------------------------------------------------------------------------------------ glyph data scan *)
Lemma read_glyph_data_plain d : plain_ok d = true ->
  forall acc rest, read_glyph_data false (d ++ 0 :: rest) acc = Ok (rev acc ++ d).
Proof.
  induction d as [|c t IH]; intros H acc rest.
  - cbn [app read_glyph_data]. rewrite N.eqb_refl, app_nil_r. reflexivity.
  - cbn [plain_ok forallb] in H. apply andb_true_iff in H. destruct H as [Hc Ht].
    apply negb_true_iff in Hc. cbn [app read_glyph_data]. rewrite Hc.
    rewrite (IH Ht). cbn [rev]. rewrite <- app_assoc. reflexivity.
Qed.

Lemma read_glyph_data_color n : forall d, (length d <= n)%nat -> color_ok d = true ->
  forall acc rest, read_glyph_data true (d ++ 0 :: rest) acc = Ok (rev acc ++ d).
Proof.
  induction n as [|n IH]; intros d Hl H acc rest.
  - destruct d; [|cbn in Hl; lia]. cbn [app read_glyph_data]. rewrite N.eqb_refl, app_nil_r. reflexivity.
  - destruct d as [|c t]; [cbn [app read_glyph_data]; rewrite N.eqb_refl, app_nil_r; reflexivity|].
    cbn [color_ok] in H. cbn [app read_glyph_data].
    destruct (c =? 0); [discriminate|].
    destruct (c =? 13).
    + rewrite (IH t) by (cbn in Hl; try lia; assumption). cbn [rev]. rewrite <- app_assoc. reflexivity.
    + destruct t as [|a t']; [discriminate|]. cbn [app].
      rewrite (IH t') by (cbn in Hl; try lia; assumption). cbn [rev]. rewrite <- !app_assoc. reflexivity.
Qed.

Lemma read_glyph_data_ok color d : gdata_ok color d = true ->
  forall rest, read_glyph_data color (d ++ 0 :: rest) [] = Ok d.
Proof.
  intros H rest. destruct color.
  - apply (read_glyph_data_color (length d) d (le_n _) H []).
  - apply (read_glyph_data_plain d H []).
Qed.

Lemma read_glyph_at color B P g rest : wf_glyph color g ->
  lenN P + lenN (glyph_bytes g) <= B -> B <= 65535 ->
  read_glyph color B (P ++ glyph_bytes g ++ rest) (lenN P) = Ok (Some g).
Proof.
  intros (Hw & Hh & Hd) HB HB'. pose proof (glyph_bytes_len g) as Hl.
  unfold read_glyph.
  replace (lenN P =? 65535) with false by (symmetry; apply N.eqb_neq; lia).
  replace (B <=? lenN P) with false by (symmetry; apply N.leb_gt; lia).
  replace (lenN (P ++ glyph_bytes g ++ rest) <? lenN P + 2) with false
    by (symmetry; apply N.ltb_ge; rewrite !lenN_app; lia).
  rewrite skipn_lenN_app. unfold glyph_bytes. cbn [app]. rewrite <- app_assoc. cbn [app].
  rewrite (read_glyph_data_ok color _ Hd). cbn [bind].
  rewrite !as_u8_small by lia. rewrite !Z2N.id by lia. destruct g; reflexivity.
Qed.

(* ------------------------------------------------------------------------------------------ lookup table *)
Fixpoint offs_of (tbl : list (option tglyph)) (off : N) : list N :=
  match tbl with
  | [] => []
  | None :: t => 65535 :: offs_of t off
  | Some g :: t => off mod 65536 :: offs_of t (off + lenN (glyph_bytes g))
  end.

Lemma enc_table_fst tbl : forall off, fst (enc_table tbl off) = flat_map u16le (offs_of tbl off).
Proof.
  induction tbl as [|[g|] t IH]; intro off; [reflexivity| |]; cbn [enc_table offs_of flat_map fst]; rewrite IH; reflexivity.
Qed.

Lemma enc_table_snd tbl : forall off, snd (enc_table tbl off) = tbl_data tbl.
Proof.
  induction tbl as [|[g|] t IH]; intro off; [reflexivity| |]; cbn [enc_table snd]; rewrite IH; reflexivity.
Qed.

Lemma offs_of_length tbl : forall off, length (offs_of tbl off) = length tbl.
Proof. induction tbl as [|[g|] t IH]; intro off; cbn [offs_of length]; [reflexivity | rewrite IH; reflexivity | rewrite IH; reflexivity]. Qed.

Lemma offs_of_small tbl : forall off, Forall (fun v => v < 65536) (offs_of tbl off).
Proof.
  induction tbl as [|[g|] t IH]; intro off; cbn [offs_of]; constructor; try apply IH; [|lia].
  apply N.mod_lt. discriminate.
Qed.

Lemma flat_u16_len offs : lenN (flat_map u16le offs) = 2 * lenN offs.
Proof. induction offs as [|v t IH]; [reflexivity|]. cbn [flat_map]. rewrite lenN_app, IH, lenN_cons. change (lenN (u16le v)) with 2. lia. Qed.

Lemma read_u16s_flat offs rest : Forall (fun v => v < 65536) offs ->
  read_u16s (length offs) (flat_map u16le offs ++ rest) = Ok (offs, rest).
Proof.
  induction 1 as [|v t Hv Ht IH]; [reflexivity|].
  cbn [flat_map length read_u16s]. rewrite <- app_assoc.
  change (u16le v ++ flat_map u16le t ++ rest) with (v mod 256 :: (v / 256) mod 256 :: flat_map u16le t ++ rest).
  cbv iota beta. rewrite IH. cbn [bind fst snd].
  change [v mod 256; (v / 256) mod 256] with (u16le v). rewrite le16_u16le by assumption. reflexivity.
Qed.

Lemma read_glyphs_table color B rest tbl : Forall (wf_entry color) tbl -> B <= 65535 ->
  forall P, lenN P + lenN (tbl_data tbl) <= B ->
  read_glyphs color B (P ++ tbl_data tbl ++ rest) (offs_of tbl (lenN P)) = Ok tbl.
Proof.
  intros Hwf HB. induction Hwf as [|e t He Ht IH]; intros P HP; [reflexivity|].
  destruct e as [g|].
  - unfold tbl_data in *. cbn [map concat] in *. fold (tbl_data t) in *. rewrite lenN_app in HP.
    cbn [offs_of read_glyphs]. pose proof (glyph_bytes_len g) as Hl.
    rewrite N.mod_small by lia.
    rewrite <- app_assoc. rewrite read_glyph_at; [| exact He | lia | exact HB]. cbn [bind].
    rewrite <- lenN_app.
    rewrite (app_assoc P (glyph_bytes g)).
    rewrite IH by (rewrite lenN_app; lia). reflexivity.
  - unfold tbl_data in *. cbn [map concat app] in *.
    cbn [offs_of read_glyphs]. unfold read_glyph at 1. rewrite N.eqb_refl. cbn [bind].
    rewrite IH by assumption. reflexivity.
Qed.

(* ------------------------------------------------------------------------------------------ one font *)
Lemma until_nul_pad name k : Forall (fun c => c <> 0) name -> until_nul (name ++ repeat 0 k) = name.
Proof.
  induction 1 as [|c t Hc Ht IH].
  - destruct k; reflexivity.
  - cbn [app until_nul]. replace (c =? 0) with false by (symmetry; apply N.eqb_neq; assumption). rewrite IH. reflexivity.
Qed.

Lemma type_decode ty :
  (if type_byte ty =? 0 then Ok Outline else if type_byte ty =? 1 then Ok Block
   else if type_byte ty =? 2 then Ok Color else Err E_TYPE) = Ok ty.
Proof. destruct ty; reflexivity. Qed.

Section Reader.
  Variable lossy : list N -> list N.

  Lemma read_font_layout name12 tyb sp B offs data :
    length name12 = 12%nat -> length offs = 94%nat -> Forall (fun v => v < 65536) offs -> B < 65536 ->
    sp <= MAX_LETTER_SPACE ->
    read_font lossy (u32le FONT_INDICATOR ++ FONT_NAME_LEN :: name12 ++ 0 :: 0 :: 0 :: 0 :: tyb :: sp :: u16le B
                     ++ flat_map u16le offs ++ data)
    = (do ty <- (if tyb =? 0 then Ok Outline else if tyb =? 1 then Ok Block else if tyb =? 2 then Ok Color else Err E_TYPE);
       do gl <- read_glyphs (is_color ty) B data offs;
       Ok (mkTFont (lossy (until_nul name12)) ty (Z.of_N sp) gl, skipn (N.to_nat B) data)).
  Proof.
    intros Hn Ho Hs HB Hsp. unfold read_font.
    change (THE_DRAW_FONT_HEADER_SIZE - (lenN THE_DRAW_FONT_ID + 2)) with 213.
    replace (lenN (u32le FONT_INDICATOR ++ FONT_NAME_LEN :: name12 ++ 0 :: 0 :: 0 :: 0 :: tyb :: sp :: u16le B
                   ++ flat_map u16le offs ++ data) <? 213) with false.
    2:{ symmetry. apply N.ltb_ge. rewrite lenN_app, lenN_cons, lenN_app, !lenN_cons, !lenN_app, flat_u16_len.
        change (lenN (u32le FONT_INDICATOR)) with 4. change (lenN (u16le B)) with 2.
        unfold lenN. rewrite Hn, Ho. lia. }
    change (take 11 4) with (take 11 (length (u32le FONT_INDICATOR))) at 1. rewrite take_app. cbn [bind fst snd].
    rewrite le32_u32le by (unfold FONT_INDICATOR; lia). rewrite N.eqb_refl. cbn [negb take1 bind fst snd].
    rewrite N.ltb_irrefl.
    change (N.to_nat FONT_NAME_LEN) with 12%nat.
    rewrite (take_app' 11 12 name12 _ Hn). cbn [bind fst snd take take1].
    replace (MAX_LETTER_SPACE <? sp) with false by (symmetry; apply N.ltb_ge; assumption).
    destruct (if tyb =? 0 then Ok Outline else if tyb =? 1 then Ok Block else if tyb =? 2 then Ok Color else Err E_TYPE)
      as [ty|e|s|]; cbn [bind]; try reflexivity.
    change (u16le B ++ flat_map u16le offs ++ data) with (B mod 256 :: (B / 256) mod 256 :: flat_map u16le offs ++ data).
    cbn [take bind fst snd].
    change [B mod 256; (B / 256) mod 256] with (u16le B). rewrite le16_u16le by assumption.
    change (N.to_nat CHAR_TABLE_SIZE) with 94%nat. rewrite <- Ho. rewrite read_u16s_flat by assumption.
    cbn [bind fst snd]. reflexivity.
  Qed.

  Hypothesis lossy_valid : forall s, utf8_valid s = true -> lossy s = s.

  Lemma add_font_data_layout f : wf_tfont f ->
    add_font_data f = Ok (u32le FONT_INDICATOR ++ FONT_NAME_LEN ::
       (t_name f ++ repeat 0 (N.to_nat (FONT_NAME_LEN - lenN (t_name f)))) ++ 0 :: 0 :: 0 :: 0 :: type_byte (t_type f)
       :: as_u8 (t_spaces f) :: u16le (lenN (tbl_data (t_table f))) ++ flat_map u16le (offs_of (t_table f) 0)
       ++ tbl_data (t_table f)).
  Proof.
    intros (Hn & Hz & Hu & Hs & Ht & Hg & Hd). unfold add_font_data.
    replace (FONT_NAME_LEN <? lenN (t_name f)) with false by (symmetry; apply N.ltb_ge; assumption).
    replace (Z.of_N MAX_LETTER_SPACE <? t_spaces f)%Z with false by (symmetry; apply Z.ltb_ge; lia).
    rewrite enc_table_fst, enc_table_snd.
    replace (65535 <? lenN (tbl_data (t_table f))) with false by (symmetry; apply N.ltb_ge; assumption).
    rewrite <- !app_assoc. reflexivity.
  Qed.

  Lemma read_font_enc f rest : wf_tfont f ->
    exists d, add_font_data f = Ok d /\ read_font lossy (d ++ rest) = Ok (f, rest) /\
              (exists t, d = 85 :: t) /\ (213 <= length d)%nat.
  Proof.
    intro Hwf. pose proof Hwf as (Hn & Hz & Hu & Hs & Ht & Hg & Hd).
    eexists. split; [apply add_font_data_layout; assumption|].
    assert (Hname : length (t_name f ++ repeat 0 (N.to_nat (FONT_NAME_LEN - lenN (t_name f)))) = 12%nat).
    { rewrite app_length, repeat_length. unfold FONT_NAME_LEN, lenN in *. lia. }
    assert (Hoffs : length (offs_of (t_table f) 0) = 94%nat).
    { rewrite offs_of_length. unfold CHAR_TABLE_SIZE, lenN in Ht. lia. }
    split; [|split].
    - remember (t_name f ++ repeat 0 (N.to_nat (FONT_NAME_LEN - lenN (t_name f)))) as name12 eqn:E12.
      rewrite <- !app_assoc. cbn [app]. rewrite <- !app_assoc. cbn [app]. rewrite <- !app_assoc.
      rewrite read_font_layout; [| assumption | assumption | apply offs_of_small | lia
                                 | unfold MAX_LETTER_SPACE in *; rewrite as_u8_small by lia; lia].
      rewrite type_decode. cbn [bind].
      change (offs_of (t_table f) 0) with (offs_of (t_table f) (lenN (@nil N))).
      change (tbl_data (t_table f) ++ rest) with ([] ++ tbl_data (t_table f) ++ rest).
      rewrite read_glyphs_table; [| assumption | lia | cbn; lia]. cbn [bind app].
      rewrite skipn_lenN_app. subst name12. rewrite until_nul_pad by assumption. rewrite lossy_valid by assumption.
      unfold MAX_LETTER_SPACE in Hs. rewrite as_u8_small by lia. rewrite Z2N.id by lia.
      destruct f; reflexivity.
    - eexists. reflexivity.
    - rewrite app_length. change (length (u32le FONT_INDICATOR)) with 4%nat. cbn [length].
      rewrite app_length, Hname. cbn [length]. rewrite !app_length.
      assert (length (flat_map u16le (offs_of (t_table f) 0)) = 188%nat).
      { pose proof (flat_u16_len (offs_of (t_table f) 0)) as E. unfold lenN in E. lia. }
      change (length (u16le (lenN (tbl_data (t_table f))))) with 2%nat. lia.
  Qed.

  (* ---------------------------------------------------------------------------------------- the font loop *)
  Lemma read_fonts_step f tail fuel acc d : wf_tfont f -> add_font_data f = Ok d ->
    read_fonts lossy (S fuel) (d ++ tail) acc = read_fonts lossy fuel tail (f :: acc).
  Proof.
    intros Hwf Hd. destruct (read_font_enc f tail Hwf) as (d' & E1 & E2 & (t & E3) & _).
    rewrite Hd in E1. injection E1 as <-. subst d.
    cbn [read_fonts app]. change (85 =? 0) with false. cbv iota.
    change (85 :: t ++ tail) with ((85 :: t) ++ tail). rewrite E2. cbn [bind fst snd]. reflexivity.
  Qed.

  Lemma add_fonts_ok fs : Forall wf_tfont fs ->
    exists D, add_fonts fs = Ok D /\ (length fs <= length D)%nat /\ (213 * length fs <= length D)%nat /\
      forall fuel acc tail0, (length fs < fuel)%nat -> (tail0 = [] \/ exists t, tail0 = 0 :: t) ->
        read_fonts lossy fuel (D ++ tail0) acc = Ok (rev acc ++ fs).
  Proof.
    induction 1 as [|f t Hf Ht IH].
    - exists []. split; [reflexivity|]. split; [cbn; lia|]. split; [cbn; lia|].
      intros fuel acc tail0 Hfu Htail. destruct fuel; [lia|]. rewrite app_nil_r. cbn [app read_fonts].
      destruct Htail as [-> | (t & ->)]; [reflexivity|]. rewrite N.eqb_refl. reflexivity.
    - destruct IH as (D & E & L & L2 & R). destruct (read_font_enc f [] Hf) as (d & Ed & _ & _ & Ld).
      exists (d ++ D). cbn [add_fonts]. rewrite Ed, E. cbn [bind]. split; [reflexivity|].
      split; [rewrite app_length; cbn [length]; lia|]. split; [rewrite app_length; cbn [length]; lia|].
      intros fuel acc tail0 Hfu Htail. destruct fuel as [|k]; [lia|].
      rewrite <- app_assoc. rewrite (read_fonts_step f _ k acc d Hf Ed).
      rewrite R by (cbn [length] in Hfu; try lia; assumption).
      cbn [rev]. rewrite <- app_assoc. reflexivity.
  Qed.

  Lemma header_ok body : (213 <= length body)%nat ->
    from_tdf_bytes lossy (tdf_header ++ body) = read_fonts lossy (S (length (tdf_header ++ body))) body [].
  Proof.
    intro Hb. unfold from_tdf_bytes.
    replace (lenN (tdf_header ++ body) <? THE_DRAW_FONT_HEADER_SIZE) with false.
    2:{ symmetry. apply N.ltb_ge. rewrite lenN_app. change (lenN tdf_header) with 20. unfold THE_DRAW_FONT_HEADER_SIZE, lenN. lia. }
    change (tdf_header ++ body) with ((lenN THE_DRAW_FONT_ID + 1) :: (THE_DRAW_FONT_ID ++ CTRL_Z :: body)).
    cbn [take1 bind fst snd]. rewrite N.eqb_refl. cbn [negb].
    rewrite take_app. cbn [bind fst snd].
    change (forallb (fun p : N * N => fst p =? snd p) (combine THE_DRAW_FONT_ID THE_DRAW_FONT_ID)) with true.
    cbn [negb take1 bind fst snd]. rewrite N.eqb_refl. cbn [negb]. reflexivity.
  Qed.

  Lemma tdf_bundle_roundtrip_proof fs : fs <> [] -> Forall wf_tfont fs ->
    exists bs, create_font_bundle fs = Ok bs /\ from_tdf_bytes lossy bs = Ok fs.
  Proof.
    intros Hne Hwf. destruct (add_fonts_ok fs Hwf) as (D & E & L & L2 & R).
    unfold create_font_bundle. rewrite E. cbn [bind]. eexists. split; [reflexivity|].
    assert (213 <= length D)%nat by (destruct fs; [congruence | cbn [length] in L2; lia]).
    rewrite header_ok by (rewrite app_length; lia).
    rewrite R; [reflexivity | rewrite !app_length; lia | right; eexists; reflexivity].
  Qed.

  Lemma tdf_single_roundtrip_proof f : wf_tfont f ->
    exists bs, as_tdf_bytes f = Ok bs /\ from_tdf_bytes lossy bs = Ok [f].
  Proof.
    intro Hwf. destruct (add_fonts_ok [f] (Forall_cons _ Hwf (Forall_nil _))) as (D & E & L & L2 & R).
    cbn [add_fonts] in E. unfold as_tdf_bytes.
    destruct (add_font_data f) as [d| | |]; cbn [bind] in E; try discriminate.
    injection E as <-. cbn [bind]. eexists. split; [reflexivity|].
    rewrite app_nil_r in *. cbn [length] in L2.
    rewrite header_ok by lia.
    specialize (R (S (length (tdf_header ++ d))) [] []). rewrite app_nil_r in R.
    apply R; [cbn [length]; rewrite app_length; lia | left; reflexivity].
  Qed.
End Reader.

(* ------------------------------------------------------------------------------------------ totality *)
Lemma safe_bind_ok {A B} (r : res A) (f : A -> res B) :
  safe r -> (forall a, r = Ok a -> safe (f a)) -> safe (bind r f).
Proof. intros Hr Hf. destruct r; cbn [bind]; try exact Hr. apply Hf. reflexivity. Qed.

Lemma read_glyph_data_safe color : forall n s acc, (length s <= n)%nat -> safe (read_glyph_data color s acc).
Proof.
  induction n as [|n IH]; intros s acc H; destruct s as [|ch s']; try exact I; [cbn in H; lia|].
  cbn [read_glyph_data]. destruct (ch =? 0); [exact I|]. cbn [length] in H.
  destruct color.
  - destruct (ch =? 13); [apply IH; lia|]. destruct s' as [|a s'']; [exact I|]. apply IH. cbn [length] in H. lia.
  - apply IH. lia.
Qed.

Lemma read_glyph_safe color B data off : safe (read_glyph color B data off).
Proof.
  unfold read_glyph. destruct (off =? 65535); [exact I|]. destruct (B <=? off); [exact I|].
  destruct (N.ltb_spec (lenN data) (off + 2)) as [H|H]; [exact I|].
  remember (skipn (N.to_nat off) data) as s eqn:Es.
  assert (L : (2 <= length s)%nat) by (subst s; rewrite skipn_length; unfold lenN in H; lia).
  destruct s as [|w [|h s]]; cbn [length] in L; try lia.
  apply safe_bind_ok; [apply (read_glyph_data_safe color (length s)); lia | intros; exact I].
Qed.

Lemma read_glyphs_safe color B data offs : safe (read_glyphs color B data offs).
Proof.
  induction offs as [|o t IH]; [exact I|]. cbn [read_glyphs].
  apply safe_bind_ok; [apply read_glyph_safe|]. intros g _.
  apply safe_bind_ok; [exact IH|]. intros; exact I.
Qed.

Lemma read_u16s_ok k : forall s, (2 * k <= length s)%nat ->
  exists offs, read_u16s k s = Ok (offs, skipn (2 * k) s).
Proof.
  induction k as [|k IH]; intros s H; [exists []; reflexivity|].
  destruct s as [|a [|b t]]; cbn [length] in H; try lia.
  destruct (IH t) as (offs & E); [lia|].
  exists (le16 [a; b] :: offs). cbn [read_u16s]. rewrite E. cbn [bind fst snd].
  replace (2 * S k)%nat with (S (S (2 * k))) by lia. reflexivity.
Qed.

Section Total.
  Variable lossy : list N -> list N.

  Lemma read_font_safe s :
    safe (read_font lossy s) /\ forall f s', read_font lossy s = Ok (f, s') -> (length s' < length s)%nat.
  Proof.
    unfold read_font. change (THE_DRAW_FONT_HEADER_SIZE - (lenN THE_DRAW_FONT_ID + 2)) with 213.
    destruct (N.ltb_spec (lenN s) 213) as [H|H]; [split; [exact I | discriminate]|].
    assert (L : (213 <= length s)%nat) by (unfold lenN in H; lia). clear H.
    do 25 (destruct s as [|? s]; [cbn [length] in L; lia|]). cbn [length] in L.
    cbn [take bind fst snd take1].
    destruct (negb (le32 [n; n0; n1; n2] =? FONT_INDICATOR)); [split; [exact I | discriminate]|].
    destruct (N.ltb_spec FONT_NAME_LEN n3) as [Hn|Hn]; [split; [exact I | discriminate]|].
    rewrite take_ok by (cbn [length]; unfold FONT_NAME_LEN in Hn; lia). cbn [bind fst snd].
    change (N.to_nat FONT_NAME_LEN) with 12%nat. cbn [take bind fst snd take1].
    assert (Hty : (if n20 =? 0 then Ok Outline else if n20 =? 1 then Ok Block else if n20 =? 2 then Ok Color else Err E_TYPE)
                  = Err E_TYPE \/ exists ty, (if n20 =? 0 then Ok Outline else if n20 =? 1 then Ok Block
                                              else if n20 =? 2 then Ok Color else Err E_TYPE) = Ok ty).
    { destruct (n20 =? 0); [right; eauto|]. destruct (n20 =? 1); [right; eauto|]. destruct (n20 =? 2); [right; eauto|]. left; reflexivity. }
    destruct Hty as [-> | (ty & ->)]; [split; [exact I | discriminate]|]. cbn [bind].
    destruct (MAX_LETTER_SPACE <? n21); [split; [exact I | discriminate]|].
    change (N.to_nat CHAR_TABLE_SIZE) with 94%nat.
    destruct (read_u16s_ok 94 s) as (offs & E); [lia|].
    remember (skipn (2 * 94) s) as s2 eqn:Es2.
    assert (Ls2 : (length s2 <= length s)%nat) by (subst s2; rewrite skipn_length; lia). clear Es2.
    rewrite E. cbn [bind fst snd].
    pose proof (read_glyphs_safe (is_color ty) (le16 [n22; n23]) s2 offs) as G.
    destruct (read_glyphs (is_color ty) (le16 [n22; n23]) s2 offs) as [gl| | |]; cbn [bind];
      try (split; [exact G | discriminate]).
    split; [exact I|]. intros f s' Eq. injection Eq as <- <-. cbn [length].
    rewrite skipn_length. lia.
  Qed.

  Lemma read_fonts_safe : forall fuel s acc, (length s < fuel)%nat -> safe (read_fonts lossy fuel s acc).
  Proof.
    induction fuel as [|k IH]; intros s acc H; [lia|].
    cbn [read_fonts]. destruct s as [|c t]; [exact I|]. destruct (c =? 0); [exact I|].
    destruct (read_font_safe (c :: t)) as [S1 S2].
    destruct (read_font lossy (c :: t)) as [[f s']| | |]; cbn [bind]; try exact S1.
    cbn [fst snd]. apply IH. specialize (S2 f s' eq_refl). lia.
  Qed.

  Lemma from_tdf_total_proof bytes : safe (from_tdf_bytes lossy bytes).
  Proof.
    unfold from_tdf_bytes.
    destruct (N.ltb_spec (lenN bytes) THE_DRAW_FONT_HEADER_SIZE) as [H|H]; [exact I|].
    assert (L : (233 <= length bytes)%nat) by (unfold lenN, THE_DRAW_FONT_HEADER_SIZE in H; lia). clear H.
    destruct bytes as [|b0 bytes]; [cbn [length] in L; lia|]. cbn [take1 bind fst snd].
    destruct (negb (b0 =? lenN THE_DRAW_FONT_ID + 1)); [exact I|].
    rewrite take_ok by (change (length THE_DRAW_FONT_ID) with 18%nat; cbn [length] in L; lia).
    cbn [bind fst snd].
    destruct (negb (forallb _ _)); [exact I|].
    change (length THE_DRAW_FONT_ID) with 18%nat.
    remember (skipn 18 bytes) as r eqn:Er.
    assert (Lr : (length r = length bytes - 18)%nat) by (subst r; apply skipn_length).
    destruct r as [|z r]; [cbn [length] in *; lia|]. cbn [take1 bind fst snd].
    destruct (negb (z =? CTRL_Z)); [exact I|].
    apply read_fonts_safe. cbn [length] in *. lia.
  Qed.
End Total.

(* ------------------------------------------------------------------------------------------ writer limit *)
Lemma tdf_overflow_proof f :
  lenN (t_name f) <= FONT_NAME_LEN -> (t_spaces f <= Z.of_N MAX_LETTER_SPACE)%Z ->
  65535 < lenN (tbl_data (t_table f)) -> as_tdf_bytes f = Err E_DATA_OVERFLOW.
Proof.
  intros Hn Hs Hd. unfold as_tdf_bytes, add_font_data.
  replace (FONT_NAME_LEN <? lenN (t_name f)) with false by (symmetry; apply N.ltb_ge; assumption).
  replace (Z.of_N MAX_LETTER_SPACE <? t_spaces f)%Z with false by (symmetry; apply Z.ltb_ge; lia).
  rewrite enc_table_snd.
  replace (65535 <? lenN (tbl_data (t_table f))) with true by (symmetry; apply N.ltb_lt; assumption).
  reflexivity.
Qed.

(* ------------------------------------------------------------------------------------------ samples *)
Lemma wf_entries_none color k : Forall (wf_entry color) (repeat None k).
Proof. apply Forall_forall. intros e He. apply repeat_spec in He. subst e. exact I. Qed.
