(* C14 (a): every decoded sixel image is a complete rectangle; a declared raster height is kept. *)
From Coq Require Import ZArith NArith List Bool Lia Arith.
From IE Require Import Model.Sixel.
Import ListNotations.
Local Open Scope Z_scope.

Definition len4 (l : list N) : Prop := exists k, length l = (4 * k)%nat.
Definition Inv4 (r : list (list N)) : Prop := Forall len4 r.

Lemma len4_nil : len4 []. Proof. exists O. reflexivity. Qed.
Lemma len4_zeros k : len4 (zeros (k * 4)). Proof. exists k. unfold zeros. rewrite repeat_length. lia. Qed.
Lemma len4_zeros' k : len4 (zeros (4 * k)). Proof. exists k. unfold zeros. rewrite repeat_length. lia. Qed.

Lemma resize_length {A} n (v : A) l : length (resize n v l) = n.
Proof. unfold resize. rewrite app_length, firstn_length, repeat_length. lia. Qed.

Lemma firstn_In' {A} n (l : list A) x : In x (firstn n l) -> In x l.
Proof. intro H. rewrite <- (firstn_skipn n l). apply in_or_app. left. exact H. Qed.

Lemma resize_Forall {A} (P : A -> Prop) n v l : Forall P l -> P v -> Forall P (resize n v l).
Proof.
  intros Hl Hv. unfold resize. apply Forall_app. split.
  - apply Forall_forall. intros x Hx. apply firstn_In' in Hx. rewrite Forall_forall in Hl. auto.
  - apply Forall_forall. intros x Hx. apply repeat_spec in Hx. subst. exact Hv.
Qed.

Lemma upd_nth_Forall {A} (P : A -> Prop) f : (forall x, P x -> P (f x)) ->
  forall n l, Forall P l -> Forall P (upd_nth n f l).
Proof.
  intros Hf n l. revert n. induction l as [|x t IH]; intros n Hl; cbn [upd_nth]; [constructor|].
  inversion Hl; subst. destruct n; constructor; auto.
Qed.

Lemma upd_nth_length {A} (f : A -> A) : forall n l, length (upd_nth n f l) = length l.
Proof. intros n l. revert n. induction l as [|x t IH]; intros n; cbn [upd_nth]; [reflexivity|]. destruct n; cbn [length]; auto. Qed.

Lemma set_pixel_len4 x c line : len4 line -> len4 (set_pixel x c line).
Proof.
  intros [k Hk]. unfold set_pixel. destruct c as [[r g] b].
  set (off := (Z.to_nat x * 4)%nat).
  destruct (Nat.leb_spec (length line) off) as [Hle|Hgt].
  - exists (Z.to_nat x + 1)%nat.
    rewrite !app_length, firstn_length, skipn_length, resize_length. cbn [length]. subst off. lia.
  - exists k. rewrite !app_length, firstn_length, skipn_length. cbn [length]. subst off. lia.
Qed.

Lemma plot_Inv4 k : forall i mask x y last c r, Inv4 r -> Inv4 (plot k i mask x y last c r).
Proof.
  induction k as [|k IH]; intros i mask x y last c r Hr; cbn [plot]; [exact Hr|].
  destruct (Z.testbit mask i); [|apply IH, Hr].
  destruct (last <=? y + i); [exact Hr|]. apply IH. apply upd_nth_Forall; [apply set_pixel_len4|exact Hr].
Qed.

Lemma plot_length k : forall i mask x y last c r, length (plot k i mask x y last c r) = length r.
Proof.
  induction k as [|k IH]; intros i mask x y last c r; cbn [plot]; [reflexivity|].
  destruct (Z.testbit mask i); [|apply IH].
  destruct (last <=? y + i); [reflexivity|]. rewrite IH. apply upd_nth_length.
Qed.

Ltac bind_inv H :=
  match type of H with
  | bind ?r _ = Ok _ => let E := fresh "E" in destruct r eqn:E; cbn [bind] in H; [|discriminate H|discriminate H]
  end.

Local Opaque plot.

Section S.
Variable hsl : Z -> Z -> Z -> rgb.

Lemma translate_Inv4 s ch s' : Inv4 (rows s) -> translate s ch = Ok s' -> Inv4 (rows s').
Proof.
  intros Hr H. unfold translate in H.
  destruct (ch <? 63); [discriminate|].
  destruct (length (pal s) =? 0)%nat; [discriminate|].
  bind_inv H. bind_inv H. destruct (_ || _); [discriminate|]. bind_inv H. inversion H; subst; clear H. cbn [rows set_cur set_rows].
  apply plot_Inv4.
  match goal with |- Inv4 (if ?b then _ else _) => destruct b end; [|exact Hr].
  apply resize_Forall; [exact Hr|apply len4_zeros].
Qed.

Lemma parse_sixel_data_Inv4 s ch s' : Inv4 (rows s) -> parse_sixel_data s ch = Ok s' -> Inv4 (rows s').
Proof.
  intros Hr H. unfold parse_sixel_data in H.
  repeat match type of H with (if ?b then _ else _) = _ => destruct b end;
    try (inversion H; subst; exact Hr).
  - bind_inv H. inversion H; subst. exact Hr.
  - eapply translate_Inv4; eassumption.
Qed.

Lemma repeat_data_Inv4 n : forall s ch s', Inv4 (rows s) -> repeat_data n s ch = Ok s' -> Inv4 (rows s').
Proof.
  induction n as [|n IH]; intros s ch s' Hr H; cbn [repeat_data] in H.
  - inversion H; subst. exact Hr.
  - bind_inv H. eapply IH; [|exact H]. eapply parse_sixel_data_Inv4; eassumption.
Qed.

Lemma pick_color_same s : rows (pick_color s) = rows s /\ hset (pick_color s) = hset s /\ st (pick_color s) = st s.
Proof. unfold pick_color. destruct (nums s); repeat split; reflexivity. Qed.

Lemma finish_color_rows s s' : finish_color hsl s = Ok s' -> rows s' = rows s /\ hset s' = hset s /\ st s' = st s.
Proof.
  intro H. unfold finish_color in H. cbv zeta in H.
  destruct (pick_color_same s) as (R0 & H0 & S0).
  set (s0 := pick_color s) in *.
  destruct (1 <? length (nums s0))%nat; [|inversion H; subst; auto].
  destruct (negb (length (nums s0) =? 5)%nat); [discriminate|].
  repeat match type of H with
         | match ?x with _ => _ end = _ => destruct x; try discriminate H
         end.
  all: try (inversion H; subst; cbn [rows hset st set_pal]; auto; fail).
  all: bind_inv H; bind_inv H; bind_inv H; inversion H; subst; cbn [rows hset st set_pal]; auto.
Qed.

Lemma finish_size_Inv4 s s' : Inv4 (rows s) -> finish_size s = Ok s' -> Inv4 (rows s').
Proof.
  intros Hr H. unfold finish_size in H. cbv zeta in H.
  destruct ((length (nums s) <? 2)%nat || (4 <? length (nums s))%nat); [discriminate|].
  destruct (nums s) as [|v [|h rest]]; try discriminate. destruct (existsb _ rest); [discriminate|].
  inversion H; subst; clear H. cbn [rows set_st]. unfold declare.
  destruct rest as [|a [|b [|c t]]]; cbn [rows set_scale set_rows]; try exact Hr.
  - apply resize_Forall; [exact Hr|apply len4_nil].
  - apply resize_Forall; [exact Hr|apply len4_zeros'].
Qed.

Lemma parse_char_Inv4 s ch s' : Inv4 (rows s) -> parse_char hsl s ch = Ok s' -> Inv4 (rows s').
Proof.
  intros Hr H. unfold parse_char in H. destruct (st s).
  - eapply parse_sixel_data_Inv4; eassumption.
  - destruct (is_digit ch); [inversion H; subst; exact Hr|].
    destruct (ch =? 59); [inversion H; subst; exact Hr|].
    bind_inv H. apply finish_color_rows in E. destruct E as (R & _ & _).
    eapply parse_sixel_data_Inv4; [|exact H]. rewrite R. exact Hr.
  - destruct (is_digit ch); [inversion H; subst; exact Hr|].
    destruct (ch =? 59); [inversion H; subst; exact Hr|].
    bind_inv H. eapply parse_sixel_data_Inv4; [|exact H]. eapply finish_size_Inv4; eassumption.
  - destruct (is_digit ch); [inversion H; subst; exact Hr|].
    destruct (nums s) as [|i t]; [discriminate|]. destruct (MAX_SIXEL_DIMENSION <? i); [discriminate|].
    bind_inv H. inversion H; subst. cbn [rows set_st]. eapply repeat_data_Inv4; eassumption.
Qed.

Lemma parse_chars_Inv4 cs : forall s s', Inv4 (rows s) -> parse_chars hsl s cs = Ok s' -> Inv4 (rows s').
Proof.
  induction cs as [|c t IH]; intros s s' Hr H; cbn [parse_chars] in H.
  - inversion H; subst. exact Hr.
  - bind_inv H. eapply IH; [|exact H]. eapply parse_char_Inv4; eassumption.
Qed.

(* ---- assembling ---- *)
Lemma max_len_ge r : Forall (fun l => (length l <= max_len r)%nat) r.
Proof.
  induction r as [|l t IH]; [constructor|]. cbn [max_len fold_right]. constructor; [lia|].
  eapply Forall_impl; [|exact IH]. cbn beta. intros a Ha. fold (max_len t). lia.
Qed.

Lemma max_len_len4 r : Inv4 r -> exists k, max_len r = (4 * k)%nat.
Proof.
  induction 1 as [|l t [k Hk] Ht [k' IH]]; [exists O; reflexivity|].
  cbn [max_len fold_right]. fold (max_len t). rewrite Hk, IH.
  destruct (Nat.le_ge_cases k k'); [exists k'|exists k]; lia.
Qed.

Lemma concat_pad_length n r : Forall (fun l => (length l <= n)%nat) r ->
  length (concat (map (pad n) r)) = (length r * n)%nat.
Proof.
  induction 1 as [|l t Hl Ht IH]; [reflexivity|].
  cbn [map concat length]. rewrite app_length, IH. unfold pad, zeros. rewrite app_length, repeat_length. lia.
Qed.

Lemma assemble_rect r w h d : Inv4 r -> assemble r = (w, h, d) -> Z.of_nat (length d) = 4 * w * h.
Proof.
  intros Hr H. unfold assemble in H. inversion H; subst; clear H.
  rewrite concat_pad_length by apply max_len_ge.
  destruct (max_len_len4 r Hr) as [k Hk]. rewrite Hk. unfold height.
  replace (Z.of_nat (4 * k) / 4) with (Z.of_nat k).
  - lia.
  - rewrite Nat2Z.inj_mul. change (Z.of_nat 4) with 4. rewrite Z.mul_comm, Z.div_mul by lia. reflexivity.
Qed.

Lemma sixel_rect_proof pal0 vs hs data w h d :
  parse_from hsl pal0 vs hs data = Ok (w, h, d) -> Z.of_nat (length d) = 4 * w * h.
Proof.
  intro H. unfold parse_from in H. bind_inv H. bind_inv H.
  assert (HA : assemble (rows a0) = (w, h, d)) by congruence. clear H.
  eapply assemble_rect; [|exact HA].
  eapply parse_char_Inv4; [|eassumption]. eapply parse_chars_Inv4; [|eassumption]. constructor.
Qed.

(* every row of the assembled image has the image width: rows r' of d are r padded *)
Lemma assemble_rows r w h d : assemble r = (w, h, d) ->
  d = concat (map (pad (max_len r)) r) /\ Forall (fun l => length l = max_len r) (map (pad (max_len r)) r).
Proof.
  intro H. unfold assemble in H. inversion H; subst. split; [reflexivity|].
  apply Forall_forall. intros l Hl. apply in_map_iff in Hl. destruct Hl as (l0 & <- & Hin).
  pose proof (max_len_ge r) as G. rewrite Forall_forall in G. specialize (G l0 Hin).
  unfold pad, zeros. rewrite app_length, repeat_length. lia.
Qed.

(* ---- declared raster height ---- *)
Lemma translate_height s ch s' : hset s = true -> translate s ch = Ok s' ->
  length (rows s') = length (rows s) /\ hset s' = true /\ st s' = st s.
Proof.
  intros Hh H. unfold translate in H.
  destruct (ch <? 63); [discriminate|].
  destruct (length (pal s) =? 0)%nat; [discriminate|].
  bind_inv H. bind_inv H. destruct (_ || _); [discriminate|]. bind_inv H. inversion H; subst; clear H. cbn [rows hset st set_cur set_rows].
  rewrite plot_length, Hh. cbn [andb]. repeat split; try assumption.
  match goal with |- context [if height (rows s) <? ?z then height (rows s) else ?z] =>
    destruct (height (rows s) <? z) eqn:Elt end.
  - rewrite Z.ltb_irrefl. reflexivity.
  - rewrite Elt. reflexivity.
Qed.

Definition quiet (s : sx) : Prop := st s <> ReadSize.

Lemma parse_sixel_data_height s ch s' : ch <> 34 -> hset s = true -> parse_sixel_data s ch = Ok s' ->
  length (rows s') = length (rows s) /\ hset s' = true /\ (st s' = st s \/ st s' = ReadColor \/ st s' = Repeat).
Proof.
  intros Hch Hh H. unfold parse_sixel_data in H.
  destruct (ch =? 35); [inversion H; subst; cbn; auto|].
  destruct (ch =? 33); [inversion H; subst; cbn; auto|].
  destruct (ch =? 45). { bind_inv H. inversion H; subst. cbn. auto. }
  destruct (ch =? 36); [inversion H; subst; cbn; auto|].
  destruct (ch =? 34) eqn:E34; [apply Z.eqb_eq in E34; contradiction|].
  destruct (127 <? ch); [inversion H; subst; auto|].
  destruct (translate_height s ch s' Hh H) as (A & B & C). auto.
Qed.

Lemma repeat_data_height n : forall s ch s', ch <> 34 -> hset s = true -> repeat_data n s ch = Ok s' ->
  length (rows s') = length (rows s) /\ hset s' = true.
Proof.
  induction n as [|n IH]; intros s ch s' Hch Hh H; cbn [repeat_data] in H.
  - inversion H; subst. auto.
  - bind_inv H. destruct (parse_sixel_data_height _ _ _ Hch Hh E) as (A & B & _).
    destruct (IH _ _ _ Hch B H) as (A' & B'). split; [congruence|exact B'].
Qed.

Lemma parse_char_height s ch s' : ch <> 34 -> hset s = true -> quiet s -> parse_char hsl s ch = Ok s' ->
  length (rows s') = length (rows s) /\ hset s' = true /\ quiet s'.
Proof.
  intros Hch Hh Hq H. unfold quiet in *. unfold parse_char in H. destruct (st s) eqn:Est.
  - destruct (parse_sixel_data_height _ _ _ Hch Hh H) as (A & B & [C|[C|C]]); repeat split; auto; rewrite C; try rewrite Est; discriminate.
  - destruct (is_digit ch); [inversion H; subst; cbn; rewrite Est; repeat split; auto; discriminate|].
    destruct (ch =? 59); [inversion H; subst; cbn; rewrite Est; repeat split; auto; discriminate|].
    bind_inv H. rename a into sc. apply finish_color_rows in E. destruct E as (R & Hs & Ss).
    assert (Hh' : hset sc = true) by congruence.
    destruct (parse_sixel_data_height _ _ _ Hch Hh' H) as (A & B & [C|[C|C]]); repeat split; auto; try congruence;
      rewrite C; try rewrite Ss, Est; discriminate.
  - contradiction.
  - destruct (is_digit ch); [inversion H; subst; cbn; rewrite Est; repeat split; auto; discriminate|].
    destruct (nums s) as [|i t]; [discriminate|]. destruct (MAX_SIXEL_DIMENSION <? i); [discriminate|].
    bind_inv H. inversion H; subst. cbn [rows hset st set_st].
    destruct (repeat_data_height _ _ _ _ Hch Hh E) as (A & B). repeat split; auto. discriminate.
Qed.

Lemma parse_chars_height cs : forall s s', ~ In 34 cs -> hset s = true -> quiet s -> parse_chars hsl s cs = Ok s' ->
  length (rows s') = length (rows s) /\ hset s' = true /\ quiet s'.
Proof.
  induction cs as [|c t IH]; intros s s' Hn Hh Hq H; cbn [parse_chars] in H.
  - inversion H; subst. auto.
  - bind_inv H. rename a into sc.
    destruct (parse_char_height s c sc) as (A & B & C); auto. { intro; subst; apply Hn; left; reflexivity. }
    destruct (IH sc s') as (A' & B' & C'); auto. { intro Hi; apply Hn; right; exact Hi. }
    repeat split; auto. congruence.
Qed.

(* once a raster height is in force (hset, not in the middle of another raster header), any payload without a
   further raster header (code 34) yields an image of exactly that height *)
Lemma declared_height_kept_proof s payload s1 s2 :
  hset s = true -> quiet s -> ~ In 34 payload ->
  parse_chars hsl s payload = Ok s1 -> parse_char hsl s1 35 = Ok s2 ->
  snd (fst (assemble (rows s2))) = height (rows s).
Proof.
  intros Hh Hq Hn H1 H2.
  destruct (parse_chars_height _ _ _ Hn Hh Hq H1) as (A & B & C).
  destruct (parse_char_height s1 35 s2) as (A' & _ & _); auto; [discriminate|].
  unfold assemble, height. cbn [fst snd]. congruence.
Qed.

(* what a raster header with 3 or 4 numbers does *)
Lemma finish_size_declares s s' : finish_size s = Ok s' -> (3 <= length (nums s))%nat ->
  hset s' = true /\ st s' = Read /\ height (rows s') = Z.max 0 (last (nums s) 0).
Proof.
  intros H Hn. unfold finish_size in H. cbv zeta in H.
  destruct ((length (nums s) <? 2)%nat || (4 <? length (nums s))%nat) eqn:E; [discriminate|].
  apply orb_false_iff in E. destruct E as [_ E]. apply Nat.ltb_ge in E.
  destruct (nums s) as [|v [|h [|a [|b [|c t]]]]]; cbn [length] in *; try lia;
    (match type of H with (if ?c then _ else _) = _ => destruct c; [discriminate|] end); inversion H; subst; clear H;
    unfold declare; cbn [hset st rows set_st set_scale set_rows last]; repeat split; unfold height; rewrite resize_length; lia.
Qed.

(* ---- the size limit (after the fix): no decoded image is wider or taller than MAX_SIXEL_DIMENSION ---- *)
Definition InvB (r : list (list N)) : Prop :=
  height r <= MAX_SIXEL_DIMENSION /\ Forall (fun l => Z.of_nat (length l) <= 4 * MAX_SIXEL_DIMENSION) r.

Lemma set_pixel_lenB x c line : x < MAX_SIXEL_DIMENSION -> Z.of_nat (length line) <= 4 * MAX_SIXEL_DIMENSION ->
  Z.of_nat (length (set_pixel x c line)) <= 4 * MAX_SIXEL_DIMENSION.
Proof.
  intros Hx Hl. unfold set_pixel. destruct c as [[r g] b]. set (off := (Z.to_nat x * 4)%nat).
  destruct (Nat.leb_spec (length line) off) as [Hle|Hgt].
  - rewrite !app_length, firstn_length, skipn_length, resize_length. cbn [length]. subst off. unfold MAX_SIXEL_DIMENSION in *. lia.
  - rewrite !app_length, firstn_length, skipn_length. cbn [length]. subst off. unfold MAX_SIXEL_DIMENSION in *. lia.
Qed.

Local Transparent plot.
Lemma plot_InvB k : forall i mask x y last c r, x < MAX_SIXEL_DIMENSION -> InvB r -> InvB (plot k i mask x y last c r).
Proof.
  induction k as [|k IH]; intros i mask x y last c r Hx Hr; cbn [plot]; [exact Hr|].
  destruct (Z.testbit mask i); [|apply IH; assumption].
  destruct (last <=? y + i); [exact Hr|]. apply IH; [exact Hx|]. destruct Hr as [Hh Hf]. split.
  - unfold height in *. rewrite upd_nth_length. exact Hh.
  - apply upd_nth_Forall; [intros l Hl; apply set_pixel_lenB; assumption|exact Hf].
Qed.
Local Opaque plot.

Lemma width_zeros_le r : Forall (fun l => Z.of_nat (length l) <= 4 * MAX_SIXEL_DIMENSION) r ->
  Z.of_nat (length (zeros (Z.to_nat (width r) * 4))) <= 4 * MAX_SIXEL_DIMENSION.
Proof.
  intro Hf. unfold zeros. rewrite repeat_length. unfold width. destruct r as [|l t]; [unfold MAX_SIXEL_DIMENSION; cbn; lia|].
  inversion Hf; subst. pose proof (Z.mul_div_le (Z.of_nat (length l)) 4 ltac:(lia)). pose proof (Z.div_pos (Z.of_nat (length l)) 4 ltac:(lia) ltac:(lia)). lia.
Qed.

Lemma translate_InvB s ch s' : InvB (rows s) -> translate s ch = Ok s' -> InvB (rows s').
Proof.
  intros [Hh Hr] H. unfold translate in H.
  destruct (ch <? 63); [discriminate|]. destruct (length (pal s) =? 0)%nat; [discriminate|].
  bind_inv H. bind_inv H. destruct (_ || _) eqn:EC; [discriminate|]. bind_inv H. inversion H; subst; clear H. cbn [rows set_cur set_rows].
  apply orb_false_iff in EC. destruct EC as [EX EL]. apply Z.leb_gt in EX. apply Z.ltb_ge in EL.
  match type of EL with ?ll <= _ => set (LL := ll) in * end.
  apply plot_InvB; [exact EX|].
  match goal with |- InvB (if ?b then _ else _) => destruct b end; [|split; assumption].
  split.
  - unfold height. rewrite resize_length. unfold MAX_SIXEL_DIMENSION in *. lia.
  - apply resize_Forall; [exact Hr|apply width_zeros_le; exact Hr].
Qed.

Lemma parse_sixel_data_InvB s ch s' : InvB (rows s) -> parse_sixel_data s ch = Ok s' -> InvB (rows s').
Proof.
  intros Hr H. unfold parse_sixel_data in H.
  repeat match type of H with (if ?b then _ else _) = _ => destruct b end;
    try (inversion H; subst; exact Hr).
  - bind_inv H. inversion H; subst. exact Hr.
  - eapply translate_InvB; eassumption.
Qed.

Lemma repeat_data_InvB n : forall s ch s', InvB (rows s) -> repeat_data n s ch = Ok s' -> InvB (rows s').
Proof.
  induction n as [|n IH]; intros s ch s' Hr H; cbn [repeat_data] in H.
  - inversion H; subst. exact Hr.
  - bind_inv H. eapply IH; [|exact H]. eapply parse_sixel_data_InvB; eassumption.
Qed.

Lemma finish_size_InvB s s' : InvB (rows s) -> finish_size s = Ok s' -> InvB (rows s').
Proof.
  intros [Hh Hr] H. unfold finish_size in H. cbv zeta in H.
  destruct ((length (nums s) <? 2)%nat || (4 <? length (nums s))%nat); [discriminate|].
  destruct (nums s) as [|v [|h rest]]; try discriminate. destruct (existsb _ rest) eqn:EX; [discriminate|].
  inversion H; subst; clear H. cbn [rows set_st]. unfold declare.
  destruct rest as [|a [|b [|c t]]]; cbn [rows set_scale set_rows]; try (split; assumption).
  - cbn [existsb] in EX. rewrite orb_false_r in EX. apply Z.ltb_ge in EX. split.
    + unfold height. rewrite resize_length. unfold MAX_SIXEL_DIMENSION in *. lia.
    + apply resize_Forall; [exact Hr|]. unfold MAX_SIXEL_DIMENSION. cbn [length]. lia.
  - cbn [existsb] in EX. rewrite orb_false_r in EX. apply orb_false_iff in EX. destruct EX as [EA EB]. apply Z.ltb_ge in EA, EB. split.
    + unfold height. rewrite resize_length. unfold MAX_SIXEL_DIMENSION in *. lia.
    + apply resize_Forall; [exact Hr|]. unfold zeros. rewrite repeat_length. unfold MAX_SIXEL_DIMENSION in *. lia.
Qed.

Lemma parse_char_InvB s ch s' : InvB (rows s) -> parse_char hsl s ch = Ok s' -> InvB (rows s').
Proof.
  intros Hr H. unfold parse_char in H. destruct (st s).
  - eapply parse_sixel_data_InvB; eassumption.
  - destruct (is_digit ch); [inversion H; subst; exact Hr|].
    destruct (ch =? 59); [inversion H; subst; exact Hr|].
    bind_inv H. apply finish_color_rows in E. destruct E as (R & _ & _).
    eapply parse_sixel_data_InvB; [|exact H]. rewrite R. exact Hr.
  - destruct (is_digit ch); [inversion H; subst; exact Hr|].
    destruct (ch =? 59); [inversion H; subst; exact Hr|].
    bind_inv H. eapply parse_sixel_data_InvB; [|exact H]. eapply finish_size_InvB; eassumption.
  - destruct (is_digit ch); [inversion H; subst; exact Hr|].
    destruct (nums s) as [|i t]; [discriminate|]. destruct (MAX_SIXEL_DIMENSION <? i); [discriminate|].
    bind_inv H. inversion H; subst. cbn [rows set_st]. eapply repeat_data_InvB; eassumption.
Qed.

Lemma parse_chars_InvB cs : forall s s', InvB (rows s) -> parse_chars hsl s cs = Ok s' -> InvB (rows s').
Proof.
  induction cs as [|c t IH]; intros s s' Hr H; cbn [parse_chars] in H.
  - inversion H; subst. exact Hr.
  - bind_inv H. eapply IH; [|exact H]. eapply parse_char_InvB; eassumption.
Qed.

Lemma max_len_le_B r : Forall (fun l => Z.of_nat (length l) <= 4 * MAX_SIXEL_DIMENSION) r -> Z.of_nat (max_len r) <= 4 * MAX_SIXEL_DIMENSION.
Proof.
  induction 1 as [|l t Hl Ht IH]; [unfold MAX_SIXEL_DIMENSION; cbn; lia|]. cbn [max_len fold_right]. fold (max_len t). lia.
Qed.

Lemma sixel_dims_bounded_proof pal0 vs hs data w h d :
  parse_from hsl pal0 vs hs data = Ok (w, h, d) -> 0 <= w <= MAX_SIXEL_DIMENSION /\ 0 <= h <= MAX_SIXEL_DIMENSION.
Proof.
  intro H. unfold parse_from in H. bind_inv H. bind_inv H.
  assert (HB : InvB (rows a0)).
  { eapply parse_char_InvB; [|eassumption]. eapply parse_chars_InvB; [|eassumption]. split; [unfold height, MAX_SIXEL_DIMENSION; cbn; lia|constructor]. }
  destruct HB as [Hh Hf]. pose proof (max_len_le_B _ Hf) as HM.
  unfold assemble in H. inversion H; subst; clear H. unfold height in *.
  pose proof (Z.div_pos (Z.of_nat (max_len (rows a0))) 4 ltac:(lia) ltac:(lia)).
  assert (Z.of_nat (max_len (rows a0)) / 4 <= MAX_SIXEL_DIMENSION) by (apply Z.div_le_upper_bound; lia).
  lia.
Qed.

End S.
