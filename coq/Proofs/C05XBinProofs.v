(* C05 proofs for the XBin file level (Model/C05XBin.v), uncompressed data. *)
From Coq Require Import NArith ZArith Bool List Lia PeanoNat.
From IE Require Import Lib.Tbl Lib.Bits Lib.C18Lib Lib.C05Lib Gen.Codepage Gen.Formats Model.Attr Model.C05Buf Model.C05Bin
  Model.C05XBin Model.C05Spec Proofs.AttrProofs Proofs.C05BufProofs Proofs.C05BinProofs Proofs.C05AdfProofs.
Import ListNotations.
Local Open Scope Z_scope.

(* the mode an XBin file is loaded in *)
Definition xb_mode (m : IceMode) : IceMode := if is_ice m then Ice else Blink.

Lemma lo_hi8 z : 0 <= z < 65536 -> Z.of_N (lo8 z + hi8 z * 256)%N = z.
Proof.
  intro H. unfold lo8, hi8. rewrite N2Z.inj_add, N2Z.inj_mul, !Z2N.id.
  - rewrite (Z.mod_small (z / 256)) by (split; [apply Z.div_pos; lia|apply Z.div_lt_upper_bound; lia]).
    pose proof (Z.div_mod z 256 ltac:(lia)). lia.
  - apply Z.mod_pos_bound. lia.
  - apply Z.mod_pos_bound. lia.
Qed.

(* ------------------------------------------------------------------ flags *)
Definition xb_flags (font pal ice two : bool) : N :=
  ((if font then XBIN_FLAG_FONT else 0) + (if pal then XBIN_FLAG_PALETTE else 0)
   + (if ice then XBIN_FLAG_NON_BLINK_MODE else 0) + (if two then XBIN_FLAG_512CHAR_MODE else 0))%N.

Lemma xb_flags_decode font pal ice two :
  has_flag8 (xb_flags font pal ice two) XBIN_FLAG_FONT = font /\
  has_flag8 (xb_flags font pal ice two) XBIN_FLAG_PALETTE = pal /\
  has_flag8 (xb_flags font pal ice two) XBIN_FLAG_NON_BLINK_MODE = ice /\
  has_flag8 (xb_flags font pal ice two) XBIN_FLAG_512CHAR_MODE = two /\
  has_flag8 (xb_flags font pal ice two) XBIN_FLAG_COMPRESS = false.
Proof. destruct font, pal, ice, two; vm_compute; repeat split. Qed.

(* ------------------------------------------------------------------ cells *)
Lemma shown_roundtrip_xb m a :
  expressible m a -> shown (from_u8 (as_u8 a m) (xb_mode m)) = shown a.
Proof.
  intro H. destruct m; cbn [xb_mode is_ice].
  - change (from_u8 (as_u8 a Unlimited) Blink) with (from_u8 (as_u8 a Unlimited) Unlimited).
    apply attr_encode_decode_proof, H.
  - apply attr_encode_decode_proof, H.
  - apply attr_encode_decode_proof, H.
Qed.

Lemma xb_cell1 m c : cell8_page0 m c ->
  same_cell true c (seen (xb_decode (xb_mode m) false (c_ch c) (encode_attr m [0%N] c))).
Proof.
  intros ((Hch & Hex) & Hpg). unfold encode_attr, xb_decode. rewrite andb_false_r.
  assert (Ha : (as_u8 (c_attr c) m < 256)%N) by apply as_u8_range_proof.
  rewrite seen_from_u8 by exact Ha. split; [reflexivity|]. cbn [c_attr]. split.
  - symmetry. apply shown_roundtrip_xb, Hex.
  - intros _. rewrite Hpg. symmetry. apply (from_u8_visible _ _ 0%N), Ha.
Qed.

Definition shown_eqb3 (x y : N * N * bool) : bool :=
  let '(a, b, c) := x in let '(a', b', c') := y in ((a =? a') && (b =? b'))%N && Bool.eqb c c'.

Lemma xb_two_sweep :
  forallb (fun m => forallb (fun fg => forallb (fun bg => forallb (fun blink => forallb (fun pg =>
     implb (expressible_core m fg bg blink)
           (let byte := N.lor (N.land (as_u8_core fg bg false blink m) 247) (if (pg =? 1)%N then 8 else 0)%N in
            let d := xb_decode (xb_mode m) true 0 byte in
            shown_eqb3 (shown (c_attr d)) (fg, bg, blink) && (font_page (c_attr d) =? pg)%N && is_visible d
            && (byte <? 256)%N))
     [0%N; 1%N]) [true; false]) (nrange 16)) (nrange 8)) all_modes = true.
Proof. vm_compute. reflexivity. Qed.

Lemma shown_eqb3_eq x y : shown_eqb3 x y = true -> x = y.
Proof.
  destruct x as [[a b] c], y as [[a' b'] c']. cbn. intro H.
  apply andb_prop in H as [H Hc]. apply andb_prop in H as [Ha Hb].
  apply N.eqb_eq in Ha, Hb. apply eqb_prop in Hc. congruence.
Qed.

Lemma xb_cell2 m c : cell8_two_fonts m c ->
  same_cell true c (seen (xb_decode (xb_mode m) true (c_ch c) (encode_attr m [0%N; 1%N] c))).
Proof.
  intros ((Hch & Hex) & Hfg & Hbold & Hpg).
  set (a := c_attr c) in *.
  pose proof Hex as Hex'. unfold expressible in Hex'.
  pose proof (expressible_core_bounds _ _ _ _ Hex') as (_ & Hbg).
  pose proof (all_modes_forallb _ xb_two_sweep m) as H1. cbv beta in H1.
  pose proof (nrange_forallb2 _ _ _ H1 (foreground_color a) (background_color a) Hfg Hbg) as H2. cbv beta in H2.
  pose proof (forallb_bools _ H2 (is_blinking a)) as H3. cbv beta in H3.
  assert (Hin : In (font_page a) [0%N; 1%N]) by (destruct Hpg as [-> | ->]; cbn; auto).
  pose proof (forallb_In _ _ H3 _ Hin) as H4. cbv beta zeta in H4.
  rewrite Hex' in H4. cbn [implb] in H4.
  apply andb_prop in H4 as [H4 Hlt]. apply andb_prop in H4 as [H4 Hvis]. apply andb_prop in H4 as [Hsh Hp].
  apply shown_eqb3_eq in Hsh. apply N.eqb_eq in Hp.
  unfold encode_attr. fold a. unfold as_u8. rewrite Hbold.
  (* the decoded cell depends on the character only in its first field *)
  assert (Hdec : forall ch byte, xb_decode (xb_mode m) true ch byte =
                                 mkCell ch (c_attr (xb_decode (xb_mode m) true 0 byte))) by reflexivity.
  rewrite Hdec. unfold seen.
  assert (Hv : forall ch x, is_visible (mkCell ch x) = is_visible (mkCell 0 x)) by reflexivity.
  rewrite Hv. rewrite <- Hdec. rewrite Hvis. rewrite Hdec.
  split; [reflexivity|]. cbn [c_attr]. fold a. split.
  - rewrite Hsh. unfold shown, shown_fg, shown_fg_core. rewrite Hbold. reflexivity.
  - intros _. symmetry. exact Hp.
Qed.

(* ------------------------------------------------------------------ palette block *)
Lemma rgb_eqb_eq a b : rgb_eqb a b = true -> a = b.
Proof.
  destruct a as [[r g] bl], b as [[r' g'] bl']. cbn. intro H.
  apply andb_prop in H as [H H3]. apply andb_prop in H as [H1 H2].
  apply N.eqb_eq in H1, H2, H3. congruence.
Qed.
Lemma pal_eqb_eq p : forall q, pal_eqb p q = true -> p = q.
Proof.
  induction p as [|a p IH]; intros [|b q] H; cbn in H; try discriminate; [reflexivity|].
  apply andb_prop in H as [H1 H2]. apply rgb_eqb_eq in H1. rewrite (IH q H2), H1. reflexivity.
Qed.

Lemma fill_to_16_full pal : length pal = 16%nat -> fill_to_16 pal = pal.
Proof. intro H. unfold fill_to_16. rewrite H. cbn [skipn]. apply app_nil_r. Qed.

Lemma take_slice_app (a r : list N) n : length a = n -> take_slice n (a ++ r) = Ok (a, r).
Proof.
  intro H. unfold take_slice. rewrite app_length, H.
  destruct (Nat.ltb_spec (n + length r) n); [lia|].
  rewrite firstn_app_exact, skipn_app_exact by exact H. reflexivity.
Qed.

(* ------------------------------------------------------------------ the buffer after the header does not depend on SAUCE *)
Definition xb_base (w h : Z) (two ice : bool) : buffer :=
  mkBuf w h (if ice then Ice else Blink) (if two then 2 else 3)%N (if two then 3 else 2)%N
        (mkLayer w h []) DOS_DEFAULT_PALETTE [(0%N, default_font)].

Lemma xb_header_state s w h (two ice : bool) :
  set_ice (set_modes (set_layer (set_height (set_width (set_sauce (buffer_new 80 25) s) w) h)
                                (layer_clear_lines (layer_set_size
                                   (b_layer (set_height (set_width (set_sauce (buffer_new 80 25) s) w) h)) w h)))
                     (if two then 2 else 3)%N (if two then 3 else 2)%N)
          (if ice then Ice else Blink) = xb_base w h two ice.
Proof.
  destruct s as [s|]; [|reflexivity]. unfold set_sauce.
  destruct ((s_w s =? 0) || (s_w s >? 1000)); destruct (s_ice s); reflexivity.
Qed.

(* ------------------------------------------------------------------ round trip, both font layouts *)
Definition xb_fonts (two : bool) : list N := if two then [0%N; 1%N] else [0%N].
Definition xb_fontb (f0 : font) (two : bool) : bool := negb (f_default f0) || two.
Definition xb_palb (p : pic) : bool := negb (pal_is_default (p_pal p)).
Definition xb_flagsv (p : pic) (two : bool) (f0 : font) : N := xb_flags (xb_fontb f0 two) (xb_palb p) (is_ice (p_ice p)) two.
Definition xb_pal_part (p : pic) : list N := if xb_palb p then as_vec_63 (p_pal p) else [].
Definition xb_font_part (two : bool) (f0 f1 : font) : list N :=
  if xb_fontb f0 two then (if two then convert_to_u8_data f0 ++ convert_to_u8_data f1 else convert_to_u8_data f0) else [].
Definition xb_enc (p : pic) (two : bool) (c : cell) : list N := [c_ch c; encode_attr (p_ice p) (xb_fonts two) c].
Definition xb_data (p : pic) (two : bool) (f0 f1 : font) (fh : N) : list N :=
  XBIN_ID ++ [26%N; lo8 (p_w p); hi8 (p_w p); lo8 (p_h p); hi8 (p_h p)] ++ [fh; xb_flagsv p two f0]
  ++ xb_pal_part p ++ xb_font_part two f0 f1 ++ save_rows (xb_enc p two) (p_rows p).

Definition xb_rt (p : pic) (two : bool) (c : cell) : cell :=
  xb_decode (xb_mode (p_ice p)) two (c_ch c) (encode_attr (p_ice p) (xb_fonts two) c).
Definition xb_rows' (p : pic) (two : bool) : list (list cell) := map (map (xb_rt p two)) (p_rows p).
Definition xb_nd (fh : N) (f : font) : font := font_named_default (mkFont fh 256 false (f_glyphs f)).
Definition xb_loaded_fonts (two : bool) (f0 f1 : font) (fh : N) : list (N * font) :=
  if xb_fontb f0 two then (if two then [(0%N, xb_nd fh f0); (1%N, xb_nd fh f1)] else [(0%N, xb_nd fh f0)])
  else [(0%N, default_font)].
Definition xb_b3 (p : pic) (two : bool) (f0 f1 : font) (fh : N) : buffer :=
  set_fonts (set_pal (xb_base (p_w p) (p_h p) two (is_ice (p_ice p))) (p_pal p)) (xb_loaded_fonts two f0 f1 fh).
Definition xb_bfin (p : pic) (two : bool) (f0 f1 : font) (fh : N) : buffer :=
  let n := Z.of_nat (length (xb_rows' p two)) in
  set_height (set_layer (xb_b3 p two f0 f1 fh) (mkLayer (p_w p) n (lfill_rows (p_w p) [] 0 (xb_rows' p two)))) n.

(* the hypotheses shared by the two layouts *)
Definition xb_hyps (p : pic) (two : bool) (f0 f1 : font) (fh : N) : Prop :=
  xb_common p /\ used_pages (p_rows p) = xb_fonts two /\
  get_font (p_fonts p) 0 = Some f0 /\ font_wf fh f0 /\ (1 <= fh <= 32)%N /\
  (two = true -> get_font (p_fonts p) 1 = Some f1 /\ font_wf fh f1) /\
  (two = false -> f_default f0 = true -> same_font f0 default_font) /\
  all_pic_cells (fun c => (c_ch c < 256)%N /\ same_cell true c (seen (xb_rt p two c))) p.

Lemma xb_save p two f0 f1 fh : xb_hyps p two f0 f1 fh -> save_xb p = Ok (xb_data p two f0 f1 fh).
Proof.
  intros (Hcommon & Hfonts & Hf0 & Hwf0 & Hfh & Hf1 & Hdef & Hcells).
  destruct Hcommon as (Hrect & Hw & Hh & Hpl & Hp6).
  pose proof Hwf0 as (Hfh0 & Hfl0 & Hg0 & Hall0).
  assert (Hc0 : length (convert_to_u8_data f0) = (256 * N.to_nat fh)%nat) by (apply convert_wf_length; exact Hwf0).
  assert (Hchk : save_rows_chk (xb_enc p two) 11 (p_rows p) = Ok (save_rows (xb_enc p two) (p_rows p))).
  { apply save_rows_chk_ok. eapply Forall_impl; [|exact Hcells]. intros r Hr. eapply Forall_impl; [|exact Hr]. intros c (Hc & _). exact Hc. }
  assert (Hpp : (if xb_palb p then
                   (if negb (length (as_vec_63 (fill_to_16 (p_pal p))) =? N.to_nat XBIN_PALETTE_LENGTH)%nat then Err 5
                    else Ok (as_vec_63 (fill_to_16 (p_pal p))))
                 else Ok []) = Ok (xb_pal_part p)).
  { unfold xb_pal_part. destruct (xb_palb p); [|reflexivity]. rewrite fill_to_16_full by exact Hpl.
    rewrite as_vec_63_length, Hpl. reflexivity. }
  unfold save_xb. rewrite Hfonts.
  destruct two; unfold xb_fonts; rewrite Hf0, Hfl0; cbn [N.eqb Pos.eqb negb length Nat.ltb Nat.leb Nat.eqb];
    rewrite Hfh0; (destruct (N.ltb_spec fh 1); [lia|]); (destruct (N.ltb_spec 32 fh); [lia|]); cbn [orb].
  - (* two fonts *)
    change ((if negb (f_default f0) || true then XBIN_FLAG_FONT else 0) + (if negb (pal_is_default (p_pal p)) then XBIN_FLAG_PALETTE else 0)
            + (if is_ice (p_ice p) then XBIN_FLAG_NON_BLINK_MODE else 0) + XBIN_FLAG_512CHAR_MODE)%N with (xb_flagsv p true f0).
    destruct (xb_flags_decode (xb_fontb f0 true) (xb_palb p) (is_ice (p_ice p)) true) as (Hd1 & Hd2 & _ & _ & _).
    fold (xb_flagsv p true f0) in Hd1, Hd2. rewrite Hd1, Hd2. fold (xb_palb p). rewrite Hpp. cbn [bind].
    unfold xb_fontb. rewrite orb_true_r. rewrite Hc0, Nat.eqb_refl. cbn [negb].
    destruct (Hf1 eq_refl) as (Hg1 & Hwf1). rewrite Hg1.
    pose proof (convert_wf_length fh f1 Hwf1) as Hc1. destruct Hwf1 as (_ & Hfl1 & _ & _).
    rewrite Hfl1. cbn [N.eqb Pos.eqb negb]. rewrite Hc1, Nat.eqb_refl. cbn [negb bind].
    change (fun c : cell => [c_ch c; encode_attr (p_ice p) [0%N; 1%N] c]) with (xb_enc p true). rewrite Hchk. cbn [bind].
    unfold xb_data, xb_font_part, xb_fontb. rewrite orb_true_r. rewrite <- !app_assoc. reflexivity.
  - (* one font *)
    change ((if negb (f_default f0) || false then XBIN_FLAG_FONT else 0) + (if negb (pal_is_default (p_pal p)) then XBIN_FLAG_PALETTE else 0)
            + (if is_ice (p_ice p) then XBIN_FLAG_NON_BLINK_MODE else 0) + 0)%N with (xb_flagsv p false f0).
    destruct (xb_flags_decode (xb_fontb f0 false) (xb_palb p) (is_ice (p_ice p)) false) as (Hd1 & Hd2 & _ & _ & _).
    fold (xb_flagsv p false f0) in Hd1, Hd2. rewrite Hd1, Hd2. fold (xb_palb p). rewrite Hpp. cbn [bind].
    change (fun c : cell => [c_ch c; encode_attr (p_ice p) [0%N] c]) with (xb_enc p false).
    unfold xb_data, xb_font_part.
    destruct (xb_fontb f0 false).
    + rewrite Hc0, Nat.eqb_refl. cbn [negb bind]. rewrite Hchk. cbn [bind]. rewrite <- !app_assoc. reflexivity.
    + cbn [bind]. rewrite Hchk. cbn [bind]. rewrite <- !app_assoc. reflexivity.
Qed.

Lemma xb_rows_facts p two : rect p -> 1 <= p_w p ->
  Forall (fun r => Z.of_nat (length r) = p_w p) (p_rows p) /\
  Forall (fun r => Z.of_nat (length r) <= p_w p /\ r <> []) (xb_rows' p two) /\
  length (xb_rows' p two) = Z.to_nat (p_h p).
Proof.
  intros (Hw0 & Hh0 & Hlen & Hrows) Hw.
  assert (Hrowsw : Forall (fun r => Z.of_nat (length r) = p_w p) (p_rows p)).
  { eapply Forall_impl; [|exact Hrows]. cbv beta. intros r Hr. rewrite Hr. lia. }
  split; [exact Hrowsw|]. split.
  - unfold xb_rows'. apply Forall_forall. intros r' Hr'. apply in_map_iff in Hr'. destruct Hr' as (r & <- & Hr).
    rewrite map_length. rewrite Forall_forall in Hrowsw. specialize (Hrowsw r Hr). split; [lia|].
    intro E. apply map_eq_nil in E. subst r. cbn in Hrowsw. lia.
  - unfold xb_rows'. rewrite map_length. exact Hlen.
Qed.

Lemma xb_load p s two f0 f1 fh : xb_hyps p two f0 f1 fh -> load_xb (xb_data p two f0 f1 fh) s = Ok (xb_bfin p two f0 f1 fh).
Proof.
  intros (Hcommon & Hfonts & Hf0 & Hwf0 & Hfh & Hf1 & Hdef & Hcells).
  destruct Hcommon as (Hrect & Hw & Hh & Hpl & Hp6).
  destruct (xb_rows_facts p two Hrect ltac:(lia)) as (Hrowsw & Hrows'ne & Hlen').
  destruct Hrect as (Hw0 & Hh0 & Hlen & Hrows).
  unfold load_xb.
  assert (Hdl : (length (xb_data p two f0 f1 fh) <? N.to_nat XBIN_HEADER_SIZE)%nat = false).
  { apply Nat.ltb_ge. unfold xb_data. rewrite !app_length. cbn. lia. }
  rewrite Hdl. unfold xb_data. cbn [XBIN_ID app].
  destruct (list_eq_dec N.eq_dec [88; 66; 73; 78]%N XBIN_ID) as [_|Hn]; [|exfalso; apply Hn; reflexivity].
  cbn [negb]. rewrite !lo_hi8 by lia.
  destruct (Z.ltb_spec (p_w p) 1); [lia|]. destruct (Z.ltb_spec 4096 (p_w p)); [lia|]. cbn [orb].
  assert (Hfs : (fh =? 0)%N = false) by (apply N.eqb_neq; lia). rewrite Hfs.
  destruct (N.ltb_spec 32 fh); [lia|].
  destruct (xb_flags_decode (xb_fontb f0 two) (xb_palb p) (is_ice (p_ice p)) two) as (Hd1 & Hd2 & Hd3 & Hd4 & Hd5).
  fold (xb_flagsv p two f0) in Hd1, Hd2, Hd3, Hd4, Hd5.
  rewrite Hd4, Hd3, Hd2, Hd1, Hd5.
  rewrite (xb_header_state s (p_w p) (p_h p) two (is_ice (p_ice p))).
  (* palette *)
  assert (Hpalstep : forall (b : buffer) R, b_pal b = DOS_DEFAULT_PALETTE ->
             (if xb_palb p then let* '(pb, rest) := take_slice (N.to_nat XBIN_PALETTE_LENGTH) (xb_pal_part p ++ R) in
                           let* pal := from_63 pb in Ok (set_pal b pal, rest)
              else Ok (b, xb_pal_part p ++ R)) = Ok (set_pal b (p_pal p), R)).
  { intros b R Hb. unfold xb_pal_part. destruct (xb_palb p) eqn:Ep.
    - rewrite take_slice_app by (rewrite as_vec_63_length, Hpl; reflexivity). cbn [bind].
      rewrite from_63_as_vec_63 by exact Hp6. reflexivity.
    - cbn [app]. unfold xb_palb in Ep. apply negb_false_iff in Ep. apply pal_eqb_eq in Ep.
      rewrite Ep. destruct b; cbn in Hb; subst; reflexivity. }
  rewrite Hpalstep by reflexivity. cbn [bind].
  (* fonts *)
  assert (Hc0 : length (convert_to_u8_data f0) = (N.to_nat fh * 256)%nat) by (rewrite (convert_wf_length fh f0 Hwf0); lia).
  assert (Hfontstep : forall (b : buffer) R, b_fonts b = [(0%N, default_font)] ->
             (if xb_fontb f0 two then
                let* '(fb, rest) := take_slice (N.to_nat fh * 256) (xb_font_part two f0 f1 ++ R) in
                let* g0 := font_create_8 fh fb in
                if two then
                  let* '(fb1, rest0) := take_slice (N.to_nat fh * 256) rest in
                  let* g1 := font_create_8 fh fb1 in
                  Ok (set_fonts b [(0%N, font_named_default g0); (1%N, font_named_default g1)], rest0)
                else Ok (set_fonts b [(0%N, font_named_default g0)], rest)
              else Ok (b, xb_font_part two f0 f1 ++ R)) = Ok (set_fonts b (xb_loaded_fonts two f0 f1 fh), R)).
  { intros b R Hb. unfold xb_font_part, xb_loaded_fonts. destruct (xb_fontb f0 two).
    - destruct two.
      + destruct (Hf1 eq_refl) as (_ & Hwf1).
        rewrite <- app_assoc. rewrite take_slice_app by exact Hc0. cbn [bind].
        rewrite (font_create_8_convert fh f0) by (try exact Hwf0; lia). cbn [bind].
        rewrite take_slice_app by (rewrite (convert_wf_length fh f1 Hwf1); lia). cbn [bind].
        rewrite (font_create_8_convert fh f1) by (try exact Hwf1; lia). cbn [bind]. reflexivity.
      + rewrite take_slice_app by exact Hc0. cbn [bind].
        rewrite (font_create_8_convert fh f0) by (try exact Hwf0; lia). cbn [bind]. reflexivity.
    - cbn [app]. destruct b; cbn in Hb; subst; reflexivity. }
  rewrite Hfontstep by reflexivity. cbn [bind]. fold (xb_b3 p two f0 f1 fh).
  (* cells *)
  change (b_w (xb_b3 p two f0 f1 fh)) with (p_w p).
  change (b_ice (xb_b3 p two f0 f1 fh)) with (xb_mode (p_ice p)).
  change (b_layer (xb_b3 p two f0 f1 fh)) with (mkLayer (p_w p) (p_h p) []).
  assert (Hloop : exists hx, xb_read_uncompressed (p_w p) (xb_mode (p_ice p)) two (mkLayer (p_w p) (p_h p) []) 0 0
                               (save_rows (xb_enc p two) (p_rows p))
                             = mkLayer (p_w p) hx (lfill_rows (p_w p) [] 0 (xb_rows' p two))).
  { unfold xb_read_uncompressed, xb_enc.
    rewrite (pair_loop_rows false (xb_decode (xb_mode (p_ice p)) two) (fun c => c_ch c)
               (fun c => encode_attr (p_ice p) (xb_fonts two) c) (p_w p) (p_rows p)) by (try assumption; lia).
    fold (xb_rt p two). fold (xb_rows' p two). rewrite fill_rows_spec; cbn [l_w l_h l_lines].
    - eexists. reflexivity.
    - lia.
    - exact Hrows'ne.
    - right. rewrite Hlen'. lia. }
  destruct Hloop as (hx & Hloop). rewrite Hloop.
  rewrite crop_nonempty; cbn [b_layer set_layer l_lines l_w].
  - unfold xb_bfin. cbv zeta. rewrite length_lfill_rows by (eapply Forall_impl; [|exact Hrows'ne]; cbv beta; tauto).
    destruct (xb_rows' p two) eqn:E; [reflexivity|]. rewrite <- E. cbn [length Nat.max Nat.add]. reflexivity.
  - apply lfill_rows_nonempty; [lia|constructor].
Qed.

Lemma xb_same p two f0 f1 fh : xb_hyps p two f0 f1 fh ->
  same_picture true (xb_fonts two) p (pic_of (xb_bfin p two f0 f1 fh)).
Proof.
  intros (Hcommon & Hfonts & Hf0 & Hwf0 & Hfh & Hf1 & Hdef & Hcells).
  destruct Hcommon as (Hrect & Hw & Hh & Hpl & Hp6).
  destruct (xb_rows_facts p two Hrect ltac:(lia)) as (Hrowsw & Hrows'ne & Hlen').
  destruct Hrect as (Hw0 & Hh0 & Hlen & Hrows).
  assert (Hpic : p_rows (pic_of (xb_bfin p two f0 f1 fh)) = map (map seen) (xb_rows' p two)).
  { apply pic_rows_of_lines with (w := Z.to_nat (p_w p)); unfold xb_bfin; cbv zeta; cbn [b_w b_h b_layer set_height set_layer l_w l_h l_lines].
    - change (b_w (xb_b3 p two f0 f1 fh)) with (p_w p). lia.
    - reflexivity.
    - change (b_w (xb_b3 p two f0 f1 fh)) with (p_w p). lia.
    - lia.
    - unfold xb_rows'. apply Forall_forall. intros r' Hr'. apply in_map_iff in Hr'. destruct Hr' as (r & <- & Hr).
      rewrite map_length. rewrite Forall_forall in Hrows. apply Hrows, Hr.
    - intros x y r c Hr Hc. rewrite cell_at_lfill_rows. cbn [Nat.leb]. rewrite Nat.sub_0_r, Hr, Hc. reflexivity. }
  unfold same_picture. rewrite Hpic.
  unfold xb_bfin. cbv zeta. cbn [pic_of p_w p_h p_ice p_pal p_fonts b_w b_h b_ice b_pal b_fonts set_height set_layer].
  split; [reflexivity|]. split; [|split; [|split; [|split]]].
  - rewrite Hlen'. lia.
  - unfold same_mode. change (b_ice (xb_b3 p two f0 f1 fh)) with (xb_mode (p_ice p)). unfold xb_mode. destruct (is_ice (p_ice p)); reflexivity.
  - unfold xb_rows'. rewrite map_map_rows.
    eapply Forall2_rows_map; [exact Hcells|]. intros c (_ & Hc). exact Hc.
  - reflexivity.
  - unfold same_fonts. cbn [pic_of p_fonts b_fonts set_height set_layer].
    change (b_fonts (xb_b3 p two f0 f1 fh)) with (xb_loaded_fonts two f0 f1 fh). unfold xb_loaded_fonts, xb_fontb, xb_fonts.
    destruct Hwf0 as (Hfh0 & Hfl0 & Hg0 & Hall0).
    destruct two.
    + rewrite orb_true_r. destruct (Hf1 eq_refl) as (Hg1 & (Hfh1 & Hfl1 & _ & _)).
      constructor; [|constructor; [|constructor]].
      * rewrite Hf0. cbn [get_font N.eqb]. unfold xb_nd, same_font. cbn [font_named_default f_h f_len f_glyphs]. auto.
      * rewrite Hg1. cbn [get_font N.eqb Pos.eqb]. unfold xb_nd, same_font. cbn [font_named_default f_h f_len f_glyphs]. auto.
    + rewrite orb_false_r. constructor; [|constructor]. rewrite Hf0.
      destruct (f_default f0) eqn:Ed; cbn [negb get_font N.eqb].
      * apply Hdef; reflexivity.
      * unfold xb_nd, same_font. cbn [font_named_default f_h f_len f_glyphs]. auto.
Qed.

(* ------------------------------------------------------------------ the two representable classes *)
Lemma xb1_hyps p : representable_xb1 p -> exists f0, xb_hyps p false f0 f0 (f_h f0).
Proof.
  intros (Hcommon & Hcells & (f & Hf & Hwf & Hfh & Hdef)). exists f.
  refine (conj Hcommon (conj _ (conj Hf (conj Hwf (conj Hfh (conj _ (conj _ _))))))).
  - apply used_pages_page0. apply (cells_page0 (p_ice p)), Hcells.
  - discriminate.
  - intros _. exact Hdef.
  - eapply Forall_impl; [|exact Hcells]. intros r Hr. eapply Forall_impl; [|exact Hr].
    intros c Hc. split; [apply Hc|]. apply (xb_cell1 (p_ice p) c Hc).
Qed.

Lemma xb2_hyps p : representable_xb2 p -> exists f0 f1 h, xb_hyps p true f0 f1 h.
Proof.
  intros (Hcommon & Hused & Hcells & (f0 & f1 & h & Hf0 & Hf1 & Hwf0 & Hwf1 & Hh)). exists f0, f1, h.
  refine (conj Hcommon (conj Hused (conj Hf0 (conj Hwf0 (conj Hh (conj _ (conj _ _))))))).
  - intros _. split; assumption.
  - discriminate.
  - eapply Forall_impl; [|exact Hcells]. intros r Hr. eapply Forall_impl; [|exact Hr].
    intros c Hc. split; [apply Hc|]. apply (xb_cell2 (p_ice p) c Hc).
Qed.

Lemma xb_roundtrip1_proof : forall p s, representable_xb1 p ->
  exists data b, save_xb p = Ok data /\ load_xb data s = Ok b /\ same_picture true [0%N] p (pic_of b).
Proof.
  intros p s H. destruct (xb1_hyps p H) as (f0 & Hh).
  exists (xb_data p false f0 f0 (f_h f0)), (xb_bfin p false f0 f0 (f_h f0)).
  split; [apply xb_save, Hh|]. split; [apply xb_load, Hh|]. apply (xb_same p false f0 f0 (f_h f0) Hh).
Qed.

Lemma xb_roundtrip2_proof : forall p s, representable_xb2 p ->
  exists data b, save_xb p = Ok data /\ load_xb data s = Ok b /\ same_picture true [0%N; 1%N] p (pic_of b).
Proof.
  intros p s H. destruct (xb2_hyps p H) as (f0 & f1 & h & Hh).
  exists (xb_data p true f0 f1 h), (xb_bfin p true f0 f1 h).
  split; [apply xb_save, Hh|]. split; [apply xb_load, Hh|]. apply (xb_same p true f0 f1 h Hh).
Qed.

(* ------------------------------------------------------------------ known finding: 512-character mode without a font block *)
(* signature C05-xb-resave-512-chars-without-font: the loader accepts FLAG_512CHAR_MODE without FLAG_FONT and gives cells
   font page 1, but the font table only has page 0; the writer cannot find the second font *)
Definition KnownC05_xb_font2_missing (p : pic) : Prop :=
  In 1%N (used_pages (p_rows p)) /\ get_font (p_fonts p) 1 = None.

Definition known_xb_file : list N := XBIN_ID ++ [26; 1; 0; 1; 0; 16; 16; 65; 15]%N.

Lemma known_xb_font2_witness :
  exists b, load_xb known_xb_file None = Ok b /\ KnownC05_xb_font2_missing (pic_of b) /\ save_xb (pic_of b) = Err 1.
Proof.
  destruct (load_xb known_xb_file None) as [b| |] eqn:E; [|vm_compute in E; discriminate|vm_compute in E; discriminate].
  exists b. split; [reflexivity|].
  assert (H : match load_xb known_xb_file None with
              | Ok b' => used_pages (p_rows (pic_of b')) = [1%N] /\ get_font (p_fonts (pic_of b')) 1 = None /\ save_xb (pic_of b') = Err 1
              | _ => False end) by (vm_compute; repeat split).
  rewrite E in H. destruct H as (H1 & H2 & H3). split; [|exact H3].
  split; [rewrite H1; left; reflexivity|exact H2].
Qed.

(* ------------------------------------------------------------------ re-save of XBin files (256-character mode, uncompressed) *)
Fixpoint glyphs_wfb (n : nat) (g : list (list N)) : bool :=
  match g with [] => true | x :: t => (length x =? n)%nat && glyphs_wfb n t end.

Lemma glyphs_wfb_Forall n g : glyphs_wfb n g = true -> Forall (fun x => length x = n) g.
Proof.
  induction g as [|x t IH]; cbn [glyphs_wfb]; intro H; [constructor|].
  apply andb_prop in H as [H1 H2]. constructor; [apply Nat.eqb_eq, H1|apply IH, H2].
Qed.

Lemma default_font_sweep :
  (f_h default_font =? 16)%N && (f_len default_font =? 256)%N && (length (f_glyphs default_font) =? 256)%nat
  && glyphs_wfb 16 (f_glyphs default_font) = true.
Proof. vm_compute. reflexivity. Qed.

Lemma default_font_wf : font_wf 16 default_font.
Proof.
  pose proof default_font_sweep as H. apply andb_prop in H as [H H4]. apply andb_prop in H as [H H3]. apply andb_prop in H as [H1 H2].
  apply N.eqb_eq in H1, H2. apply Nat.eqb_eq in H3. repeat split; try assumption. apply (glyphs_wfb_Forall 16), H4.
Qed.

Lemma glyphs_eqb_eq a : forall b, glyphs_eqb a b = true -> a = b.
Proof.
  induction a as [|x a IH]; intros [|y b] H; cbn [glyphs_eqb] in H; try discriminate; [reflexivity|].
  apply andb_prop in H as [H1 H2]. destruct (list_eq_dec N.eq_dec x y) as [->|]; [|discriminate].
  rewrite (IH b H2). reflexivity.
Qed.

Lemma dos_default_six_bit : Forall six_bit DOS_DEFAULT_PALETTE /\ length DOS_DEFAULT_PALETTE = 16%nat.
Proof. split; [|reflexivity]. unfold DOS_DEFAULT_PALETTE. repeat constructor. Qed.

(* a font made by the loader: well-formed, and if it is called the default font it is the default font *)
Lemma loaded_font_ok fs fb f :
  (1 <= fs <= 32)%N -> length fb = (N.to_nat fs * 256)%nat -> font_create_8 fs fb = Ok f ->
  let nd := font_named_default f in
  font_wf (f_h nd) nd /\ (1 <= f_h nd <= 32)%N /\ (f_default nd = true -> same_font nd default_font).
Proof.
  intros Hfs Hlen Hf. destruct (font_create_8_wf fs fb f ltac:(lia) ltac:(lia) Hf) as (Hwf & _).
  destruct Hwf as (H1 & H2 & H3 & H4). cbv zeta. unfold font_named_default. cbn [f_h f_len f_default f_glyphs].
  split; [rewrite H1; repeat split; assumption|]. split; [rewrite H1; exact Hfs|].
  intro Hd. apply glyphs_eqb_eq in Hd. destruct default_font_wf as (D1 & D2 & D3 & D4).
  unfold same_font. cbn [f_h f_len f_glyphs]. rewrite H2, D2, D1, Hd. split; [|split; reflexivity].
  (* the glyph height: both fonts have the same first glyph *)
  rewrite Hd in H4, H3. destruct (f_glyphs default_font) as [|g0 gs]; [discriminate|].
  apply Forall_inv in H4. apply Forall_inv in D4.
  rewrite H1. apply N2Nat.inj. rewrite <- H4. exact D4.
Qed.

Lemma take_slice_ok n l a r : take_slice n l = Ok (a, r) -> length a = n /\ l = a ++ r.
Proof.
  unfold take_slice. destruct (Nat.ltb_spec (length l) n) as [|Hge]; [discriminate|]. intro Heq. injection Heq as <- <-.
  split; [apply firstn_length_le; assumption|symmetry; apply firstn_skipn].
Qed.

Lemma xb_decode_plain m ch a : xb_decode m false ch a = mkCell ch (from_u8 a m).
Proof. unfold xb_decode. rewrite andb_false_r. reflexivity. Qed.

(* a file in 256-character mode: byte 10 (the flags) has FLAG_512CHAR_MODE clear *)
Definition xb_plain_file (data : list N) : Prop :=
  exists flags, nth_error data 10 = Some flags /\ has_flag8 flags XBIN_FLAG_512CHAR_MODE = false.

Lemma xb_load_representable : forall data s b,
  is_bytes data -> xb_plain_file data -> load_xb data s = Ok b -> representable_xb1 (pic_of b).
Proof.
  intros data s b Hbytes (flags' & Hfl' & Hext) Hload. unfold load_xb in Hload.
  destruct (Nat.ltb_spec (length data) (N.to_nat XBIN_HEADER_SIZE)) as [|_]; [discriminate|].
  destruct data as [|i0 [|i1 [|i2 [|i3 [|eof [|wl [|wh [|hl [|hh [|fs [|flags rest]]]]]]]]]]]; try discriminate.
  cbn [nth_error] in Hfl'. injection Hfl' as <-.
  destruct (list_eq_dec N.eq_dec [i0; i1; i2; i3] XBIN_ID); cbn [negb] in Hload; [|discriminate].
  set (w := Z.of_N (wl + wh * 256)) in *. set (h := Z.of_N (hl + hh * 256)) in *.
  destruct ((w <? 1) || (4096 <? w)) eqn:Ew; [discriminate|].
  apply orb_false_elim in Ew as [Ew1 Ew2]. apply Z.ltb_ge in Ew1, Ew2.
  set (font_size := if (fs =? 0)%N then 16%N else fs) in *.
  destruct (N.ltb_spec 32 font_size) as [|Hfs32]; [discriminate|].
  assert (Hfs1 : (1 <= font_size)%N) by (unfold font_size; destruct (N.eqb_spec fs 0); lia).
  rewrite Hext in Hload.
  rewrite (xb_header_state s w h false (has_flag8 flags XBIN_FLAG_NON_BLINK_MODE)) in Hload.
  set (ice := has_flag8 flags XBIN_FLAG_NON_BLINK_MODE) in *.
  assert (Hb : is_bytes rest /\ (hl < 256)%N /\ (hh < 256)%N).
  { unfold is_bytes in Hbytes. repeat match goal with H : Forall _ (_ :: _) |- _ => inversion H; clear H; subst end. auto. }
  destruct Hb as (Hrest & Hhl & Hhh).
  assert (Hh : 0 <= h <= 65535) by (unfold h; lia).
  (* palette *)
  assert (Hpal : exists pal rest1, is_bytes rest1 /\ length pal = 16%nat /\ Forall six_bit pal /\
            (if has_flag8 flags XBIN_FLAG_PALETTE
             then let* '(pb, rest0) := take_slice (N.to_nat XBIN_PALETTE_LENGTH) rest in
                  let* pal0 := from_63 pb in Ok (set_pal (xb_base w h false ice) pal0, rest0)
             else Ok (xb_base w h false ice, rest)) = Ok (set_pal (xb_base w h false ice) pal, rest1)).
  { destruct (has_flag8 flags XBIN_FLAG_PALETTE).
    - destruct (take_slice (N.to_nat XBIN_PALETTE_LENGTH) rest) as [[pb r0]| |] eqn:Ets; cbn [bind] in Hload |- *; try discriminate.
      destruct (take_slice_ok _ _ _ _ Ets) as (Hl & ->).
      apply Forall_app in Hrest as (Hpb & Hr0).
      destruct (from_63 pb) as [pal0| |] eqn:E63; cbn [bind] in Hload |- *; try discriminate.
      destruct (from_63_shape pb pal0 Hpb E63) as (H3 & H6).
      exists pal0, r0. split; [exact Hr0|]. split; [|split; [exact H6|reflexivity]].
      rewrite Hl in H3. change (N.to_nat XBIN_PALETTE_LENGTH) with 48%nat in H3. lia.
    - exists DOS_DEFAULT_PALETTE, rest. destruct dos_default_six_bit as (H6 & Hl).
      split; [exact Hrest|]. split; [exact Hl|]. split; [exact H6|reflexivity]. }
  destruct Hpal as (pal & rest1 & Hrest1 & Hpl & Hp6 & Hpaleq). rewrite Hpaleq in Hload. cbn [bind] in Hload.
  (* font *)
  set (b1 := set_pal (xb_base w h false ice) pal) in *.
  assert (Hfont : exists f rest2, is_bytes rest2 /\ font_wf (f_h f) f /\ (1 <= f_h f <= 32)%N /\
            (f_default f = true -> same_font f default_font) /\
            (if has_flag8 flags XBIN_FLAG_FONT
             then let* '(fb, rest0) := take_slice (N.to_nat font_size * 256) rest1 in
                  let* f0 := font_create_8 font_size fb in
                  Ok (set_fonts b1 [(0%N, font_named_default f0)], rest0)
             else Ok (b1, rest1)) = Ok (set_fonts b1 [(0%N, f)], rest2)).
  { destruct (has_flag8 flags XBIN_FLAG_FONT).
    - destruct (take_slice (N.to_nat font_size * 256) rest1) as [[fb r0]| |] eqn:Ets; cbn [bind] in Hload |- *; try discriminate.
      destruct (take_slice_ok _ _ _ _ Ets) as (Hl & ->).
      apply Forall_app in Hrest1 as (Hfb & Hr0).
      destruct (font_create_8 font_size fb) as [f0| |] eqn:Ef; cbn [bind] in Hload |- *; try discriminate.
      destruct (loaded_font_ok font_size fb f0 ltac:(lia) Hl Ef) as (H1 & H2 & H3).
      exists (font_named_default f0), r0.
      split; [exact Hr0|]. split; [exact H1|]. split; [exact H2|]. split; [exact H3|reflexivity].
    - exists default_font, rest1. destruct default_font_wf as (D1 & D2 & D3 & D4).
      split; [exact Hrest1|]. split; [rewrite D1; repeat split; assumption|]. split; [rewrite D1; lia|].
      split; [intros _; unfold same_font; auto|reflexivity]. }
  destruct Hfont as (f & rest2 & Hrest2 & Hwf & Hfh & Hdef & Hfonteq). rewrite Hfonteq in Hload. cbn [bind] in Hload.
  destruct (has_flag8 flags XBIN_FLAG_COMPRESS); [discriminate|].
  set (b2 := set_fonts b1 [(0%N, f)]) in *.
  change (b_w b2) with w in Hload. change (b_ice b2) with (if ice then Ice else Blink) in Hload.
  change (b_layer b2) with (mkLayer w h []) in Hload.
  set (m := if ice then Ice else Blink) in *.
  remember (xb_read_uncompressed w m false (mkLayer w h []) 0 0 rest2) as L eqn:EL.
  assert (HLw : l_w L = w) by (rewrite EL; unfold xb_read_uncompressed; rewrite pair_loop_width; reflexivity).
  assert (HLne : lines_nonempty (l_lines L)).
  { rewrite EL. unfold xb_read_uncompressed. apply pair_loop_nonempty; cbn [l_w l_lines]; [lia|constructor]. }
  assert (HLcells : all_cells (stored8 m) (l_lines L)).
  { rewrite EL. unfold xb_read_uncompressed. apply pair_loop_all_cells with (Q := fun b => (b < 256)%N).
    - left. reflexivity.
    - intros ch a Hch Ha. right. exists ch, a. repeat split; try assumption. apply xb_decode_plain.
    - exact Hrest2.
    - cbn [l_lines]. constructor. }
  assert (HLlen : (length (l_lines L) <= Z.to_nat h)%nat).
  { rewrite EL. unfold xb_read_uncompressed.
    apply (pair_loop_false_lines_bound (xb_decode m false) w rest2 (mkLayer w h []) 0 0). cbn. lia. }
  rewrite crop_nonempty in Hload by exact HLne. cbn [b_layer set_layer l_w l_lines] in Hload. rewrite HLw in Hload.
  set (n := Z.of_nat (length (l_lines L))) in *.
  injection Hload as <-.
  unfold representable_xb1, xb_common.
  cbn [pic_of p_w p_h p_ice p_pal p_fonts b_w b_h b_ice b_pal b_fonts set_height set_layer].
  change (b_w b2) with w. change (b_ice b2) with m. change (b_pal b2) with pal. change (b_fonts b2) with [(0%N, f)].
  split; [split; [|split; [|split; [|split]]]|split].
  - unfold rect. apply (pic_of_rect (set_height (set_layer b2 (mkLayer w n (l_lines L))) n)); cbn [b_w b_h set_height set_layer].
    + change (b_w b2) with w. lia.
    + unfold n. lia.
  - lia.
  - unfold n. lia.
  - exact Hpl.
  - exact Hp6.
  - unfold all_pic_cells.
    apply (pic_of_all_cells (stored8 m) (cell8_page0 m)); cbn [b_w b_h b_layer set_height set_layer l_w l_h l_lines].
    + change (b_w b2) with w. lia.
    + lia.
    + left. reflexivity.
    + exact HLcells.
    + intros c Hc. apply stored8_seen, Hc.
  - exists f. cbn [get_font N.eqb]. split; [reflexivity|]. split; [exact Hwf|]. split; [exact Hfh|exact Hdef].
Qed.

Lemma xb_resave_proof : forall data s b,
  is_bytes data -> xb_plain_file data -> load_xb data s = Ok b ->
  forall s', exists data' b', save_xb (pic_of b) = Ok data' /\ load_xb data' s' = Ok b' /\
                              same_picture true [0%N] (pic_of b) (pic_of b').
Proof.
  intros data s b Hd Hp Hl s'. apply xb_roundtrip1_proof. exact (xb_load_representable data s b Hd Hp Hl).
Qed.
