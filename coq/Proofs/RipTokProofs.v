(* Lemmas about the RIP tokenizer model (Model/RipTok.v): base-36 parsing, the per-command parse step keeps the command
   record well formed (field count, field values bounded by the number of digits read, vector shape, parameter index below the
   arity), print_char never reaches one of its panic sites. *)
From Coq Require Import NArith ZArith List Bool Lia Arith.
From IE Require Import Gen.RipGen Model.RipTok.
Import ListNotations.
Local Open Scope Z_scope.

(* ---------- generated tables: complete finite checks ---------- *)
Definition act_field_ok (n : nat) (a : act * ret) : bool :=
  match fst a with ADig f | AFlag f => Nat.ltb f n | _ => true end.
Definition dflt_ok (a : act * ret) : bool := match fst a with AText | AErr => true | _ => false end.

(* PMore at index i of a fixed-arity table implies i+1 is still inside the table *)
Fixpoint cont_ok (arms : list (act * ret)) (i len : nat) : bool :=
  match arms with
  | [] => true
  | a :: t => (match snd a with
               | RTrue => Nat.ltb (S i) len
               | RFalse => true
               | RLt n => (Z.of_nat i <? n) && (n <=? Z.of_nat len - 1) || negb (Z.of_nat i <? n)
               end) && cont_ok t (S i) len
  end.

Definition fixed_arity (c : cmd) : option nat :=
  match cmd_parse c with
  | PTable arms (AErr, _) => Some (length arms)
  | PSetPalette => Some 32%nat
  | _ => None
  end.

Definition table_ok (c : cmd) : bool :=
  match cmd_parse c with
  | PTable arms d => forallb (act_field_ok (cmd_nfields c)) arms && dflt_ok d
                     && (match fst d with AErr => cont_ok arms 0 (length arms) && Nat.ltb 0 (length arms) | _ => true end)
  | PPoly => Nat.ltb 1 (cmd_nfields c)
  | PFlagText | PChrText => Nat.ltb 0 (cmd_nfields c)
  | _ => true
  end.

Lemma tables_ok : forall c, table_ok c = true.
Proof. destruct c; vm_compute; reflexivity. Qed.

(* ---------- base 36 ---------- *)
Lemma to_digit36_range ch d : to_digit36 ch = Some d -> 0 <= d < 36.
Proof.
  unfold to_digit36.
  destruct ((48 <=? Z.of_N ch) && (Z.of_N ch <=? 57)) eqn:A.
  - intros H; inversion H; subst. apply andb_true_iff in A. lia.
  - destruct ((65 <=? Z.of_N ch) && (Z.of_N ch <=? 90)) eqn:B.
    + intros H; inversion H; subst. apply andb_true_iff in B. lia.
    + destruct ((97 <=? Z.of_N ch) && (Z.of_N ch <=? 122)) eqn:C.
      * intros H; inversion H; subst. apply andb_true_iff in C. lia.
      * discriminate.
Qed.

Lemma in_i32_iff z : in_i32 z = true <-> I32_MIN <= z <= I32_MAX.
Proof. unfold in_i32. rewrite andb_true_iff. lia. Qed.

Lemma parse_base_36_spec n ch m :
  parse_base_36 n ch = Some m -> exists d, 0 <= d < 36 /\ m = n * 36 + d /\ I32_MIN <= m <= I32_MAX.
Proof.
  unfold parse_base_36. destruct (to_digit36 ch) as [d|] eqn:D; [|discriminate].
  destruct (in_i32 (n * 36)) eqn:A; [|discriminate].
  destruct (in_i32 (n * 36 + d)) eqn:B; [|discriminate].
  intros H; inversion H; subst. exists d. apply to_digit36_range in D. apply in_i32_iff in B. lia.
Qed.

(* a non-digit is an error, never a panic: the fixed TextWindow arm goes through parse_base_36 like every other *)
Lemma parse_base_36_not_digit n ch : to_digit36 ch = None -> parse_base_36 n ch = None.
Proof. unfold parse_base_36. intros ->. reflexivity. Qed.

(* ---------- lists ---------- *)
Lemma set_nth_some {A} (l : list A) n v : (n < length l)%nat -> exists l', set_nth l n v = Some l'.
Proof.
  revert n; induction l as [|h t IH]; intros n H; simpl in *; [lia|].
  destruct n; [eauto|]. destruct (IH n) as [t' E]; [lia|]. rewrite E. eauto.
Qed.

Lemma set_nth_length {A} (l : list A) n v l' : set_nth l n v = Some l' -> length l' = length l.
Proof.
  revert n l'; induction l as [|h t IH]; intros n l' H; simpl in *; [discriminate|].
  destruct n; [inversion H; reflexivity|].
  destruct (set_nth t n v) eqn:E; [|discriminate]. inversion H; subst. simpl. f_equal. eauto.
Qed.

Lemma set_nth_nth_error {A} (l : list A) n v l' g :
  set_nth l n v = Some l' -> nth_error l' g = if Nat.eqb g n then Some v else nth_error l g.
Proof.
  revert n l' g; induction l as [|h t IH]; intros n l' g H; simpl in *; [discriminate|].
  destruct n.
  - inversion H; subst. destruct g; reflexivity.
  - destruct (set_nth t n v) eqn:E; [|discriminate]. inversion H; subst.
    destruct g; simpl; [reflexivity|]. apply IH; assumption.
Qed.

Lemma nth_error_some_lt {A} (l : list A) n : (n < length l)%nat -> exists v, nth_error l n = Some v.
Proof. intros H. destruct (nth_error l n) eqn:E; [eauto|]. apply nth_error_None in E. lia. Qed.

(* ---------- weights: how many digits of field f the first n table entries read ---------- *)
Definition aw (f : nat) (a : act * ret) : nat :=
  match fst a with ADig g | AFlag g => if Nat.eqb g f then 1%nat else 0%nat | _ => 0%nat end.

Fixpoint wsum (arms : list (act * ret)) (f n : nat) : nat :=
  match n, arms with
  | S n', a :: t => (aw f a + wsum t f n')%nat
  | _, _ => 0%nat
  end.

Lemma wsum_0 arms f : wsum arms f 0 = 0%nat.
Proof. destruct arms; reflexivity. Qed.
Lemma wsum_cons a t f n : wsum (a :: t) f (S n) = (aw f a + wsum t f n)%nat.
Proof. reflexivity. Qed.
Lemma wsum_nil f n : wsum [] f n = 0%nat.
Proof. destruct n; reflexivity. Qed.

Lemma wsum_succ arms f n a : nth_error arms n = Some a -> wsum arms f (S n) = (wsum arms f n + aw f a)%nat.
Proof.
  revert n; induction arms as [|h t IH]; intros n H; [destruct n; discriminate|].
  destruct n; simpl in H.
  - inversion H; subst. rewrite wsum_cons, !wsum_0. lia.
  - rewrite !wsum_cons. rewrite (IH n H). lia.
Qed.

Lemma wsum_succ_none arms f n : nth_error arms n = None -> wsum arms f (S n) = wsum arms f n.
Proof.
  revert n; induction arms as [|h t IH]; intros n H; [rewrite !wsum_nil; reflexivity|].
  destruct n; simpl in H; [discriminate|].
  rewrite !wsum_cons. rewrite (IH n H). reflexivity.
Qed.

Lemma wsum_mono arms f n : (wsum arms f n <= wsum arms f (S n))%nat.
Proof.
  destruct (nth_error arms n) eqn:E; [rewrite (wsum_succ _ _ _ _ E); lia | rewrite (wsum_succ_none _ _ _ E); lia].
Qed.

Definition poly_arms : list (act * ret) := [(ADig 1, RTrue); (ADig 1, RTrue)].

Definition arms_of (c : cmd) : list (act * ret) :=
  match cmd_parse c with
  | PTable arms _ => arms
  | PPoly => poly_arms
  | PFlagText => [(AFlag 0, RTrue)]
  | _ => []
  end.

Definition is_chr (c : cmd) : bool := match cmd_parse c with PChrText => true | _ => false end.

Definition bounded (c : pcmd) (st : Z) : Prop :=
  forall f v, nth_error (pc_fields c) f = Some v -> 0 <= v < 36 ^ Z.of_nat (wsum (arms_of (pc_cmd c)) f (Z.to_nat st)).

Definition vec_ok (c : pcmd) (st : Z) : Prop :=
  match cmd_parse (pc_cmd c) with
  | PSetPalette => pc_vec c <> [] \/ Z.rem st 2 = 0
  | PPoly => pc_vec c <> [] \/ Z.rem st 2 = 0 \/ st <= 1
  | _ => True
  end.

Definition CmdInv (c : pcmd) (st : Z) : Prop :=
  length (pc_fields c) = cmd_nfields (pc_cmd c) /\ 0 <= st /\ (is_chr (pc_cmd c) = false -> bounded c st) /\ vec_ok c st.

(* the parameter index stays below the arity while a fixed-arity command is being read *)
Definition below_arity (c : pcmd) (st : Z) : Prop :=
  forall n, fixed_arity (pc_cmd c) = Some n -> st < Z.of_nat n.

Lemma table_ok_table c arms d : cmd_parse c = PTable arms d ->
  forallb (act_field_ok (cmd_nfields c)) arms = true /\ dflt_ok d = true /\
  (fst d = AErr -> cont_ok arms 0 (length arms) = true /\ (0 < length arms)%nat).
Proof.
  intros K. generalize (tables_ok c). unfold table_ok. rewrite K.
  rewrite !andb_true_iff. intros [[A B] C]. split; [exact A|split; [exact B|]].
  intros E. rewrite E in C. apply andb_true_iff in C. destruct C as [C1 C2]. split; [exact C1|]. apply Nat.ltb_lt in C2. exact C2.
Qed.

Lemma new_cmd_inv c : CmdInv (new_cmd c) 0 /\ below_arity (new_cmd c) 0.
Proof.
  split; [split; [|split; [|split]]|].
  - simpl. apply repeat_length.
  - lia.
  - intros _ f v H. simpl in H. apply nth_error_In in H. apply repeat_spec in H. subst. simpl. lia.
  - unfold vec_ok. simpl. destruct (cmd_parse c); auto.
  - intros n H. simpl in H. unfold fixed_arity in H.
    destruct (cmd_parse c) as [arms d| | | | | | | |] eqn:K; try discriminate.
    + destruct d as [a r]; destruct a; try discriminate. inversion H; subst.
      destruct (table_ok_table _ _ _ K) as (_ & _ & T). destruct (T eq_refl) as [_ L]. lia.
    + inversion H; subst. simpl. lia.
Qed.

(* ---------- one Command::parse step ---------- *)
Definition StepPost (c : pcmd) (st : Z) (r : presult) : Prop :=
  match r with
  | PPanic _ => False
  | PErr => True
  | PMore c' => pc_cmd c' = pc_cmd c /\ CmdInv c' (st + 1) /\ (below_arity c st -> below_arity c' (st + 1))
  | PDone c' => pc_cmd c' = pc_cmd c /\ CmdInv c' (st + 1)
  end.

Lemma with_field_elim c f k cont (P : presult -> Prop) :
  (f < length (pc_fields c))%nat ->
  P PErr ->
  (forall v v' fs, nth_error (pc_fields c) f = Some v -> k v = Some v' -> set_nth (pc_fields c) f v' = Some fs ->
     P (cont {| pc_cmd := pc_cmd c; pc_fields := fs; pc_vec := pc_vec c; pc_textlen := pc_textlen c |})) ->
  P (with_field c f k cont).
Proof.
  intros L PE PC. unfold with_field.
  destruct (nth_error_some_lt _ _ L) as [v E]. rewrite E.
  destruct (k v) as [v'|] eqn:K; [|exact PE].
  destruct (set_nth_some (pc_fields c) f v' L) as [fs S]. rewrite S. eapply PC; eauto.
Qed.

Lemma pow36_succ w : 36 ^ Z.of_nat (w + 1) = 36 ^ Z.of_nat w * 36.
Proof. rewrite Nat2Z.inj_add. rewrite Z.pow_add_r by lia. reflexivity. Qed.

Lemma pow36_mono a b : (a <= b)%nat -> 36 ^ Z.of_nat a <= 36 ^ Z.of_nat b.
Proof. intros. apply Z.pow_le_mono_r; lia. Qed.

Lemma to_nat_succ st : 0 <= st -> Z.to_nat (st + 1) = S (Z.to_nat st).
Proof. intros. rewrite Z2Nat.inj_add by lia. simpl. lia. Qed.

Lemma bounded_same_fields c c' st :
  pc_cmd c' = pc_cmd c -> pc_fields c' = pc_fields c -> 0 <= st -> bounded c st -> bounded c' (st + 1).
Proof.
  intros EC EF Hst B f v H. rewrite EF in H. specialize (B f v H). rewrite EC, to_nat_succ by lia.
  pose proof (pow36_mono _ _ (wsum_mono (arms_of (pc_cmd c)) f (Z.to_nat st))). lia.
Qed.

(* the table entry at index st reads field f: after the update the field is below 36^(digits read) *)
Lemma bounded_set_field c st f a v v' fs :
  0 <= st -> bounded c st ->
  nth_error (arms_of (pc_cmd c)) (Z.to_nat st) = Some a -> aw f a = 1%nat ->
  nth_error (pc_fields c) f = Some v -> set_nth (pc_fields c) f v' = Some fs -> 0 <= v' < 36 * (v + 1) ->
  bounded {| pc_cmd := pc_cmd c; pc_fields := fs; pc_vec := pc_vec c; pc_textlen := pc_textlen c |} (st + 1).
Proof.
  intros Hst B A W E S R g u H. cbn [pc_fields pc_cmd] in *. rewrite to_nat_succ by lia.
  rewrite (set_nth_nth_error _ _ _ _ g S) in H.
  destruct (Nat.eqb g f) eqn:GF.
  - apply Nat.eqb_eq in GF. subst g. inversion H; subst u.
    rewrite (wsum_succ _ _ _ _ A), W, pow36_succ. specialize (B f v E).
    set (P := 36 ^ Z.of_nat (wsum (arms_of (pc_cmd c)) f (Z.to_nat st))) in *. lia.
  - specialize (B g u H).
    pose proof (pow36_mono _ _ (wsum_mono (arms_of (pc_cmd c)) g (Z.to_nat st))). lia.
Qed.

Lemma base36_step_bound v ch v' : 0 <= v -> parse_base_36 v ch = Some v' -> 0 <= v' < 36 * (v + 1).
Proof. intros Hv H. apply parse_base_36_spec in H. destruct H as (d & Hd & -> & _). lia. Qed.

Lemma vec_ok_table c st arms d : cmd_parse (pc_cmd c) = PTable arms d -> vec_ok c st.
Proof. unfold vec_ok. intros ->. exact I. Qed.

Lemma forallb_nth {A} (p : A -> bool) l n a : forallb p l = true -> nth_error l n = Some a -> p a = true.
Proof. intros F E. rewrite forallb_forall in F. apply F. eapply nth_error_In; eauto. Qed.

Lemma cont_ok_nth arms : forall i len n a, cont_ok arms i len = true -> nth_error arms n = Some a ->
  match snd a with
  | RTrue => (S (i + n) < len)%nat
  | RFalse => True
  | RLt m => Z.of_nat (i + n) < m -> m <= Z.of_nat len - 1
  end.
Proof.
  induction arms as [|h t IH]; intros i len n a C E; [destruct n; discriminate|].
  simpl in C. apply andb_true_iff in C. destruct C as [C1 C2].
  destruct n; simpl in E.
  - inversion E; subst. replace (i + 0)%nat with i by lia. destruct (snd a).
    + apply Nat.ltb_lt in C1. exact C1.
    + exact I.
    + intros L. apply orb_true_iff in C1. destruct C1 as [C1|C1].
      * apply andb_true_iff in C1. destruct C1 as [_ C1]. apply Z.leb_le in C1. lia.
      * apply negb_true_iff in C1. apply Z.ltb_ge in C1. lia.
  - specialize (IH (S i) len n a C2 E). replace (i + S n)%nat with (S i + n)%nat by lia. exact IH.
Qed.

Lemma apply_ret_post c c' st r :
  pc_cmd c' = pc_cmd c -> CmdInv c' (st + 1) ->
  (r = RTrue \/ (exists m, r = RLt m /\ st < m) -> below_arity c st -> below_arity c' (st + 1)) ->
  StepPost c st (apply_ret r st c').
Proof.
  intros EC I BA. unfold apply_ret. destruct r; simpl.
  - split; [exact EC|split; [exact I|]]. intros. apply BA; auto.
  - split; assumption.
  - destruct (st <? n) eqn:L; simpl.
    + split; [exact EC|split; [exact I|]]. intros. apply BA; auto. right. exists n. split; [reflexivity|lia].
    + split; assumption.
Qed.

Lemma table_step c st ch arms d :
  cmd_parse (pc_cmd c) = PTable arms d -> CmdInv c st ->
  StepPost c st (apply_act (if 0 <=? st then match nth_error arms (Z.to_nat st) with Some a => a | None => d end else d) st c ch).
Proof.
  intros K (L & Hst & B & V).
  assert (NC : is_chr (pc_cmd c) = false) by (unfold is_chr; rewrite K; reflexivity).
  specialize (B NC).
  destruct (table_ok_table _ _ _ K) as (TF & TD & TC).
  assert (AO : arms_of (pc_cmd c) = arms) by (unfold arms_of; rewrite K; reflexivity).
  replace (0 <=? st) with true by (symmetry; apply Z.leb_le; lia).
  (* arity bookkeeping shared by all continuing arms *)
  assert (BA : forall a c', nth_error arms (Z.to_nat st) = Some a -> pc_cmd c' = pc_cmd c ->
               (snd a = RTrue \/ (exists m, snd a = RLt m /\ st < m)) -> below_arity c st -> below_arity c' (st + 1)).
  { intros a c' E EC R BA n F. rewrite EC in F. specialize (BA n F).
    unfold fixed_arity in F. rewrite K in F. destruct d as [da dr]. destruct da; try discriminate. inversion F; subst n.
    destruct (TC eq_refl) as [CO _]. pose proof (cont_ok_nth _ _ _ _ _ CO E) as Q. simpl in Q.
    destruct R as [R|(m & R & Lm)]; rewrite R in Q.
    - lia.
    - assert (Z.of_nat (Z.to_nat st) < m) by lia. specialize (Q H). lia. }
  destruct (nth_error arms (Z.to_nat st)) as [a|] eqn:E.
  - (* inside the table *)
    pose proof (forallb_nth _ _ _ _ TF E) as FO. unfold act_field_ok in FO.
    unfold apply_act. destruct a as [ac r]. simpl in *. destruct ac as [f|f| |].
    + apply Nat.ltb_lt in FO. apply with_field_elim; [lia|exact I|].
      intros v v' fs EV KV SV. apply apply_ret_post; [reflexivity| |].
      * split; [simpl; rewrite (set_nth_length _ _ _ _ SV); exact L|split; [lia|split]].
        -- intros _. eapply bounded_set_field with (a := (ADig f, r)); eauto.
           ++ rewrite AO. exact E.
           ++ unfold aw. simpl. rewrite Nat.eqb_refl. reflexivity.
           ++ eapply base36_step_bound; eauto. apply (B f v EV).
        -- unfold vec_ok. simpl. rewrite K. exact I.
      * intros R. eapply BA; eauto.
    + apply Nat.ltb_lt in FO. apply with_field_elim; [lia|exact I|].
      intros v v' fs EV KV SV. apply apply_ret_post; [reflexivity| |].
      * split; [simpl; rewrite (set_nth_length _ _ _ _ SV); exact L|split; [lia|split]].
        -- intros _. eapply bounded_set_field with (a := (AFlag f, r)); eauto.
           ++ rewrite AO. exact E.
           ++ unfold aw. simpl. rewrite Nat.eqb_refl. reflexivity.
           ++ pose proof (B f v EV). destruct (ch =? 49)%N; inversion KV; subst; lia.
        -- unfold vec_ok. simpl. rewrite K. exact I.
      * intros R. eapply BA; eauto.
    + apply apply_ret_post; [reflexivity| |].
      * split; [exact L|split; [lia|split]].
        -- intros _. apply (bounded_same_fields c); auto.
        -- unfold vec_ok. simpl. rewrite K. exact I.
      * intros R. eapply BA; eauto.
    + exact I.
  - (* beyond the table: the `_` arm *)
    unfold apply_act. destruct d as [da dr]. simpl in *. unfold dflt_ok in TD. simpl in TD.
    destruct da; try discriminate.
    + apply apply_ret_post; [reflexivity| |].
      * split; [exact L|split; [lia|split]].
        -- intros _. apply (bounded_same_fields c); auto.
        -- unfold vec_ok. simpl. rewrite K. exact I.
      * intros _ BA' n F. unfold fixed_arity in F. simpl in F. rewrite K in F. discriminate.
    + exact I.
Qed.

Lemma pop_last_app (v : list Z) x : pop_last (v ++ [x]) = Some (v, x).
Proof. unfold pop_last. rewrite rev_app_distr. simpl. rewrite rev_involutive. reflexivity. Qed.

Lemma pop_last_nonempty (v : list Z) : v <> [] -> exists r x, pop_last v = Some (r, x).
Proof.
  intros H. destruct (rev v) as [|x r] eqn:E.
  - exfalso. apply H. apply (f_equal (@rev Z)) in E. rewrite rev_involutive in E. exact E.
  - unfold pop_last. rewrite E. eauto.
Qed.

(* SetPalette / polygon digits: the vector is non-empty when a digit is merged into its last element *)
Lemma vec_digit_elim c st ch cont (P : presult -> Prop) :
  (pc_vec c <> [] \/ Z.rem st 2 = 0) ->
  P PErr ->
  (forall v, v <> [] -> P (cont (with_vec c v))) ->
  P (vec_digit c st ch cont).
Proof.
  intros V PE PC. unfold vec_digit.
  destruct (Z.rem st 2 =? 0) eqn:E.
  - rewrite pop_last_app. destruct (parse_base_36 0 ch); [|exact PE]. apply PC. destruct (pc_vec c); discriminate.
  - destruct V as [V|V]; [|apply Z.eqb_neq in E; contradiction].
    destruct (pop_last_nonempty _ V) as (r & x & Q). rewrite Q.
    destruct (parse_base_36 x ch); [|exact PE]. apply PC. destruct r; discriminate.
Qed.

Lemma poly_field1_bound c st : cmd_parse (pc_cmd c) = PPoly -> bounded c st -> forall v, nth_error (pc_fields c) 1 = Some v -> 0 <= v < 1296.
Proof.
  intros K B v E. specialize (B 1%nat v E). unfold arms_of in B. rewrite K in B.
  assert (wsum poly_arms 1 (Z.to_nat st) <= 2)%nat.
  { destruct (Z.to_nat st) as [|[|[|n]]]; vm_compute; lia. }
  pose proof (pow36_mono _ _ H). change (36 ^ Z.of_nat 2) with 1296 in H0. lia.
Qed.

Lemma cmd_parse_step_inv c st ch : CmdInv c st -> StepPost c st (cmd_parse_step c st ch).
Proof.
  intros HI. unfold cmd_parse_step. destruct (cmd_parse (pc_cmd c)) as [arms d| | | | | | | |] eqn:K.
  - eapply table_step; eauto.
  - (* SetPalette *)
    destruct HI as (L & Hst & B & V). unfold vec_ok in V. rewrite K in V.
    apply vec_digit_elim; [exact V|exact I|]. intros v NV.
    assert (CI : CmdInv (with_vec c v) (st + 1)).
    { split; [exact L|split; [lia|split]].
      - intros NC. apply (bounded_same_fields c); auto.
      - unfold vec_ok. simpl. rewrite K. left. exact NV. }
    destruct (st <? 31) eqn:E; simpl.
    + split; [reflexivity|split; [exact CI|]]. intros _ n F. simpl in F. unfold fixed_arity in F. rewrite K in F. inversion F; subst.
      apply Z.ltb_lt in E. simpl. lia.
    + split; [reflexivity|exact CI].
  - (* polygons *)
    destruct HI as (L & Hst & B & V).
    assert (NC : is_chr (pc_cmd c) = false) by (unfold is_chr; rewrite K; reflexivity). specialize (B NC).
    pose proof (tables_ok (pc_cmd c)) as T. unfold table_ok in T. rewrite K in T. apply Nat.ltb_lt in T.
    unfold vec_ok in V. rewrite K in V.
    destruct ((st =? 0) || (st =? 1)) eqn:E01.
    + apply with_field_elim; [lia|exact I|]. intros v v' fs EV KV SV. simpl.
      split; [reflexivity|split].
      * split; [simpl; rewrite (set_nth_length _ _ _ _ SV); exact L|split; [lia|split]].
        -- intros _. assert (A : nth_error (arms_of (pc_cmd c)) (Z.to_nat st) = Some (ADig 1, RTrue)).
           { unfold arms_of. rewrite K. apply orb_true_iff in E01. destruct E01 as [E|E]; apply Z.eqb_eq in E; subst st; reflexivity. }
           eapply bounded_set_field with (f := 1%nat) (a := (ADig 1, RTrue)) (v := v); [lia|exact B|exact A|reflexivity|exact EV|exact SV|].
           eapply base36_step_bound; eauto. apply (B 1%nat v EV).
        -- unfold vec_ok. simpl. rewrite K. right.
           apply orb_true_iff in E01. destruct E01 as [E|E]; apply Z.eqb_eq in E; subst st; [right; lia|left; reflexivity].
      * intros _ n F. simpl in F. unfold fixed_arity in F. rewrite K in F. discriminate.
    + apply orb_false_iff in E01. destruct E01 as [E0 E1]. apply Z.eqb_neq in E0. apply Z.eqb_neq in E1.
      apply vec_digit_elim; [destruct V as [V|[V|V]]; [left; exact V|right; exact V|lia]|exact I|].
      intros v NV. cbn [pc_fields with_vec].
      destruct (nth_error_some_lt (pc_fields c) 1 ltac:(lia)) as [np ENP]. rewrite ENP.
      pose proof (poly_field1_bound c st K B np ENP) as BNP.
      replace (in_i32 (np + 1) && in_i32 ((np + 1) * 4)) with true
        by (symmetry; apply andb_true_iff; split; apply in_i32_iff; unfold I32_MIN, I32_MAX; lia).
      assert (CI : CmdInv (with_vec c v) (st + 1)).
      { split; [exact L|split; [lia|split]].
        - intros _. apply (bounded_same_fields c); auto.
        - unfold vec_ok. simpl. rewrite K. left. exact NV. }
      destruct (st <? (np + 1) * 4); simpl.
      * split; [reflexivity|split; [exact CI|]]. intros _ n F. simpl in F. unfold fixed_arity in F. rewrite K in F. discriminate.
      * split; [reflexivity|exact CI].
  - (* Text *)
    destruct HI as (L & Hst & B & V). simpl. split; [reflexivity|split].
    + split; [exact L|split; [lia|split]].
      * intros NC. apply (bounded_same_fields c); auto.
      * unfold vec_ok. simpl. rewrite K. exact I.
    + intros _ n F. simpl in F. unfold fixed_arity in F. rewrite K in F. discriminate.
  - (* RegionText *)
    destruct HI as (L & Hst & B & V).
    assert (NC : is_chr (pc_cmd c) = false) by (unfold is_chr; rewrite K; reflexivity). specialize (B NC).
    pose proof (tables_ok (pc_cmd c)) as T. unfold table_ok in T. rewrite K in T. apply Nat.ltb_lt in T.
    destruct (st =? 0) eqn:E0.
    + apply Z.eqb_eq in E0. apply with_field_elim; [lia|exact I|]. intros v v' fs EV KV SV. cbn [StepPost].
      split; [reflexivity|split].
      * split; [simpl; rewrite (set_nth_length _ _ _ _ SV); exact L|split; [lia|split]].
        -- intros _. eapply bounded_set_field with (f := 0%nat) (a := (AFlag 0, RTrue)) (v := v); [lia|exact B| |reflexivity|exact EV|exact SV|].
           ++ unfold arms_of. rewrite K, E0. reflexivity.
           ++ pose proof (B 0%nat v EV). destruct (ch =? 49)%N; inversion KV; subst; lia.
        -- unfold vec_ok. simpl. rewrite K. exact I.
      * intros _ n F. simpl in F. unfold fixed_arity in F. rewrite K in F. discriminate.
    + simpl. split; [reflexivity|split].
      * split; [exact L|split; [lia|split]].
        -- intros _. apply (bounded_same_fields c); auto.
        -- unfold vec_ok. simpl. rewrite K. exact I.
      * intros _ n F. simpl in F. unfold fixed_arity in F. rewrite K in F. discriminate.
  - (* WriteIcon: the first character is stored as it is *)
    destruct HI as (L & Hst & B & V).
    assert (NC : is_chr (pc_cmd c) = true) by (unfold is_chr; rewrite K; reflexivity).
    pose proof (tables_ok (pc_cmd c)) as T. unfold table_ok in T. rewrite K in T. apply Nat.ltb_lt in T.
    destruct (st =? 0).
    + apply with_field_elim; [lia|exact I|]. intros v v' fs EV KV SV. simpl.
      split; [reflexivity|split].
      * split; [simpl; rewrite (set_nth_length _ _ _ _ SV); exact L|split; [lia|split]].
        -- simpl. rewrite NC. discriminate.
        -- unfold vec_ok. simpl. rewrite K. exact I.
      * intros _ n F. simpl in F. unfold fixed_arity in F. rewrite K in F. discriminate.
    + simpl. split; [reflexivity|split].
      * split; [exact L|split; [lia|split]].
        -- simpl. rewrite NC. discriminate.
        -- unfold vec_ok. simpl. rewrite K. exact I.
      * intros _ n F. simpl in F. unfold fixed_arity in F. rewrite K in F. discriminate.
  - (* ReadScene *)
    destruct HI as (L & Hst & B & V). simpl. split; [reflexivity|split].
    + split; [exact L|split; [lia|split]].
      * intros NC. apply (bounded_same_fields c); auto.
      * unfold vec_ok. simpl. rewrite K. exact I.
    + intros _ n F. simpl in F. unfold fixed_arity in F. rewrite K in F. discriminate.
  - (* TextVariable *)
    destruct HI as (L & Hst & B & V).
    assert (CI : forall c', pc_cmd c' = pc_cmd c -> pc_fields c' = pc_fields c -> CmdInv c' (st + 1)).
    { intros c' EC EF. split; [rewrite EF, EC; exact L|split; [lia|split]].
      - intros NC. rewrite EC in NC. apply (bounded_same_fields c); auto.
      - unfold vec_ok. rewrite EC, K. exact I. }
    destruct (ch =? 36)%N; simpl.
    + split; [reflexivity|apply CI; reflexivity].
    + split; [reflexivity|split; [apply CI; reflexivity|]].
      intros _ n F. simpl in F. unfold fixed_arity in F. rewrite K in F. discriminate.
  - exact I.
Qed.

(* ---------- print_char ---------- *)
Definition reading (s : tstate) : bool := match s with SReadParams | SSkipEOL => true | _ => false end.

Definition TokInv (t : tok) : Prop :=
  0 <= t_pstate t /\
  (reading (t_state t) = true -> exists c, t_cmd t = Some c /\ CmdInv c (t_pstate t) /\ below_arity c (t_pstate t)).

Definition ActOk (a : action) : Prop := match a with ARun c => exists st, CmdInv c st | _ => True end.

Lemma tok_init_inv : TokInv tok_init.
Proof. split; [simpl; lia|simpl; discriminate]. Qed.

Lemma TokInv_idle t s : 0 <= t_pstate t -> reading s = false -> TokInv (set_state t s).
Proof. intros H R. split; [exact H|]. simpl. rewrite R. discriminate. Qed.

Lemma take_cmd_inv t s : TokInv t -> reading (t_state t) = true -> reading s = false ->
  let '(t', a) := take_cmd t s in TokInv t' /\ ActOk a /\ t_pstate t' = t_pstate t.
Proof.
  intros [P R] RD NS. destruct (R RD) as (c & EC & CI & _). unfold take_cmd. rewrite EC.
  split; [|split; [simpl; eauto|reflexivity]]. split; [exact P|]. simpl. rewrite NS. discriminate.
Qed.

Definition PPPost (t : tok) (r : pp_result) : Prop :=
  match r with
  | PPPanic _ => False
  | PPReturn t' a => TokInv t' /\ ActOk a /\ t_pstate t' <= t_pstate t + 1
  | PPFall t' => TokInv t' /\ t_state t' = t_state t /\ t_pstate t' <= t_pstate t + 1
  end.

Lemma parse_parameter_inv t ch : TokInv t -> reading (t_state t) = true -> t_pstate t < I32_MAX -> PPPost t (parse_parameter t ch).
Proof.
  intros TI RD PM. pose proof TI as [P R]. destruct (R RD) as (c & EC & CI & BA).
  unfold parse_parameter.
  destruct (ch =? 92)%N.
  { simpl. split; [|split; [exact I|lia]]. split; [exact P|]. intros _. exists c. auto. }
  destruct (ch =? 13)%N.
  { simpl. split; [exact TI|split; [exact I|lia]]. }
  destruct (ch =? 10)%N.
  { pose proof (take_cmd_inv t SDefault TI RD eq_refl) as Q. destruct (take_cmd t SDefault) as [t' a]. simpl.
    destruct Q as (Q1 & Q2 & Q3). split; [exact Q1|split; [exact Q2|lia]]. }
  destruct (ch =? 124)%N.
  { pose proof (take_cmd_inv t (SReadCommand 0) TI RD eq_refl) as Q. destruct (take_cmd t (SReadCommand 0)) as [t' a]. simpl.
    destruct Q as (Q1 & Q2 & Q3). split; [exact Q1|split; [exact Q2|lia]]. }
  rewrite EC. pose proof (cmd_parse_step_inv c (t_pstate t) ch CI) as S.
  destruct (cmd_parse_step c (t_pstate t) ch) as [c'|c'| |s]; simpl in S.
  - destruct S as (E1 & CI' & BA').
    replace (in_i32 (t_pstate t + 1)) with true by (symmetry; apply in_i32_iff; unfold I32_MIN, I32_MAX in *; lia).
    simpl. split; [|split; [reflexivity|lia]]. split; [simpl; lia|]. simpl. intros _. exists c'. auto.
  - destruct S as (E1 & CI'). simpl. split; [|split; [eauto|lia]]. split; [exact P|]. simpl. discriminate.
  - simpl. split; [apply TokInv_idle; auto|split; [exact I|lia]].
  - contradiction.
Qed.

Definition StepPostT (t : tok) (r : step_result) : Prop :=
  match r with
  | SPanic _ => False
  | SOk t' a _ => TokInv t' /\ ActOk a /\ t_pstate t' <= t_pstate t + 1
  end.

Lemma dispatch_inv t tab ch r : 0 <= t_pstate t -> dispatch t tab ch = Some r -> StepPostT t r.
Proof.
  intros P. unfold dispatch. destruct (lookup ch tab) as [[c b]|]; [|discriminate].
  destruct b; intros H; inversion H; subst; simpl.
  - split; [|split; [exact I|lia]]. split; [simpl; lia|]. simpl. intros _. exists (new_cmd c).
    destruct (new_cmd_inv c). auto.
  - split; [apply TokInv_idle; auto|split; [|lia]]. exists 0. apply new_cmd_inv.
Qed.

Lemma idle_post t s a b : 0 <= t_pstate t -> reading s = false -> ActOk a -> StepPostT t (SOk (set_state t s) a b).
Proof. intros. simpl. split; [apply TokInv_idle; auto|split; [assumption|lia]]. Qed.

Lemma tok_step_inv fb t ch : TokInv t -> t_pstate t < I32_MAX -> StepPostT t (tok_step fb t ch).
Proof.
  intros TI PM. pose proof TI as [P R]. unfold tok_step.
  destruct (t_state t) eqn:ST.
  - (* Default *)
    destruct fb as [|first|].
    + destruct (negb (t_enable t)); [simpl; split; [exact TI|split; [exact I|lia]]|].
      destruct (ch =? 33)%N; [apply idle_post; auto; exact I|]. simpl. split; [exact TI|split; [exact I|lia]].
    + assert (Q : forall e, TokInv {| t_state := SDefault; t_pstate := t_pstate t; t_cmd := t_cmd t; t_enable := e |}).
      { intros e. split; [exact P|]. simpl. discriminate. }
      destruct (ch =? 33)%N; [|simpl; split; [exact TI|split; [exact I|lia]]].
      destruct first as [n|]; [|simpl; split; [exact TI|split; [exact I|lia]]].
      destruct (n =? 0); [simpl; split; [exact TI|split; [exact I|lia]]|].
      destruct (n =? 1); [simpl; split; [apply Q|split; [exact I|lia]]|].
      destruct (n =? 2); [simpl; split; [apply Q|split; [exact I|lia]]|].
      simpl; split; [exact TI|split; [exact I|lia]].
    + simpl. split; [exact TI|split; [exact I|lia]].
  - (* GotRipStart *)
    destruct (ch =? 33)%N; [simpl; split; [exact TI|split; [exact I|lia]]|].
    destruct ((ch =? 10)%N || (ch =? 13)%N); [simpl; split; [exact TI|split; [exact I|lia]]|].
    destruct (negb (ch =? 124)%N); apply idle_post; auto; exact I.
  - (* ReadCommand *)
    destruct (ch =? 33)%N; [apply idle_post; auto; exact I|].
    destruct (level =? 1).
    { destruct (dispatch t rip_level1 ch) eqn:D; [eapply dispatch_inv; eauto|apply idle_post; auto; exact I]. }
    destruct (level =? 9).
    { destruct (dispatch t rip_level9 ch) eqn:D; [eapply dispatch_inv; eauto|apply idle_post; auto; exact I]. }
    destruct (dispatch t rip_level0 ch) eqn:D; [eapply dispatch_inv; eauto|].
    destruct (ch =? 49)%N; [apply idle_post; auto; exact I|].
    destruct (ch =? 57)%N; [apply idle_post; auto; exact I|].
    destruct (ch =? 35)%N; apply idle_post; auto; exact I.
  - (* ReadParams *)
    assert (RD : reading (t_state t) = true) by (rewrite ST; reflexivity).
    pose proof (parse_parameter_inv t ch TI RD PM) as Q.
    destruct (parse_parameter t ch); simpl in *; [exact Q| |contradiction].
    destruct Q as (Q1 & Q2 & Q3). split; [exact Q1|split; [exact I|lia]].
  - (* SkipEOL *)
    assert (RD : reading (t_state t) = true) by (rewrite ST; reflexivity).
    destruct (ch =? 13)%N; [simpl; split; [exact TI|split; [exact I|lia]]|].
    destruct (ch =? 10)%N.
    { simpl. split; [|split; [exact I|lia]]. split; [exact P|]. simpl. intros _. apply R. reflexivity. }
    pose proof (parse_parameter_inv t ch TI RD PM) as Q.
    destruct (parse_parameter t ch) as [t' a|t'|]; simpl in *; [exact Q| |contradiction].
    destruct Q as ([Q0 Q1] & Q2 & Q3). split; [|split; [exact I|lia]].
    split; [exact Q0|]. simpl. intros _. apply Q1. rewrite Q2. exact RD.
  - (* EndRip *)
    destruct (ch =? 13)%N; [simpl; split; [exact TI|split; [exact I|lia]]|].
    destruct (ch =? 10)%N; [apply idle_post; auto; exact I|].
    destruct (ch =? 124)%N; apply idle_post; auto; exact I.
Qed.

(* ---------- resynchronisation: two line feeds always end the command under construction ---------- *)
Definition quiescent (s : tstate) : bool := match s with SDefault | SGotRipStart => true | _ => false end.

Definition state_after (r : step_result) : option tok := match r with SOk t _ _ => Some t | SPanic _ => None end.

Lemma lf_not_command : lookup 10%N rip_level0 = None /\ lookup 10%N rip_level1 = None /\ lookup 10%N rip_level9 = None.
Proof. vm_compute. auto. Qed.

Lemma lf_default fb u : t_state u = SDefault -> exists a b u', tok_step fb u 10%N = SOk u' a b /\ t_state u' = SDefault.
Proof.
  intros E. unfold tok_step. rewrite E. destruct fb as [|f|]; simpl.
  - destruct (negb (t_enable u)); eauto.
  - eauto.
  - eauto.
Qed.

Definition after_lf (u : tok) : Prop :=
  t_state u = SDefault \/ t_state u = SGotRipStart \/ (t_state u = SReadParams /\ exists c, t_cmd u = Some c).

Lemma lf_first fb t : TokInv t -> exists u a b, tok_step fb t 10%N = SOk u a b /\ after_lf u.
Proof.
  intros [P R]. destruct lf_not_command as (L0 & L1 & L9).
  destruct (t_state t) eqn:ST.
  - destruct (lf_default fb t ST) as (a & b & u & S & E). exists u, a, b. split; [exact S|left; exact E].
  - exists t, ANone, false. split; [unfold tok_step; rewrite ST; reflexivity|right; left; exact ST].
  - assert (S : exists a, tok_step fb t 10%N = SOk (set_state t SDefault) a false).
    { unfold tok_step, dispatch. rewrite ST, L0, L1, L9. simpl.
      destruct (level =? 1); [eauto|]. destruct (level =? 9); eauto. }
    destruct S as [a S]. exists (set_state t SDefault), a, false. split; [exact S|left; reflexivity].
  - destruct (R eq_refl) as (c & EC & _).
    exists {| t_state := SDefault; t_pstate := t_pstate t; t_cmd := None; t_enable := t_enable t |}, (ARun c), false.
    split; [|left; reflexivity]. unfold tok_step, parse_parameter, take_cmd. rewrite ST. simpl. rewrite EC. reflexivity.
  - destruct (R eq_refl) as (c & EC & _).
    exists (set_state t SReadParams), ANone, false. split; [unfold tok_step; rewrite ST; reflexivity|].
    right; right. split; [reflexivity|]. exists c. exact EC.
  - exists (set_state t SDefault), ANone, false. split; [unfold tok_step; rewrite ST; reflexivity|left; reflexivity].
Qed.

Lemma lf_second fb u : after_lf u -> exists u' a b, tok_step fb u 10%N = SOk u' a b /\ quiescent (t_state u') = true.
Proof.
  intros [E|[E|[E [c EC]]]].
  - destruct (lf_default fb u E) as (a & b & u' & S & E'). exists u', a, b. rewrite E'. auto.
  - exists u, ANone, false. split; [unfold tok_step; rewrite E; reflexivity|rewrite E; reflexivity].
  - exists {| t_state := SDefault; t_pstate := t_pstate u; t_cmd := None; t_enable := t_enable u |}, (ARun c), false.
    split; [|reflexivity]. unfold tok_step, parse_parameter, take_cmd. rewrite E. simpl. rewrite EC. reflexivity.
Qed.

Lemma tok_resync_lemma fb1 fb2 t : TokInv t ->
  exists t1 a1 b1 t2 a2 b2, tok_step fb1 t 10%N = SOk t1 a1 b1 /\ tok_step fb2 t1 10%N = SOk t2 a2 b2 /\ quiescent (t_state t2) = true.
Proof.
  intros TI. destruct (lf_first fb1 t TI) as (u & a & b & S1 & A).
  destruct (lf_second fb2 u A) as (u' & a' & b' & S2 & Q).
  exists u, a, b, u', a', b'. auto.
Qed.
