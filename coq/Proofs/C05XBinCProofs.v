(* C05 x C06: XBin WHOLE files with compressed data.
   1. the two models of the attribute codec / cell codec of xbinary.rs agree (C05's on Attr.TextAttribute, C06's on its own
      record) - for every cell, every mode, every font list;
   2. C02's compressed reader on C05's layer type (Model/C02Loaders.v xbc_loop) performs exactly the `set_char` calls of C06's
      trace model (Model/XBin.v rdc), and C05's uncompressed pair_loop those of C06's rdu;
   3. hence (C06's impl_decoder_agrees) the compressed data section is read into the SAME layer as the uncompressed one;
   4. the full-file loader with FLAG_COMPRESS calls the compressed reader on exactly the data section (xb_load2), the
      writer with SaveOptions.compress puts the compressor's bytes exactly there (xb_saveo);
   5. compressed and uncompressed FILES load to the same buffer; round trips of compressed files, both font layouts. *)
From Coq Require Import NArith ZArith Bool List Lia PeanoNat.
From IE Require Import Lib.Tbl Lib.Bits Lib.C18Lib Lib.C05Lib Gen.Codepage Gen.Formats Model.Attr Model.C05Buf Model.C05Bin
  Model.C05XBin Model.C05Spec Model.C02Loaders Model.C05XBinC
  Proofs.AttrProofs Proofs.C05BufProofs Proofs.C05BinProofs Proofs.C05AdfProofs Proofs.C05XBinProofs Proofs.C02BridgeProofs.
From IE Require Gen.XBinConst Model.XBin Proofs.XBinProofs.
Import ListNotations.
Local Open Scope Z_scope.

(* ------------------------------------------------------------------ 1. the two codec models agree *)
Lemma as_u8_6 a m : XBin.as_u8 (attr6 a) (ice6 m) = as_u8 a m.
Proof.
  unfold XBin.as_u8, as_u8, as_u8_core, XBin.is_bold, XBin.is_blinking, is_bold, is_blinking, has_flag, attr6.
  cbn [XBin.fg XBin.bg XBin.aflags]. destruct m; reflexivity.
Qed.

Lemma encode_attr_6 m fonts c : XBin.encode_attr fonts (ice6 m) (cell6 c) = encode_attr m fonts c.
Proof.
  unfold XBin.encode_attr, encode_attr, cell6. cbn [XBin.attr XBin.fpage attr6].
  rewrite as_u8_6.
  destruct fonts as [|a [|b [|c' t]]]; try reflexivity.
  cbn [length]. destruct (N.eqb_spec (N.of_nat (S (S (S (length t))))) XBinConst.ENC_FONTS_LEN) as [E|_]; [|reflexivity].
  exfalso. unfold XBinConst.ENC_FONTS_LEN in E. lia.
Qed.

Lemma from_u8_6 a m : attr5 (XBin.from_u8 a (ice6 m)) = from_u8 a m.
Proof.
  unfold XBin.from_u8, from_u8, attr5, set_is_blinking, with_attr, set_flag.
  cbn [XBin.fg XBin.bg XBin.aflags XBin.fpage font_page foreground_color background_color attr].
  destruct m; cbn [ice6]; try reflexivity; destruct (negb (N.land a 128 =? 0)%N); reflexivity.
Qed.

Lemma decode_6 m fixed code a : cell5 (XBin.decode_char (ice6 m) fixed code a) = xb_decode m fixed code a.
Proof.
  unfold XBin.decode_char, xb_decode. rewrite <- from_u8_6.
  set (t := XBin.from_u8 a (ice6 m)).
  change (foreground_color (attr5 t)) with (XBin.fg t).
  change XBinConst.DEC_FG_LIMIT with 7%N.
  destruct ((7 <? XBin.fg t)%N && fixed); reflexivity.
Qed.

(* ------------------------------------------------------------------ 2. traces of set_char calls, applied to a layer *)
Definition wput (L : layer) (w : XBin.wr) : layer := put false L (XBin.wx w) (XBin.wy w) (cell5 (XBin.wcell w)).
Definition apply_trace (L : layer) (tr : list XBin.wr) : layer := fold_left wput tr L.

Lemma apply_trace_app L a b : apply_trace L (a ++ b) = apply_trace (apply_trace L a) b.
Proof. apply fold_left_app. Qed.

Section Bridge.
  Variable m : IceMode.
  Variable fixed : bool.
  Variable w : Z.
  Let il := ice6 m.
  Let dec := xb_decode m fixed.

  Lemma wput_put L p code a : wput L (XBin.put il fixed p code a) = put false L (fst p) (snd p) (dec code a).
  Proof. unfold wput, XBin.put. cbn [XBin.wx XBin.wy XBin.wcell]. unfold il, dec. rewrite decode_6. reflexivity. Qed.

  Lemma advance_6 x y : XBin.advance w (x, y) = xb_adv w x y.
  Proof. reflexivity. Qed.

  Lemma off_bridge : forall n L x y bs ws p' r,
    XBin.rd_off il fixed w n (x, y) bs = (ws, p', r) ->
    xbc_off w dec n L x y bs = (apply_trace L ws, fst p', snd p', r).
  Proof.
    induction n as [|n IH]; intros L x y bs ws p' r H.
    - cbn in H. injection H as <- <- <-. reflexivity.
    - destruct bs as [|c [|a t]]; try (cbn in H; injection H as <- <- <-; reflexivity).
      cbn [XBin.rd_off] in H. rewrite advance_6 in H. cbn [xbc_off].
      destruct (xb_adv w x y) as [x' y'].
      destruct (XBin.rd_off il fixed w n (x', y') t) as [[ws1 p1] r1] eqn:E.
      injection H as <- <- <-.
      rewrite (IH _ _ _ _ _ _ _ E). cbn [apply_trace fold_left]. rewrite wput_put. reflexivity.
  Qed.

  Lemma char_bridge code : forall n L x y bs ws p' r,
    XBin.rd_char il fixed w code n (x, y) bs = (ws, p', r) ->
    xbc_char w dec code n L x y bs = (apply_trace L ws, fst p', snd p', r).
  Proof.
    induction n as [|n IH]; intros L x y bs ws p' r H.
    - cbn in H. injection H as <- <- <-. reflexivity.
    - destruct bs as [|a t]; [cbn in H; injection H as <- <- <-; reflexivity|].
      cbn [XBin.rd_char] in H. rewrite advance_6 in H. cbn [xbc_char].
      destruct (xb_adv w x y) as [x' y'].
      destruct (XBin.rd_char il fixed w code n (x', y') t) as [[ws1 p1] r1] eqn:E.
      injection H as <- <- <-.
      rewrite (IH _ _ _ _ _ _ _ E). cbn [apply_trace fold_left]. rewrite wput_put. reflexivity.
  Qed.

  Lemma attr_bridge a : forall n L x y bs ws p' r,
    XBin.rd_attr il fixed w a n (x, y) bs = (ws, p', r) ->
    xbc_attr w dec a n L x y bs = (apply_trace L ws, fst p', snd p', r).
  Proof.
    induction n as [|n IH]; intros L x y bs ws p' r H.
    - cbn in H. injection H as <- <- <-. reflexivity.
    - destruct bs as [|c t]; [cbn in H; injection H as <- <- <-; reflexivity|].
      cbn [XBin.rd_attr] in H. rewrite advance_6 in H. cbn [xbc_attr].
      destruct (xb_adv w x y) as [x' y'].
      destruct (XBin.rd_attr il fixed w a n (x', y') t) as [[ws1 p1] r1] eqn:E.
      injection H as <- <- <-.
      rewrite (IH _ _ _ _ _ _ _ E). cbn [apply_trace fold_left]. rewrite wput_put. reflexivity.
  Qed.

  Lemma full_bridge code a : forall n L x y ws p',
    XBin.rd_full il fixed w code a n (x, y) = (ws, p') ->
    xbc_full w (dec code a) n L x y = (apply_trace L ws, fst p', snd p').
  Proof.
    induction n as [|n IH]; intros L x y ws p' H.
    - cbn in H. injection H as <- <-. reflexivity.
    - cbn [XBin.rd_full] in H. rewrite advance_6 in H. cbn [xbc_full].
      destruct (xb_adv w x y) as [x' y'].
      destruct (XBin.rd_full il fixed w code a n (x', y')) as [ws1 p1] eqn:E.
      injection H as <- <-.
      rewrite (IH _ _ _ _ _ E). cbn [apply_trace fold_left]. rewrite wput_put. reflexivity.
  Qed.

  (* one unfolding of the two loops, with the generated constants of C06's model replaced by C02's literals *)
  Lemma rdc_step f p h t :
    XBin.rdc il fixed w (S f) p (h :: t) =
    let ty := xb_run_type h in
    let n := xb_run_count h in
    if (ty =? 0)%N then
      let '(ws, p', r) := XBin.rd_off il fixed w n p t in
      let '(ws2, oc) := XBin.rdc il fixed w f p' r in (ws ++ ws2, oc)
    else if (ty =? 64)%N then
      match t with
      | [] => ([], XBin.ROk)
      | code :: t' => let '(ws, p', r) := XBin.rd_char il fixed w code n p t' in
                      let '(ws2, oc) := XBin.rdc il fixed w f p' r in (ws ++ ws2, oc)
      end
    else if (ty =? 128)%N then
      match t with
      | [] => ([], XBin.ROk)
      | a :: t' => let '(ws, p', r) := XBin.rd_attr il fixed w a n p t' in
                   let '(ws2, oc) := XBin.rdc il fixed w f p' r in (ws ++ ws2, oc)
      end
    else if (ty =? 192)%N then
      match t with
      | [] => ([], XBin.ROk)
      | [_] => ([], XBin.ROk)
      | code :: a :: r => let '(ws, p') := XBin.rd_full il fixed w code a n p in
                          let '(ws2, oc) := XBin.rdc il fixed w f p' r in (ws ++ ws2, oc)
      end
    else ([], XBin.RPanicTransmute).
  Proof. reflexivity. Qed.

  Lemma xbc_step f L x y h t :
    xbc_loop w dec (S f) L x y (h :: t) =
    let ty := xb_run_type h in
    let n := xb_run_count h in
    if (ty =? 0)%N then
      let '(L', x', y', r) := xbc_off w dec n L x y t in xbc_loop w dec f L' x' y' r
    else if (ty =? 64)%N then
      if (length t <? 1)%nat then Ok L else
      let* '(code, t') := rd t in
      let '(L', x', y', r) := xbc_char w dec code n L x y t' in xbc_loop w dec f L' x' y' r
    else if (ty =? 128)%N then
      if (length t <? 1)%nat then Ok L else
      let* '(a, t') := rd t in
      let '(L', x', y', r) := xbc_attr w dec a n L x y t' in xbc_loop w dec f L' x' y' r
    else
      if (length t <? 1)%nat then Ok L else
      let* '(code, t') := rd t in
      if (length t' <? 1)%nat then Ok L else
      let* '(a, r) := rd t' in
      let '(L', x', y') := xbc_full w (dec code a) n L x y in xbc_loop w dec f L' x' y' r.
  Proof. reflexivity. Qed.

  (* whenever C06's trace model of read_data_compressed ends with Ok, C02's layer model of the same function returns the
     layer obtained by performing the traced set_char calls *)
  Lemma loop_bridge : forall fuel bs L x y tr,
    XBin.rdc il fixed w fuel (x, y) bs = (tr, XBin.ROk) ->
    xbc_loop w dec fuel L x y bs = Ok (apply_trace L tr).
  Proof.
    induction fuel as [|f IH]; intros bs L x y tr H.
    - destruct bs; cbn in H; [injection H as <-; reflexivity|discriminate].
    - destruct bs as [|h t]; [cbn in H; injection H as <-; reflexivity|].
      rewrite rdc_step in H. rewrite xbc_step. cbv zeta in *.
      destruct (xb_run_type h =? 0)%N.
      { destruct (XBin.rd_off il fixed w (xb_run_count h) (x, y) t) as [[ws [x' y']] r] eqn:E.
        destruct (XBin.rdc il fixed w f (x', y') r) as [ws2 oc] eqn:E2. injection H as <- ->.
        rewrite (off_bridge _ L _ _ _ _ _ _ E). cbn [fst snd].
        rewrite (IH _ _ _ _ _ E2). rewrite apply_trace_app. reflexivity. }
      destruct (xb_run_type h =? 64)%N.
      { destruct t as [|code t']; [injection H as <-; reflexivity|].
        cbn [length Nat.ltb Nat.leb rd bind].
        destruct (XBin.rd_char il fixed w code (xb_run_count h) (x, y) t') as [[ws [x' y']] r] eqn:E.
        destruct (XBin.rdc il fixed w f (x', y') r) as [ws2 oc] eqn:E2. injection H as <- ->.
        rewrite (char_bridge _ _ L _ _ _ _ _ _ E). cbn [fst snd].
        rewrite (IH _ _ _ _ _ E2). rewrite apply_trace_app. reflexivity. }
      destruct (xb_run_type h =? 128)%N.
      { destruct t as [|a t']; [injection H as <-; reflexivity|].
        cbn [length Nat.ltb Nat.leb rd bind].
        destruct (XBin.rd_attr il fixed w a (xb_run_count h) (x, y) t') as [[ws [x' y']] r] eqn:E.
        destruct (XBin.rdc il fixed w f (x', y') r) as [ws2 oc] eqn:E2. injection H as <- ->.
        rewrite (attr_bridge _ _ L _ _ _ _ _ _ E). cbn [fst snd].
        rewrite (IH _ _ _ _ _ E2). rewrite apply_trace_app. reflexivity. }
      destruct (xb_run_type h =? 192)%N; [|discriminate].
      destruct t as [|code [|a r]]; try (injection H as <-; reflexivity).
      cbn [length Nat.ltb Nat.leb rd bind].
      destruct (XBin.rd_full il fixed w code a (xb_run_count h) (x, y)) as [ws [x' y']] eqn:E.
      destruct (XBin.rdc il fixed w f (x', y') r) as [ws2 oc] eqn:E2. injection H as <- ->.
      rewrite (full_bridge _ _ _ L _ _ _ _ E). cbn [fst snd].
      rewrite (IH _ _ _ _ _ E2). rewrite apply_trace_app. reflexivity.
  Qed.

  (* C05's loop of read_data_uncompressed performs the set_char calls of C06's trace model of the same function *)
  Lemma rdu_bridge : forall n bs, (length bs <= n)%nat -> forall L x y,
    pair_loop false dec w L x y bs = apply_trace L (XBin.rdu il fixed w (x, y) bs).
  Proof.
    induction n as [|n IH]; intros bs Hn L x y.
    - destruct bs; [reflexivity|cbn in Hn; lia].
    - destruct bs as [|c [|a r]]; try reflexivity.
      cbn [length] in Hn. cbn [pair_loop XBin.rdu apply_trace fold_left]. rewrite wput_put. cbn [fst snd].
      rewrite advance_6. unfold xb_adv.
      destruct (x + 1 >=? w); apply IH; lia.
  Qed.
End Bridge.

(* the uncompressed writer: C06's plain_rows on the converted rows is C05's save_rows_chk *)
Lemma plain_cells_6 m fonts : forall cells,
  XBin.plain_cells fonts (ice6 m) (map cell6 cells) =
  match enc_cells_chk (fun c => [c_ch c; encode_attr m fonts c]) 11 cells with
  | Ok b => XBin.Ok b
  | _ => XBin.ErrOnly8Bit
  end.
Proof.
  induction cells as [|c t IH]; [reflexivity|].
  cbn [map XBin.plain_cells enc_cells_chk]. change (XBin.ch (cell6 c)) with (c_ch c).
  destruct (255 <? c_ch c)%N; [reflexivity|].
  rewrite IH, encode_attr_6.
  destruct (enc_cells_chk _ 11 t); reflexivity.
Qed.

Lemma plain_rows_6 m fonts rows :
  XBin.plain_rows fonts (ice6 m) (map (map cell6) rows) =
  match save_rows_chk (fun c => [c_ch c; encode_attr m fonts c]) 11 rows with
  | Ok b => XBin.Ok b
  | _ => XBin.ErrOnly8Bit
  end.
Proof.
  unfold XBin.plain_rows, save_rows_chk. rewrite <- concat_map. apply plain_cells_6.
Qed.

(* ------------------------------------------------------------------ 3. the data sections load alike *)
(* the two writers refuse the same pictures ... *)
Lemma xb_data_section_ok_iff m fonts rows :
  (exists cb, xb_data_section true m fonts rows = Ok cb) <-> (exists pb, xb_data_section false m fonts rows = Ok pb).
Proof.
  unfold xb_data_section.
  pose proof (XBinProofs.compress_fails_iff_plain_fails_proof XBin.bt_oracle fonts (ice6 m) (map (map cell6) rows)) as Hiff.
  fold (XBin.compress_backtrack fonts (ice6 m) (map (map cell6) rows)) in Hiff.
  rewrite plain_rows_6 in Hiff.
  destruct (XBin.compress_backtrack fonts (ice6 m) (map (map cell6) rows)) as [cb|];
    destruct (save_rows_chk _ 11 rows) as [pb|e|s]; split; intros [x Hx]; try discriminate; try (eexists; reflexivity).
  - destruct Hiff as [_ Hiff]. discriminate (Hiff eq_refl).
  - destruct Hiff as [_ Hiff]. discriminate (Hiff eq_refl).
  - destruct Hiff as [Hiff _]. discriminate (Hiff eq_refl).
Qed.

(* ... and what the loader's compressed reader makes of the compressor's bytes is, as a LAYER, what its uncompressed
   reader makes of the uncompressed bytes - for every reader width, mode, font mode and every starting layer *)
Theorem xb_sections_load_alike : forall m fonts rows wd cb pb lm fixed w L,
  Forall (fun r => length r = wd) rows ->
  xb_data_section true m fonts rows = Ok cb ->
  xb_data_section false m fonts rows = Ok pb ->
  xb_read_compressed w lm fixed L cb = Ok (xb_read_uncompressed w lm fixed L 0 0 pb).
Proof.
  intros m fonts rows wd cb pb lm fixed w L Hw Hc Hp. unfold xb_data_section in Hc, Hp.
  destruct (XBin.compress_backtrack fonts (ice6 m) (map (map cell6) rows)) as [cb'|] eqn:Ec; [|discriminate].
  injection Hc as ->.
  assert (Hp6 : XBin.plain_rows fonts (ice6 m) (map (map cell6) rows) = XBin.Ok pb) by (rewrite plain_rows_6, Hp; reflexivity).
  assert (Hw6 : Forall (fun r => length r = wd) (map (map cell6) rows)).
  { apply Forall_forall. intros r' Hr'. apply in_map_iff in Hr'. destruct Hr' as (r & <- & Hr).
    rewrite map_length. rewrite Forall_forall in Hw. apply Hw, Hr. }
  pose proof (XBinProofs.impl_decoder_agrees_with_proof (ice6 lm) fixed w XBin.bt_oracle fonts (ice6 m) wd _ cb pb Hw6 Ec Hp6) as Hag.
  unfold xb_read_compressed, xb_read_uncompressed.
  unfold XBin.read_data_compressed in Hag.
  rewrite (loop_bridge lm fixed w _ _ L 0 0 _ Hag).
  unfold XBin.read_data_uncompressed. rewrite <- (rdu_bridge lm fixed w (length pb) pb (le_n _)). reflexivity.
Qed.

(* ------------------------------------------------------------------ 4. the file around the data section *)
Definition xb_flagsc (font pal comp ice two : bool) : N :=
  ((if font then XBIN_FLAG_FONT else 0) + (if pal then XBIN_FLAG_PALETTE else 0) + (if comp then XBIN_FLAG_COMPRESS else 0)
   + (if ice then XBIN_FLAG_NON_BLINK_MODE else 0) + (if two then XBIN_FLAG_512CHAR_MODE else 0))%N.

(* the five generated flag bits are decoded independently: 32 combinations *)
Lemma xb_flagsc_decode font pal comp ice two :
  has_flag8 (xb_flagsc font pal comp ice two) XBIN_FLAG_FONT = font /\
  has_flag8 (xb_flagsc font pal comp ice two) XBIN_FLAG_PALETTE = pal /\
  has_flag8 (xb_flagsc font pal comp ice two) XBIN_FLAG_NON_BLINK_MODE = ice /\
  has_flag8 (xb_flagsc font pal comp ice two) XBIN_FLAG_512CHAR_MODE = two /\
  has_flag8 (xb_flagsc font pal comp ice two) XBIN_FLAG_COMPRESS = comp.
Proof. destruct font, pal, comp, ice, two; vm_compute; repeat split. Qed.

Lemma xb_flagsc_false font pal ice two : xb_flagsc font pal false ice two = xb_flags font pal ice two.
Proof. destruct font, pal, ice, two; reflexivity. Qed.

(* a whole XBin file: C05's header, palette and font blocks, flags with the compress bit, any data section *)
Definition xb_file (p : pic) (two : bool) (f0 f1 : font) (fh : N) (comp : bool) (D : list N) : list N :=
  XBIN_ID ++ [26%N; lo8 (p_w p); hi8 (p_w p); lo8 (p_h p); hi8 (p_h p)]
  ++ [fh; xb_flagsc (xb_fontb f0 two) (xb_palb p) comp (is_ice (p_ice p)) two]
  ++ xb_pal_part p ++ xb_font_part two f0 f1 ++ D.

Lemma xb_file_plain p two f0 f1 fh : xb_file p two f0 f1 fh false (save_rows (xb_enc p two) (p_rows p)) = xb_data p two f0 f1 fh.
Proof. unfold xb_file, xb_data, xb_flagsv. rewrite xb_flagsc_false. reflexivity. Qed.

(* the font pages a writer finds in the picture: one page (any number) or two (any two numbers, ascending) *)
Definition xb_pages (two : bool) (pg0 pg1 : N) : list N := if two then [pg0; pg1] else [pg0].

(* what the blocks in front of the data section need: size, palette, one or two 256-glyph fonts of one height 1..32 *)
Definition xb_blocks (p : pic) (two : bool) (f0 f1 : font) (fh : N) : Prop :=
  xb_common p /\ font_wf fh f0 /\ (1 <= fh <= 32)%N /\ (two = true -> font_wf fh f1).

(* what the writer needs of a picture, whatever its cells are: the pages in use are pg0 (and pg1) and their fonts are f0 (f1) *)
Definition xb_shape_g (p : pic) (two : bool) (pg0 pg1 : N) (f0 f1 : font) (fh : N) : Prop :=
  xb_blocks p two f0 f1 fh /\ used_pages (p_rows p) = xb_pages two pg0 pg1 /\
  get_font (p_fonts p) pg0 = Some f0 /\ (two = true -> get_font (p_fonts p) pg1 = Some f1).
Definition xb_shape (p : pic) (two : bool) (f0 f1 : font) (fh : N) : Prop := xb_shape_g p two 0 1 f0 f1 fh.

Lemma xb_hyps_shape p two f0 f1 fh : xb_hyps p two f0 f1 fh -> xb_shape p two f0 f1 fh.
Proof.
  intros (H1 & H2 & H3 & H4 & H5 & H6 & _). unfold xb_shape, xb_shape_g, xb_blocks.
  split; [split; [exact H1|split; [exact H4|split; [exact H5|intro E; apply (H6 E)]]]|].
  split; [destruct two; exact H2|]. split; [exact H3|intro E; apply (H6 E)].
Qed.

(* the writer: everything in front of the data section does not depend on SaveOptions.compress except the flag bit, and
   the data section is the last thing in the file *)
Lemma xb_saveo p two pg0 pg1 f0 f1 fh comp : xb_shape_g p two pg0 pg1 f0 f1 fh ->
  save_xbo comp p = let* D := xb_data_section comp (p_ice p) (xb_pages two pg0 pg1) (p_rows p) in Ok (xb_file p two f0 f1 fh comp D).
Proof.
  intros ((Hcommon & Hwf0 & Hfh & Hwf1) & Hfonts & Hf0 & Hf1).
  destruct Hcommon as (Hrect & Hw & Hh & Hpl & Hp6).
  pose proof Hwf0 as (Hfh0 & Hfl0 & Hg0 & Hall0).
  assert (Hc0 : length (convert_to_u8_data f0) = (256 * N.to_nat fh)%nat) by (apply convert_wf_length; exact Hwf0).
  assert (Hpp : (if xb_palb p then
                   (if negb (length (as_vec_63 (fill_to_16 (p_pal p))) =? N.to_nat XBIN_PALETTE_LENGTH)%nat then Err 5
                    else Ok (as_vec_63 (fill_to_16 (p_pal p))))
                 else Ok []) = Ok (xb_pal_part p)).
  { unfold xb_pal_part. destruct (xb_palb p); [|reflexivity]. rewrite fill_to_16_full by exact Hpl.
    rewrite as_vec_63_length, Hpl. reflexivity. }
  unfold save_xbo. rewrite Hfonts.
  destruct two; unfold xb_pages; rewrite Hf0, Hfl0; cbn [N.eqb Pos.eqb negb length Nat.ltb Nat.leb Nat.eqb];
    rewrite Hfh0; (destruct (N.ltb_spec fh 1); [lia|]); (destruct (N.ltb_spec 32 fh); [lia|]); cbn [orb].
  - (* two fonts *)
    change ((if negb (f_default f0) || true then XBIN_FLAG_FONT else 0) + (if negb (pal_is_default (p_pal p)) then XBIN_FLAG_PALETTE else 0)
            + (if comp then XBIN_FLAG_COMPRESS else 0)
            + (if is_ice (p_ice p) then XBIN_FLAG_NON_BLINK_MODE else 0) + XBIN_FLAG_512CHAR_MODE)%N
      with (xb_flagsc (xb_fontb f0 true) (xb_palb p) comp (is_ice (p_ice p)) true).
    destruct (xb_flagsc_decode (xb_fontb f0 true) (xb_palb p) comp (is_ice (p_ice p)) true) as (Hd1 & Hd2 & _ & _ & _).
    rewrite Hd1, Hd2. fold (xb_palb p). rewrite Hpp. cbn [bind].
    unfold xb_fontb. rewrite orb_true_r. rewrite Hc0, Nat.eqb_refl. cbn [negb].
    rewrite (Hf1 eq_refl). specialize (Hwf1 eq_refl).
    pose proof (convert_wf_length fh f1 Hwf1) as Hc1. destruct Hwf1 as (_ & Hfl1 & _ & _).
    rewrite Hfl1. cbn [N.eqb Pos.eqb negb]. rewrite Hc1, Nat.eqb_refl. cbn [negb bind].
    destruct (xb_data_section comp (p_ice p) [pg0; pg1] (p_rows p)) as [D|e|s]; cbn [bind]; try reflexivity;
      unfold xb_file, xb_font_part, xb_fontb; rewrite orb_true_r; rewrite <- !app_assoc; reflexivity.
  - (* one font *)
    change ((if negb (f_default f0) || false then XBIN_FLAG_FONT else 0) + (if negb (pal_is_default (p_pal p)) then XBIN_FLAG_PALETTE else 0)
            + (if comp then XBIN_FLAG_COMPRESS else 0)
            + (if is_ice (p_ice p) then XBIN_FLAG_NON_BLINK_MODE else 0) + 0)%N
      with (xb_flagsc (xb_fontb f0 false) (xb_palb p) comp (is_ice (p_ice p)) false).
    destruct (xb_flagsc_decode (xb_fontb f0 false) (xb_palb p) comp (is_ice (p_ice p)) false) as (Hd1 & Hd2 & _ & _ & _).
    rewrite Hd1, Hd2. fold (xb_palb p). rewrite Hpp. cbn [bind].
    unfold xb_file, xb_font_part.
    destruct (xb_fontb f0 false).
    + rewrite Hc0, Nat.eqb_refl. cbn [negb bind].
      destruct (xb_data_section comp (p_ice p) [pg0] (p_rows p)) as [D|e|s]; cbn [bind]; try reflexivity;
        rewrite <- !app_assoc; reflexivity.
    + cbn [bind]. destruct (xb_data_section comp (p_ice p) [pg0] (p_rows p)) as [D|e|s]; cbn [bind]; try reflexivity;
        rewrite <- !app_assoc; reflexivity.
Qed.

Lemma save_xbo_false p : save_xbo false p = save_xb p.
Proof.
  unfold save_xbo, save_xb, xb_data_section.
  destruct (used_pages (p_rows p)) as [|pg0 pgs]; [reflexivity|].
  destruct (get_font (p_fonts p) pg0) as [font|]; [|reflexivity].
  rewrite !N.add_0_r. reflexivity.
Qed.

(* the loader (as it is after C02's fixes): with FLAG_COMPRESS it calls read_data_compressed, without it
   read_data_uncompressed, on exactly the bytes behind the header, palette and font blocks, with the layer emptied by the fix *)
Lemma xb_load2 p s two f0 f1 fh comp D : xb_blocks p two f0 f1 fh ->
  load_xb2 (xb_file p two f0 f1 fh comp D) s =
  let* L := (if comp then xb_read_compressed (p_w p) (xb_mode (p_ice p)) two (mkLayer (p_w p) (p_h p) []) D
             else Ok (xb_read_uncompressed (p_w p) (xb_mode (p_ice p)) two (mkLayer (p_w p) (p_h p) []) 0 0 D)) in
  Ok (crop_loaded_file (set_layer (xb_b3 p two f0 f1 fh) L)).
Proof.
  intros (Hcommon & Hwf0 & Hfh & Hwf1).
  destruct Hcommon as (Hrect & Hw & Hh & Hpl & Hp6).
  destruct Hrect as (Hw0 & Hh0 & Hlen & Hrows).
  unfold load_xb2.
  assert (Hdl : (length (xb_file p two f0 f1 fh comp D) <? N.to_nat XBIN_HEADER_SIZE)%nat = false).
  { apply Nat.ltb_ge. unfold xb_file. rewrite !app_length. cbn. lia. }
  rewrite Hdl. unfold xb_file. cbn [XBIN_ID app].
  destruct (list_eq_dec N.eq_dec [88; 66; 73; 78]%N XBIN_ID) as [_|Hn]; [|exfalso; apply Hn; reflexivity].
  cbn [negb]. rewrite !lo_hi8 by lia.
  destruct (Z.ltb_spec (p_w p) 1); [lia|]. destruct (Z.ltb_spec 4096 (p_w p)); [lia|]. cbn [orb].
  assert (Hfs : (fh =? 0)%N = false) by (apply N.eqb_neq; lia). rewrite Hfs.
  destruct (N.ltb_spec 32 fh); [lia|].
  destruct (xb_flagsc_decode (xb_fontb f0 two) (xb_palb p) comp (is_ice (p_ice p)) two) as (Hd1 & Hd2 & Hd3 & Hd4 & Hd5).
  rewrite Hd4, Hd3, Hd2, Hd1, Hd5.
  rewrite (xb_header_state s (p_w p) (p_h p) two (is_ice (p_ice p))).
  (* palette *)
  assert (Hpalstep : forall (b : buffer) R, b_pal b = DOS_DEFAULT_PALETTE ->
             (if xb_palb p then
                if (length (xb_pal_part p ++ R) <? N.to_nat XBIN_PALETTE_LENGTH)%nat then Err 5 else
                let* '(pb, rest) := take_slice (N.to_nat XBIN_PALETTE_LENGTH) (xb_pal_part p ++ R) in
                let* pal := from_63 pb in Ok (set_pal b pal, rest)
              else Ok (b, xb_pal_part p ++ R)) = Ok (set_pal b (p_pal p), R)).
  { intros b R Hb. unfold xb_pal_part. destruct (xb_palb p) eqn:Ep.
    - assert (Hl : length (as_vec_63 (p_pal p)) = N.to_nat XBIN_PALETTE_LENGTH) by (rewrite as_vec_63_length, Hpl; reflexivity).
      rewrite app_length, Hl. destruct (Nat.ltb_spec (N.to_nat XBIN_PALETTE_LENGTH + length R) (N.to_nat XBIN_PALETTE_LENGTH)); [lia|].
      rewrite take_slice_app by exact Hl. cbn [bind].
      rewrite from_63_as_vec_63 by exact Hp6. reflexivity.
    - cbn [app]. unfold xb_palb in Ep. apply negb_false_iff in Ep. apply pal_eqb_eq in Ep.
      rewrite Ep. destruct b; cbn in Hb; subst; reflexivity. }
  rewrite Hpalstep by reflexivity. cbn [bind].
  (* fonts *)
  assert (Hc0 : length (convert_to_u8_data f0) = (N.to_nat fh * 256)%nat) by (rewrite (convert_wf_length fh f0 Hwf0); lia).
  assert (Hfontstep : forall (b : buffer) R, b_fonts b = [(0%N, default_font)] ->
             (if xb_fontb f0 two then
                if (length (xb_font_part two f0 f1 ++ R) <? N.to_nat fh * 256 * (if two then 2 else 1))%nat then Err 5 else
                let* '(fb, rest) := take_slice (N.to_nat fh * 256) (xb_font_part two f0 f1 ++ R) in
                let* g0 := font_create_8 fh fb in
                if two then
                  let* '(fb1, rest0) := take_slice (N.to_nat fh * 256) rest in
                  let* g1 := font_create_8 fh fb1 in
                  Ok (set_fonts b [(0%N, font_named_default g0); (1%N, font_named_default g1)], rest0)
                else Ok (set_fonts b [(0%N, font_named_default g0)], rest)
              else Ok (b, xb_font_part two f0 f1 ++ R)) = Ok (set_fonts b (xb_loaded_fonts two f0 f1 fh), R)).
  { intros b R Hb. unfold xb_font_part, xb_loaded_fonts. destruct (xb_fontb f0 two).
    - destruct two.
      + specialize (Hwf1 eq_refl).
        assert (Hc1 : length (convert_to_u8_data f1) = (N.to_nat fh * 256)%nat) by (rewrite (convert_wf_length fh f1 Hwf1); lia).
        rewrite !app_length, Hc0, Hc1.
        destruct (Nat.ltb_spec (N.to_nat fh * 256 + N.to_nat fh * 256 + length R) (N.to_nat fh * 256 * 2)); [lia|].
        rewrite <- app_assoc. rewrite take_slice_app by exact Hc0. cbn [bind].
        rewrite (font_create_8_convert fh f0) by (try exact Hwf0; lia). cbn [bind].
        rewrite take_slice_app by exact Hc1. cbn [bind].
        rewrite (font_create_8_convert fh f1) by (try exact Hwf1; lia). cbn [bind]. reflexivity.
      + rewrite app_length, Hc0.
        destruct (Nat.ltb_spec (N.to_nat fh * 256 + length R) (N.to_nat fh * 256 * 1)); [lia|].
        rewrite take_slice_app by exact Hc0. cbn [bind].
        rewrite (font_create_8_convert fh f0) by (try exact Hwf0; lia). cbn [bind]. reflexivity.
    - cbn [app]. destruct b; cbn in Hb; subst; reflexivity. }
  rewrite Hfontstep by reflexivity. cbn [bind]. fold (xb_b3 p two f0 f1 fh).
  change (b_w (xb_b3 p two f0 f1 fh)) with (p_w p).
  change (b_ice (xb_b3 p two f0 f1 fh)) with (xb_mode (p_ice p)).
  change (b_layer (xb_b3 p two f0 f1 fh)) with (mkLayer (p_w p) (p_h p) []).
  destruct comp; reflexivity.
Qed.

(* ------------------------------------------------------------------ 5. files *)
Lemma rect_same_width p : rect p -> Forall (fun r => length r = Z.to_nat (p_w p)) (p_rows p).
Proof. intros (_ & _ & _ & H). exact H. Qed.

(* compressed and uncompressed FILES of the same picture load to the SAME buffer (sizes, modes, palette, font table, every
   stored cell with its font page, line count), for every picture whose size, palette and fonts the format admits -
   whatever its cells and its font page numbers are - and whatever SAUCE records accompany the two files *)
Lemma xb_files_load_alike p two pg0 pg1 f0 f1 fh s s' dc : xb_shape_g p two pg0 pg1 f0 f1 fh ->
  save_xbo true p = Ok dc ->
  exists du, save_xbo false p = Ok du /\ load_xb2 dc s = load_xb2 du s'.
Proof.
  intros Hs Hc. pose proof Hs as (Hb & _). pose proof Hb as (Hcommon & _). destruct Hcommon as (Hrect & _).
  rewrite (xb_saveo p two pg0 pg1 f0 f1 fh true Hs) in Hc.
  destruct (xb_data_section true (p_ice p) (xb_pages two pg0 pg1) (p_rows p)) as [cb|e|s0] eqn:Ec; cbn [bind] in Hc; try discriminate.
  injection Hc as <-.
  destruct (proj1 (xb_data_section_ok_iff (p_ice p) (xb_pages two pg0 pg1) (p_rows p)) (ex_intro _ cb Ec)) as (pb & Ep).
  exists (xb_file p two f0 f1 fh false pb). split.
  - rewrite (xb_saveo p two pg0 pg1 f0 f1 fh false Hs), Ep. reflexivity.
  - rewrite !(xb_load2 _ _ _ _ _ _ _ _ Hb).
    rewrite (xb_sections_load_alike _ _ _ _ cb pb _ _ _ _ (rect_same_width p Hrect) Ec Ep). reflexivity.
Qed.

(* conversely the compressed file exists whenever the uncompressed one does *)
Lemma xb_files_exist_alike p two pg0 pg1 f0 f1 fh : xb_shape_g p two pg0 pg1 f0 f1 fh ->
  ((exists dc, save_xbo true p = Ok dc) <-> (exists du, save_xbo false p = Ok du)).
Proof.
  intro Hs. rewrite !(xb_saveo p two pg0 pg1 f0 f1 fh _ Hs).
  pose proof (xb_data_section_ok_iff (p_ice p) (xb_pages two pg0 pg1) (p_rows p)) as Hiff.
  destruct (xb_data_section true (p_ice p) (xb_pages two pg0 pg1) (p_rows p)) as [cb|e|s0];
    destruct (xb_data_section false (p_ice p) (xb_pages two pg0 pg1) (p_rows p)) as [pb|e'|s1]; cbn [bind];
    split; intros [x Hx]; try discriminate; try (eexists; reflexivity).
  - destruct Hiff as [Hiff _]. destruct Hiff as [y Hy]; [eexists; reflexivity|discriminate].
  - destruct Hiff as [Hiff _]. destruct Hiff as [y Hy]; [eexists; reflexivity|discriminate].
  - destruct Hiff as [_ Hiff]. destruct Hiff as [y Hy]; [eexists; reflexivity|discriminate].
  - destruct Hiff as [_ Hiff]. destruct Hiff as [y Hy]; [eexists; reflexivity|discriminate].
Qed.

(* whatever buffer the uncompressed file of a picture loads to, the file written with either value of
   SaveOptions.compress loads to it *)
Lemma xb_load_any_compress p two pg0 pg1 f0 f1 fh s comp du b : xb_shape_g p two pg0 pg1 f0 f1 fh ->
  save_xbo false p = Ok du -> load_xb2 du s = Ok b ->
  exists data, save_xbo comp p = Ok data /\ load_xb2 data s = Ok b.
Proof.
  intros Hs Hu Hl. destruct comp; [|exists du; split; assumption].
  destruct (proj2 (xb_files_exist_alike p two pg0 pg1 f0 f1 fh Hs) (ex_intro _ _ Hu)) as (dc & Hc).
  exists dc. split; [exact Hc|].
  destruct (xb_files_load_alike p two pg0 pg1 f0 f1 fh s s dc Hs Hc) as (du' & Hdu & Heq).
  rewrite Hu in Hdu. injection Hdu as <-. rewrite Heq. exact Hl.
Qed.

Lemma xb_roundtrip_o p s comp two f0 f1 fh : xb_hyps p two f0 f1 fh ->
  exists data, save_xbo comp p = Ok data /\ load_xb2 data s = Ok (xb_bfin p two f0 f1 fh).
Proof.
  intro Hh. apply (xb_load_any_compress p two 0 1 f0 f1 fh s comp (xb_data p two f0 f1 fh)).
  - apply xb_hyps_shape, Hh.
  - rewrite save_xbo_false. apply xb_save, Hh.
  - apply xb_fixed_accepts, xb_load, Hh.
Qed.

Lemma xb_roundtrip1_o_proof : forall compress p s, representable_xb1 p ->
  exists data b, save_xbo compress p = Ok data /\ load_xb2 data s = Ok b /\ same_picture true [0%N] p (pic_of b).
Proof.
  intros comp p s H. destruct (xb1_hyps p H) as (f0 & Hh).
  destruct (xb_roundtrip_o p s comp false f0 f0 (f_h f0) Hh) as (data & Hs & Hl).
  exists data, (xb_bfin p false f0 f0 (f_h f0)). split; [exact Hs|]. split; [exact Hl|].
  apply (xb_same p false f0 f0 (f_h f0) Hh).
Qed.

Lemma xb_roundtrip2_o_proof : forall compress p s, representable_xb2 p ->
  exists data b, save_xbo compress p = Ok data /\ load_xb2 data s = Ok b /\ same_picture true [0%N; 1%N] p (pic_of b).
Proof.
  intros comp p s H. destruct (xb2_hyps p H) as (f0 & f1 & h & Hh).
  destruct (xb_roundtrip_o p s comp true f0 f1 h Hh) as (data & Hs & Hl).
  exists data, (xb_bfin p true f0 f1 h). split; [exact Hs|]. split; [exact Hl|].
  apply (xb_same p true f0 f1 h Hh).
Qed.

(* the statement the property makes about FILES: for every representable picture both files exist and load to pictures
   that are the saved picture - and to each other exactly (same buffer) *)
Lemma xb_compress_transparent1_proof : forall p s, representable_xb1 p ->
  exists dc du b, save_xbo true p = Ok dc /\ save_xbo false p = Ok du /\
                  load_xb2 dc s = Ok b /\ load_xb2 du s = Ok b /\ same_picture true [0%N] p (pic_of b).
Proof.
  intros p s H. destruct (xb1_hyps p H) as (f0 & Hh).
  destruct (xb_roundtrip_o p s true false f0 f0 (f_h f0) Hh) as (dc & Hsc & Hlc).
  destruct (xb_roundtrip_o p s false false f0 f0 (f_h f0) Hh) as (du & Hsu & Hlu).
  exists dc, du, (xb_bfin p false f0 f0 (f_h f0)). repeat split; try assumption.
  all: apply (xb_same p false f0 f0 (f_h f0) Hh).
Qed.

Lemma xb_compress_transparent2_proof : forall p s, representable_xb2 p ->
  exists dc du b, save_xbo true p = Ok dc /\ save_xbo false p = Ok du /\
                  load_xb2 dc s = Ok b /\ load_xb2 du s = Ok b /\ same_picture true [0%N; 1%N] p (pic_of b).
Proof.
  intros p s H. destruct (xb2_hyps p H) as (f0 & f1 & h & Hh).
  destruct (xb_roundtrip_o p s true true f0 f1 h Hh) as (dc & Hsc & Hlc).
  destruct (xb_roundtrip_o p s false true f0 f1 h Hh) as (du & Hsu & Hlu).
  exists dc, du, (xb_bfin p true f0 f1 h). repeat split; try assumption.
  all: apply (xb_same p true f0 f1 h Hh).
Qed.

(* the compressed FILE: behind the header, palette and font blocks there is exactly one stream the XBin specification's
   decoder accepts - every row decodes to the (character, attribute) pairs of the uncompressed encoding, every run 1..64 cells,
   no run crosses a row, and no byte follows the last row (a SAUCE record is appended behind it by with_sauce only) *)
Lemma xb_file_spec_conformant p two pg0 pg1 f0 f1 fh dc : xb_shape_g p two pg0 pg1 f0 f1 fh ->
  save_xbo true p = Ok dc ->
  exists D, dc = xb_file p two f0 f1 fh true D /\
            XBin.xb_spec_rows (Z.to_nat (p_w p)) (length (p_rows p)) D =
            Some (map (map (fun c => (c_ch c, encode_attr (p_ice p) (xb_pages two pg0 pg1) c))) (p_rows p), []).
Proof.
  intros Hs Hc. pose proof Hs as (Hb & _). pose proof Hb as (Hcommon & _). destruct Hcommon as (Hrect & _).
  rewrite (xb_saveo p two pg0 pg1 f0 f1 fh true Hs) in Hc.
  destruct (xb_data_section true (p_ice p) (xb_pages two pg0 pg1) (p_rows p)) as [cb|e|s0] eqn:Ec; cbn [bind] in Hc; try discriminate.
  injection Hc as <-. exists cb. split; [reflexivity|].
  unfold xb_data_section in Ec.
  destruct (XBin.compress_backtrack (xb_pages two pg0 pg1) (ice6 (p_ice p)) (map (map cell6) (p_rows p))) as [cb'|] eqn:E6; [|discriminate].
  injection Ec as ->.
  assert (Hw6 : Forall (fun r => length r = Z.to_nat (p_w p)) (map (map cell6) (p_rows p))).
  { apply Forall_forall. intros r' Hr'. apply in_map_iff in Hr'. destruct Hr' as (r & <- & Hr).
    rewrite map_length. pose proof (rect_same_width p Hrect) as Hw. rewrite Forall_forall in Hw. apply Hw, Hr. }
  pose proof (XBinProofs.compress_with_sound_proof XBin.bt_oracle _ _ _ _ _ Hw6 E6) as Hsp.
  rewrite map_length in Hsp. rewrite Hsp. f_equal. f_equal.
  rewrite map_map. apply map_ext. intro r. rewrite map_map. apply map_ext. intro c.
  unfold XBin.enc. rewrite encode_attr_6. reflexivity.
Qed.
