(* Proofs about Model/Composite.v (C13): the stacking laws of Buffer::get_char, for every stack. *)
From Coq Require Import NArith ZArith List Bool Lia.
From IE Require Import Gen.Comp Model.Composite.
Import ListNotations.

(* ------------------------------------------------------------------------------------------ *)
(* How one loop iteration treats a layer at a query position: skipped (hidden, or the position is
   outside its rectangle), visited at layer-relative position (qx,qy), or the subtraction overflows. *)
Inductive status := Skip | Visit (qx qy : Z) | Overflow.

Definition rel_pos (L : layer) (px py : Z) : option (Z * Z) :=
  match i32_sub px (fst (get_offset L)), i32_sub py (snd (get_offset L)) with
  | Some qx, Some qy => Some (qx, qy)
  | _, _ => None
  end.

Definition inside (L : layer) (qx qy : Z) : bool :=
  negb ((qx <? 0)%Z || (qy <? 0)%Z || (qx >=? l_w L)%Z || (qy >=? l_h L)%Z).

Definition status_of (L : layer) (px py : Z) : status :=
  if negb (l_visible L) then Skip else
  match rel_pos L px py with
  | Some (qx, qy) => if inside L qx qy then Visit qx qy else Skip
  | None => Overflow
  end.

Definition set_dfp (s : st) (d : N) : st := mkSt (s_ch s) (s_attr s) d (s_tc s).

(* the body of the iteration once the layer is known to be visited *)
Definition visit (fonts : N -> option font) (L : layer) (qx qy : Z) (s : st) : outcome :=
  let ch := layer_get_char L qx qy in
  let dfp := l_dfp L in
  match l_mode L with
  | MNormal =>
    let rest (tc : option cell) : outcome :=
      if negb (l_alpha L) then
        let res := merge (with_font_page default_cell dfp) (s_ch s) (s_attr s) in
        if is_some (s_ch s) || is_some (s_attr s)
        then Ret (make_solid_color fonts res default_cell)
        else Ret (solid fonts tc res)
      else Cont (mkSt (s_ch s) (s_attr s) dfp tc) in
    if is_visible ch then
      let found := merge ch (s_ch s) (s_attr s) in
      if has_transparent_colour found
      then rest (match s_tc s with None => Some found | Some t => Some t end)
      else Ret (solid fonts (s_tc s) found)
    else rest (s_tc s)
  | MChars =>
    Cont (mkSt (if is_visible ch && negb (is_transparent ch) then Some (c_ch ch) else s_ch s) (s_attr s) dfp (s_tc s))
  | MAttributes =>
    Cont (mkSt (s_ch s) (if is_visible ch then Some (c_at ch) else s_attr s) dfp (s_tc s))
  end.

Lemma step_status : forall fonts L px py s,
  step fonts L px py s =
  match status_of L px py with
  | Skip => Cont s
  | Visit qx qy => visit fonts L qx qy s
  | Overflow => Pan
  end.
Proof.
  intros. unfold step, status_of, rel_pos, inside, visit.
  destruct (negb (l_visible L)); [reflexivity|].
  destruct (i32_sub px (fst (get_offset L))) as [qx|]; [|reflexivity].
  destruct (i32_sub py (snd (get_offset L))) as [qy|]; [|reflexivity].
  destruct ((qx <? 0)%Z || (qy <? 0)%Z || (qx >=? l_w L)%Z || (qy >=? l_h L)%Z); reflexivity.
Qed.

(* ------------------------------------------------------------------------------------------ *)
(* the loop *)
Lemma run_app : forall fonts px py a b s,
  run fonts px py (a ++ b) s =
  match run fonts px py a s with Cont s' => run fonts px py b s' | o => o end.
Proof.
  induction a as [|L a IH]; intros; cbn [run app]; [reflexivity|].
  destruct (step fonts L px py s); try reflexivity. apply IH.
Qed.

Definition out_to_res (term : bool) (o : outcome) : option cell :=
  match o with Ret c => Some c | Cont s => Some (finish term s) | Pan => None end.

Lemma get_char_unfold : forall B px py,
  get_char B px py = out_to_res (b_term B) (run (b_fonts B) px py (rev (b_layers B)) init_st).
Proof. intros. unfold get_char, out_to_res. destruct (run _ _ _ _ _); reflexivity. Qed.

Lemma rev_split : forall (lo hi : list layer) (L : layer), rev (lo ++ L :: hi) = rev hi ++ L :: rev lo.
Proof. intros. rewrite rev_app_distr. cbn [rev]. rewrite <- app_assoc. reflexivity. Qed.

(* a layer whose iteration never changes the state can be removed; two layers with the same iteration
   can be exchanged *)
Lemma run_remove : forall fonts px py a L b s,
  (forall s', step fonts L px py s' = Cont s') ->
  run fonts px py (a ++ L :: b) s = run fonts px py (a ++ b) s.
Proof.
  intros. rewrite !run_app. destruct (run fonts px py a s); try reflexivity.
  cbn [run]. rewrite H. reflexivity.
Qed.

Lemma run_replace : forall fonts px py a L L' b s,
  (forall s', step fonts L px py s' = step fonts L' px py s') ->
  run fonts px py (a ++ L :: b) s = run fonts px py (a ++ L' :: b) s.
Proof.
  intros. rewrite !run_app. destruct (run fonts px py a s); try reflexivity.
  cbn [run]. rewrite H. reflexivity.
Qed.

(* ------------------------------------------------------------------------------------------ *)
(* 1. hidden layers *)
Lemma step_hidden : forall fonts L px py s, l_visible L = false -> step fonts L px py s = Cont s.
Proof. intros. rewrite step_status. unfold status_of. rewrite H. reflexivity. Qed.

Lemma hidden_irrelevant_proof : forall B lo hi L L' px py,
  l_visible L = false -> l_visible L' = false ->
  get_char (with_layers B (lo ++ L :: hi)) px py = get_char (with_layers B (lo ++ L' :: hi)) px py /\
  get_char (with_layers B (lo ++ L :: hi)) px py = get_char (with_layers B (lo ++ hi)) px py.
Proof.
  intros. rewrite !get_char_unfold. cbn [with_layers b_layers b_term b_fonts].
  rewrite !rev_split, rev_app_distr. split; f_equal.
  - apply run_replace. intros. rewrite !step_hidden by assumption. reflexivity.
  - apply run_remove. intros. apply step_hidden. assumption.
Qed.

Definition set_lines (L : layer) (lines : list (list cell)) : layer :=
  mkLayer (l_visible L) (l_alpha L) (l_mode L) (l_offset L) (l_preview L) (l_w L) (l_h L) (l_dfp L) lines.

Lemma edit_hidden_layer_proof : forall B lo hi L lines' px py,
  l_visible L = false ->
  get_char (with_layers B (lo ++ set_lines L lines' :: hi)) px py = get_char (with_layers B (lo ++ L :: hi)) px py.
Proof.
  intros. symmetry. apply hidden_irrelevant_proof; [assumption | exact H].
Qed.

(* ------------------------------------------------------------------------------------------ *)
(* 2. layers that do not cover the position *)
Definition misses (L : layer) (px py : Z) : Prop :=
  exists qx qy, rel_pos L px py = Some (qx, qy) /\ inside L qx qy = false.
Definition covers (L : layer) (px py : Z) : Prop :=
  exists qx qy, rel_pos L px py = Some (qx, qy) /\ inside L qx qy = true.

Lemma step_misses : forall fonts L px py s, misses L px py -> step fonts L px py s = Cont s.
Proof.
  intros fonts L px py s (qx & qy & Hr & Hi). rewrite step_status. unfold status_of.
  rewrite Hr, Hi. destruct (negb (l_visible L)); reflexivity.
Qed.

Lemma noncovering_irrelevant_proof : forall B lo hi L px py,
  misses L px py ->
  get_char (with_layers B (lo ++ L :: hi)) px py = get_char (with_layers B (lo ++ hi)) px py.
Proof.
  intros. rewrite !get_char_unfold. cbn [with_layers b_layers b_term b_fonts].
  rewrite rev_split, rev_app_distr. f_equal. apply run_remove. intros. apply step_misses. assumption.
Qed.

(* ------------------------------------------------------------------------------------------ *)
(* 3. invisible cells of alpha layers: the iteration only records the layer's default font page *)
Lemma set_dfp_same : forall s, set_dfp s (s_dfp s) = s.
Proof. destruct s; reflexivity. Qed.

Lemma visit_invisible_cell : forall fonts L qx qy s,
  is_visible (layer_get_char L qx qy) = false ->
  (l_mode L = MNormal -> l_alpha L = true) ->
  visit fonts L qx qy s = Cont (set_dfp s (l_dfp L)).
Proof.
  intros fonts L qx qy s Hinv Ha. unfold visit. rewrite Hinv. cbn [andb].
  destruct (l_mode L); [rewrite Ha by reflexivity|..]; reflexivity.
Qed.

(* the cell the layer holds at the query position is invisible (this includes positions outside the
   layer, where Layer::get_char answers with an invisible cell) *)
Definition cell_invisible_at (L : layer) (px py : Z) : Prop :=
  exists qx qy, rel_pos L px py = Some (qx, qy) /\ is_visible (layer_get_char L qx qy) = false.

Lemma step_invisible_cell : forall fonts L px py s,
  cell_invisible_at L px py -> (l_mode L = MNormal -> l_alpha L = true) ->
  step fonts L px py s = Cont s \/ step fonts L px py s = Cont (set_dfp s (l_dfp L)).
Proof.
  intros fonts L px py s (qx & qy & Hr & Hinv) Ha. rewrite step_status. unfold status_of. rewrite Hr.
  destruct (negb (l_visible L)); [left; reflexivity|].
  destruct (inside L qx qy); [right; apply visit_invisible_cell; assumption | left; reflexivity].
Qed.

(* states that agree except for default_font_page *)
Definition st_eqd (s1 s2 : st) : Prop := s_ch s1 = s_ch s2 /\ s_attr s1 = s_attr s2 /\ s_tc s1 = s_tc s2.
Definition out_eqd (o1 o2 : outcome) : Prop :=
  match o1, o2 with
  | Ret a, Ret b => a = b
  | Cont a, Cont b => st_eqd a b
  | Pan, Pan => True
  | _, _ => False
  end.

Lemma st_eqd_refl : forall s, st_eqd s s.
Proof. intros. repeat split. Qed.
Lemma st_eqd_set_dfp : forall s d, st_eqd (set_dfp s d) s.
Proof. intros. repeat split. Qed.
Lemma st_eqd_eq : forall s1 s2, st_eqd s1 s2 -> s_dfp s1 = s_dfp s2 -> s1 = s2.
Proof. intros [a b c d] [a' b' c' d'] (H1 & H2 & H3) H4. cbn in *. subst. reflexivity. Qed.

(* a visited layer overwrites default_font_page before anything reads it *)
Lemma visit_eqd : forall fonts L qx qy s1 s2, st_eqd s1 s2 -> visit fonts L qx qy s1 = visit fonts L qx qy s2.
Proof.
  intros fonts L qx qy [a b c d] [a' b' c' d'] (H1 & H2 & H3). cbn in H1, H2, H3. subst. reflexivity.
Qed.

Lemma step_eqd : forall fonts L px py s1 s2, st_eqd s1 s2 ->
  out_eqd (step fonts L px py s1) (step fonts L px py s2).
Proof.
  intros. rewrite !step_status. destruct (status_of L px py).
  - exact H.
  - rewrite (visit_eqd fonts L qx qy s1 s2 H). destruct (visit fonts L qx qy s2); cbn; auto using st_eqd_refl.
  - exact I.
Qed.

Lemma run_eqd : forall fonts px py ls s1 s2, st_eqd s1 s2 ->
  out_eqd (run fonts px py ls s1) (run fonts px py ls s2).
Proof.
  induction ls as [|L ls IH]; intros; cbn [run]; [exact H|].
  pose proof (step_eqd fonts L px py s1 s2 H) as Hs.
  destruct (step fonts L px py s1), (step fonts L px py s2); cbn in Hs; try contradiction; try exact Hs.
  apply IH. exact Hs.
Qed.

Definition is_visit (st : status) : bool := match st with Visit _ _ => true | _ => false end.

(* … and once some layer further down is visited the difference is gone *)
Lemma run_eqd_exact : forall fonts px py ls s1 s2, st_eqd s1 s2 ->
  existsb (fun L => is_visit (status_of L px py)) ls = true ->
  run fonts px py ls s1 = run fonts px py ls s2.
Proof.
  induction ls as [|L ls IH]; intros s1 s2 H He; cbn [existsb] in He; [discriminate|].
  cbn [run]. rewrite !step_status. destruct (status_of L px py) eqn:E; cbn [is_visit orb] in He.
  - apply IH; assumption.
  - rewrite (visit_eqd fonts L qx qy s1 s2 H). reflexivity.
  - reflexivity.
Qed.

(* default_font_page carried by the loop *)
Lemma visit_dfp : forall fonts L qx qy s s', visit fonts L qx qy s = Cont s' -> s_dfp s' = l_dfp L.
Proof.
  intros fonts L qx qy s s'. unfold visit.
  destruct (l_mode L).
  - destruct (is_visible _); [destruct (has_transparent_colour _)|];
      destruct (negb (l_alpha L)); try destruct (is_some (s_ch s) || is_some (s_attr s)); intro H; inversion H; reflexivity.
  - intro H; inversion H; reflexivity.
  - intro H; inversion H; reflexivity.
Qed.

Lemma run_dfp : forall fonts px py ls s s' d,
  s_dfp s = d -> Forall (fun L => l_dfp L = d) ls ->
  run fonts px py ls s = Cont s' -> s_dfp s' = d.
Proof.
  induction ls as [|L ls IH]; intros s s' d Hd Hall Hr; cbn [run] in Hr.
  - inversion Hr; subst; reflexivity.
  - inversion Hall as [|? ? HL Hrest]; subst.
    rewrite step_status in Hr. destruct (status_of L px py).
    + eapply IH; eauto.
    + destruct (visit fonts L qx qy s) eqn:E; try discriminate.
      apply visit_dfp in E. eapply IH; [|exact Hrest|exact Hr]. congruence.
    + discriminate.
Qed.

Definition cell_upto_fp (a b : cell) : Prop :=
  c_ch a = c_ch b /\ a_fg (c_at a) = a_fg (c_at b) /\ a_bg (c_at a) = a_bg (c_at b) /\ a_flags (c_at a) = a_flags (c_at b).
Definition res_upto_fp (a b : option cell) : Prop :=
  match a, b with Some x, Some y => cell_upto_fp x y | None, None => True | _, _ => False end.

Lemma cell_upto_fp_refl : forall a, cell_upto_fp a a.
Proof. intros. repeat split. Qed.

Lemma finish_eqd : forall term s1 s2, st_eqd s1 s2 -> cell_upto_fp (finish term s1) (finish term s2).
Proof.
  intros term [a b c d] [a' b' c' d'] (H1 & H2 & H3). cbn in H1, H2, H3. subst.
  unfold finish. cbn [s_tc s_ch s_attr s_dfp]. destruct d'; [apply cell_upto_fp_refl|].
  repeat split.
Qed.

Lemma out_eqd_res : forall term o1 o2, out_eqd o1 o2 -> res_upto_fp (out_to_res term o1) (out_to_res term o2).
Proof.
  intros term [c1|s1|] [c2|s2|] H; cbn in *; try contradiction; try exact I.
  - subst. apply cell_upto_fp_refl.
  - apply finish_eqd. assumption.
Qed.

(* the general form: after the layers above, the loop continues below L from a state that differs at
   most in default_font_page *)
Lemma run_transparent_layer : forall fonts px py above L below s,
  cell_invisible_at L px py -> (l_mode L = MNormal -> l_alpha L = true) ->
  out_eqd (run fonts px py (above ++ L :: below) s) (run fonts px py (above ++ below) s).
Proof.
  intros. rewrite !run_app. destruct (run fonts px py above s) as [c|s1|]; cbn; auto.
  cbn [run]. destruct (step_invisible_cell fonts L px py s1 H H0) as [E|E]; rewrite E.
  - apply run_eqd. apply st_eqd_refl.
  - apply run_eqd. apply st_eqd_set_dfp.
Qed.

Lemma alpha_invisible_upto_fp_proof : forall B lo hi L px py,
  cell_invisible_at L px py -> (l_mode L = MNormal -> l_alpha L = true) ->
  res_upto_fp (get_char (with_layers B (lo ++ L :: hi)) px py) (get_char (with_layers B (lo ++ hi)) px py).
Proof.
  intros. rewrite !get_char_unfold. cbn [with_layers b_layers b_term b_fonts].
  rewrite rev_split, rev_app_distr. apply out_eqd_res. apply run_transparent_layer; assumption.
Qed.

Lemma alpha_invisible_exact_proof : forall B lo hi L px py,
  cell_invisible_at L px py -> (l_mode L = MNormal -> l_alpha L = true) ->
  Forall (fun l => l_dfp l = 0%N) (L :: hi) ->
  get_char (with_layers B (lo ++ L :: hi)) px py = get_char (with_layers B (lo ++ hi)) px py.
Proof.
  intros B lo hi L px py Hc Ha Hd. rewrite !get_char_unfold. cbn [with_layers b_layers b_term b_fonts].
  rewrite rev_split, rev_app_distr. f_equal. rewrite !run_app.
  inversion Hd as [|? ? HL Hhi]; subst.
  destruct (run (b_fonts B) px py (rev hi) init_st) as [c|s1|] eqn:E; try reflexivity.
  cbn [run]. destruct (step_invisible_cell (b_fonts B) L px py s1 Hc Ha) as [E1|E1]; rewrite E1; [reflexivity|].
  assert (s_dfp s1 = 0%N) as H0.
  { eapply run_dfp; [| |exact E]; [reflexivity|]. apply Forall_forall. intros x Hx.
    apply in_rev in Hx. rewrite Forall_forall in Hhi. auto. }
  rewrite HL, <- H0, set_dfp_same. reflexivity.
Qed.

Lemma alpha_invisible_covered_below_proof : forall B lo hi L px py,
  cell_invisible_at L px py -> (l_mode L = MNormal -> l_alpha L = true) ->
  existsb (fun l => is_visit (status_of l px py)) lo = true ->
  get_char (with_layers B (lo ++ L :: hi)) px py = get_char (with_layers B (lo ++ hi)) px py.
Proof.
  intros B lo hi L px py Hc Ha He. rewrite !get_char_unfold. cbn [with_layers b_layers b_term b_fonts].
  rewrite rev_split, rev_app_distr. f_equal. rewrite !run_app.
  destruct (run (b_fonts B) px py (rev hi) init_st) as [c|s1|] eqn:E; try reflexivity.
  cbn [run]. destruct (step_invisible_cell (b_fonts B) L px py s1 Hc Ha) as [E1|E1]; rewrite E1; [reflexivity|].
  apply run_eqd_exact; [apply st_eqd_set_dfp|].
  rewrite existsb_exists in *. destruct He as (x & Hx & Hv). exists x. split; [apply in_rev; rewrite rev_involutive|]; assumption.
Qed.

(* ------------------------------------------------------------------------------------------ *)
(* 4. an opaque visible Normal layer covering the position ends the loop *)
Definition opaque_normal (L : layer) : Prop := l_visible L = true /\ l_alpha L = false /\ l_mode L = MNormal.

Lemma visit_opaque : forall fonts L qx qy s,
  l_alpha L = false -> l_mode L = MNormal -> exists c, visit fonts L qx qy s = Ret c.
Proof.
  intros fonts L qx qy s Ha Hm. unfold visit. rewrite Hm, Ha. cbn [negb].
  destruct (is_visible _); [destruct (has_transparent_colour _)|];
    try destruct (is_some (s_ch s) || is_some (s_attr s)); eexists; reflexivity.
Qed.

Lemma step_opaque : forall fonts L px py s, opaque_normal L -> covers L px py -> exists c, step fonts L px py s = Ret c.
Proof.
  intros fonts L px py s (Hv & Ha & Hm) (qx & qy & Hr & Hi). rewrite step_status. unfold status_of.
  rewrite Hv, Hr, Hi. cbn [negb]. apply visit_opaque; assumption.
Qed.

Lemma opaque_hides_proof : forall B lo lo' hi L px py,
  opaque_normal L -> covers L px py ->
  get_char (with_layers B (lo ++ L :: hi)) px py = get_char (with_layers B (lo' ++ L :: hi)) px py.
Proof.
  intros. rewrite !get_char_unfold. cbn [with_layers b_layers b_term b_fonts].
  rewrite !rev_split. f_equal. rewrite !run_app.
  destruct (run (b_fonts B) px py (rev hi) init_st) as [c|s1|]; try reflexivity.
  cbn [run]. destruct (step_opaque (b_fonts B) L px py s1 H H0) as (c & E). rewrite E. reflexivity.
Qed.

(* ------------------------------------------------------------------------------------------ *)
(* 5. translation *)
Lemma get_offset_shift : forall d L, get_offset (shift_layer d L) = shift_pos d (get_offset L).
Proof. intros. unfold get_offset, shift_layer. cbn. destruct (l_preview L); reflexivity. Qed.

Lemma i32_sub_shift : forall a b d, i32_sub (a + d) (b + d) = i32_sub a b.
Proof. intros. unfold i32_sub. replace (a + d - (b + d))%Z with (a - b)%Z by lia. reflexivity. Qed.

Lemma step_shift : forall fonts d L px py s,
  step fonts (shift_layer d L) (px + fst d) (py + snd d) s = step fonts L px py s.
Proof.
  intros. unfold step. rewrite get_offset_shift. unfold shift_pos. cbn [fst snd].
  rewrite !i32_sub_shift. reflexivity.
Qed.

Lemma run_shift : forall fonts d px py ls s,
  run fonts (px + fst d) (py + snd d) (map (shift_layer d) ls) s = run fonts px py ls s.
Proof.
  induction ls as [|L ls IH]; intros; cbn [run map]; [reflexivity|].
  rewrite step_shift. destruct (step fonts L px py s); try reflexivity. apply IH.
Qed.

Lemma translate_proof : forall B d px py,
  get_char (shift_buffer d B) (px + fst d) (py + snd d) = get_char B px py.
Proof.
  intros. rewrite !get_char_unfold. unfold shift_buffer. cbn [with_layers b_layers b_term b_fonts].
  rewrite <- map_rev, run_shift. reflexivity.
Qed.

(* ------------------------------------------------------------------------------------------ *)
(* 6. inserting an empty alpha layer *)
Definition empty_layer (E : layer) : Prop := forall qx qy, is_visible (layer_get_char E qx qy) = false.
Definition no_overflow (L : layer) (px py : Z) : Prop := rel_pos L px py <> None.

Lemma empty_invisible_at : forall E px py, empty_layer E -> no_overflow E px py -> cell_invisible_at E px py.
Proof.
  intros E px py He Hn. unfold no_overflow in Hn. destruct (rel_pos E px py) as [[qx qy]|] eqn:R; [|congruence].
  exists qx, qy. split; [exact R | apply He].
Qed.

Lemma insert_empty_alpha_proof : forall B lo hi E px py,
  empty_layer E -> (l_mode E = MNormal -> l_alpha E = true) -> no_overflow E px py ->
  Forall (fun l => l_dfp l = 0%N) (E :: hi) ->
  get_char (with_layers B (lo ++ E :: hi)) px py = get_char (with_layers B (lo ++ hi)) px py.
Proof. intros. apply alpha_invisible_exact_proof; auto using empty_invisible_at. Qed.

Lemma insert_empty_alpha_upto_fp_proof : forall B lo hi E px py,
  empty_layer E -> (l_mode E = MNormal -> l_alpha E = true) -> no_overflow E px py ->
  res_upto_fp (get_char (with_layers B (lo ++ E :: hi)) px py) (get_char (with_layers B (lo ++ hi)) px py).
Proof. intros. apply alpha_invisible_upto_fp_proof; auto using empty_invisible_at. Qed.

(* a layer as Layer::new makes it (rows of AttributedChar::invisible()) is empty *)
Lemma invisible_cell_invisible : is_visible invisible_cell = false.
Proof. vm_compute. reflexivity. Qed.

Lemma with_font_page_visible : forall c p, is_visible (with_font_page c p) = is_visible c.
Proof. reflexivity. Qed.

Lemma empty_layer_all_invisible : forall E,
  Forall (Forall (fun c => is_visible c = false)) (l_lines E) -> empty_layer E.
Proof.
  intros E H qx qy. unfold layer_get_char.
  destruct (_ || _ || _ || _); [rewrite with_font_page_visible; apply invisible_cell_invisible|].
  destruct (nth_error (l_lines E) (Z.to_nat qy)) as [line|] eqn:E1; [|rewrite with_font_page_visible; apply invisible_cell_invisible].
  destruct (nth_error line (Z.to_nat qx)) as [c|] eqn:E2; [|rewrite with_font_page_visible; apply invisible_cell_invisible].
  apply nth_error_In in E1, E2. rewrite Forall_forall in H. specialize (H _ E1). rewrite Forall_forall in H. auto.
Qed.

(* ------------------------------------------------------------------------------------------ *)
(* 7. panics: only the subtraction can fail *)
Lemma run_no_panic : forall fonts px py ls s,
  Forall (fun L => no_overflow L px py) ls -> run fonts px py ls s <> Pan.
Proof.
  induction ls as [|L ls IH]; intros s H; cbn [run]; [discriminate|].
  inversion H as [|? ? HL Hr]; subst. rewrite step_status. unfold status_of.
  destruct (negb (l_visible L)); [apply IH; assumption|].
  unfold no_overflow in HL. destruct (rel_pos L px py) as [[qx qy]|]; [|congruence].
  destruct (inside L qx qy); [|apply IH; assumption].
  destruct (visit fonts L qx qy s) eqn:E; try discriminate.
  - apply IH; assumption.
  - exfalso. unfold visit in E. destruct (l_mode L); try discriminate.
    destruct (is_visible _); [destruct (has_transparent_colour _)|];
      destruct (negb (l_alpha L)); try destruct (is_some (s_ch s) || is_some (s_attr s)); discriminate.
Qed.

Lemma get_char_no_panic_proof : forall B px py,
  Forall (fun L => no_overflow L px py) (b_layers B) -> get_char B px py <> None.
Proof.
  intros B px py H. rewrite get_char_unfold.
  assert (run (b_fonts B) px py (rev (b_layers B)) init_st <> Pan) as Hn.
  { apply run_no_panic. apply Forall_forall. intros x Hx. apply in_rev in Hx. rewrite Forall_forall in H. auto. }
  destruct (run _ _ _ _ _); cbn; congruence.
Qed.

Definition small (v : Z) : Prop := (- 1073741824 <= v <= 1073741823)%Z.

Lemma small_no_overflow : forall L px py,
  small px -> small py -> small (fst (get_offset L)) -> small (snd (get_offset L)) -> no_overflow L px py.
Proof.
  intros L px py H1 H2 H3 H4. unfold no_overflow, rel_pos, i32_sub, small, i32_min, i32_max in *.
  destruct (_ && _) eqn:E1.
  - destruct ((-2147483648 <=? py - snd (get_offset L))%Z && (py - snd (get_offset L) <=? 2147483647)%Z) eqn:E2; [discriminate|].
    exfalso. apply andb_false_iff in E2. destruct E2 as [E|E]; apply Z.leb_gt in E; lia.
  - exfalso. apply andb_false_iff in E1. destruct E1 as [E|E]; apply Z.leb_gt in E; lia.
Qed.

(* ------------------------------------------------------------------------------------------ *)
(* 8. declarative characterisation of get_char on stacks without transparent colours.

   contributions: the visited layers, topmost first, each with the cell it holds at the position.
   The decisive contribution is the first one from a Normal layer whose cell is visible or which is
   opaque.  Above it only Chars / Attributes layers matter: the lowest Chars layer with a visible
   non-blank cell overrides the character, the lowest Attributes layer with a visible cell overrides
   the attribute.  Without a decisive layer the result is the default (terminal buffer or any override)
   or invisible cell, with the font page of the lowest visited layer. *)
Definition lc := (layer * cell)%type.

Definition contrib_of (px py : Z) (L : layer) : list lc :=
  match status_of L px py with Visit qx qy => [(L, layer_get_char L qx qy)] | _ => [] end.
Definition contribs (px py : Z) (ls : list layer) : list lc := flat_map (contrib_of px py) ls.

Definition decisive (x : lc) : bool :=
  match l_mode (fst x) with MNormal => is_visible (snd x) || negb (l_alpha (fst x)) | _ => false end.

Fixpoint split_at_decisive (cs : list lc) : list lc * option lc :=
  match cs with
  | [] => ([], None)
  | x :: r => if decisive x then ([], Some x) else let '(a, d) := split_at_decisive r in (x :: a, d)
  end.

Definition ch_contrib (x : lc) : option N :=
  match l_mode (fst x) with
  | MChars => if is_visible (snd x) && negb (is_transparent (snd x)) then Some (c_ch (snd x)) else None
  | _ => None
  end.
Definition attr_contrib (x : lc) : option tattr :=
  match l_mode (fst x) with
  | MAttributes => if is_visible (snd x) then Some (c_at (snd x)) else None
  | _ => None
  end.
Definition later {A} (acc o : option A) : option A := match o with Some v => Some v | None => acc end.
(* the last (= lowest) contribution of kind f in l, else init *)
Definition lowest {A} (f : lc -> option A) (init : option A) (l : list lc) : option A :=
  fold_left (fun acc x => later acc (f x)) l init.
Definition lowest_dfp (init : N) (l : list lc) : N := fold_left (fun _ x => l_dfp (fst x)) l init.

Definition spec_from (term : bool) (ch0 : option N) (at0 : option tattr) (dfp0 : N) (cs : list lc) : cell :=
  let '(above, d) := split_at_decisive cs in
  let cho := lowest ch_contrib ch0 above in
  let ato := lowest attr_contrib at0 above in
  match d with
  | Some (L, c) => merge (if is_visible c then c else with_font_page default_cell (l_dfp L)) cho ato
  | None => with_font_page (if term || is_some cho || is_some ato then merge default_cell cho ato else invisible_cell)
                           (lowest_dfp dfp0 cs)
  end.

Definition get_char_spec (B : buffer) (px py : Z) : cell :=
  spec_from (b_term B) None None 0%N (contribs px py (rev (b_layers B))).

Definition attr_transp (a : tattr) : bool := N.eqb (a_fg a) TRANSPARENT_COLOR || N.eqb (a_bg a) TRANSPARENT_COLOR.
Definition attr_ok (o : option tattr) : Prop := match o with Some a => attr_transp a = false | None => True end.

Lemma make_solid_no_transp : forall fonts t u, has_transparent_colour t = false -> make_solid_color fonts t u = t.
Proof.
  intros fonts [ch [fg bg fl fp]] u H. unfold has_transparent_colour in H. cbn in H.
  apply orb_false_elim in H. destruct H as [H1 H2].
  unfold make_solid_color. destruct (half_block fonts u) as [up lo]. cbn [c_ch c_at a_fg a_bg a_flags a_fpage].
  rewrite H1, H2. destruct (N.eqb ch HALF_BLOCK_TOP); [reflexivity|]. destruct (N.eqb ch HALF_BLOCK_BOTTOM); reflexivity.
Qed.

Lemma default_visible : forall d, is_visible (with_font_page default_cell d) = true.
Proof. intros. vm_compute. reflexivity. Qed.

Lemma merge_visible_transp : forall c cho ato,
  is_visible c = true -> has_transparent_colour c = false -> attr_ok ato ->
  has_transparent_colour (merge c cho ato) = false.
Proof.
  intros c cho ato Hv Ht Ha. unfold merge. rewrite Hv. cbn [negb].
  unfold has_transparent_colour. cbn [c_at]. destruct ato as [a|]; [exact Ha | exact Ht].
Qed.

Lemma default_no_transp : forall d, has_transparent_colour (with_font_page default_cell d) = false.
Proof. intros. vm_compute. reflexivity. Qed.

Lemma split_cons_decisive : forall x r, decisive x = true -> split_at_decisive (x :: r) = ([], Some x).
Proof. intros. cbn [split_at_decisive]. rewrite H. reflexivity. Qed.

Lemma spec_from_skip : forall term ch0 at0 dfp0 x r,
  decisive x = false ->
  spec_from term ch0 at0 dfp0 (x :: r) =
  spec_from term (later ch0 (ch_contrib x)) (later at0 (attr_contrib x)) (l_dfp (fst x)) r.
Proof.
  intros. unfold spec_from. cbn [split_at_decisive]. rewrite H.
  destruct (split_at_decisive r) as [a d]. cbn [lowest lowest_dfp fold_left]. reflexivity.
Qed.

Lemma run_spec : forall fonts term px py ls s,
  Forall (fun L => no_overflow L px py) ls ->
  Forall (fun x => has_transparent_colour (snd x) = false) (contribs px py ls) ->
  s_tc s = None -> attr_ok (s_attr s) ->
  out_to_res term (run fonts px py ls s) = Some (spec_from term (s_ch s) (s_attr s) (s_dfp s) (contribs px py ls)).
Proof.
  induction ls as [|L ls IH]; intros s Hno Hnt Htc Hat.
  - cbn [run contribs flat_map out_to_res]. unfold spec_from, finish. cbn [split_at_decisive lowest lowest_dfp fold_left].
    rewrite Htc. reflexivity.
  - inversion Hno as [|? ? HL Hrest]; subst. cbn [run]. rewrite step_status.
    unfold contribs in *. cbn [flat_map] in *. unfold contrib_of at 1 in Hnt. unfold contrib_of at 1.
    unfold status_of in *. destruct (negb (l_visible L)); [apply IH; assumption|].
    unfold no_overflow in HL. destruct (rel_pos L px py) as [[qx qy]|]; [|congruence].
    destruct (inside L qx qy); [|apply IH; assumption].
    cbn [app] in *. inversion Hnt as [|? ? Hc Hnt']; subst. cbn [snd] in Hc.
    set (c := layer_get_char L qx qy) in *.
    destruct (decisive (L, c)) eqn:D.
    + (* the decisive layer: the loop returns here *)
      unfold spec_from. rewrite split_cons_decisive by assumption. cbn [lowest fold_left].
      unfold decisive in D. cbn [fst snd] in D. unfold visit. fold c. destruct (l_mode L); try discriminate.
      destruct (is_visible c) eqn:V.
      * rewrite merge_visible_transp by assumption. rewrite Htc. reflexivity.
      * cbn [orb] in D. rewrite D. rewrite Htc.
        assert (has_transparent_colour (merge (with_font_page default_cell (l_dfp L)) (s_ch s) (s_attr s)) = false) as Hm.
        { apply merge_visible_transp; auto using default_visible, default_no_transp. }
        destruct (is_some (s_ch s) || is_some (s_attr s)); cbn [out_to_res solid].
        -- rewrite make_solid_no_transp by assumption. reflexivity.
        -- reflexivity.
    + (* not decisive: the loop goes on with updated overrides *)
      rewrite spec_from_skip by assumption. cbn [fst snd].
      unfold decisive in D. cbn [fst snd] in D. unfold visit, ch_contrib, attr_contrib. cbn [fst snd]. fold c.
      destruct (l_mode L).
      * apply orb_false_elim in D. destruct D as [V A]. rewrite V. rewrite A.
        rewrite (IH (mkSt (s_ch s) (s_attr s) (l_dfp L) (s_tc s))); try assumption; reflexivity.
      * rewrite (IH (mkSt (if is_visible c && negb (is_transparent c) then Some (c_ch c) else s_ch s) (s_attr s) (l_dfp L) (s_tc s)));
          try assumption; cbn [s_ch s_attr s_dfp s_tc].
        destruct (is_visible c && negb (is_transparent c)); reflexivity.
      * rewrite (IH (mkSt (s_ch s) (if is_visible c then Some (c_at c) else s_attr s) (l_dfp L) (s_tc s)));
          try assumption; cbn [s_ch s_attr s_dfp s_tc].
        -- destruct (is_visible c); reflexivity.
        -- destruct (is_visible c); [exact Hc | exact Hat].
Qed.

Lemma get_char_spec_proof : forall B px py,
  Forall (fun L => no_overflow L px py) (b_layers B) ->
  Forall (fun x => has_transparent_colour (snd x) = false) (contribs px py (rev (b_layers B))) ->
  get_char B px py = Some (get_char_spec B px py).
Proof.
  intros B px py Hno Hnt. rewrite get_char_unfold. unfold get_char_spec.
  rewrite (run_spec (b_fonts B) (b_term B) px py (rev (b_layers B)) init_st); [reflexivity| |assumption|reflexivity|exact I].
  apply Forall_forall. intros x Hx. apply in_rev in Hx. rewrite Forall_forall in Hno. auto.
Qed.

(* a sufficient, purely syntactic reading of "no transparent colours": no stored cell has one *)
Definition layer_no_transp (L : layer) : Prop :=
  Forall (Forall (fun c => has_transparent_colour c = false)) (l_lines L).

Lemma invisible_no_transp : forall d, has_transparent_colour (with_font_page invisible_cell d) = false.
Proof. intros. vm_compute. reflexivity. Qed.

Lemma layer_get_char_no_transp : forall L qx qy, layer_no_transp L -> has_transparent_colour (layer_get_char L qx qy) = false.
Proof.
  intros L qx qy H. unfold layer_get_char.
  destruct (_ || _ || _ || _); [apply invisible_no_transp|].
  destruct (nth_error (l_lines L) (Z.to_nat qy)) as [line|] eqn:E1; [|apply invisible_no_transp].
  destruct (nth_error line (Z.to_nat qx)) as [c|] eqn:E2; [|apply invisible_no_transp].
  apply nth_error_In in E1, E2. unfold layer_no_transp in H. rewrite Forall_forall in H. specialize (H _ E1).
  rewrite Forall_forall in H. auto.
Qed.

Lemma contribs_no_transp : forall px py ls,
  Forall layer_no_transp ls -> Forall (fun x => has_transparent_colour (snd x) = false) (contribs px py ls).
Proof.
  induction ls as [|L ls IH]; intros H; [constructor|].
  inversion H; subst. unfold contribs. cbn [flat_map]. apply Forall_app. split; [|apply IH; assumption].
  unfold contrib_of. destruct (status_of L px py); constructor; [|constructor].
  cbn [snd]. apply layer_get_char_no_transp. assumption.
Qed.

Lemma get_char_spec_plain_proof : forall B px py,
  Forall (fun L => no_overflow L px py) (b_layers B) ->
  Forall layer_no_transp (b_layers B) ->
  get_char B px py = Some (get_char_spec B px py).
Proof.
  intros. apply get_char_spec_proof; [assumption|]. apply contribs_no_transp.
  apply Forall_forall. intros x Hx. apply in_rev in Hx. rewrite Forall_forall in H0. auto.
Qed.

(* ------------------------------------------------------------------------------------------ *)
(* 9. the result is determined by the visible layers covering the position, and by nothing of them but
   mode, alpha flag, default font page and the cell held at the position *)
Definition visited (px py : Z) (L : layer) : bool := is_visit (status_of L px py).

Lemma run_filter_visited : forall fonts px py ls s,
  Forall (fun L => no_overflow L px py) ls ->
  run fonts px py (filter (visited px py) ls) s = run fonts px py ls s.
Proof.
  induction ls as [|L ls IH]; intros s H; [reflexivity|].
  inversion H as [|? ? HL Hr]; subst. cbn [filter run]. unfold visited at 1.
  rewrite (step_status fonts L px py s).
  destruct (status_of L px py) eqn:E; cbn [is_visit].
  - apply IH. assumption.
  - cbn [run]. rewrite step_status, E. destruct (visit fonts L qx qy s); try reflexivity. apply IH. assumption.
  - exfalso. unfold status_of in E. destruct (negb (l_visible L)); [discriminate|].
    unfold no_overflow in HL. destruct (rel_pos L px py) as [[qx qy]|]; [|congruence].
    destruct (inside L qx qy); discriminate.
Qed.

Lemma filter_rev_comm : forall {A} (f : A -> bool) (l : list A), filter f (rev l) = rev (filter f l).
Proof.
  induction l as [|x l IH]; [reflexivity|]. cbn [rev filter]. rewrite filter_app, IH. cbn [filter].
  destruct (f x); cbn [rev]; [reflexivity | rewrite app_nil_r; reflexivity].
Qed.

Lemma determined_by_visited_proof : forall B ls px py,
  Forall (fun L => no_overflow L px py) ls ->
  get_char (with_layers B ls) px py = get_char (with_layers B (filter (visited px py) ls)) px py.
Proof.
  intros. rewrite !get_char_unfold. cbn [with_layers b_layers b_term b_fonts].
  rewrite <- filter_rev_comm, run_filter_visited; [reflexivity|].
  apply Forall_forall. intros x Hx. apply in_rev in Hx. rewrite Forall_forall in H. auto.
Qed.

(* what the loop reads of a visited layer *)
Definition facet := (lmode * bool * N * cell)%type.
Definition facet_of (x : lc) : facet := (l_mode (fst x), l_alpha (fst x), l_dfp (fst x), snd x).

Definition proxy (f : facet) : layer :=
  let '(m, a, d, c) := f in mkLayer true a m (0, 0)%Z None 1 1 d [[c]].

Lemma visit_proxy : forall fonts L qx qy s,
  visit fonts L qx qy s = visit fonts (proxy (facet_of (L, layer_get_char L qx qy))) 0 0 s.
Proof. intros. reflexivity. Qed.

Lemma status_proxy : forall f, status_of (proxy f) 0 0 = Visit 0 0.
Proof. intros [[[m a] d] c]. reflexivity. Qed.

(* the loop over a stack is the loop over the 1x1 proxies of its contributions *)
Lemma run_as_facets : forall fonts px py ls s,
  Forall (fun L => no_overflow L px py) ls ->
  run fonts px py ls s = run fonts 0 0 (map proxy (map facet_of (contribs px py ls))) s.
Proof.
  induction ls as [|L ls IH]; intros s H; [reflexivity|].
  inversion H as [|? ? HL Hr]; subst. unfold contribs. cbn [flat_map run]. rewrite map_app, map_app.
  rewrite step_status. unfold contrib_of. destruct (status_of L px py) eqn:E.
  - cbn [map app]. apply IH. assumption.
  - cbn [map app run]. rewrite step_status, status_proxy. rewrite <- visit_proxy.
    destruct (visit fonts L qx qy s); try reflexivity. apply IH. assumption.
  - exfalso. unfold status_of in E. destruct (negb (l_visible L)); [discriminate|].
    unfold no_overflow in HL. destruct (rel_pos L px py) as [[qx qy]|]; [|congruence].
    destruct (inside L qx qy); discriminate.
Qed.

Lemma run_facets : forall fonts px py ls ls' s,
  Forall (fun L => no_overflow L px py) ls -> Forall (fun L => no_overflow L px py) ls' ->
  map facet_of (contribs px py ls) = map facet_of (contribs px py ls') ->
  run fonts px py ls s = run fonts px py ls' s.
Proof. intros. rewrite (run_as_facets fonts px py ls), (run_as_facets fonts px py ls') by assumption. rewrite H1. reflexivity. Qed.

Lemma determined_by_contributions_proof : forall B ls ls' px py,
  Forall (fun L => no_overflow L px py) ls -> Forall (fun L => no_overflow L px py) ls' ->
  map facet_of (contribs px py (rev ls)) = map facet_of (contribs px py (rev ls')) ->
  get_char (with_layers B ls) px py = get_char (with_layers B ls') px py.
Proof.
  intros. rewrite !get_char_unfold. cbn [with_layers b_layers b_term b_fonts]. f_equal.
  apply run_facets; try assumption; apply Forall_forall; intros x Hx; apply in_rev in Hx;
    [rewrite Forall_forall in H | rewrite Forall_forall in H0]; auto.
Qed.
