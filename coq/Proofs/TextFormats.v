(* The six instances of the sync law and the per-format round-trip theorems. *)
From Coq Require Import NArith Bool List Arith Lia.
From IE Require Import Lib.Tbl Lib.Bits Lib.C15Lib Gen.Codepage Gen.TextFmt Model.Attr Model.TextBuf Model.TextWriters Model.TextParsers
                       Proofs.TextBufProofs Proofs.TextSync Proofs.TextRoundtrip.
Import ListNotations.
Local Open Scope N_scope.

(* writers are total on their domain *)
Lemma emit_cells_total WS (emit : WS -> cell -> option (list N * WS)) (dom : cell -> Prop) :
  (forall ws c, dom c -> exists r, emit ws c = Some r) ->
  forall cs ws, Forall dom cs -> exists r, emit_cells WS emit ws cs = Some r.
Proof.
  intros H. induction cs as [|c t IH]; intros ws Hd; cbn [emit_cells]; [eauto|].
  inversion Hd; subst. destruct (H ws c) as ([b1 ws1] & ->); [assumption|].
  destruct (IH ws1) as ([b2 ws2] & ->); [assumption|]. eauto.
Qed.

Lemma rows_loop_total WS emit_row eol w (dom_row : srow -> Prop) :
  (forall ws r, dom_row r -> exists x, emit_row ws r = Some x) ->
  forall rows h ws y, Forall dom_row rows -> exists bs, rows_loop WS emit_row eol w h ws rows y = Some bs.
Proof.
  intros H. induction rows as [|r t IH]; intros h ws y Hd; cbn [rows_loop]; [eauto|].
  inversion Hd; subst. destruct (H ws r) as ([[b1 ws1] x] & ->); [assumption|].
  destruct (IH h ws1 (S y)) as (b2 & ->); [assumption|]. eauto.
Qed.

Lemma cellwise_total WS emit (dom : cell -> Prop) w :
  (forall ws c, dom c -> exists r, emit ws c = Some r) ->
  forall ws r, Forall dom (row_cells w r) -> exists x, cellwise WS emit w ws r = Some x.
Proof.
  intros H ws r Hd. unfold cellwise. destruct (emit_cells_total WS emit dom H _ ws Hd) as ([b s] & ->). eauto.
Qed.

Lemma lf_cr p : lf (cr p) = lf p.
Proof. reflexivity. Qed.

(* ================= ASCII ================= *)
Definition asc_char (ch : N) : bool := (0 <? ch) && (ch <? 255) && negb (memN ch [7; 8; 10; 12; 13; 127]).
Definition asc_dom (c : cell) : Prop := asc_char (cch c) = true.
Definition asc_rel (c' c : cell) : Prop := cch c' = cch c.
Definition asc_R (ws ps : unit) (a : TextAttribute) : Prop := a = default_attribute.

Ltac split_eqb H :=
  repeat match goal with
         | |- context [N.eqb ?a ?b] =>
           destruct (N.eqb_spec a b) as [?E|?E]; [try (exfalso; subst; cbn in H; discriminate H)|]
         end.

Lemma ascii_print_char w p ch :
  asc_char ch = true -> ascii_print w p ch = Some (print_char w p (mkCell ch (pattr p))).
Proof.
  intro H. unfold ascii_print, C_BEL, C_LF, C_FF, C_CR, C_BS.
  unfold asc_char, memN in H. cbn [existsb] in H.
  split_eqb H. reflexivity.
Qed.

Lemma asc_char_small ch : asc_char ch = true -> ch mod 256 = ch /\ ch <> 0.
Proof.
  unfold asc_char. intro H. apply andb_prop in H as (H1 & _). apply andb_prop in H1 as (H1 & H2).
  apply N.ltb_lt in H1, H2. split; [apply N.mod_small|]; lia.
Qed.

Lemma default_good ch : good (mkCell ch default_attribute).
Proof. split; reflexivity. Qed.

Lemma asc_cell_sync w : cell_sync w unit unit asc_astep (asc_bstep w) asc_R asc_rel asc_emit asc_dom.
Proof.
  intros ws ps p c bs ws' HR Hd Hem. unfold asc_emit in Hem. inversion Hem; subst. clear Hem.
  destruct (asc_char_small _ Hd) as (Hm & Hz).
  assert (Ho : out_ch c = cch c).
  { unfold out_ch. destruct (N.eqb_spec (cch c) 0); [congruence|exact Hm]. }
  exists tt, (mkCell (cch c) default_attribute). split; [|split; [|split]].
  - cbn [run]. unfold step, asc_astep, asc_bstep. rewrite Ho, (ascii_print_char w p _ Hd).
    unfold lift_print, put. cbn [cat]. red in HR. rewrite <- HR, set_attr_same. reflexivity.
  - reflexivity.
  - reflexivity.
  - apply default_good.
Qed.

Lemma asc_eol_sync w : eol_sync unit unit asc_astep (asc_bstep w) EOL_CRLF asc_R.
Proof. intros ws ps p HR. destruct ps. reflexivity. Qed.

Definition dom_rows (w : nat) (dom : cell -> Prop) (b : sbuf) : Prop := Forall (fun r => Forall dom (row_cells w r)) b.

Theorem asc_roundtrip_proof : forall pr b,
  dom_rows 80 asc_dom b -> nonempty_last 80 b ->
  exists bytes, write ASC pr 80 b = WOk bytes /\
    (sauce_gate bytes = false -> bom_gate bytes = false ->
     exists q, load ASC bytes = Loaded q /\ picture 80 asc_rel b q).
Proof.
  intros pr b Hd Hl.
  destruct (rows_loop_total unit (cellwise unit asc_emit 80) EOL_CRLF 80 _
              (cellwise_total unit asc_emit asc_dom 80 ltac:(intros; unfold asc_emit; eauto)) b (length b) tt 0%nat Hd) as (body & Hbody).
  exists (prep_bytes ASC pr ++ body). split.
  - unfold write, write_body. rewrite Hbody. reflexivity.
  - intros Hs Hb. unfold load. rewrite Hs, Hb.
    assert (Hp : prep_bytes ASC pr = []) by (destruct pr; reflexivity). rewrite Hp in *. cbn [app].
    unfold parse. change (load_width ASC) with 80%nat.
    refine (assemble 80 ltac:(lia) unit unit asc_astep (asc_bstep 80) (cellwise unit asc_emit 80) EOL_CRLF asc_R _ asc_rel
              (cellwise_row_sync 80 unit unit asc_astep (asc_bstep 80) asc_R asc_rel asc_emit asc_dom (asc_cell_sync 80))
              (asc_eol_sync 80) tt tt (page0 ASC) [] tt (page0 ASC) b body eq_refl eq_refl eq_refl eq_refl eq_refl Hd Hl Hbody).
Qed.

(* ================= shared by the four colour formats ================= *)
Definition ansi_char (ch : N) : bool := (0 <? ch) && (ch <? 256) && negb (memN ch [7; 10; 12; 13; 27; 127]).

Lemma ansi_print_char w p ch :
  ansi_char ch = true -> ansi_print w p ch = Some (print_char w p (mkCell ch (pattr p))).
Proof.
  intro H. unfold ansi_print, C_BEL, C_LF, C_FF, C_CR.
  unfold ansi_char, memN in H. cbn [existsb] in H.
  split_eqb H. reflexivity.
Qed.

Lemma ansi_char_small ch : ansi_char ch = true -> ch mod 256 = ch /\ ch <> 0.
Proof.
  unfold ansi_char. intro H. apply andb_prop in H as (H1 & _). apply andb_prop in H1 as (H1 & H2).
  apply N.ltb_lt in H1, H2. split; [apply N.mod_small|]; lia.
Qed.

Lemma out_ch_ansi c : ansi_char (cch c) = true -> out_ch c = cch c.
Proof.
  intro H. destruct (ansi_char_small _ H) as (Hm & Hz). unfold out_ch.
  destruct (N.eqb_spec (cch c) 0); [congruence|exact Hm].
Qed.

(* caret attributes that make good cells *)
Definition agood (a : TextAttribute) : Prop := (N.land (attr a) ATTR_INVISIBLE =? 0) = true /\ is_bold a = false.
Lemma agood_cell ch a : agood a -> good (mkCell ch a).
Proof. intros (A & B). split; assumption. Qed.

Definition colour_dom (c : cell) : Prop :=
  foreground_color (cat c) < 16 /\ background_color (cat c) < 8 /\ attr (cat c) = 0.
Definition colour_rel (c' c : cell) : Prop :=
  cch c' = cch c /\ foreground_color (cat c') = foreground_color (cat c) /\
  background_color (cat c') = background_color (cat c).

(* the canonical caret attribute for colours (f, g) *)
Definition cattr (f g : N) : TextAttribute := mkAttr DEFAULT_FONT_PAGE f g 0.
Lemma cattr_agood f g : agood (cattr f g).
Proof. split; reflexivity. Qed.

Lemma attr_eqb_true a b : attr_eqb a b = true ->
  foreground_color a = foreground_color b /\ background_color a = background_color b /\ attr a = attr b.
Proof.
  unfold attr_eqb. intro H. apply andb_prop in H as (H & H3). apply andb_prop in H as (H1 & H2).
  apply N.eqb_eq in H1, H2, H3. auto.
Qed.

(* ================= PCBoard ================= *)
Definition pcb_char (ch : N) : bool := ansi_char ch && negb (ch =? 64).
Definition pcb_dom (c : cell) : Prop := pcb_char (cch c) = true /\ colour_dom c.
Definition pcb_R (ws : bool * TextAttribute) (ps : pcb_ps) (a : TextAttribute) : Prop :=
  ps = PNormal /\ agood a /\
  (fst ws = false -> foreground_color (snd ws) = foreground_color a /\ background_color (snd ws) = background_color a).

Lemma pcb_arun_code a0 hb hf :
  arun pcb_ps pcb_astep PNormal a0 [64; 88; hb; hf] =
  Some (PNormal, from_u8 ((N.shiftl (conv_ch hb) 4) mod 256 + conv_ch hf) Unlimited).
Proof. reflexivity. Qed.

Lemma pcb_code_sweep :
  forallb (fun f => forallb (fun g =>
    match hex_digit g, hex_digit f with
    | Some hb, Some hf =>
      match from_u8 ((N.shiftl (conv_ch hb) 4) mod 256 + conv_ch hf) Unlimited with
      | mkAttr fp f' g' a' => (fp =? DEFAULT_FONT_PAGE) && (f' =? f) && (g' =? g) && (a' =? 0)
      end
    | _, _ => false
    end) (nrange 8)) (nrange 16) = true.
Proof. vm_compute. reflexivity. Qed.

Lemma pcb_code_ok f g : f < 16 -> g < 8 ->
  exists hb hf, hex_digit g = Some hb /\ hex_digit f = Some hf /\
    from_u8 ((N.shiftl (conv_ch hb) 4) mod 256 + conv_ch hf) Unlimited = cattr f g.
Proof.
  intros Hf Hg. pose proof (nrange_forallb _ _ pcb_code_sweep f Hf) as H1. cbv beta in H1.
  pose proof (nrange_forallb _ _ H1 g Hg) as H2. cbv beta in H2.
  destruct (hex_digit g) as [hb|]; [|discriminate]. destruct (hex_digit f) as [hf|]; [|discriminate].
  exists hb, hf. split; [reflexivity|]. split; [reflexivity|].
  destruct (from_u8 _ _) as [fp f' g' a'].
  apply andb_prop in H2 as (H2 & E4). apply andb_prop in H2 as (H2 & E3). apply andb_prop in H2 as (E1 & E2).
  apply N.eqb_eq in E1, E2, E3, E4. subst. reflexivity.
Qed.

Lemma pcb_char_step w p ch : pcb_char ch = true ->
  step pcb_ps pcb_astep (pcb_bstep w) PNormal p ch = Some (PNormal, print_char w p (mkCell ch (pattr p))).
Proof.
  intro H. apply andb_prop in H as (Ha & Hn). unfold step, pcb_astep, pcb_bstep.
  destruct (ch =? 64); [discriminate|]. rewrite (ansi_print_char w p ch Ha). reflexivity.
Qed.

Lemma pcb_cell_sync w : cell_sync w pcb_ps (bool * TextAttribute) pcb_astep (pcb_bstep w) pcb_R colour_rel pcb_emit pcb_dom.
Proof.
  intros [first last] ps p c bs ws' (Hps & Hag & Hlast) (Hch & Hf & Hg & Ha) Hem. subst ps. cbn [fst snd] in Hlast.
  assert (Hansi : ansi_char (cch c) = true) by (apply andb_prop in Hch as (A & _); exact A).
  unfold pcb_emit, pcb_code in Hem. rewrite (out_ch_ansi c Hansi) in Hem.
  destruct (first || negb (attr_eqb (cat c) last)) eqn:Ec.
  - destruct (pcb_code_ok _ _ Hf Hg) as (hb & hf & Eb & Ef & Efrom). rewrite Eb, Ef in Hem. inversion Hem; subst; clear Hem.
    exists PNormal, (mkCell (cch c) (cattr (foreground_color (cat c)) (background_color (cat c)))).
    split; [|split; [|split]].
    + match goal with |- run _ _ _ _ _ ?l = _ => change l with ([64; 88; hb; hf] ++ [cch c]) end.
      rewrite (run_code_then pcb_ps pcb_astep (pcb_bstep w) [64; 88; hb; hf] (cch c) PNormal p PNormal _ _
                 (eq_trans (pcb_arun_code (pattr p) hb hf) (f_equal (fun a => Some (PNormal, a)) Efrom))
                 (pcb_char_step w _ (cch c) Hch)).
      reflexivity.
    + split; [reflexivity|]. split; [apply cattr_agood|]. cbn [fst snd cat]. intros _. split; reflexivity.
    + repeat split.
    + apply agood_cell, cattr_agood.
  - apply orb_false_elim in Ec as (E1 & E2). subst first. apply negb_false_iff in E2.
    destruct (attr_eqb_true _ _ E2) as (A1 & A2 & A3). destruct (Hlast eq_refl) as (B1 & B2).
    inversion Hem; subst; clear Hem.
    exists PNormal, (mkCell (cch c) (pattr p)). split; [|split; [|split]].
    + cbn [run app]. rewrite (pcb_char_step w p (cch c) Hch). unfold put. cbn [cat]. rewrite set_attr_same. reflexivity.
    + split; [reflexivity|]. split; [exact Hag|]. cbn [fst snd cat]. intros _. split; assumption.
    + split; [reflexivity|]. cbn [cat]. split; congruence.
    + apply agood_cell, Hag.
Qed.

Lemma pcb_eol_sync w : eol_sync pcb_ps (bool * TextAttribute) pcb_astep (pcb_bstep w) EOL_CRLF pcb_R.
Proof. intros ws ps p (Hps & _). subst ps. reflexivity. Qed.

Lemma pcb_total ws c : pcb_dom c -> exists r, pcb_emit ws c = Some r.
Proof.
  intros (_ & Hf & Hg & _). destruct ws as [first last]. unfold pcb_emit, pcb_code.
  destruct (pcb_code_ok _ _ Hf Hg) as (hb & hf & -> & -> & _).
  destruct (first || negb (attr_eqb (cat c) last)); eauto.
Qed.

(* the first byte of a PCBoard body is '@' or CR: never the first byte of a UTF-8 BOM *)
Lemma pcb_body_head b body :
  dom_rows 80 pcb_dom b -> nonempty_last 80 b ->
  rows_loop _ (cellwise _ pcb_emit 80) EOL_CRLF 80 (length b) (true, default_attribute) b 0 = Some body ->
  exists t, body = 64 :: t \/ body = 13 :: t.
Proof.
  intros Hd (Hne & Hlast) Hloop. destruct b as [|r rest]; [congruence|].
  cbn [rows_loop] in Hloop. unfold cellwise at 1 in Hloop.
  inversion Hd as [|? ? Hdr Hdrest]; subst.
  destruct (row_cells 80 r) as [|c cs] eqn:Er.
  - cbn [emit_cells] in Hloop.
    destruct (rows_loop _ _ _ _ _ _ rest 1) as [t|]; [|discriminate]. inversion Hloop; subst.
    destruct rest as [|r2 rest'].
    + exfalso. cbn [last] in Hlast. rewrite <- row_cells_length, Er in Hlast. cbn in Hlast. lia.
    + cbn [length]. rewrite <- row_cells_length, Er. cbn [length app]. eexists. right. reflexivity.
  - cbn [emit_cells] in Hloop. inversion Hdr as [|? ? Hc Hcs]; subst.
    destruct Hc as (_ & Hf & Hg & _).
    unfold pcb_emit at 1, pcb_code in Hloop. cbn [orb] in Hloop.
    destruct (pcb_code_ok _ _ Hf Hg) as (hb & hf & Eb & Ef & _). rewrite Eb, Ef in Hloop.
    destruct (emit_cells _ pcb_emit _ cs) as [[b2 s2]|]; [|discriminate].
    destruct (rows_loop _ _ _ _ _ _ rest 1) as [t|]; [|discriminate]. inversion Hloop; subst.
    eexists. left. reflexivity.
Qed.

Theorem pcb_roundtrip_proof : forall pr b,
  dom_rows 80 pcb_dom b -> nonempty_last 80 b ->
  exists bytes, write PCB pr 80 b = WOk bytes /\
    (sauce_gate bytes = false ->
     exists q, load PCB bytes = Loaded q /\ picture 80 colour_rel b q).
Proof.
  intros pr b Hd Hl.
  destruct (rows_loop_total _ (cellwise _ pcb_emit 80) EOL_CRLF 80 _
              (cellwise_total _ pcb_emit pcb_dom 80 pcb_total) b (length b) (true, default_attribute) 0%nat Hd) as (body & Hbody).
  exists (prep_bytes PCB pr ++ body). split.
  - unfold write, write_body. rewrite Hbody. reflexivity.
  - intros Hs. unfold load. rewrite Hs.
    destruct (pcb_body_head b body Hd Hl Hbody) as (t & Ht).
    assert (Hb : bom_gate (prep_bytes PCB pr ++ body) = false).
    { destruct pr; cbn [prep_bytes app]; try reflexivity; destruct Ht as [-> | ->]; reflexivity. }
    rewrite Hb. unfold parse. change (load_width PCB) with 80%nat.
    refine (assemble 80 ltac:(lia) _ _ pcb_astep (pcb_bstep 80) (cellwise _ pcb_emit 80) EOL_CRLF pcb_R _ colour_rel
              (cellwise_row_sync 80 _ _ pcb_astep (pcb_bstep 80) pcb_R colour_rel pcb_emit pcb_dom (pcb_cell_sync 80))
              (pcb_eol_sync 80) (true, default_attribute) PNormal (page0 PCB) (prep_bytes PCB pr) PNormal (page0 PCB) b body
              _ eq_refl eq_refl eq_refl _ Hd Hl Hbody).
    + destruct pr; reflexivity.
    + split; [reflexivity|]. split; [split; reflexivity|]. cbn [fst]. discriminate.
Qed.

(* ================= Renegade ================= *)
Definition ren_char (ch : N) : bool := ansi_char ch && negb (ch =? 124).
Definition ren_dom (c : cell) : Prop := ren_char (cch c) = true /\ colour_dom c.
Definition ren_R (last : TextAttribute) (ps : ren_ps) (a : TextAttribute) : Prop :=
  ps = RNormal /\ agood a /\ foreground_color last = foreground_color a /\ background_color last = background_color a.

Lemma arun_app PS astep bs1 bs2 : forall ps a,
  arun PS astep ps a (bs1 ++ bs2) =
  match arun PS astep ps a bs1 with Some (ps', a') => arun PS astep ps' a' bs2 | None => None end.
Proof.
  induction bs1 as [|ch t IH]; intros ps a; [reflexivity|].
  cbn [app arun]. destruct (astep ps a ch) as [[ps' a']|]; [apply IH|reflexivity].
Qed.

Lemma ren_fg_code a f : f < 16 ->
  arun ren_ps ren_astep RNormal a (124 :: fmt02 f) = Some (RNormal, with_fg a f).
Proof.
  intro H.
  assert (E : f = 0 \/ f = 1 \/ f = 2 \/ f = 3 \/ f = 4 \/ f = 5 \/ f = 6 \/ f = 7 \/ f = 8 \/ f = 9 \/ f = 10 \/
              f = 11 \/ f = 12 \/ f = 13 \/ f = 14 \/ f = 15) by lia.
  repeat (destruct E as [E|E]; [subst f; reflexivity|]). subst f; reflexivity.
Qed.

Lemma ren_bg_code a g : g < 8 ->
  arun ren_ps ren_astep RNormal a (124 :: fmt02 (16 + g)) = Some (RNormal, with_bg a g).
Proof.
  intro H.
  assert (E : g = 0 \/ g = 1 \/ g = 2 \/ g = 3 \/ g = 4 \/ g = 5 \/ g = 6 \/ g = 7) by lia.
  repeat (destruct E as [E|E]; [subst g; reflexivity|]). subst g; reflexivity.
Qed.

Lemma ren_char_step w p ch : ren_char ch = true ->
  step ren_ps ren_astep (ren_bstep w) RNormal p ch = Some (RNormal, print_char w p (mkCell ch (pattr p))).
Proof.
  intro H. apply andb_prop in H as (Ha & Hn). unfold step, ren_astep, ren_bstep.
  destruct (ch =? 124); [discriminate|]. rewrite (ansi_print_char w p ch Ha). reflexivity.
Qed.

Lemma agood_with_fg a f : agood a -> agood (with_fg a f).
Proof. intros (A & B). split; assumption. Qed.
Lemma agood_with_bg a g : agood a -> agood (with_bg a g).
Proof. intros (A & B). split; assumption. Qed.

Lemma ren_cell_sync w : cell_sync w ren_ps TextAttribute ren_astep (ren_bstep w) ren_R colour_rel ren_emit ren_dom.
Proof.
  intros last ps p c bs ws' (Hps & Hag & Hlf & Hlb) (Hch & Hf & Hg & Ha) Hem. subst ps.
  assert (Hansi : ansi_char (cch c) = true) by (apply andb_prop in Hch as (A & _); exact A).
  unfold ren_emit, ren_code in Hem. rewrite (out_ch_ansi c Hansi) in Hem.
  replace (4294967296 <=? 16 + background_color (cat c)) with false in Hem by (symmetry; apply N.leb_gt; lia).
  destruct (negb (attr_eqb (cat c) last)) eqn:Ec.
  - pose proof (f_equal (fun o => match o with Some (x, _) => x | None => [] end) Hem) as Hbs.
    pose proof (f_equal (fun o => match o with Some (_, y) => y | None => last end) Hem) as Hws.
    cbv beta iota in Hbs, Hws. subst bs ws'. clear Hem.
    set (a := pattr p) in *.
    set (a1 := if negb (foreground_color (cat c) =? foreground_color last) then with_fg a (foreground_color (cat c)) else a).
    set (a2 := if negb (background_color (cat c) =? background_color last) then with_bg a1 (background_color (cat c)) else a1).
    assert (Hrun : arun ren_ps ren_astep RNormal a
                     ((if negb (foreground_color (cat c) =? foreground_color last) then 124 :: fmt02 (foreground_color (cat c)) else []) ++
                      (if negb (background_color (cat c) =? background_color last) then 124 :: fmt02 (16 + background_color (cat c)) else []))
                   = Some (RNormal, a2)).
    { rewrite arun_app. unfold a2, a1.
      destruct (negb (foreground_color (cat c) =? foreground_color last)).
      - rewrite (ren_fg_code a _ Hf). destruct (negb (background_color (cat c) =? background_color last)).
        + apply ren_bg_code. exact Hg.
        + reflexivity.
      - cbn [arun]. destruct (negb (background_color (cat c) =? background_color last)).
        + apply ren_bg_code. exact Hg.
        + reflexivity. }
    assert (Hfg : foreground_color a2 = foreground_color (cat c)).
    { unfold a2, a1. destruct (N.eqb_spec (foreground_color (cat c)) (foreground_color last)) as [E|E];
        destruct (negb (background_color (cat c) =? background_color last)); cbn; congruence. }
    assert (Hbg : background_color a2 = background_color (cat c)).
    { unfold a2, a1. destruct (N.eqb_spec (background_color (cat c)) (background_color last)) as [E|E];
        destruct (negb (foreground_color (cat c) =? foreground_color last)); cbn; congruence. }
    assert (Hag2 : agood a2).
    { unfold a2, a1. destruct (negb (foreground_color (cat c) =? foreground_color last));
        destruct (negb (background_color (cat c) =? background_color last));
        repeat (apply agood_with_bg || apply agood_with_fg); exact Hag. }
    exists RNormal, (mkCell (cch c) a2). split; [|split; [|split]].
    + rewrite (run_code_then ren_ps ren_astep (ren_bstep w) _ (cch c) RNormal p RNormal a2 _ Hrun (ren_char_step w _ (cch c) Hch)).
      reflexivity.
    + split; [reflexivity|]. split; [exact Hag2|]. cbn [cat]. split; congruence.
    + split; [reflexivity|]. split; assumption.
    + apply agood_cell, Hag2.
  - apply negb_false_iff in Ec. destruct (attr_eqb_true _ _ Ec) as (A1 & A2 & A3).
    inversion Hem; subst; clear Hem.
    exists RNormal, (mkCell (cch c) (pattr p)). split; [|split; [|split]].
    + cbn [run app]. rewrite (ren_char_step w p (cch c) Hch). unfold put. cbn [cat]. rewrite set_attr_same. reflexivity.
    + split; [reflexivity|]. split; [exact Hag|]. cbn [cat]. split; assumption.
    + split; [reflexivity|]. cbn [cat]. split; congruence.
    + apply agood_cell, Hag.
Qed.

Lemma ren_eol_sync w : eol_sync ren_ps TextAttribute ren_astep (ren_bstep w) EOL_CRLF ren_R.
Proof. intros ws ps p (Hps & _). subst ps. reflexivity. Qed.

Lemma ren_total ws c : ren_dom c -> exists r, ren_emit ws c = Some r.
Proof.
  intros (_ & Hf & Hg & _). unfold ren_emit, ren_code.
  replace (4294967296 <=? 16 + background_color (cat c)) with false by (symmetry; apply N.leb_gt; lia).
  destruct (negb (attr_eqb (cat c) ws)); eauto.
Qed.

Lemma default_agood : agood default_attribute.
Proof. split; reflexivity. Qed.

Theorem ren_roundtrip_proof : forall pr b,
  dom_rows 80 ren_dom b -> nonempty_last 80 b ->
  exists bytes, write REN pr 80 b = WOk bytes /\
    (sauce_gate bytes = false -> bom_gate bytes = false ->
     exists q, load REN bytes = Loaded q /\ picture 80 colour_rel b q).
Proof.
  intros pr b Hd Hl.
  destruct (rows_loop_total _ (cellwise _ ren_emit 80) EOL_CRLF 80 _
              (cellwise_total _ ren_emit ren_dom 80 ren_total) b (length b) default_attribute 0%nat Hd) as (body & Hbody).
  exists (prep_bytes REN pr ++ body). split.
  - unfold write, write_body. rewrite Hbody. reflexivity.
  - intros Hs Hb. unfold load. rewrite Hs, Hb.
    assert (Hp : prep_bytes REN pr = []) by (destruct pr; reflexivity). rewrite Hp in *. cbn [app].
    unfold parse. change (load_width REN) with 80%nat.
    refine (assemble 80 ltac:(lia) _ _ ren_astep (ren_bstep 80) (cellwise _ ren_emit 80) EOL_CRLF ren_R _ colour_rel
              (cellwise_row_sync 80 _ _ ren_astep (ren_bstep 80) ren_R colour_rel ren_emit ren_dom (ren_cell_sync 80))
              (ren_eol_sync 80) default_attribute RNormal (page0 REN) [] RNormal (page0 REN) b body
              eq_refl eq_refl eq_refl eq_refl _ Hd Hl Hbody).
    split; [reflexivity|]. split; [apply default_agood|]. split; reflexivity.
Qed.

(* ================= Ctrl-A ================= *)
Definition ctrla_char (ch : N) : bool := ansi_char ch && negb (ch =? 1).
Definition ctrla_dom (c : cell) : Prop := ctrla_char (cch c) = true /\ colour_dom c.

(* writer and parser state determined by the colours (f, g) in force *)
Definition ctrla_ws (f g : N) : ctrla_w := mkCW (cattr f g) (7 <? f) false false.
Definition ctrla_pstate (f : N) : ctrla_ps := mkCP false (7 <? f) false.
Definition ctrla_R (ws : ctrla_w) (ps : ctrla_ps) (a : TextAttribute) : Prop :=
  exists f g, f < 16 /\ g < 8 /\ a = cattr f g /\ ps = ctrla_pstate f /\
    foreground_color (cw_last ws) = f /\ background_color (cw_last ws) = g /\ attr (cw_last ws) = 0 /\
    cw_bold ws = (7 <? f) /\ cw_high ws = false /\ cw_blink ws = false.

Definition attr_same (a b : TextAttribute) : bool :=
  (font_page a =? font_page b) && (foreground_color a =? foreground_color b) &&
  (background_color a =? background_color b) && (attr a =? attr b).
Lemma attr_same_eq a b : attr_same a b = true -> a = b.
Proof.
  destruct a, b. unfold attr_same. cbn. intro H.
  apply andb_prop in H as (H & E4). apply andb_prop in H as (H & E3). apply andb_prop in H as (E1 & E2).
  apply N.eqb_eq in E1, E2, E3, E4. subst. reflexivity.
Qed.

(* every (previous colours, next colours) pair: 16 x 8 x 16 x 8 *)
Definition ctrla_check (f g cf cb : N) : bool :=
  match arun ctrla_ps ctrla_astep (ctrla_pstate f) (cattr f g) (ctrla_code (ctrla_ws f g) (cattr cf cb)) with
  | Some (ps', a') => Bool.eqb (cp_ctrl ps') false && Bool.eqb (cp_bold ps') (7 <? cf) && Bool.eqb (cp_high ps') false &&
                      attr_same a' (cattr cf cb)
  | None => false
  end.
Lemma ctrla_sweep :
  forallb (fun f => forallb (fun g => forallb (fun cf => forallb (ctrla_check f g cf) (nrange 8)) (nrange 16)) (nrange 8)) (nrange 16) = true.
Proof. vm_compute. reflexivity. Qed.

Lemma ctrla_code_ok f g cf cb : f < 16 -> g < 8 -> cf < 16 -> cb < 8 ->
  arun ctrla_ps ctrla_astep (ctrla_pstate f) (cattr f g) (ctrla_code (ctrla_ws f g) (cattr cf cb)) =
  Some (ctrla_pstate cf, cattr cf cb).
Proof.
  intros H1 H2 H3 H4. pose proof (nrange_forallb4 _ _ _ _ _ ctrla_sweep f g cf cb H1 H2 H3 H4) as H.
  unfold ctrla_check in H. destruct (arun _ _ _ _ _) as [[ps' a']|]; [|discriminate].
  apply andb_prop in H as (H & E4). apply andb_prop in H as (H & E3). apply andb_prop in H as (E1 & E2).
  apply eqb_prop in E1, E2, E3. apply attr_same_eq in E4. subst a'. destruct ps'. cbn in *. subst. reflexivity.
Qed.

Lemma ctrla_code_canon ws a f g :
  foreground_color (cw_last ws) = f -> background_color (cw_last ws) = g ->
  cw_bold ws = (7 <? f) -> cw_high ws = false -> cw_blink ws = false -> attr a = 0 ->
  ctrla_code ws a = ctrla_code (ctrla_ws f g) (cattr (foreground_color a) (background_color a)).
Proof.
  intros E1 E2 E3 E4 E5 E6. unfold ctrla_code, is_blinking, ctrla_ws. cbn [cw_last cw_bold cw_high cw_blink cattr foreground_color background_color attr].
  rewrite E1, E2, E3, E4, E5, E6. reflexivity.
Qed.

Lemma ctrla_char_step w p ch b : ctrla_char ch = true ->
  step ctrla_ps ctrla_astep (ctrla_bstep w) (mkCP false b false) p ch =
  Some (mkCP false b false, print_char w p (mkCell ch (pattr p))).
Proof.
  intro H. apply andb_prop in H as (Ha & Hn). unfold step, ctrla_astep, ctrla_bstep. cbn [cp_ctrl]. unfold CTRL_A.
  destruct (ch =? 1); [discriminate|]. rewrite (ansi_print_char w p ch Ha). reflexivity.
Qed.

Lemma ctrla_cell_sync w : cell_sync w ctrla_ps ctrla_w ctrla_astep (ctrla_bstep w) ctrla_R colour_rel ctrla_emit ctrla_dom.
Proof.
  intros ws ps p c bs ws' (f & g & Hf & Hg & Hattr & Hps & L1 & L2 & L3 & L4 & L5 & L6) (Hch & Cf & Cg & Ca) Hem. subst ps.
  assert (Hansi : ansi_char (cch c) = true) by (apply andb_prop in Hch as (A & _); exact A).
  unfold ctrla_emit in Hem. rewrite (out_ch_ansi c Hansi) in Hem.
  destruct (negb (attr_eqb (cat c) (cw_last ws))) eqn:Ec.
  - pose proof (f_equal (fun o => match o with Some (x, _) => x | None => [] end) Hem) as Hbs.
    pose proof (f_equal (fun o => match o with Some (_, y) => y | None => ws end) Hem) as Hws.
    cbv beta iota in Hbs, Hws. subst bs ws'. clear Hem.
    rewrite (ctrla_code_canon ws (cat c) f g L1 L2 L4 L5 L6 Ca).
    exists (ctrla_pstate (foreground_color (cat c))), (mkCell (cch c) (cattr (foreground_color (cat c)) (background_color (cat c)))).
    split; [|split; [|split]].
    + assert (Hrun := ctrla_code_ok f g _ _ Hf Hg Cf Cg). rewrite <- Hattr in Hrun.
      rewrite (run_code_then ctrla_ps ctrla_astep (ctrla_bstep w) _ (cch c) _ p _ _ _ Hrun (ctrla_char_step w _ (cch c) _ Hch)).
      reflexivity.
    + exists (foreground_color (cat c)), (background_color (cat c)). cbn [cat cw_last cw_bold cw_high cw_blink].
      repeat split; try assumption; try reflexivity.
      * apply N.ltb_ge. lia.
      * unfold is_blinking, has_flag. rewrite Ca. reflexivity.
    + repeat split.
    + apply agood_cell, cattr_agood.
  - apply negb_false_iff in Ec. destruct (attr_eqb_true _ _ Ec) as (A1 & A2 & A3).
    inversion Hem; subst bs ws'; clear Hem.
    exists (ctrla_pstate f), (mkCell (cch c) (pattr p)). split; [|split; [|split]].
    + cbn [run app]. unfold ctrla_pstate. rewrite (ctrla_char_step w p (cch c) _ Hch). unfold put. cbn [cat]. rewrite set_attr_same. reflexivity.
    + exists f, g. cbn [cat]. repeat split; assumption.
    + split; [reflexivity|]. cbn [cat]. rewrite Hattr. cbn. split; congruence.
    + apply agood_cell. rewrite Hattr. apply cattr_agood.
Qed.

Lemma ctrla_eol_sync w : eol_sync ctrla_ps ctrla_w ctrla_astep (ctrla_bstep w) EOL_CRLF ctrla_R.
Proof. intros ws ps p (f & g & _ & _ & _ & Hps & _). subst ps. reflexivity. Qed.

Lemma ctrla_total ws c : ctrla_dom c -> exists r, ctrla_emit ws c = Some r.
Proof. intros _. unfold ctrla_emit. destruct (negb (attr_eqb (cat c) (cw_last ws))); eauto. Qed.

Theorem ctrla_roundtrip_proof : forall pr b,
  dom_rows 80 ctrla_dom b -> nonempty_last 80 b ->
  exists bytes, write CTRLA pr 80 b = WOk bytes /\
    (sauce_gate bytes = false -> bom_gate bytes = false ->
     exists q, load CTRLA bytes = Loaded q /\ picture 80 colour_rel b q).
Proof.
  intros pr b Hd Hl.
  destruct (rows_loop_total _ (cellwise _ ctrla_emit 80) EOL_CRLF 80 _
              (cellwise_total _ ctrla_emit ctrla_dom 80 ctrla_total) b (length b) (mkCW default_attribute false false false) 0%nat Hd) as (body & Hbody).
  exists (prep_bytes CTRLA pr ++ body). split.
  - unfold write, write_body. rewrite Hbody. reflexivity.
  - intros Hs Hb. unfold load. rewrite Hs, Hb.
    unfold parse. change (load_width CTRLA) with 80%nat.
    refine (assemble 80 ltac:(lia) _ _ ctrla_astep (ctrla_bstep 80) (cellwise _ ctrla_emit 80) EOL_CRLF ctrla_R _ colour_rel
              (cellwise_row_sync 80 _ _ ctrla_astep (ctrla_bstep 80) ctrla_R colour_rel ctrla_emit ctrla_dom (ctrla_cell_sync 80))
              (ctrla_eol_sync 80) (mkCW default_attribute false false false) (mkCP false false false) (page0 CTRLA)
              (prep_bytes CTRLA pr) (mkCP false false false) (page0 CTRLA) b body
              _ eq_refl eq_refl eq_refl _ Hd Hl Hbody).
    + destruct pr; reflexivity.
    + exists 7, 0. repeat split; reflexivity.
Qed.

(* ================= ATASCII ================= *)
Definition ata_char (ch : N) : bool := (ch <? 128) && negb (memN ch [27; 28; 29; 30; 31; 125; 126; 127]).
Definition ata_dom (c : cell) : Prop := ata_char (cch c) = true.
Definition inverse_video (c : cell) : bool := 0 <? background_color (cat c).
Definition ata_rel (c' c : cell) : Prop := cch c' = cch c /\ inverse_video c' = inverse_video c.
Definition ata_R (ws : unit) (ps : bool) (a : TextAttribute) : Prop := ps = false /\ agood a.

Lemma ata_char_prop ch : ata_char ch = true ->
  ch < 128 /\ ch <> 27 /\ ch <> 28 /\ ch <> 29 /\ ch <> 30 /\ ch <> 31 /\ ch <> 125 /\ ch <> 126 /\ ch <> 127.
Proof.
  unfold ata_char, memN. cbn [existsb]. intro H. apply andb_prop in H as (H1 & H2). apply N.ltb_lt in H1.
  apply negb_true_iff in H2. repeat (apply orb_false_elim in H2 as (?E & H2)).
  repeat match goal with E : (_ =? _) = false |- _ => apply N.eqb_neq in E end. repeat split; assumption.
Qed.

Ltac kill_eqb :=
  repeat match goal with
         | |- context [N.eqb ?a ?b] => destruct (N.eqb_spec a b) as [?E|?E]; [exfalso; lia|]
         end.

Lemma agood_ata a inv : agood a -> agood (ata_attr a inv).
Proof. intros (A & B). destruct inv; split; assumption. Qed.

Lemma ata_cell_sync w : cell_sync w bool unit ata_astep (ata_bstep w) ata_R ata_rel ata_emit ata_dom.
Proof.
  intros ws ps p c bs ws' (Hps & Hag) Hd Hem. subst ps.
  destruct (ata_char_prop _ Hd) as (H128 & N1 & N2 & N3 & N4 & N5 & N6 & N7 & N8).
  assert (Hm : cch c mod 256 = cch c) by (apply N.mod_small; lia).
  unfold ata_emit, ATA_INVERSE, ATA_ESCAPED, memN in Hem. cbn [existsb] in Hem. rewrite Hm in Hem.
  destruct (0 <? background_color (cat c)) eqn:Einv.
  - replace (256 <=? cch c + 128) with false in Hem by (symmetry; apply N.leb_gt; lia). cbn [andb] in Hem.
    assert (Hno : ((cch c + 128 =? 27) || ((cch c + 128 =? 28) || ((cch c + 128 =? 29) || ((cch c + 128 =? 30) ||
                   ((cch c + 128 =? 31) || ((cch c + 128 =? 125) || ((cch c + 128 =? 126) || ((cch c + 128 =? 127) || false)))))))) = false).
    { kill_eqb. reflexivity. }
    rewrite Hno in Hem. cbn [app] in Hem. inversion Hem; subst bs ws'; clear Hem.
    exists false, (mkCell (cch c) (ata_attr (pattr p) true)). split; [|split; [|split]].
    + cbn [run]. unfold step, ata_astep, ata_bstep.
      assert (Hmm : (cch c + 128) mod 65536 = cch c + 128) by (apply N.mod_small; lia). rewrite Hmm.
      replace (127 <? cch c + 128) with true by (symmetry; apply N.ltb_lt; lia).
      replace (cch c + 128 - 128) with (cch c) by lia.
      kill_eqb. reflexivity.
    + split; [reflexivity|]. apply agood_ata, Hag.
    + split; [reflexivity|]. unfold inverse_video. cbn [cat ata_attr with_bg with_fg background_color]. rewrite Einv. reflexivity.
    + apply agood_cell, agood_ata, Hag.
  - cbn [andb] in Hem.
    assert (Hno : ((cch c =? 27) || ((cch c =? 28) || ((cch c =? 29) || ((cch c =? 30) ||
                   ((cch c =? 31) || ((cch c =? 125) || ((cch c =? 126) || ((cch c =? 127) || false)))))))) = false).
    { kill_eqb. reflexivity. }
    rewrite Hno in Hem. cbn [app] in Hem. inversion Hem; subst bs ws'; clear Hem.
    exists false, (mkCell (cch c) (ata_attr (pattr p) false)). split; [|split; [|split]].
    + cbn [run]. unfold step, ata_astep, ata_bstep.
      assert (Hmm : cch c mod 65536 = cch c) by (apply N.mod_small; lia). rewrite Hmm.
      replace (127 <? cch c) with false by (symmetry; apply N.ltb_ge; lia).
      kill_eqb. reflexivity.
    + split; [reflexivity|]. apply agood_ata, Hag.
    + split; [reflexivity|]. unfold inverse_video. cbn [cat ata_attr with_bg with_fg background_color]. rewrite Einv. reflexivity.
    + apply agood_cell, agood_ata, Hag.
Qed.

Lemma ata_eol_sync w : eol_sync bool unit ata_astep (ata_bstep w) [ATA_EOL] ata_R.
Proof. intros ws ps p (Hps & _). subst ps. reflexivity. Qed.

Lemma ata_total ws c : ata_dom c -> exists r, ata_emit ws c = Some r.
Proof.
  intro Hd. destruct (ata_char_prop _ Hd) as (H128 & _).
  assert (Hm : cch c mod 256 = cch c) by (apply N.mod_small; lia).
  unfold ata_emit, ATA_INVERSE. rewrite Hm.
  replace (256 <=? cch c + 128) with false by (symmetry; apply N.leb_gt; lia). rewrite andb_false_r. eauto.
Qed.

Lemma ata_page0_view x y : view (lines ata_page0) x y = None.
Proof.
  unfold ata_page0. cbn [lines]. unfold view. rewrite nth_error_repeat.
  destruct (y <? LOAD_H_ata)%nat; [|reflexivity]. rewrite nth_error_repeat.
  destruct (x <? LOAD_W_ata)%nat; reflexivity.
Qed.

Theorem ata_roundtrip_proof : forall pr b,
  dom_rows 40 ata_dom b -> nonempty_last 40 b ->
  exists bytes, write ATA pr 40 b = WOk bytes /\
    (sauce_gate bytes = false ->
     exists q, load ATA bytes = Loaded q /\ (length b <= lh q)%nat /\ cells_ok 40 ata_rel b q).
Proof.
  intros pr b Hd Hl.
  destruct (rows_loop_total _ (cellwise _ ata_emit 40) [ATA_EOL] 40 _
              (cellwise_total _ ata_emit ata_dom 40 ata_total) b (length b) tt 0%nat Hd) as (body & Hbody).
  exists (prep_bytes ATA pr ++ body). split.
  - unfold write, write_body. rewrite Hbody. reflexivity.
  - intros Hs. unfold load. rewrite Hs.
    assert (Hp : prep_bytes ATA pr = []) by (destruct pr; reflexivity). rewrite Hp in *. cbn [app].
    unfold parse. change (load_width ATA) with 40%nat.
    destruct (assemble_page 40 ltac:(lia) _ _ ata_astep (ata_bstep 40) (cellwise _ ata_emit 40) [ATA_EOL] ata_R _ ata_rel
              (cellwise_row_sync 40 _ _ ata_astep (ata_bstep 40) ata_R ata_rel ata_emit ata_dom (ata_cell_sync 40))
              (ata_eol_sync 40) false tt ata_page0 b body eq_refl eq_refl ata_page0_view
              (conj eq_refl default_agood) Hd Hl Hbody) as (ps' & q & Hrun & Hlh & Hcells).
    rewrite Hrun. exists q. auto.
Qed.
