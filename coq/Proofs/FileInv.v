(* C02 (text loaders): the weak invariant on a FILE buffer (Model/FileCore.v) - the counterpart of Proofs/WeakInv.v.

   A file buffer may have height 0 (a SAUCE record may say so; `set_sauce` repairs only the width), and none of the file
   branches reads the terminal height or the buffer height in a place that can fail.  So the invariant is weaker than C01's W:

     widths >= 1 (terminal width: `eol`; buffer width: `scroll_right`'s `end_column + 1`), origin mode never WithinMargins,
     margins 0 <= first <= second, tab stops >= 0, cursor column >= 0, cursor row >= 0      - NO condition on any height.

   Every operation of the core returns a state (never RPanic) on W and keeps W.  The lemma names are those of
   Proofs/WeakInv.v: the generated proof files Gen/FileAnsiSafeW.v / Gen/FileEmuSafeW.v (one character / one stream of the
   ANSI parser and its wrappers) are C01's scripts over this interface. *)
From Coq Require Import ZArith NArith List Bool Lia.
From IE Require Import Model.FileCore Proofs.TermProofs.
Import ListNotations.
Local Open Scope Z_scope.

Definition mnn (m : option (Z * Z)) : Prop := match m with Some (a, b) => 0 <= a /\ a <= b | None => True end.
Definition WG (t : term) : Prop :=
  1 <= tw t /\ 1 <= bw t /\ origin_m t = false /\ mnn (mtb t) /\ mnn (mlr t) /\ Forall (fun x => 0 <= x) (tabs t).
Definition W (t : term) : Prop := WG t /\ 0 <= cx t /\ 0 <= cy t.
Definition okW (r : res term) : Prop := exists t', r = ROk t' /\ W t'.

Lemma WG_geo : forall t t', geo t' = geo t -> WG t -> WG t'.
Proof.
  intros t t' H. destruct (geo_inv _ _ H) as (H1 & H2 & H3 & H4 & H5 & H6 & H7 & H8).
  unfold WG. rewrite H1, H3, H5, H6, H7, H8. auto.
Qed.
Lemma W_pgeo : forall t t', pgeo t' = pgeo t -> W t -> W t'.
Proof.
  intros t t' H [HG [HX HY]]. destruct (pgeo_inv _ _ H) as (Hg & Hx & Hy).
  split; [eapply WG_geo; eauto|]. rewrite Hx, Hy. auto.
Qed.
Lemma first_nn : forall t, 0 <= first t. Proof. intro. unfold first. lia. Qed.

(* ---- the file versions of the geometry lemmas of Proofs/TermProofs.v (same names: they shadow the terminal ones) ---------- *)
Lemma pgeo_scroll_up : forall t, pgeo (scroll_up t) = pgeo t. Proof. reflexivity. Qed.
Lemma pgeo_scroll_down : forall t, pgeo (scroll_down t) = pgeo t. Proof. reflexivity. Qed.
Lemma pgeo_scroll_left : forall t, pgeo (scroll_left t) = pgeo t. Proof. reflexivity. Qed.
Lemma pgeo_clear_buffer_down : forall t, pgeo (clear_buffer_down t) = pgeo t. Proof. reflexivity. Qed.
Lemma pgeo_clear_buffer_up : forall t, pgeo (clear_buffer_up t) = pgeo t. Proof. reflexivity. Qed.
Lemma scroll_right_pgeo : forall t t', scroll_right t = ROk t' -> pgeo t' = pgeo t.
Proof.
  intros t t'. unfold scroll_right.
  match goal with |- bind ?r _ = _ -> _ => destruct r end; cbn; intro H; inversion H. reflexivity.
Qed.
Lemma check_scrolling_up_geo : forall t f, geo (check_scrolling_up t f) = geo t /\ cx (check_scrolling_up t f) = cx t.
Proof.
  intros t f. unfold check_scrolling_up. destruct (_ || _); [|split; reflexivity].
  destruct (_ <? _); [|split; reflexivity].
  pose proof (pgeo_iter scroll_down pgeo_scroll_down (Z.to_N (Z.min (first_edit t - cy t) (max_effective_scrolls t))) t) as H.
  destruct (pgeo_inv _ _ H) as (Hg & Hx & Hy). split; [exact Hg|exact Hx].
Qed.
Lemma check_scrolling_down_geo : forall t f, geo (check_scrolling_down t f) = geo t /\ cx (check_scrolling_down t f) = cx t.
Proof. intros t f. unfold check_scrolling_down. destruct (_ && _); split; reflexivity. Qed.

(* ---- limit_caret_pos ---------------------------------------------------------------------------------------------------- *)
Lemma limit_W : forall t, WG t -> exists t', limit_caret_pos t = ROk t' /\ W t' /\ geo t' = geo t.
Proof.
  intros t HG. pose proof HG as (Htw & Hbw & Ho & _).
  unfold limit_caret_pos. rewrite Ho.
  eexists; split; [reflexivity|]. split; [|reflexivity].
  split; [eapply WG_geo; [|exact HG]; reflexivity|]. unfold clampz; cbn. lia.
Qed.
Lemma limit_okW : forall t t0, WG t0 -> geo t = geo t0 -> okW (limit_caret_pos t).
Proof. intros t t0 HG Hg. destruct (limit_W t (WG_geo _ _ Hg HG)) as (t' & E & HW & _). exists t'. auto. Qed.

Lemma caret_left_okW : forall t n, WG t -> okW (caret_left t n).
Proof. intros. eapply limit_okW; [eassumption|reflexivity]. Qed.
Lemma caret_right_okW : forall t n, WG t -> okW (caret_right t n).
Proof. intros. eapply limit_okW; [eassumption|reflexivity]. Qed.
Lemma caret_up_okW : forall t n, WG t -> okW (caret_up t n).
Proof. intros. eapply limit_okW; [eassumption|]. rewrite (proj1 (check_scrolling_up_geo _ _)). reflexivity. Qed.
Lemma caret_down_okW : forall t n, WG t -> okW (caret_down t n).
Proof. intros. eapply limit_okW; [eassumption|]. rewrite (proj1 (check_scrolling_down_geo _ _)). reflexivity. Qed.
Lemma caret_index_okW : forall t, WG t -> okW (caret_index t).
Proof. intros. eapply limit_okW; [eassumption|]. rewrite (proj1 (check_scrolling_down_geo _ _)). reflexivity. Qed.
Lemma caret_reverse_index_okW : forall t, WG t -> okW (caret_reverse_index t).
Proof. intros. eapply limit_okW; [eassumption|]. rewrite (proj1 (check_scrolling_up_geo _ _)). reflexivity. Qed.
Lemma caret_next_line_okW : forall t, WG t -> okW (caret_next_line t).
Proof. intros. eapply limit_okW; [eassumption|]. rewrite (proj1 (check_scrolling_down_geo _ _)). reflexivity. Qed.

(* ---- line feed: rows are added, nothing else happens on a file buffer --------------------------------------------------------- *)
Lemma caret_lf_okW : forall t, W t -> okW (caret_lf t).
Proof.
  intros t [HG [HX HY]]. unfold caret_lf. eexists; split; [reflexivity|].
  destruct (_ >=? _); (split; [eapply WG_geo; [|exact HG]; reflexivity|]); cbn; lia.
Qed.

(* ---- printing ------------------------------------------------------------------------------------------------------------------ *)
Lemma line_insert_ok : forall row i c, 0 <= i -> exists r, line_insert_char row i c = ROk r.
Proof. intros. unfold line_insert_char. destruct (Z.ltb_spec i 0); [lia|]. eexists; reflexivity. Qed.
Lemma nth_error_resized_ex : forall A (l : list A) n d, exists x, nth_error (if Nat.ltb (length l) (S n) then resize l (S n) d else l) n = Some x.
Proof.
  intros. destruct (Nat.ltb (length l) (S n)) eqn:E.
  - assert (n < length (resize l (S n) d))%nat by (unfold resize; rewrite app_length, firstn_length, repeat_length; lia).
    destruct (nth_error (resize l (S n) d) n) eqn:Q; [eexists; reflexivity|]. apply nth_error_None in Q. lia.
  - apply Nat.ltb_ge in E. destruct (nth_error l n) eqn:Q; [eexists; reflexivity|]. apply nth_error_None in Q. lia.
Qed.

Lemma print_char_okW : forall t c, W t -> okW (print_char t c).
Proof.
  intros t c [HG [HX HY]].
  unfold print_char.
  match goal with |- okW (bind ?r _) => assert (E1 : exists t1, r = ROk t1 /\ pgeo t1 = pgeo t) end.
  { destruct (ins t); [|eexists; split; reflexivity].
    destruct (Z.ltb_spec (cy t) 0); [lia|]. cbn zeta.
    destruct (nth_error_resized_ex _ (lines t) (Z.to_nat (cy t)) []) as [row Q]. rewrite Q.
    destruct (line_insert_ok row (cx t) blank HX) as [r Er]. rewrite Er. cbn. eexists; split; reflexivity. }
  destruct E1 as (t1 & E1 & P1). rewrite E1. cbn [bind].
  set (t2 := if cy t1 + 1 >? lh t1 then set_lh t1 (cy t1 + 1) else t1).
  assert (P2 : pgeo t2 = pgeo t) by (subst t2; destruct (_ >? _); [rewrite pgeo_set_lh|]; exact P1).
  set (t4 := layer_set t2 (cx t2) (cy t2) c).
  assert (P4 : pgeo t4 = pgeo t) by (subst t4; rewrite pgeo_layer_set; exact P2).
  destruct (pgeo_inv _ _ P4) as (Hg4 & Hx4 & Hy4).
  set (t5 := set_cx t4 (cx t4 + 1)).
  assert (W5 : W t5).
  { split; [eapply WG_geo; [|exact HG]; exact Hg4|]. change (0 <= cx t4 + 1 /\ 0 <= cy t4). rewrite Hx4, Hy4. lia. }
  destruct (cx t5 >=? lw t5); [|exists t5; auto].
  destruct (awrap t5); [apply caret_lf_okW; exact W5|].
  eexists; split; [reflexivity|]. destruct W5 as [G5 [A5 B5]]. split; [eapply WG_geo; [|exact G5]; reflexivity|].
  change (0 <= cx t4 + 1) in A5. change (0 <= cy t4) in B5. change (0 <= cx t4 + 1 - 1 /\ 0 <= cy t4). lia.
Qed.

(* ---- erase / line insertion and removal / scroll right ------------------------------------------------------------------------ *)
Lemma erase_loop_ok : forall n row i c, 0 <= i -> exists r, erase_loop row i c n = ROk r.
Proof.
  induction n as [|k IH]; intros row i c Hi; cbn; [eexists; reflexivity|].
  unfold line_set_char. destruct (Z.ltb_spec i 0); [lia|]. cbn. apply IH. lia.
Qed.
Lemma okW_of_pgeo : forall t r, W t -> (exists t', r = ROk t') -> (forall t', r = ROk t' -> pgeo t' = pgeo t) -> okW r.
Proof. intros t r HW [t' E] Hp. exists t'. split; [exact E|]. eapply W_pgeo; [apply Hp; exact E|exact HW]. Qed.

Lemma caret_erase_okW : forall t n, W t -> okW (caret_erase t n).
Proof.
  intros t n HW. apply (okW_of_pgeo t); [exact HW| |intros; eapply caret_erase_pgeo; eauto].
  destruct HW as [HG [HX HY]]. unfold caret_erase.
  destruct (_ <=? 0); [eexists; reflexivity|]. destruct (cy t <? 0); [eexists; reflexivity|].
  destruct (nth_error _ _); [|eexists; reflexivity].
  destruct (erase_loop_ok (Z.to_nat (Z.min (tw t - cx t) n)) l (cx t) (32, cbg t) HX) as [r E]. rewrite E. cbn. eexists; reflexivity.
Qed.
Lemma layer_insert_line_ok : forall t i, 0 <= i -> exists t', layer_insert_line t i = ROk t'.
Proof. intros. unfold layer_insert_line. destruct (Z.ltb_spec i 0); [lia|]. eexists; reflexivity. Qed.
Lemma remove_terminal_line_okW : forall t, W t -> okW (remove_terminal_line t (cy t)).
Proof.
  intros t HW. apply (okW_of_pgeo t); [exact HW| |intros; eapply remove_terminal_line_pgeo; eauto].
  destruct HW as [HG [HX HY]]. pose proof HG as (_ & _ & _ & Hm & _).
  unfold remove_terminal_line. destruct (_ >=? _); [eexists; reflexivity|].
  destruct (Z.ltb_spec (cy t) 0); [lia|].
  change (mtb (set_lines t (remove_at (lines t) (Z.to_nat (cy t))))) with (mtb t).
  destruct (mtb t) as [[a b]|]; [|eexists; reflexivity]. cbn in Hm. apply layer_insert_line_ok. lia.
Qed.
Lemma insert_terminal_line_okW : forall t, W t -> okW (insert_terminal_line t (cy t)).
Proof.
  intros t HW. apply (okW_of_pgeo t); [exact HW| |intros; eapply insert_terminal_line_pgeo; eauto].
  destruct HW as [HG [HX HY]]. pose proof HG as (_ & _ & _ & Hm & _).
  unfold insert_terminal_line.
  destruct (mtb t) as [[a b]|]; cbn.
  - cbn in Hm. destruct (b <? zlen (lines t)); cbn.
    + destruct (Z.ltb_spec b 0); [lia|]. cbn. apply layer_insert_line_ok. exact HY.
    + apply layer_insert_line_ok. exact HY.
  - apply layer_insert_line_ok. exact HY.
Qed.
Lemma sr_row_ok : forall sc ec row, ec <> -1 -> exists r, sr_row sc ec row = ROk r.
Proof. intros. unfold sr_row. destruct (_ && _); [|eexists; reflexivity]. destruct (Z.eqb_spec ec (-1)); [contradiction|]. eexists; reflexivity. Qed.
Lemma scroll_right_okW : forall t, W t -> okW (scroll_right t).
Proof.
  intros t HW. apply (okW_of_pgeo t); [exact HW| |intros; eapply scroll_right_pgeo; eauto].
  destruct HW as [HG _]. pose proof HG as (Htw & Hbw & _).
  assert (EC : last_col t <> -1) by (unfold last_col, sat_sub, sat, I32_MIN, I32_MAX; lia).
  unfold scroll_right.
  assert (F : forall l acc, (exists ls, acc = ROk ls) -> exists ls,
             fold_left (fun acc i => do ls <- acc; if i <? 0 then ROk ls else
                          match nth_error ls (Z.to_nat i) with
                          | Some row => do r <- sr_row (first_col t) (last_col t) row; ROk (set_nth ls (Z.to_nat i) r)
                          | None => ROk ls end) l acc = ROk ls).
  { induction l as [|i l IH]; intros acc [ls E]; cbn; [exists ls; exact E|]. apply IH. subst acc. cbn.
    destruct (i <? 0); [eexists; reflexivity|]. destruct (nth_error ls (Z.to_nat i)); [|eexists; reflexivity].
    destruct (sr_row_ok (first_col t) (last_col t) l0 EC) as [r Er]. rewrite Er. cbn. eexists; reflexivity. }
  destruct (F (zrange_incl (first_edit t) (last_edit t)) (ROk (lines t))) as [ls E]; [eexists; reflexivity|].
  rewrite E. cbn. eexists; reflexivity.
Qed.

Lemma iter_okW : forall (f : term -> res term), (forall t, W t -> okW (f t)) ->
  forall n t, W t -> okW (N.iter n (fun r => bind r f) (ROk t)).
Proof.
  intros f Hf n t Ht.
  apply (N.iter_invariant n _ (fun r => bind r f) okW); [|exists t; auto].
  intros r (x & E & Hx). subst r. cbn. apply Hf. exact Hx.
Qed.
Lemma iter_W : forall (f : term -> term), (forall t, W t -> W (f t)) -> forall n t, W t -> W (N.iter n f t).
Proof. intros f Hf n t Ht. apply (N.iter_invariant n _ f W); auto. Qed.

(* ---- total operations ------------------------------------------------------------------------------------------------------------ *)
Lemma caret_ff_W : forall t, WG t -> W (caret_ff t).
Proof.
  intros t (Htw & Hbw & Ho & Hm & Hl & Ht).
  unfold W, WG, caret_ff; cbn. repeat split; try lia; auto using reset_tabs_nonneg.
Qed.
Lemma clear_screen_W : forall t, WG t -> W (clear_screen t).
Proof.
  intros t (Htw & Hbw & Ho & Hm & Hl & Ht).
  unfold W, WG, clear_screen; cbn. repeat split; try lia; auto.
Qed.
Lemma reset_terminal_WG : forall t, WG t -> WG (reset_terminal t).
Proof.
  intros t (Htw & Hbw & Ho & Hm & Hl & Ht).
  unfold WG, reset_terminal; cbn. repeat split; try lia; auto using reset_tabs_nonneg.
Qed.
Lemma ris_W : forall t, WG t -> W (reset_terminal (caret_reset (caret_ff t))).
Proof.
  intros t (Htw & Hbw & Ho & Hm & Hl & Ht).
  unfold W, WG, caret_ff; cbn. repeat split; try lia; auto using reset_tabs_nonneg.
Qed.
Lemma vd_clear_W : forall t, WG t -> W (caret_reset_color (set_pos (set_lines (reset_terminal t) []) 0 0)).
Proof.
  intros t (Htw & Hbw & Ho & Hm & Hl & Ht).
  unfold W, WG; cbn. repeat split; try lia; auto using reset_tabs_nonneg.
Qed.
Lemma set_cx_W : forall t x, 0 <= x -> W t -> W (set_cx t x).
Proof. intros t x Hx [HG [HX HY]]. split; [eapply WG_geo; [|exact HG]; reflexivity|]. cbn. lia. Qed.
Lemma set_pos_W : forall t x y, 0 <= x -> 0 <= y -> WG t -> W (set_pos t x y).
Proof. intros t x y Hx Hy HG. split; [eapply WG_geo; [|exact HG]; reflexivity|]. cbn. lia. Qed.
Lemma caret_cr_W : forall t, W t -> W (caret_cr t).
Proof. intros. apply set_cx_W; [lia|assumption]. Qed.
Lemma caret_eol_W : forall t, W t -> W (caret_eol t).
Proof. intros t HW. pose proof HW as [(Htw & _) _]. apply set_cx_W; [lia|assumption]. Qed.
Lemma upper_left_W : forall t, WG t -> W (set_pos t 0 (upper_left_y t)).
Proof.
  intros t HG. pose proof HG as (_ & _ & Ho & _). apply set_pos_W; [lia| |exact HG].
  unfold upper_left_y. rewrite Ho. apply first_nn.
Qed.
Lemma caret_home_W : forall t, WG t -> W (caret_home t).
Proof. exact upper_left_W. Qed.
Lemma caret_bs_W : forall t, W t -> W (caret_bs t).
Proof. intros t [HG [HX HY]]. split; [eapply WG_geo; [|exact HG]; reflexivity|]. cbn. lia. Qed.
Lemma set_cx_dec_W : forall t, W t -> W (set_cx t (Z.max 0 (cx t - 1))).
Proof. intros. apply set_cx_W; [lia|assumption]. Qed.

(* margins *)
Lemma clip_margins_mnn : forall lo hi limit, mnn (clip_margins lo hi limit).
Proof.
  intros. unfold clip_margins. destruct (Z.max lo 0 >? Z.min hi (limit - 1)) eqn:E; cbn; [exact I|].
  destruct (Z.gtb_spec (Z.max lo 0) (Z.min hi (limit - 1))); [discriminate|lia].
Qed.
Lemma set_margins_tb_WG : forall t a b, WG t -> WG (set_margins_tb t a b).
Proof.
  intros t a b (Htw & Hbw & Ho & Hm & Hl & Ht). unfold WG, set_margins_tb; cbn.
  repeat split; try lia; auto. apply clip_margins_mnn.
Qed.
Lemma set_margins_lr_WG : forall t a b, WG t -> WG (set_margins_lr t a b).
Proof.
  intros t a b (Htw & Hbw & Ho & Hm & Hl & Ht). unfold WG, set_margins_lr; cbn.
  repeat split; try lia; auto. apply clip_margins_mnn.
Qed.
Lemma set_margins_tb_W : forall t a b, W t -> W (set_margins_tb t a b).
Proof. intros t a b [HG HC]. split; [apply set_margins_tb_WG; exact HG|exact HC]. Qed.
Lemma set_margins_lr_W : forall t a b, W t -> W (set_margins_lr t a b).
Proof. intros t a b [HG HC]. split; [apply set_margins_lr_WG; exact HG|exact HC]. Qed.
Lemma clear_margins_W : forall t, W t -> W (set_mtb (set_mlr t None) None).
Proof.
  intros t [(Htw & Hbw & Ho & Hm & Hl & Ht) HC]. split; [|exact HC].
  unfold WG; cbn. repeat split; try lia; auto.
Qed.
Lemma declr_off_W : forall t, W t -> W (set_mlr (set_declr t false) None).
Proof.
  intros t [(Htw & Hbw & Ho & Hm & Hl & Ht) HC]. split; [|exact HC].
  unfold WG; cbn. repeat split; try lia; auto.
Qed.
Lemma set_origin_false_W : forall t, W t -> W (set_origin t false).
Proof.
  intros t [(Htw & Hbw & Ho & Hm & Hl & Ht) HC]. split; [|exact HC].
  unfold WG; cbn. repeat split; try lia; auto.
Qed.

(* tab stops *)
Lemma set_tabs_W : forall t l, Forall (fun a => 0 <= a) l -> W t -> W (set_tabs t l).
Proof.
  intros t l Hl [(Htw & Hbw & Ho & Hm & Hl' & Ht) HC]. split; [|exact HC].
  unfold WG; cbn. repeat split; try lia; auto.
Qed.
Lemma set_tab_at_W : forall t, W t -> W (set_tab_at t (cx t)).
Proof.
  intros t HW. unfold set_tab_at. destruct (existsb _ _); [exact HW|].
  apply set_tabs_W; [|exact HW]. destruct HW as [(_ & _ & _ & _ & _ & Ht) [HX _]].
  apply sort_nonneg. apply Forall_app. split; [exact Ht|]. repeat constructor. exact HX.
Qed.
Lemma remove_tab_stop_W : forall t x, W t -> W (remove_tab_stop t x).
Proof.
  intros t x HW. unfold remove_tab_stop. apply set_tabs_W; [|exact HW].
  destruct HW as [(_ & _ & _ & _ & _ & Ht) _].
  rewrite Forall_forall in *. intros a Ha. apply filter_In in Ha. apply Ht. tauto.
Qed.
Lemma cbt_step_W : forall t, W t -> W (set_cx t (prev_tab_stop t (cx t))).
Proof.
  intros t HW. pose proof HW as [(_ & _ & _ & _ & _ & Ht) [HX _]].
  apply set_cx_W; [|exact HW]. apply (prev_tab_stop_range t (cx t) Ht HX).
Qed.
(* the text-area resize: new terminal size 1..=132 x 1..=60, fresh tab stops; buffer, margins, cursor untouched *)
Lemma resize_W : forall t w h, 1 <= w -> 1 <= h -> W t -> W (set_tabs (set_tsize t w h) (reset_tabs w)).
Proof.
  intros t w h Hw Hh [(Htw & Hbw & Ho & Hm & Hl & Ht) HC]. split; [|exact HC].
  unfold WG; cbn. repeat split; try lia; auto using reset_tabs_nonneg.
Qed.
