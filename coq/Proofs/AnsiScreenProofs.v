(* C04 layer 2, part 2: the screen.  Line::set_char / Layer::set_char / Buffer::print_char / Caret::lf on the parser
   model, in terms of the observation `raw_cell` (a missing cell and an invisible cell are the same thing). *)
From Coq Require Import NArith ZArith Bool List Lia.
From IE Require Import Lib.Tbl Lib.C04Lib Gen.Codepage Gen.AnsiConsts Model.Attr Model.AnsiWriter Model.AnsiParser.
Import ListNotations.
Local Open Scope nat_scope.

Section ListSet.
  Context {A : Type}.

  Lemma list_set_length (l : list A) i fill v : length (list_set l i fill v) = Nat.max (length l) (S i).
  Proof.
    revert l. induction i as [|i IH]; intro l; destruct l as [|x r]; cbn [list_set length].
    - reflexivity.
    - lia.
    - rewrite IH. cbn [length]. lia.
    - rewrite IH. lia.
  Qed.

  Lemma list_set_same (l : list A) i fill v : nth_error (list_set l i fill v) i = Some v.
  Proof.
    revert l. induction i as [|i IH]; intro l; destruct l as [|x r]; cbn [list_set nth_error]; try reflexivity; apply IH.
  Qed.

  Lemma list_set_other (l : list A) i fill v j : j <> i ->
    nth_error (list_set l i fill v) j =
    match nth_error l j with Some c => Some c | None => if j <? i then Some fill else None end.
  Proof.
    revert l j. induction i as [|i IH]; intros l j NE; destruct l as [|x r]; destruct j as [|j]; cbn [list_set nth_error]; try congruence; try reflexivity.
    - destruct j; reflexivity.
    - destruct (nth_error r j); reflexivity.
    - rewrite IH by congruence. destruct j; cbn [nth_error]; reflexivity.
    - rewrite IH by congruence. reflexivity.
  Qed.
End ListSet.

Lemma nth_error_repeat {A} (x : A) n i : nth_error (repeat x n) i = if i <? n then Some x else None.
Proof.
  revert i. induction n as [|n IH]; intro i; destruct i as [|i]; cbn [repeat nth_error]; try reflexivity.
  rewrite IH. reflexivity.
Qed.

(* ---------------------------------------------------------------- raw_cell *)
Lemma raw_cell_app_invisible lines k w x y :
  raw_cell (lines ++ repeat (repeat invisible_cell w) k) x y = raw_cell lines x y.
Proof.
  unfold raw_cell. destruct (Nat.lt_ge_cases y (length lines)) as [L|G].
  - rewrite nth_error_app1 by exact L. reflexivity.
  - rewrite nth_error_app2 by exact G. rewrite (proj2 (nth_error_None lines y) G).
    rewrite nth_error_repeat. destruct (y - length lines <? k); [|reflexivity].
    rewrite nth_error_repeat. destruct (x <? w); reflexivity.
Qed.

Lemma raw_cell_app_empty lines k x y : raw_cell (lines ++ repeat [] k) x y = raw_cell lines x y.
Proof.
  unfold raw_cell. destruct (Nat.lt_ge_cases y (length lines)) as [L|G].
  - rewrite nth_error_app1 by exact L. reflexivity.
  - rewrite nth_error_app2 by exact G. rewrite (proj2 (nth_error_None lines y) G).
    rewrite nth_error_repeat. destruct (y - length lines <? k); [|reflexivity]. destruct x; reflexivity.
Qed.

Lemma raw_cell_set_row lines y row' x' y' : y < length lines ->
  raw_cell (list_set lines y [] row') x' y' =
  if y' =? y then match nth_error row' x' with Some c => c | None => invisible_cell end else raw_cell lines x' y'.
Proof.
  intro L. unfold raw_cell. destruct (Nat.eqb_spec y' y) as [->|NE].
  - rewrite list_set_same. reflexivity.
  - rewrite list_set_other by exact NE. destruct (nth_error lines y') eqn:E; [reflexivity|].
    apply nth_error_None in E. destruct (y' <? y) eqn:C; [|reflexivity]. apply Nat.ltb_lt in C. lia.
Qed.

Lemma line_set_char_nth row x c x' :
  match nth_error (line_set_char row x c) x' with Some d => d | None => invisible_cell end =
  if x' =? x then c else match nth_error row x' with Some d => d | None => invisible_cell end.
Proof.
  unfold line_set_char. destruct (Nat.eqb_spec x' x) as [->|NE].
  - rewrite list_set_same. reflexivity.
  - rewrite list_set_other by exact NE. destruct (nth_error row x'); [reflexivity|]. destruct (x' <? x); reflexivity.
Qed.

Local Open Scope Z_scope.

(* Layer::set_char inside the layer *)
Lemma layer_set_char_spec lines w h x y c : 0 <= x < w -> 0 <= y < h ->
  let lines' := layer_set_char lines w h x y c in
  (forall x' y', raw_cell lines' x' y' =
     if ((y' =? Z.to_nat y) && (x' =? Z.to_nat x))%nat then c else raw_cell lines x' y') /\
  length lines' = Nat.max (length lines) (S (Z.to_nat y)).
Proof.
  intros Hx Hy. unfold layer_set_char.
  assert (E : (x <? 0) || (y <? 0) || (w <=? x) || (h <=? y) = false).
  { rewrite !orb_false_iff. repeat split; [apply Z.ltb_ge|apply Z.ltb_ge|apply Z.leb_gt|apply Z.leb_gt]; lia. }
  rewrite E. clear E. cbn zeta.
  set (yn := Z.to_nat y).
  set (lines1 := if (length lines <=? yn)%nat then lines ++ repeat (repeat invisible_cell (Z.to_nat w)) (yn + 1 - length lines) else lines).
  assert (L1 : (yn < length lines1)%nat).
  { unfold lines1. destruct (length lines <=? yn)%nat eqn:C.
    - apply Nat.leb_le in C. rewrite app_length, repeat_length. lia.
    - apply Nat.leb_gt in C. exact C. }
  assert (R1 : forall x' y', raw_cell lines1 x' y' = raw_cell lines x' y').
  { intros. unfold lines1. destruct (length lines <=? yn)%nat; [apply raw_cell_app_invisible|reflexivity]. }
  assert (LEN1 : length lines1 = Nat.max (length lines) (S yn)).
  { unfold lines1. destruct (length lines <=? yn)%nat eqn:C.
    - apply Nat.leb_le in C. rewrite app_length, repeat_length. lia.
    - apply Nat.leb_gt in C. lia. }
  destruct (nth_error lines1 yn) as [row|] eqn:ER; [|apply nth_error_None in ER; lia].
  split.
  - intros x' y'. rewrite raw_cell_set_row by exact L1.
    destruct (Nat.eqb_spec y' yn) as [->|NE]; cbn [andb].
    + rewrite line_set_char_nth. destruct (x' =? Z.to_nat x)%nat; [reflexivity|].
      rewrite <- R1. unfold raw_cell. rewrite ER. reflexivity.
    + apply R1.
  - rewrite list_set_length, LEN1. lia.
Qed.

(* Layer::set_char outside the layer does nothing *)
Lemma layer_set_char_outside lines w h x y c : ~ (0 <= x < w /\ 0 <= y < h) -> layer_set_char lines w h x y c = lines.
Proof.
  intro H. unfold layer_set_char.
  destruct ((x <? 0) || (y <? 0) || (w <=? x) || (h <=? y)) eqn:E; [reflexivity|].
  rewrite !orb_false_iff in E. destruct E as [[[E1 E2] E3] E4].
  apply Z.ltb_ge in E1, E2. apply Z.leb_gt in E3, E4. lia.
Qed.

(* ---------------------------------------------------------------- parser operations on the screen *)
(* everything of the parser state that printing and cursor movement leave alone *)
Definition same_misc (p q : pst) : Prop :=
  p_mode q = p_mode p /\ p_last q = p_last p /\ p_attr q = p_attr p /\ p_cice q = p_cice p /\ p_w q = p_w p /\
  p_pal q = p_pal p /\ p_bice q = p_bice p /\ p_unmodelled q = p_unmodelled p.

Lemma same_misc_refl p : same_misc p p.
Proof. repeat split. Qed.
Lemma same_misc_trans p q r : same_misc p q -> same_misc q r -> same_misc p r.
Proof.
  intros (A1 & A2 & A3 & A4 & A5 & A6 & A7 & A8) (B1 & B2 & B3 & B4 & B5 & B6 & B7 & B8).
  repeat split; congruence.
Qed.

Definition rc (p : pst) (x y : Z) : cell := raw_cell (p_lines p) (Z.to_nat x) (Z.to_nat y).

Lemma caret_lf_spec p : 0 <= p_y p ->
  let p' := caret_lf p in
  (forall x y, raw_cell (p_lines p') x y = raw_cell (p_lines p) x y) /\
  p_x p' = 0 /\ p_y p' = p_y p + 1 /\ p_h p' = p_h p /\
  length (p_lines p') = Nat.max (length (p_lines p)) (S (S (Z.to_nat (p_y p)))) /\
  same_misc p p'.
Proof.
  intro Hy. unfold caret_lf. cbn zeta.
  set (y := p_y p + 1). set (n := length (p_lines p)).
  cbn [p_lines p_x p_y p_h upd_pos upd_lines].
  split; [|split; [reflexivity|split; [reflexivity|split; [reflexivity|split]]]].
  - intros. destruct (n <=? Z.to_nat y)%nat; [apply raw_cell_app_empty|reflexivity].
  - destruct (n <=? Z.to_nat y)%nat eqn:C.
    + apply Nat.leb_le in C. rewrite app_length, repeat_length. unfold y in *. fold n. lia.
    + apply Nat.leb_gt in C. unfold y in *. fold n. lia.
  - repeat split.
Qed.

Lemma print_char_spec p ch : 0 <= p_x p < p_w p -> 0 <= p_y p ->
  let p' := print_char p ch in
  (forall x y, raw_cell (p_lines p') x y =
     if ((y =? Z.to_nat (p_y p)) && (x =? Z.to_nat (p_x p)))%nat then (ch, get_attribute (p_cice p) (p_attr p))
     else raw_cell (p_lines p) x y) /\
  (if p_x p + 1 <? p_w p then p_x p' = p_x p + 1 /\ p_y p' = p_y p /\
       length (p_lines p') = Nat.max (length (p_lines p)) (S (Z.to_nat (p_y p)))
   else p_x p' = 0 /\ p_y p' = p_y p + 1 /\
       length (p_lines p') = Nat.max (length (p_lines p)) (S (S (Z.to_nat (p_y p))))) /\
  same_misc p p'.
Proof.
  intros Hx Hy. unfold print_char. cbn zeta.
  set (c := (ch, get_attribute (p_cice p) (p_attr p))).
  set (h := if p_h p <? p_y p + 1 then p_y p + 1 else p_h p).
  assert (Hh : p_y p < h) by (unfold h; destruct (p_h p <? p_y p + 1) eqn:C; [lia|apply Z.ltb_ge in C; lia]).
  destruct (layer_set_char_spec (p_lines p) (p_w p) h (p_x p) (p_y p) c Hx (conj Hy Hh)) as [RC LEN].
  cbn zeta in RC, LEN. set (lines := layer_set_char (p_lines p) (p_w p) h (p_x p) (p_y p) c) in *.
  set (p1 := upd_pos (upd_lines p lines h) (p_x p + 1) (p_y p)).
  cbn [p_w p_x upd_pos upd_lines].
  destruct (p_w p <=? p_x p + 1) eqn:W.
  - apply Z.leb_le in W. assert (E : p_x p + 1 <? p_w p = false) by (apply Z.ltb_ge; lia). rewrite E.
    destruct (caret_lf_spec p1 Hy) as (L1 & L2 & L3 & L4 & L5 & L6). cbn zeta in *.
    split; [intros x y; rewrite L1; apply RC|]. split.
    + split; [exact L2|]. split; [exact L3|]. rewrite L5. cbn [p1 p_lines upd_pos upd_lines p_y]. rewrite LEN. lia.
    + eapply same_misc_trans; [|exact L6]. repeat split.
  - apply Z.leb_gt in W. assert (E : p_x p + 1 <? p_w p = true) by (apply Z.ltb_lt; lia). rewrite E.
    split; [exact RC|]. split; [|repeat split].
    cbn [p1 p_x p_y p_lines upd_pos upd_lines]. repeat split. exact LEN.
Qed.

Lemma caret_right_spec p n : 0 <= p_x p -> 0 <= n -> p_x p + n < p_w p -> p_x p + n <= 2147483647 ->
  let p' := caret_right p n in
  p_lines p' = p_lines p /\ p_x p' = p_x p + n /\ p_y p' = p_y p /\ p_h p' = p_h p /\ same_misc p p'.
Proof.
  intros Hx Hn Hw Hm. unfold caret_right. cbn [p_lines p_x p_y p_h upd_pos].
  split; [reflexivity|]. split; [|split; [reflexivity|split; [reflexivity|repeat split]]].
  unfold limit_x, sat, i32_max, i32_min. lia.
Qed.

Lemma caret_lf_misc p : same_misc p (caret_lf p).
Proof. unfold caret_lf. repeat split. Qed.
Lemma print_char_misc p ch : same_misc p (print_char p ch).
Proof.
  unfold print_char. cbn zeta.
  match goal with |- context [if ?c then _ else _] => destruct c end; [|repeat split].
  eapply same_misc_trans; [|apply caret_lf_misc]. repeat split.
Qed.
Lemma repeat_print_misc n : forall p ch, same_misc p (repeat_print n p ch).
Proof.
  induction n as [|n IH]; intros p ch; [apply same_misc_refl|].
  cbn [repeat_print]. eapply same_misc_trans; [apply print_char_misc|apply IH].
Qed.

(* ---------------------------------------------------------------- rows that only exist as empty lines *)
(* from row yb on, every row that exists is an empty line (created by a line feed, never printed into) *)
Definition tail_ok (lines : list (list cell)) (yb : nat) : Prop :=
  forall y r, (yb <= y)%nat -> nth_error lines y = Some r -> r = [].

Lemma tail_ok_weaken lines a b : (a <= b)%nat -> tail_ok lines a -> tail_ok lines b.
Proof. intros L T y r Hy E. apply (T y r); [lia|exact E]. Qed.

Lemma tail_ok_nil yb : tail_ok [] yb.
Proof. intros y r _ E. destruct y; discriminate. Qed.

Lemma tail_ok_app_empty lines k yb : tail_ok lines yb -> tail_ok (lines ++ repeat [] k) yb.
Proof.
  intros T y r Hy E. destruct (Nat.lt_ge_cases y (length lines)) as [L|G].
  - rewrite nth_error_app1 in E by exact L. exact (T y r Hy E).
  - rewrite nth_error_app2 in E by exact G. rewrite nth_error_repeat in E.
    destruct (y - length lines <? k)%nat; [inversion E; reflexivity|discriminate].
Qed.

Lemma layer_set_char_tail lines w h x y c : 0 <= y ->
  tail_ok lines (S (Z.to_nat y)) -> tail_ok (layer_set_char lines w h x y c) (S (Z.to_nat y)).
Proof.
  intros Hy T. unfold layer_set_char.
  destruct ((x <? 0) || (y <? 0) || (w <=? x) || (h <=? y)); [exact T|]. cbn zeta.
  set (yn := Z.to_nat y) in *.
  set (lines1 := if (length lines <=? yn)%nat then lines ++ repeat (repeat invisible_cell (Z.to_nat w)) (yn + 1 - length lines) else lines).
  assert (T1 : tail_ok lines1 (S yn)).
  { unfold lines1. destruct (length lines <=? yn)%nat eqn:C; [|exact T].
    apply Nat.leb_le in C. intros y' r Hy' E.
    destruct (Nat.lt_ge_cases y' (length lines)) as [L|G].
    - rewrite nth_error_app1 in E by exact L. exact (T y' r Hy' E).
    - rewrite nth_error_app2 in E by exact G. rewrite nth_error_repeat in E.
      destruct (y' - length lines <? yn + 1 - length lines)%nat eqn:C2; [|discriminate].
      apply Nat.ltb_lt in C2. lia. }
  destruct (nth_error lines1 yn) as [row|]; [|exact T1].
  intros y' r Hy' E. rewrite list_set_other in E by lia.
  destruct (nth_error lines1 y') eqn:E2.
  - inversion E; subst. exact (T1 y' r Hy' E2).
  - destruct (y' <? yn)%nat eqn:C; [apply Nat.ltb_lt in C; lia|discriminate].
Qed.

Lemma caret_lf_tail p yb : tail_ok (p_lines p) yb -> tail_ok (p_lines (caret_lf p)) yb.
Proof.
  intro T. unfold caret_lf. cbn [p_lines upd_pos upd_lines].
  destruct (length (p_lines p) <=? Z.to_nat (p_y p + 1))%nat; [apply tail_ok_app_empty, T|exact T].
Qed.

Lemma print_char_tail p ch : 0 <= p_y p ->
  tail_ok (p_lines p) (S (Z.to_nat (p_y p))) -> tail_ok (p_lines (print_char p ch)) (S (Z.to_nat (p_y p))).
Proof.
  intros Hy T. unfold print_char. cbn zeta.
  match goal with |- context [layer_set_char ?l ?w ?h ?x ?y ?c] =>
    pose proof (layer_set_char_tail l w h x y c Hy T) as T1; set (lines := layer_set_char l w h x y c) in * end.
  destruct (p_w p <=? p_x p + 1); [apply caret_lf_tail|]; exact T1.
Qed.

(* a printed row is not an empty line *)
Lemma raw_cell_visible_row lines x y : cell_visible (raw_cell lines x y) = true ->
  exists r, nth_error lines y = Some r /\ r <> [].
Proof.
  unfold raw_cell. destruct (nth_error lines y) as [r|]; [|discriminate].
  intro V. exists r. split; [reflexivity|]. intro E. subst r. destruct x; discriminate.
Qed.

Lemma repeat_print_spec n : forall p ch, 0 <= p_x p -> 0 <= p_y p -> p_x p + Z.of_nat n <= p_w p ->
  let p' := repeat_print n p ch in
  (forall x y, raw_cell (p_lines p') x y =
     if ((y =? Z.to_nat (p_y p)) && (Z.to_nat (p_x p) <=? x) && (x <? Z.to_nat (p_x p) + n))%nat
     then (ch, get_attribute (p_cice p) (p_attr p)) else raw_cell (p_lines p) x y) /\
  ((n = 0%nat /\ p' = p) \/
   ((0 < n)%nat /\ if p_x p + Z.of_nat n <? p_w p then p_x p' = p_x p + Z.of_nat n /\ p_y p' = p_y p
                   else p_x p' = 0 /\ p_y p' = p_y p + 1)) /\
  same_misc p p' /\
  (tail_ok (p_lines p) (S (Z.to_nat (p_y p))) -> tail_ok (p_lines p') (S (Z.to_nat (p_y p)))).
Proof.
  induction n as [|n IH]; intros p ch Hx Hy Hw.
  - cbn [repeat_print]. split; [|split; [left; split; reflexivity|split; [apply same_misc_refl|auto]]].
    intros x y. destruct ((y =? Z.to_nat (p_y p)) && (Z.to_nat (p_x p) <=? x))%nat eqn:E; cbn [andb]; [|reflexivity].
    assert (C : (x <? Z.to_nat (p_x p) + 0)%nat = false).
    { apply Nat.ltb_ge. apply andb_prop in E as [_ E]. apply Nat.leb_le in E. lia. }
    rewrite C. reflexivity.
  - cbn [repeat_print]. cbn zeta.
    assert (Hxw : 0 <= p_x p < p_w p) by lia.
    destruct (print_char_spec p ch Hxw Hy) as (RC1 & POS1 & M1). cbn zeta in *.
    pose proof (print_char_tail p ch Hy) as T1.
    set (p1 := print_char p ch) in *.
    destruct n as [|n].
    + (* last character *)
      cbn [repeat_print]. split; [|split; [right; split; [lia|]|split; [exact M1|exact T1]]].
      * intros x y. rewrite RC1.
        destruct (Nat.eqb_spec y (Z.to_nat (p_y p))); cbn [andb]; [|reflexivity].
        destruct (Nat.eqb_spec x (Z.to_nat (p_x p))) as [->|NE].
        -- rewrite Nat.leb_refl. cbn [andb]. assert (C : (Z.to_nat (p_x p) <? Z.to_nat (p_x p) + 1)%nat = true) by (apply Nat.ltb_lt; lia). rewrite C. reflexivity.
        -- destruct (Z.to_nat (p_x p) <=? x)%nat eqn:C1; cbn [andb]; [|reflexivity].
           apply Nat.leb_le in C1. assert (C : (x <? Z.to_nat (p_x p) + 1)%nat = false) by (apply Nat.ltb_ge; lia). rewrite C. reflexivity.
      * change (Z.of_nat 1) with 1. destruct (p_x p + 1 <? p_w p); [destruct POS1 as (A & B & _)|destruct POS1 as (A & B & _)]; split; assumption.
    + (* more to come: no wrap yet *)
      assert (NW : p_x p + 1 <? p_w p = true) by (apply Z.ltb_lt; lia). rewrite NW in POS1. destruct POS1 as (X1 & Y1 & _).
      destruct M1 as (Mm & Ml & Ma & Mc & Mw & Mp & Mb & Mu).
      assert (Hx1 : 0 <= p_x p1) by lia. assert (Hy1 : 0 <= p_y p1) by lia.
      assert (Hw1 : p_x p1 + Z.of_nat (S n) <= p_w p1) by lia.
      destruct (IH p1 ch Hx1 Hy1 Hw1) as (RC2 & POS2 & M2 & T2). cbn zeta in *.
      split; [|split; [right; split; [lia|]|split; [|]]].
      * intros x y. rewrite RC2, RC1, Y1, X1, Mc, Ma.
        destruct (Nat.eqb_spec y (Z.to_nat (p_y p))); cbn [andb]; [|reflexivity].
        replace (Z.to_nat (p_x p + 1)) with (S (Z.to_nat (p_x p))) by lia.
        destruct (Nat.eqb_spec x (Z.to_nat (p_x p))) as [->|NE].
        -- assert (C0 : (S (Z.to_nat (p_x p)) <=? Z.to_nat (p_x p))%nat = false) by (apply Nat.leb_gt; lia). rewrite C0. cbn [andb].
           rewrite Nat.leb_refl. cbn [andb].
           assert (C : (Z.to_nat (p_x p) <? Z.to_nat (p_x p) + S (S n))%nat = true) by (apply Nat.ltb_lt; lia). rewrite C. reflexivity.
        -- destruct (S (Z.to_nat (p_x p)) <=? x)%nat eqn:C1; cbn [andb].
           ++ apply Nat.leb_le in C1. assert (C2 : (Z.to_nat (p_x p) <=? x)%nat = true) by (apply Nat.leb_le; lia). rewrite C2. cbn [andb].
              replace (S (Z.to_nat (p_x p)) + S n)%nat with (Z.to_nat (p_x p) + S (S n))%nat by lia. reflexivity.
           ++ apply Nat.leb_gt in C1. assert (C2 : (Z.to_nat (p_x p) <=? x)%nat = false) by (apply Nat.leb_gt; lia). rewrite C2. reflexivity.
      * destruct POS2 as [[Z0 _]|[_ POS2]]; [discriminate|].
        rewrite X1, Y1, Mw in POS2. replace (p_x p + 1 + Z.of_nat (S n)) with (p_x p + Z.of_nat (S (S n))) in POS2 by lia. exact POS2.
      * eapply same_misc_trans; [|exact M2]. repeat split; assumption.
      * intro T. rewrite Y1 in T2. apply T2, T1, T.
Qed.
