(* C08, operation part: every modelled undo operation is sound for the observational equivalence `eqv`, every modelled
   public editing operation is a sound edit (Proofs/UndoProofs.v: edit_chain), hence every history over them is
   covered by history_sound.

   eqv a b : same buffer size; same number of layers; layer by layer the same properties, size, offset, title, role and
             the same stored cell at every position (also outside `size`: hidden content counts, see notes/C08.md).
             The current layer, selection, mirror mode and caret are not part of it (the property does not list them),
             so every operation has to behave the same whatever they are. *)
From Coq Require Import List ZArith NArith Bool Arith Lia.
From IE Require Import Lib.C08Lib Gen.UndoGen Model.Undo Model.EditModel Model.EditOps Proofs.UndoProofs Proofs.LayerProofs.
Import ListNotations.
Local Open Scope Z_scope.

(* ------------------------------------------------------------------ positional list operations *)
Section Lists.
  Context {A B : Type}.
  Variable R : A -> B -> Prop.

  Lemma Forall2_upd_nth f g : forall l1 l2 n, Forall2 R l1 l2 -> (forall a b, R a b -> R (f a) (g b)) ->
    Forall2 R (upd_nth n f l1) (upd_nth n g l2).
  Proof.
    intros l1 l2 n H Hf. revert n. induction H as [|a b l1 l2 Hab H IH]; intro n; [constructor|].
    destruct n; cbn; constructor; auto.
  Qed.

  Lemma Forall2_upd_nth_l f : forall l1 l2 n, Forall2 R l1 l2 ->
    (forall a b, nth_error l1 n = Some a -> nth_error l2 n = Some b -> R a b -> R (f a) b) ->
    Forall2 R (upd_nth n f l1) l2.
  Proof.
    intros l1 l2 n H. revert n. induction H as [|a b l1 l2 Hab H IH]; intros n Hf; [constructor|].
    destruct n as [|n]; cbn [upd_nth].
    - constructor; [apply Hf; [reflexivity|reflexivity|exact Hab]|exact H].
    - constructor; [exact Hab|]. apply IH. intros a' b' H1 H2. apply Hf; assumption.
  Qed.

  Lemma Forall2_insert_at a b : forall i l1 l2, Forall2 R l1 l2 -> R a b -> Forall2 R (insert_at i a l1) (insert_at i b l2).
  Proof.
    intros i l1 l2 H Hab. unfold insert_at. apply Forall2_app; [apply Forall2_firstn; exact H|].
    constructor; [exact Hab|apply Forall2_skipn; exact H].
  Qed.

  Lemma Forall2_remove_at : forall i l1 l2, Forall2 R l1 l2 -> Forall2 R (remove_at i l1) (remove_at i l2).
  Proof. intros i l1 l2 H. unfold remove_at. apply Forall2_app; [apply Forall2_firstn|apply Forall2_skipn]; exact H. Qed.

  Lemma Forall2_swap_at i j : forall l1 l2 r1, Forall2 R l1 l2 -> swap_at i j l1 = Some r1 ->
    exists r2, swap_at i j l2 = Some r2 /\ Forall2 R r1 r2.
  Proof.
    intros l1 l2 r1 H. unfold swap_at.
    destruct (nth_error l1 i) as [a|] eqn:Ei; [|discriminate]. destruct (nth_error l1 j) as [b|] eqn:Ej; [|discriminate].
    destruct (Forall2_nth_error_l R _ _ _ _ H Ei) as (a' & -> & Ha). destruct (Forall2_nth_error_l R _ _ _ _ H Ej) as (b' & -> & Hb).
    intro E. injection E as <-. eexists. split; [reflexivity|].
    apply Forall2_upd_nth; [|auto]. apply Forall2_upd_nth; auto.
  Qed.
End Lists.

Lemma list_ext {A} : forall l1 l2 : list A, (forall i, nth_error l1 i = nth_error l2 i) -> l1 = l2.
Proof.
  induction l1 as [|a l1 IH]; destruct l2 as [|b l2]; intro H; try reflexivity.
  - specialize (H 0%nat). discriminate.
  - specialize (H 0%nat). discriminate.
  - pose proof (H 0%nat) as H0. injection H0 as <-. f_equal. apply IH. intro i. apply (H (S i)).
Qed.

Lemma nth_error_insert_at {A} (a : A) i l k : (i <= length l)%nat ->
  nth_error (insert_at i a l) k = if (k <? i)%nat then nth_error l k else if (k =? i)%nat then Some a else nth_error l (pred k).
Proof.
  intro Hi. unfold insert_at. destruct (k <? i)%nat eqn:E.
  - apply Nat.ltb_lt in E. rewrite nth_error_app1 by (rewrite firstn_length; lia). apply nth_error_firstn_lt. exact E.
  - apply Nat.ltb_ge in E. rewrite nth_error_app2 by (rewrite firstn_length; lia). rewrite firstn_length, Nat.min_l by exact Hi.
    destruct (k =? i)%nat eqn:E2.
    + apply Nat.eqb_eq in E2. subst. rewrite Nat.sub_diag. reflexivity.
    + apply Nat.eqb_neq in E2. destruct (k - i)%nat eqn:D; [lia|]. cbn [nth_error]. rewrite nth_error_skipn. f_equal. lia.
Qed.

Lemma nth_error_remove_at {A} i (l : list A) k :
  nth_error (remove_at i l) k = if (k <? i)%nat then nth_error l k else nth_error l (S k).
Proof.
  unfold remove_at. destruct (k <? i)%nat eqn:E.
  - apply Nat.ltb_lt in E. destruct (le_lt_dec (length l) k) as [Hl|Hl].
    + assert (nth_error l k = None) as -> by (apply nth_error_None; exact Hl).
      apply nth_error_None. rewrite app_length, firstn_length, skipn_length. lia.
    + rewrite nth_error_app1 by (rewrite firstn_length; lia). apply nth_error_firstn_lt. exact E.
  - apply Nat.ltb_ge in E. destruct (le_lt_dec (length l) i) as [Hl|Hl].
    + rewrite firstn_all2 by exact Hl. rewrite skipn_all2 by lia. rewrite app_nil_r.
      assert (nth_error l k = None) as -> by (apply nth_error_None; lia). symmetry. apply nth_error_None. lia.
    + rewrite nth_error_app2 by (rewrite firstn_length; lia). rewrite firstn_length, Nat.min_l by lia.
      rewrite nth_error_skipn. f_equal. lia.
Qed.

Lemma remove_at_insert_at {A} (a : A) i l : (i <= length l)%nat -> remove_at i (insert_at i a l) = l.
Proof.
  intro Hi. apply list_ext. intro k. rewrite nth_error_remove_at.
  destruct (k <? i)%nat eqn:E.
  - rewrite nth_error_insert_at by exact Hi. rewrite E. reflexivity.
  - rewrite nth_error_insert_at by exact Hi. apply Nat.ltb_ge in E.
    replace (S k <? i)%nat with false by (symmetry; apply Nat.ltb_ge; lia).
    replace (S k =? i)%nat with false by (symmetry; apply Nat.eqb_neq; lia). reflexivity.
Qed.

Lemma insert_at_remove_at {A} (a : A) i l : nth_error l i = Some a -> insert_at i a (remove_at i l) = l.
Proof.
  intro Hn. assert (Hi : (i < length l)%nat) by (apply nth_error_Some; congruence).
  assert (Hl : (i <= length (remove_at i l))%nat).
  { unfold remove_at. rewrite app_length, firstn_length, skipn_length. lia. }
  apply list_ext. intro k. rewrite nth_error_insert_at by exact Hl.
  destruct (k <? i)%nat eqn:E; [rewrite nth_error_remove_at, E; reflexivity|]. apply Nat.ltb_ge in E.
  destruct (k =? i)%nat eqn:E2.
  - apply Nat.eqb_eq in E2. subst. symmetry. exact Hn.
  - apply Nat.eqb_neq in E2. rewrite nth_error_remove_at.
    replace (pred k <? i)%nat with false by (symmetry; apply Nat.ltb_ge; lia).
    f_equal. lia.
Qed.

Lemma insert_at_length {A} (a : A) i l : (i <= length l)%nat -> length (insert_at i a l) = S (length l).
Proof. intro H. unfold insert_at. rewrite app_length, firstn_length. cbn [length]. rewrite skipn_length. lia. Qed.

Lemma swap_at_involutive {A} i j (l r : list A) : i <> j -> swap_at i j l = Some r -> swap_at i j r = Some l.
Proof.
  intros Hij. unfold swap_at. destruct (nth_error l i) as [a|] eqn:Ei; [|discriminate].
  destruct (nth_error l j) as [b|] eqn:Ej; [|discriminate]. intro E. injection E as <-.
  assert (Fij : (i =? j)%nat = false) by (apply Nat.eqb_neq; exact Hij).
  assert (Fji : (j =? i)%nat = false) by (apply Nat.eqb_neq; lia).
  assert (Ri : nth_error (upd_nth j (fun _ => a) (upd_nth i (fun _ => b) l)) i = Some b).
  { rewrite nth_error_upd_nth, Fij, nth_error_upd_nth, Nat.eqb_refl, Ei. reflexivity. }
  assert (Rj : nth_error (upd_nth j (fun _ => a) (upd_nth i (fun _ => b) l)) j = Some a).
  { rewrite nth_error_upd_nth, Nat.eqb_refl, nth_error_upd_nth, Fji, Ej. reflexivity. }
  rewrite Ri, Rj. f_equal. apply list_ext. intro k.
  rewrite nth_error_upd_nth. destruct (k =? j)%nat eqn:Ekj.
  - apply Nat.eqb_eq in Ekj. subst k. rewrite nth_error_upd_nth, Fji, Rj. cbn [option_map]. congruence.
  - rewrite nth_error_upd_nth. destruct (k =? i)%nat eqn:Eki.
    + apply Nat.eqb_eq in Eki. subst k. rewrite Ri. cbn [option_map]. congruence.
    + rewrite nth_error_upd_nth, Ekj, nth_error_upd_nth, Eki. reflexivity.
Qed.

(* ------------------------------------------------------------------ the equivalence on edit states *)
Definition eqv (a b : estate) : Prop := bw a = bw b /\ bh a = bh b /\ Forall2 leqv (layers a) (layers b).

Lemma Forall2_leqv_refl l : Forall2 leqv l l.
Proof. induction l; constructor; auto using leqv_refl. Qed.
Lemma Forall2_leqv_sym l1 l2 : Forall2 leqv l1 l2 -> Forall2 leqv l2 l1.
Proof. induction 1; constructor; auto using leqv_sym. Qed.
Lemma Forall2_leqv_trans l1 l2 l3 : Forall2 leqv l1 l2 -> Forall2 leqv l2 l3 -> Forall2 leqv l1 l3.
Proof.
  intro H. revert l3. induction H as [|a b l1 l2 Hab H IH]; intros l3 H3; inversion H3; subst; constructor; eauto using leqv_trans.
Qed.

Lemma eqv_refl a : eqv a a.
Proof. repeat split; auto using Forall2_leqv_refl. Qed.
Lemma eqv_sym a b : eqv a b -> eqv b a.
Proof. intros (H1 & H2 & H3). repeat split; auto using Forall2_leqv_sym. Qed.
Lemma eqv_trans a b c : eqv a b -> eqv b c -> eqv a c.
Proof. intros (H1 & H2 & H3) (H4 & H5 & H6). repeat split; try congruence. eapply Forall2_leqv_trans; eauto. Qed.

Lemma eqv_length a b : eqv a b -> length (layers a) = length (layers b).
Proof. intros (_ & _ & H). eapply Forall2_len; eauto. Qed.

Lemma eqv_nth a b i L : eqv a b -> nth_error (layers a) i = Some L -> exists L', nth_error (layers b) i = Some L' /\ leqv L L'.
Proof. intros (_ & _ & H) Hn. eapply Forall2_nth_error_l; eauto. Qed.

Lemma eqv_nth_none a b i : eqv a b -> nth_error (layers a) i = None -> nth_error (layers b) i = None.
Proof. intros (_ & _ & H) Hn. eapply Forall2_nth_error_none; eauto. Qed.

Lemma eqv_with_layers a b la lb : bw a = bw b -> bh a = bh b -> Forall2 leqv la lb -> eqv (with_layers a la) (with_layers b lb).
Proof. intros. repeat split; assumption. Qed.

Lemma eqv_upd_layer a b i f g : eqv a b -> (forall L1 L2, leqv L1 L2 -> leqv (f L1) (g L2)) -> eqv (upd_layer a i f) (upd_layer b i g).
Proof. intros (H1 & H2 & H3) Hf. apply eqv_with_layers; auto. apply Forall2_upd_nth; auto. Qed.

Lemma eqv_upd_layer_id a i f : (forall L, nth_error (layers a) i = Some L -> leqv (f L) L) -> eqv (upd_layer a i f) a.
Proof.
  intro Hf. repeat split; try reflexivity. cbn [layers upd_layer with_layers].
  apply Forall2_upd_nth_l; [apply Forall2_leqv_refl|]. intros L L' H1 H2 _. assert (L' = L) by congruence. subst. auto.
Qed.

Lemma Forall2_upd_nth_same {A} (R : A -> A -> Prop) f g : forall l n, (forall a, R a a) ->
  (forall a, nth_error l n = Some a -> R (f a) (g a)) -> Forall2 R (upd_nth n f l) (upd_nth n g l).
Proof.
  induction l as [|a l IH]; intros n Hr Hf; [constructor|].
  destruct n as [|n]; cbn [upd_nth].
  - constructor; [apply Hf; reflexivity|]. clear - Hr. induction l; constructor; auto.
  - constructor; [apply Hr|]. apply IH; [exact Hr|]. intros a' H. apply Hf. exact H.
Qed.

Lemma eqv_upd_layer_at a i f g : (forall L, nth_error (layers a) i = Some L -> leqv (f L) (g L)) -> eqv (upd_layer a i f) (upd_layer a i g).
Proof.
  intro H. repeat split; try reflexivity. cbn [layers upd_layer with_layers].
  apply Forall2_upd_nth_same; [apply leqv_refl|exact H].
Qed.

Lemma upd_layer_twice a i f g : upd_layer (upd_layer a i g) i f = upd_layer a i (fun L => f (g L)).
Proof. unfold upd_layer, with_layers. cbn. rewrite upd_nth_upd_nth. reflexivity. Qed.

Lemma eqv_with_curl a n : eqv (with_curl a n) a.
Proof. repeat split; try reflexivity; apply Forall2_leqv_refl. Qed.
Lemma eqv_with_sel a s : eqv (with_sel a s) a.
Proof. repeat split; try reflexivity; apply Forall2_leqv_refl. Qed.
Lemma eqv_with_mirror a s : eqv (with_mirror a s) a.
Proof. repeat split; try reflexivity; apply Forall2_leqv_refl. Qed.
Lemma eqv_with_caret a x y : eqv (with_caret a x y) a.
Proof. repeat split; try reflexivity; apply Forall2_leqv_refl. Qed.
Lemma eqv_clamp_cur a : eqv (clamp_cur a) a.
Proof. repeat split; try reflexivity; apply Forall2_leqv_refl. Qed.

Local Notation lclosed := (lclosed op_undo op_redo eqv).
Local Notation Undoable := (Undoable op_undo op_redo eqv).
Local Notation Redoable := (Redoable op_undo op_redo eqv).
Local Notation edit_chain := (edit_chain op_undo op_redo eqv).
Local Notation sound_edit := (sound_edit op_undo op_redo eqv).

(* operations whose payload never changes *)
Definition stable (P : uop -> estate -> estate -> Prop) : Prop :=
  forall o a b, P o a b ->
    (forall t, eqv t b -> exists t', op_undo o t = Ok (o, t') /\ eqv t' a) /\
    (forall t, eqv t a -> exists t', op_redo o t = Ok (o, t') /\ eqv t' b).

Lemma stable_lclosed P : stable P -> lclosed P P.
Proof.
  intro H. split; intros o a b HP t Ht.
  - destruct (proj1 (H _ _ _ HP) t Ht) as (t' & E & Ea). exists o, t'. auto.
  - destruct (proj2 (H _ _ _ HP) t Ht) as (t' & E & Eb). exists o, t'. auto.
Qed.

(* push_undo_action of a leaf that is redoable from the current state *)
Lemma push_sound U R (e : E) o s' : lclosed U R -> R o (cur e) s' ->
  exists e', push o e = Ok e' /\ edit_chain e e' /\ eqv (cur e') s'.
Proof.
  intros Hc HR. unfold push.
  eapply push_action_chain; eauto using eqv_refl, eqv_sym, eqv_trans.
  eapply leaf_Redoable; eauto.
Qed.

Lemma plain_sound U R (e : E) o s' : lclosed U R -> U o (cur e) s' -> edit_chain e (plain o e s').
Proof.
  intros Hc HU. unfold plain. eapply push_plain_chain; eauto using eqv_refl, eqv_sym, eqv_trans.
  eapply leaf_Undoable; eauto.
Qed.

Lemma upd_chain (e : E) f : (forall s, eqv (f s) s) -> edit_chain e (upd e f).
Proof. intro H. unfold upd. eapply set_cur_chain; eauto using eqv_refl, eqv_sym, eqv_trans. Qed.

Lemma chain_trans (e1 e2 e3 : E) : edit_chain e1 e2 -> edit_chain e2 e3 -> edit_chain e1 e3.
Proof. eapply edit_chain_trans; eauto using eqv_refl, eqv_sym, eqv_trans. Qed.

Lemma chain_refl (e : E) : edit_chain e e.
Proof. eapply edit_chain_refl; eauto using eqv_refl, eqv_sym, eqv_trans. Qed.

(* ------------------------------------------------------------------ helpers *)
Lemma nth_upd_layer a i f L : nth_error (layers a) i = Some L -> nth_error (layers (upd_layer a i f)) i = Some (f L).
Proof. intro H. cbn [layers upd_layer with_layers]. rewrite nth_error_upd_nth, Nat.eqb_refl, H. reflexivity. Qed.

Lemma eqv_has_layer t b i L : eqv t b -> nth_error (layers b) i = Some L -> exists Lt, nth_error (layers t) i = Some Lt /\ leqv Lt L.
Proof. intros H Hn. apply eqv_sym in H. destruct (eqv_nth _ _ _ _ H Hn) as (Lt & E & HL). exists Lt. split; auto using leqv_sym. Qed.

Lemma upd_layer_length a i f : length (layers (upd_layer a i f)) = length (layers a).
Proof. cbn [layers upd_layer with_layers]. apply upd_nth_length. Qed.

Lemma eqv_upd_both t a i f g : eqv t (upd_layer a i g) -> (forall L1 L2, leqv L1 L2 -> leqv (f L1) (f L2)) ->
  eqv (upd_layer t i f) (upd_layer a i (fun L => f (g L))).
Proof.
  intros H Hf. eapply eqv_trans; [apply (eqv_upd_layer _ _ i f f H Hf)|]. rewrite upd_layer_twice. apply eqv_refl.
Qed.

(* ------------------------------------------------------------------ UndoSetChar *)
Lemma restore_set_char L x y c : leqv (l_restore_char (l_set_char L x y c) x y (get_char L x y)) L.
Proof.
  destruct (set_char_spec L x y c) as [M1 R1]. destruct (restore_char_spec (l_set_char L x y c) x y (get_char L x y)) as [M2 R2].
  split; [congruence|]. intros x' y'. rewrite R2, (inb_meta _ _ _ _ M1), R1.
  destruct (inb L x y) eqn:Hin; cbn [andb].
  - destruct (at_pos x' y' x y) eqn:E.
    + rewrite get_char_spec, Hin. unfold at_pos in E. apply andb_prop in E. destruct E as [A B]. apply Nat.eqb_eq in A, B. subst. reflexivity.
    + rewrite andb_false_r. reflexivity.
  - unfold writable. rewrite Hin. reflexivity.
Qed.

Definition P_setchar (o : uop) (a b : estate) : Prop :=
  exists i x y new L, o = USetChar i x y (get_char L x y) new /\ nth_error (layers a) i = Some L /\
    eqv b (upd_layer a i (fun L => l_set_char L x y new)).

Lemma setchar_stable : stable P_setchar.
Proof.
  intros o a b (i & x & y & new & L & -> & Hn & Hb). split; intros t Ht.
  - destruct (eqv_has_layer t _ i _ (eqv_trans _ _ _ Ht Hb) (nth_upd_layer _ _ _ _ Hn)) as (Lt & Hnt & _).
    cbn [op_undo]. rewrite Hnt. eexists. split; [reflexivity|].
    eapply eqv_trans; [apply eqv_upd_both; [exact (eqv_trans _ _ _ Ht Hb)|intros; apply restore_char_leqv; assumption]|].
    apply eqv_upd_layer_id. intros L' HL'. assert (L' = L) by congruence. subst. apply restore_set_char.
  - destruct (eqv_has_layer t _ i _ Ht Hn) as (Lt & Hnt & _).
    cbn [op_redo]. rewrite Hnt. eexists. split; [reflexivity|].
    eapply eqv_trans; [|apply eqv_sym; exact Hb]. apply eqv_upd_layer; [exact Ht|]. intros; apply set_char_leqv; assumption.
Qed.

(* ------------------------------------------------------------------ UndoSwapChar *)
Definition P_swapchar (o : uop) (a b : estate) : Prop :=
  exists i x1 y1 x2 y2 L, o = USwapChar i x1 y1 x2 y2 /\ nth_error (layers a) i = Some L /\
    eqv b (upd_layer a i (fun L => l_swap_char L x1 y1 x2 y2)).

Lemma swapchar_stable : stable P_swapchar.
Proof.
  intros o a b (i & x1 & y1 & x2 & y2 & L & -> & Hn & Hb). split; intros t Ht.
  - destruct (eqv_has_layer t _ i _ (eqv_trans _ _ _ Ht Hb) (nth_upd_layer _ _ _ _ Hn)) as (Lt & Hnt & _).
    cbn [op_undo]. rewrite Hnt. eexists. split; [reflexivity|].
    eapply eqv_trans; [apply eqv_upd_both; [exact (eqv_trans _ _ _ Ht Hb)|intros; apply swap_char_leqv; assumption]|].
    apply eqv_upd_layer_id. intros L' _. apply swap_char_involutive.
  - destruct (eqv_has_layer t _ i _ Ht Hn) as (Lt & Hnt & _).
    cbn [op_redo]. rewrite Hnt. eexists. split; [reflexivity|].
    eapply eqv_trans; [|apply eqv_sym; exact Hb]. apply eqv_upd_layer; [exact Ht|]. intros; apply swap_char_leqv; assumption.
Qed.

(* ------------------------------------------------------------------ ToggleLayerVisibility, MoveLayer, ResizeBuffer, selection records *)
Lemma on_layer_ok e i o f err L : nth_error (layers e) i = Some L -> on_layer e i o f err = Ok (o, upd_layer e i f).
Proof. intro H. unfold on_layer. rewrite H. reflexivity. Qed.

Definition toggle (L : layer) : layer := with_visible L (negb (l_visible L)).
Lemma toggle_leqv L1 L2 : leqv L1 L2 -> leqv (toggle L1) (toggle L2).
Proof.
  intros [Hm Hr]. pose proof Hm as Hf. apply meta_fields in Hf. destruct Hf as (H1&H2&H3&H4&H5&H6&H7&H8&H9&H10&H11&H12).
  split; [|exact Hr]. unfold meta, toggle. cbn. congruence.
Qed.
Lemma toggle_toggle L : leqv (toggle (toggle L)) L.
Proof. split; [|reflexivity]. unfold meta, toggle. cbn. rewrite negb_involutive. reflexivity. Qed.

Definition P_toggle (o : uop) (a b : estate) : Prop :=
  exists i L, o = UToggleVis i /\ nth_error (layers a) i = Some L /\ eqv b (upd_layer a i toggle).

Lemma toggle_stable : stable P_toggle.
Proof.
  intros o a b (i & L & -> & Hn & Hb). split; intros t Ht.
  - destruct (eqv_has_layer t _ i _ (eqv_trans _ _ _ Ht Hb) (nth_upd_layer _ _ _ _ Hn)) as (Lt & Hnt & _).
    cbn [op_undo]. fold toggle. rewrite (on_layer_ok _ _ _ _ _ _ Hnt). eexists. split; [reflexivity|].
    eapply eqv_trans; [apply eqv_upd_both; [exact (eqv_trans _ _ _ Ht Hb)|apply toggle_leqv]|].
    apply eqv_upd_layer_id. intros L' _. apply toggle_toggle.
  - destruct (eqv_has_layer t _ i _ Ht Hn) as (Lt & Hnt & _).
    cbn [op_redo]. fold toggle. rewrite (on_layer_ok _ _ _ _ _ _ Hnt). eexists. split; [reflexivity|].
    eapply eqv_trans; [|apply eqv_sym; exact Hb]. apply eqv_upd_layer; [exact Ht|apply toggle_leqv].
Qed.

Lemma set_offset_leqv L1 L2 x y : leqv L1 L2 -> leqv (l_set_offset L1 x y) (l_set_offset L2 x y).
Proof.
  intros [Hm Hr]. pose proof Hm as Hf. apply meta_fields in Hf. destruct Hf as (H1&H2&H3&H4&H5&H6&H7&H8&H9&H10&H11&H12).
  unfold l_set_offset. rewrite H4. destruct (l_pos_locked L2) eqn:E; [split; assumption|].
  split; [|exact Hr]. unfold meta. cbn. congruence.
Qed.
Lemma set_offset_back L x y : leqv (l_set_offset (l_set_offset L x y) (l_ox L) (l_oy L)) L.
Proof.
  unfold l_set_offset. destruct (l_pos_locked L) eqn:E; [rewrite E; apply leqv_refl|]. cbn [l_pos_locked with_offset]. rewrite E.
  split; reflexivity.
Qed.

Definition P_move (o : uop) (a b : estate) : Prop :=
  exists i tx ty L, o = UMoveLayer i (l_ox L) (l_oy L) tx ty /\ nth_error (layers a) i = Some L /\
    eqv b (upd_layer a i (fun L => l_set_offset L tx ty)).

Lemma move_stable : stable P_move.
Proof.
  intros o a b (i & tx & ty & L & -> & Hn & Hb). split; intros t Ht.
  - destruct (eqv_has_layer t _ i _ (eqv_trans _ _ _ Ht Hb) (nth_upd_layer _ _ _ _ Hn)) as (Lt & Hnt & _).
    cbn [op_undo]. rewrite (on_layer_ok _ _ _ _ _ _ Hnt). eexists. split; [reflexivity|].
    eapply eqv_trans; [apply eqv_upd_both; [exact (eqv_trans _ _ _ Ht Hb)|intros; apply set_offset_leqv; assumption]|].
    apply eqv_upd_layer_id. intros L' HL'. assert (L' = L) by congruence. subst. apply set_offset_back.
  - destruct (eqv_has_layer t _ i _ Ht Hn) as (Lt & Hnt & _).
    cbn [op_redo]. rewrite (on_layer_ok _ _ _ _ _ _ Hnt). eexists. split; [reflexivity|].
    eapply eqv_trans; [|apply eqv_sym; exact Hb]. apply eqv_upd_layer; [exact Ht|]. intros; apply set_offset_leqv; assumption.
Qed.

Definition P_resize (o : uop) (a b : estate) : Prop :=
  exists nw nh, o = UResizeBuffer (bw a) (bh a) nw nh /\ eqv b (with_bsize a nw nh).

Lemma eqv_with_bsize a b w h : eqv a b -> eqv (with_bsize a w h) (with_bsize b w h).
Proof. intros (_ & _ & H). repeat split; auto. Qed.

Lemma resize_stable : stable P_resize.
Proof.
  intros o a b (nw & nh & -> & Hb). split; intros t Ht.
  - cbn [op_undo]. eexists. split; [reflexivity|].
    eapply eqv_trans; [apply eqv_with_bsize; exact (eqv_trans _ _ _ Ht Hb)|].
    repeat split; try reflexivity. apply Forall2_leqv_refl.
  - cbn [op_redo]. eexists. split; [reflexivity|].
    eapply eqv_trans; [apply eqv_with_bsize; exact Ht|]. apply eqv_sym. exact Hb.
Qed.

(* records that only touch the selection: the document is the same before and after *)
Definition P_selection (o : uop) (a b : estate) : Prop :=
  ((exists old new, o = USetSelection old new) \/ (exists s, o = USelectNothing s) \/ (exists s, o = UDeselect s)) /\ eqv a b.

Lemma selection_stable : stable P_selection.
Proof.
  intros o a b (Ho & Hab). split; intros t Ht.
  - destruct Ho as [(old & new & ->)|[(s & ->)|(s & ->)]]; cbn [op_undo]; eexists; (split; [reflexivity|]);
      (eapply eqv_trans; [apply eqv_with_sel|]); eauto using eqv_trans, eqv_sym.
  - destruct Ho as [(old & new & ->)|[(s & ->)|(s & ->)]]; cbn [op_redo]; eexists; (split; [reflexivity|]);
      (eapply eqv_trans; [apply eqv_with_sel|]); eauto using eqv_trans, eqv_sym.
Qed.

(* ------------------------------------------------------------------ RaiseLayer / LowerLayer *)
Lemma eqv_swap_at a b i j la : eqv a b -> swap_at i j (layers a) = Some la ->
  exists lb, swap_at i j (layers b) = Some lb /\ eqv (with_layers a la) (with_layers b lb).
Proof.
  intros (H1 & H2 & H3) Hs. destruct (Forall2_swap_at leqv i j _ _ _ H3 Hs) as (lb & E & HF).
  exists lb. split; [exact E|]. apply eqv_with_layers; assumption.
Qed.

Lemma with_layers_layers a : with_layers a (layers a) = a.
Proof. destruct a; reflexivity. Qed.

Definition P_raise (o : uop) (a b : estate) : Prop :=
  exists i la, o = URaise i /\ swap_at i (S i) (layers a) = Some la /\ eqv b (with_layers a la).
Definition P_lower (o : uop) (a b : estate) : Prop :=
  exists j la, o = ULower (S j) /\ swap_at (S j) j (layers a) = Some la /\ eqv b (with_layers a la).

Lemma swap_stable_aux i j a b la t : i <> j -> swap_at i j (layers a) = Some la -> eqv b (with_layers a la) ->
  (eqv t b -> exists lt, swap_at i j (layers t) = Some lt /\ eqv (with_layers t lt) a) /\
  (eqv t a -> exists lt, swap_at i j (layers t) = Some lt /\ eqv (with_layers t lt) b).
Proof.
  intros Hij Hs Hb. split; intro Ht.
  - assert (Hs' : swap_at i j (layers (with_layers a la)) = Some (layers a)) by (cbn [layers with_layers]; apply swap_at_involutive; assumption).
    destruct (eqv_swap_at _ _ i j _ (eqv_sym _ _ (eqv_trans _ _ _ Ht Hb)) Hs') as (lt & E & He).
    exists lt. split; [exact E|]. apply eqv_sym. cbn [with_layers bw bh layers] in He.
    eapply eqv_trans; [|exact He]. repeat split; try reflexivity. apply Forall2_leqv_refl.
  - destruct (eqv_swap_at _ _ i j _ (eqv_sym _ _ Ht) Hs) as (lt & E & He).
    exists lt. split; [exact E|]. eapply eqv_trans; [apply eqv_sym; exact He|]. apply eqv_sym. exact Hb.
Qed.

Lemma raise_stable : stable P_raise.
Proof.
  intros o a b (i & la & -> & Hs & Hb). split; intros t Ht.
  - destruct (proj1 (swap_stable_aux i (S i) a b la t (n_Sn i) Hs Hb) Ht) as (lt & E & He).
    cbn [op_undo]. rewrite E. eexists. split; [reflexivity|exact He].
  - destruct (proj2 (swap_stable_aux i (S i) a b la t (n_Sn i) Hs Hb) Ht) as (lt & E & He).
    cbn [op_redo]. rewrite E. eexists. split; [reflexivity|exact He].
Qed.

Lemma lower_stable : stable P_lower.
Proof.
  intros o a b (j & la & -> & Hs & Hb). assert (Hij : S j <> j) by lia. split; intros t Ht.
  - destruct (proj1 (swap_stable_aux (S j) j a b la t Hij Hs Hb) Ht) as (lt & E & He).
    cbn [op_undo]. rewrite E. eexists. split; [reflexivity|exact He].
  - destruct (proj2 (swap_stable_aux (S j) j a b la t Hij Hs Hb) Ht) as (lt & E & He).
    cbn [op_redo]. rewrite E. eexists. split; [reflexivity|exact He].
Qed.

(* ------------------------------------------------------------------ AddLayer / RemoveLayer (the layer travels between payload and document) *)
Definition U_add (o : uop) (a b : estate) : Prop :=
  exists i L pay, o = UAddLayer i pay /\ (i <= length (layers a))%nat /\ eqv b (with_layers a (insert_at i L (layers a))).
Definition R_add (o : uop) (a b : estate) : Prop :=
  exists i L, o = UAddLayer i (Some L) /\ (i <= length (layers a))%nat /\ eqv b (with_layers a (insert_at i L (layers a))).

Lemma eqv_insert a b i L1 L2 : eqv a b -> leqv L1 L2 -> eqv (with_layers a (insert_at i L1 (layers a))) (with_layers b (insert_at i L2 (layers b))).
Proof. intros (H1 & H2 & H3) HL. apply eqv_with_layers; auto. apply Forall2_insert_at; assumption. Qed.

Lemma eqv_remove a b i : eqv a b -> eqv (with_layers a (remove_at i (layers a))) (with_layers b (remove_at i (layers b))).
Proof. intros (H1 & H2 & H3). apply eqv_with_layers; auto. apply Forall2_remove_at; assumption. Qed.

Lemma add_closed : lclosed U_add R_add.
Proof.
  split.
  - intros o a b (i & L & pay & -> & Hi & Hb) t Ht.
    pose proof (eqv_trans _ _ _ Ht Hb) as Htb.
    assert (Hn : nth_error (layers (with_layers a (insert_at i L (layers a)))) i = Some L).
    { cbn [layers with_layers]. rewrite nth_error_insert_at by exact Hi. rewrite Nat.ltb_irrefl, Nat.eqb_refl. reflexivity. }
    destruct (eqv_has_layer t _ i _ Htb Hn) as (Lt & Hnt & HLt).
    cbn [op_undo]. rewrite Hnt. eexists _, _. split; [reflexivity|]. split.
    + eapply eqv_trans; [apply eqv_clamp_cur|]. eapply eqv_trans; [apply eqv_remove; exact Htb|].
      cbn [layers with_layers]. rewrite remove_at_insert_at by exact Hi.
      repeat split; try reflexivity. apply Forall2_leqv_refl.
    + exists i, Lt. split; [reflexivity|]. split; [exact Hi|]. eapply eqv_trans; [exact Hb|].
      apply eqv_insert; [apply eqv_refl|apply leqv_sym; exact HLt].
  - intros o a b (i & L & -> & Hi & Hb) t Ht.
    cbn [op_redo]. rewrite <- (eqv_length _ _ Ht) in Hi.
    replace (i <=? length (layers t))%nat with true by (symmetry; apply Nat.leb_le; exact Hi).
    eexists _, _. split; [reflexivity|]. split.
    + eapply eqv_trans; [|apply eqv_sym; exact Hb]. apply eqv_insert; [exact Ht|apply leqv_refl].
    + exists i, L, None. split; [reflexivity|]. rewrite (eqv_length _ _ Ht) in Hi. split; [exact Hi|exact Hb].
Qed.

Definition U_remove (o : uop) (a b : estate) : Prop :=
  exists i L, o = URemoveLayer i (Some L) /\ (i <= length (layers b))%nat /\ eqv a (with_layers b (insert_at i L (layers b))).
Definition R_remove (o : uop) (a b : estate) : Prop :=
  exists i L pay, o = URemoveLayer i pay /\ (i <= length (layers b))%nat /\ eqv a (with_layers b (insert_at i L (layers b))).

Lemma remove_closed : lclosed U_remove R_remove.
Proof.
  split.
  - intros o a b (i & L & -> & Hi & Ha) t Ht.
    cbn [op_undo]. rewrite <- (eqv_length _ _ Ht) in Hi.
    replace (i <=? length (layers t))%nat with true by (symmetry; apply Nat.leb_le; exact Hi).
    eexists _, _. split; [reflexivity|]. split.
    + eapply eqv_trans; [|apply eqv_sym; exact Ha]. apply eqv_insert; [exact Ht|apply leqv_refl].
    + exists i, L, None. split; [reflexivity|]. rewrite (eqv_length _ _ Ht) in Hi. split; [exact Hi|exact Ha].
  - intros o a b (i & L & pay & -> & Hi & Ha) t Ht.
    pose proof (eqv_trans _ _ _ Ht Ha) as Hta.
    assert (Hn : nth_error (layers (with_layers b (insert_at i L (layers b)))) i = Some L).
    { cbn [layers with_layers]. rewrite nth_error_insert_at by exact Hi. rewrite Nat.ltb_irrefl, Nat.eqb_refl. reflexivity. }
    destruct (eqv_has_layer t _ i _ Hta Hn) as (Lt & Hnt & HLt).
    cbn [op_redo]. rewrite Hnt. eexists _, _. split; [reflexivity|]. split.
    + eapply eqv_trans; [apply eqv_clamp_cur|]. eapply eqv_trans; [apply eqv_remove; exact Hta|].
      cbn [layers with_layers]. rewrite remove_at_insert_at by exact Hi.
      repeat split; try reflexivity. apply Forall2_leqv_refl.
    + exists i, Lt. split; [reflexivity|]. split; [exact Hi|]. eapply eqv_trans; [exact Ha|].
      apply eqv_insert; [apply eqv_refl|apply leqv_sym; exact HLt].
Qed.

(* ------------------------------------------------------------------ SetLayerSize (re-captures `from` on redo) *)
Lemma with_size_leqv L1 L2 w h : leqv L1 L2 -> leqv (with_size L1 w h) (with_size L2 w h).
Proof.
  intros [Hm Hr]. pose proof (meta_fields _ _ Hm) as (H1&H2&H3&H4&H5&H6&H7&H8&H9&H10&H11&H12).
  split; [|exact Hr]. unfold meta. cbn. congruence.
Qed.
Lemma with_size_back L w h : leqv (with_size (with_size L w h) (l_w L) (l_h L)) L.
Proof. split; reflexivity. Qed.

Definition U_lsize (o : uop) (a b : estate) : Prop :=
  exists i tw th L, o = USetLayerSize i (l_w L) (l_h L) tw th /\ nth_error (layers a) i = Some L /\
    eqv b (upd_layer a i (fun L => with_size L tw th)).
Definition R_lsize (o : uop) (a b : estate) : Prop :=
  exists i fw fh tw th L, o = USetLayerSize i fw fh tw th /\ nth_error (layers a) i = Some L /\
    eqv b (upd_layer a i (fun L => with_size L tw th)).

Lemma lsize_closed : lclosed U_lsize R_lsize.
Proof.
  split.
  - intros o a b (i & tw & th & L & -> & Hn & Hb) t Ht.
    destruct (eqv_has_layer t _ i _ (eqv_trans _ _ _ Ht Hb) (nth_upd_layer _ _ _ _ Hn)) as (Lt & Hnt & _).
    cbn [op_undo]. rewrite (on_layer_ok _ _ _ _ _ _ Hnt). eexists _, _. split; [reflexivity|]. split.
    + eapply eqv_trans; [apply eqv_upd_both; [exact (eqv_trans _ _ _ Ht Hb)|intros; apply with_size_leqv; assumption]|].
      apply eqv_upd_layer_id. intros L' HL'. assert (L' = L) by congruence. subst. apply with_size_back.
    + exists i, (l_w L), (l_h L), tw, th, L. auto.
  - intros o a b (i & fw & fh & tw & th & L & -> & Hn & Hb) t Ht.
    destruct (eqv_has_layer t _ i _ Ht Hn) as (Lt & Hnt & HLt).
    cbn [op_redo]. rewrite Hnt. eexists _, _. split; [reflexivity|]. split.
    + eapply eqv_trans; [|apply eqv_sym; exact Hb]. apply eqv_upd_layer; [exact Ht|]. intros; apply with_size_leqv; assumption.
    + exists i, tw, th, L. destruct HLt as [Hm _]. pose proof (meta_fields _ _ Hm) as (_&_&_&_&_&_&_&_&_&Hw&Hh&_).
      rewrite Hw, Hh. auto.
Qed.

(* ------------------------------------------------------------------ ClearLayer (swaps `lines` with its payload) *)
Definition lines_eq (l1 l2 : list line) : Prop := forall x y, raw l1 x y = raw l2 x y.

Lemma with_lines_leqv L1 L2 l1 l2 : leqv L1 L2 -> lines_eq l1 l2 -> leqv (with_lines L1 l1) (with_lines L2 l2).
Proof. intros [Hm _] Hl. split; [exact Hm|exact Hl]. Qed.

Definition U_clear (o : uop) (a b : estate) : Prop :=
  exists i saved L, o = UClearLayer i saved /\ nth_error (layers b) i = Some L /\ eqv a (upd_layer b i (fun L => with_lines L saved)).
Definition R_clear (o : uop) (a b : estate) : Prop :=
  exists i saved L, o = UClearLayer i saved /\ nth_error (layers a) i = Some L /\ eqv b (upd_layer a i (fun L => with_lines L saved)).

Lemma clear_flip x y i saved L t :
  nth_error (layers y) i = Some L -> eqv x (upd_layer y i (fun L => with_lines L saved)) -> eqv t y ->
  exists Lt, nth_error (layers t) i = Some Lt /\
    eqv (upd_layer t i (fun L => with_lines L saved)) x /\
    (exists Lx, nth_error (layers x) i = Some Lx /\ eqv y (upd_layer x i (fun L => with_lines L (l_lines Lt)))).
Proof.
  intros Hn Hx Ht. destruct (eqv_has_layer t _ i _ Ht Hn) as (Lt & Hnt & HLt).
  exists Lt. split; [exact Hnt|]. split.
  - eapply eqv_trans; [|apply eqv_sym; exact Hx]. apply eqv_upd_layer; [exact Ht|]. intros. apply with_lines_leqv; [assumption|intros ? ?; reflexivity].
  - destruct (eqv_has_layer x _ i _ Hx (nth_upd_layer _ _ _ _ Hn)) as (Lx & Hnx & _).
    exists Lx. split; [exact Hnx|]. apply eqv_sym.
    eapply eqv_trans; [apply eqv_upd_both; [exact Hx|intros; apply with_lines_leqv; [assumption|intros ? ?; reflexivity]]|].
    apply eqv_upd_layer_id. intros L' HL'. assert (L' = L) by congruence. subst.
    split; [reflexivity|]. intros x0 y0. destruct HLt as [_ Hr]. apply Hr.
Qed.

Lemma clear_closed : lclosed U_clear R_clear.
Proof.
  split.
  - intros o a b (i & saved & L & -> & Hn & Ha) t Ht.
    destruct (clear_flip a b i saved L t Hn Ha Ht) as (Lt & Hnt & He & (La & Hna & Hb)).
    cbn [op_undo]. rewrite Hnt. eexists _, _. split; [reflexivity|]. split; [exact He|].
    exists i, (l_lines Lt), La. auto.
  - intros o a b (i & saved & L & -> & Hn & Hb) t Ht.
    destruct (clear_flip b a i saved L t Hn Hb Ht) as (Lt & Hnt & He & (Lb & Hnb & Ha)).
    cbn [op_redo]. rewrite Hnt. eexists _, _. split; [reflexivity|]. split; [exact He|].
    exists i, (l_lines Lt), Lb. auto.
Qed.

(* ------------------------------------------------------------------ UndoLayerChange *)
Definition P_change (o : uop) (a b : estate) : Prop :=
  exists i px py old new L L', o = ULayerChange i px py old new /\ nth_error (layers a) i = Some L /\
    eqv b (upd_layer a i (fun _ => L')) /\ leqv (l_restore L' px py old) L /\ leqv (l_restore L px py new) L'.

Lemma change_stable : stable P_change.
Proof.
  intros o a b (i & px & py & old & new & L & L' & -> & Hn & Hb & Hu & Hr). split; intros t Ht.
  - destruct (eqv_has_layer t _ i _ (eqv_trans _ _ _ Ht Hb) (nth_upd_layer _ _ _ _ Hn)) as (Lt & Hnt & _).
    cbn [op_undo]. rewrite (on_layer_ok _ _ _ _ _ _ Hnt). eexists. split; [reflexivity|].
    eapply eqv_trans; [apply eqv_upd_both; [exact (eqv_trans _ _ _ Ht Hb)|intros; apply restore_leqv; assumption]|].
    apply eqv_upd_layer_id. intros L0 HL0. assert (L0 = L) by congruence. subst. exact Hu.
  - destruct (eqv_has_layer t _ i _ Ht Hn) as (Lt & Hnt & HLt).
    cbn [op_redo]. rewrite (on_layer_ok _ _ _ _ _ _ Hnt). eexists. split; [reflexivity|].
    eapply eqv_trans; [|apply eqv_sym; exact Hb].
    eapply eqv_trans; [apply (eqv_upd_layer _ _ i (fun L => l_restore L px py new) (fun L => l_restore L px py new) Ht); intros; apply restore_leqv; assumption|].
    apply eqv_upd_layer_at. intros L0 HL0. assert (L0 = L) by congruence. subst. exact Hr.
Qed.
