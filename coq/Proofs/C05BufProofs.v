(* Lemmas about the layer / buffer model of Model/C05Buf.v: get-after-set on the ragged line vector, the sequential
   fill that all loaders perform, and what Buffer::get_char then returns (pic_of). *)
From Coq Require Import NArith ZArith Bool List Lia PeanoNat.
From IE Require Import Lib.Tbl Lib.C05Lib Gen.Codepage Gen.Formats Model.Attr Model.C05Buf Model.C05Bin.
Import ListNotations.
Local Open Scope Z_scope.

(* ------------------------------------------------------------------ raw line vector *)
Lemma invisible_line w x : nth_error (line_create w) x = Some invisible_cell \/ nth_error (line_create w) x = None.
Proof.
  unfold line_create. rewrite nth_error_repeat. destruct (x <? Z.to_nat w)%nat; auto.
Qed.

Lemma cell_at_lines_set lw ls x y c x' y' :
  cell_at (lines_set lw ls x y c) x' y' =
  if ((x' =? x) && (y' =? y))%nat then c else cell_at ls x' y'.
Proof.
  unfold cell_at, lines_set. rewrite nth_error_updf.
  destruct (Nat.eqb_spec y' y) as [->|Hy].
  - rewrite andb_true_r. rewrite nth_error_pad.
    (* the line at y after padding *)
    assert (Hline : forall l, nth_error (line_set l x c) x' =
                    if (x' =? x)%nat then Some c
                    else match nth_error l x' with Some d => Some d
                         | None => if (x' <? S x)%nat then Some invisible_cell else None end).
    { intro l. unfold line_set. rewrite nth_error_updf, nth_error_pad.
      destruct (Nat.eqb_spec x' x) as [->|Hx].
      - destruct (Nat.ltb_spec x (length l)) as [H|H].
        + destruct (nth_error l x) eqn:E; [reflexivity|]. apply nth_error_None in E. lia.
        + destruct (Nat.ltb_spec x (S x)); [reflexivity|lia].
      - destruct (Nat.ltb_spec x' (length l)) as [H|H].
        + destruct (nth_error l x') eqn:E; [reflexivity|]. apply nth_error_None in E. lia.
        + assert (E : nth_error l x' = None) by (apply nth_error_None; lia). rewrite E. reflexivity. }
    destruct (Nat.ltb_spec y (length ls)) as [H|H].
    + destruct (nth_error ls y) as [l|] eqn:E; [|apply nth_error_None in E; lia].
      cbn [option_map]. rewrite Hline.
      destruct (x' =? x)%nat; [reflexivity|].
      destruct (nth_error l x'); [reflexivity|]. destruct (x' <? S x)%nat; reflexivity.
    + destruct (Nat.ltb_spec y (S y)) as [_|]; [|lia]. cbn [option_map]. rewrite Hline.
      assert (E : nth_error ls y = None) by (apply nth_error_None; lia). rewrite E.
      destruct (x' =? x)%nat; [reflexivity|].
      destruct (invisible_line lw x') as [-> | ->]; [reflexivity|].
      destruct (x' <? S x)%nat; reflexivity.
  - rewrite andb_false_r. rewrite nth_error_pad.
    destruct (Nat.ltb_spec y' (length ls)) as [H|H]; [reflexivity|].
    assert (E : nth_error ls y' = None) by (apply nth_error_None; lia). rewrite E.
    destruct (y' <? S y)%nat; [|reflexivity].
    destruct (invisible_line lw x') as [-> | ->]; reflexivity.
Qed.

Lemma length_lines_set lw ls x y c : length (lines_set lw ls x y c) = Nat.max (length ls) (S y).
Proof. unfold lines_set. rewrite updf_length, pad_length. reflexivity. Qed.

(* every stored line has at least one cell (what crop_loaded_file looks at) *)
Definition lines_nonempty (ls : list (list cell)) : Prop := Forall (fun l => l <> []) ls.

Lemma Forall_updf {A} (P : A -> Prop) l i f : Forall P l -> (forall a, P a -> P (f a)) -> Forall P (updf l i f).
Proof.
  intros H Hf. revert i. induction H as [|a l Ha Hl IH]; intros [|i]; cbn [updf]; constructor; auto.
Qed.

Lemma Forall_updf_any {A} (P : A -> Prop) l i f : Forall P l -> (forall a, P (f a)) -> Forall P (updf l i f).
Proof.
  intros H Hf. revert i. induction H as [|a l Ha Hl IH]; intros [|i]; cbn [updf]; constructor; auto.
Qed.

Lemma Forall_pad {A} (P : A -> Prop) l n d : Forall P l -> P d -> Forall P (pad l n d).
Proof.
  intros H Hd. unfold pad. apply Forall_app. split; [exact H|].
  apply Forall_forall. intros a Ha. apply repeat_spec in Ha. now subst.
Qed.

Lemma line_set_nonempty l x c : line_set l x c <> [].
Proof.
  unfold line_set. intro E. apply (f_equal (@length cell)) in E. rewrite updf_length, pad_length in E. cbn in E. lia.
Qed.

Lemma lines_set_nonempty lw ls x y c : 0 < lw -> lines_nonempty ls -> lines_nonempty (lines_set lw ls x y c).
Proof.
  intros Hw H. unfold lines_set, lines_nonempty.
  apply Forall_updf_any.
  - apply Forall_pad; [exact H|]. unfold line_create. destruct (Z.to_nat lw) eqn:E; [lia|]. discriminate.
  - intro a. apply line_set_nonempty.
Qed.

(* a predicate on cells that every stored cell satisfies; holds for the padding cell *)
Definition all_cells (P : cell -> Prop) (ls : list (list cell)) : Prop := Forall (Forall P) ls.

Lemma lines_set_all_cells (P : cell -> Prop) lw ls x y c :
  P invisible_cell -> P c -> all_cells P ls -> all_cells P (lines_set lw ls x y c).
Proof.
  intros Hi Hc H. unfold lines_set, all_cells.
  apply Forall_updf.
  - apply Forall_pad; [exact H|]. unfold line_create. apply Forall_forall. intros a Ha. apply repeat_spec in Ha. now subst.
  - intros l Hl. unfold line_set. apply Forall_updf_any; [|intro; exact Hc].
    apply Forall_pad; assumption.
Qed.

Lemma cell_at_all_cells (P : cell -> Prop) ls x y : P invisible_cell -> all_cells P ls -> P (cell_at ls x y).
Proof.
  intros Hi H. unfold cell_at. destruct (nth_error ls y) as [l|] eqn:E; [|exact Hi].
  destruct (nth_error l x) as [c|] eqn:E2; [|exact Hi].
  apply nth_error_In in E, E2. unfold all_cells in H. rewrite Forall_forall in H.
  specialize (H l E). rewrite Forall_forall in H. apply H, E2.
Qed.

(* ------------------------------------------------------------------ put *)
Lemma put_spec grow L x y c :
  0 <= x -> 0 <= y -> x < l_w L -> (grow = true \/ y < l_h L) ->
  put grow L x y c =
  mkLayer (l_w L) (if grow then y + 1 else l_h L) (lines_set (l_w L) (l_lines L) (Z.to_nat x) (Z.to_nat y) c).
Proof.
  intros Hx Hy Hw Hh. unfold put, layer_set_char, out_of_layer.
  destruct grow; cbn [layer_set_height l_w l_h l_lines].
  - destruct (Z.ltb_spec x 0); [lia|]. destruct (Z.ltb_spec y 0); [lia|].
    destruct (Z.geb_spec x (l_w L)); [lia|]. destruct (Z.geb_spec y (y + 1)); [lia|]. reflexivity.
  - destruct Hh as [Hh|Hh]; [discriminate|].
    destruct (Z.ltb_spec x 0); [lia|]. destruct (Z.ltb_spec y 0); [lia|].
    destruct (Z.geb_spec x (l_w L)); [lia|]. destruct (Z.geb_spec y (l_h L)); [lia|]. reflexivity.
Qed.

(* put never changes the width; it changes nothing else than height and lines *)
Lemma put_width grow L x y c : l_w (put grow L x y c) = l_w L.
Proof.
  unfold put, layer_set_char. destruct grow; cbn; destruct (out_of_layer _ x y); reflexivity.
Qed.

Lemma put_all_cells (P : cell -> Prop) grow L x y c :
  P invisible_cell -> P c -> all_cells P (l_lines L) -> all_cells P (l_lines (put grow L x y c)).
Proof.
  intros Hi Hc H. unfold put, layer_set_char.
  destruct (out_of_layer _ x y); [destruct grow; exact H|].
  cbn [l_lines]. apply lines_set_all_cells; try assumption. destruct grow; exact H.
Qed.

Lemma put_nonempty grow L x y c :
  0 < l_w L -> lines_nonempty (l_lines L) -> lines_nonempty (l_lines (put grow L x y c)).
Proof.
  intros Hw H. unfold put, layer_set_char.
  destruct (out_of_layer _ x y); [destruct grow; exact H|].
  cbn [l_lines]. apply lines_set_nonempty; destruct grow; assumption.
Qed.

(* ------------------------------------------------------------------ sequential fill on the raw lines *)
Fixpoint lfill_row (lw : Z) (ls : list (list cell)) (x y : nat) (cells : list cell) : list (list cell) :=
  match cells with
  | [] => ls
  | c :: t => lfill_row lw (lines_set lw ls x y c) (S x) y t
  end.
Fixpoint lfill_rows (lw : Z) (ls : list (list cell)) (y : nat) (rows : list (list cell)) : list (list cell) :=
  match rows with
  | [] => ls
  | r :: t => lfill_rows lw (lfill_row lw ls 0 y r) (S y) t
  end.

Lemma cell_at_lfill_row lw cells : forall ls x y x' y',
  cell_at (lfill_row lw ls x y cells) x' y' =
  if (y' =? y)%nat && (x <=? x')%nat
  then match nth_error cells (x' - x) with Some c => c | None => cell_at ls x' y' end
  else cell_at ls x' y'.
Proof.
  induction cells as [|c t IH]; intros ls x y x' y'; cbn [lfill_row].
  - destruct ((y' =? y)%nat && (x <=? x')%nat); [|reflexivity]. destruct (x' - x)%nat; reflexivity.
  - rewrite IH, cell_at_lines_set.
    destruct (Nat.eqb_spec y' y) as [->|Hy]; cbn [andb].
    + destruct (Nat.leb_spec (S x) x') as [H|H].
      * destruct (Nat.leb_spec x x') as [_|]; [|lia].
        replace (x' - x)%nat with (S (x' - S x)) by lia. cbn [nth_error].
        destruct (nth_error t (x' - S x)); [reflexivity|].
        destruct (Nat.eqb_spec x' x); [lia|]. reflexivity.
      * destruct (Nat.eqb_spec x' x) as [->|Hx].
        -- destruct (Nat.leb_spec x x) as [_|]; [|lia]. rewrite Nat.sub_diag. reflexivity.
        -- destruct (Nat.leb_spec x x'); [lia|]. reflexivity.
    + rewrite andb_false_r. reflexivity.
Qed.

Lemma length_lfill_row lw cells : forall ls x y,
  length (lfill_row lw ls x y cells) = match cells with [] => length ls | _ => Nat.max (length ls) (S y) end.
Proof.
  induction cells as [|c t IH]; intros ls x y; cbn [lfill_row]; [reflexivity|].
  rewrite IH, length_lines_set. destruct t; lia.
Qed.

Lemma cell_at_lfill_rows lw rows : forall ls y x' y',
  cell_at (lfill_rows lw ls y rows) x' y' =
  if (y <=? y')%nat
  then match nth_error rows (y' - y) with
       | Some r => match nth_error r x' with Some c => c | None => cell_at ls x' y' end
       | None => cell_at ls x' y'
       end
  else cell_at ls x' y'.
Proof.
  induction rows as [|r t IH]; intros ls y x' y'; cbn [lfill_rows].
  - destruct (y <=? y')%nat; [|reflexivity]. destruct (y' - y)%nat; reflexivity.
  - rewrite IH, cell_at_lfill_row.
    destruct (Nat.leb_spec (S y) y') as [H|H].
    + destruct (Nat.leb_spec y y') as [_|]; [|lia].
      replace (y' - y)%nat with (S (y' - S y)) by lia. cbn [nth_error].
      destruct (Nat.eqb_spec y' y); [lia|]. cbn [andb]. reflexivity.
    + destruct (Nat.eqb_spec y' y) as [->|Hy].
      * destruct (Nat.leb_spec y y) as [_|]; [|lia]. rewrite Nat.sub_diag. cbn [nth_error andb].
        destruct (Nat.leb_spec 0 x') as [_|]; [|lia]. rewrite Nat.sub_0_r. reflexivity.
      * destruct (Nat.leb_spec y y'); [lia|]. reflexivity.
Qed.

Lemma length_lfill_rows lw rows : forall ls y,
  Forall (fun r => r <> []) rows ->
  length (lfill_rows lw ls y rows) = match rows with [] => length ls | _ => Nat.max (length ls) (y + length rows) end.
Proof.
  induction rows as [|r t IH]; intros ls y H; cbn [lfill_rows]; [reflexivity|].
  inversion H as [|? ? Hr Ht]; subst. rewrite IH by exact Ht. rewrite length_lfill_row.
  destruct r as [|c r]; [congruence|]. cbn [length]. destruct t; cbn [length]; lia.
Qed.

Lemma lfill_row_all_cells (P : cell -> Prop) lw cells : forall ls x y,
  P invisible_cell -> Forall P cells -> all_cells P ls -> all_cells P (lfill_row lw ls x y cells).
Proof.
  induction cells as [|c t IH]; intros ls x y Hi Hc H; cbn [lfill_row]; [exact H|].
  inversion Hc; subst. apply IH; try assumption. apply lines_set_all_cells; assumption.
Qed.

Lemma lfill_row_nonempty lw cells : forall ls x y,
  0 < lw -> lines_nonempty ls -> lines_nonempty (lfill_row lw ls x y cells).
Proof.
  induction cells as [|c t IH]; intros ls x y Hw H; cbn [lfill_row]; [exact H|].
  apply IH; [exact Hw|]. apply lines_set_nonempty; assumption.
Qed.

Lemma lfill_rows_nonempty lw rows : forall ls y,
  0 < lw -> lines_nonempty ls -> lines_nonempty (lfill_rows lw ls y rows).
Proof.
  induction rows as [|r t IH]; intros ls y Hw H; cbn [lfill_rows]; [exact H|].
  apply IH; [exact Hw|]. apply lfill_row_nonempty; assumption.
Qed.

(* ------------------------------------------------------------------ the same fill on layers, through put *)
Fixpoint fill_row (grow : bool) (L : layer) (x y : Z) (cells : list cell) : layer :=
  match cells with
  | [] => L
  | c :: t => fill_row grow (put grow L x y c) (x + 1) y t
  end.
Fixpoint fill_rows (grow : bool) (L : layer) (y : Z) (rows : list (list cell)) : layer :=
  match rows with
  | [] => L
  | r :: t => fill_rows grow (fill_row grow L 0 y r) (y + 1) t
  end.

Lemma fill_row_spec grow cells : forall L x y,
  0 <= x -> 0 <= y -> x + Z.of_nat (length cells) <= l_w L -> (grow = true \/ y < l_h L) ->
  fill_row grow L x y cells =
  mkLayer (l_w L) (match cells with [] => l_h L | _ => if grow then y + 1 else l_h L end)
          (lfill_row (l_w L) (l_lines L) (Z.to_nat x) (Z.to_nat y) cells).
Proof.
  induction cells as [|c t IH]; intros L x y Hx Hy Hw Hh; cbn [fill_row lfill_row].
  - destruct L; reflexivity.
  - cbn [length] in Hw. rewrite put_spec by (try assumption; lia).
    rewrite IH; cbn [l_w l_h l_lines]; try lia.
    + replace (Z.to_nat (x + 1)) with (S (Z.to_nat x)) by lia.
      destruct t; destruct grow; reflexivity.
    + destruct grow; [left; reflexivity|right]. destruct Hh; [discriminate|assumption].
Qed.

Lemma fill_rows_spec grow rows : forall L y,
  0 <= y -> Forall (fun r => Z.of_nat (length r) <= l_w L /\ r <> []) rows ->
  (grow = true \/ y + Z.of_nat (length rows) <= l_h L) ->
  fill_rows grow L y rows =
  mkLayer (l_w L) (match rows with [] => l_h L | _ => if grow then y + Z.of_nat (length rows) else l_h L end)
          (lfill_rows (l_w L) (l_lines L) (Z.to_nat y) rows).
Proof.
  induction rows as [|r t IH]; intros L y Hy Hall Hh; cbn [fill_rows lfill_rows].
  - destruct L; reflexivity.
  - inversion Hall as [|? ? [Hr Hne] Ht]; subst. cbn [length] in Hh.
    rewrite fill_row_spec; try lia.
    2:{ destruct Hh; [left; assumption|right; lia]. }
    rewrite IH; cbn [l_w l_h l_lines]; try lia.
    + replace (Z.to_nat (y + 1)) with (S (Z.to_nat y)) by lia. cbn [Z.to_nat].
      destruct r as [|c r]; [congruence|].
      destruct t; destruct grow; try reflexivity; cbn [length]; f_equal; lia.
    + exact Ht.
    + destruct grow; [left; reflexivity|right].
      destruct Hh as [Hh|Hh]; [discriminate|].
      destruct r as [|c r]; [congruence|]. lia.
Qed.

(* ------------------------------------------------------------------ pair_loop on encoded rows is fill_rows *)
Section PairLoop.
  Variable grow : bool.
  Variable dec : N -> N -> cell.
  Variable e1 e2 : cell -> N.
  Let enc (c : cell) : list N := [e1 c; e2 c].
  Let rt (c : cell) : cell := dec (e1 c) (e2 c).

  Lemma pair_loop_row w cells : forall L x y rest,
    cells <> [] -> x + Z.of_nat (length cells) = w ->
    pair_loop grow dec w L x y (concat (map enc cells) ++ rest) =
    pair_loop grow dec w (fill_row grow L x y (map rt cells)) 0 (y + 1) rest.
  Proof.
    induction cells as [|c t IH]; intros L x y rest Hne Hw; [congruence|].
    cbn [map concat fill_row]. unfold enc at 1. cbn [app]. cbn [pair_loop].
    destruct t as [|c' t'].
    - cbn [length] in Hw. destruct (Z.geb_spec (x + 1) w); [|lia]. reflexivity.
    - cbn [length] in Hw. destruct (Z.geb_spec (x + 1) w); [lia|].
      apply IH; [discriminate|cbn [length]; lia].
  Qed.

  Lemma pair_loop_rows w rows : forall L y,
    1 <= w -> Forall (fun r => Z.of_nat (length r) = w) rows ->
    pair_loop grow dec w L 0 y (save_rows enc rows) = fill_rows grow L y (map (map rt) rows).
  Proof.
    induction rows as [|r t IH]; intros L y Hw Hall.
    - reflexivity.
    - inversion Hall as [|? ? Hr Ht]; subst.
      unfold save_rows. cbn [map concat fill_rows]. fold (save_rows enc t).
      rewrite pair_loop_row.
      + apply IH; assumption.
      + intro E. subst r. cbn in Hw. lia.
      + lia.
  Qed.

  (* whatever the bytes are, every stored cell is invisible padding or a decoded cell *)
  Lemma pair_loop_all_cells (P : cell -> Prop) (Q : N -> Prop) w data : forall L x y,
    P invisible_cell -> (forall ch a, Q ch -> Q a -> P (dec ch a)) -> Forall Q data ->
    all_cells P (l_lines L) -> all_cells P (l_lines (pair_loop grow dec w L x y data)).
  Proof.
    intros L x y Hi Hd. revert L x y.
    assert (Hind : forall n data, (length data <= n)%nat -> Forall Q data -> forall L x y,
               all_cells P (l_lines L) -> all_cells P (l_lines (pair_loop grow dec w L x y data))).
    { induction n as [|n IH]; intros d Hn Hq L x y H.
      - destruct d; [exact H|cbn in Hn; lia].
      - destruct d as [|ch [|a rest]]; try exact H. cbn [pair_loop].
        cbn [length] in Hn. inversion Hq as [|? ? Hch Hq1]; subst. inversion Hq1 as [|? ? Ha Hq2]; subst.
        destruct (x + 1 >=? w); apply IH; try lia; try assumption; apply put_all_cells; auto. }
    intros L x y Hq. apply (Hind (length data)); [lia|exact Hq].
  Qed.

  (* with grow = true the layer is as high as the last row written *)
  Lemma pair_loop_height_pos w data : forall L x y,
    grow = true -> 0 <= y -> 1 <= l_h L -> 1 <= l_h (pair_loop grow dec w L x y data).
  Proof.
    intros L x y Hg. revert L x y.
    assert (Hput : forall L x y c, 0 <= y -> 1 <= l_h (put grow L x y c)).
    { intros L x y c Hy. unfold put, layer_set_char. rewrite Hg.
      destruct (out_of_layer _ x y); cbn [layer_set_height l_h]; lia. }
    assert (Hind : forall n data, (length data <= n)%nat -> forall L x y,
               0 <= y -> 1 <= l_h L -> 1 <= l_h (pair_loop grow dec w L x y data)).
    { induction n as [|n IH]; intros d Hn L x y Hy H.
      - destruct d; [exact H|cbn in Hn; lia].
      - destruct d as [|ch [|a rest]]; try exact H. cbn [pair_loop]. cbn [length] in Hn.
        destruct (x + 1 >=? w); apply IH; try lia; apply Hput; lia. }
    intros L x y. apply (Hind (length data)). lia.
  Qed.

  Lemma pair_loop_width w data : forall L x y, l_w (pair_loop grow dec w L x y data) = l_w L.
  Proof.
    assert (Hind : forall n data, (length data <= n)%nat -> forall L x y,
               l_w (pair_loop grow dec w L x y data) = l_w L).
    { induction n as [|n IH]; intros d Hn L x y.
      - destruct d; [reflexivity|cbn in Hn; lia].
      - destruct d as [|ch [|a rest]]; try reflexivity. cbn [pair_loop]. cbn [length] in Hn.
        destruct (x + 1 >=? w); rewrite IH by lia; apply put_width. }
    intros L x y. apply (Hind (length data)). lia.
  Qed.

  Lemma pair_loop_nonempty w data : forall L x y,
    0 < l_w L -> lines_nonempty (l_lines L) -> lines_nonempty (l_lines (pair_loop grow dec w L x y data)).
  Proof.
    assert (Hind : forall n data, (length data <= n)%nat -> forall L x y,
               0 < l_w L -> lines_nonempty (l_lines L) -> lines_nonempty (l_lines (pair_loop grow dec w L x y data))).
    { induction n as [|n IH]; intros d Hn L x y Hw H.
      - destruct d; [exact H|cbn in Hn; lia].
      - destruct d as [|ch [|a rest]]; try exact H. cbn [pair_loop]. cbn [length] in Hn.
        destruct (x + 1 >=? w); apply IH; try lia; try (rewrite put_width; exact Hw); apply put_nonempty; assumption. }
    intros L x y. apply (Hind (length data)). lia.
  Qed.
End PairLoop.

(* ------------------------------------------------------------------ reading the picture back *)
Lemma map_seq_nth_error {A} (f : nat -> A) (l : list A) :
  (forall i a, nth_error l i = Some a -> f i = a) -> map f (seq 0 (length l)) = l.
Proof.
  revert f. induction l as [|a l IH]; intros f H; [reflexivity|].
  cbn [length seq map]. f_equal; [apply (H 0%nat); reflexivity|].
  rewrite <- seq_shift, map_map. apply IH. intros i b Hb. apply (H (S i)). exact Hb.
Qed.

(* what Buffer::get_char makes of a stored cell of a layer without alpha channel *)
Definition seen (c : cell) : cell := if is_visible c then c else cell_with_page default_cell 0.

Lemma pic_rows_of_lines b rows w :
  b_w b = Z.of_nat w -> b_h b = Z.of_nat (length rows) ->
  b_w b <= l_w (b_layer b) -> b_h b <= l_h (b_layer b) ->
  Forall (fun r => length r = w) rows ->
  (forall x y r c, nth_error rows y = Some r -> nth_error r x = Some c -> cell_at (l_lines (b_layer b)) x y = c) ->
  p_rows (pic_of b) = map (map seen) rows.
Proof.
  intros Hw Hh Hlw Hlh Hall Hcell. unfold pic_of. cbn [p_rows].
  rewrite Hh, Hw, !Nat2Z.id.
  rewrite <- (map_length (map seen) rows) at 1.
  apply map_seq_nth_error. intros y r' Hr'.
  rewrite nth_error_map in Hr'. destruct (nth_error rows y) as [r|] eqn:Er; [|discriminate].
  injection Hr' as <-.
  assert (Hlen : length r = w).
  { rewrite Forall_forall in Hall. apply Hall. eapply nth_error_In, Er. }
  rewrite <- Hlen. rewrite <- (map_length seen r) at 1.
  apply map_seq_nth_error. intros x c' Hc'.
  rewrite nth_error_map in Hc'. destruct (nth_error r x) as [c|] eqn:Ec; [|discriminate].
  injection Hc' as <-.
  assert (Hx : (x < w)%nat) by (rewrite <- Hlen; apply nth_error_Some; congruence).
  assert (Hy : (y < length rows)%nat) by (apply nth_error_Some; congruence).
  unfold buffer_get_char, layer_get_char, out_of_layer.
  destruct (Z.ltb_spec (Z.of_nat x) 0); [lia|]. destruct (Z.ltb_spec (Z.of_nat y) 0); [lia|].
  destruct (Z.geb_spec (Z.of_nat x) (l_w (b_layer b))); [lia|].
  destruct (Z.geb_spec (Z.of_nat y) (l_h (b_layer b))); [lia|].
  cbn [orb]. rewrite !Nat2Z.id. rewrite (Hcell x y r c Er Ec). reflexivity.
Qed.

Lemma crop_nonempty b :
  lines_nonempty (l_lines (b_layer b)) ->
  crop_loaded_file b =
  set_height (set_layer b (mkLayer (l_w (b_layer b)) (Z.of_nat (length (l_lines (b_layer b)))) (l_lines (b_layer b))))
             (Z.of_nat (length (l_lines (b_layer b)))).
Proof.
  intro H. unfold crop_loaded_file.
  set (ls := l_lines (b_layer b)) in *.
  assert (E : forall r, lines_nonempty r ->
     (fix crop (rev_lines : list (list cell)) : list (list cell) :=
        match rev_lines with
        | [] :: (_ :: _) as rest => crop rest
        | _ => rev_lines
        end) r = r).
  { intros r Hr. destruct r as [|l r]; [reflexivity|].
    inversion Hr; subst. destruct l; [congruence|reflexivity]. }
  rewrite E.
  - rewrite rev_involutive. reflexivity.
  - unfold lines_nonempty. apply Forall_rev. exact H.
Qed.

(* ------------------------------------------------------------------ the picture of any loaded buffer *)
Lemma pic_of_rect b : 0 <= b_w b -> 0 <= b_h b ->
  0 <= p_w (pic_of b) /\ 0 <= p_h (pic_of b) /\
  length (p_rows (pic_of b)) = Z.to_nat (p_h (pic_of b)) /\
  Forall (fun r => length r = Z.to_nat (p_w (pic_of b))) (p_rows (pic_of b)).
Proof.
  intros Hw Hh. unfold pic_of. cbn [p_w p_h p_rows]. repeat split; try assumption.
  - rewrite map_length, seq_length. reflexivity.
  - apply Forall_forall. intros r Hr. apply in_map_iff in Hr. destruct Hr as (y & <- & _).
    rewrite map_length, seq_length. reflexivity.
Qed.

Lemma pic_of_all_cells (Pst P : cell -> Prop) b :
  b_w b <= l_w (b_layer b) -> b_h b <= l_h (b_layer b) ->
  Pst invisible_cell -> all_cells Pst (l_lines (b_layer b)) -> (forall c, Pst c -> P (seen c)) ->
  Forall (Forall P) (p_rows (pic_of b)).
Proof.
  intros Hw Hh Hi Hall HP. unfold pic_of. cbn [p_rows].
  apply Forall_forall. intros r Hr. apply in_map_iff in Hr. destruct Hr as (y & <- & Hy).
  apply in_seq in Hy.
  apply Forall_forall. intros c Hc. apply in_map_iff in Hc. destruct Hc as (x & <- & Hx).
  apply in_seq in Hx.
  unfold buffer_get_char, layer_get_char, out_of_layer.
  destruct (Z.ltb_spec (Z.of_nat x) 0); [lia|]. destruct (Z.ltb_spec (Z.of_nat y) 0); [lia|].
  destruct (Z.geb_spec (Z.of_nat x) (l_w (b_layer b))); [lia|].
  destruct (Z.geb_spec (Z.of_nat y) (l_h (b_layer b))); [lia|].
  cbn [orb]. apply HP. apply cell_at_all_cells; assumption.
Qed.

Lemma layer_new_all_cells (P : cell -> Prop) w h : P invisible_cell -> all_cells P (l_lines (layer_new w h)).
Proof.
  intro Hi. unfold layer_new, all_cells. cbn [l_lines].
  apply Forall_forall. intros l Hl. apply repeat_spec in Hl. subst l.
  unfold line_create. apply Forall_forall. intros c Hc. apply repeat_spec in Hc. now subst.
Qed.

(* without growing, the line vector never gets longer than the layer is high *)
Lemma put_false_lines_bound L x y c :
  (length (l_lines L) <= Z.to_nat (l_h L))%nat ->
  l_h (put false L x y c) = l_h L /\ (length (l_lines (put false L x y c)) <= Z.to_nat (l_h L))%nat.
Proof.
  intro H. unfold put, layer_set_char. destruct (out_of_layer L x y) eqn:E; [split; [reflexivity|exact H]|].
  cbn [l_h l_lines]. split; [reflexivity|]. rewrite length_lines_set.
  unfold out_of_layer in E. apply orb_false_elim in E as [E Ey]. apply orb_false_elim in E as [E _]. apply orb_false_elim in E as [_ Ey0].
  apply Z.ltb_ge in Ey0. destruct (Z.geb_spec y (l_h L)); [discriminate|]. lia.
Qed.

Lemma pair_loop_false_lines_bound dec w data : forall L x y,
  (length (l_lines L) <= Z.to_nat (l_h L))%nat ->
  (length (l_lines (pair_loop false dec w L x y data)) <= Z.to_nat (l_h L))%nat.
Proof.
  assert (Hind : forall n data, (length data <= n)%nat -> forall L x y,
             (length (l_lines L) <= Z.to_nat (l_h L))%nat ->
             (length (l_lines (pair_loop false dec w L x y data)) <= Z.to_nat (l_h L))%nat).
  { induction n as [|n IH]; intros d Hn L x y H.
    - destruct d; [exact H|cbn in Hn; lia].
    - destruct d as [|ch [|a rest]]; try exact H. cbn [pair_loop]. cbn [length] in Hn.
      destruct (put_false_lines_bound L x y (dec ch a) H) as (Hh & Hl).
      destruct (x + 1 >=? w); rewrite <- Hh; apply IH; try lia; rewrite Hh; exact Hl. }
  intros L x y. apply (Hind (length data)). lia.
Qed.
