(* C02 — no loader model can reach a Panic result: BIN, ADF, IDF (C05's models), XBin and Tundra (models of the fixed code). *)
From Coq Require Import NArith ZArith Bool List Lia PeanoNat.
From IE Require Import Lib.Tbl Lib.C05Lib Lib.C02Lib Gen.Codepage Gen.Formats Model.Attr Model.C05Buf Model.C05Bin Model.C05XBin
  Model.C05Idf Model.C05Tundra Model.C02Loaders.
Import ListNotations.

(* ------------------------------------------------------------------ blocks *)
Lemma from_63_total : forall k l, length l = (3 * k)%nat -> exists p, from_63 l = Ok p.
Proof.
  induction k as [|k IH]; intros l Hl.
  - destruct l; [|cbn in Hl; lia]. exists []. reflexivity.
  - destruct l as [|r [|g [|b t]]]; cbn [length] in Hl; try lia.
    destruct (IH t ltac:(lia)) as (p & Hp). cbn [from_63]. rewrite Hp. cbn [bind]. eexists. reflexivity.
Qed.

Lemma chunks_total : forall n, (0 < n)%nat -> forall m (l : list N) fuel,
  length l = (m * n)%nat -> (m <= fuel)%nat -> exists g, chunks_aux fuel n l = Some g.
Proof.
  intros n Hn. induction m as [|m IH]; intros l fuel Hl Hf.
  - destruct l; [|cbn in Hl; lia]. exists []. destruct fuel; reflexivity.
  - destruct fuel as [|fuel]; [lia|].
    destruct l as [|a l']; [cbn in Hl; lia|].
    remember (a :: l') as l eqn:El.
    assert (Hstep : chunks_aux (S fuel) n l =
                    if (length l <? n)%nat then None
                    else match chunks_aux fuel n (skipn n l) with Some r => Some (firstn n l :: r) | None => None end).
    { rewrite El. reflexivity. }
    rewrite Hstep. destruct (Nat.ltb_spec (length l) n) as [Hlt|_]; [lia|].
    destruct (IH (skipn n l) fuel) as (g & Hg); [rewrite skipn_length; lia|lia|].
    rewrite Hg. eexists. reflexivity.
Qed.

Lemma font_create_8_total h data : (0 < h)%N -> length data = (256 * N.to_nat h)%nat ->
  exists f, font_create_8 h data = Ok f.
Proof.
  intros Hh Hl. unfold font_create_8, glyphs_from.
  destruct (chunks_total (N.to_nat h) ltac:(lia) 256%nat data (length data)) as (g & Hg); [lia|lia|].
  rewrite Hg. cbn [bind]. eexists. reflexivity.
Qed.

Lemma read_at_total bytes : forall offs,
  Forall (fun i => (3 * N.to_nat i + 2 < length bytes)%nat) offs -> exists p, read_at offs bytes = Ok p.
Proof.
  induction offs as [|i os IH]; intros H.
  - exists []. reflexivity.
  - inversion H as [|? ? Hi Hos]; subst. destruct (IH Hos) as (p & Hp). cbn [read_at].
    destruct (nth_error bytes (3 * N.to_nat i)) as [r|] eqn:E0; [|apply nth_error_None in E0; lia].
    destruct (nth_error bytes (3 * N.to_nat i + 1)) as [g|] eqn:E1; [|apply nth_error_None in E1; lia].
    destruct (nth_error bytes (3 * N.to_nat i + 2)) as [b|] eqn:E2; [|apply nth_error_None in E2; lia].
    rewrite Hp. cbn [bind]. eexists. reflexivity.
Qed.

Lemma ega_offsets_small : Forall (fun i => (N.to_nat i < 64)%nat) EGA_COLOR_OFFSETS.
Proof. unfold EGA_COLOR_OFFSETS. repeat constructor; vm_compute; lia. Qed.

Lemma from_ega_data_total bytes : length bytes = 192%nat -> exists p, from_ega_data bytes = Ok p.
Proof.
  intro Hl. apply read_at_total. eapply Forall_impl; [|exact ega_offsets_small].
  intros i Hi. cbn beta in *. lia.
Qed.

(* ------------------------------------------------------------------ BIN *)
Local Open Scope Z_scope.
Definition sauce_nonneg (s : option sauce) : Prop := match s with Some s => 0 <= s_w s | None => True end.

Lemma set_sauce_width_pos b s : 0 < b_w b -> sauce_nonneg s -> 0 < b_w (set_sauce b s).
Proof.
  intros Hb Hs. destruct s as [s|]; [|exact Hb]. cbn in Hs. unfold set_sauce.
  destruct ((s_w s =? 0) || (s_w s >? 1000)) eqn:E; destruct (s_ice s); cbn; try lia;
    apply orb_false_iff in E; destruct E as [E _]; apply Z.eqb_neq in E; lia.
Qed.

Lemma bin_total : forall data s, sauce_nonneg s -> total (load_bin data s).
Proof.
  intros data s Hs. unfold load_bin.
  pose proof (set_sauce_width_pos (buffer_new 160 25) s ltac:(cbn; lia) Hs) as Hw.
  destruct (Z.leb_spec (b_w (set_sauce (buffer_new 160 25) s)) 0); [lia|exact I].
Qed.

(* ------------------------------------------------------------------ ADF *)
Lemma adf_total : forall data s, total (load_adf data s).
Proof.
  intros data s. unfold load_adf.
  destruct (Nat.ltb_spec (length data) (N.to_nat ADF_HEADER_LENGTH)) as [|Hlen]; [exact I|].
  change (N.to_nat ADF_HEADER_LENGTH) with 4289%nat in Hlen.
  destruct data as [|version rest]; [exact I|]. cbn [length] in Hlen.
  destruct (negb (version =? ADF_VERSION)%N); [exact I|].
  destruct (from_ega_data_total (firstn 192 rest)) as (pal & Hpal); [rewrite firstn_length; lia|].
  rewrite Hpal. cbn [bind].
  destruct (font_create_8_total 16 (firstn 4096 (skipn 192 rest))) as (f & Hf); [lia| |].
  { rewrite firstn_length, skipn_length. change (256 * N.to_nat 16)%nat with 4096%nat. lia. }
  rewrite Hf. cbn [bind]. exact I.
Qed.

(* ------------------------------------------------------------------ IDF *)
Lemma idf_loop_unread x1 x2 : forall n area, (length area <= n)%nat -> forall L bh x y,
  (snd (idf_loop x1 x2 L bh x y area) <= length area)%nat.
Proof.
  induction n as [|n IH]; intros area Hn L bh x y.
  - destruct area; [cbn; lia|cbn in Hn; lia].
  - destruct area as [|ch [|a rest]]; [cbn; lia|cbn; lia|].
    cbn [idf_loop]. destruct ((ch =? 1)%N && (a =? 0)%N).
    + destruct rest as [|nl [|nh [|ch2 [|a2 rest2]]]]; try (cbn; lia).
      destruct (idf_put_n _ x1 x2 _ L bh x y) as [[[L' bh'] x'] y'].
      specialize (IH rest2 ltac:(cbn [length] in Hn; lia) L' bh' x' y'). cbn [length]. lia.
    + destruct (idf_put_n 1 x1 x2 _ L bh x y) as [[[L' bh'] x'] y'].
      specialize (IH rest ltac:(cbn [length] in Hn; lia) L' bh' x' y'). cbn [length]. lia.
Qed.

Lemma idf_total : forall data, total (load_idf data).
Proof.
  intros data. unfold load_idf.
  change (N.to_nat IDF_HEADER_SIZE + N.to_nat IDF_FONT_SIZE + N.to_nat IDF_PALETTE_SIZE)%nat with 4156%nat.
  change (N.to_nat IDF_FONT_SIZE) with 4096%nat. change (N.to_nat IDF_PALETTE_SIZE) with 48%nat.
  destruct (Nat.ltb_spec (length data) 4156) as [|Hlen]; [exact I|].
  destruct data as [|v0 [|v1 [|v2 [|v3 [|x1l [|x1h [|y1l [|y1h [|x2l [|x2h [|y2l [|y2h rest]]]]]]]]]]]]; try exact I.
  cbn [length] in Hlen.
  destruct (negb _); [exact I|].
  destruct (u16le x2l x2h <? u16le x1l x1h)%Z; [exact I|].
  set (area_len := (length (v0 :: v1 :: v2 :: v3 :: x1l :: x1h :: y1l :: y1h :: x2l :: x2h :: y2l :: y2h :: rest) - 4156)%nat).
  assert (Ha : area_len = (length rest - 4144)%nat) by (unfold area_len; cbn [length]; lia).
  match goal with |- context [idf_loop ?a ?b ?c ?d ?e ?f ?g] =>
    pose proof (idf_loop_unread a b (length g) g (le_n _) c d e f) as Hu;
    destruct (idf_loop a b c d e f g) as [[L bh] unread] end.
  cbn [snd] in Hu. rewrite firstn_length in Hu.
  set (tail := skipn (area_len - unread) rest).
  assert (Ht : (4144 <= length tail)%nat) by (unfold tail; rewrite skipn_length; lia).
  destruct (font_create_8_total 16 (firstn 4096 tail)) as (f & Hf); [lia| |].
  { rewrite firstn_length. change (256 * N.to_nat 16)%nat with 4096%nat. lia. }
  rewrite Hf. cbn [bind].
  destruct (from_63_total 16 (firstn 48 (skipn 4096 tail))) as (p & Hp).
  { rewrite firstn_length, skipn_length. lia. }
  rewrite Hp. cbn [bind]. exact I.
Qed.

(* ------------------------------------------------------------------ XBin (fixed code) *)
Section Xb.
  Variable w : Z.
  Variable dec : N -> N -> cell.

  Lemma xbc_off_len : forall n L x y bs, (length (snd (xbc_off w dec n L x y bs)) <= length bs)%nat.
  Proof.
    induction n as [|n IH]; intros L x y bs; cbn [xbc_off]; [cbn; lia|].
    destruct bs as [|c [|a r]]; try (cbn; lia).
    destruct (xb_adv w x y) as [x' y']. specialize (IH (put false L x y (dec c a)) x' y' r). cbn [length]. lia.
  Qed.
  Lemma xbc_char_len code : forall n L x y bs, (length (snd (xbc_char w dec code n L x y bs)) <= length bs)%nat.
  Proof.
    induction n as [|n IH]; intros L x y bs; cbn [xbc_char]; [cbn; lia|].
    destruct bs as [|a r]; try (cbn; lia).
    destruct (xb_adv w x y) as [x' y']. specialize (IH (put false L x y (dec code a)) x' y' r). cbn [length]. lia.
  Qed.
  Lemma xbc_attr_len a : forall n L x y bs, (length (snd (xbc_attr w dec a n L x y bs)) <= length bs)%nat.
  Proof.
    induction n as [|n IH]; intros L x y bs; cbn [xbc_attr]; [cbn; lia|].
    destruct bs as [|c r]; try (cbn; lia).
    destruct (xb_adv w x y) as [x' y']. specialize (IH (put false L x y (dec c a)) x' y' r). cbn [length]. lia.
  Qed.

  (* the run header is consumed in every iteration: as many iterations as bytes suffice, and no read fails *)
  Lemma xbc_loop_total : forall fuel bs L x y, (length bs <= fuel)%nat -> total (xbc_loop w dec fuel L x y bs).
  Proof.
    induction fuel as [|fuel IH]; intros bs L x y Hf.
    - destruct bs; [exact I|cbn in Hf; lia].
    - destruct bs as [|h t]; [exact I|]. cbn [length] in Hf. cbn [xbc_loop].
      destruct (xb_run_type h =? 0)%N.
      { pose proof (xbc_off_len (xb_run_count h) L x y t) as Hl.
        destruct (xbc_off w dec (xb_run_count h) L x y t) as [[[L' x'] y'] r]. cbn [snd] in Hl. apply IH. lia. }
      destruct (xb_run_type h =? 64)%N.
      { destruct t as [|code t']; [exact I|]. cbn [length Nat.ltb Nat.leb rd bind].
        pose proof (xbc_char_len code (xb_run_count h) L x y t') as Hl.
        destruct (xbc_char w dec code (xb_run_count h) L x y t') as [[[L' x'] y'] r]. cbn [snd] in Hl. apply IH.
        cbn [length] in Hf. lia. }
      destruct (xb_run_type h =? 128)%N.
      { destruct t as [|a t']; [exact I|]. cbn [length Nat.ltb Nat.leb rd bind].
        pose proof (xbc_attr_len a (xb_run_count h) L x y t') as Hl.
        destruct (xbc_attr w dec a (xb_run_count h) L x y t') as [[[L' x'] y'] r]. cbn [snd] in Hl. apply IH.
        cbn [length] in Hf. lia. }
      destruct t as [|code [|a r]]; [exact I|exact I|]. cbn [length Nat.ltb Nat.leb rd bind].
      destruct (xbc_full w (dec code a) (xb_run_count h) L x y) as [[L' x'] y']. apply IH. cbn [length] in Hf. lia.
  Qed.
End Xb.

Lemma take_slice_ok n (l : list N) : (n <= length l)%nat -> take_slice n l = Ok (firstn n l, skipn n l).
Proof. intro H. unfold take_slice. destruct (Nat.ltb_spec (length l) n); [lia|reflexivity]. Qed.

Lemma xb2_total : forall data s, total (load_xb2 data s).
Proof.
  intros data s. unfold load_xb2.
  destruct (length data <? N.to_nat XBIN_HEADER_SIZE)%nat; [exact I|].
  destruct data as [|i0 [|i1 [|i2 [|i3 [|eof [|wl [|wh [|hl [|hh [|fs [|flags rest]]]]]]]]]]]; try exact I.
  destruct (negb _); [exact I|].
  destruct (_ || _); [exact I|].
  set (font_size := if (fs =? 0)%N then 16%N else fs).
  destruct (N.ltb_spec 32 font_size) as [|Hfs]; [exact I|].
  assert (Hfs0 : (0 < font_size)%N) by (unfold font_size; destruct (N.eqb_spec fs 0); lia).
  set (b0 := set_ice _ _). clearbody b0.
  change (N.to_nat XBIN_PALETTE_LENGTH) with 48%nat.
  apply total_bind.
  { destruct (has_flag8 flags XBIN_FLAG_PALETTE); [|exact I].
    destruct (Nat.ltb_spec (length rest) 48); [exact I|].
    rewrite take_slice_ok by lia. cbn [bind].
    destruct (from_63_total 16 (firstn 48 rest)) as (p & Hp); [rewrite firstn_length; lia|].
    rewrite Hp. exact I. }
  intros [b1 rest1] _.
  apply total_bind.
  { destruct (has_flag8 flags XBIN_FLAG_FONT); [|exact I].
    set (fl := (N.to_nat font_size * 256)%nat).
    destruct (has_flag8 flags XBIN_FLAG_512CHAR_MODE).
    - destruct (Nat.ltb_spec (length rest1) (fl * 2)); [exact I|].
      rewrite take_slice_ok by lia. cbn [bind].
      destruct (font_create_8_total font_size (firstn fl rest1)) as (f0 & Hf0); [exact Hfs0|rewrite firstn_length; lia|].
      rewrite Hf0. cbn [bind]. rewrite take_slice_ok by (rewrite skipn_length; lia). cbn [bind].
      destruct (font_create_8_total font_size (firstn fl (skipn fl rest1))) as (f1 & Hf1);
        [exact Hfs0|rewrite firstn_length, skipn_length; lia|].
      rewrite Hf1. exact I.
    - destruct (Nat.ltb_spec (length rest1) (fl * 1)); [exact I|].
      rewrite take_slice_ok by lia. cbn [bind].
      destruct (font_create_8_total font_size (firstn fl rest1)) as (f0 & Hf0); [exact Hfs0|rewrite firstn_length; lia|].
      rewrite Hf0. exact I. }
  intros [b2 rest2] _.
  apply total_bind; [|intros; exact I].
  destruct (has_flag8 flags XBIN_FLAG_COMPRESS); [|exact I].
  unfold xb_read_compressed. apply xbc_loop_total. lia.
Qed.

(* ------------------------------------------------------------------ Tundra (fixed code) *)
Ltac step_colors :=
  repeat (cbn [tnd_color bind];
          try match goal with |- context [insert_color ?p ?c] => destruct (insert_color p c) end).

Lemma tnd_loop2_total : forall fuel w data L pal at0 x y,
  (length data <= fuel)%nat -> total (tnd_loop2 fuel w L pal at0 x y data).
Proof.
  induction fuel as [|fuel IH]; intros w data L pal at0 x y Hf.
  - destruct data; [exact I|cbn in Hf; lia].
  - destruct data as [|cmd rest]; [exact I|]. cbn [length] in Hf. cbn [tnd_loop2].
    destruct (cmd =? TUNDRA_POSITION)%N.
    { destruct (Nat.ltb_spec (length rest) 8) as [|H8]; [exact I|].
      destruct rest as [|a0 [|a1 [|a2 [|a3 [|c0 [|c1 [|c2 [|c3 rest2]]]]]]]]; cbn [length] in H8; try lia.
      destruct (_ >=? 65535); [exact I|]. destruct (_ >=? w); [exact I|]. apply IH. cbn [length] in Hf. lia. }
    destruct ((1 <? cmd)%N && (cmd <=? 6)%N).
    2:{ cbn [bind]. destruct (x + 1 >=? w); apply IH; lia. }
    unfold tnd_record_len.
    destruct (negb (N.land cmd TUNDRA_COLOR_FOREGROUND =? 0)%N), (negb (N.land cmd TUNDRA_COLOR_BACKGROUND =? 0)%N);
      match goal with |- context [Nat.ltb (length rest) ?k] => destruct (Nat.ltb_spec (length rest) k) as [|Hk]; [exact I|] end.
    + destruct rest as [|ch [|p0 [|r0 [|g0 [|b0 [|p1 [|r1 [|g1 [|b1 rest2]]]]]]]]]; cbn [length] in Hk; try lia.
      step_colors. destruct (x + 1 >=? w); apply IH; cbn [length] in Hf; lia.
    + destruct rest as [|ch [|p0 [|r0 [|g0 [|b0 rest2]]]]]; cbn [length] in Hk; try lia.
      step_colors. destruct (x + 1 >=? w); apply IH; cbn [length] in Hf; lia.
    + destruct rest as [|ch [|p0 [|r0 [|g0 [|b0 rest2]]]]]; cbn [length] in Hk; try lia.
      step_colors. destruct (x + 1 >=? w); apply IH; cbn [length] in Hf; lia.
    + destruct rest as [|ch rest2]; cbn [length] in Hk; try lia.
      cbn [bind]. destruct (x + 1 >=? w); apply IH; cbn [length] in Hf; lia.
Qed.

Lemma tnd2_total : forall data s, total (load_tnd2 data s).
Proof.
  intros data s. unfold load_tnd2.
  destruct (length data <? 1 + length TUNDRA_HEADER)%nat; [exact I|].
  destruct data as [|ver rest]; [exact I|].
  destruct (negb _); [exact I|].
  apply total_bind; [apply tnd_loop2_total; lia|]. intros [L pal] _. exact I.
Qed.
