(* C04: colour / palette facts used by both layers (the two or three laws of Palette::insert_color the
   rendition refinement needs; C16's model is not in this worktree). *)
From Coq Require Import NArith ZArith Bool List Lia.
From IE Require Import Lib.Tbl Lib.C04Lib Gen.Codepage Gen.AnsiConsts Model.Attr Model.AnsiWriter.
Import ListNotations.
Local Open Scope N_scope.

Lemma rgb_eqb_eq a b : rgb_eqb a b = true <-> a = b.
Proof.
  destruct a as [[r1 g1] b1], b as [[r2 g2] b2]. unfold rgb_eqb.
  rewrite !andb_true_iff, !N.eqb_eq. split.
  - intros [[-> ->] ->]. reflexivity.
  - intro H. inversion H. auto.
Qed.
Lemma rgb_eqb_refl a : rgb_eqb a a = true.
Proof. apply rgb_eqb_eq. reflexivity. Qed.
Lemma rgb_eqb_neq a b : rgb_eqb a b = false <-> a <> b.
Proof.
  split.
  - intros H E. apply rgb_eqb_eq in E. congruence.
  - intro H. destruct (rgb_eqb a b) eqn:E; [apply rgb_eqb_eq in E; contradiction|reflexivity].
Qed.
Lemma rgb_eqb_sym a b : rgb_eqb a b = rgb_eqb b a.
Proof.
  destruct (rgb_eqb a b) eqn:E.
  - apply rgb_eqb_eq in E. subst. symmetry. apply rgb_eqb_refl.
  - symmetry. apply rgb_eqb_neq. apply rgb_eqb_neq in E. congruence.
Qed.

(* ---------------------------------------------------------------- pal_rgb *)
Lemma pal_rgb_app_l p q i : i < N.of_nat (length p) -> pal_rgb (p ++ q) i = pal_rgb p i.
Proof.
  intro H. unfold pal_rgb. rewrite nth_error_app1 by lia. reflexivity.
Qed.

Lemma pal_rgb_nth p i c : nth_error p i = Some c -> pal_rgb p (N.of_nat i) = c.
Proof. intro H. unfold pal_rgb. rewrite Nat2N.id, H. reflexivity. Qed.

Lemma pal_rgb_app_r p c : pal_rgb (p ++ [c]) (N.of_nat (length p)) = c.
Proof.
  unfold pal_rgb. rewrite Nat2N.id, nth_error_app2 by lia. rewrite Nat.sub_diag. reflexivity.
Qed.

(* ---------------------------------------------------------------- position *)
Lemma pos_from_spec p c : forall i k,
  pos_from p c i = Some k ->
  i <= k /\ nth_error p (N.to_nat (k - i)) = Some c /\
  forall j, (j < N.to_nat (k - i))%nat -> forall x, nth_error p j = Some x -> x <> c.
Proof.
  induction p as [|x r IH]; intros i k H; cbn [pos_from] in H; [discriminate|].
  destruct (rgb_eqb x c) eqn:E.
  - inversion H; subst k. apply rgb_eqb_eq in E. subst x.
    rewrite N.sub_diag. cbn. repeat split; [lia|]. intros j Hj. lia.
  - apply IH in H as (Hle & Hn & Hmin).
    assert (Hk : N.to_nat (k - i) = S (N.to_nat (k - N.succ i))) by lia.
    rewrite Hk. repeat split; [lia|exact Hn|].
    intros j Hj y Hy. destruct j as [|j].
    + cbn in Hy. inversion Hy; subst y. apply rgb_eqb_neq. exact E.
    + cbn in Hy. apply (Hmin j); [lia|exact Hy].
Qed.

Lemma pos_from_none p c : forall i, pos_from p c i = None -> forall j x, nth_error p j = Some x -> x <> c.
Proof.
  induction p as [|x r IH]; intros i H j y Hy; [destruct j; discriminate|].
  cbn [pos_from] in H. destruct (rgb_eqb x c) eqn:E; [discriminate|].
  destruct j as [|j]; cbn in Hy.
  - inversion Hy; subst y. apply rgb_eqb_neq. exact E.
  - exact (IH _ H j y Hy).
Qed.

Lemma pal_position_some p c k : pal_position p c = Some k ->
  pal_rgb p k = c /\ k < N.of_nat (length p) /\ nth_error p (N.to_nat k) = Some c /\
  forall j, j < k -> pal_rgb p j <> c \/ N.of_nat (length p) <= j.
Proof.
  unfold pal_position. intro H. apply pos_from_spec in H as (_ & Hn & Hmin).
  rewrite N.sub_0_r in Hn, Hmin.
  repeat split.
  - unfold pal_rgb. rewrite Hn. reflexivity.
  - assert (N.to_nat k < length p)%nat by (apply nth_error_Some; congruence). lia.
  - exact Hn.
  - intros j Hj. destruct (nth_error p (N.to_nat j)) eqn:E.
    + left. unfold pal_rgb. rewrite E. apply (Hmin (N.to_nat j)); [lia|exact E].
    + right. apply nth_error_None in E. lia.
Qed.

Lemma pal_position_none p c : pal_position p c = None -> forall i, i < N.of_nat (length p) -> pal_rgb p i <> c.
Proof.
  unfold pal_position. intros H i Hi. unfold pal_rgb.
  destruct (nth_error p (N.to_nat i)) eqn:E.
  - exact (pos_from_none _ _ _ H _ _ E).
  - apply nth_error_None in E. lia.
Qed.

(* in a duplicate-free palette the position of the colour stored at an index is that index *)
Lemma pal_position_nodup p : NoDup p -> forall i, i < N.of_nat (length p) -> pal_position p (pal_rgb p i) = Some i.
Proof.
  intros ND i Hi.
  destruct (pal_position p (pal_rgb p i)) as [k|] eqn:E.
  - apply pal_position_some in E as (_ & Hk & Hn & _).
    assert (Hi' : nth_error p (N.to_nat i) = Some (pal_rgb p i)).
    { unfold pal_rgb. destruct (nth_error p (N.to_nat i)) eqn:E2; [reflexivity|]. apply nth_error_None in E2. lia. }
    f_equal. apply N2Nat.inj.
    apply (proj1 (NoDup_nth_error p) ND); [lia|congruence].
  - exfalso. exact (pal_position_none _ _ E i Hi eq_refl).
Qed.

(* ---------------------------------------------------------------- insert_color *)
Definition pal_extends (p q : palette) : Prop := exists e, q = p ++ e.

Lemma pal_extends_refl p : pal_extends p p.
Proof. exists []. symmetry. apply app_nil_r. Qed.
Lemma pal_extends_trans p q r : pal_extends p q -> pal_extends q r -> pal_extends p r.
Proof. intros [e ->] [f ->]. exists (e ++ f). symmetry. apply app_assoc. Qed.
Lemma pal_extends_rgb p q i : pal_extends p q -> i < N.of_nat (length p) -> pal_rgb q i = pal_rgb p i.
Proof. intros [e ->] H. apply pal_rgb_app_l, H. Qed.
Lemma pal_extends_len p q : pal_extends p q -> (length p <= length q)%nat.
Proof. intros [e ->]. rewrite app_length. lia. Qed.

Lemma pal_insert_spec p c : NoDup p ->
  let ip := pal_insert p c in
  pal_rgb (snd ip) (fst ip) = c /\ fst ip < N.of_nat (length (snd ip)) /\ pal_extends p (snd ip) /\ NoDup (snd ip).
Proof.
  intro ND. unfold pal_insert. destruct (pal_position p c) as [k|] eqn:E; cbn [fst snd].
  - apply pal_position_some in E as (H1 & H2 & _). repeat split; try assumption. apply pal_extends_refl.
  - repeat split.
    + apply pal_rgb_app_r.
    + rewrite app_length. cbn. lia.
    + exists [c]. reflexivity.
    + rewrite <- (rev_involutive (p ++ [c])). apply NoDup_rev. rewrite rev_app_distr. cbn.
      constructor; [|apply NoDup_rev, ND].
      rewrite <- in_rev. intro Hin. apply In_nth_error in Hin as [n Hn].
      exact (pos_from_none _ _ _ E _ _ Hn eq_refl).
Qed.

Lemma pal_insert_existing p c k : pal_position p c = Some k -> pal_insert p c = (k, p).
Proof. unfold pal_insert. intros ->. reflexivity. Qed.

(* ---------------------------------------------------------------- the DOS palette *)
Lemma dos_nodup : NoDup DOS_DEFAULT_PALETTE.
Proof.
  assert (H : forall (l : list rgb), (fix chk (l : list rgb) := match l with [] => true | x :: r => negb (existsb (rgb_eqb x) r) && chk r end) l = true -> NoDup l).
  { induction l as [|x r IH]; intro H; constructor.
    - apply andb_prop in H as [H _]. intro Hin. apply negb_true_iff in H.
      assert (existsb (rgb_eqb x) r = true) by (apply existsb_exists; exists x; split; [exact Hin|apply rgb_eqb_refl]). congruence.
    - apply andb_prop in H as [_ H]. apply IH, H. }
  apply H. vm_compute. reflexivity.
Qed.
Lemma dos_length : length DOS_DEFAULT_PALETTE = 16%nat.
Proof. reflexivity. Qed.

Lemma in_dos_position c : in_dos c = true <-> exists k, pal_position DOS_DEFAULT_PALETTE c = Some k.
Proof.
  unfold in_dos. split.
  - intro H. apply existsb_exists in H as (x & Hin & E). apply rgb_eqb_eq in E. subst x.
    destruct (pal_position DOS_DEFAULT_PALETTE c) as [k|] eqn:P; [eauto|].
    apply In_nth_error in Hin as [n Hn]. exfalso. exact (pos_from_none _ _ _ P _ _ Hn eq_refl).
  - intros [k H]. apply pal_position_some in H as (_ & _ & Hn & _).
    apply existsb_exists. exists c. split; [eapply nth_error_In, Hn|apply rgb_eqb_refl].
Qed.

Lemma dos_position_lt c k : pal_position DOS_DEFAULT_PALETTE c = Some k -> k < 16 /\ dos_rgb k = c.
Proof. intro H. apply pal_position_some in H as (H1 & H2 & _). split; [exact H2|exact H1]. Qed.

Lemma dos_rgb_inj i j : i < 16 -> j < 16 -> dos_rgb i = dos_rgb j -> i = j.
Proof.
  intros Hi Hj E.
  pose proof (pal_position_nodup _ dos_nodup i Hi) as P1.
  pose proof (pal_position_nodup _ dos_nodup j Hj) as P2.
  unfold dos_rgb in E. rewrite E in P1. congruence.
Qed.

Lemma in_dos_dos_rgb i : i < 16 -> in_dos (dos_rgb i) = true.
Proof. intro H. apply in_dos_position. exists i. apply (pal_position_nodup _ dos_nodup i H). Qed.

(* ---------------------------------------------------------------- extended colour lookup *)
Lemma last_pos_from_spec p c : forall i acc k,
  last_pos_from p c i acc = Some k ->
  acc = Some k \/ (i <= k /\ nth_error p (N.to_nat (k - i)) = Some c).
Proof.
  induction p as [|x r IH]; intros i acc k H; cbn [last_pos_from] in H; [left; exact H|].
  apply IH in H as [H|(Hle & Hn)].
  - destruct (rgb_eqb x c) eqn:E; [|left; exact H].
    inversion H; subst k. right. rewrite N.sub_diag. apply rgb_eqb_eq in E. subst x. split; [lia|reflexivity].
  - right. split; [lia|]. replace (N.to_nat (k - i)) with (S (N.to_nat (k - N.succ i))) by lia. exact Hn.
Qed.

Lemma ext_lookup_some ext c e : ext_lookup ext c = Some e -> e < 256 /\ pal_rgb XTERM_256_PALETTE e = c.
Proof.
  unfold ext_lookup. destruct ext; [|discriminate]. intro H.
  apply last_pos_from_spec in H as [H|(_ & Hn)]; [discriminate|].
  rewrite N.sub_0_r in Hn. split.
  - destruct (Nat.lt_ge_cases (N.to_nat e) 256) as [L|G]; [lia|].
    assert (G' : nth_error XTERM_256_PALETTE (N.to_nat e) = None) by (apply nth_error_None; exact G).
    pose proof (eq_trans (eq_sym G') Hn) as X. discriminate X.
  - unfold pal_rgb. rewrite Hn. reflexivity.
Qed.
