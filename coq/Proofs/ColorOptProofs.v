(* C12: the colour optimiser never changes a rendered pixel (flattened-buffer part). *)
From Coq Require Import ZArith NArith List Bool Lia.
From IE Require Import Lib.Tbl Lib.Bits Gen.Codepage Model.Attr Model.ColorOpt.
Import ListNotations.
Local Open Scope N_scope.

(* what the proof needs of a font: width 1..8, every glyph has exactly `height` rows of u8 values that use only
   the leftmost `width` bit columns, and IF the font has a glyph for ' ' that glyph is blank *)
Definition lowmask (w : N) : N := N.ones (8 - w).
Definition row_ok (w r : N) : Prop := r < 256 /\ N.land r (lowmask w) = 0.
Definition glyph_ok (f : font) (g : list N) : Prop := N.of_nat (length g) = f_h f /\ Forall (row_ok (f_w f)) g.
Definition font_ok (f : font) : Prop :=
  1 <= f_w f <= 8 /\
  (forall c g, f_glyph f c = Some g -> glyph_ok f g) /\
  (forall g, f_glyph f 32 = Some g -> ones g = 0).
Definition fonts_ok (fs : fonts) : Prop := forall p f, fs p = Some f -> font_ok f.

(* ---- finite facts about u8 rows, swept completely ---- *)
Definition bit_set (r cx : N) : bool := negb (N.land r (N.shiftr 128 cx) =? 0).

Lemma row_sweep : forallb (fun w => forallb (fun r =>
    implb (N.land r (lowmask w) =? 0)
          ((popcount r <=? w) &&
           implb (popcount r =? w) (forallb (fun cx => implb (cx <? w) (bit_set r cx)) (nrange 8)) &&
           implb (popcount r =? 0) (forallb (fun cx => negb (bit_set r cx)) (nrange 8))))
    (nrange 256)) (nrange 9) = true.
Proof. vm_compute. reflexivity. Qed.

Lemma row_facts w r : w <= 8 -> row_ok w r ->
  popcount r <= w /\
  (popcount r = w -> forall cx, cx < w -> N.land r (N.shiftr 128 cx) <> 0) /\
  (popcount r = 0 -> forall cx, cx < 8 -> N.land r (N.shiftr 128 cx) = 0).
Proof.
  intros Hw [Hr Hm].
  pose proof (nrange_forallb _ _ row_sweep w ltac:(lia)) as H1. cbv beta in H1.
  pose proof (nrange_forallb _ _ H1 r Hr) as H2. cbv beta in H2.
  rewrite Hm, N.eqb_refl in H2. cbn [implb] in H2.
  apply andb_true_iff in H2. destruct H2 as [H2 H5]. apply andb_true_iff in H2. destruct H2 as [H3 H4].
  apply N.leb_le in H3. split; [exact H3|]. split.
  - intros Hp cx Hcx. rewrite Hp, N.eqb_refl in H4. cbn [implb] in H4.
    pose proof (nrange_forallb _ _ H4 cx ltac:(lia)) as H6. cbv beta in H6.
    apply N.ltb_lt in Hcx. rewrite Hcx in H6. cbn [implb] in H6. unfold bit_set in H6.
    apply negb_true_iff, N.eqb_neq in H6. exact H6.
  - intros Hp cx Hcx. rewrite Hp in H5. cbn [N.eqb implb] in H5.
    pose proof (nrange_forallb _ _ H5 cx Hcx) as H6. cbv beta in H6. unfold bit_set in H6.
    rewrite negb_involutive in H6. apply N.eqb_eq in H6. exact H6.
Qed.

(* ---- sums of popcounts ---- *)
Lemma ones_zero g : ones g = 0 -> Forall (fun r => popcount r = 0) g.
Proof.
  induction g as [|r g IH]; intro H; [constructor|]. cbn [ones fold_right] in H. fold (ones g) in H.
  constructor; [lia|apply IH; lia].
Qed.

Lemma ones_full w g : Forall (fun r => popcount r <= w) g -> ones g = w * N.of_nat (length g) ->
  Forall (fun r => popcount r = w) g.
Proof.
  induction g as [|r g IH]; intros Hle H; [constructor|].
  inversion Hle as [|? ? Hr Hg]; subst. cbn [ones fold_right length] in H. fold (ones g) in H.
  assert (Hb : ones g <= w * N.of_nat (length g)).
  { clear - Hg. induction Hg as [|x l Hx Hl IHl]; cbn [ones fold_right length]; [lia|]. fold (ones l). lia. }
  rewrite Nat2N.inj_succ in H.
  constructor; [lia|]. apply IH; [exact Hg|lia].
Qed.

(* ---- pixels of blank and solid glyphs ---- *)
Section Render.
Variable pal : list rgb.

Lemma blank_pixel f f0 c c' g cx cy :
  font_ok f -> glyph_ok f g -> ones g = 0 ->
  background_color (c_attr c') = background_color (c_attr c) ->
  cell_pixel pal f f0 c' (Some g) cx cy = cell_pixel pal f f0 c (Some g) cx cy.
Proof.
  intros (Hw & _ & _) (Hlen & Hrows) Hz Hbg. unfold cell_pixel.
  destruct ((cy <? N.min (f_h f) (f_h f0)) && (cx <? N.min (f_w f) (f_w f0))) eqn:Ein; [|reflexivity].
  destruct (nth_error g (N.to_nat cy)) as [r|] eqn:En; [|reflexivity].
  destruct (8 <=? cx) eqn:E8; [reflexivity|]. apply N.leb_gt in E8.
  assert (Hr : N.land r (N.shiftr 128 cx) = 0).
  { apply nth_error_In in En. pose proof (ones_zero g Hz) as Hz'. rewrite Forall_forall in Hz', Hrows.
    destruct (row_facts (f_w f) r ltac:(lia) (Hrows r En)) as (_ & _ & H0). apply H0; [apply Hz', En|exact E8]. }
  rewrite Hr, N.eqb_refl, Hbg.
  destruct (get_rgb pal (shown_fg (c_attr c'))) as [[? ?] ?], (get_rgb pal (shown_fg (c_attr c))) as [[? ?] ?].
  reflexivity.
Qed.

Lemma solid_pixel f f0 c c' g cx cy :
  font_ok f -> glyph_ok f g -> ones g = f_w f * f_h f ->
  shown_fg (c_attr c') = shown_fg (c_attr c) ->
  cell_pixel pal f f0 c' (Some g) cx cy = cell_pixel pal f f0 c (Some g) cx cy.
Proof.
  intros (Hw & _ & _) (Hlen & Hrows) Hfull Hfg. unfold cell_pixel.
  destruct ((cy <? N.min (f_h f) (f_h f0)) && (cx <? N.min (f_w f) (f_w f0))) eqn:Ein; [|reflexivity].
  apply andb_true_iff in Ein. destruct Ein as [_ Hcx]. apply N.ltb_lt in Hcx.
  destruct (nth_error g (N.to_nat cy)) as [r|] eqn:En; [|reflexivity].
  destruct (8 <=? cx) eqn:E8; [reflexivity|].
  assert (Hr : N.land r (N.shiftr 128 cx) <> 0).
  { apply nth_error_In in En.
    assert (Hall : Forall (fun r => popcount r = f_w f) g).
    { apply ones_full; [|rewrite Hlen; exact Hfull].
      eapply Forall_impl; [|exact Hrows]. intros a Ha. apply (row_facts (f_w f) a); [lia|exact Ha]. }
    rewrite Forall_forall in Hall, Hrows.
    destruct (row_facts (f_w f) r ltac:(lia) (Hrows r En)) as (_ & H1 & _). apply H1; [apply Hall, En|lia]. }
  apply N.eqb_neq in Hr. rewrite Hr, Hfg.
  destruct (get_rgb pal (background_color (c_attr c'))) as [[? ?] ?], (get_rgb pal (background_color (c_attr c))) as [[? ?] ?].
  reflexivity.
Qed.

Lemma mapM_ext {A B} (f g : A -> res B) l : (forall x, In x l -> f x = g x) -> mapM f l = mapM g l.
Proof.
  induction l as [|x t IH]; intro H; [reflexivity|]. cbn [mapM]. rewrite (H x (or_introl eq_refl)).
  rewrite IH; [reflexivity|]. intros y Hy. apply H. right. exact Hy.
Qed.

(* the optimised cell paints the same block *)
Lemma opt_cell_block fs norm cur c c' f0 :
  fonts_ok fs -> opt_cell fs norm cur c = Ok c' -> cell_block pal fs f0 c' = cell_block pal fs f0 c.
Proof.
  intros Hok H. unfold opt_cell in H.
  destruct (fs (font_page (c_attr c))) as [f|] eqn:Ef; [|discriminate].
  destruct (f_glyph f (c_ch c)) as [g|] eqn:Eg; [|discriminate].
  pose proof (Hok _ _ Ef) as Hf. destruct Hf as (Hw & Hgl & Hsp).
  pose proof (Hgl _ _ Eg) as Hg.
  unfold get_shape in H. destruct (ones g =? 0) eqn:E0.
  - apply N.eqb_eq in E0. injection H as <-. unfold cell_block. cbn [c_attr c_ch with_fg font_page]. rewrite Ef.
    destruct (norm && match f_glyph f 32 with Some _ => true | None => false end) eqn:En.
    + apply andb_true_iff in En. destruct En as [_ En]. destruct (f_glyph f 32) as [gs|] eqn:Es; [|discriminate].
      rewrite Eg. apply mapM_ext. intros cy _. apply mapM_ext. intros cx _.
      (* both glyphs are blank: every painted pixel is the background *)
      pose proof (Hgl _ _ Es) as Hgs. pose proof (Hsp _ eq_refl) as Hzs.
      unfold cell_pixel. cbn [c_attr background_color].
      destruct ((cy <? N.min (f_h f) (f_h f0)) && (cx <? N.min (f_w f) (f_w f0))) eqn:Ein; [|reflexivity].
      apply andb_true_iff in Ein. destruct Ein as [Hcy _]. apply N.ltb_lt in Hcy.
      destruct Hgs as (Hl1 & Hr1). destruct Hg as (Hl2 & Hr2).
      destruct (nth_error gs (N.to_nat cy)) as [r1|] eqn:E1; [|exfalso; apply nth_error_None in E1; lia].
      destruct (nth_error g (N.to_nat cy)) as [r2|] eqn:E2; [|exfalso; apply nth_error_None in E2; lia].
      destruct (8 <=? cx) eqn:E8; [reflexivity|]. apply N.leb_gt in E8.
      apply nth_error_In in E1. apply nth_error_In in E2.
      pose proof (ones_zero _ Hzs) as Z1. pose proof (ones_zero _ E0) as Z2. rewrite Forall_forall in Z1, Z2, Hr1, Hr2.
      destruct (row_facts (f_w f) r1 ltac:(lia) (Hr1 _ E1)) as (_ & _ & A1).
      destruct (row_facts (f_w f) r2 ltac:(lia) (Hr2 _ E2)) as (_ & _ & A2).
      rewrite (A1 (Z1 _ E1) cx E8), (A2 (Z2 _ E2) cx E8), N.eqb_refl.
      cbn [c_attr with_fg background_color].
      repeat match goal with |- context [get_rgb pal ?x] => destruct (get_rgb pal x) as [[? ?] ?] end.
      reflexivity.
    + rewrite Eg. apply mapM_ext. intros cy _. apply mapM_ext. intros cx _.
      apply blank_pixel; [exact (Hok _ _ Ef)|exact Hg|exact E0|reflexivity].
  - destruct (ones g =? f_w f * f_h f) eqn:E1.
    + apply N.eqb_eq in E1. injection H as <-. unfold cell_block. cbn [c_attr c_ch with_bg font_page]. rewrite Ef, Eg.
      apply mapM_ext. intros cy _. apply mapM_ext. intros cx _.
      apply solid_pixel; [exact (Hok _ _ Ef)|exact Hg|exact E1|reflexivity].
    + injection H as <-. reflexivity.
Qed.

Lemma opt_cell_page fs norm cur c c' : opt_cell fs norm cur c = Ok c' -> font_page (c_attr c') = font_page (c_attr c).
Proof.
  intro H. unfold opt_cell in H.
  destruct (fs (font_page (c_attr c))); [|discriminate]. destruct (f_glyph f (c_ch c)); [|discriminate].
  destruct (get_shape f l); injection H as <-; reflexivity.
Qed.

Lemma opt_row_render fs norm f0 row : forall cur row' cur', fonts_ok fs ->
  opt_row fs norm cur row = Ok (row', cur') ->
  mapM (cell_block pal fs f0) row' = mapM (cell_block pal fs f0) row /\ length row' = length row.
Proof.
  induction row as [|c t IH]; intros cur row' cur' Hok H; cbn [opt_row] in H.
  - injection H as <- <-. split; reflexivity.
  - destruct (opt_cell fs norm cur c) as [c'|] eqn:Ec; cbn [bind] in H; [|discriminate].
    destruct (opt_row fs norm (c_attr c') t) as [[t' cur'']|] eqn:Et; cbn [bind fst snd] in H; [|discriminate].
    injection H as <- <-. destruct (IH _ _ _ Hok Et) as [IH1 IH2].
    cbn [mapM length]. rewrite (opt_cell_block _ _ _ _ _ f0 Hok Ec), IH1, IH2. split; reflexivity.
Qed.

Lemma opt_rows_render fs norm f0 rows : forall cur rows', fonts_ok fs ->
  opt_rows fs norm cur rows = Ok rows' ->
  mapM (fun row => mapM (cell_block pal fs f0) row) rows' = mapM (fun row => mapM (cell_block pal fs f0) row) rows
  /\ map (@length cell) rows' = map (@length cell) rows.
Proof.
  induction rows as [|r t IH]; intros cur rows' Hok H; cbn [opt_rows] in H.
  - injection H as <-. split; reflexivity.
  - destruct (opt_row fs norm cur r) as [[r' cur']|] eqn:Er; cbn [bind fst snd] in H; [|discriminate].
    destruct (opt_rows fs norm cur' t) as [t'|] eqn:Et; cbn [bind] in H; [|discriminate].
    injection H as <-. destruct (opt_row_render _ _ f0 _ _ _ _ Hok Er) as [R1 R2]. destruct (IH _ _ Hok Et) as [IH1 IH2].
    cbn [mapM map]. rewrite R1, IH1, R2, IH2. split; reflexivity.
Qed.

Lemma optimize_preserves_render_proof fs norm rows rows' :
  fonts_ok fs -> optimize fs norm rows = Ok rows' -> render pal fs rows' = render pal fs rows.
Proof.
  intros Hok H. unfold render. destruct (fs 0) as [f0|]; [|reflexivity].
  apply (opt_rows_render fs norm f0 rows _ _ Hok H).
Qed.

Lemma optimize_size_proof fs norm rows rows' :
  fonts_ok fs -> optimize fs norm rows = Ok rows' -> map (@length cell) rows' = map (@length cell) rows.
Proof.
  intros Hok H. apply (opt_rows_render fs norm (mkFont 8 16 (fun _ => None)) rows _ _ Hok H).
Qed.
End Render.

(* ---- the optimiser does not panic when every cell has a font and a glyph ---- *)
Definition cell_has_glyph (fs : fonts) (c : cell) : Prop :=
  exists f g, fs (font_page (c_attr c)) = Some f /\ f_glyph f (c_ch c) = Some g.

Lemma opt_cell_total fs norm cur c : cell_has_glyph fs c -> exists c', opt_cell fs norm cur c = Ok c'.
Proof.
  intros (f & g & Ef & Eg). unfold opt_cell. rewrite Ef, Eg. destruct (get_shape f g); eexists; reflexivity.
Qed.

Lemma opt_row_total fs norm row : forall cur, Forall (cell_has_glyph fs) row -> exists r, opt_row fs norm cur row = Ok r.
Proof.
  induction row as [|c t IH]; intros cur H; cbn [opt_row]; [eexists; reflexivity|].
  inversion H; subst. destruct (opt_cell_total fs norm cur c) as [c' Ec]; [assumption|]. rewrite Ec. cbn [bind].
  destruct (IH (c_attr c')) as [r Er]; [assumption|]. rewrite Er. cbn [bind]. eexists; reflexivity.
Qed.

Lemma optimize_total_proof fs norm rows : Forall (Forall (cell_has_glyph fs)) rows -> exists rows', optimize fs norm rows = Ok rows'.
Proof.
  unfold optimize. generalize default_attribute. induction rows as [|r t IH]; intros cur H; cbn [opt_rows]; [eexists; reflexivity|].
  inversion H; subst. destruct (opt_row_total fs norm r cur) as [rr Er]; [assumption|]. rewrite Er. cbn [bind].
  destruct (IH (snd rr)) as [tl Et]; [assumption|]. rewrite Et. cbn [bind]. eexists; reflexivity.
Qed.

(* ---- what may change: only fg of blank glyphs, bg of solid glyphs, and which blank character ---- *)
Definition only_invisible_change (fs : fonts) (c c' : cell) : Prop :=
  font_page (c_attr c') = font_page (c_attr c) /\ attr (c_attr c') = attr (c_attr c) /\
  exists f g, fs (font_page (c_attr c)) = Some f /\ f_glyph f (c_ch c) = Some g /\
    match get_shape f g with
    | Whitespace => background_color (c_attr c') = background_color (c_attr c) /\ (c_ch c' = c_ch c \/ c_ch c' = 32)
    | Block => foreground_color (c_attr c') = foreground_color (c_attr c) /\ c_ch c' = c_ch c
    | Mixed => c' = c
    end.

Lemma opt_cell_change_proof fs norm cur c c' : opt_cell fs norm cur c = Ok c' -> only_invisible_change fs c c'.
Proof.
  intro H. unfold opt_cell in H.
  destruct (fs (font_page (c_attr c))) as [f|] eqn:Ef; [|discriminate].
  destruct (f_glyph f (c_ch c)) as [g|] eqn:Eg; [|discriminate].
  unfold only_invisible_change. destruct (get_shape f g) eqn:Es; injection H as <-; cbn [c_attr c_ch with_fg with_bg font_page attr];
    (split; [reflexivity|split; [reflexivity|]]); exists f, g; rewrite Es; repeat split; auto.
  cbn [background_color foreground_color]. destruct (norm && _); auto.
Qed.

(* ---- document level ---- *)
From IE Require Import Model.ColorOptDoc Model.FontData.

Lemma opt_cell_flags fs norm cur c c' : opt_cell fs norm cur c = Ok c' -> attr (c_attr c') = attr (c_attr c).
Proof.
  intro H. unfold opt_cell in H.
  destruct (fs (font_page (c_attr c))); [|discriminate]. destruct (f_glyph f (c_ch c)); [|discriminate].
  destruct (get_shape f l); injection H as <-; reflexivity.
Qed.

Lemma invisible_block pal fs f0 c :
  is_visible c = false -> font_page (c_attr c) = 0 -> c_ch c = 32 ->
  background_color (c_attr c) = DEFAULT_BG ->
  fonts_ok fs ->
  cell_block pal fs f0 default_cell = cell_block pal fs f0 (mkCell 32 (mkAttr 0 (foreground_color (c_attr c)) DEFAULT_BG (attr (c_attr c)))).
Proof.
  intros Hv Hp Hc Hb Hok. unfold cell_block. cbn [c_attr c_ch default_cell default_attribute font_page].
  change DEFAULT_FONT_PAGE with 0.
  destruct (fs 0) as [f|] eqn:Ef; [|reflexivity].
  destruct (f_glyph f 32) as [g|] eqn:Eg.
  - apply mapM_ext. intros cy _. apply mapM_ext. intros cx _.
    destruct (Hok _ _ Ef) as (Hw & Hgl & Hsp).
    apply blank_pixel; [exact (Hok _ _ Ef)|exact (Hgl _ _ Eg)|exact (Hsp _ Eg)|reflexivity].
  - reflexivity.
Qed.

Lemma reflat_opt_block pal fs norm cur c c' f0 :
  fonts_ok fs -> wf_cell c -> opt_cell fs norm cur c = Ok c' ->
  cell_block pal fs f0 (reflat c') = cell_block pal fs f0 c.
Proof.
  intros Hok Hwf H. pose proof (opt_cell_flags _ _ _ _ _ H) as Hfl.
  unfold reflat, is_visible. rewrite Hfl. fold (is_visible c).
  destruct Hwf as [[Hv _]| ->].
  - rewrite Hv. eapply opt_cell_block; eassumption.
  - change (is_visible invisible_cell0) with false. cbv iota.
    rewrite (invisible_block pal fs f0 invisible_cell0 eq_refl eq_refl eq_refl eq_refl Hok). reflexivity.
Qed.

Lemma opt_row_doc pal fs norm f0 row : forall cur row' cur', fonts_ok fs -> Forall wf_cell row ->
  opt_row fs norm cur row = Ok (row', cur') ->
  mapM (cell_block pal fs f0) (map reflat row') = mapM (cell_block pal fs f0) row.
Proof.
  induction row as [|c t IH]; intros cur row' cur' Hok Hwf H; cbn [opt_row] in H.
  - injection H as <- <-. reflexivity.
  - inversion Hwf as [|? ? Hc Ht]; subst.
    destruct (opt_cell fs norm cur c) as [c'|] eqn:Ec; cbn [bind] in H; [|discriminate].
    destruct (opt_row fs norm (c_attr c') t) as [[t' cur'']|] eqn:Et; cbn [bind fst snd] in H; [|discriminate].
    injection H as <- <-. cbn [map mapM].
    rewrite (reflat_opt_block pal fs norm cur c c' f0 Hok Hc Ec), (IH _ _ _ Hok Ht Et). reflexivity.
Qed.

Lemma opt_rows_doc pal fs norm f0 rows : forall cur rows', fonts_ok fs -> Forall (Forall wf_cell) rows ->
  opt_rows fs norm cur rows = Ok rows' ->
  mapM (fun row => mapM (cell_block pal fs f0) row) (map (map reflat) rows')
  = mapM (fun row => mapM (cell_block pal fs f0) row) rows.
Proof.
  induction rows as [|r t IH]; intros cur rows' Hok Hwf H; cbn [opt_rows] in H.
  - injection H as <-. reflexivity.
  - inversion Hwf as [|? ? Hr Ht]; subst.
    destruct (opt_row fs norm cur r) as [[r' cur']|] eqn:Er; cbn [bind fst snd] in H; [|discriminate].
    destruct (opt_rows fs norm cur' t) as [t'|] eqn:Et; cbn [bind] in H; [|discriminate].
    injection H as <-. cbn [map mapM].
    rewrite (opt_row_doc pal fs norm f0 r _ _ _ Hok Hr Er), (IH _ _ Hok Ht Et). reflexivity.
Qed.

Lemma document_render_preserved_proof pal fs norm rows :
  fonts_ok fs -> Forall (Forall wf_cell) rows -> Forall (Forall (cell_has_glyph fs)) rows ->
  render_optimised pal fs norm rows = render pal fs rows.
Proof.
  intros Hok Hwf Hg. unfold render_optimised.
  destruct (optimize_total_proof fs norm rows Hg) as [rows' H]. rewrite H.
  unfold render. destruct (fs 0) as [f0|]; [|reflexivity].
  apply (opt_rows_doc pal fs norm f0 rows _ _ Hok Hwf H).
Qed.

(* ---- concrete fonts: the boolean check implies font_ok ---- *)
Lemma unpack_length h n : length (unpack h n) = h.
Proof. revert n. induction h as [|h IH]; intro n; cbn [unpack]; [reflexivity|]. rewrite app_length, IH. cbn. lia. Qed.

Lemma unpack_lt h : forall n, Forall (fun r => r < 256) (unpack h n).
Proof.
  induction h as [|h IH]; intro n; cbn [unpack]; [constructor|].
  apply Forall_app. split; [apply IH|]. constructor; [apply N.mod_lt; discriminate|constructor].
Qed.

Lemma font_ok_b_sound w h glyphs : font_ok_b w h glyphs = true -> font_ok (font_of_data w h glyphs).
Proof.
  unfold font_ok_b. intro H.
  apply andb_true_iff in H. destruct H as [H Hsp]. apply andb_true_iff in H. destruct H as [H Hgl].
  apply andb_true_iff in H. destruct H as [H1 H8]. apply N.leb_le in H1, H8.
  unfold font_ok. cbn [f_w f_h f_glyph font_of_data]. split; [lia|]. split.
  - intros c g Hg. destruct (nth_error glyphs (N.to_nat c)) as [p|] eqn:En; [|discriminate].
    cbn [option_map] in Hg. injection Hg as <-. unfold glyph_ok. cbn [f_w f_h font_of_data].
    split; [rewrite unpack_length; apply N2Nat.id|].
    rewrite forallb_forall in Hgl. specialize (Hgl p (nth_error_In _ _ En)). unfold glyph_ok_b in Hgl.
    rewrite forallb_forall in Hgl. pose proof (unpack_lt (N.to_nat h) p) as Hlt. rewrite Forall_forall in Hlt.
    apply Forall_forall. intros r Hr. split; [apply Hlt, Hr|].
    specialize (Hgl r Hr). unfold row_ok_b in Hgl. apply N.eqb_eq in Hgl. exact Hgl.
  - intros g Hg. change (N.to_nat 32) with 32%nat in Hg. destruct (nth_error glyphs 32) as [p|] eqn:En; [|discriminate].
    cbn [option_map] in Hg. injection Hg as <-. apply N.eqb_eq in Hsp. exact Hsp.
Qed.

Lemma fonts_of_list_ok l :
  forallb (fun e => let '(_, w, h, g) := e in font_ok_b w h g) l = true -> fonts_ok (fonts_of_list l).
Proof.
  induction l as [|[[[p w] h] g] t IH]; intro H; cbn [fonts_of_list]; intros q f Hq; [discriminate|].
  cbn [forallb] in H. apply andb_true_iff in H. destruct H as [H1 H2].
  destruct (q =? p); [injection Hq as <-; apply font_ok_b_sound, H1|apply (IH H2 q f Hq)].
Qed.
