(* C08: the behaviour of the tree BEFORE the fix commits, for the three repaired defects that the Coq model can state
   (documentation: the theorems of Props/C08.v are about the fixed code, these witnesses show the old code refuted them).
   Old code, from the pinned commit:
     UndoLayerChange::undo : if layer.get_size() == old_chars.get_size() { layer.lines = old_chars.lines.clone() }
                             else { layer.stamp(pos, &old_chars) }            (stamp = set_char per cell)
     UndoSetChar::undo     : layers[i].set_char(pos, old)
     Layer::swap_char      : tmp = get_char(p1); set_char(p1, get_char(p2)); set_char(p2, tmp)   (no check) *)
From Coq Require Import List ZArith NArith Bool Arith Lia.
From IE Require Import Gen.UndoGen Model.Undo Model.EditModel Model.EditOps Proofs.LayerProofs.
(* also: the concrete document and history used by the non-vacuity Examples of Props/C08.v *)
Import ListNotations.
Local Open Scope Z_scope.

Definition l_stamp_old (L : layer) (tx ty : Z) (s : snap) : layer :=
  let '(w, h, _) := s in
  fold_left (fun L '(x, y) => l_set_char L (x + tx) (y + ty) (snap_get s x y)) (cells w h) L.

Definition l_restore_old (L : layer) (tx ty : Z) (s : snap) : layer :=
  let '(w, h, lines) := s in
  if (l_w L =? w) && (l_h L =? h) then with_lines L lines else l_stamp_old L tx ty s.

Definition l_swap_char_old (L : layer) (x1 y1 x2 y2 : Z) : layer :=
  let tmp := get_char L x1 y1 in
  l_set_char (l_set_char L x1 y1 (get_char L x2 y2)) x2 y2 tmp.

Definition cQ : cell := mkCell 81 7 0 0 0.
Definition cA : cell := mkCell 65 7 0 0 0.

Definition plain_layer (w h : Z) (flags_alpha : bool) : layer :=
  mkLayer 0 true false false flags_alpha flags_alpha 0 0 0 w h (10, 0)%N (repeat (line_create w) (Z.to_nat h)).

(* set_char (5,3) 'Q'; set_layer_size (3,2); flip_x; undo; undo: the hidden 'Q' is gone (DESIGN.md probe, scaled to 6x4) *)
Lemma layerchange_old_drops_hidden_refuted :
  exists L0 L1 L2 old,
    L0 = l_set_char (plain_layer 6 4 false) 5 3 cQ /\ L1 = with_size L0 3 2 /\
    from_layer L1 (0, 0, 3, 2) = Ok old /\ mut_flip_x (fun _ => Some (fun c => c)) L1 (0, 0, 3, 2) = Ok L2 /\
    get_char L0 5 3 = cQ /\
    get_char (with_size (l_restore_old L2 0 0 old) 6 4) 5 3 = invisible /\
    get_char (with_size (l_restore L2 0 0 old) 6 4) 5 3 = cQ.
Proof. do 4 eexists. repeat split; vm_compute; reflexivity. Qed.

(* alpha-locked layer: a visible cell replaced by an invisible one; the old undo (through set_char) is refused *)
Lemma setchar_old_alpha_refuted :
  exists L0 L1, L0 = with_lines (plain_layer 3 2 true) [[cA]] /\ L1 = l_set_char L0 0 0 invisible /\
    get_char L0 0 0 = cA /\ get_char L1 0 0 = invisible /\
    get_char (l_set_char L1 0 0 cA) 0 0 = invisible /\          (* old undo *)
    get_char (l_restore_char L1 0 0 cA) 0 0 = cA.               (* fixed undo *)
Proof. do 2 eexists. repeat split; vm_compute; reflexivity. Qed.

(* swap with a position outside the layer: the character is lost, swapping again does not bring it back *)
Lemma swap_old_loses_char_refuted :
  exists L0, L0 = with_lines (plain_layer 3 2 false) [[cA]] /\
    get_char (l_swap_char_old (l_swap_char_old L0 0 0 (-1) 0) 0 0 (-1) 0) 0 0 = invisible /\
    get_char (l_swap_char (l_swap_char L0 0 0 (-1) 0) 0 0 (-1) 0) 0 0 = cA.
Proof. eexists. repeat split; vm_compute; reflexivity. Qed.

(* ------------------------------------------------------------------ data of the non-vacuity Examples in Props/C08.v *)
Definition ex_doc : E := mkEs (mkE 6 4 [plain_layer 6 4 false] 0 None false 0 0) [] [].
Definition ex_tab : N -> option (N -> N) := fun _ => Some (fun ch => if (ch =? 81)%N then 79%N else ch).
Definition ex_hist : list (E -> res E) :=
  [api_set_char 5 3 cQ; api_set_char 0 0 cQ; api_set_layer_size 0 3 2; api_flip_x ex_tab; api_center; api_add_new_layer 0].
