(* C02 (text loaders): no character list can make a text loader panic.

   The initial state of every loader satisfies the file-buffer invariant W (Proofs/FileInv.v) - whatever the SAUCE record
   says (height 0 included) -; every character keeps it (Gen/FileAnsiSafeW.v, Gen/FileEmuSafeW.v = C01's scripts over the file
   core; ASCII, ATASCII and PETSCII below); the epilogue of parse_with_parser has no reachable panic site when font 0 is a
   font BitFont::from_bytes returned (since fix fB: 1..=8 x 1..=32, Props/C17.v loaded_font_dims) and the sixels lie inside i32.
   Both former exceptions are repaired: the macro-nesting overflow (C01's class; nesting limit) and a sixel next to a degenerate
   font 0 (Known 3, C02-sixel-font0; fix fB: the font loaders refuse such a font). *)
From Coq Require Import ZArith NArith List Bool Lia.
From IE Require Lib.C17Lib Gen.FontConsts Model.Font Proofs.FontProofs.      (* C17: the bitmap font loaders (used qualified) *)
From IE Require Import Model.FileCore Gen.FileAnsiTok Gen.FileEmu Gen.FilePetscii Proofs.TermProofs Proofs.FileAnsiLemmas Proofs.FileEmuLemmas
                       Proofs.FileInv Gen.FileAnsiSafeW Gen.FileEmuSafeW Model.FileLoad.
Import ListNotations.
Local Open Scope Z_scope.

(* ---- the initial states ------------------------------------------------------------------------------------------------------------ *)
Definition fsauce_nonneg (s : option fsauce) : Prop := match s with Some sc => 0 <= fs_w sc | None => True end.

Lemma sauce_size_width : forall w0 h0 s, 1 <= w0 -> fsauce_nonneg s -> 1 <= fst (sauce_size w0 h0 s).
Proof.
  intros w0 h0 [sc|] Hw Hs; cbn; [|exact Hw]. cbn in Hs.
  destruct (Z.eqb_spec (fs_w sc) 0); cbn; [lia|]. destruct (Z.gtb_spec (fs_w sc) 1000); cbn; lia.
Qed.
Lemma file_term_W : forall w0 h0 s rows fg bg ice, 1 <= w0 -> fsauce_nonneg s -> W (file_term w0 h0 s rows fg bg ice).
Proof.
  intros w0 h0 s rows fg bg ice Hw Hs. pose proof (sauce_size_width w0 h0 s Hw Hs) as H1.
  unfold file_term. destruct (sauce_size w0 h0 s) as [w h]. cbn [fst] in H1.
  unfold W, WG; cbn. repeat split; try lia; auto using reset_tabs_nonneg.
Qed.

(* ---- ASCII, ATASCII, PETSCII: one character ------------------------------------------------------------------------------------ *)
Lemma ascii_step_np : forall m ch, W (mt m) -> NPM (ascii_step m ch).
Proof. intros m ch HW. unfold ascii_step, print_value. mwifs; first [ exact HW | mwok HW | mwlift HW ]. Qed.
Lemma atascii_step_np : forall m ch, W (mt m) -> NPM (atascii_step m ch).
Proof.
  intros m ch HW. unfold atascii_step, print_value.
  mwifs; first [ exact HW | mwok HW | mwlift HW | idtac ].
  all: apply npm_lift, print_char_okW; eapply W_pgeo; [|exact HW]; reflexivity.
Qed.

Lemma pet_tch_range : forall ch tch, pet_tch ch = Some tch -> 0 <= tch <= 127.
Proof.
  intros ch tch. unfold pet_tch.
  repeat match goal with |- (if ?c then _ else _) = _ -> _ => destruct c eqn:? end; intro H; inversion H; subst; lia.
Qed.
Lemma pet_reverse_ok : forall b ch tch, pet_tch ch = Some tch -> exists code, pet_reverse b tch = ROk code.
Proof.
  intros b ch tch H. apply pet_tch_range in H. unfold pet_reverse. destruct b; [|eexists; reflexivity].
  destruct (Z.gtb_spec (tch + 128) 255); [lia|eexists; reflexivity].
Qed.
Lemma petscii_step_np : forall m ch, W (mt m) -> NPM (petscii_step m ch).
Proof.
  intros m c HW. unfold petscii_step. set (ch := c mod 256). clearbody ch. destruct (ea m =? 1).
  - unfold pet_escape. change (mt (with_e m 0 (eb m) (ec m) (ed m))) with (mt m).
    mwifs; first [ exact HW | mwok HW | mwlift HW ].
  - unfold pet_plain, pet_shift, set_foreground, print_value.
    mwifs; first [ exact HW | mwok HW | mwlift HW | idtac ].
    destruct (pet_tch ch) as [tch|] eqn:E; [|exact HW].
    destruct (pet_reverse_ok (eb m =? 1) ch tch E) as [code Ec]. rewrite Ec. mwlift HW.
Qed.

(* ---- streams ---------------------------------------------------------------------------------------------------------------------- *)
Lemma run_petscii_np : forall cs m, W (mt m) -> exists m', run_petscii m cs = RunOk m' /\ W (mt m').
Proof.
  unfold run_petscii. induction cs as [|c r IH]; intros m HW; cbn; [exists m; auto|].
  pose proof (petscii_step_np m c HW) as G. destruct (petscii_step m c) as [m1|m1|s]; try contradiction; apply IH; exact G.
Qed.
Lemma run_ascii_np : forall cs m, W (mt m) -> exists m', run EAscii m cs = RunOk m' /\ W (mt m').
Proof.
  induction cs as [|c r IH]; intros m HW; cbn [run step]; [exists m; auto|].
  pose proof (ascii_step_np m c HW) as G. destruct (ascii_step m c) as [m1|m1|s]; try contradiction; apply IH; exact G.
Qed.
Lemma run_atascii_np : forall cs m, W (mt m) -> exists m', run EAtascii m cs = RunOk m' /\ W (mt m').
Proof.
  induction cs as [|c r IH]; intros m HW; cbn [run step]; [exists m; auto|].
  pose proof (atascii_step_np m c HW) as G. destruct (atascii_step m c) as [m1|m1|s]; try contradiction; apply IH; exact G.
Qed.

(* ---- the sixel epilogue ---------------------------------------------------------------------------------------------------------------- *)
(* the pixel rectangle of the sixel (plus one character cell) lies inside i32: position and size are not negative *)
Definition SixelSane (fw fh : Z) (s : sixel) : Prop :=
  0 <= sx_x s /\ 0 <= sx_y s /\ 0 <= sx_w s /\ 0 <= sx_h s /\
  sx_x s * fw + sx_w s + fw <= I32_MAX /\ sx_y s * fh + sx_h s + fh <= I32_MAX.

Lemma chk_at_ok : forall site x, I32_MIN <= x <= I32_MAX -> chk_at site x = ROk x.
Proof.
  intros site x H. unfold chk_at. destruct (Z.leb_spec I32_MIN x); [|lia]. destruct (Z.leb_spec x I32_MAX); [|lia]. reflexivity.
Qed.
Lemma screen_rect_ok : forall fw fh s, 1 <= fw -> 1 <= fh -> SixelSane fw fh s ->
  screen_rect fw fh s = ROk (sx_x s * fw, sx_y s * fh, sx_w s, sx_h s).
Proof.
  intros fw fh s Hw Hh (A & B & C & D & E & F). unfold screen_rect, I32_MAX, I32_MIN in *.
  rewrite chk_at_ok by (unfold I32_MIN, I32_MAX; nia). cbn [bind]. rewrite chk_at_ok by (unfold I32_MIN, I32_MAX; nia). reflexivity.
Qed.
(* a rectangle with non-negative corner and size whose far corner is inside i32 *)
Definition RectSane (r : rect) : Prop := let '(x, y, w, h) := r in 0 <= x /\ 0 <= y /\ 0 <= w /\ 0 <= h /\ x + w <= I32_MAX /\ y + h <= I32_MAX.
Lemma contains_pt_ok : forall r px py, RectSane r -> exists b, contains_pt r px py = ROk b.
Proof.
  intros [[[x y] w] h] px py (A & B & C & D & E & F). unfold contains_pt.
  destruct (x <=? px); cbn [negb]; [|eexists; reflexivity].
  rewrite chk_at_ok by (unfold I32_MIN; lia). cbn [bind].
  destruct (px <=? x + w); cbn [negb]; [|eexists; reflexivity].
  destruct (y <=? py); cbn [negb]; [|eexists; reflexivity].
  rewrite chk_at_ok by (unfold I32_MIN; lia). cbn [bind]. eexists; reflexivity.
Qed.
Lemma contains_rect_ok : forall r o, RectSane r -> RectSane o -> exists b, contains_rect r o = ROk b.
Proof.
  intros r [[[x y] w] h] Hr (A & B & C & D & E & F). unfold contains_rect.
  destruct (contains_pt_ok r x y Hr) as [b1 E1]. rewrite E1. cbn [bind].
  destruct b1; cbn [negb]; [|eexists; reflexivity].
  rewrite chk_at_ok by (unfold I32_MIN; lia). cbn [bind]. rewrite chk_at_ok by (unfold I32_MIN; lia). cbn [bind].
  apply contains_pt_ok. exact Hr.
Qed.
Lemma sane_rect : forall fw fh s, 1 <= fw -> 1 <= fh -> SixelSane fw fh s -> RectSane (sx_x s * fw, sx_y s * fh, sx_w s, sx_h s).
Proof. intros fw fh s Hw Hh (A & B & C & D & E & F). unfold RectSane. repeat split; try nia. Qed.
Lemma shadow_ok : forall fw fh sr old, 1 <= fw -> 1 <= fh -> RectSane sr -> Forall (SixelSane fw fh) old ->
  exists l, shadow fw fh sr old = ROk l /\ Forall (SixelSane fw fh) l.
Proof.
  intros fw fh sr old Hw Hh Hr. induction old as [|o r IH]; intro H; cbn [shadow]; [exists []; auto|].
  inversion H as [|? ? Ho Hrest]; subst.
  rewrite (screen_rect_ok fw fh o Hw Hh Ho). cbn [bind].
  destruct (contains_rect_ok sr _ Hr (sane_rect fw fh o Hw Hh Ho)) as [c Ec]. rewrite Ec. cbn [bind].
  destruct (IH Hrest) as (l & El & Hl). rewrite El. cbn [bind]. eexists; split; [reflexivity|].
  destruct c; [exact Hl|constructor; assumption].
Qed.
Lemma join_sixels_ok : forall fw fh done kept, 1 <= fw -> 1 <= fh -> Forall (SixelSane fw fh) kept -> Forall (SixelSane fw fh) done ->
  exists l, join_sixels fw fh kept done = ROk l /\ Forall (SixelSane fw fh) l.
Proof.
  intros fw fh done. induction done as [|s r IH]; intros kept Hw Hh Hk Hd; cbn [join_sixels]; [exists kept; auto|].
  inversion Hd as [|? ? Hs Hr]; subst. unfold add_sixel.
  rewrite (screen_rect_ok fw fh s Hw Hh Hs). cbn [bind].
  destruct (shadow_ok fw fh _ kept Hw Hh (sane_rect fw fh s Hw Hh Hs) Hk) as (k & Ek & Hk'). rewrite Ek. cbn [bind].
  apply IH; auto. apply Forall_app. split; [exact Hk'|constructor; [exact Hs|constructor]].
Qed.
Lemma cells_of_ok : forall px f, 1 <= f -> 0 <= px -> px + f <= I32_MAX -> exists c, cells_of px f = ROk c /\ 0 <= c.
Proof.
  intros px f Hf Hp Hb. unfold cells_of.
  rewrite chk_at_ok by (unfold I32_MIN; lia). cbn [bind]. rewrite chk_at_ok by (unfold I32_MIN; lia). cbn [bind].
  destruct (Z.eqb_spec f 0); [lia|].
  assert (Q : 0 <= Z.quot (px + f - 1) f <= px + f - 1).
  { split; [apply Z.quot_pos; lia|]. rewrite Z.quot_div_nonneg by lia. apply Z.div_le_upper_bound; nia. }
  rewrite chk_at_ok by (unfold I32_MIN; lia). eexists; split; [reflexivity|lia].
Qed.
Lemma sixel_layers_ok : forall fw fh l, 1 <= fw -> 1 <= fh -> Forall (SixelSane fw fh) l -> exists r, sixel_layers fw fh l = ROk r.
Proof.
  intros fw fh l Hw Hh. induction l as [|s r IH]; intro H; cbn [sixel_layers]; [eexists; reflexivity|].
  inversion H as [|? ? (A & B & C & D & E & F) Hr]; subst. unfold sixel_layer.
  destruct (cells_of_ok (sx_w s) fw Hw C) as (cw & Ew & Pw); [nia|]. rewrite Ew. cbn [bind].
  destruct (cells_of_ok (sx_h s) fh Hh D) as (ch & Eh & Ph); [nia|]. rewrite Eh. cbn [bind].
  destruct (Z.ltb_spec cw 0); [lia|]. destruct (Z.ltb_spec ch 0); [lia|]. cbn [orb bind].
  destruct (IH Hr) as [r' Er]. rewrite Er. eexists; reflexivity.
Qed.
(* when is the oracle harmless: no sixel at all, or a font of at least 1 x 1 and pixel rectangles inside i32 *)
Definition SixelOk (fw fh : Z) (done : list sixel) : Prop := done = [] \/ (1 <= fw /\ 1 <= fh /\ Forall (SixelSane fw fh) done).
Lemma sixel_epilogue_ok : forall fw fh done, SixelOk fw fh done -> exists l, sixel_epilogue fw fh done = ROk l.
Proof.
  intros fw fh done [E|(Hw & Hh & Hd)]; [subst; eexists; reflexivity|]. unfold sixel_epilogue.
  destruct (join_sixels_ok fw fh done [] Hw Hh (Forall_nil _) Hd) as (k & Ek & Hk). rewrite Ek. cbn [bind].
  apply sixel_layers_ok; auto. apply Forall_rev. exact Hk.
Qed.
Lemma sixel_epilogue_e_ok : forall fw fh done serr, SixelOk fw fh done -> exists l, sixel_epilogue_e fw fh done serr = ROk l.
Proof.
  intros fw fh done serr [E|(Hw & Hh & Hd)]; [subst; destruct serr; eexists; reflexivity|]. unfold sixel_epilogue_e.
  destruct (join_sixels_ok fw fh done [] Hw Hh (Forall_nil _) Hd) as (k & Ek & Hk). rewrite Ek. cbn [bind].
  destruct serr; [eexists; reflexivity|].
  destruct (sixel_layers_ok fw fh (rev k) Hw Hh) as [l El]; [apply Forall_rev; exact Hk|]. rewrite El. eexists; reflexivity.
Qed.

(* ---- the loaders ------------------------------------------------------------------------------------------------------------------------ *)
Definition ansi_like_init (music : Z) (bs : bool) (s : option fsauce) : mach :=
  file_mach (file_term 80 25 s [] 7 0 (sauce_ice s)) (file_pst music bs s).

Lemma load_ansi_like_total : forall e music bs s fw fh done serr cs,
  e <> EViewdata -> e <> EMode7 -> fsauce_nonneg s -> SixelOk fw fh done ->
  match load_ansi_like e music bs s fw fh done serr cs with
  | TOk _ _ | TErr => True
  | TPanic _ => False
  end.
Proof.
  intros e music bs s fw fh done serr cs NV NM Hs Hx. unfold load_ansi_like. fold (ansi_like_init music bs s).
  assert (HW : W (mt (ansi_like_init music bs s))) by (apply file_term_W; [lia|exact Hs]).
  assert (EP : forall t, match epilogue fw fh done serr t with TOk _ _ | TErr => True | TPanic _ => False end).
  { intro t. unfold epilogue. destruct (sixel_epilogue_e_ok fw fh done serr Hx) as [l El]. rewrite El. destruct l; exact I. }
  assert (K : exists m', run e (ansi_like_init music bs s) cs = RunOk m').
  { destruct e; try contradiction.
    1-5: (match goal with |- context [run ?e0 _ _] =>
            destruct (run_np e0 cs (ansi_like_init music bs s) eq_refl HW) as (m' & E & _) end; exists m'; exact E).
    - destruct (run_ascii_np cs _ HW) as (m' & E & _). exists m'; exact E.
    - destruct (run_atascii_np cs _ HW) as (m' & E & _). exists m'; exact E. }
  destruct K as (m' & E). rewrite E. apply EP.
Qed.
Lemma load_seq_total : forall s cs, fsauce_nonneg s -> exists t, load_seq s cs = TOk t [].
Proof.
  intros s cs Hs. unfold load_seq.
  destruct (run_petscii_np cs (file_mach (file_term 40 25 s seq_rows 14 6 false) (file_pst 0 false s))) as (m' & E & _);
    [apply file_term_W; [lia|exact Hs]|]. rewrite E. eexists; reflexivity.
Qed.
Lemma load_ata_total : forall s cs, fsauce_nonneg s -> exists t, load_ata s cs = TOk t [].
Proof.
  intros s cs Hs. unfold load_ata.
  destruct (run_atascii_np cs (file_mach (file_term 40 24 s (repeat (line_create 40) 24%nat) 7 0 false) (file_pst 0 false s))) as (m' & E & _);
    [apply file_term_W; [lia|exact Hs]|]. rewrite E. eexists; reflexivity.
Qed.

(* all eight text loaders, every SAUCE record with a non-negative width (every record SauceData::extract returns), every
   character list: a buffer or an error value; never a panic.  (Before the macro nesting limit, fix 2513579, the five loaders with an
   ANSI parser inside had a third outcome, the macro-nesting overflow.) *)
Lemma text_load_total_proof : forall f s fw fh done serr cs, fsauce_nonneg s -> SixelOk fw fh done ->
  match text_load f s fw fh done serr cs with
  | TOk _ _ | TErr => True
  | TPanic _ => False
  end.
Proof.
  intros f s fw fh done serr cs Hs Hx.
  destruct f; cbn [text_load emu_of];
    try (apply load_ansi_like_total; [discriminate|discriminate|exact Hs|exact Hx]).
  - destruct (load_seq_total s cs Hs) as [t E]. rewrite E. exact I.
  - destruct (load_ata_total s cs Hs) as [t E]. rewrite E. exact I.
Qed.
(* the same, positively, for every format *)
Lemma text_load_returns : forall f s fw fh done serr cs, fsauce_nonneg s -> SixelOk fw fh done ->
  (exists t l, text_load f s fw fh done serr cs = TOk t l) \/ text_load f s fw fh done serr cs = TErr.
Proof.
  intros f s fw fh done serr cs Hs Hx. pose proof (text_load_total_proof f s fw fh done serr cs Hs Hx) as G.
  destruct (text_load f s fw fh done serr cs) as [t l| |site] eqn:E; [left; eauto|right; reflexivity|contradiction].
Qed.
Lemma text_load_standalone_total : forall f s fw fh done serr cs, (f = TAsc \/ f = TSeq \/ f = TAta) -> fsauce_nonneg s -> SixelOk fw fh done ->
  (exists t l, text_load f s fw fh done serr cs = TOk t l) \/ text_load f s fw fh done serr cs = TErr.
Proof. intros f s fw fh done serr cs _. apply text_load_returns. Qed.

(* ---- fix fB: font 0 is a loaded font ------------------------------------------------------------------------------------------------------ *)
(* The size of font 0 is no longer a free parameter of the hypothesis: every font a text loader can put into the font table comes out of
   BitFont::from_bytes (the default font and `CSI .. SP D`: from_ansi_font_page; a SAUCE font name: from_sauce_name; a `CTerm:Font:` DCS
   string: load_custom_font - all three call from_bytes; pinned by translator/gen_c02.py), and C17 proves that such a font is
   1..=MAX_FONT_WIDTH x 1..=MAX_FONT_HEIGHT (8 x 32).  What is left is a condition on the sixels alone. *)
Definition FW_MAX : Z := Z.of_N FontConsts.MAX_FONT_WIDTH.
Definition FH_MAX : Z := Z.of_N FontConsts.MAX_FONT_HEIGHT.
Definition FontDims (fw fh : Z) : Prop := 1 <= fw <= FW_MAX /\ 1 <= fh <= FH_MAX.
Definition LoadedFont (fw fh : Z) : Prop :=
  exists data f, Font.from_bytes data = C17Lib.Ok f /\ Font.f_w f = fw /\ Font.f_h f = fh.
Lemma loaded_font_dims : forall fw fh, LoadedFont fw fh -> FontDims fw fh.
Proof. intros fw fh (data & f & E & <- & <-). exact (FontProofs.loaded_font_dims_proof data f E). Qed.
(* the default font: an 8 x 16 PSF2 file (here: its header without glyphs) *)
Lemma loaded_font_8x16 : LoadedFont 8 16.
Proof.
  exists (C17Lib.u32le FontConsts.PSF2_MAGIC ++ C17Lib.u32le 0 ++ C17Lib.u32le 32 ++ C17Lib.u32le 0 ++ C17Lib.u32le 0 ++ C17Lib.u32le 16
          ++ C17Lib.u32le 16 ++ C17Lib.u32le 8)%N, (Font.mkFont 8 16 0 []).
  split; [vm_compute; reflexivity|split; reflexivity].
Qed.
(* a decoded sixel whose pixel rectangle lies inside i32 for EVERY loadable font: position and size are not negative,
   (x + 1) * 8 + width and (y + 1) * 32 + height do not exceed i32::MAX *)
Definition SixelBounded (s : sixel) : Prop :=
  0 <= sx_x s /\ 0 <= sx_y s /\ 0 <= sx_w s /\ 0 <= sx_h s /\
  (sx_x s + 1) * FW_MAX + sx_w s <= I32_MAX /\ (sx_y s + 1) * FH_MAX + sx_h s <= I32_MAX.
Lemma bounded_sane : forall fw fh s, FontDims fw fh -> SixelBounded s -> SixelSane fw fh s.
Proof. intros fw fh s ((A & B) & (C & D)) (E & F & G & H & I & J). unfold SixelSane. repeat split; try assumption; nia. Qed.
Lemma bounded_ok : forall fw fh done, FontDims fw fh -> Forall SixelBounded done -> SixelOk fw fh done.
Proof.
  intros fw fh done Hd Hs. right. destruct Hd as ((A & B) & (C & D)). repeat split; try assumption.
  eapply Forall_impl; [|exact Hs]. intros s Hb. apply bounded_sane; [repeat split; assumption|exact Hb].
Qed.
Lemma sixel_epilogue_bounded : forall fw fh done, FontDims fw fh -> Forall SixelBounded done -> exists l, sixel_epilogue fw fh done = ROk l.
Proof. intros. apply sixel_epilogue_ok, bounded_ok; assumption. Qed.
Lemma text_load_total_bounded : forall f s fw fh done serr cs, fsauce_nonneg s -> FontDims fw fh -> Forall SixelBounded done ->
  match text_load f s fw fh done serr cs with TOk _ _ | TErr => True | TPanic _ => False end.
Proof. intros. apply text_load_total_proof; [assumption|apply bounded_ok; assumption]. Qed.
Lemma text_load_returns_bounded : forall f s fw fh done serr cs, fsauce_nonneg s -> FontDims fw fh -> Forall SixelBounded done ->
  (exists t l, text_load f s fw fh done serr cs = TOk t l) \/ text_load f s fw fh done serr cs = TErr.
Proof. intros. apply text_load_returns; [assumption|apply bounded_ok; assumption]. Qed.
Lemma text_load_standalone_bounded : forall f s fw fh done serr cs, (f = TAsc \/ f = TSeq \/ f = TAta) -> fsauce_nonneg s ->
  FontDims fw fh -> Forall SixelBounded done ->
  (exists t l, text_load f s fw fh done serr cs = TOk t l) \/ text_load f s fw fh done serr cs = TErr.
Proof. intros f s fw fh done serr cs _. apply text_load_returns_bounded. Qed.
(* with the font itself in the statement: font 0 = what from_bytes made of ANY byte string *)
Lemma text_load_total_loaded_font : forall f s data font0 done serr cs, fsauce_nonneg s ->
  Font.from_bytes data = C17Lib.Ok font0 -> Forall SixelBounded done ->
  match text_load f s (Font.f_w font0) (Font.f_h font0) done serr cs with TOk _ _ | TErr => True | TPanic _ => False end.
Proof.
  intros f s data font0 done serr cs Hs E Hb. apply text_load_total_bounded; [exact Hs| |exact Hb].
  exact (FontProofs.loaded_font_dims_proof data font0 E).
Qed.

(* ---- the repaired class and the one that stays outside ------------------------------------------------------------------------------------- *)
(* (1) the former C02-stackoverflow:invoke_macro_by_id: `ESC P 1;0;1 ! z 1B5B312A7A ESC \` stores macro 1 = `ESC [ 1 * z`, `ESC [ 1 * z` runs it:
   the file loads (the invocation is one error value inside the parser, parse_with_parser logs it) *)
Definition macro_bomb : list Z :=
  [27; 80; 49; 59; 48; 59; 49; 33; 122; 49; 66; 53; 66; 51; 49; 50; 65; 55; 65; 27; 92; 27; 91; 49; 42; 122].
Lemma macro_bomb_loads : match text_load TAns None 8 16 [] false macro_bomb with TOk t [] => (bh t, cx t, cy t) = (0, 0, 0) | _ => False end.
Proof. vm_compute. reflexivity. Qed.
(* (2) the former C02-sixel-font0: a sixel next to a font 0 of width 0 / of width 2^30 (cursor in column 2) / of size -1 x -1 (PSF2 header
   fields are u32).  The epilogue is unchanged - these computations still fail -, but no loaded font has such a size any more: the loader
   before fix fB (FontProofs.load_psf2_before_fix) returned these fonts for a bare 32 byte header, from_bytes now refuses them. *)
Lemma sixel_div_zero_witness : sixel_epilogue 0 16 [mkSx 0 0 4 6] = RPanic SITE_SIXEL_DIV.
Proof. vm_compute. reflexivity. Qed.
Lemma sixel_mul_overflow_witness : sixel_epilogue 1073741824 16 [mkSx 2 0 4 6] = RPanic SITE_SIXEL_MUL.
Proof. vm_compute. reflexivity. Qed.
Lemma sixel_negative_layer_witness : sixel_epilogue (-1) (-1) [mkSx 0 0 4 6] = RPanic SITE_LAYER_NEW.
Proof. vm_compute. reflexivity. Qed.
Lemma sixel_div_zero_height_witness : sixel_epilogue 8 0 [mkSx 0 0 4 6] = RPanic SITE_SIXEL_DIV.
Proof. vm_compute. reflexivity. Qed.
(* the four headers: what the old loader made of them, and what the epilogue does with that font *)
Lemma known_3_before_fix :
  (exists f, FontProofs.load_psf2_before_fix (FontProofs.psf2_header 16 0) = C17Lib.Ok f /\
             sixel_epilogue (Font.f_w f) (Font.f_h f) [mkSx 0 0 4 6] = RPanic SITE_SIXEL_DIV) /\
  (exists f, FontProofs.load_psf2_before_fix (FontProofs.psf2_header 0 8) = C17Lib.Ok f /\
             sixel_epilogue (Font.f_w f) (Font.f_h f) [mkSx 0 0 4 6] = RPanic SITE_SIXEL_DIV) /\
  (exists f, FontProofs.load_psf2_before_fix (FontProofs.psf2_header 16 1073741824) = C17Lib.Ok f /\
             sixel_epilogue (Font.f_w f) (Font.f_h f) [mkSx 2 0 4 6] = RPanic SITE_SIXEL_MUL) /\
  (exists f, FontProofs.load_psf2_before_fix (FontProofs.psf2_header 4294967295 4294967295) = C17Lib.Ok f /\
             sixel_epilogue (Font.f_w f) (Font.f_h f) [mkSx 0 0 4 6] = RPanic SITE_LAYER_NEW).
Proof.
  destruct FontProofs.psf2_dims_before_fix_refuted_proof as (A & B & C & D).
  repeat split; eexists; (split; [eassumption|vm_compute; reflexivity]).
Qed.
(* ... and after: from_bytes refuses all four (and a PSF1 header with charsize 0), so the `CTerm:Font:0:` string is an error value of the
   parser, font 0 stays the default 8 x 16 font and the file - font string, then a 4 x 6 pixel sixel - loads with one 1 x 1 Image layer.
   [font0_w0_file] = ESC P CTerm:Font:0: base64(psf2_header 16 0) ESC \ ESC P q #0;2;0;0;0#0~~~~ ESC \ *)
Definition font0_w0_file : list Z :=
  [27; 80; 67; 84; 101; 114; 109; 58; 70; 111; 110; 116; 58; 48; 58] ++
  [99; 114; 86; 75; 104; 103; 65; 65; 65; 65; 65; 103; 65; 65; 65; 65; 65; 65; 65; 65; 65; 65; 65; 65; 65; 65; 65; 65; 65; 65; 65; 65; 69; 65; 65; 65; 65; 65; 65; 65; 65; 65; 65; 61] ++
  [27; 92; 27; 80; 113; 35; 48; 59; 50; 59; 48; 59; 48; 59; 48; 35; 48; 126; 126; 126; 126; 27; 92].
Lemma known_3_after_fix :
  Font.from_bytes (FontProofs.psf2_header 16 0) = C17Lib.Err Font.E_SIZE /\ Font.from_bytes (FontProofs.psf2_header 0 8) = C17Lib.Err Font.E_SIZE /\
  Font.from_bytes (FontProofs.psf2_header 16 1073741824) = C17Lib.Err Font.E_SIZE /\
  Font.from_bytes (FontProofs.psf2_header 4294967295 4294967295) = C17Lib.Err Font.E_SIZE /\
  Font.from_bytes [54; 4; 0; 0]%N = C17Lib.Err Font.E_SIZE /\
  match text_load TAns None 8 16 [mkSx 0 0 4 6] false font0_w0_file with TOk t [(1, 1)] => (bh t, cx t, cy t) = (1, 0, 0) | _ => False end.
Proof.
  destruct FontProofs.psf2_dims_after_fix_proof as (A & B & C & D & E & _).
  split; [exact A|]. split; [exact B|]. split; [exact C|]. split; [exact D|]. split; [exact E|].
  vm_compute. reflexivity.
Qed.
