(* C02 - the hypothesis of `from_bytes_total` discharged: the text loaders of Model/C02Text.v never panic, except in the
   macro-nesting overflow (Known 2 = C01's known class reached through a file) and with an insane sixel oracle (Known 3). *)
From Coq Require Import NArith ZArith Bool List Lia.
From IE Require Import Lib.Tbl Lib.C05Lib Lib.C02Lib Gen.C02Ext Model.C05Buf Model.C02Dispatch Model.C02Text
  Proofs.C02Proofs Proofs.C02DispatchProofs.
From IE Require Model.Sauce Model.FileLoad Proofs.FileLoadProofs.
Import ListNotations.
Local Open Scope Z_scope.

Lemma fs_of_nonneg s : sauce_nonneg s -> FileLoadProofs.fsauce_nonneg (fs_of s).
Proof. destruct s; cbn; auto. Qed.

(* Known 2: the file stores a macro that (transitively) invokes itself - the text loader runs into the nesting bound of the
   model; the real parser recurses until the stack is gone (C01-stackoverflow:invoke_macro_by_id) *)
Definition MacroCrash (conv : list N -> list Z) (f : fmt) (content : list N) (s : option sauce) : Prop :=
  exists tf, tfmt_of f = Some tf /\ FileLoadProofs.text_overflow tf (fs_of s) (conv content).
(* not Known 3: whatever the sixel oracle reports is harmless (no sixel, or font 0 at least 1 x 1 and every pixel rectangle inside i32) *)
Definition SaneOracle (sixels : sixel_oracle) : Prop :=
  forall f content s, let '(fw, fh, done, _) := sixels f content s in FileLoadProofs.SixelOk fw fh done.

Lemma text_load_model_total conv sixels f content s :
  SaneOracle sixels -> sauce_nonneg s -> text_load_model conv sixels f content s = OPanic -> MacroCrash conv f content s.
Proof.
  intros Ho Hs. unfold text_load_model, MacroCrash. destruct (tfmt_of f) as [tf|] eqn:Ef; [|discriminate].
  specialize (Ho f content s). destruct (sixels f content s) as [[[fw fh] done] serr].
  pose proof (FileLoadProofs.text_load_total_proof tf (fs_of s) fw fh done serr (conv content) (fs_of_nonneg s Hs) Ho) as G.
  destruct (FileLoad.text_load tf (fs_of s) fw fh done serr (conv content)); intro H; [discriminate|discriminate|contradiction|].
  exists tf. split; [reflexivity|exact G].
Qed.
(* formats without an ANSI parser inside cannot overflow: ASCII, PETSCII, ATASCII files always load *)
Lemma text_load_model_standalone conv sixels f content s :
  SaneOracle sixels -> sauce_nonneg s -> (f = FAsc \/ f = FSeq \/ f = FAta) -> text_load_model conv sixels f content s <> OPanic.
Proof.
  intros Ho Hs Hf. unfold text_load_model.
  assert (exists tf, tfmt_of f = Some tf /\ (tf = FileLoad.TAsc \/ tf = FileLoad.TSeq \/ tf = FileLoad.TAta)) as (tf & Ef & Ht)
    by (destruct Hf as [->|[->| ->]]; eexists; split; try reflexivity; auto).
  rewrite Ef. specialize (Ho f content s). destruct (sixels f content s) as [[[fw fh] done] serr].
  destruct (FileLoadProofs.text_load_standalone_total tf (fs_of s) fw fh done serr (conv content) Ht (fs_of_nonneg s Hs) Ho) as [(t & l & E)|E];
    rewrite E; discriminate.
Qed.

Section Dispatch.
  Variable dp : list N -> option Sauce.ymd.
  Variable conv : list N -> list Z.
  Variable sixels : sixel_oracle.
  Variable icy_chunks : list N -> option (list (C02Icy.kind * list N)).
  Variable font_ok pal_ok sauce_ok : list N -> bool.
  Hypothesis sane : SaneOracle sixels.

  (* Known 2 at the level of the file *)
  Definition FileMacroCrash (ext bytes : list N) : Prop :=
    exists content m, Sauce.split dp bytes = Sauce.Ok (content, m) /\ MacroCrash conv (fmt_of_ext ext) content (option_map view m).

  Lemma load_fmt_text_total f content s : sauce_nonneg s ->
    load_fmt (text_load_model conv sixels) icy_chunks font_ok pal_ok sauce_ok f content s = OPanic -> MacroCrash conv f content s.
  Proof.
    intros Hs H.
    destruct (is_text f) eqn:Et.
    - assert (E : load_fmt (text_load_model conv sixels) icy_chunks font_ok pal_ok sauce_ok f content s = text_load_model conv sixels f content s)
        by (destruct f; try discriminate Et; reflexivity).
      rewrite E in H. eapply text_load_model_total; eauto.
    - exfalso. revert H. destruct f; try discriminate Et; cbn [load_fmt].
      + destruct (icy_chunks content); [apply cls_total, C02IcyProofs.run_chunks_total|discriminate].
      + apply cls_total, idf_total.
      + apply cls_total, bin_total, Hs.
      + apply cls_total, xb2_total.
      + apply cls_total, tnd2_total.
      + apply cls_total, adf_total.
  Qed.

  Lemma from_bytes_crash_is_macro ext bytes :
    from_bytes dp (text_load_model conv sixels) icy_chunks font_ok pal_ok sauce_ok ext bytes = OPanic -> FileMacroCrash ext bytes.
  Proof.
    unfold from_bytes, FileMacroCrash. pose proof (SauceProofs.split_total_proof dp bytes) as Ht.
    destruct (Sauce.split dp bytes) as [[c m]|e|s] eqn:E; [|discriminate|contradiction].
    intro H. exists c, m. split; [reflexivity|]. eapply load_fmt_text_total; [|exact H]. eapply split_sauce_nonneg, E.
  Qed.
  Lemma from_bytes_total_unconditional ext bytes :
    ~ FileMacroCrash ext bytes -> from_bytes dp (text_load_model conv sixels) icy_chunks font_ok pal_ok sauce_ok ext bytes <> OPanic.
  Proof. intros N H. apply N, from_bytes_crash_is_macro, H. Qed.
  (* extensions that resolve to a loader without an ANSI parser inside: no exception at all *)
  Lemma from_bytes_no_ansi_total ext bytes :
    (fmt_of_ext ext = FAsc \/ fmt_of_ext ext = FSeq \/ fmt_of_ext ext = FAta \/ is_text (fmt_of_ext ext) = false) ->
    from_bytes dp (text_load_model conv sixels) icy_chunks font_ok pal_ok sauce_ok ext bytes <> OPanic.
  Proof.
    intros Hf H. destruct (from_bytes_crash_is_macro ext bytes H) as (c & m & _ & tf & Etf & Ho).
    unfold FileLoadProofs.text_overflow in Ho.
    destruct Hf as [E|[E|[E|E]]].
    - rewrite E in Etf. inversion Etf; subst tf. cbn in Ho. destruct Ho as (Hw & _). discriminate Hw.
    - rewrite E in Etf. inversion Etf; subst tf. exact Ho.
    - rewrite E in Etf. inversion Etf; subst tf. exact Ho.
    - destruct (fmt_of_ext ext); cbn in E, Etf; first [discriminate E|discriminate Etf].
  Qed.
End Dispatch.
