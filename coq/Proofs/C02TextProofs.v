(* C02 - the hypothesis of `from_bytes_total` discharged: the text loaders of Model/C02Text.v never panic when the oracle of the epilogue
   reports a font 0 that BitFont::from_bytes returned and sixels inside i32 (fix fB: the former Known 3, a sixel next to a degenerate font 0,
   is repaired - no such font is loaded any more, the hypothesis on the size of font 0 became a statement about the loader).  (The former Known 2, the macro-nesting overflow = C01's known class reached through a file, is repaired by the
   nesting limit MAX_MACRO_NESTING, fix 2513579: the predicates MacroCrash / FileMacroCrash are gone, the statements lost the exception.) *)
From Coq Require Import NArith ZArith Bool List Lia.
From IE Require Import Lib.Tbl Lib.C05Lib Lib.C02Lib Gen.C02Ext Model.C05Buf Model.C02Dispatch Model.C02Text
  Proofs.C02Proofs Proofs.C02DispatchProofs.
From IE Require Model.Sauce Model.FileLoad Proofs.FileLoadProofs.
Import ListNotations.
Local Open Scope Z_scope.

Lemma fs_of_nonneg s : sauce_nonneg s -> FileLoadProofs.fsauce_nonneg (fs_of s).
Proof. destruct s; cbn; auto. Qed.

(* what is assumed of the oracle (decode threads of C14, font table of C17): the size it reports for font 0 is the size of a font that
   BitFont::from_bytes returned for SOME byte string (LoadedFont - every way a text loader has of installing a font ends in from_bytes; it
   implies 1..=8 x 1..=32 by Props/C17.v loaded_font_dims), and every decoded sixel has a non-negative position and pixel size with
   (x + 1) * 8 + width <= i32::MAX, (y + 1) * 32 + height <= i32::MAX (SixelBounded: no mention of the font).
   Before fix fB: `no sixel, or font 0 at least 1 x 1 and every pixel rectangle inside i32` - a condition on the font that a file could violate. *)
Definition SaneOracle (sixels : sixel_oracle) : Prop :=
  forall f content s, let '(fw, fh, done, _) := sixels f content s in
    FileLoadProofs.LoadedFont fw fh /\ Forall FileLoadProofs.SixelBounded done.
(* the weaker reading (only the size matters): enough for every theorem below *)
Definition DimsOracle (sixels : sixel_oracle) : Prop :=
  forall f content s, let '(fw, fh, done, _) := sixels f content s in
    FileLoadProofs.FontDims fw fh /\ Forall FileLoadProofs.SixelBounded done.
Lemma sane_dims sixels : SaneOracle sixels -> DimsOracle sixels.
Proof.
  intros H f content s. specialize (H f content s). destruct (sixels f content s) as [[[fw fh] done] serr].
  destruct H as [L B]. split; [exact (FileLoadProofs.loaded_font_dims fw fh L)|exact B].
Qed.
(* not vacuous: the oracle of a file without sixels and with the default font *)
Lemma sane_oracle_default : SaneOracle (fun _ _ _ => (8, 16, [], false)).
Proof. intros f content s. split; [exact FileLoadProofs.loaded_font_8x16|constructor]. Qed.

Lemma text_load_model_total conv sixels f content s :
  SaneOracle sixels -> sauce_nonneg s -> text_load_model conv sixels f content s <> OPanic.
Proof.
  intros Ho Hs. apply sane_dims in Ho. unfold text_load_model. destruct (tfmt_of f) as [tf|] eqn:Ef; [|discriminate].
  specialize (Ho f content s). destruct (sixels f content s) as [[[fw fh] done] serr]. destruct Ho as [Hd Hb].
  pose proof (FileLoadProofs.text_load_total_bounded tf (fs_of s) fw fh done serr (conv content) (fs_of_nonneg s Hs) Hd Hb) as G.
  destruct (FileLoad.text_load tf (fs_of s) fw fh done serr (conv content)); intro H; [discriminate|discriminate|contradiction].
Qed.
(* (kept: the special case for the formats without an ANSI parser inside: ASCII, PETSCII, ATASCII) *)
Lemma text_load_model_standalone conv sixels f content s :
  SaneOracle sixels -> sauce_nonneg s -> (f = FAsc \/ f = FSeq \/ f = FAta) -> text_load_model conv sixels f content s <> OPanic.
Proof. intros Ho Hs _. apply text_load_model_total; assumption. Qed.

Section Dispatch.
  Variable dp : list N -> option Sauce.ymd.
  Variable conv : list N -> list Z.
  Variable sixels : sixel_oracle.
  Variable icy_chunks : list N -> option (list (C02Icy.kind * list N)).
  Variable font_ok pal_ok sauce_ok : list N -> bool.
  Hypothesis sane : SaneOracle sixels.

  Lemma load_fmt_text_total f content s : sauce_nonneg s ->
    load_fmt (text_load_model conv sixels) icy_chunks font_ok pal_ok sauce_ok f content s <> OPanic.
  Proof.
    intros Hs H.
    destruct (is_text f) eqn:Et.
    - assert (E : load_fmt (text_load_model conv sixels) icy_chunks font_ok pal_ok sauce_ok f content s = text_load_model conv sixels f content s)
        by (destruct f; try discriminate Et; reflexivity).
      rewrite E in H. eapply text_load_model_total; eauto.
    - revert H. destruct f; try discriminate Et; cbn [load_fmt].
      + destruct (icy_chunks content); [apply cls_total, C02IcyProofs.run_chunks_total|discriminate].
      + apply cls_total, idf_total.
      + apply cls_total, bin_total, Hs.
      + apply cls_total, xb2_total.
      + apply cls_total, tnd2_total.
      + apply cls_total, adf_total.
  Qed.

  (* Buffer::from_bytes, every extension, every byte string: never a crash *)
  Lemma from_bytes_total_unconditional ext bytes :
    from_bytes dp (text_load_model conv sixels) icy_chunks font_ok pal_ok sauce_ok ext bytes <> OPanic.
  Proof.
    unfold from_bytes. pose proof (SauceProofs.split_total_proof dp bytes) as Ht.
    destruct (Sauce.split dp bytes) as [[c m]|e|s] eqn:E; [|discriminate|contradiction].
    apply load_fmt_text_total. eapply split_sauce_nonneg, E.
  Qed.
  (* (kept: the special case of the extensions that resolve to a loader without an ANSI parser inside) *)
  Lemma from_bytes_no_ansi_total ext bytes :
    (fmt_of_ext ext = FAsc \/ fmt_of_ext ext = FSeq \/ fmt_of_ext ext = FAta \/ is_text (fmt_of_ext ext) = false) ->
    from_bytes dp (text_load_model conv sixels) icy_chunks font_ok pal_ok sauce_ok ext bytes <> OPanic.
  Proof. intros _. apply from_bytes_total_unconditional. Qed.
End Dispatch.
