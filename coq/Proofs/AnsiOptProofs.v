(* C04: the colour optimiser that Buffer::to_bytes runs before the ANSI writer (unless lossles_output), and the
   end-to-end round trip  save -> load. *)
From Coq Require Import NArith ZArith Bool List Lia.
From IE Require Import Lib.Tbl Lib.C04Lib Gen.Codepage Gen.AnsiConsts Model.Attr Model.AnsiWriter Model.AnsiParser
  Proofs.AnsiPalProofs Proofs.AnsiSgrProofs Proofs.AnsiScreenProofs Proofs.AnsiBytesProofs Proofs.AnsiLayoutProofs
  Proofs.AnsiRowsProofs.
Import ListNotations.
Local Open Scope N_scope.

(* every cell of the optimised buffer is optimize_cell of the source cell for some "current attribute" *)
Lemma optimize_row_nth norm : forall row cur x s, nth_error row x = Some s ->
  exists cur', nth_error (snd (optimize_row norm cur row)) x = Some (optimize_cell norm cur' s).
Proof.
  induction row as [|c r IH]; intros cur x s E; [destruct x; discriminate|].
  cbn [optimize_row]. destruct (optimize_row norm (snd (optimize_cell norm cur c)) r) as [cur2 r'] eqn:ER.
  cbn [snd]. destruct x as [|x]; cbn [nth_error] in *.
  - inversion E; subst. exists cur. reflexivity.
  - destruct (IH (snd (optimize_cell norm cur c)) x s E) as [cur' H]. rewrite ER in H. exists cur'. exact H.
Qed.

Lemma optimize_row_length norm : forall row cur, length (snd (optimize_row norm cur row)) = length row.
Proof.
  induction row as [|c r IH]; intro cur; [reflexivity|].
  cbn [optimize_row]. destruct (optimize_row norm (snd (optimize_cell norm cur c)) r) as [cur2 r'] eqn:ER.
  cbn [snd length]. specialize (IH (snd (optimize_cell norm cur c))). rewrite ER in IH. cbn [snd] in IH. lia.
Qed.

Lemma optimize_rows_nth norm : forall rows cur y row, nth_error rows y = Some row ->
  exists cur', nth_error (optimize_rows norm cur rows) y = Some (snd (optimize_row norm cur' row)).
Proof.
  induction rows as [|r0 rs IH]; intros cur y row E; [destruct y; discriminate|].
  cbn [optimize_rows]. destruct (optimize_row norm cur r0) as [cur1 r0'] eqn:ER.
  destruct y as [|y]; cbn [nth_error] in *.
  - inversion E; subst. exists cur. rewrite ER. reflexivity.
  - apply IH, E.
Qed.

Lemma optimize_rows_length norm : forall rows cur, length (optimize_rows norm cur rows) = length rows.
Proof.
  induction rows as [|r0 rs IH]; intro cur; [reflexivity|].
  cbn [optimize_rows]. destruct (optimize_row norm cur r0) as [cur1 r0']. cbn [length]. rewrite IH. reflexivity.
Qed.

Lemma optimize_rows_In norm : forall rows cur row', In row' (optimize_rows norm cur rows) ->
  exists row cur', In row rows /\ row' = snd (optimize_row norm cur' row).
Proof.
  induction rows as [|r0 rs IH]; intros cur row' H; [destruct H|].
  cbn [optimize_rows] in H. destruct (optimize_row norm cur r0) as [cur1 r0'] eqn:ER.
  destruct H as [<-|H].
  - exists r0, cur. split; [left; reflexivity|rewrite ER; reflexivity].
  - destruct (IH cur1 row' H) as (row & cur' & I & E). exists row, cur'. split; [right; exact I|exact E].
Qed.

Lemma optimize_row_In norm : forall row cur s', In s' (snd (optimize_row norm cur row)) ->
  exists s cur', In s row /\ s' = optimize_cell norm cur' s.
Proof.
  induction row as [|c r IH]; intros cur s' H; [destruct H|].
  cbn [optimize_row] in H. destruct (optimize_row norm (snd (optimize_cell norm cur c)) r) as [cur2 r'] eqn:ER.
  cbn [snd] in H. destruct H as [<-|H].
  - exists c, cur. split; [left; reflexivity|reflexivity].
  - specialize (IH (snd (optimize_cell norm cur c)) s'). rewrite ER in IH. destruct (IH H) as (s & cur' & I & E).
    exists s, cur'. split; [right; exact I|exact E].
Qed.

(* what the optimiser may change in a cell *)
Lemma optimize_cell_spec norm cur (s : cell) :
  let s' := optimize_cell norm cur s in
  is_blinking (snd s') = is_blinking (snd s) /\
  ((fst s' = fst s /\ snd s' = snd s) \/
   (is_blank_char (fst s) = true /\ is_blank_char (fst s') = true /\ background_color (snd s') = background_color (snd s)) \/
   (fst s = 219 /\ fst s' = 219 /\ shown_fg (snd s') = shown_fg (snd s))).
Proof.
  destruct s as [ch a]. unfold optimize_cell, glyph_shape. cbn zeta.
  destruct (is_blank_char ch) eqn:B.
  - cbn [fst snd]. split; [reflexivity|]. right; left. split; [exact B|]. split; [destruct norm; [reflexivity|exact B]|reflexivity].
  - destruct (ch =? 219) eqn:K.
    + apply N.eqb_eq in K. subst ch. cbn [fst snd]. split; [reflexivity|]. right; right. repeat split.
    + cbn [fst snd]. split; [reflexivity|left; split; reflexivity].
Qed.

Section EndToEnd.
  Variables (o : SaveOptions) (ice : IceMode) (bpal : palette) (W H : N).
  Hypothesis PO : pal_ok bpal.
  Hypothesis PU : pal_u8 bpal.
  Hypothesis W0 : 0 < W.
  Hypothesis WB : W < 1073741824.
  Hypothesis H0 : 0 < H.
  Hypothesis HB : H < 1073741824.
  Variable rows : list (list cell).
  Hypothesis ROWS : Forall (row_ok o ice W) rows.
  Hypothesis LROWS : N.of_nat (length rows) = H.
  Hypothesis WS : if o_sauce o then W <= 1000 else W = 80.

  Lemma optimize_cell_dom norm cur s : cell_dom o ice s -> cell_dom o ice (optimize_cell norm cur s).
  Proof.
    intros [CO AO]. pose proof (optimize_cell_spec norm cur s) as SP. cbn zeta in SP. destruct SP as [BL SP].
    split.
    - destruct s as [ch a]. unfold optimize_cell, glyph_shape in *. destruct (is_blank_char ch) eqn:B.
      + cbn [fst]. destruct norm; [|exact CO]. intro C. discriminate C.
      + destruct (ch =? 219); exact CO.
    - unfold attr_ok in *. intro I. rewrite BL. exact (AO I).
  Qed.

  Lemma optimize_rows_ok norm : Forall (row_ok o ice W) (optimize norm rows).
  Proof.
    apply Forall_forall. intros row' Hr. unfold optimize in Hr.
    destruct (optimize_rows_In _ _ _ _ Hr) as (row & cur' & I & ->).
    rewrite Forall_forall in ROWS. destruct (ROWS row I) as [L F].
    split; [rewrite optimize_row_length; exact L|].
    apply Forall_forall. intros s' Hs. destruct (optimize_row_In _ _ _ _ Hs) as (s & cur2 & Is & ->).
    apply optimize_cell_dom. rewrite Forall_forall in F. exact (F s Is).
  Qed.

  (* the oracle of the property: the background of a full block is not displayed, and only the optimiser (which
     runs unless lossles_output) is allowed to change it *)
  Definition cell_match_opt (s : cell) (obs : N * rgb * rgb * bool) : Prop :=
    let '(ch, fg, bg, bl) := obs in
    (ch = fst s \/ (is_blank_char (fst s) = true /\ is_blank_char ch = true)) /\
    (fg = pal_rgb bpal (shown_fg (snd s)) \/ is_blank_char (fst s) = true) /\
    (bg = pal_rgb bpal (background_color (snd s)) \/ (fst s = 219 /\ o_lossless o = false)) /\
    bl = is_blinking (snd s).

  Theorem ansi_roundtrip :
    let sv := save o ice bpal W H rows in
    starts_with_bom (sv_bytes sv) = false ->
    let b := load (sv_bytes sv) (sv_sauce sv) in
    ld_unmodelled b = false /\ ld_width b = Z.of_N W /\ ld_height b = Z.of_N H /\ ld_ice b = cice_of ice /\
    forall x y row s, nth_error rows y = Some row -> nth_error row x = Some s ->
      cell_match_opt s (shown_cell (ld_pal b) (loaded_cell b (Z.of_nat x) (Z.of_nat y))).
  Proof.
    cbn zeta. unfold save. cbn [sv_bytes sv_sauce].
    change (if o_sauce o then Some (W, H, match ice with Ice => true | _ => false end) else None) with (sauce_of o ice W H).
    destruct (o_lossless o) eqn:OL.
    - intro BOM.
      destruct (layout_roundtrip o ice bpal W H PO PU W0 WB H0 HB rows ROWS LROWS WS BOM) as (A1 & A2 & A3 & A4 & A5).
      split; [exact A1|]. split; [exact A2|]. split; [exact A3|]. split; [exact A4|].
      intros x y row s Hy Hx. specialize (A5 x y row s Hy Hx). unfold cell_match in A5. unfold cell_match_opt.
      destruct (shown_cell _ _) as [[[ch fg] bg] bl]. destruct A5 as (C1 & C2 & C3 & C4). repeat split; auto.
    - intro BOM.
      pose proof (optimize_rows_ok (o_normalize o)) as ROWS'.
      assert (LR' : N.of_nat (length (optimize (o_normalize o) rows)) = H) by (unfold optimize; rewrite optimize_rows_length; exact LROWS).
      destruct (layout_roundtrip o ice bpal W H PO PU W0 WB H0 HB (optimize (o_normalize o) rows) ROWS' LR' WS BOM) as (A1 & A2 & A3 & A4 & A5).
      split; [exact A1|]. split; [exact A2|]. split; [exact A3|]. split; [exact A4|].
      intros x y row s Hy Hx.
      destruct (optimize_rows_nth (o_normalize o) rows default_attribute y row Hy) as [cur1 Hy'].
      destruct (optimize_row_nth (o_normalize o) row cur1 x s Hx) as [cur2 Hx'].
      specialize (A5 x y _ _ Hy' Hx'). unfold cell_match in A5. unfold cell_match_opt.
      destruct (shown_cell _ _) as [[[ch fg] bg] bl]. destruct A5 as (C1 & C2 & C3 & C4).
      pose proof (optimize_cell_spec (o_normalize o) cur2 s) as SP. cbn zeta in SP. destruct SP as [BL SP].
      set (s' := optimize_cell (o_normalize o) cur2 s) in *.
      rewrite BL in C4.
      destruct SP as [[E1 E2]|[(B1 & B2 & B3)|(K1 & K2 & K3)]].
      + rewrite E1, E2 in *. repeat split; auto.
      + split; [right; split; [exact B1|destruct C1 as [->|[_ C1]]; [exact B2|exact C1]]|].
        split; [right; exact B1|]. split; [left; rewrite C3, B3; reflexivity|exact C4].
      + split; [left; destruct C1 as [->|[C1 _]]; [congruence|rewrite K2 in C1; discriminate C1]|].
        split; [left; destruct C2 as [->|C2]; [rewrite K3; reflexivity|rewrite K2 in C2; discriminate C2]|].
        split; [right; split; [exact K1|exact OL]|exact C4].
  Qed.
End EndToEnd.
