(* C05 proofs for BIN and ADF (Model/C05Bin.v). *)
From Coq Require Import NArith ZArith Bool List Lia PeanoNat.
From IE Require Import Lib.Tbl Lib.Bits Lib.C18Lib Lib.C05Lib Gen.Codepage Gen.Formats Model.Attr Model.C05Buf Model.C05Bin
  Model.C05Spec Proofs.AttrProofs Proofs.C05BufProofs.
Import ListNotations.
Local Open Scope Z_scope.

(* ------------------------------------------------------------------ attribute bytes (on top of C18) *)
Lemma from_u8_vis_sweep :
  forallb (fun m => forallb (fun b =>
     let d := from_u8 b m in is_visible (mkCell 0 d) && (font_page d =? 0)%N) (nrange 256)) all_modes = true.
Proof. vm_compute. reflexivity. Qed.

Lemma from_u8_visible m b ch : (b < 256)%N -> is_visible (mkCell ch (from_u8 b m)) = true /\ font_page (from_u8 b m) = 0%N.
Proof.
  intro Hb. pose proof (all_modes_forallb _ from_u8_vis_sweep m) as H. cbv beta in H.
  pose proof (nrange_forallb _ _ H b Hb) as H1. cbv beta zeta in H1.
  apply andb_prop in H1 as [H1 H2]. split; [exact H1|apply N.eqb_eq, H2].
Qed.

Lemma seen_from_u8 m b ch : (b < 256)%N -> seen (mkCell ch (from_u8 b m)) = mkCell ch (from_u8 b m).
Proof. intro Hb. unfold seen. destruct (from_u8_visible m b ch Hb) as [-> _]. reflexivity. Qed.

Lemma bin_decode_eq m ch a : (a < 256)%N -> bin_decode m ch a = mkCell ch (from_u8 a m).
Proof.
  intro Ha. unfold bin_decode. destruct (from_u8_shape m a Ha) as (Hb & _). cbv zeta in Hb. rewrite Hb. reflexivity.
Qed.

(* the mode a BIN file is loaded in: Ice when the SAUCE flag is set, else Buffer::new's Unlimited *)
Definition loaded_mode (m : IceMode) : IceMode := if is_ice m then Ice else Unlimited.

Lemma shown_roundtrip m a :
  expressible m a -> shown (from_u8 (as_u8 a m) (loaded_mode m)) = shown a.
Proof.
  intro H. destruct m; cbn [loaded_mode is_ice].
  - apply attr_encode_decode_proof, H.
  - change (from_u8 (as_u8 a Blink) Unlimited) with (from_u8 (as_u8 a Blink) Blink).
    apply attr_encode_decode_proof, H.
  - apply attr_encode_decode_proof, H.
Qed.

(* ------------------------------------------------------------------ generic list helpers *)
Lemma Forall2_map_r {A B} (R : A -> B -> Prop) (P : A -> Prop) (f : A -> B) l :
  Forall P l -> (forall a, P a -> R a (f a)) -> Forall2 R l (map f l).
Proof. induction 1; cbn [map]; constructor; auto. Qed.

Lemma Forall2_rows_map {A B} (R : A -> B -> Prop) (P : A -> Prop) (f : A -> B) rows :
  Forall (Forall P) rows -> (forall a, P a -> R a (f a)) -> Forall2 (Forall2 R) rows (map (map f) rows).
Proof.
  intros H Hf. eapply Forall2_map_r; [exact H|]. intros r Hr. eapply Forall2_map_r; eauto.
Qed.

Lemma map_map_rows {A B C} (f : A -> B) (g : B -> C) (rows : list (list A)) :
  map (map g) (map (map f) rows) = map (map (fun a => g (f a))) rows.
Proof. rewrite map_map. apply map_ext. intro r. apply map_map. Qed.

Lemma set_sauce_some b w h ice :
  1 <= w <= 1000 ->
  set_sauce b (Some (mkSauce w h ice)) =
  (let b1 := set_layer (set_height (set_width b w) h) (layer_set_size (b_layer b) w h) in
   if ice then set_ice b1 Ice else b1).
Proof.
  intro Hw. unfold set_sauce. cbn [s_w s_h s_ice].
  destruct (Z.eqb_spec w 0); [lia|]. destruct (Z.gtb_spec w 1000); [lia|]. reflexivity.
Qed.

(* ------------------------------------------------------------------ BIN round trip *)
Lemma bin_sauce_ok p :
  2 <= p_w p <= 510 -> Z.even (p_w p) = true ->
  bin_sauce p = Ok (mkSauce (p_w p) 25 (is_ice (p_ice p))).
Proof.
  intros Hw Hev. unfold bin_sauce.
  apply Z.even_spec in Hev. destruct Hev as [k Hk].
  assert (Hq : Z.quot (p_w p) 2 = k).
  { rewrite Z.quot_div_nonneg by lia. rewrite Hk, Z.mul_comm. apply Z.div_mul. lia. }
  rewrite Hq. destruct (Z.gtb_spec k 255); [lia|].
  rewrite Z.mod_small by lia. rewrite <- Hk. reflexivity.
Qed.

Lemma rows_nonempty_of_rect p : rect p -> 1 <= p_h p -> p_rows p <> [].
Proof. intros (_ & _ & Hl & _) Hh E. rewrite E in Hl. cbn in Hl. lia. Qed.

Lemma bin_roundtrip_proof : forall p, representable_bin p ->
  exists s b, bin_sauce p = Ok s /\ load_bin (save_bin p) (Some s) = Ok b /\ same_picture false [] p (pic_of b).
Proof.
  intros p (Hrect & Hw & Hev & Hh & Hcells & Hpal).
  pose proof (rows_nonempty_of_rect p Hrect Hh) as Hne.
  destruct Hrect as (Hw0 & Hh0 & Hlen & Hrows).
  set (m := p_ice p) in *. set (w := p_w p) in *. set (rows := p_rows p) in *.
  set (rt := fun c : cell => bin_decode (loaded_mode m) (c_ch c mod 256)%N (as_u8 (c_attr c) m)).
  set (rows' := map (map rt) rows).
  set (ls0 := l_lines (layer_new 160 25)).
  set (L' := mkLayer w (Z.of_nat (length rows')) (lfill_rows w ls0 0 rows')).
  set (b0 := set_sauce (buffer_new 160 25) (Some (mkSauce w 25 (is_ice m)))).
  exists (mkSauce w 25 (is_ice m)), (set_height (set_layer b0 L') (l_h L')).
  split; [apply bin_sauce_ok; assumption|].
  assert (Hb0 : b0 = (let b1 := set_layer (set_height (set_width (buffer_new 160 25) w) 25)
                                          (layer_set_size (b_layer (buffer_new 160 25)) w 25) in
                      if is_ice m then set_ice b1 Ice else b1)).
  { unfold b0. apply set_sauce_some. lia. }
  assert (Hbw : b_w b0 = w) by (rewrite Hb0; destruct (is_ice m); reflexivity).
  assert (Hbice : b_ice b0 = loaded_mode m) by (rewrite Hb0; unfold loaded_mode; destruct (is_ice m); reflexivity).
  assert (Hblayer : b_layer b0 = mkLayer w 25 ls0) by (rewrite Hb0; destruct (is_ice m); reflexivity).
  assert (Hbpal : b_pal b0 = DOS_DEFAULT_PALETTE) by (rewrite Hb0; destruct (is_ice m); reflexivity).
  assert (Hrows' : Forall (fun r => Z.of_nat (length r) = w) rows).
  { eapply Forall_impl; [|exact Hrows]. cbv beta. intros r Hr. rewrite Hr. lia. }
  assert (Hloop : bin_loop w (loaded_mode m) (mkLayer w 25 ls0) 0 0 (save_bin p) = L').
  { unfold bin_loop, save_bin. fold m rows.
    change (enc_bin m) with (fun c : cell => [(c_ch c mod 256)%N; as_u8 (c_attr c) m]).
    rewrite (pair_loop_rows true (bin_decode (loaded_mode m)) (fun c => (c_ch c mod 256)%N) (fun c => as_u8 (c_attr c) m) w rows)
      by (try assumption; lia).
    fold rt. fold rows'.
    rewrite fill_rows_spec; cbn [l_w l_h l_lines].
    - unfold L'. destruct rows' eqn:E.
      + unfold rows' in E. apply map_eq_nil in E. congruence.
      + cbn [Z.to_nat]. reflexivity.
    - lia.
    - unfold rows'. apply Forall_forall. intros r' Hr'. apply in_map_iff in Hr'. destruct Hr' as (r & <- & Hr).
      rewrite map_length. rewrite Forall_forall in Hrows'. specialize (Hrows' r Hr). split; [lia|].
      intro E. apply map_eq_nil in E. subst r. cbn in Hrows'. lia.
    - left. reflexivity. }
  split.
  { unfold load_bin. fold b0. rewrite Hbw. destruct (Z.leb_spec w 0); [lia|].
    rewrite Hbice, Hblayer, Hloop. reflexivity. }
  (* the picture *)
  assert (Hlen' : length rows' = Z.to_nat (p_h p)) by (unfold rows'; rewrite map_length; exact Hlen).
  assert (Hpic : p_rows (pic_of (set_height (set_layer b0 L') (l_h L'))) = map (map seen) rows').
  { apply pic_rows_of_lines with (w := Z.to_nat w); cbn [b_w b_h b_layer set_height set_layer l_w l_h l_lines L'].
    - rewrite Hbw. lia.
    - reflexivity.
    - rewrite Hbw. lia.
    - lia.
    - unfold rows'. apply Forall_forall. intros r' Hr'. apply in_map_iff in Hr'. destruct Hr' as (r & <- & Hr).
      rewrite map_length. rewrite Forall_forall in Hrows. apply Hrows, Hr.
    - intros x y r c Hr Hc. rewrite cell_at_lfill_rows. cbn [Nat.leb]. rewrite Nat.sub_0_r, Hr, Hc. reflexivity. }
  unfold same_picture. rewrite Hpic.
  cbn [pic_of p_w p_h p_ice p_pal p_fonts b_w b_h b_ice b_pal set_height set_layer L' l_h].
  repeat split.
  - rewrite Hbw. reflexivity.
  - rewrite Hlen'. fold (p_h p). lia.
  - unfold same_mode. rewrite Hbice. fold m. unfold loaded_mode. destruct (is_ice m); reflexivity.
  - unfold rows'. rewrite map_map_rows.
    fold rows. apply Forall2_rows_map with (P := cell8 m); [exact Hcells|].
    intros c (Hch & Hex).
    assert (Ha : (as_u8 (c_attr c) m < 256)%N) by apply as_u8_range_proof.
    unfold rt. rewrite bin_decode_eq by exact Ha. rewrite N.mod_small by exact Hch.
    rewrite seen_from_u8 by exact Ha.
    split; [reflexivity|]. split; [|discriminate].
    cbn [c_attr]. symmetry. apply shown_roundtrip, Hex.
  - rewrite Hbpal. exact Hpal.
  - constructor.
Qed.

(* ------------------------------------------------------------------ BIN: every loaded file is representable *)
Definition is_bytes (l : list N) : Prop := Forall (fun b => (b < 256)%N) l.

(* a SAUCE record as a BIN writer makes it (or none): even width up to 510, some height *)
Definition bin_sauce_like (s : option sauce) : Prop :=
  match s with
  | None => True
  | Some s => 0 <= s_w s <= 510 /\ Z.even (s_w s) = true /\ 1 <= s_h s
  end.

Lemma default_cell8 m : cell8 m (cell_with_page default_cell 0).
Proof. destruct m; split; vm_compute; reflexivity. Qed.

(* what a loader stores: padding or a decoded (character, attribute) pair *)
Definition stored8 (m : IceMode) (c : cell) : Prop :=
  c = invisible_cell \/ exists ch a, (ch < 256)%N /\ (a < 256)%N /\ c = mkCell ch (from_u8 a m).

Lemma stored8_seen m c : stored8 m c -> cell8_page0 m (seen c).
Proof.
  intros [-> | (ch & a & Hch & Ha & ->)].
  - unfold seen. change (is_visible invisible_cell) with false. split; [apply default_cell8|reflexivity].
  - rewrite seen_from_u8 by exact Ha. split; [split|].
    + exact Hch.
    + cbn [c_attr]. destruct (from_u8_shape m a Ha) as (_ & _ & _ & He & _). exact He.
    + cbn [c_attr]. apply (from_u8_visible m a ch Ha).
Qed.

Lemma expressible_loaded_mode m a : expressible (loaded_mode m) a -> expressible (loaded_mode (loaded_mode m)) a.
Proof. destruct m; exact (fun H => H). Qed.

Lemma bin_load_representable : forall data s b,
  is_bytes data -> bin_sauce_like s -> load_bin data s = Ok b -> representable_bin (pic_of b).
Proof.
  intros data s b Hbytes Hs Hload. unfold load_bin in Hload.
  set (b0 := set_sauce (buffer_new 160 25) s) in *.
  (* shape of b0 *)
  assert (Hb0 : exists w h m, 2 <= w <= 510 /\ Z.even w = true /\ 1 <= h /\
            b_w b0 = w /\ b_ice b0 = m /\ b_layer b0 = mkLayer w h (l_lines (layer_new 160 25)) /\ b_pal b0 = DOS_DEFAULT_PALETTE).
  { unfold b0. destruct s as [s|].
    - destruct Hs as (Hw & Hev & Hh). unfold set_sauce.
      assert (Hk : exists k, s_w s = 2 * k) by (apply Z.even_spec; exact Hev). destruct Hk as [k Hk].
      destruct (Z.eqb_spec (s_w s) 0) as [E|E]; cbn [orb].
      + exists 80, (s_h s), (if s_ice s then Ice else Unlimited). repeat split; try lia; destruct (s_ice s); reflexivity.
      + destruct (Z.gtb_spec (s_w s) 1000); [lia|].
        exists (s_w s), (s_h s), (if s_ice s then Ice else Unlimited). repeat split; try lia; try assumption; destruct (s_ice s); reflexivity.
    - exists 160, 25, Unlimited. repeat split; try lia. }
  destruct Hb0 as (w & h & m & Hw & Hev & Hh & Hbw & Hbice & Hblayer & Hbpal).
  rewrite Hbw in Hload. destruct (Z.leb_spec w 0); [lia|].
  rewrite Hbice, Hblayer in Hload.
  remember (bin_loop w m (mkLayer w h (l_lines (layer_new 160 25))) 0 0 data) as L eqn:EL.
  injection Hload as <-.
  assert (HLw : l_w L = w) by (rewrite EL; unfold bin_loop; rewrite pair_loop_width; reflexivity).
  assert (HLh : 1 <= l_h L) by (rewrite EL; unfold bin_loop; apply pair_loop_height_pos; cbn [l_h]; try reflexivity; lia).
  assert (HLcells : all_cells (stored8 m) (l_lines L)).
  { rewrite EL. unfold bin_loop. apply pair_loop_all_cells with (Q := fun b => (b < 256)%N).
    - left. reflexivity.
    - intros ch a Hch Ha. right. exists ch, a. repeat split; try assumption. apply bin_decode_eq, Ha.
    - exact Hbytes.
    - cbn [l_lines]. apply layer_new_all_cells. left. reflexivity. }
  unfold representable_bin.
  cbn [pic_of p_w p_h p_ice p_pal b_w b_h b_ice b_pal set_height set_layer].
  split; [|split; [|split; [|split; [|split]]]].
  - unfold rect. apply (pic_of_rect (set_height (set_layer b0 L) (l_h L))); cbn [b_w b_h set_height set_layer]; lia.
  - rewrite Hbw. exact Hw.
  - rewrite Hbw. exact Hev.
  - exact HLh.
  - unfold all_pic_cells. rewrite Hbice.
    apply (pic_of_all_cells (stored8 m) (cell8 m)); cbn [b_w b_h b_layer set_height set_layer].
    + rewrite Hbw, HLw. lia.
    + lia.
    + left. reflexivity.
    + exact HLcells.
    + intros c Hc. apply stored8_seen, Hc.
  - exact Hbpal.
Qed.

Lemma bin_load_total : forall data s, bin_sauce_like s -> exists b, load_bin data s = Ok b.
Proof.
  intros data s Hs. unfold load_bin.
  assert (H : 0 < b_w (set_sauce (buffer_new 160 25) s)).
  { destruct s as [s|]; [|cbn; lia]. destruct Hs as (Hw & _ & _). unfold set_sauce.
    destruct ((s_w s =? 0) || (s_w s >? 1000)) eqn:E.
    - destruct (s_ice s); cbn; lia.
    - apply orb_false_elim in E as [E1 E2]. apply Z.eqb_neq in E1. destruct (s_ice s); cbn; lia. }
  destruct (Z.leb_spec (b_w (set_sauce (buffer_new 160 25) s)) 0); [lia|]. eexists. reflexivity.
Qed.

Lemma bin_resave_proof : forall data s b,
  is_bytes data -> bin_sauce_like s -> load_bin data s = Ok b ->
  exists s' b', bin_sauce (pic_of b) = Ok s' /\ load_bin (save_bin (pic_of b)) (Some s') = Ok b' /\
                same_picture false [] (pic_of b) (pic_of b').
Proof.
  intros data s b Hd Hs Hl. apply bin_roundtrip_proof. eapply bin_load_representable; eassumption.
Qed.
