(* C03: the tick-annotated functions of Model/Cost.v compute the states of the model functions they annotate, and their
   counters are bounded by the size of the screen state. *)
From Coq Require Import ZArith NArith List Bool Lia.
From IE Require Import Model.TermCore Model.AnsiTok Model.Cost Proofs.TermProofs.
From IE Require Model.Sixel Model.Font.
Import ListNotations.
Local Open Scope Z_scope.

(* ---- folds with counters ------------------------------------------------------------------------------------------ *)
Lemma fold_sum_gen {A B} (f : A -> B -> A * Z) : forall l a k,
  fold_left (fun xk b => (fst (f (fst xk) b), snd xk + snd (f (fst xk) b))) l (a, k)
  = (fold_left (fun x b => fst (f x b)) l a, snd (fold_left (fun xk b => (fst (f (fst xk) b), snd xk + snd (f (fst xk) b))) l (a, k))).
Proof. induction l as [|b l IH]; intros a k; cbn [fold_left fst snd]; [reflexivity|]. rewrite IH. reflexivity. Qed.
Lemma fold_sum_fst {A B} (f : A -> B -> A * Z) l a : fst (fold_sum f l a) = fold_left (fun x b => fst (f x b)) l a.
Proof. unfold fold_sum. rewrite fold_sum_gen. reflexivity. Qed.
Lemma fold_sum_const_gen {A B} (f : A -> B -> A * Z) d : (forall x b, snd (f x b) = d) -> forall l a k,
  snd (fold_left (fun xk b => (fst (f (fst xk) b), snd xk + snd (f (fst xk) b))) l (a, k)) = k + d * zlen l.
Proof.
  intros H. induction l as [|b l IH]; intros a k; cbn [fold_left fst snd].
  - unfold zlen; cbn. lia.
  - rewrite IH, H. unfold zlen. cbn [length]. lia.
Qed.
Lemma fold_sum_const {A B} (f : A -> B -> A * Z) d l a : (forall x b, snd (f x b) = d) -> snd (fold_sum f l a) = d * zlen l.
Proof. intro H. unfold fold_sum. rewrite (fold_sum_const_gen f d H). lia. Qed.
Lemma fold_count_fst {A B} (f : A -> B -> A) l a : fst (fold_count f l a) = fold_left f l a.
Proof. unfold fold_count. rewrite fold_sum_fst. reflexivity. Qed.
Lemma fold_count_snd {A B} (f : A -> B -> A) l a : snd (fold_count f l a) = zlen l.
Proof. unfold fold_count. rewrite (fold_sum_const _ 1); [lia|reflexivity]. Qed.

Lemma zlen_nonneg {A} (l : list A) : 0 <= zlen l. Proof. unfold zlen. lia. Qed.
Lemma zlen_zrange_n : forall n lo, zlen (zrange_n lo n) = Z.of_nat n.
Proof. induction n; intro lo; unfold zlen in *; cbn [zrange_n length]; [reflexivity|]. specialize (IHn (lo + 1)). lia. Qed.
Lemma zlen_zrange lo hi : zlen (zrange lo hi) = Z.max 0 (hi - lo).
Proof. unfold zrange. rewrite zlen_zrange_n. lia. Qed.
Lemma zlen_zrange_incl lo hi : zlen (zrange_incl lo hi) = Z.max 0 (hi + 1 - lo).
Proof. unfold zrange_incl. rewrite zlen_zrange_n. lia. Qed.
Lemma zlen_rev {A} (l : list A) : zlen (rev l) = zlen l. Proof. unfold zlen. rewrite rev_length. reflexivity. Qed.

Lemma fold_left_ext {A B} (f g : A -> B -> A) : (forall a b, f a b = g a b) -> forall l a, fold_left f l a = fold_left g l a.
Proof. intros H. induction l as [|b l IH]; intro a; cbn [fold_left]; [reflexivity|]. rewrite H. apply IH. Qed.

(* ---- the tick versions compute the same state ------------------------------------------------------------------------- *)
Lemma scroll_up_t_fst t : fst (scroll_up_t t) = scroll_up t.
Proof.
  unfold scroll_up_t, scroll_up. cbn [fst]. rewrite fold_sum_fst. f_equal.
  apply fold_left_ext. intros ls x. unfold scroll_up_col_t, scroll_up_col. cbn [fst]. rewrite fold_count_fst. reflexivity.
Qed.
Lemma scroll_down_t_fst t : fst (scroll_down_t t) = scroll_down t.
Proof.
  unfold scroll_down_t, scroll_down. cbn [fst]. rewrite fold_sum_fst. f_equal.
  apply fold_left_ext. intros ls x. unfold scroll_down_col_t, scroll_down_col. cbn [fst]. rewrite fold_count_fst. reflexivity.
Qed.
Lemma scroll_left_t_fst t : fst (scroll_left_t t) = scroll_left t.
Proof. unfold scroll_left_t, scroll_left. cbn [fst]. rewrite fold_count_fst. reflexivity. Qed.
Lemma scroll_right_t_fst t : fst (scroll_right_t t) = scroll_right t.
Proof. unfold scroll_right_t, scroll_right. cbn [fst]. rewrite fold_count_fst. reflexivity. Qed.
Lemma fill_cells_t_fst t ys xs c : fst (fill_cells_t t ys xs c) = fill_cells t ys xs c.
Proof.
  unfold fill_cells_t, fill_cells. cbn [fst]. rewrite fold_sum_fst. f_equal.
  apply fold_left_ext. intros ls y. rewrite fold_count_fst. reflexivity.
Qed.
Lemma erase_loop_t_fst : forall n row i c k, fst (erase_loop_t row i c n k) = erase_loop row i c n.
Proof.
  induction n; intros row i c k; cbn [erase_loop_t erase_loop]; [reflexivity|].
  destruct (line_set_char row i c); cbn [bind fst]; [apply IHn|reflexivity].
Qed.
Lemma drop_le_t_fst : forall l x k, fst (drop_le_t x l k) = drop_le x l.
Proof. induction l; intros x k; cbn [drop_le_t drop_le]; [reflexivity|]. destruct (a <=? x); [apply IHl|reflexivity]. Qed.
Lemma drop_ge_t_fst : forall l x k, fst (drop_ge_t x l k) = drop_ge x l.
Proof. induction l; intros x k; cbn [drop_ge_t drop_ge]; [reflexivity|]. destruct (a >=? x); [apply IHl|reflexivity]. Qed.
Lemma next_tab_t_fst t x : fst (next_tab_t t x) = next_tab_stop t x.
Proof. unfold next_tab_t, next_tab_stop. cbn [fst]. rewrite drop_le_t_fst. reflexivity. Qed.
Lemma prev_tab_t_fst t x : fst (prev_tab_t t x) = prev_tab_stop t x.
Proof. unfold prev_tab_t, prev_tab_stop. cbn [fst]. rewrite drop_ge_t_fst. reflexivity. Qed.

(* closed forms of the primitive tick counts *)
Lemma scroll_up_t_snd t : snd (scroll_up_t t) = (zlen (zrange (first_edit t) (last_edit t)) + 1) * zlen (zrange_incl (first_col t) (last_col t)).
Proof.
  unfold scroll_up_t. cbn [snd]. apply fold_sum_const. intros ls x. unfold scroll_up_col_t. cbn [snd]. rewrite fold_count_snd. reflexivity.
Qed.
Lemma scroll_down_t_snd t : snd (scroll_down_t t) = (zlen (zrange_incl (first_edit t + 1) (last_edit t)) + 1) * zlen (zrange_incl (first_col t) (last_col t)).
Proof.
  unfold scroll_down_t. cbn [snd]. apply fold_sum_const. intros ls x. unfold scroll_down_col_t. cbn [snd]. rewrite fold_count_snd, zlen_rev. reflexivity.
Qed.
Lemma scroll_left_t_snd t : snd (scroll_left_t t) = zlen (zrange_incl (first_edit t) (last_edit t)).
Proof. unfold scroll_left_t. cbn [snd]. apply fold_count_snd. Qed.
Lemma scroll_right_t_snd t : snd (scroll_right_t t) = zlen (zrange_incl (first_edit t) (last_edit t)).
Proof. unfold scroll_right_t. cbn [snd]. apply fold_count_snd. Qed.
Lemma fill_cells_t_snd t ys xs c : snd (fill_cells_t t ys xs c) = zlen xs * zlen ys.
Proof. unfold fill_cells_t. cbn [snd]. apply fold_sum_const. intros ls y. apply fold_count_snd. Qed.
Lemma drop_le_t_snd : forall l x k, k <= snd (drop_le_t x l k) <= k + zlen l.
Proof.
  induction l; intros x k; cbn [drop_le_t]; unfold zlen in *; cbn [length snd]; [lia|].
  destruct (a <=? x); cbn [snd]; [specialize (IHl x (k + 1))|]; lia.
Qed.
Lemma drop_ge_t_snd : forall l x k, k <= snd (drop_ge_t x l k) <= k + zlen l.
Proof.
  induction l; intros x k; cbn [drop_ge_t]; unfold zlen in *; cbn [length snd]; [lia|].
  destruct (a >=? x); cbn [snd]; [specialize (IHl x (k + 1))|]; lia.
Qed.

Lemma iter_S {A} (f : A -> A) k x : Nat.iter (S k) f x = f (Nat.iter k f x).
Proof. reflexivity. Qed.

(* ---- counted repetition ------------------------------------------------------------------------------------------------ *)
Lemma iter_cost_nat n f w t :
  iter_cost n f w t = Nat.iter (N.to_nat (Z.to_N n))
     (fun xc => (f (fst xc), mkCost (iters (snd xc) + 1) (ticks (snd xc) + w (fst xc)) (alloc (snd xc) + grow (fst xc) (f (fst xc))))) (t, cost0).
Proof. unfold iter_cost. apply N2Nat.inj_iter. Qed.
Lemma iter_tot_nat n f t : iter_tot n f t = Nat.iter (N.to_nat (Z.to_N n)) f t.
Proof. unfold iter_tot. apply N2Nat.inj_iter. Qed.
Lemma iter_cost_fst n f w t : fst (iter_cost n f w t) = iter_tot n f t.
Proof.
  rewrite iter_cost_nat, iter_tot_nat. induction (N.to_nat (Z.to_N n)) as [|k IH]; [reflexivity|].
  rewrite !iter_S. cbn [fst]. rewrite <- IH. reflexivity.
Qed.
Lemma iter_cost_iters n f w t : iters (snd (iter_cost n f w t)) = Z.max 0 n.
Proof.
  rewrite iter_cost_nat. assert (H : forall k, iters (snd (Nat.iter k
     (fun xc => (f (fst xc), mkCost (iters (snd xc) + 1) (ticks (snd xc) + w (fst xc)) (alloc (snd xc) + grow (fst xc) (f (fst xc))))) (t, cost0))) = Z.of_nat k).
  { induction k as [|k IH]; [reflexivity|]. rewrite iter_S. cbn [snd iters]. rewrite IH. lia. }
  rewrite H. lia.
Qed.
(* a weight that the primitive does not change: ticks = iterations * weight *)
Lemma iter_cost_ticks n f w t : (forall x, w (f x) = w x) -> ticks (snd (iter_cost n f w t)) = Z.max 0 n * w t.
Proof.
  intro Hw. rewrite iter_cost_nat.
  assert (H : forall k, let r := Nat.iter k
     (fun xc => (f (fst xc), mkCost (iters (snd xc) + 1) (ticks (snd xc) + w (fst xc)) (alloc (snd xc) + grow (fst xc) (f (fst xc))))) (t, cost0) in
     ticks (snd r) = Z.of_nat k * w t /\ w (fst r) = w t).
  { induction k as [|k IH]; [cbn; split; [lia|reflexivity]|]. cbn zeta in *. rewrite iter_S. cbn [snd fst ticks]. destruct IH as [IH1 IH2].
    rewrite IH1, IH2, Hw, IH2. split; [lia|reflexivity]. }
  destruct (H (N.to_nat (Z.to_N n))) as [H1 _]. rewrite H1. f_equal. lia.
Qed.
(* a primitive that grows the line table by at most g per call *)
Lemma iter_cost_alloc n f w t g : (forall x, grow x (f x) <= g) -> 0 <= g -> alloc (snd (iter_cost n f w t)) <= Z.max 0 n * g.
Proof.
  intros Hg Hg0. rewrite iter_cost_nat.
  assert (H : forall k, alloc (snd (Nat.iter k
     (fun xc => (f (fst xc), mkCost (iters (snd xc) + 1) (ticks (snd xc) + w (fst xc)) (alloc (snd xc) + grow (fst xc) (f (fst xc))))) (t, cost0))) <= Z.of_nat k * g).
  { induction k as [|k IH]; [cbn; lia|]. rewrite iter_S. cbn [snd alloc]. specialize (Hg (fst (Nat.iter k
     (fun xc => (f (fst xc), mkCost (iters (snd xc) + 1) (ticks (snd xc) + w (fst xc)) (alloc (snd xc) + grow (fst xc) (f (fst xc))))) (t, cost0)))). nia. }
  specialize (H (N.to_nat (Z.to_N n))). nia.
Qed.

Definition res_step (f : term -> res term) (w : term -> Z) (rc : res term * cost) : res term * cost :=
  match fst rc with
  | ROk x => (f x, mkCost (iters (snd rc) + 1) (ticks (snd rc) + w x) (alloc (snd rc) + match f x with ROk x' => grow x x' | RPanic _ => 0 end))
  | RPanic _ => rc
  end.
Lemma iter_cost_res_nat n f w t : iter_cost_res n f w t = Nat.iter (N.to_nat (Z.to_N n)) (res_step f w) (ROk t, cost0).
Proof. unfold iter_cost_res. apply N2Nat.inj_iter. Qed.
Lemma iter_res_nat n f t : iter_res n f t = Nat.iter (N.to_nat (Z.to_N n)) (fun r => bind r f) (ROk t).
Proof. unfold iter_res. apply N2Nat.inj_iter. Qed.
Lemma iter_cost_res_fst n f w t : fst (iter_cost_res n f w t) = iter_res n f t.
Proof.
  rewrite iter_cost_res_nat, iter_res_nat. induction (N.to_nat (Z.to_N n)) as [|k IH]; [reflexivity|].
  rewrite !iter_S. rewrite <- IH. set (r := Nat.iter k (res_step f w) (ROk t, cost0)) in *. unfold res_step.
  destruct (fst r) eqn:E; cbn [fst bind]; [reflexivity|exact E].
Qed.
Lemma iter_cost_res_iters n f w t : 0 <= iters (snd (iter_cost_res n f w t)) <= Z.max 0 n.
Proof.
  rewrite iter_cost_res_nat.
  assert (H : forall k, 0 <= iters (snd (Nat.iter k (res_step f w) (ROk t, cost0))) <= Z.of_nat k).
  { induction k as [|k IH]; [cbn; lia|]. rewrite iter_S. set (r := Nat.iter k (res_step f w) (ROk t, cost0)) in *. unfold res_step.
    destruct (fst r); cbn [snd iters]; lia. }
  specialize (H (N.to_nat (Z.to_N n))). lia.
Qed.
(* as long as nothing panics every iteration is executed: the count is linear in the parameter *)
Lemma iter_cost_res_linear n f w t : (exists t', fst (iter_cost_res n f w t) = ROk t') -> iters (snd (iter_cost_res n f w t)) = Z.max 0 n.
Proof.
  rewrite iter_cost_res_nat.
  assert (H : forall k, (exists t', fst (Nat.iter k (res_step f w) (ROk t, cost0)) = ROk t') ->
                        iters (snd (Nat.iter k (res_step f w) (ROk t, cost0))) = Z.of_nat k).
  { induction k as [|k IH]; [reflexivity|]. rewrite iter_S. set (r := Nat.iter k (res_step f w) (ROk t, cost0)) in *. unfold res_step.
    destruct (fst r) eqn:E.
    - intros _. cbn [snd iters]. rewrite IH; [lia|eauto].
    - intros [t' H']. rewrite E in H'. discriminate. }
  intro Hx. rewrite H; [lia|exact Hx].
Qed.

(* ---- bounds of the clamps by the screen measure ---------------------------------------------------------------------------- *)
Lemma maxrow_nonneg : forall ls, 0 <= maxrow ls.
Proof. induction ls; cbn [maxrow]; [lia|]. pose proof (zlen_nonneg a). lia. Qed.
Lemma nth_error_maxrow : forall ls i row, nth_error ls i = Some row -> zlen row <= maxrow ls.
Proof.
  induction ls as [|r ls IH]; intros [|i] row H; cbn in H; try discriminate.
  - inversion H; subst. cbn [maxrow]. lia.
  - cbn [maxrow]. specialize (IH i row H). lia.
Qed.
Lemma inv_facts t : Inv09 t ->
  1 <= tw t /\ 1 <= th t /\ th t <= bh t /\ 1 <= bw t /\ 0 <= cx t < tw t /\ first t = bh t - th t /\ first t <= cy t < first t + th t /\
  margins_ok (mtb t) (th t) /\ margins_ok (mlr t) (tw t).
Proof.
  intros [HG [HX HY]]. pose proof (InvY_first t HG) as Hf. destruct HG as (H1 & H2 & H3 & H4 & _ & H6 & H7 & _).
  unfold InvX, InvY in *. repeat split; try lia; assumption.
Qed.
Lemma scrW_ge t : Inv09 t -> tw t + bw t <= scrW t /\ Z.max 0 (lw t) <= scrW t /\ zlen (tabs t) <= scrW t /\ maxrow (lines t) <= scrW t /\ 2 <= scrW t.
Proof.
  intro H. destruct (inv_facts t H) as (H1 & H2 & H3 & H4 & _). unfold scrW.
  pose proof (zlen_nonneg (tabs t)). pose proof (maxrow_nonneg (lines t)). lia.
Qed.
Lemma scrH_ge t : Inv09 t -> th t + bh t <= scrH t /\ th t + zlen (lines t) <= scrH t /\ 2 <= scrH t.
Proof. intro H. destruct (inv_facts t H) as (H1 & H2 & H3 & _). unfold scrH. pose proof (zlen_nonneg (lines t)). lia. Qed.
Lemma bound_H t x n : Inv09 t -> 0 <= n -> x <= 2 * scrH t + 1 -> x <= 4 * (n + 1) * scr t.
Proof. intros H Hn Hx. destruct (scrW_ge t H) as (_ & _ & _ & _ & HW). destruct (scrH_ge t H) as (_ & _ & HH). unfold scr. nia. Qed.
Lemma bound_W t x n : Inv09 t -> 0 <= n -> x <= scrW t + 1 -> x <= 4 * (n + 1) * scr t.
Proof. intros H Hn Hx. destruct (scrW_ge t H) as (_ & _ & _ & _ & HW). destruct (scrH_ge t H) as (_ & _ & HH). unfold scr. nia. Qed.
Lemma bound_1 t n : Inv09 t -> 0 <= n -> 1 <= 4 * (n + 1) * scr t.
Proof. intros H Hn. apply bound_W; auto. destruct (scrW_ge t H) as (_ & _ & _ & _ & HW). lia. Qed.

Lemma eff_scrolls_le t : Inv09 t -> 0 <= eff_scrolls t <= scrH t.
Proof.
  intro H. destruct (inv_facts t H) as (H1 & H2 & H3 & H4 & H5 & H6 & H7 & H8 & H9). destruct (scrH_ge t H) as (HA & _).
  unfold eff_scrolls, last_edit, first_edit. unfold margins_ok in H8. destruct (mtb t) as [[a b]|]; lia.
Qed.
Lemma eff_cols_le t : Inv09 t -> 0 <= eff_cols t <= scrW t.
Proof.
  intro H. destruct (inv_facts t H) as (H1 & H2 & H3 & H4 & H5 & H6 & H7 & H8 & H9). destruct (scrW_ge t H) as (HA & _).
  unfold eff_cols, last_col, first_col, sat_sub, sat, I32_MIN, I32_MAX. unfold margins_ok in H9. destruct (mlr t) as [[a b]|]; lia.
Qed.
Lemma ich_limit_le t : Inv09 t -> 0 <= ich_limit t <= scrW t.
Proof. intro H. destruct (inv_facts t H) as (_ & _ & _ & _ & H5 & _). destruct (scrW_ge t H) as (_ & HA & _). unfold ich_limit. lia. Qed.
Lemma dch_limit_le t : Inv09 t -> 0 <= dch_limit t <= scrW t.
Proof.
  intro H. destruct (scrW_ge t H) as (_ & _ & _ & HA & HB). unfold dch_limit. destruct (_ || _); [lia|].
  destruct (nth_error (lines t) (Z.to_nat (cy t))) eqn:E; [|lia]. pose proof (nth_error_maxrow _ _ _ E). destruct (inv_facts t H) as (_ & _ & _ & _ & H5 & _). lia.
Qed.
Lemma il_limit_le t : Inv09 t -> 0 <= il_limit t <= 2 * scrH t + 1.
Proof.
  intro H. destruct (inv_facts t H) as (H1 & H2 & H3 & H4 & H5 & H6 & H7 & _). destruct (scrH_ge t H) as (HA & HB & _).
  unfold il_limit. pose proof (zlen_nonneg (lines t)). destruct (mtb t); lia.
Qed.
Lemma dl_limit_le t : Inv09 t -> zlen (lines t) - cy t <= scrH t.
Proof. intro H. destruct (inv_facts t H) as (H1 & H2 & H3 & H4 & H5 & H6 & H7 & _). destruct (scrH_ge t H) as (HA & HB & _). lia. Qed.
Lemma tab_limit_le t : Inv09 t -> 0 <= tab_limit t <= scrW t + 1.
Proof. intro H. destruct (scrW_ge t H) as (_ & _ & HA & _). unfold tab_limit. pose proof (zlen_nonneg (tabs t)). lia. Qed.

Lemma check_up_iters t force : Inv09 t -> forall y, 0 <= iters (snd (check_scrolling_up_c (set_cy t y) force)) <= scrH t.
Proof.
  intros H y. pose proof (eff_scrolls_le t H) as HE. destruct (scrH_ge t H) as (_ & _ & HH).
  unfold check_scrolling_up_c. destruct (_ || _); [|cbn; lia]. destruct (_ <? _); [|cbn; lia].
  cbn [snd]. rewrite iter_cost_iters. change (eff_scrolls (set_cy t y)) with (eff_scrolls t). lia.
Qed.

(* ---- cost_bound: primitive calls of one CSI control function ------------------------------------------------------------------------- *)
Lemma rep_limit_le t : Inv09 t -> 1 <= rep_limit t <= tw t * th t /\ rep_limit t <= scr t.
Proof.
  intro HI. destruct (scrW_ge t HI) as (HA & _). destruct (scrH_ge t HI) as (HB & _). destruct (inv_facts t HI) as (I1 & I2 & I3 & I4 & _).
  assert (Hs : tw t * th t <= scr t) by (unfold scr; nia). assert (1 <= tw t * th t) by nia.
  unfold rep_limit, sat_mul, sat, I32_MAX, I32_MIN. lia.
Qed.
Lemma cost_bound_l : forall t p is_start ch n, Inv09 t -> 0 <= n -> nlen (nums p) <= n ->
  0 <= iters (snd (csi_final_c t p is_start ch)) <= 4 * (n + 1) * scr t.
Proof.
  intros t p s ch n HI Hn Hl. pose proof (bound_1 t n HI Hn) as H1.
  pose proof (eff_scrolls_le t HI) as HE. pose proof (ich_limit_le t HI) as HIC. pose proof (dch_limit_le t HI) as HDC.
  pose proof (il_limit_le t HI) as HIL. pose proof (dl_limit_le t HI) as HDL. pose proof (tab_limit_le t HI) as HT.
  unfold csi_final_c.
  destruct (ch =? 83). { cbn [snd]. unfold su_c. rewrite iter_cost_iters. split; [lia|]. apply bound_H; auto; lia. }
  destruct (ch =? 84). { cbn [snd]. unfold sd_c. rewrite iter_cost_iters. split; [lia|]. apply bound_H; auto; lia. }
  destruct (ch =? 64).
  { destruct (nums p); [unfold one; cbn [snd iters]; lia|]. cbn [snd]. unfold ich_c. rewrite iter_cost_iters. split; [lia|]. apply bound_W; auto; lia. }
  destruct (ch =? 80).
  { destruct (nums p) as [|a [|b l]]; [unfold one; cbn [snd iters]; lia| |unfold one; cbn [snd iters]; lia]. cbn [snd]. unfold dch_c. rewrite iter_cost_iters. split; [lia|]. apply bound_W; auto; lia. }
  destruct (ch =? 76).
  { destruct (nums p) as [|a [|b l]]; [unfold one; cbn [snd iters]; lia| |unfold one; cbn [snd iters]; lia]. cbn [snd]. unfold il_c.
    pose proof (iter_cost_res_iters (Z.min a (il_limit t)) (fun x => insert_terminal_line x (cy x)) (fun _ => 1) t). split; [lia|]. apply bound_H; auto; lia. }
  destruct (ch =? 77).
  { destruct (_ || _); [unfold one; cbn [snd iters]; lia|]. destruct (nums p) as [|a [|b l]]; [unfold one; cbn [snd iters]; lia| |unfold one; cbn [snd iters]; lia]. cbn [snd]. unfold dl_c.
    pose proof (iter_cost_res_iters (Z.min a (zlen (lines t) - cy t)) (fun x => remove_terminal_line x (cy x)) (fun _ => 1) t). split; [lia|]. apply bound_H; auto; lia. }
  destruct (ch =? 89).
  { destruct (1 <? nlen (nums p)); [unfold one; cbn [snd iters]; lia|]. cbn [snd]. unfold cvt_c. rewrite iter_cost_iters. split; [lia|]. apply bound_W; auto; lia. }
  destruct (ch =? 90).
  { destruct (1 <? nlen (nums p)); [unfold one; cbn [snd iters]; lia|]. cbn [snd]. unfold cbt_c. rewrite iter_cost_iters. split; [lia|]. apply bound_W; auto; lia. }
  destruct (_ || _).
  { cbn [snd]. unfold caret_up_c. cbn [snd cadd iters].
    pose proof (check_up_iters t false HI (sat_sub (cy t) (first_or (nums p) 1))). split; [lia|]. apply bound_H; auto; lia. }
  destruct (ch =? 98) eqn:E98.
  { cbn [snd]. unfold rep_c.
    pose proof (iter_cost_res_iters (Z.min (first_or (nums p) 1) (rep_limit t)) (fun x => print_char x (print_cell t (last_char p))) print_weight t).
    split; [lia|]. destruct (rep_limit_le t HI) as (HR & Hs).
    assert (Hs2 : scr t <= 4 * (n + 1) * scr t) by nia.
    lia. }
  unfold one; cbn [snd iters]; lia.
Qed.

Lemma cost_bound_sp_l : forall t p ch n, Inv09 t -> 0 <= n -> 0 <= iters (snd (csi_sp_c t p ch)) <= 4 * (n + 1) * scr t.
Proof.
  intros t p ch n HI Hn. pose proof (bound_1 t n HI Hn) as H1. pose proof (eff_cols_le t HI) as HC. unfold csi_sp_c.
  destruct (ch =? 65).
  { cbn [snd]. unfold sr_c. pose proof (iter_cost_res_iters (Z.min (first_or (nums p) 1) (eff_cols t)) scroll_right (fun x => snd (scroll_right_t x)) t).
    split; [lia|]. apply bound_W; auto; lia. }
  destruct (ch =? 64).
  { cbn [snd]. unfold sl_c. rewrite iter_cost_iters. split; [lia|]. apply bound_W; auto; lia. }
  destruct (ch =? 68); [cbn [snd iters]; lia|]. destruct (ch =? 100); [cbn [snd iters]; lia|].
  unfold one; cbn [snd iters]; lia.
Qed.

(* the SP group of the cost dispatcher is the SP group of AnsiTok.astep_gen for the finals without a clamp (D, d, anything else) *)
Lemma sp_arms_only_l : forall inv t p ch, (ch =? 65) || (ch =? 64) = false -> st p = SEndCsi 32 ->
  fst (csi_sp_c t p ch) = astep_gen inv (mkA t p) ch.
Proof.
  intros inv t p ch H Hs. unfold csi_sp_c, astep_gen. cbn [tm ps]. rewrite Hs. cbn [Z.eqb Pos.eqb].
  destruct (ch =? 65); [discriminate H|]. destruct (ch =? 64); [discriminate H|]. cbn [fst].
  destruct (ch =? 68); [reflexivity|]. destruct (ch =? 100); reflexivity.
Qed.

(* ---- the arms that the fixes did not touch take their outcome from AnsiTok.csi_final ------------------------------------------------ *)
Lemma fixed_arms_only_l : forall t p is_start ch,
  existsb (Z.eqb ch) [83; 84; 64; 80; 76; 77; 89; 90; 107; 65; 98] = false -> fst (csi_final_c t p is_start ch) = csi_final t p is_start ch.
Proof.
  intros t p s ch H. unfold csi_final_c. cbn [existsb] in H.
  destruct (ch =? 83); [discriminate H|]. destruct (ch =? 84); [discriminate H|]. destruct (ch =? 64); [discriminate H|].
  destruct (ch =? 80); [discriminate H|]. destruct (ch =? 76); [discriminate H|]. destruct (ch =? 77); [discriminate H|].
  destruct (ch =? 89); [discriminate H|]. destruct (ch =? 90); [discriminate H|]. destruct (ch =? 107); [discriminate H|].
  destruct (ch =? 65); [discriminate H|]. destruct (ch =? 98); [discriminate H|]. reflexivity.
Qed.

(* ---- primitives: inner iterations bounded by the screen measure -------------------------------------------------------------------------- *)
Lemma region_rows_le t : Inv09 t -> zlen (zrange (first_edit t) (last_edit t)) + 1 <= scrH t /\ zlen (zrange_incl (first_edit t + 1) (last_edit t)) + 1 <= scrH t
                                     /\ zlen (zrange_incl (first_edit t) (last_edit t)) <= scrH t.
Proof.
  intro H. destruct (inv_facts t H) as (H1 & H2 & H3 & H4 & H5 & H6 & H7 & H8 & H9). destruct (scrH_ge t H) as (HA & _).
  rewrite zlen_zrange, !zlen_zrange_incl. unfold last_edit, first_edit. unfold margins_ok in H8. destruct (mtb t) as [[a b]|]; lia.
Qed.
Lemma region_cols_le t : Inv09 t -> 0 <= zlen (zrange_incl (first_col t) (last_col t)) <= scrW t.
Proof. intro H. rewrite zlen_zrange_incl. pose proof (eff_cols_le t H). unfold eff_cols in *. lia. Qed.
Lemma prim_ticks_bound_l : forall t, Inv09 t ->
  snd (scroll_up_t t) <= scr t /\ snd (scroll_down_t t) <= scr t /\ snd (scroll_left_t t) <= scr t /\ snd (scroll_right_t t) <= scr t.
Proof.
  intros t H. rewrite scroll_up_t_snd, scroll_down_t_snd, scroll_left_t_snd, scroll_right_t_snd.
  destruct (region_rows_le t H) as (R1 & R2 & R3). pose proof (region_cols_le t H) as C.
  destruct (scrW_ge t H) as (_ & _ & _ & _ & HW). destruct (scrH_ge t H) as (_ & _ & HH).
  pose proof (zlen_nonneg (zrange (first_edit t) (last_edit t))). pose proof (zlen_nonneg (zrange_incl (first_edit t + 1) (last_edit t))).
  pose proof (zlen_nonneg (zrange_incl (first_edit t) (last_edit t))). unfold scr. repeat split; nia.
Qed.

(* ---- REP: linear in the parameter ------------------------------------------------------------------------------------------------------------ *)
Lemma rep_linear_before_fix_l : forall t c n, (exists t', fst (rep_c_before_fix t c n) = ROk t') -> iters (snd (rep_c_before_fix t c n)) = Z.max 0 n.
Proof. intros t c n. unfold rep_c_before_fix. apply iter_cost_res_linear. Qed.
(* after the fix: the count is the parameter clamped to one screen *)
Lemma rep_clamped_l : forall t c n, (exists t', fst (rep_c t c n) = ROk t') -> iters (snd (rep_c t c n)) = Z.max 0 (Z.min n (rep_limit t)).
Proof. intros t c n. unfold rep_c. apply iter_cost_res_linear. Qed.
Lemma inv09_init_2_1 : Inv09 (init_term 2 1).
Proof.
  unfold Inv09, InvG, InvC09, InvX, InvY, first, init_term, margins_ok; cbn. repeat split; try lia. repeat constructor. lia.
Qed.
Definition rep_witness_p : pst := set_last (set_nums (init_pst 0 false) [1000]) 65.
Lemma rep_before_fix_refuted_l : Inv09 (init_term 2 1) /\ nlen (nums rep_witness_p) <= 7 /\
  4 * (7 + 1) * scr (init_term 2 1) < iters (snd (rep_c_before_fix (init_term 2 1) (print_cell (init_term 2 1) (last_char rep_witness_p)) (first_or (nums rep_witness_p) 1)))
  /\ iters (snd (csi_final_c (init_term 2 1) rep_witness_p false 98)) = 2.
Proof. split; [exact inv09_init_2_1|]. split; [vm_compute; discriminate|]. split; vm_compute; reflexivity. Qed.

(* ---- hex macro repeat groups --------------------------------------------------------------------------------------------------------------- *)
Lemma hex_macro_t_fst : forall s stt rr rep_rec rep_n rec k, fst (hex_macro_t s stt rr rep_rec rep_n rec k) = hex_macro s stt rr rep_rec rep_n rec.
Proof.
  induction s as [|ch r IH]; intros stt rr rep_rec rep_n rec k; cbn [hex_macro_t hex_macro]; [reflexivity|].
  destruct stt.
  - destruct ((ch =? 59) && rr); [destruct (push_group rec rep_rec rep_n); [apply IH|reflexivity]|]. destruct (ch =? 33); apply IH.
  - destruct (hex_val c); [|reflexivity]. destruct (hex_val (to_upper ch)); [|reflexivity]. destruct rr; apply IH.
  - destruct (is_digit ch); [apply IH|]. destruct (ch =? 59); [apply IH|reflexivity].
Qed.
(* "!3000;41;" : 9 characters, 3009 iterations *)
Lemma hexmacro_refuted_l : exists s, zlen s < 64 /\ 300 * zlen s < snd (hex_macro_t_before_fix s HFirst false [] 0 [] 0).
Proof. exists [33; 51; 48; 48; 48; 59; 52; 49; 59]. vm_compute. split; reflexivity. Qed.

(* ---- macro recursion ---------------------------------------------------------------------------------------------------------------------------- *)
Lemma macro_self_diverges : forall fuel, macro_chars_nolimit fuel [(1, [27; 91; 49; 42; 122])] 1 = None.
Proof. induction fuel as [|k IH]; [reflexivity|]. cbn [macro_chars_nolimit lookup Z.eqb Pos.eqb]. change (find_invokes [27; 91; 49; 42; 122]) with [1]. cbn [fold_left]. rewrite IH. reflexivity. Qed.

(* ---- sixel ------------------------------------------------------------------------------------------------------------------------------------------ *)
Lemma repeat_data_t_fst : forall n s ch k, fst (repeat_data_t n s ch k) = Sixel.repeat_data n s ch.
Proof.
  induction n; intros s ch k; cbn [repeat_data_t Sixel.repeat_data]; [reflexivity|].
  destruct (Sixel.parse_sixel_data s ch); cbn [Sixel.bind fst]; [apply IHn|reflexivity|reflexivity].
Qed.
Lemma sixel_repeat_linear_l : forall n s ch k, (exists s', fst (repeat_data_t n s ch k) = Sixel.Ok s') -> snd (repeat_data_t n s ch k) = k + Z.of_nat n.
Proof.
  induction n; intros s ch k H; cbn [repeat_data_t] in *; [cbn; lia|].
  destruct (Sixel.parse_sixel_data s ch); cbn [fst] in *.
  - rewrite IHn; [lia|exact H].
  - destruct H as [s' H]; discriminate.
  - destruct H as [s' H]; discriminate.
Qed.
Lemma sixel_raster_refuted_l : 2 ^ 30 < raster_alloc [99999; 99999] /\ 2 ^ 30 < raster_alloc [2147483647].
Proof. vm_compute. split; reflexivity. Qed.

(* ---- Avatar, fonts, window ----------------------------------------------------------------------------------------------------------------------- *)
Lemma avatar_repeat_bound_l : forall n, n <= 255 -> avatar_repeat_iters n <= 255.
Proof. intros n H. unfold avatar_repeat_iters. lia. Qed.
Lemma glyph_loop_len : forall fuel h n data ch, (length (Font.glyph_loop fuel h n data ch) <= fuel)%nat.
Proof.
  induction fuel; intros h n data ch; cbn [Font.glyph_loop]; [cbn; lia|].
  destruct (_ || _); [cbn; lia|]. cbn [length]. specialize (IHfuel h (n - h)%N (skipn (N.to_nat h) data) (ch + 1)%N). lia.
Qed.
Lemma glyph_iters_bound_l : forall h data, glyph_iters h data <= zlen data.
Proof. intros h data. unfold glyph_iters, Font.glyphs_from_u8_data, zlen. apply Nat2Z.inj_le. apply glyph_loop_len. Qed.
Lemma reset_tabs_n_len : forall n i w, (length (reset_tabs_n i w n) <= n)%nat.
Proof. induction n; intros i w; cbn [reset_tabs_n]; [cbn; lia|]. destruct (i <? w); cbn [length]; [specialize (IHn (i + 8) w)|]; lia. Qed.
Lemma window_ticks_bound_l : forall w, window_ticks w <= 133.
Proof.
  intro w. unfold window_ticks, reset_tabs, zlen. pose proof (reset_tabs_n_len (Z.to_nat (Z.max (Z.min w 132) 1)) 0 (Z.max (Z.min w 132) 1)). lia.
Qed.

(* ---- total inner iterations of the scroll loops: iterations x weight (the weight depends on the geometry only) ---------------------------------- *)
Lemma scrH_le_scr t : Inv09 t -> 0 <= scrH t <= scr t.
Proof. intro H. destruct (scrW_ge t H) as (_ & _ & _ & _ & HW). destruct (scrH_ge t H) as (_ & _ & HH). unfold scr. nia. Qed.
Lemma ticks_bound_scroll_l : forall t n, Inv09 t ->
  ticks (snd (su_c t n)) <= scr t * scr t /\ ticks (snd (sd_c t n)) <= scr t * scr t /\ ticks (snd (sl_c t n)) <= scr t * scr t.
Proof.
  intros t n H. destruct (prim_ticks_bound_l t H) as (P1 & P2 & P3 & _). pose proof (eff_scrolls_le t H) as HE. pose proof (eff_cols_le t H) as HC.
  pose proof (scrH_le_scr t H) as HS. destruct (scrW_ge t H) as (_ & _ & _ & _ & HW). destruct (scrH_ge t H) as (_ & _ & HH).
  assert (HWs : scrW t <= scr t) by (unfold scr; nia).
  assert (Q1 : 0 <= snd (scroll_up_t t)) by (rewrite scroll_up_t_snd; pose proof (zlen_nonneg (zrange (first_edit t) (last_edit t))); pose proof (zlen_nonneg (zrange_incl (first_col t) (last_col t))); nia).
  assert (Q2 : 0 <= snd (scroll_down_t t)) by (rewrite scroll_down_t_snd; pose proof (zlen_nonneg (zrange_incl (first_edit t + 1) (last_edit t))); pose proof (zlen_nonneg (zrange_incl (first_col t) (last_col t))); nia).
  assert (Q3 : 0 <= snd (scroll_left_t t)) by (rewrite scroll_left_t_snd; apply zlen_nonneg).
  unfold su_c, sd_c, sl_c. repeat split.
  - rewrite iter_cost_ticks; [nia|]. intro x. rewrite !scroll_up_t_snd. reflexivity.
  - rewrite iter_cost_ticks; [nia|]. intro x. rewrite !scroll_down_t_snd. reflexivity.
  - rewrite iter_cost_ticks; [nia|]. intro x. rewrite !scroll_left_t_snd. reflexivity.
Qed.
