(* Proofs about the 8-bit attribute codec (Model/Attr.v over the constants of Gen/Codepage.v).
   The domains are finite (256 bytes x 3 modes; 16 x 16 colours x 2 x 2 flags x 3 modes; u8 x u8), so the
   core facts are complete vm_compute sweeps; they are lifted to statements about every TextAttribute
   (arbitrary u32 colours, arbitrary flag word, arbitrary font page) through as_u8_core, which reads
   only the two colours and the bold / blink flags. *)
From Coq Require Import NArith Bool List Lia.
From IE Require Import Lib.Tbl Lib.Bits Lib.C18Lib Gen.Codepage Model.Attr.
Import ListNotations.
Local Open Scope N_scope.

Lemma all_modes_forallb (P : IceMode -> bool) : forallb P all_modes = true -> forall m, P m = true.
Proof.
  cbn [forallb all_modes]. intros H m.
  apply andb_prop in H as [H1 H]. apply andb_prop in H as [H2 H]. apply andb_prop in H as [H3 _].
  destruct m; assumption.
Qed.

(* ---------------------------------------------------------------- decode, then encode *)

Lemma dec_enc_sweep :
  forallb (fun m => forallb (fun b => as_u8 (from_u8 b m) m =? b) (nrange 256)) all_modes = true.
Proof. vm_compute. reflexivity. Qed.

Lemma attr_decode_encode_proof : forall m b, b < 256 -> as_u8 (from_u8 b m) m = b.
Proof.
  intros m b Hb.
  pose proof (all_modes_forallb _ dec_enc_sweep m) as H. cbv beta in H.
  apply N.eqb_eq. exact (nrange_forallb _ _ H b Hb).
Qed.

(* what from_u8 produces: never bold, default font page, colours in range, expressible *)
Lemma from_u8_shape_sweep :
  forallb (fun m => forallb (fun b =>
     let d := from_u8 b m in
     negb (is_bold d) && (font_page d =? DEFAULT_FONT_PAGE) && (foreground_color d <? 16)
     && expressible_core m (foreground_color d) (background_color d) (is_blinking d)
     && (attr d =? (if is_blinking d then N.lor DEFAULT_ATTR ATTR_BLINK else DEFAULT_ATTR)))
    (nrange 256)) all_modes = true.
Proof. vm_compute. reflexivity. Qed.

Lemma from_u8_shape : forall m b, b < 256 ->
  let d := from_u8 b m in
  is_bold d = false /\ font_page d = DEFAULT_FONT_PAGE /\ foreground_color d < 16 /\
  expressible m d /\ attr d = (if is_blinking d then N.lor DEFAULT_ATTR ATTR_BLINK else DEFAULT_ATTR).
Proof.
  intros m b Hb d.
  pose proof (all_modes_forallb _ from_u8_shape_sweep m) as H. cbv beta in H.
  pose proof (nrange_forallb _ _ H b Hb) as H1. cbv beta zeta in H1. fold d in H1.
  apply andb_prop in H1 as [H1 H5]. apply andb_prop in H1 as [H1 H4].
  apply andb_prop in H1 as [H1 H3]. apply andb_prop in H1 as [H1 H2].
  repeat split.
  - apply negb_true_iff. exact H1.
  - apply N.eqb_eq. exact H2.
  - apply N.ltb_lt. exact H3.
  - exact H4.
  - apply N.eqb_eq. exact H5.
Qed.

Lemma as_u8_core_range fg bg bold blink m : as_u8_core fg bg bold blink m < 256.
Proof. unfold as_u8_core. apply N.mod_lt. discriminate. Qed.

Lemma as_u8_range_proof : forall a m, as_u8 a m < 256.
Proof. intros. apply as_u8_core_range. Qed.

(* ---------------------------------------------------------------- encode, then decode *)

Definition encdec_ok (m : IceMode) (fg bg : N) (bold blink : bool) : bool :=
  implb (expressible_core m fg bg blink)
    (let d := from_u8 (as_u8_core fg bg bold blink m) m in
     (shown_fg d =? shown_fg_core fg bold) && (background_color d =? bg) && Bool.eqb (is_blinking d) blink).

Lemma enc_dec_sweep :
  forallb (fun m => forallb (fun fg => forallb (fun bg => forallb (fun bold => forallb (fun blink =>
     encdec_ok m fg bg bold blink) [true; false]) [true; false]) (nrange 16)) (nrange 16)) all_modes = true.
Proof. vm_compute. reflexivity. Qed.

Lemma expressible_core_bounds m fg bg blink :
  expressible_core m fg bg blink = true -> fg < 16 /\ bg < 16.
Proof.
  unfold expressible_core. intro H. apply andb_prop in H as [H1 H2].
  apply N.ltb_lt in H1. split; [exact H1|].
  destruct m.
  - apply N.ltb_lt in H2. lia.
  - apply N.ltb_lt in H2. lia.
  - apply andb_prop in H2 as [H2 _]. apply N.ltb_lt in H2. exact H2.
Qed.

Lemma enc_dec_core : forall m fg bg bold blink,
  expressible_core m fg bg blink = true ->
  shown (from_u8 (as_u8_core fg bg bold blink m) m) = (shown_fg_core fg bold, bg, blink).
Proof.
  intros m fg bg bold blink He.
  destruct (expressible_core_bounds _ _ _ _ He) as [Hfg Hbg].
  pose proof (all_modes_forallb _ enc_dec_sweep m) as H. cbv beta in H.
  pose proof (nrange_forallb2 _ _ _ H fg bg Hfg Hbg) as H1. cbv beta in H1.
  pose proof (forallb_bools _ H1 bold) as H2. cbv beta in H2.
  pose proof (forallb_bools _ H2 blink) as H3.
  unfold encdec_ok in H3. rewrite He in H3. cbn [implb] in H3. cbv zeta in H3.
  apply andb_prop in H3 as [H3 Hc]. apply andb_prop in H3 as [Ha Hb].
  apply N.eqb_eq in Ha. apply N.eqb_eq in Hb. apply eqb_bool_true in Hc.
  unfold shown. rewrite Ha, Hb, Hc. reflexivity.
Qed.

Lemma attr_encode_decode_proof : forall m a, expressible m a ->
  shown (from_u8 (as_u8 a m) m) = shown a.
Proof.
  intros m [fp fg bg w] He. unfold expressible in He. cbn [foreground_color background_color] in He.
  unfold as_u8, shown at 2, shown_fg. cbn [foreground_color background_color].
  apply enc_dec_core. exact He.
Qed.

Lemma shown_fg_core_ge fg bold : fg <= shown_fg_core fg bold.
Proof. unfold shown_fg_core. destruct (bold && (fg <? 8)); lia. Qed.

(* the hypothesis is exactly right: an attribute is expressible in a mode iff some byte decodes to
   something that looks like it *)
Lemma expressible_iff_image_proof : forall m a,
  expressible m a <-> exists b, b < 256 /\ shown (from_u8 b m) = shown a.
Proof.
  intros m a. split.
  - intro He. exists (as_u8 a m). split; [apply as_u8_range_proof | apply attr_encode_decode_proof, He].
  - intros (b & Hb & Hs).
    destruct (from_u8_shape m b Hb) as (Hnb & _ & Hfg & He & _).
    unfold shown in Hs. injection Hs as Hf Hg Hk.
    unfold expressible in *. rewrite <- Hg, <- Hk.
    unfold expressible_core in *. apply andb_prop in He as [_ He]. rewrite He, andb_true_r.
    apply N.ltb_lt.
    assert (Hd : shown_fg (from_u8 b m) = foreground_color (from_u8 b m)).
    { unfold shown_fg, shown_fg_core. rewrite Hnb. reflexivity. }
    pose proof (shown_fg_core_ge (foreground_color a) (is_bold a)) as Hge. fold (shown_fg a) in Hge.
    lia.
Qed.

Lemma attr_encode_decode_only_if_proof : forall m a,
  shown (from_u8 (as_u8 a m) m) = shown a -> expressible m a.
Proof.
  intros m a H. apply expressible_iff_image_proof. exists (as_u8 a m). split; [apply as_u8_range_proof | exact H].
Qed.

(* without bold the raw fields come back, and the decoded attribute carries nothing else *)
Lemma attr_encode_decode_exact_proof : forall m a, expressible m a -> is_bold a = false ->
  let d := from_u8 (as_u8 a m) m in
  foreground_color d = foreground_color a /\ background_color d = background_color a /\
  is_blinking d = is_blinking a /\ is_bold d = false /\ font_page d = DEFAULT_FONT_PAGE.
Proof.
  intros m a He Hb d.
  pose proof (attr_encode_decode_proof m a He) as Hs. fold d in Hs.
  destruct (from_u8_shape m (as_u8 a m) (as_u8_range_proof a m)) as (Hnb & Hfp & _). fold d in Hnb, Hfp.
  unfold shown, shown_fg, shown_fg_core in Hs. rewrite Hnb, Hb in Hs. cbn [andb] in Hs.
  injection Hs as H1 H2 H3. repeat split; assumption.
Qed.

(* ---------------------------------------------------------------- from_color *)

Definition color_byte (fg bg : N) : N := N.lor (N.land fg 15) (N.shiftl (N.land bg 15) 4).

Definition shown_eqb (x y : N * N * bool) : bool :=
  let '(a, b, c) := x in let '(a', b', c') := y in (a =? a') && (b =? b') && Bool.eqb c c'.
Lemma shown_eqb_eq x y : shown_eqb x y = true -> x = y.
Proof.
  destruct x as [[a b] c], y as [[a' b'] c']. cbn [shown_eqb]. intro H.
  apply andb_prop in H as [H H3]. apply andb_prop in H as [H1 H2].
  apply N.eqb_eq in H1. apply N.eqb_eq in H2. apply eqb_bool_true in H3. subst. reflexivity.
Qed.

Lemma from_color_sweep :
  forallb (fun fg => forallb (fun bg =>
     (as_u8 (from_color fg bg) Blink =? color_byte fg bg)
     && shown_eqb (shown (from_color fg bg)) (shown (from_u8 (color_byte fg bg) Blink))
     && expressible_core Blink (foreground_color (from_color fg bg)) (background_color (from_color fg bg)) (is_blinking (from_color fg bg)))
    (nrange 256)) (nrange 256) = true.
Proof. vm_compute. reflexivity. Qed.

Lemma from_color_codec_proof : forall fg bg, fg < 256 -> bg < 256 ->
  as_u8 (from_color fg bg) Blink = color_byte fg bg /\
  shown (from_color fg bg) = shown (from_u8 (color_byte fg bg) Blink) /\
  expressible Blink (from_color fg bg).
Proof.
  intros fg bg Hf Hb.
  pose proof (nrange_forallb2 _ _ _ from_color_sweep fg bg Hf Hb) as H. cbv beta in H.
  apply andb_prop in H as [H H3]. apply andb_prop in H as [H1 H2].
  repeat split.
  - apply N.eqb_eq. exact H1.
  - apply shown_eqb_eq. exact H2.
  - exact H3.
Qed.

(* ---------------------------------------------------------------- the defect that was repaired
   Before the fix commit as_u8 treated Unlimited like Ice.  This is that expression; it loses bit 7 of
   every byte >= 0x80 decoded in Unlimited mode (the regression input of the search stage). *)
Definition as_u8_core_before_fix (fgc bgc : N) (bold blink : bool) (m : IceMode) : N :=
  let fg := N.land fgc 15 in
  let fg := if bold then N.lor fg 8 else fg in
  let bg :=
    match m with
    | Blink => N.lor (N.land bgc 7) (if blink then 8 else 0)
    | Unlimited | Ice => N.land bgc 15
    end in
  (N.lor fg (N.shiftl bg 4)) mod 256.
Definition as_u8_before_fix (a : TextAttribute) (m : IceMode) : N :=
  as_u8_core_before_fix (foreground_color a) (background_color a) (is_bold a) (is_blinking a) m.

Lemma before_fix_refuted_proof :
  as_u8_before_fix (from_u8 128 Unlimited) Unlimited = 0 /\
  length (filter (fun b => negb (as_u8_before_fix (from_u8 b Unlimited) Unlimited =? b)) (nrange 256)) = 128%nat.
Proof. vm_compute. split; reflexivity. Qed.

(* the repair changes as_u8 only for blinking attributes in Unlimited mode *)
Lemma fix_is_local_proof : forall fg bg bold blink m,
  (m = Unlimited -> blink = false) ->
  as_u8_core fg bg bold blink m = as_u8_core_before_fix fg bg bold blink m.
Proof.
  intros fg bg bold blink m H. destruct m; try reflexivity.
  rewrite (H eq_refl). unfold as_u8_core, as_u8_core_before_fix. rewrite N.lor_0_r. reflexivity.
Qed.
