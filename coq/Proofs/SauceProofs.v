(* C11, part 2: the writer's byte layout, extract on written files, the content split, totality. *)
From Coq Require Import NArith ZArith List Bool Arith Lia.
From IE Require Import Lib.Tbl Gen.Sauce Model.Sauce Model.SauceSpec Proofs.SauceStrings.
Import ListNotations.
Local Open Scope nat_scope.

Ltac unfold_consts :=
  unfold TITLE_LEN, TITLE_PAD, AUTHOR_LEN, AUTHOR_PAD, GROUP_LEN, GROUP_PAD, COMMENT_LEN, COMMENT_PAD,
         TINFOS_LEN, TINFOS_PAD, SAUCE_LEN, COMMENT_STRIDE, COMMENT_ID_LEN, EOF_ALLOWANCE in *.

(* ---- res / slices --------------------------------------------------------------------------- *)
Lemma bind_ok {A B} (r : res A) (f : A -> res B) x : r = Ok x -> bind r f = f x.
Proof. intros ->. reflexivity. Qed.

Lemma slice_mid data P X Q a b : data = P ++ X ++ Q -> length P = a -> b = a + length X -> slice data a b = Ok X.
Proof.
  intros -> <- ->. unfold slice.
  assert (H1 : (length P <=? length P + length X) = true) by (apply Nat.leb_le; lia).
  assert (H2 : (length P + length X <=? length (P ++ X ++ Q)) = true) by (apply Nat.leb_le; rewrite !app_length; lia).
  rewrite H1, H2. simpl. rewrite skipn_app_exact by reflexivity.
  replace (length P + length X - length P) with (length X) by lia. now rewrite firstn_app_exact.
Qed.

Lemma slice_from_mid data P Q a : data = P ++ Q -> length P = a -> slice_from data a = Ok Q.
Proof.
  intros -> <-. unfold slice_from.
  assert (H : (length P <=? length (P ++ Q)) = true) by (apply Nat.leb_le; rewrite app_length; lia).
  rewrite H. now rewrite skipn_app_exact.
Qed.

Lemma idx_mid data P x Q a : data = P ++ [x] ++ Q -> length P = a -> idx data a = Ok x.
Proof. intros -> <-. unfold idx. rewrite nth_error_app2 by lia. now rewrite Nat.sub_diag. Qed.

Lemma usub_ok a b : b <= a -> usub a b = Ok (a - b).
Proof. intro H. unfold usub. apply Nat.leb_le in H. now rewrite H. Qed.

(* ---- writer layout ---------------------------------------------------------------------------- *)
Lemma append_comments_spec cs : forall vec,
  append_comments cs vec = vec ++ concat (map (pad COMMENT_LEN COMMENT_PAD) cs).
Proof.
  induction cs as [|c cs IH]; intro vec; simpl; [now rewrite app_nil_r|].
  rewrite IH, ss_append_pad, <- app_assoc. reflexivity.
Qed.

Theorem write_layout ft b name d content dt fty t1 t2 fl nm :
  b_font b = Some name -> length d = 8 ->
  (let '(_, _, _, cs) := w_strings b in length cs <= 255) ->
  type_fields ft b name = Ok (dt, fty, t1, t2, fl, nm) ->
  write ft b d content =
    Ok (content ++ [EOF_BYTE] ++
        (let '(t, a, g, cs) := w_strings b in
         comment_block cs ++
         sauce_record t a g d (N.of_nat (length (content ++ [EOF_BYTE]))) dt fty t1 t2 (N.of_nat (length cs)) fl nm)).
Proof.
  intros Hf Hd Hc Ht. unfold write. rewrite Hf.
  assert (Hd' : negb (length d =? 8) = false) by (rewrite Hd; reflexivity). rewrite Hd'.
  unfold w_strings in *. unfold sauce_record.
  destruct (b_sauce b) as [s|]; [destruct (w_comments s) as [|c cs] eqn:Ec|].
  - cbv beta iota zeta delta [bind]. rewrite Ht. cbv beta iota zeta delta [bind].
    rewrite !ss_append_pad. unfold comment_block. cbn [length app N.of_nat]. rewrite <- !app_assoc. reflexivity.
  - assert (Hl : (255 <? length (c :: cs)) = false) by (apply Nat.ltb_ge; exact Hc). rewrite Hl.
    cbv beta iota zeta delta [bind]. rewrite Ht. cbv beta iota zeta delta [bind].
    rewrite append_comments_spec, !ss_append_pad. unfold comment_block.
    rewrite <- !app_assoc. reflexivity.
  - cbv beta iota zeta delta [bind]. rewrite Ht. cbv beta iota zeta delta [bind].
    rewrite !ss_append_pad. unfold comment_block. cbn [length app N.of_nat]. rewrite <- !app_assoc. reflexivity.
Qed.

(* ---- the comment loop ---------------------------------------------------------------------------- *)
Lemma read_comments_spec cs : forall P Q acc, Forall (fun c => length c <= COMMENT_LEN) cs ->
  read_comments (length cs) (length P) (P ++ concat (map (pad COMMENT_LEN COMMENT_PAD) cs) ++ Q) acc
  = Ok (acc ++ map norm_nul cs).
Proof.
  induction cs as [|c cs IH]; intros P Q acc Hall; simpl.
  - now rewrite app_nil_r.
  - inversion Hall as [|? ? Hc Hcs]; subst.
    erewrite bind_ok; [|eapply slice_from_mid; reflexivity].
    rewrite <- app_assoc. unfold COMMENT_PAD at 1. unfold COMMENT_LEN at 1 2.
    rewrite read_pad_nul by exact Hc. simpl bind.
    replace (length P + COMMENT_LEN) with (length (P ++ pad COMMENT_LEN COMMENT_PAD c))
      by (rewrite app_length, pad_length by exact Hc; reflexivity).
    rewrite (app_assoc P).
    rewrite IH by assumption. now rewrite <- app_assoc.
Qed.

Lemma concat_pad_length cs : Forall (fun c => length c <= COMMENT_LEN) cs ->
  length (concat (map (pad COMMENT_LEN COMMENT_PAD) cs)) = COMMENT_LEN * length cs.
Proof.
  induction 1 as [|c cs Hc _ IH]; cbn [concat map length]; [lia|]. rewrite app_length, pad_length, IH by assumption. lia.
Qed.

Lemma comment_block_length cs : Forall (fun c => length c <= COMMENT_LEN) cs ->
  length (comment_block cs) = comment_block_len (length cs).
Proof.
  intro H. destruct cs as [|c cs]; [reflexivity|]. unfold comment_block, comment_block_len.
  rewrite app_length, concat_pad_length by assumption. reflexivity.
Qed.

(* ---- extract on a file laid out as the writer does ------------------------------------------------ *)
Ltac len_solve H1 H2 :=
  repeat rewrite app_length; repeat rewrite pad_length by assumption; rewrite ?H1, ?H2;
  unfold_consts; cbn [length SAUCE_ID SAUCE_VERSION]; lia.
Ltac app_solve data := unfold data; rewrite <- ?app_assoc; reflexivity.

Theorem extract_written dp content cs t a g d F dt fty w1 w2 h1 h2 fl s22 date :
  length t <= TITLE_LEN -> length a <= AUTHOR_LEN -> length g <= GROUP_LEN -> length d = 8 -> length F = 4 ->
  length s22 <= TINFOS_LEN -> Forall (fun c => length c <= COMMENT_LEN) cs -> dp d = Some date ->
  extract dp ((content ++ [EOF_BYTE] ++ comment_block cs) ++ SAUCE_ID ++ SAUCE_VERSION ++
              pad TITLE_LEN TITLE_PAD t ++ pad AUTHOR_LEN AUTHOR_PAD a ++ pad GROUP_LEN GROUP_PAD g ++ d ++ F ++
              [dt] ++ [fty] ++ [w1] ++ [w2] ++ [h1] ++ [h2] ++ [0%N] ++ [0%N] ++ [0%N] ++ [0%N] ++
              [N.of_nat (length cs)] ++ [fl] ++ pad TINFOS_LEN TINFOS_PAD s22)
  = Ok (Some (let '(w, h, ftype, ice, ls, ar, font) :=
                  interpret (data_type_from dt) fty (Z.of_N (w1 + w2 * 256)) (Z.of_N (h1 + h2 * 256)) fl (norm_nul s22) in
              mkSauce (norm_blank TITLE_LEN t) (norm_blank AUTHOR_LEN a) (norm_blank GROUP_LEN g) (map norm_nul cs)
                      (data_type_from dt) w h date font ice ls ar
                      (1 + comment_block_len (length cs) + SAUCE_LEN) ftype)).
Proof.
  intros Ht Ha Hg Hd HF Hs Hcs Hdp.
  set (front := content ++ [EOF_BYTE] ++ comment_block cs).
  match goal with |- extract dp ?x = _ => set (data := x) end.
  assert (Hfront : length front = length content + 1 + comment_block_len (length cs)).
  { unfold front. rewrite !app_length, comment_block_length by assumption. cbn [length]. lia. }
  assert (Hn : length data = length front + 128).
  { unfold data. len_solve Hd HF. }
  unfold extract. rewrite Hn. remember (length front) as o0 eqn:Ho0.
  unfold_consts.
  replace (o0 + 128 <? 128) with false by (symmetry; apply Nat.ltb_ge; lia).
  erewrite bind_ok; [|apply usub_ok; lia]. replace (o0 + 128 - 128) with o0 by lia.
  (* ID *)
  erewrite bind_ok; [|eapply (slice_mid data front SAUCE_ID); [app_solve data|now symmetry|reflexivity]].
  rewrite list_eqb_refl. cbn [negb].
  (* version *)
  erewrite bind_ok; [|eapply (slice_mid data (front ++ SAUCE_ID) SAUCE_VERSION); [app_solve data|len_solve Hd HF|reflexivity]].
  rewrite list_eqb_refl. cbn [negb].
  (* title, author, group *)
  erewrite bind_ok; [|eapply (slice_from_mid data (front ++ SAUCE_ID ++ SAUCE_VERSION)); [app_solve data|len_solve Hd HF]].
  erewrite bind_ok; [|apply (read_pad_blank 35); exact Ht].
  erewrite bind_ok; [|eapply (slice_from_mid data (front ++ SAUCE_ID ++ SAUCE_VERSION ++ pad 35 32%N t)); [app_solve data|len_solve Hd HF]].
  erewrite bind_ok; [|apply (read_pad_blank 20); exact Ha].
  erewrite bind_ok; [|eapply (slice_from_mid data (front ++ SAUCE_ID ++ SAUCE_VERSION ++ pad 35 32%N t ++ pad 20 32%N a)); [app_solve data|len_solve Hd HF]].
  erewrite bind_ok; [|apply (read_pad_blank 20); exact Hg].
  (* date *)
  set (P7 := front ++ SAUCE_ID ++ SAUCE_VERSION ++ pad 35 32%N t ++ pad 20 32%N a ++ pad 20 32%N g).
  assert (HP7 : length P7 = o0 + 82) by (unfold P7; len_solve Hd HF).
  cbv zeta.
  erewrite bind_ok; [|eapply (slice_mid data P7 d); [unfold P7; app_solve data|lia|lia]].
  rewrite Hdp.
  (* type bytes *)
  set (P8 := P7 ++ d ++ F).
  assert (HP8 : length P8 = o0 + 94) by (unfold P8; rewrite !app_length, HP7, Hd, HF; lia).
  erewrite bind_ok; [|eapply (idx_mid data P8 dt); [unfold P8, P7; app_solve data|lia]].
  erewrite bind_ok; [|eapply (idx_mid data (P8 ++ [dt]) fty); [unfold P8, P7; app_solve data|rewrite app_length, HP8; cbn [length]; lia]].
  erewrite bind_ok; [|eapply (idx_mid data (P8 ++ [dt] ++ [fty]) w1); [unfold P8, P7; app_solve data|rewrite !app_length, HP8; cbn [length]; lia]].
  erewrite bind_ok; [|eapply (idx_mid data (P8 ++ [dt] ++ [fty] ++ [w1]) w2); [unfold P8, P7; app_solve data|rewrite !app_length, HP8; cbn [length]; lia]].
  erewrite bind_ok; [|eapply (idx_mid data (P8 ++ [dt] ++ [fty] ++ [w1] ++ [w2]) h1); [unfold P8, P7; app_solve data|rewrite !app_length, HP8; cbn [length]; lia]].
  erewrite bind_ok; [|eapply (idx_mid data (P8 ++ [dt] ++ [fty] ++ [w1] ++ [w2] ++ [h1]) h2); [unfold P8, P7; app_solve data|rewrite !app_length, HP8; cbn [length]; lia]].
  set (P9 := P8 ++ [dt] ++ [fty] ++ [w1] ++ [w2] ++ [h1] ++ [h2] ++ [0%N] ++ [0%N] ++ [0%N] ++ [0%N]).
  assert (HP9 : length P9 = o0 + 104) by (unfold P9; rewrite !app_length, HP8; cbn [length]; lia).
  erewrite bind_ok; [|eapply (idx_mid data P9 (N.of_nat (length cs))); [unfold P9, P8, P7; app_solve data|lia]].
  erewrite bind_ok; [|eapply (idx_mid data (P9 ++ [N.of_nat (length cs)]) fl); [unfold P9, P8, P7; app_solve data|rewrite app_length, HP9; cbn [length]; lia]].
  erewrite bind_ok; [|eapply (slice_from_mid data (P9 ++ [N.of_nat (length cs)] ++ [fl])); [unfold P9, P8, P7; app_solve data|rewrite !app_length, HP9; cbn [length]; lia]].
  erewrite bind_ok; [|rewrite <- (app_nil_r (pad 22 0%N s22)); apply (read_pad_nul 22); exact Hs].
  replace (o0 + 128 =? o0 + 7 + 35 + 20 + 20 + 8 + 4 + 12 + 22) with true by (symmetry; apply Nat.eqb_eq; lia).
  cbn [negb].
  destruct (interpret (data_type_from dt) fty (Z.of_N (w1 + w2 * 256)) (Z.of_N (h1 + h2 * 256)) fl (norm_nul s22))
    as [[[[[[w h] ftype] ice] ls] ar] font].
  rewrite Nnat.Nat2N.id.
  (* comment block *)
  destruct cs as [|c cs'].
  - cbn [length Nat.ltb Nat.leb]. erewrite bind_ok; [|erewrite bind_ok; [reflexivity|apply usub_ok; lia]].
    cbv beta iota. replace (o0 + 128 - 128) with o0 by lia.
    erewrite bind_ok; [|apply usub_ok; lia].
    do 3 f_equal. cbn [comment_block_len length] in *. lia.
  - set (k := length (c :: cs')) in *.
    assert (Hk : 0 < k) by (unfold k; cbn [length]; lia).
    assert (Hcb : comment_block_len k = 5 + 64 * k) by (unfold comment_block_len; destruct k; [lia|reflexivity]).
    replace (0 <? k) with true by (symmetry; apply Nat.ltb_lt; exact Hk).
    erewrite bind_ok; cycle 1.
    { erewrite bind_ok; [|apply usub_ok; lia]. replace (o0 + 128 - 128) with o0 by lia.
      replace (o0 <? k * 64 + 5) with false by (symmetry; apply Nat.ltb_ge; lia).
      erewrite bind_ok; [|apply usub_ok; lia].
      erewrite bind_ok; [|apply usub_ok; lia].
      replace (o0 - k * 64 - 5) with (length (content ++ [EOF_BYTE])) by (rewrite app_length; cbn [length]; lia).
      erewrite bind_ok; [|eapply (slice_mid data (content ++ [EOF_BYTE]) SAUCE_COMMENT_ID);
                          [unfold data, front, comment_block; rewrite <- ?app_assoc; reflexivity|reflexivity|reflexivity]].
      rewrite list_eqb_refl. cbn [negb].
      erewrite bind_ok; [reflexivity|].
      replace (length (content ++ [EOF_BYTE]) + 5) with (length ((content ++ [EOF_BYTE]) ++ SAUCE_COMMENT_ID))
        by (rewrite !app_length; reflexivity).
      unfold k. 
      replace data with (((content ++ [EOF_BYTE]) ++ SAUCE_COMMENT_ID) ++ concat (map (pad COMMENT_LEN COMMENT_PAD) (c :: cs')) ++
                         (SAUCE_ID ++ SAUCE_VERSION ++ pad 35 32%N t ++ pad 20 32%N a ++ pad 20 32%N g ++ d ++ F ++
              [dt] ++ [fty] ++ [w1] ++ [w2] ++ [h1] ++ [h2] ++ [0%N] ++ [0%N] ++ [0%N] ++ [0%N] ++
              [N.of_nat (length (c :: cs'))] ++ [fl] ++ pad 22 0%N s22))
        by (unfold data, front, comment_block; rewrite <- ?app_assoc; reflexivity).
      apply read_comments_spec. exact Hcs. }
    cbv beta iota.
    erewrite bind_ok; [|apply usub_ok; rewrite app_length; cbn [length]; lia].
    do 3 f_equal. rewrite app_length. cbn [length]. lia.
Qed.

(* ---- per-variant fields ---------------------------------------------------------------------------- *)
Lemma ss_from_length LEN : forall chars, length (ss_from LEN chars) <= LEN.
Proof. induction LEN as [|l IH]; intros [|c t]; simpl; try lia. specialize (IH t). lia. Qed.

Lemma wf_strings b t a g cs : wf b -> w_strings b = (t, a, g, cs) ->
  length t <= TITLE_LEN /\ length a <= AUTHOR_LEN /\ length g <= GROUP_LEN /\ length cs <= 255 /\
  Forall (fun c => length c <= COMMENT_LEN) cs.
Proof.
  unfold wf, w_strings. destruct (b_sauce b) as [s|].
  - intros (H1 & H2 & H3 & H4 & H5) E. inversion E; subst. repeat split; assumption.
  - intros _ E. inversion E; subst. unfold_consts. cbn [length]. repeat split; try lia. constructor.
Qed.

Lemma le16_decode t : let x := Z.to_N (t mod 65536) in Z.of_N (x mod 256 + x / 256 * 256) = (t mod 65536)%Z.
Proof.
  cbv zeta. rewrite N.add_comm, N.mul_comm, <- N.div_mod by discriminate.
  apply Z2N.id. apply Z.mod_pos_bound. reflexivity.
Qed.

Lemma bin_width_decode q : Z.of_N ((Z.to_N (q mod 256) * 2) mod 65536) = (q mod 256 * 2)%Z.
Proof.
  pose proof (Z.mod_pos_bound q 256 eq_refl) as [H0 H1].
  rewrite N.mod_small.
  - rewrite N2Z.inj_mul, Z2N.id by assumption. reflexivity.
  - apply N2Z.inj_lt. rewrite N2Z.inj_mul, Z2N.id by assumption. simpl Z.of_N. lia.
Qed.

Lemma flags_full ice ar ls :
  let f := N.lor (bflag ice ANSI_FLAG_NON_BLINK_MODE) (N.lor (bflag ar ANSI_ASPECT_RATIO_STRETCH) (bflag ls ANSI_LETTER_SPACING_9PX)) in
  flag_ice f = ice /\ flag_ls f = ls /\ flag_ar f = ar.
Proof. destruct ice, ar, ls; repeat split; reflexivity. Qed.
Lemma flags_ice_only ice : flag_ice (bflag ice ANSI_FLAG_NON_BLINK_MODE) = ice.
Proof. destruct ice; reflexivity. Qed.

Lemma le32_length x : length (le32 x) = 4.
Proof. reflexivity. Qed.

Definition tail_of (b : wbuf) (d : list N) (clen : nat) (dt fty : N) (t1 t2 : Z) (fl : N) (nm : list N) : list N :=
  [EOF_BYTE] ++
  (let '(t, a, g, cs) := w_strings b in
   comment_block cs ++ sauce_record t a g d (N.of_nat clen) dt fty t1 t2 (N.of_nat (length cs)) fl nm).

(* one statement for all variants: given the six per-variant fields, the written file reads back as `interpret` says *)
Lemma extract_write_generic dp content ft b name d date dt fty t1 t2 fl nm :
  wf b -> b_font b = Some name -> length d = 8 -> dp d = Some date ->
  type_fields ft b name = Ok (dt, fty, t1, t2, fl, nm) ->
  let tail := tail_of b d (length (content ++ [EOF_BYTE])) dt fty t1 t2 fl nm in
  let '(t, a, g, cs) := w_strings b in
  write ft b d content = Ok (content ++ tail) /\
  extract dp (content ++ tail) =
    Ok (Some (let '(w, h, ftype, ice, ls, ar, font) :=
                  interpret (data_type_from dt) fty (t1 mod 65536)%Z (t2 mod 65536)%Z fl (norm_nul (ss_from TINFOS_LEN nm)) in
              mkSauce (norm_blank TITLE_LEN t) (norm_blank AUTHOR_LEN a) (norm_blank GROUP_LEN g) (map norm_nul cs)
                      (data_type_from dt) w h date font ice ls ar
                      (1 + comment_block_len (length cs) + SAUCE_LEN) ftype)) /\
  length tail = 1 + comment_block_len (length cs) + SAUCE_LEN.
Proof.
  intros Hwf Hf Hd Hdp Htf. cbv zeta. unfold tail_of.
  destruct (w_strings b) as [[[t a] g] cs] eqn:Ew.
  destruct (wf_strings b t a g cs Hwf Ew) as (Ht & Ha & Hg & Hc & Hcs).
  split; [|split].
  - rewrite (write_layout ft b name d content dt fty t1 t2 fl nm Hf Hd); [|rewrite Ew; exact Hc|exact Htf].
    rewrite Ew. reflexivity.
  - pose proof (extract_written dp content cs t a g d (le32 (N.of_nat (length (content ++ [EOF_BYTE])))) dt fty
                  (Z.to_N (t1 mod 65536) mod 256)%N (Z.to_N (t1 mod 65536) / 256)%N
                  (Z.to_N (t2 mod 65536) mod 256)%N (Z.to_N (t2 mod 65536) / 256)%N
                  fl (ss_from TINFOS_LEN nm) date Ht Ha Hg Hd (le32_length _) (ss_from_length _ _) Hcs Hdp) as HX.
    rewrite !le16_decode in HX. rewrite <- HX. f_equal.
    unfold sauce_record. rewrite <- !app_assoc. reflexivity.
  - unfold sauce_record. rewrite !app_length, comment_block_length by assumption.
    rewrite !pad_length by (assumption || apply ss_from_length). rewrite Hd, le32_length.
    unfold_consts. cbn [length SAUCE_ID SAUCE_VERSION le16]. lia.
Qed.

(* ---- extract (write m) = carried -------------------------------------------------------------------- *)
Lemma carried_header_len ft b name date :
  s_header_len (carried ft b name date) =
  1 + comment_block_len (length (let '(_, _, _, cs) := w_strings b in cs)) + SAUCE_LEN.
Proof. unfold carried. destruct (w_strings b) as [[[t a] g] cs]. destruct (w_flags b). destruct ft; reflexivity. Qed.

Lemma interpret_ansi t1 t2 f s : interpret (data_type_from DT_CHARACTER) SAUCE_FILE_TYPE_ANSI t1 t2 f s
  = (t1, t2, FtAnsi, flag_ice f, flag_ls f, flag_ar f, Some (ss_to_string s)).
Proof. reflexivity. Qed.
Lemma interpret_ascii t1 t2 f s : interpret (data_type_from DT_CHARACTER) SAUCE_FILE_TYPE_ASCII t1 t2 f s
  = (t1, t2, FtAscii, flag_ice f, flag_ls f, flag_ar f, Some (ss_to_string s)).
Proof. reflexivity. Qed.
Lemma interpret_ansimation t1 t2 f s : interpret (data_type_from DT_CHARACTER) SAUCE_FILE_TYPE_ANSIMATION t1 t2 f s
  = (t1, t2, FtANSiMation, flag_ice f, false, false, Some (ss_to_string s)).
Proof. reflexivity. Qed.
Lemma interpret_bin ft t1 t2 f s : interpret (data_type_from DT_BINARYTEXT) ft t1 t2 f s
  = (Z.of_N ((ft * 2) mod 65536), 25%Z, FtBin, flag_ice f, false, false, Some (ss_to_string s)).
Proof. reflexivity. Qed.

Theorem extract_write_proof dp content ft b name d date :
  wf b -> b_font b = Some name -> length d = 8 -> dp d = Some date ->
  (ft = FtBin -> (Z.quot (b_width b) 2 <= 255)%Z) ->
  exists tail, write ft b d content = Ok (content ++ tail) /\
               extract dp (content ++ tail) = Ok (Some (carried ft b name date)) /\
               s_header_len (carried ft b name date) = length tail.
Proof.
  intros Hwf Hf Hd Hdp Hbin.
  assert (Htf : exists dt fty t1 t2 fl nm, type_fields ft b name = Ok (dt, fty, t1, t2, fl, nm)).
  { unfold type_fields. destruct ft; try (do 6 eexists; reflexivity).
    assert (H : (255 <? Z.quot (b_width b) 2)%Z = false) by (apply Z.ltb_ge; now apply Hbin).
    rewrite H. do 6 eexists; reflexivity. }
  destruct Htf as (dt & fty & t1 & t2 & fl & nm & Htf).
  pose proof (extract_write_generic dp content ft b name d date dt fty t1 t2 fl nm Hwf Hf Hd Hdp Htf) as G.
  cbv zeta in G. rewrite carried_header_len.
  destruct (w_strings b) as [[[t a] g] cs] eqn:Ew. destruct G as (G1 & G2 & G3).
  eexists. split; [exact G1|]. split; [|now rewrite G3].
  rewrite G2. do 2 f_equal.
  unfold carried. rewrite Ew. unfold w_flags. unfold type_fields in Htf.
  destruct ft.
  - (* Undefined -> ANSi *) inversion Htf; subst; clear Htf.
    destruct (b_sauce b) as [s|]; unfold carried_font.
    + destruct (flags_full (b_ice b) (w_ar s) (w_ls s)) as (F1 & F2 & F3). cbv zeta in *.
      rewrite interpret_ansi. rewrite F1, F2, F3. reflexivity.
    + rewrite interpret_ansi. destruct (b_ice b); reflexivity.
  - (* ASCII *) inversion Htf; subst; clear Htf.
    destruct (b_sauce b) as [s|]; unfold carried_font.
    + destruct (flags_full (b_ice b) (w_ar s) (w_ls s)) as (F1 & F2 & F3). cbv zeta in *.
      rewrite interpret_ascii. rewrite F1, F2, F3. reflexivity.
    + rewrite interpret_ascii. destruct (b_ice b); reflexivity.
  - (* ANSi *) inversion Htf; subst; clear Htf.
    destruct (b_sauce b) as [s|]; unfold carried_font.
    + destruct (flags_full (b_ice b) (w_ar s) (w_ls s)) as (F1 & F2 & F3). cbv zeta in *.
      rewrite interpret_ansi. rewrite F1, F2, F3. reflexivity.
    + rewrite interpret_ansi. destruct (b_ice b); reflexivity.
  - (* ANSiMation *) inversion Htf; subst; clear Htf. unfold carried_font.
    rewrite interpret_ansimation. rewrite flags_ice_only. destruct (b_sauce b); reflexivity.
  - (* PCBoard *) inversion Htf; subst; clear Htf. destruct (b_sauce b); reflexivity.
  - (* Avatar *) inversion Htf; subst; clear Htf. destruct (b_sauce b); reflexivity.
  - (* TundraDraw *) inversion Htf; subst; clear Htf. destruct (b_sauce b); reflexivity.
  - (* Bin *)
    destruct (255 <? Z.quot (b_width b) 2)%Z; [discriminate|]. inversion Htf; subst; clear Htf. unfold carried_font.
    rewrite interpret_bin. rewrite flags_ice_only, bin_width_decode. destruct (b_sauce b); reflexivity.
  - (* XBin *) inversion Htf; subst; clear Htf. destruct (b_sauce b); reflexivity.
Qed.

(* ---- the split of Buffer::from_bytes ------------------------------------------------------------------ *)
Lemma slice_prefix data k : k <= length data -> slice data 0 k = Ok (firstn k data).
Proof.
  intro H. unfold slice. cbn [Nat.leb andb]. apply Nat.leb_le in H. rewrite H.
  now rewrite Nat.sub_0_r.
Qed.

Theorem split_exact_proof dp content ft b name d date :
  wf b -> b_font b = Some name -> length d = 8 -> dp d = Some date ->
  (ft = FtBin -> (Z.quot (b_width b) 2 <= 255)%Z) ->
  exists tail, write ft b d content = Ok (content ++ tail) /\
               split dp (content ++ tail) = Ok (content, Some (carried ft b name date)).
Proof.
  intros Hwf Hf Hd Hdp Hbin.
  destruct (extract_write_proof dp content ft b name d date Hwf Hf Hd Hdp Hbin) as (tail & Hw & Hx & Hl).
  exists tail. split; [exact Hw|]. unfold split. rewrite Hx, Hl, app_length.
  erewrite bind_ok; [|apply usub_ok; lia].
  replace (length content + length tail - length tail) with (length content) by lia.
  erewrite bind_ok; [|apply slice_prefix; rewrite app_length; lia].
  now rewrite firstn_app_exact.
Qed.

(* ---- totality: no input makes extract (or the split) panic ----------------------------------------------- *)
Definition no_panic {A} (r : res A) : Prop := match r with Panic _ => False | _ => True end.

Lemma slice_ok data a b : a <= b -> b <= length data -> exists X, slice data a b = Ok X.
Proof.
  intros H1 H2. unfold slice. apply Nat.leb_le in H1. apply Nat.leb_le in H2. rewrite H1, H2. eexists; reflexivity.
Qed.
Lemma slice_from_ok data a : a <= length data -> slice_from data a = Ok (skipn a data).
Proof. intro H. unfold slice_from. apply Nat.leb_le in H. now rewrite H. Qed.
Lemma idx_ok data o : o < length data -> exists x, idx data o = Ok x.
Proof.
  intro H. unfold idx. destruct (nth_error data o) eqn:E; [eexists; reflexivity|].
  apply nth_error_None in E. lia.
Qed.

Lemma read_comments_ok k : forall o data acc, o + COMMENT_LEN * k <= length data ->
  exists cs, read_comments k o data acc = Ok cs.
Proof.
  induction k as [|k IH]; intros o data acc H; cbn [read_comments]; [eexists; reflexivity|].
  rewrite slice_from_ok by lia. cbn [bind].
  destruct (ss_read_ok COMMENT_LEN COMMENT_PAD (skipn o data)) as (s & Hs & _); [rewrite skipn_length; lia|].
  rewrite Hs. cbn [bind]. apply IH. lia.
Qed.

Theorem extract_total_proof dp data : no_panic (extract dp data).
Proof.
  unfold extract. destruct (Nat.ltb_spec (length data) SAUCE_LEN) as [Hlt|Hge]; [exact I|].
  remember (length data) as n eqn:Hn.
  rewrite usub_ok by exact Hge. cbn [bind]. remember (n - SAUCE_LEN) as o0 eqn:Ho.
  unfold_consts. assert (Hno : n = o0 + 128) by lia.
  destruct (slice_ok data o0 (o0 + 5)) as (id & ->); [lia|lia|]. cbn [bind].
  destruct (negb (list_eqb SAUCE_ID id)); [exact I|].
  destruct (slice_ok data (o0 + 5) (o0 + 5 + 2)) as (ver & ->); [lia|lia|]. cbn [bind].
  destruct (negb (list_eqb SAUCE_VERSION ver)); [exact I|].
  rewrite slice_from_ok by lia. cbn [bind].
  destruct (ss_read_ok 35 32%N (skipn (o0 + 7) data)) as (title & -> & _); [rewrite skipn_length; lia|]. cbn [bind].
  rewrite slice_from_ok by lia. cbn [bind].
  destruct (ss_read_ok 20 32%N (skipn (o0 + 7 + 35) data)) as (author & -> & _); [rewrite skipn_length; lia|]. cbn [bind].
  rewrite slice_from_ok by lia. cbn [bind].
  destruct (ss_read_ok 20 32%N (skipn (o0 + 7 + 35 + 20) data)) as (group & -> & _); [rewrite skipn_length; lia|]. cbn [bind].
  destruct (slice_ok data (o0 + 7 + 35 + 20 + 20) (o0 + 7 + 35 + 20 + 20 + 8)) as (date & ->); [lia|lia|]. cbn [bind].
  destruct (dp date) as [dt_parsed|]; [|exact I].
  destruct (idx_ok data (o0 + 7 + 35 + 20 + 20 + 8 + 4)) as (b_dt & ->); [lia|]. cbn [bind].
  destruct (idx_ok data (o0 + 7 + 35 + 20 + 20 + 8 + 4 + 1)) as (b_ft & ->); [lia|]. cbn [bind].
  destruct (idx_ok data (o0 + 7 + 35 + 20 + 20 + 8 + 4 + 2)) as (i1l & ->); [lia|]. cbn [bind].
  destruct (idx_ok data (o0 + 7 + 35 + 20 + 20 + 8 + 4 + 3)) as (i1h & ->); [lia|]. cbn [bind].
  destruct (idx_ok data (o0 + 7 + 35 + 20 + 20 + 8 + 4 + 4)) as (i2l & ->); [lia|]. cbn [bind].
  destruct (idx_ok data (o0 + 7 + 35 + 20 + 20 + 8 + 4 + 5)) as (i2h & ->); [lia|]. cbn [bind].
  destruct (idx_ok data (o0 + 7 + 35 + 20 + 20 + 8 + 4 + 10)) as (b_nc & ->); [lia|]. cbn [bind].
  destruct (idx_ok data (o0 + 7 + 35 + 20 + 20 + 8 + 4 + 11)) as (b_fl & ->); [lia|]. cbn [bind].
  rewrite slice_from_ok by lia. cbn [bind].
  destruct (ss_read_ok 22 0%N (skipn (o0 + 7 + 35 + 20 + 20 + 8 + 4 + 12) data)) as (tinfos & -> & _); [rewrite skipn_length; lia|].
  cbn [bind].
  replace (n =? o0 + 7 + 35 + 20 + 20 + 8 + 4 + 12 + 22) with true by (symmetry; apply Nat.eqb_eq; lia).
  cbn [negb].
  destruct (interpret _ _ _ _ _ _) as [[[[[[w h] ftype] ice] ls] ar] font].
  set (nc := N.to_nat b_nc).
  destruct (Nat.ltb_spec 0 nc) as [Hnc|Hnc].
  - cbn [bind].
    destruct (Nat.ltb_spec o0 (nc * 64 + 5)) as [Hshort|Hroom]; [exact I|].
    rewrite usub_ok by lia. cbn [bind]. rewrite usub_ok by lia. cbn [bind].
    destruct (slice_ok data (o0 - nc * 64 - 5) (o0 - nc * 64 - 5 + 5)) as (cid & ->); [lia|lia|]. cbn [bind].
    destruct (negb (list_eqb SAUCE_COMMENT_ID cid)); [exact I|].
    destruct (read_comments_ok nc (o0 - nc * 64 - 5 + 5) data []) as (cs & ->); [unfold_consts; lia|]. cbn [bind].
    rewrite usub_ok by lia. exact I.
  - cbn [bind]. rewrite usub_ok by lia. exact I.
Qed.

Lemma extract_header_len_le dp data m : extract dp data = Ok (Some m) -> s_header_len m <= length data.
Proof.
  unfold extract. destruct (Nat.ltb_spec (length data) SAUCE_LEN) as [Hlt|Hge]; [discriminate|].
  remember (length data) as n eqn:Hn.
  rewrite usub_ok by exact Hge. cbn [bind].
  repeat (match goal with
          | |- bind (usub ?a ?b) _ = _ -> _ => unfold usub at 1; destruct (Nat.leb_spec b a); cbn [bind]; try discriminate
          | |- bind ?r _ = _ -> _ => destruct r; cbn [bind]; try discriminate
          | |- (if ?c then _ else _) = _ -> _ => destruct c; try discriminate
          | |- match ?x with _ => _ end = _ -> _ => destruct x; try discriminate
          end).
  all: intro HH; inversion HH; subst; cbn [s_header_len]; lia.
Qed.

Theorem split_total_proof dp data : no_panic (split dp data).
Proof.
  unfold split. pose proof (extract_total_proof dp data) as Hx.
  destruct (extract dp data) as [[m|]|e|s] eqn:E; try contradiction.
  - apply extract_header_len_le in E. rewrite usub_ok by exact E. cbn [bind].
    rewrite slice_prefix by lia. exact I.
  - rewrite slice_prefix by lia. exact I.
  - rewrite slice_prefix by lia. exact I.
Qed.

(* whatever the file: the loader gets a prefix, and what is cut off is exactly header_len bytes *)
Theorem split_is_prefix_proof dp data c m : split dp data = Ok (c, m) ->
  exists cut, data = c ++ cut /\
              match m with Some s => length cut = s_header_len s /\ extract dp data = Ok (Some s)
                         | None => cut = [] end.
Proof.
  unfold split. destruct (extract dp data) as [[s|]|e|p] eqn:E; try discriminate.
  - pose proof (extract_header_len_le _ _ _ E) as Hle. rewrite usub_ok by exact Hle. cbn [bind].
    rewrite slice_prefix by lia. cbn [bind]. intro H. inversion H; subst.
    exists (skipn (length data - s_header_len s) data). split; [now rewrite firstn_skipn|].
    split; [rewrite skipn_length; lia|reflexivity].
  - rewrite slice_prefix by lia. cbn [bind]. intro H. inversion H; subst. exists []. now rewrite firstn_all, app_nil_r.
  - rewrite slice_prefix by lia. cbn [bind]. intro H. inversion H; subst. exists []. now rewrite firstn_all, app_nil_r.
Qed.
