(* Lemmas about the IGS line drawing (Model/IgsLine.v).  draw_line clips the line to the screen (clip_line: four edge cuts in
   i128, no overflow, no division by zero, both end points on the screen afterwards) and runs its Bresenham loop over the clipped
   line: for ALL i32 arguments it returns, after at most width + height - 1 iterations — work bounded by the CANVAS.
   The loop itself (dl_loop, dl_body) ends at (x1, y1) after at least max(dx, dy) + 1 and at most dx + dy + 1 iterations (the
   model's fuel is never exhausted); that is also the statement about draw_line BEFORE the fix ([igs_draw_line_unclipped]):
   work proportional to the coordinates, LINE_STYLE[6] out of range. *)
From Coq Require Import NArith ZArith List Bool Lia Arith.
From IE Require Import Gen.IgsGen Model.RipTok Model.BgiKernel Model.IgsTok Model.IgsKernel Model.IgsLine
                       Proofs.RipTokProofs Proofs.BgiProofs Proofs.IgsTokProofs Proofs.IgsKernelProofs.
Import ListNotations.
Local Open Scope Z_scope.

Definition DLB : Z := 268435456.   (* 2^28 *)

Lemma chk_cases z : (chk z = Ok z /\ I32_MIN <= z <= I32_MAX) \/ (chk z = Panic SITE_I32 /\ ~ (I32_MIN <= z <= I32_MAX)).
Proof.
  unfold chk. destruct (in_i32 z) eqn:E; [left; split; [reflexivity|apply in_i32_iff; exact E]|right; split; [reflexivity|]].
  intros H. apply in_i32_iff in H. congruence.
Qed.

(* the on-demand fuel lasts at least n iterations *)
Fixpoint fuel_ge (f : fuel) (n : nat) : Prop :=
  match n with O => True | S n' => match f with FMore k => fuel_ge (k tt) n' | FDone => False end end.

Lemma fuel_of_pos_ge p : forall rest n, fuel_ge (rest tt) n -> fuel_ge (fuel_of_pos p rest) (Pos.to_nat p + n).
Proof.
  induction p as [q IH|q IH|]; intros rest n H; cbn [fuel_of_pos].
  - rewrite Pos2Nat.inj_xI. replace (S (2 * Pos.to_nat q) + n)%nat with (S (Pos.to_nat q + (Pos.to_nat q + n)))%nat by lia.
    cbn [fuel_ge]. apply IH. apply IH. exact H.
  - rewrite Pos2Nat.inj_xO. replace (2 * Pos.to_nat q + n)%nat with (Pos.to_nat q + (Pos.to_nat q + n))%nat by lia.
    apply IH. apply IH. exact H.
  - change (Pos.to_nat 1) with 1%nat. cbn [Nat.add fuel_ge]. exact H.
Qed.

Lemma fuel_of_z_ge z : 0 < z -> fuel_ge (fuel_of_z z) (Z.to_nat z).
Proof.
  intros H. destruct z as [|p|p]; try lia. cbn [fuel_of_z]. rewrite Z2Nat.inj_pos.
  replace (Pos.to_nat p) with (Pos.to_nat p + 0)%nat by lia. apply fuel_of_pos_ge. exact I.
Qed.

(* what a draw_line run may end in: a canvas of the same size and the iteration count, or an i32 overflow that needs large values *)
Definition DlPost (e0 : iexec) (small : Prop) (lo hi : Z) (r : res (iexec * Z)) : Prop :=
  match r with
  | Ok (e', n) => SameE e0 e' /\ lo <= n <= hi
  | Panic p => p = SITE_I32 /\ ~ small
  end.

Ltac chk_step Sm :=
  match goal with
  | |- context [chk ?z] =>
    destruct (chk_cases z) as [[-> ?] | [-> ?NR]]; cbn [bind];
    [|split; [reflexivity|intros Sm; apply NR; unfold I32_MIN, I32_MAX, DLB in *; lia]]
  end.

Lemma dl_loop_post e0 color x0 y0 x1 y1 dx dy sx sy :
  InvE e0 -> (color < 16)%N -> 0 <= dx -> 0 <= dy -> (sx = 1 \/ sx = -1) -> (sy = 1 \/ sy = -1) ->
  x1 = x0 + sx * dx -> y1 = y0 + sy * dy ->
  forall n fl e x y err mask steps a b, fuel_ge fl n ->
  SameE e0 e -> 0 <= a <= dx -> 0 <= b <= dy -> x = x0 + sx * a -> y = y0 + sy * b ->
  err = dx - dy - a * dy + b * dx -> - 2 * dy <= err <= 2 * dx ->
  (dx - a) + (dy - b) + 1 <= Z.of_nat n ->
  DlPost e0 (dx <= DLB /\ dy <= DLB /\ Z.abs x0 <= DLB /\ Z.abs y0 <= DLB /\ Z.abs x1 <= DLB /\ Z.abs y1 <= DLB)
         (steps + Z.max (dx - a) (dy - b) + 1) (steps + (dx - a) + (dy - b) + 1)
         (dl_loop fl e x y x1 y1 dx dy sx sy err mask color steps).
Proof.
  intros I0 HC Hdx Hdy Hsx Hsy EX1 EY1.
  induction n as [|n IH]; intros fl e x y err mask steps a b FG SE Ha Hb EX EY EE BE HF.
  - simpl in HF. lia.
  - destruct fl as [|k]; [contradiction FG|]. cbn [fuel_ge] in FG. cbn [dl_loop].
    assert (exists e1, (if Z.odd mask then igs_set_pixel e x y color else Ok e) = Ok e1 /\ SameE e0 e1) as (e1 & E1 & SE1).
    { destruct (Z.odd mask); [|eauto].
      destruct (igs_set_pixel_ok e x y color (SameE_inv _ _ I0 SE) HC) as (scr & ES & LS & PS). rewrite ES.
      destruct SE as (scr0 & -> & L0 & S0). exists (e_upd_screen e0 scr). split; [reflexivity|]. exists scr. simpl in LS. split; [reflexivity|split; [lia|exact PS]]. }
    rewrite E1. cbn [bind].
    assert (DONE : (x =? x1) && (y =? y1) = true <-> a = dx /\ b = dy).
    { rewrite andb_true_iff, !Z.eqb_eq. subst x y x1 y1. destruct Hsx as [-> | ->]; destruct Hsy as [-> | ->]; lia. }
    destruct ((x =? x1) && (y =? y1)) eqn:ED.
    + destruct (proj1 DONE eq_refl) as [-> ->]. cbn [DlPost]. split; [exact SE1|lia].
    + assert (ND : ~ (a = dx /\ b = dy)) by (intros H; apply DONE in H; discriminate H).
      (* the error term keeps x and y from moving past the end point *)
      assert (NX : a = dx -> ~ (- dy < 2 * err)).
      { intros -> H. assert (b < dy) by lia. pose proof (Z.mul_nonneg_nonneg dx (dy - 1 - b) Hdx ltac:(lia)). lia. }
      assert (NY : b = dy -> ~ (2 * err < dx)).
      { intros -> H. assert (a < dx) by lia. pose proof (Z.mul_nonneg_nonneg dy (dx - 1 - a) Hdy ltac:(lia)). lia. }
      chk_step Sm. chk_step Sm.
      destruct (- dy <? 2 * err) eqn:EXM; [apply Z.ltb_lt in EXM|apply Z.ltb_ge in EXM].
      * (* x moves *)
        assert (a < dx) by (destruct (Z.eq_dec a dx) as [Q|Q]; [exfalso; apply (NX Q); exact EXM|lia]).
        chk_step Sm.
        match goal with |- context [chk ?z] => destruct (chk_cases z) as [[-> ?] | [-> ?NR]]; cbn [bind];
          [|split; [reflexivity|intros Sm; apply NR; subst x x1; unfold I32_MIN, I32_MAX, DLB in *; destruct Hsx as [-> | ->]; lia]] end.
        destruct (2 * err <? dx) eqn:EYM; [apply Z.ltb_lt in EYM|apply Z.ltb_ge in EYM].
        -- assert (b < dy) by (destruct (Z.eq_dec b dy) as [Q|Q]; [exfalso; apply (NY Q); exact EYM|lia]).
           chk_step Sm.
           match goal with |- context [chk ?z] => destruct (chk_cases z) as [[-> ?] | [-> ?NR]]; cbn [bind];
             [|split; [reflexivity|intros Sm; apply NR; subst y y1; unfold I32_MIN, I32_MAX, DLB in *; destruct Hsy as [-> | ->]; lia]] end.
           pose proof (IH (k tt) e1 (x + sx) (y + sy) (err - dy + dx) (rotl16 mask) (steps + 1) (a + 1) (b + 1) FG SE1 ltac:(lia) ltac:(lia)
                         ltac:(subst x; lia) ltac:(subst y; lia) ltac:(subst err; lia) ltac:(lia) ltac:(lia)) as Q.
           destruct (dl_loop (k tt) e1 (x + sx) (y + sy) x1 y1 dx dy sx sy (err - dy + dx) (rotl16 mask) color (steps + 1)) as [[e' n']|p];
             cbn [DlPost] in *; [destruct Q as [Q1 Q2]; split; [exact Q1|lia]|exact Q].
        -- cbn [bind].
           pose proof (IH (k tt) e1 (x + sx) y (err - dy) (rotl16 mask) (steps + 1) (a + 1) b FG SE1 ltac:(lia) ltac:(lia)
                         ltac:(subst x; lia) ltac:(subst y; lia) ltac:(subst err; lia) ltac:(lia) ltac:(lia)) as Q.
           destruct (dl_loop (k tt) e1 (x + sx) y x1 y1 dx dy sx sy (err - dy) (rotl16 mask) color (steps + 1)) as [[e' n']|p];
             cbn [DlPost] in *; [destruct Q as [Q1 Q2]; split; [exact Q1|lia]|exact Q].
      * (* x stays: then y must move *)
        cbn [bind].
        destruct (2 * err <? dx) eqn:EYM; [apply Z.ltb_lt in EYM|apply Z.ltb_ge in EYM].
        -- assert (b < dy) by (destruct (Z.eq_dec b dy) as [Q|Q]; [exfalso; apply (NY Q); exact EYM|lia]).
           chk_step Sm.
           match goal with |- context [chk ?z] => destruct (chk_cases z) as [[-> ?] | [-> ?NR]]; cbn [bind];
             [|split; [reflexivity|intros Sm; apply NR; subst y y1; unfold I32_MIN, I32_MAX, DLB in *; destruct Hsy as [-> | ->]; lia]] end.
           pose proof (IH (k tt) e1 x (y + sy) (err + dx) (rotl16 mask) (steps + 1) a (b + 1) FG SE1 ltac:(lia) ltac:(lia)
                         ltac:(subst x; lia) ltac:(subst y; lia) ltac:(subst err; lia) ltac:(lia) ltac:(lia)) as Q.
           destruct (dl_loop (k tt) e1 x (y + sy) x1 y1 dx dy sx sy (err + dx) (rotl16 mask) color (steps + 1)) as [[e' n']|p];
             cbn [DlPost] in *; [destruct Q as [Q1 Q2]; split; [exact Q1|lia]|exact Q].
        -- exfalso. apply ND. lia.
Qed.

Lemma line_style_shape : length LINE_STYLE = 6%nat.
Proof. reflexivity. Qed.

Definition DLH : Z := 134217728.   (* 2^27: end points this close to the origin keep dx, dy <= 2^28 and 2 * err inside i32 *)
Definition DlSmall (x0 y0 x1 y1 : Z) : Prop := Z.abs x0 <= DLH /\ Z.abs y0 <= DLH /\ Z.abs x1 <= DLH /\ Z.abs y1 <= DLH.

(* the Bresenham part, ALL arguments *)
Definition BodyPost (e : iexec) (x0 y0 x1 y1 : Z) (r : res (iexec * Z)) : Prop :=
  match r with
  | Ok (e', n) => SameE e e' /\ Z.max (Z.abs (x0 - x1)) (Z.abs (y0 - y1)) + 1 <= n <= Z.abs (x0 - x1) + Z.abs (y0 - y1) + 1
  | Panic p => p = SITE_I32 /\ ~ DlSmall x0 y0 x1 y1
  end.

Lemma dl_body_post e x0 y0 x1 y1 color lm : InvE e -> (color < 16)%N -> BodyPost e x0 y0 x1 y1 (dl_body e x0 y0 x1 y1 color lm).
Proof.
  intros I HC. unfold dl_body.
  assert (PANIC : forall z, ~ (I32_MIN <= z <= I32_MAX) -> (DlSmall x0 y0 x1 y1 -> I32_MIN <= z <= I32_MAX) ->
                  BodyPost e x0 y0 x1 y1 (Panic SITE_I32)).
  { intros z NR H. cbn [BodyPost]. split; [reflexivity|]. intros Sm. apply NR. apply H. exact Sm. }
  destruct (chk_cases (x0 - x1)) as [[-> R1] | [-> NR]]; cbn [bind]; [|apply (PANIC _ NR); unfold DlSmall, DLH, I32_MIN, I32_MAX; lia].
  destruct (chk_cases (Z.abs (x0 - x1))) as [[-> R2] | [-> NR]]; cbn [bind]; [|apply (PANIC _ NR); unfold DlSmall, DLH, I32_MIN, I32_MAX; lia].
  destruct (chk_cases (y0 - y1)) as [[-> R3] | [-> NR]]; cbn [bind]; [|apply (PANIC _ NR); unfold DlSmall, DLH, I32_MIN, I32_MAX; lia].
  destruct (chk_cases (Z.abs (y0 - y1))) as [[-> R4] | [-> NR]]; cbn [bind]; [|apply (PANIC _ NR); unfold DlSmall, DLH, I32_MIN, I32_MAX; lia].
  set (dx := Z.abs (x0 - x1)) in *. set (dy := Z.abs (y0 - y1)) in *.
  destruct (chk_cases (dx - dy)) as [[-> R5] | [-> NR]]; cbn [bind]; [|apply (PANIC _ NR); unfold DlSmall, DLH, I32_MIN, I32_MAX, dx, dy; lia].
  set (sx := if x0 <? x1 then 1 else -1). set (sy := if y0 <? y1 then 1 else -1).
  assert (Hsx : (sx = 1 \/ sx = -1) /\ x1 = x0 + sx * dx) by (unfold sx, dx; destruct (x0 <? x1) eqn:E; [apply Z.ltb_lt in E|apply Z.ltb_ge in E]; lia).
  assert (Hsy : (sy = 1 \/ sy = -1) /\ y1 = y0 + sy * dy) by (unfold sy, dy; destruct (y0 <? y1) eqn:E; [apply Z.ltb_lt in E|apply Z.ltb_ge in E]; lia).
  pose proof (dl_loop_post e color x0 y0 x1 y1 dx dy sx sy I HC ltac:(unfold dx; lia) ltac:(unfold dy; lia) (proj1 Hsx) (proj1 Hsy) (proj2 Hsx) (proj2 Hsy)
                (Z.to_nat (dx + dy + 1)) (fuel_of_z (dx + dy + 1)) e x0 y0 (dx - dy) lm 0 0 0 (fuel_of_z_ge (dx + dy + 1) ltac:(unfold dx, dy; lia)) (SameE_refl e I) ltac:(unfold dx; lia) ltac:(unfold dy; lia) ltac:(lia) ltac:(lia) ltac:(lia)
                ltac:(unfold dx, dy; lia) ltac:(unfold dx, dy; lia)) as Q.
  destruct (dl_loop (fuel_of_z (dx + dy + 1)) e x0 y0 x1 y1 dx dy sx sy (dx - dy) lm color 0) as [[e' n]|p]; cbn [DlPost BodyPost] in *.
  - destruct Q as [Q1 Q2]. split; [exact Q1|lia].
  - destruct Q as [-> NS]. split; [reflexivity|]. intros (S1 & S2 & S3 & S4). apply NS. unfold dx, dy, DLB, DLH in *. repeat split; lia.
Qed.

(* draw_line BEFORE the fix, ALL arguments *)
Definition DrawPost (e : iexec) (x0 y0 x1 y1 mask : Z) (r : res (iexec * Z)) : Prop :=
  match r with
  | Ok (e', n) => SameE e e' /\ Z.max (Z.abs (x0 - x1)) (Z.abs (y0 - y1)) + 1 <= n <= Z.abs (x0 - x1) + Z.abs (y0 - y1) + 1
  | Panic p => (p = SITE_IGS_LINESTYLE /\ ~ (0 <= mask <= 5)) \/ (p = SITE_I32 /\ ~ DlSmall x0 y0 x1 y1)
  end.

Lemma igs_draw_line_unclipped_post e x0 y0 x1 y1 color mask : InvE e -> (color < 16)%N ->
  DrawPost e x0 y0 x1 y1 mask (igs_draw_line_unclipped e x0 y0 x1 y1 color mask).
Proof.
  intros I HC. unfold igs_draw_line_unclipped.
  destruct (idx SITE_IGS_LINESTYLE LINE_STYLE mask) as [lm|p] eqn:EI; cbn [bind].
  2:{ cbn [DrawPost]. left. unfold idx in EI.
      destruct (mask <? 0) eqn:E0; [inversion EI; split; [reflexivity|apply Z.ltb_lt in E0; lia]|].
      destruct (nth_error LINE_STYLE (Z.to_nat mask)) eqn:EN; [discriminate|]. inversion EI. split; [reflexivity|].
      apply nth_error_None in EN. rewrite line_style_shape in EN. apply Z.ltb_ge in E0. lia. }
  pose proof (dl_body_post e x0 y0 x1 y1 color lm I HC) as Q.
  destruct (dl_body e x0 y0 x1 y1 color lm) as [[e' n]|p]; cbn [BodyPost DrawPost] in *; [exact Q|right; exact Q].
Qed.

(* ---------- clip_line ---------- *)
Definition between (a b v : Z) : Prop := Z.min a b <= v <= Z.max a b.

Lemma chkw_ok z : I128_MIN <= z <= I128_MAX -> chkw z = Ok z.
Proof.
  intros H. unfold chkw. replace ((I128_MIN <=? z) && (z <=? I128_MAX)) with true; [reflexivity|].
  symmetry. apply andb_true_iff. split; apply Z.leb_le; lia.
Qed.

(* a * n / d (truncated) lies between 0 and a when 0 < n <= d *)
Lemma quot_between a n d : 0 < n <= d -> (0 <= a -> 0 <= Z.quot (a * n) d <= a) /\ (a <= 0 -> a <= Z.quot (a * n) d <= 0).
Proof.
  intros H. pose proof (Z.quot_rem' (a * n) d) as E. split; intros Ha.
  - pose proof (Z.rem_bound_pos (a * n) d ltac:(nia) ltac:(lia)) as R. nia.
  - assert (N0 : a * n <= 0) by nia. pose proof (Z.rem_bound_pos_neg (a * n) d ltac:(lia) N0) as R.
    set (q := Z.quot (a * n) d) in *. set (r := Z.rem (a * n) d) in *.
    assert (a * n >= a * d) by nia.
    split; nia.
Qed.

(* cut: only called with the first end point beyond the edge and the second one not beyond it *)
Lemma cut_ok u0 v0 u1 v1 bound : InI32 u0 -> InI32 v0 -> InI32 u1 -> InI32 v1 -> InI32 bound ->
  (u0 < bound <= u1 \/ u1 <= bound < u0) -> exists v, cut u0 v0 u1 v1 bound = Ok (bound, v) /\ between v0 v1 v.
Proof.
  unfold InI32, I32_MIN, I32_MAX. intros R1 R2 R3 R4 R5 OR. unfold cut.
  rewrite (chkw_ok (v1 - v0)) by (unfold I128_MIN, I128_MAX; lia). cbn [bind].
  rewrite (chkw_ok (bound - u0)) by (unfold I128_MIN, I128_MAX; lia). cbn [bind].
  rewrite (chkw_ok ((v1 - v0) * (bound - u0))) by (unfold I128_MIN, I128_MAX; nia). cbn [bind].
  rewrite (chkw_ok (u1 - u0)) by (unfold I128_MIN, I128_MAX; lia). cbn [bind].
  replace (u1 - u0 =? 0) with false by (symmetry; apply Z.eqb_neq; lia).
  assert (Q : (0 <= v1 - v0 -> 0 <= Z.quot ((v1 - v0) * (bound - u0)) (u1 - u0) <= v1 - v0) /\
              (v1 - v0 <= 0 -> v1 - v0 <= Z.quot ((v1 - v0) * (bound - u0)) (u1 - u0) <= 0)).
  { destruct OR as [OR|OR].
    - apply quot_between. lia.
    - replace ((v1 - v0) * (bound - u0)) with (- ((v1 - v0) * (u0 - bound))) by ring.
      replace (u1 - u0) with (- (u0 - u1)) by ring. rewrite Z.quot_opp_opp by lia. apply quot_between. lia. }
  set (q := Z.quot ((v1 - v0) * (bound - u0)) (u1 - u0)) in *.
  assert (B : Z.min 0 (v1 - v0) <= q <= Z.max 0 (v1 - v0)) by (destruct Q as [Q1 Q2]; destruct (Z.le_ge_cases 0 (v1 - v0)); [specialize (Q1 ltac:(lia))|specialize (Q2 ltac:(lia))]; lia).
  rewrite (chkw_ok q) by (unfold I128_MIN, I128_MAX; lia). cbn [bind].
  rewrite (chkw_ok (v0 + q)) by (unfold I128_MIN, I128_MAX; lia). cbn [bind].
  exists (v0 + q). split; [reflexivity|unfold between; lia].
Qed.

Lemma between_i32 a b v : InI32 a -> InI32 b -> between a b v -> InI32 v.
Proof. unfold InI32, between. lia. Qed.

Definition EdgePost (lo : bool) (bound u0 v0 u1 v1 : Z) (r : res (option (Z * Z * Z * Z))) : Prop :=
  match r with
  | Ok None => True
  | Ok (Some (a0, b0, a1, b1)) => out_edge lo bound a0 = false /\ out_edge lo bound a1 = false /\
                                  between u0 u1 a0 /\ between u0 u1 a1 /\ between v0 v1 b0 /\ between v0 v1 b1
  | Panic _ => False
  end.

Lemma clip_edge_post lo bound u0 v0 u1 v1 : InI32 u0 -> InI32 v0 -> InI32 u1 -> InI32 v1 -> InI32 bound ->
  EdgePost lo bound u0 v0 u1 v1 (clip_edge lo bound u0 v0 u1 v1).
Proof.
  intros R1 R2 R3 R4 R5. unfold clip_edge.
  destruct (out_edge lo bound u0) eqn:O0; destruct (out_edge lo bound u1) eqn:O1; cbn [andb EdgePost]; [exact I| | |].
  - assert (OR : u0 < bound <= u1 \/ u1 <= bound < u0).
    { unfold out_edge in *. destruct lo; [apply Z.ltb_lt in O0; apply Z.ltb_ge in O1|apply Z.ltb_lt in O0; apply Z.ltb_ge in O1]; lia. }
    destruct (cut_ok u0 v0 u1 v1 bound R1 R2 R3 R4 R5 OR) as (v & E & B). rewrite E. cbn [bind fst snd EdgePost].
    split; [unfold out_edge; destruct lo; apply Z.ltb_irrefl|split; [exact O1|]].
    unfold between in *. repeat split; lia.
  - assert (OR : u1 < bound <= u0 \/ u0 <= bound < u1).
    { unfold out_edge in *. destruct lo; [apply Z.ltb_lt in O1; apply Z.ltb_ge in O0|apply Z.ltb_lt in O1; apply Z.ltb_ge in O0]; lia. }
    destruct (cut_ok u1 v1 u0 v0 bound R3 R4 R1 R2 R5 OR) as (v & E & B). rewrite E. cbn [bind fst snd EdgePost].
    split; [exact O0|split; [unfold out_edge; destruct lo; apply Z.ltb_irrefl|]].
    unfold between in *. repeat split; lia.
  - split; [exact O0|split; [exact O1|]]. unfold between. repeat split; lia.
Qed.

Lemma as_i32_id z : InI32 z -> as_i32 z = z.
Proof. unfold InI32, I32_MIN, I32_MAX, as_i32. intros H. rewrite Z.mod_small by lia. lia. Qed.

(* clip_line, ALL i32 arguments: no panic; the end points it returns are on the screen *)
Definition ClipPost (x_max y_max : Z) (r : res (option (Z * Z * Z * Z))) : Prop :=
  match r with
  | Ok None => True
  | Ok (Some (a, b, c, d)) => 0 <= a <= x_max /\ 0 <= b <= y_max /\ 0 <= c <= x_max /\ 0 <= d <= y_max
  | Panic _ => False
  end.

Lemma clip_line_post x0 y0 x1 y1 x_max y_max : InI32 x0 -> InI32 y0 -> InI32 x1 -> InI32 y1 -> 0 <= x_max <= I32_MAX -> 0 <= y_max <= I32_MAX ->
  ClipPost x_max y_max (clip_line x0 y0 x1 y1 x_max y_max).
Proof.
  intros R1 R2 R3 R4 RX RY. unfold clip_line.
  assert (Z0 : InI32 0) by (unfold InI32, I32_MIN, I32_MAX; lia).
  assert (ZX : InI32 x_max) by (unfold InI32, I32_MIN, I32_MAX in *; lia).
  assert (ZY : InI32 y_max) by (unfold InI32, I32_MIN, I32_MAX in *; lia).
  pose proof (clip_edge_post true 0 x0 y0 x1 y1 R1 R2 R3 R4 Z0) as P1.
  destruct (clip_edge true 0 x0 y0 x1 y1) as [[[[[a0 b0] a1] b1]|]|]; cbn [bind EdgePost ClipPost] in *; [|exact I|contradiction].
  destruct P1 as (O10 & O11 & B1 & B2 & B3 & B4).
  pose proof (clip_edge_post false x_max a0 b0 a1 b1 (between_i32 _ _ _ R1 R3 B1) (between_i32 _ _ _ R2 R4 B3) (between_i32 _ _ _ R1 R3 B2) (between_i32 _ _ _ R2 R4 B4) ZX) as P2.
  destruct (clip_edge false x_max a0 b0 a1 b1) as [[[[[c0 d0] c1] d1]|]|]; cbn [bind EdgePost ClipPost] in *; [|exact I|contradiction].
  destruct P2 as (O20 & O21 & C1 & C2 & C3 & C4).
  pose proof (between_i32 _ _ _ R1 R3 B1) as RA0. pose proof (between_i32 _ _ _ R1 R3 B2) as RA1.
  pose proof (between_i32 _ _ _ R2 R4 B3) as RB0. pose proof (between_i32 _ _ _ R2 R4 B4) as RB1.
  pose proof (between_i32 _ _ _ RA0 RA1 C1) as RC0. pose proof (between_i32 _ _ _ RA0 RA1 C2) as RC1.
  pose proof (between_i32 _ _ _ RB0 RB1 C3) as RD0. pose proof (between_i32 _ _ _ RB0 RB1 C4) as RD1.
  pose proof (clip_edge_post true 0 d0 c0 d1 c1 RD0 RC0 RD1 RC1 Z0) as P3.
  destruct (clip_edge true 0 d0 c0 d1 c1) as [[[[[f0 e0] f1] e1]|]|]; cbn [bind EdgePost ClipPost] in *; [|exact I|contradiction].
  destruct P3 as (O30 & O31 & D1 & D2 & D3 & D4).
  pose proof (clip_edge_post false y_max f0 e0 f1 e1 (between_i32 _ _ _ RD0 RD1 D1) (between_i32 _ _ _ RC0 RC1 D3) (between_i32 _ _ _ RD0 RD1 D2) (between_i32 _ _ _ RC0 RC1 D4) ZY) as P4.
  destruct (clip_edge false y_max f0 e0 f1 e1) as [[[[[h0 g0] h1] g1]|]|]; cbn [bind EdgePost ClipPost] in *; [|exact I|contradiction].
  destruct P4 as (O40 & O41 & E1 & E2 & E3 & E4).
  unfold out_edge in *.
  apply Z.ltb_ge in O10, O11, O20, O21, O30, O31, O40, O41.
  unfold between in *.
  assert (G : (0 <= g0 <= x_max /\ 0 <= g1 <= x_max) /\ (0 <= h0 <= y_max /\ 0 <= h1 <= y_max)) by lia.
  destruct G as [[G0 G1] [H0 H1]].
  rewrite !as_i32_id by (unfold InI32, I32_MIN, I32_MAX in *; lia). auto.
Qed.

(* draw_line, ALL i32 arguments: it returns; the canvas keeps its size; the loop runs at most width + height - 1 times *)
Lemma igs_draw_line_post e x0 y0 x1 y1 color mask : InvE e -> (color < 16)%N -> InI32 x0 -> InI32 y0 -> InI32 x1 -> InI32 y1 ->
  exists e' n, igs_draw_line e x0 y0 x1 y1 color mask = Ok (e', n) /\ SameE e e' /\ 0 <= n <= e_w e + e_h e - 1.
Proof.
  intros I HC R1 R2 R3 R4. pose proof (wh_bounds e I) as [BW BH]. unfold igs_draw_line. cbv zeta.
  rewrite (chk_ok (e_w e - 1)) by (unfold I32_MIN, I32_MAX; lia). cbn [bind].
  rewrite (chk_ok (e_h e - 1)) by (unfold I32_MIN, I32_MAX; lia). cbn [bind].
  pose proof (clip_line_post x0 y0 x1 y1 (e_w e - 1) (e_h e - 1) R1 R2 R3 R4 ltac:(unfold I32_MAX; lia) ltac:(unfold I32_MAX; lia)) as C.
  destruct (clip_line x0 y0 x1 y1 (e_w e - 1) (e_h e - 1)) as [[[[[a b] c] d]|]|]; cbn [bind ClipPost] in *; [| |contradiction].
  - pose proof (dl_body_post e a b c d color (line_mask_of mask) I HC) as Q.
    destruct (dl_body e a b c d color (line_mask_of mask)) as [[e' n]|p]; cbn [BodyPost] in Q.
    + exists e', n. split; [reflexivity|]. destruct Q as [Q1 Q2]. split; [exact Q1|lia].
    + exfalso. destruct Q as [_ NS]. apply NS. unfold DlSmall, DLH. lia.
  - exists e, 0. split; [reflexivity|split; [apply SameE_refl; exact I|lia]].
Qed.

(* ---------- the executor with line attributes ---------- *)
Definition InvE2 (s : iexec2) : Prop :=
  InvE (x_e s) /\ (e_line_color (x_e s) < 16)%N /\ 0 <= x_line_type s <= 6 /\ InI32 (x_cur_x s) /\ InI32 (x_cur_y s).

Lemma iexec2_new_inv : InvE2 iexec2_new.
Proof. split; [exact iexec_new_inv|split; [reflexivity|split; [simpl; lia|split; unfold InI32, I32_MIN, I32_MAX; simpl; lia]]]. Qed.

Lemma SameE_line_color e e' : SameE e e' -> e_line_color e' = e_line_color e.
Proof. intros (scr & -> & _). reflexivity. Qed.

(* the kernel commands leave the line colour below 16 *)
Lemma igs_exec_line_color e c ps s : InvE e -> (e_line_color e < 16)%N ->
  match igs_exec e c ps s with XOk e' _ => (e_line_color e' < 16)%N | _ => True end.
Proof.
  intros I LC. unfold igs_exec.
  destruct (c =? 67)%N.
  { destruct (Nat.eqb (length ps) 2); cbn [negb xlift]; [|exact LC].
    destruct (par ps 0) as [p0|]; cbn [bind xlift]; [|exact Logic.I]. destruct (par ps 1) as [p1|]; cbn [bind xlift]; [|exact Logic.I].
    destruct ((0 <=? p1) && (p1 <=? 15)) eqn:ER; cbn [negb xlift]; [|exact LC].
    apply andb_true_iff in ER. destruct ER as [R1 R2]. apply Z.leb_le in R1, R2.
    assert (V : (z_as_u8 p1 < 16)%N) by (unfold z_as_u8; rewrite Z.mod_small by lia; lia).
    destruct (p0 =? 0); [exact LC|]. destruct (p0 =? 1); [exact V|]. destruct (p0 =? 2); [exact LC|]. destruct (p0 =? 3); exact LC. }
  destruct (c =? 90)%N.
  { destruct (Nat.eqb (length ps) 4); cbn [negb xlift]; [|exact LC].
    destruct (par ps 0) as [p0|]; cbn [bind xlift]; [|exact Logic.I]. destruct (par ps 1) as [p1|]; cbn [bind xlift]; [|exact Logic.I].
    destruct (par ps 2) as [p2|]; cbn [bind xlift]; [|exact Logic.I]. destruct (par ps 3) as [p3|]; cbn [bind xlift]; [|exact Logic.I].
    destruct (igs_fill_rect_ok e p0 p1 p2 p3 I) as (e' & E & SE). rewrite E. cbn [bind xlift]. rewrite (SameE_line_color _ _ SE). exact LC. }
  destruct (c =? 65)%N.
  { destruct (Nat.eqb (length ps) 3); cbn [negb xlift]; [|exact LC].
    destruct (par ps 0) as [p0|]; cbn [bind xlift]; [|exact Logic.I]. destruct (par ps 1) as [p1|]; cbn [bind xlift]; [|exact Logic.I].
    destruct (par ps 2) as [p2|]; cbn [bind xlift]; [|exact Logic.I].
    match goal with |- context [bind ?r _] => destruct r as [[pat|]|] end; cbn [bind xlift]; try exact LC; try exact Logic.I.
    destruct (p2 =? 0); [exact LC|]. destruct (p2 =? 1); exact LC. }
  destruct (c =? 115)%N.
  { unfold igs_blank. destruct (chk (e_w e * e_h e)); cbn [bind xlift]; [exact LC|exact Logic.I]. }
  destruct (c =? 82)%N.
  { destruct (Nat.eqb (length ps) 2); cbn [negb xlift]; [|exact LC].
    destruct (par ps 0) as [p0|]; cbn [bind xlift]; [|exact Logic.I]. destruct (par ps 1) as [p1|]; cbn [bind xlift]; [|exact Logic.I].
    destruct ((p0 =? 0) || (p0 =? 1)); cbn [negb xlift]; [|exact LC].
    match goal with |- context [chk ?z] => destruct (chk z) end; cbn [bind xlift]; [|exact Logic.I].
    match goal with |- context [Nat.eqb ?a ?b] => destruct (Nat.eqb a b) end;
      (destruct (p1 =? 0); [exact LC|]; destruct (p1 =? 1); [exact LC|]; destruct (p1 =? 2); exact LC). }
  destruct (c =? 72)%N.
  { destruct (Nat.eqb (length ps) 1); cbn [negb xlift]; [|exact LC]. destruct (par ps 0); cbn [bind xlift]; [exact LC|exact Logic.I]. }
  destruct (c =? 77)%N.
  { destruct (Nat.eqb (length ps) 1); cbn [negb xlift]; [|exact LC]. destruct (par ps 0); cbn [bind xlift]; [exact LC|exact Logic.I]. }
  destruct (c =? 83)%N.
  { destruct (Nat.eqb (length ps) 4); cbn [negb xlift]; [|exact LC].
    destruct (par ps 0) as [p0|]; cbn [bind xlift]; [|exact Logic.I]. destruct (par ps 1) as [p1|]; cbn [bind xlift]; [|exact Logic.I].
    destruct (par ps 2) as [p2|]; cbn [bind xlift]; [|exact Logic.I]. destruct (par ps 3) as [p3|]; cbn [bind xlift]; [|exact Logic.I].
    destruct ((0 <=? p0) && (p0 <=? 15)); cbn [negb xlift]; [|exact LC].
    match goal with |- context [set_nth ?l ?k ?v] => destruct (set_nth l k v) end; cbn [xlift]; [exact LC|exact Logic.I]. }
  destruct (lookup c IGS_ARITY) as [n|]; [destruct (negb (Z.of_nat (length ps) =? n)); [exact LC|exact Logic.I]|exact Logic.I].
Qed.

(* execute_command with the line commands, ALL i32 parameter values: no panic *)
Definition XPost2 (r : xres2) : Prop :=
  match r with
  | XOk2 s' _ => InvE2 s'
  | XPanic2 _ => False
  | XUnmodelled2 => True
  end.

Lemma igs_exec2_ok s c ps str_ : InvE2 s -> Forall InI32 ps -> XPost2 (igs_exec2 s c ps str_).
Proof.
  intros (I & LC & LT & CX & CY) FP. unfold igs_exec2.
  destruct (c =? 76)%N eqn:EL.
  { destruct (Nat.eqb (length ps) 4) eqn:EN; cbn [negb xlift2 XPost2]; [|exact (conj I (conj LC (conj LT (conj CX CY))))]. apply Nat.eqb_eq in EN.
    destruct ps as [|x0 [|y0 [|x1 [|y1 [|]]]]]; try discriminate EN. unfold par. cbn [nth_error bind].
    inversion FP as [|? ? A0 F0]; subst. inversion F0 as [|? ? A1 F1]; subst. inversion F1 as [|? ? A2 F2]; subst. inversion F2 as [|? ? A3 F3]; subst.
    destruct (igs_draw_line_post (x_e s) x0 y0 x1 y1 (e_line_color (x_e s)) (x_line_type s) I LC A0 A1 A2 A3) as (e' & n & E & SE & _).
    rewrite E. cbn [bind xlift2 XPost2 fst].
    split; [eapply SameE_inv; eauto|split; [simpl; rewrite (SameE_line_color _ _ SE); exact LC|split; [exact LT|split; assumption]]]. }
  destruct (c =? 68)%N eqn:ED.
  { destruct (Nat.eqb (length ps) 2) eqn:EN; cbn [negb xlift2 XPost2]; [|exact (conj I (conj LC (conj LT (conj CX CY))))]. apply Nat.eqb_eq in EN.
    destruct ps as [|x1 [|y1 [|]]]; try discriminate EN. unfold par. cbn [nth_error bind].
    inversion FP as [|? ? A0 F0]; subst. inversion F0 as [|? ? A1 F1]; subst.
    destruct (igs_draw_line_post (x_e s) (x_cur_x s) (x_cur_y s) x1 y1 (e_line_color (x_e s)) (x_line_type s) I LC CX CY A0 A1) as (e' & n & E & SE & _).
    rewrite E. cbn [bind xlift2 XPost2 fst].
    split; [eapply SameE_inv; eauto|split; [simpl; rewrite (SameE_line_color _ _ SE); exact LC|split; [exact LT|split; assumption]]]. }
  destruct (c =? 84)%N.
  { destruct (Nat.eqb (length ps) 3) eqn:EN; cbn [negb xlift2 XPost2]; [|exact (conj I (conj LC (conj LT (conj CX CY))))]. apply Nat.eqb_eq in EN.
    destruct ps as [|p0 [|p1 [|p2 [|]]]]; try discriminate EN. unfold par. cbn [nth_error bind].
    destruct (p0 =? 1); [cbn [xlift2 XPost2]; exact (conj I (conj LC (conj LT (conj CX CY))))|].
    destruct (p0 =? 2); [|cbn [xlift2 XPost2]; exact (conj I (conj LC (conj LT (conj CX CY))))].
    destruct ((1 <=? p1) && (p1 <=? 7)) eqn:ER; cbn [xlift2 XPost2]; [|exact (conj I (conj LC (conj LT (conj CX CY))))].
    apply andb_true_iff in ER. destruct ER as [R1 R2]. apply Z.leb_le in R1, R2.
    split; [exact I|split; [exact LC|split; [simpl; lia|split; assumption]]]. }
  pose proof (igs_exec_ok (x_e s) c ps str_ I) as Q. pose proof (igs_exec_line_color (x_e s) c ps str_ I LC) as QL.
  destruct (igs_exec (x_e s) c ps str_) as [e ok|p|]; cbn [XPost XPost2] in *; [|contradiction|exact Logic.I].
  split; [exact Q|split; [exact QL|split; [exact LT|split; assumption]]].
Qed.

(* the total executor *)
Definition XInv2 (x : xstate2) : Prop :=
  match x with
  | SOkE2 s => InvE2 s
  | SPanicE2 _ => False
  | SUnmodelledE2 => True
  end.

Lemma igs_x2_inv x c ps s : Forall InI32 ps -> XInv2 x -> XInv2 (fst (igs_x2 x c ps s)).
Proof.
  intros FP. destruct x as [e|p|]; intros H; simpl in *; [|exact H|exact I].
  pose proof (igs_exec2_ok e c ps s H FP) as Q. destruct (igs_exec2 e c ps s) as [e' ok|p|]; simpl in *; [exact Q|contradiction|exact I].
Qed.

Definition igs_world_init2 (FS : Type) (fs : FS) : iworld xstate2 FS := {| w_p := ipars_new; w_x := SOkE2 iexec2_new; w_fb := fs |}.

Lemma igs_stream_kernel2_lemma (FS : Type) (fb_print : FS -> N -> FS * bool) (fs : FS) es :
  match igs_run xstate2 igs_x2 FS fb_print (igs_world_init2 FS fs) es with
  | Ok w' => IgsInvN (w_p xstate2 FS w') /\
             match w_x xstate2 FS w' with
             | SOkE2 s => InvE2 s /\ exists px, igs_picture (x_e s) = Ok px /\ Z.of_nat (length px) = 4 * (e_w (x_e s) * e_h (x_e s))
             | SPanicE2 _ => False
             | SUnmodelledE2 => True
             end
  | Panic _ => False
  end.
Proof.
  pose proof (igs_run_post xstate2 igs_x2 FS fb_print es (igs_world_init2 FS fs) ipars_new_invN) as A.
  pose proof (igs_run_Q xstate2 igs_x2 FS fb_print XInv2 igs_x2_inv es (igs_world_init2 FS fs) (proj2 ipars_new_invN) iexec2_new_inv) as B.
  destruct (igs_run xstate2 igs_x2 FS fb_print (igs_world_init2 FS fs) es) as [w'|s]; [|exact A].
  split; [exact A|]. destruct (w_x xstate2 FS w') as [s|p|]; simpl in B; [|exact B|exact I].
  split; [exact B|apply igs_picture_ok; apply B].
Qed.

(* BEFORE the fix — the stall: a line whose end points are D apart cost at least D + 1 loop iterations, on a 320 x 200 canvas *)
Lemma igs_draw_line_unclipped_stall D : 0 <= D <= DLH ->
  exists e' n, igs_draw_line_unclipped iexec_new 0 0 D 0 0%N 0 = Ok (e', n) /\ D + 1 <= n.
Proof.
  intros HD. pose proof (igs_draw_line_unclipped_post iexec_new 0 0 D 0 0%N 0 iexec_new_inv ltac:(reflexivity)) as Q.
  destruct (igs_draw_line_unclipped iexec_new 0 0 D 0 0%N 0) as [[e' n]|p]; cbn [DrawPost] in Q.
  - exists e', n. split; [reflexivity|]. destruct Q as [_ Q]. lia.
  - exfalso. destruct Q as [[_ NM]|[_ NS]]; [apply NM; lia|apply NS; unfold DlSmall, DLH in *; lia].
Qed.
