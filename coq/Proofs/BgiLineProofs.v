(* Lemmas about the line family of the BGI kernel (Model/BgiLine.v).  The run-slice line is proved over an abstract canvas:
   if the plot function returns normally for coordinates within +-RB, keeps an invariant P and raises a measure mu by at most
   one per call, then fill_x / fill_y / line / rectangle / draw_poly / draw_poly_line return normally, keep P, and raise mu by
   at most the stated number of plot calls.  Instances: the real canvas (plot = put_pixel, P = "the same state with a canvas
   of the same length", which keeps InvBgi) and the call counter (cost). *)
From Coq Require Import NArith ZArith List Bool Lia Arith.
From IE Require Import Gen.RipGen Gen.RipLineGen Model.RipTok Model.BgiKernel Model.BgiLine Proofs.RipTokProofs Proofs.BgiProofs.
Import ListNotations.
Local Open Scope Z_scope.

Definition OB : Z := 1073741824.     (* 2^30: the pattern offset stays far inside i32 *)
Definition OBH : Z := 536870912.     (* 2^29 *)

Ltac chk1 := rewrite chk_ok by (unfold I32_MIN, I32_MAX, PMAX, RB, OB, OBH in *; lia); cbn [bind].

Lemma cost_weaken m0 m1 c c' K : m1 <= m0 + c * K -> c <= c' -> 0 <= K -> m1 <= m0 + c' * K.
Proof. intros H1 H2 H3. pose proof (Z.mul_le_mono_nonneg_r c c' K H3 H2). lia. Qed.

Lemma quot2_bounds K : 0 <= K -> 0 <= Z.quot K 2 <= K.
Proof.
  intros H. rewrite Z.quot_div_nonneg by lia. split; [apply Z.div_pos; lia|].
  apply Z.div_le_upper_bound; lia.
Qed.

Lemma pat_at_ok pat off : (0 < length pat)%nat -> I32_MIN <= off -> exists b, pat_at pat off = Ok b.
Proof.
  intros L H. unfold pat_at. destruct (Nat.eqb (length pat) 0) eqn:E; [apply Nat.eqb_eq in E; lia|].
  assert (U : 0 <= as_usize off) by (unfold as_usize; destruct (off <? 0) eqn:E1; [unfold I32_MIN in H|apply Z.ltb_ge in E1]; lia).
  pose proof (Z.rem_bound_pos (as_usize off) (Z.of_nat (length pat)) U ltac:(lia)) as B.
  destruct (idx_ok SITE_LINE_PATTERN pat (Z.rem (as_usize off) (Z.of_nat (length pat))) B) as [b [Eb _]]. eauto.
Qed.

Section CanvasProofs.
  Variable A : Type.
  Variable plot : A -> Z -> Z -> res A.
  Variable P : A -> Prop.
  Variable mu : A -> Z.
  Hypothesis plot_ok : forall a x y, P a -> - RB <= x <= RB -> - RB <= y <= RB ->
    exists a', plot a x y = Ok a' /\ P a' /\ mu a' <= mu a + 1.

  Lemma vrun_ok n : forall a x cy, P a -> - RB <= x <= RB -> - RB <= cy -> cy + Z.of_nat n <= RB + 1 ->
    exists a', vrun plot n a x cy = Ok a' /\ P a' /\ mu a' <= mu a + Z.of_nat n.
  Proof.
    induction n as [|n IH]; intros a x cy Pa HX HL HH.
    - exists a. simpl. repeat split; auto. lia.
    - cbn [vrun]. destruct (plot_ok a x cy Pa HX ltac:(lia)) as (a1 & E & P1 & M1). rewrite E. cbn [bind].
      destruct (IH a1 x (cy + 1) P1 HX ltac:(lia) ltac:(lia)) as (a2 & E2 & P2 & M2).
      exists a2. split; [exact E2|split; [exact P2|lia]].
  Qed.

  Lemma hrun_ok n : forall a cx y, P a -> - RB <= y <= RB -> - RB <= cx -> cx + Z.of_nat n <= RB + 1 ->
    exists a', hrun plot n a cx y = Ok a' /\ P a' /\ mu a' <= mu a + Z.of_nat n.
  Proof.
    induction n as [|n IH]; intros a cx y Pa HY HL HH.
    - exists a. simpl. repeat split; auto. lia.
    - cbn [hrun]. destruct (plot_ok a cx y Pa ltac:(lia) HY) as (a1 & E & P1 & M1). rewrite E. cbn [bind].
      destruct (IH a1 (cx + 1) y P1 HY ltac:(lia) ltac:(lia)) as (a2 & E2 & P2 & M2).
      exists a2. split; [exact E2|split; [exact P2|lia]].
  Qed.

  Lemma fill_x_loop_ok n : forall a pat x sy ny off inc, P a -> (0 < length pat)%nat ->
    - RB <= x -> x + Z.of_nat n <= RB + 1 -> - RB <= sy -> sy + Z.of_nat ny <= RB + 1 -> -1 <= inc <= 1 ->
    - OB <= off - Z.of_nat n -> off + Z.of_nat n <= OB ->
    exists a' off', fill_x_loop plot n a pat x sy ny off inc = Ok (a', off') /\ P a' /\ off' = off + Z.of_nat n * inc /\
                    mu a' <= mu a + Z.of_nat n * Z.of_nat ny.
  Proof.
    induction n as [|n IH]; intros a pat x sy ny off inc Pa LP HX1 HX2 HY1 HY2 HI HO1 HO2.
    - exists a, off. simpl. repeat split; auto; lia.
    - cbn [fill_x_loop].
      destruct (pat_at_ok pat off LP ltac:(unfold I32_MIN, OB in *; lia)) as [b Eb]. rewrite Eb. cbn [bind].
      assert (exists a1, (if b then vrun plot ny a x sy else Ok a) = Ok a1 /\ P a1 /\ mu a1 <= mu a + Z.of_nat ny) as (a1 & E1 & P1 & M1).
      { destruct b; [apply vrun_ok; auto; lia|exists a; repeat split; auto; lia]. }
      rewrite E1. cbn [bind]. chk1.
      destruct (IH a1 pat (x + 1) sy ny (off + inc) inc P1 LP ltac:(lia) ltac:(lia) HY1 HY2 HI ltac:(lia) ltac:(lia))
        as (a2 & off2 & E2 & P2 & O2 & M2).
      exists a2, off2. split; [exact E2|split; [exact P2|split; lia]].
  Qed.

  Lemma fill_y_loop_ok n : forall a pat y sx nx off, P a -> (0 < length pat)%nat ->
    - RB <= y -> y + Z.of_nat n <= RB + 1 -> - RB <= sx -> sx + Z.of_nat nx <= RB + 1 ->
    - OB <= off -> off + Z.of_nat n <= OB ->
    exists a' off', fill_y_loop plot n a pat y sx nx off = Ok (a', off') /\ P a' /\ off' = off + Z.of_nat n /\
                    mu a' <= mu a + Z.of_nat n * Z.of_nat nx.
  Proof.
    induction n as [|n IH]; intros a pat y sx nx off Pa LP HY1 HY2 HX1 HX2 HO1 HO2.
    - exists a, off. simpl. repeat split; auto; lia.
    - cbn [fill_y_loop].
      destruct (pat_at_ok pat off LP ltac:(unfold I32_MIN, OB in *; lia)) as [b Eb]. rewrite Eb. cbn [bind].
      assert (exists a1, (if b then hrun plot nx a sx y else Ok a) = Ok a1 /\ P a1 /\ mu a1 <= mu a + Z.of_nat nx) as (a1 & E1 & P1 & M1).
      { destruct b; [apply hrun_ok; auto; lia|exists a; repeat split; auto; lia]. }
      rewrite E1. cbn [bind]. chk1.
      destruct (IH a1 pat (y + 1) sx nx (off + 1) P1 LP ltac:(lia) ltac:(lia) HX1 HX2 ltac:(lia) ltac:(lia))
        as (a2 & off2 & E2 & P2 & O2 & M2).
      exists a2, off2. split; [exact E2|split; [exact P2|split; lia]].
  Qed.

  Lemma span_of_nat a b : Z.of_nat (span a b) = Z.max 0 (b - a + 1).
  Proof. unfold span. lia. Qed.

  Lemma fill_x_ok vp pat K a y sx count off : P a -> VpOk vp -> (0 < length pat)%nat -> 0 <= K <= PMAX ->
    - RB <= y <= RB -> - RB <= sx <= RB -> - RB <= count <= RB -> - OBH <= off <= OBH ->
    exists a' off', fill_x plot vp pat K a y sx count off = Ok (a', off') /\ P a' /\ off <= off' <= off + 2 * Z.abs count + 2 /\
                    mu a' <= mu a + (Z.abs count + 2) * K.
  Proof.
    intros Pa V LP HK HY HS HC HO. destruct vp as [[[vx vy] vw] vh]. unfold VpOk in V.
    pose proof (quot2_bounds K ltac:(lia)) as HQ.
    assert (C0 : 0 <= (Z.abs count + 2) * K) by (apply Z.mul_nonneg_nonneg; lia).
    unfold fill_x, r_bottom, r_right. set (q := Z.quot K 2) in *.
    repeat chk1.
    assert (exists ex1 off1, (if 0 <? count then Ok (sx + count - 1, off) else Ok (sx + count + 1, off - count)) = Ok (ex1, off1) /\
              (0 < count /\ ex1 = sx + count - 1 /\ off1 = off \/ count <= 0 /\ ex1 = sx + count + 1 /\ off1 = off - count)) as (ex1 & off1 & EE & HE).
    { destruct (0 <? count) eqn:E0; [apply Z.ltb_lt in E0|apply Z.ltb_ge in E0]; eexists; eexists; (split; [reflexivity|lia]). }
    rewrite EE. cbn [bind]. repeat chk1.
    set (start_y := if y - q <? 0 then 0 else y - q).
    assert (HSY : start_y = Z.max 0 (y - q)) by (unfold start_y; destruct (y - q <? 0) eqn:E1; [apply Z.ltb_lt in E1|apply Z.ltb_ge in E1]; lia).
    set (end_y := Z.min (y - q + K - 1) (vy + vh - 1)).
    set (inc := if 0 <=? count then 1 else -1).
    assert (HI : (0 <= count /\ inc = 1) \/ (count < 0 /\ inc = -1)) by (unfold inc; destruct (0 <=? count) eqn:E1; [apply Z.leb_le in E1|apply Z.leb_gt in E1]; lia).
    assert (exists s0 e0, (if ex1 <? sx then (ex1, sx) else (sx, ex1)) = (s0, e0) /\ s0 = Z.min sx ex1 /\ e0 = Z.max sx ex1) as (s0 & e0 & ES & HS0 & HE0).
    { destruct (ex1 <? sx) eqn:E1; [apply Z.ltb_lt in E1|apply Z.ltb_ge in E1]; eexists; eexists; (split; [reflexivity|lia]). }
    rewrite ES.
    destruct (vx + vw <=? s0) eqn:EV; [apply Z.leb_le in EV|apply Z.leb_gt in EV].
    - exists a, off1. split; [reflexivity|split; [exact Pa|split; lia]].
    - set (s1 := if s0 <? 0 then 0 else s0).
      assert (HS1 : s1 = Z.max 0 s0) by (unfold s1; destruct (s0 <? 0) eqn:E1; [apply Z.ltb_lt in E1|apply Z.ltb_ge in E1]; lia).
      set (e1 := Z.min e0 (vx + vw - 1)).
      pose proof (span_of_nat s1 e1) as SN1. pose proof (span_of_nat start_y end_y) as SN2.
      destruct (fill_x_loop_ok (span s1 e1) a pat s1 start_y (span start_y end_y) off1 inc Pa LP) as (a2 & off2 & E2 & P2 & O2 & M2);
        try (unfold RB, PMAX, OB, OBH in *; lia).
      rewrite E2. cbn [bind].
      assert (NX : Z.of_nat (span s1 e1) <= Z.abs count + 2) by lia.
      assert (NY : Z.of_nat (span start_y end_y) <= K) by lia.
      assert (CM : Z.of_nat (span s1 e1) * Z.of_nat (span start_y end_y) <= (Z.abs count + 2) * K) by (apply Z.mul_le_mono_nonneg; lia).
      assert (OO : off <= off2 - (if count <? 0 then count else 0) <= off + 2 * Z.abs count + 2).
      { destruct (count <? 0) eqn:E3; [apply Z.ltb_lt in E3|apply Z.ltb_ge in E3]; destruct HI as [[? ->]|[? ->]]; lia. }
      destruct (count <? 0) eqn:E3.
      + chk1. eexists; eexists. split; [reflexivity|split; [exact P2|split; lia]].
      + eexists; eexists. split; [reflexivity|split; [exact P2|split; lia]].
  Qed.

  Lemma fill_y_ok vp pat K a x sy count off : P a -> VpOk vp -> (0 < length pat)%nat -> 0 <= K <= PMAX ->
    - RB <= x <= RB -> - RB <= sy <= RB -> - RB <= count <= RB -> - OBH <= off <= OBH ->
    exists a' off', fill_y plot vp pat K a x sy count off = Ok (a', off') /\ P a' /\ off <= off' <= off + 2 * Z.abs count + 2 /\
                    mu a' <= mu a + (Z.abs count + 2) * K.
  Proof.
    intros Pa V LP HK HX HS HC HO. destruct vp as [[[vx vy] vw] vh]. unfold VpOk in V.
    pose proof (quot2_bounds K ltac:(lia)) as HQ.
    assert (C0 : 0 <= (Z.abs count + 2) * K) by (apply Z.mul_nonneg_nonneg; lia).
    unfold fill_y, r_bottom, r_right. set (q := Z.quot K 2) in *.
    repeat chk1.
    assert (exists ey1 off1, (if 0 <? count then Ok (sy + count - 1, off) else Ok (sy + count + 1, off - count)) = Ok (ey1, off1) /\
              (0 < count /\ ey1 = sy + count - 1 /\ off1 = off \/ count <= 0 /\ ey1 = sy + count + 1 /\ off1 = off - count)) as (ey1 & off1 & EE & HE).
    { destruct (0 <? count) eqn:E0; [apply Z.ltb_lt in E0|apply Z.ltb_ge in E0]; eexists; eexists; (split; [reflexivity|lia]). }
    rewrite EE. cbn [bind]. repeat chk1.
    set (start_x := if x - q <? 0 then 0 else x - q).
    assert (HSX : start_x = Z.max 0 (x - q)) by (unfold start_x; destruct (x - q <? 0) eqn:E1; [apply Z.ltb_lt in E1|apply Z.ltb_ge in E1]; lia).
    set (end_x := Z.min (x - q + K - 1) (vx + vw - 1)).
    assert (exists s0 e0, (if ey1 <? sy then (ey1, sy) else (sy, ey1)) = (s0, e0) /\ s0 = Z.min sy ey1 /\ e0 = Z.max sy ey1) as (s0 & e0 & ES & HS0 & HE0).
    { destruct (ey1 <? sy) eqn:E1; [apply Z.ltb_lt in E1|apply Z.ltb_ge in E1]; eexists; eexists; (split; [reflexivity|lia]). }
    rewrite ES.
    destruct (vy + vh <=? s0) eqn:EV; [apply Z.leb_le in EV|apply Z.leb_gt in EV].
    - exists a, off1. split; [reflexivity|split; [exact Pa|split; lia]].
    - set (s1 := if s0 <? 0 then 0 else s0).
      assert (HS1 : s1 = Z.max 0 s0) by (unfold s1; destruct (s0 <? 0) eqn:E1; [apply Z.ltb_lt in E1|apply Z.ltb_ge in E1]; lia).
      set (e1 := Z.min e0 (vy + vh - 1)).
      pose proof (span_of_nat s1 e1) as SN1. pose proof (span_of_nat start_x end_x) as SN2.
      destruct (fill_y_loop_ok (span s1 e1) a pat s1 start_x (span start_x end_x) off1 Pa LP) as (a2 & off2 & E2 & P2 & O2 & M2);
        try (unfold RB, PMAX, OB, OBH in *; lia).
      rewrite E2. cbn [bind].
      assert (NX : Z.of_nat (span s1 e1) <= Z.abs count + 2) by lia.
      assert (NY : Z.of_nat (span start_x end_x) <= K) by lia.
      assert (CM : Z.of_nat (span s1 e1) * Z.of_nat (span start_x end_x) <= (Z.abs count + 2) * K) by (apply Z.mul_le_mono_nonneg; lia).
      destruct (count <? 0) eqn:E3; [apply Z.ltb_lt in E3|apply Z.ltb_ge in E3].
      + chk1. eexists; eexists. split; [reflexivity|split; [exact P2|split; lia]].
      + eexists; eexists. split; [reflexivity|split; [exact P2|split; lia]].
  Qed.
  (* ---- the middle loops of the sloped branches ---- *)
  Lemma line_x_loop_ok n : forall vp pat K a px py err off whole step adj_up adj_down W,
    P a -> VpOk vp -> (0 < length pat)%nat -> 0 <= K <= PMAX ->
    0 <= W <= 2 * PMAX -> Z.abs whole <= W -> -1 <= step <= 1 -> 0 <= adj_up <= adj_down -> adj_down <= 4 * PMAX ->
    - adj_down <= err <= 0 ->
    Z.abs px + Z.of_nat n * (W + 1) <= RB -> Z.abs py + Z.of_nat n <= RB ->
    0 <= off -> off + Z.of_nat n * (2 * W + 4) <= OBH ->
    exists a' px' py' off', line_x_loop plot n vp pat K a px py err off whole step adj_up adj_down = Ok (a', (px', py'), off') /\ P a' /\
      Z.abs (px' - px) <= Z.of_nat n * (W + 1) /\ py' = py + Z.of_nat n /\ off <= off' <= off + Z.of_nat n * (2 * W + 4) /\
      mu a' <= mu a + Z.of_nat n * (W + 3) * K.
  Proof.
    induction n as [|n IH]; intros vp pat K a px py err off whole step adj_up adj_down W Pa V LP HK HW HWh HSt HA HD HE HPX HPY HO1 HO2.
    - exists a, px, py, off. simpl. repeat split; auto; lia.
    - cbn [line_x_loop]. chk1.
      assert (exists run err2, (if 0 <? err + adj_up then r <- chk (whole + step);; e <- chk (err + adj_up - adj_down);; Ok (r, e) else Ok (whole, err + adj_up))
                               = Ok (run, err2) /\ Z.abs run <= W + 1 /\ - adj_down <= err2 <= 0) as (run & err2 & ER & HR & HE2).
      { destruct (0 <? err + adj_up) eqn:E0; [apply Z.ltb_lt in E0|apply Z.ltb_ge in E0]; repeat chk1; eexists; eexists; (split; [reflexivity|lia]). }
      rewrite ER. cbn [bind].
      destruct (fill_x_ok vp pat K a py px run off Pa V LP HK) as (a1 & off1 & E1 & P1 & O1 & M1); try (unfold RB, PMAX, OBH in *; lia).
      rewrite E1. cbn [bind]. repeat chk1.
      destruct (IH vp pat K a1 (px + run) (py + 1) err2 off1 whole step adj_up adj_down W P1 V LP HK HW HWh HSt HA HD HE2)
        as (a2 & px2 & py2 & off2 & E2 & P2 & X2 & Y2 & O2 & M2); try lia.
      exists a2, px2, py2, off2. split; [exact E2|split; [exact P2|]].
      pose proof (cost_weaken _ _ _ (W + 3) K M1 ltac:(lia) ltac:(lia)) as M1'.
      repeat split; lia.
  Qed.

  Lemma line_y_loop_ok n : forall vp pat K a px py err off whole adv adj_up adj_down,
    P a -> VpOk vp -> (0 < length pat)%nat -> 0 <= K <= PMAX ->
    0 <= whole <= 2 * PMAX -> -1 <= adv <= 1 -> 0 <= adj_up <= adj_down -> adj_down <= 4 * PMAX ->
    - adj_down <= err <= 0 ->
    Z.abs py + Z.of_nat n * (whole + 1) <= RB -> Z.abs px + Z.of_nat n <= RB ->
    0 <= off -> off + Z.of_nat n * (2 * whole + 4) <= OBH ->
    exists a' px' py' off', line_y_loop plot n vp pat K a px py err off whole adv adj_up adj_down = Ok (a', (px', py'), off') /\ P a' /\
      Z.abs (py' - py) <= Z.of_nat n * (whole + 1) /\ Z.abs (px' - px) <= Z.of_nat n /\ off <= off' <= off + Z.of_nat n * (2 * whole + 4) /\
      mu a' <= mu a + Z.of_nat n * (whole + 3) * K.
  Proof.
    induction n as [|n IH]; intros vp pat K a px py err off whole adv adj_up adj_down Pa V LP HK HW HAd HA HD HE HPY HPX HO1 HO2.
    - exists a, px, py, off. simpl. repeat split; auto; lia.
    - cbn [line_y_loop]. chk1.
      assert (exists run err2, (if 0 <? err + adj_up then r <- chk (whole + 1);; e <- chk (err + adj_up - adj_down);; Ok (r, e) else Ok (whole, err + adj_up))
                               = Ok (run, err2) /\ 0 <= run <= whole + 1 /\ - adj_down <= err2 <= 0) as (run & err2 & ER & HR & HE2).
      { destruct (0 <? err + adj_up) eqn:E0; [apply Z.ltb_lt in E0|apply Z.ltb_ge in E0]; repeat chk1; eexists; eexists; (split; [reflexivity|lia]). }
      rewrite ER. cbn [bind].
      destruct (fill_y_ok vp pat K a px py run off Pa V LP HK) as (a1 & off1 & E1 & P1 & O1 & M1); try (unfold RB, PMAX, OBH in *; lia).
      rewrite E1. cbn [bind]. repeat chk1.
      destruct (IH vp pat K a1 (px + adv) (py + run) err2 off1 whole adv adj_up adj_down P1 V LP HK HW HAd HA HD HE2)
        as (a2 & px2 & py2 & off2 & E2 & P2 & Y2 & X2 & O2 & M2); try lia.
      exists a2, px2, py2, off2. split; [exact E2|split; [exact P2|]].
      pose proof (cost_weaken _ _ _ (whole + 3) K M1 ltac:(lia) ltac:(lia)) as M1'.
      repeat split; lia.
  Qed.

  Lemma quot_facts a b : 0 <= a -> 0 < b -> 0 <= Z.quot a b <= a /\ b * Z.quot a b <= a /\ 0 <= Z.rem a b < b.
  Proof.
    intros Ha Hb. rewrite Z.quot_div_nonneg by lia. split; [split; [apply Z.div_pos; lia|]|split].
    - apply Z.div_le_upper_bound; [lia|]. nia.
    - apply Z.mul_div_le. lia.
    - apply Z.rem_bound_pos; lia.
  Qed.

  Lemma quot2_abs w : Z.abs (Z.quot w 2) <= Z.abs w.
  Proof.
    rewrite <- Z.quot_abs by lia. change (Z.abs 2) with 2.
    pose proof (quot2_bounds (Z.abs w) ltac:(lia)). lia.
  Qed.

  (* the sloped branches, from a start point with coordinates within +-PMAX, deltas within 2*PMAX *)
  Lemma line_xmajor_ok vp pat K a px py sgn lx ly : P a -> VpOk vp -> (0 < length pat)%nat -> 0 <= K <= PMAX ->
    - PMAX <= px <= PMAX -> - PMAX <= py <= PMAX -> (sgn = 1 \/ sgn = -1) -> 0 < ly <= lx -> lx <= 2 * PMAX ->
    exists a', line_xmajor plot vp pat K a px py sgn lx ly = Ok a' /\ P a' /\ mu a' <= mu a + (3 * (lx + ly) + 8) * K.
  Proof.
    intros Pa V LP HK HPX HPY HS HL HLX.
    destruct (quot_facts lx ly ltac:(lia) ltac:(lia)) as (HQ & HM & HR).
    unfold line_xmajor, i32_div, i32_rem. replace (ly =? 0) with false by (symmetry; apply Z.eqb_neq; lia).
    set (W := Z.quot lx ly) in *. set (R := Z.rem lx ly) in *.
    assert (HWS : Z.abs (W * sgn) = W) by (destruct HS as [-> | ->]; lia).
    repeat chk1.
    set (whole := W * sgn) in *.
    pose proof (quot2_abs whole) as HQ2. set (h := Z.quot whole 2) in *.
    assert (HSG : -1 <= sgn <= 1) by lia.
    repeat chk1.
    assert (exists sl, (if (R * 2 =? 0) && negb (Z.odd whole) then Ok (h + sgn - sgn) else Ok (h + sgn)) = Ok sl /\ Z.abs sl <= W + 1) as (sl & ESL & HSL).
    { destruct ((R * 2 =? 0) && negb (Z.odd whole)); eexists; (split; [reflexivity|lia]). }
    rewrite ESL. cbn [bind].
    assert (exists err, (if Z.odd whole then Ok (R - ly * 2 + ly) else Ok (R - ly * 2)) = Ok err /\ - (ly * 2) <= err <= 0) as (err & EER & HER).
    { destruct (Z.odd whole); eexists; (split; [reflexivity|lia]). }
    rewrite EER. cbn [bind].
    destruct (fill_x_ok vp pat K a py px sl 0 Pa V LP HK) as (a1 & off1 & E1 & P1 & O1 & M1); try (unfold RB, PMAX, OBH in *; lia).
    rewrite E1. cbn [bind]. repeat chk1.
    assert (HN : Z.of_nat (Z.to_nat (ly - 1)) = ly - 1) by lia.
    assert (HNW : (ly - 1) * (W + 1) <= lx + ly) by lia.
    destruct (line_x_loop_ok (Z.to_nat (ly - 1)) vp pat K a1 (px + sl) (py + 1) err off1 whole sgn (R * 2) (ly * 2) W P1 V LP HK)
      as (a2 & px2 & py2 & off2 & E2 & P2 & X2 & Y2 & O2 & M2); try (rewrite ?HN; unfold RB, PMAX, OBH in *; lia).
    rewrite E2. cbn [bind]. rewrite HN in *.
    destruct (fill_x_ok vp pat K a2 py2 px2 (h + sgn) off2 P2 V LP HK) as (a3 & off3 & E3 & P3 & O3 & M3); try (unfold RB, PMAX, OBH in *; lia).
    rewrite E3. cbn [bind fst]. exists a3. split; [reflexivity|split; [exact P3|]].
    pose proof (cost_weaken _ _ _ (W + 3) K M1 ltac:(lia) ltac:(lia)) as M1'.
    pose proof (cost_weaken _ _ _ (W + 3) K M3 ltac:(lia) ltac:(lia)) as M3'.
    assert (MT : mu a3 <= mu a + ((W + 3) + (ly - 1) * (W + 3) + (W + 3)) * K) by lia.
    apply (cost_weaken _ _ _ _ K MT); lia.
  Qed.

  Lemma line_ymajor_ok vp pat K a px py sgn lx ly : P a -> VpOk vp -> (0 < length pat)%nat -> 0 <= K <= PMAX ->
    - PMAX <= px <= PMAX -> - PMAX <= py <= PMAX -> (sgn = 1 \/ sgn = -1) -> 0 < lx < ly -> ly <= 2 * PMAX ->
    exists a', line_ymajor plot vp pat K a px py sgn lx ly = Ok a' /\ P a' /\ mu a' <= mu a + (3 * (lx + ly) + 8) * K.
  Proof.
    intros Pa V LP HK HPX HPY HS HL HLY.
    destruct (quot_facts ly lx ltac:(lia) ltac:(lia)) as (HQ & HM & HR).
    unfold line_ymajor, i32_div, i32_rem. replace (lx =? 0) with false by (symmetry; apply Z.eqb_neq; lia).
    set (W := Z.quot ly lx) in *. set (R := Z.rem ly lx) in *.
    pose proof (quot2_bounds W ltac:(lia)) as HQ2.
    assert (HSG : -1 <= sgn <= 1) by lia.
    repeat chk1. set (h := Z.quot W 2) in *.
    assert (exists sl, (if (R * 2 =? 0) && negb (Z.odd W) then Ok (h + 1 - 1) else Ok (h + 1)) = Ok sl /\ 0 <= sl <= W + 1) as (sl & ESL & HSL).
    { destruct ((R * 2 =? 0) && negb (Z.odd W)); eexists; (split; [reflexivity|lia]). }
    rewrite ESL. cbn [bind].
    assert (exists err, (if Z.odd W then Ok (R - lx * 2 + lx) else Ok (R - lx * 2)) = Ok err /\ - (lx * 2) <= err <= 0) as (err & EER & HER).
    { destruct (Z.odd W); eexists; (split; [reflexivity|lia]). }
    rewrite EER. cbn [bind].
    destruct (fill_y_ok vp pat K a px py sl 0 Pa V LP HK) as (a1 & off1 & E1 & P1 & O1 & M1); try (unfold RB, PMAX, OBH in *; lia).
    rewrite E1. cbn [bind]. repeat chk1.
    assert (HN : Z.of_nat (Z.to_nat (lx - 1)) = lx - 1) by lia.
    assert (HNW : (lx - 1) * (W + 1) <= lx + ly) by lia.
    destruct (line_y_loop_ok (Z.to_nat (lx - 1)) vp pat K a1 (px + sgn) (py + sl) err off1 W sgn (R * 2) (lx * 2) P1 V LP HK)
      as (a2 & px2 & py2 & off2 & E2 & P2 & Y2 & X2 & O2 & M2); try (rewrite ?HN; unfold RB, PMAX, OBH in *; lia).
    rewrite E2. cbn [bind]. rewrite HN in *.
    destruct (fill_y_ok vp pat K a2 px2 py2 (h + 1) off2 P2 V LP HK) as (a3 & off3 & E3 & P3 & O3 & M3); try (unfold RB, PMAX, OBH in *; lia).
    rewrite E3. cbn [bind fst]. exists a3. split; [reflexivity|split; [exact P3|]].
    pose proof (cost_weaken _ _ _ (W + 3) K M1 ltac:(lia) ltac:(lia)) as M1'.
    pose proof (cost_weaken _ _ _ (W + 3) K M3 ltac:(lia) ltac:(lia)) as M3'.
    assert (MT : mu a3 <= mu a + ((W + 3) + (lx - 1) * (W + 3) + (W + 3)) * K) by lia.
    apply (cost_weaken _ _ _ _ K MT); lia.
  Qed.

  Definition CoordOk (v : Z) : Prop := - PMAX <= v <= PMAX.

  (* Bgi::line *)
  Lemma line_ok vp pat K a x1 y1 x2 y2 : P a -> VpOk vp -> (0 < length pat)%nat -> 0 <= K <= PMAX ->
    CoordOk x1 -> CoordOk y1 -> CoordOk x2 -> CoordOk y2 ->
    exists a', line plot vp pat K a x1 y1 x2 y2 = Ok a' /\ P a' /\ mu a' <= mu a + (3 * (Z.abs (x2 - x1) + Z.abs (y2 - y1)) + 8) * K.
  Proof.
    unfold CoordOk. intros Pa V LP HK HX1 HY1 HX2 HY2. unfold line, i32_abs. repeat chk1.
    set (lx := Z.abs (x2 - x1)). set (ly := Z.abs (y2 - y1)).
    assert (HLX : 0 <= lx <= 2 * PMAX) by (unfold lx; lia). assert (HLY : 0 <= ly <= 2 * PMAX) by (unfold ly; lia).
    destruct (lx =? 0) eqn:EX; [apply Z.eqb_eq in EX|apply Z.eqb_neq in EX].
    - destruct (fill_y_ok vp pat K a x1 (Z.min y1 y2) (ly + 1) 0 Pa V LP HK) as (a1 & off1 & E1 & P1 & O1 & M1); try (unfold RB, PMAX, OBH in *; lia).
      rewrite E1. cbn [bind fst]. exists a1. split; [reflexivity|split; [exact P1|]]. apply (cost_weaken _ _ _ _ K M1); lia.
    - destruct (ly =? 0) eqn:EY; [apply Z.eqb_eq in EY|apply Z.eqb_neq in EY].
      + destruct (fill_x_ok vp pat K a y1 (Z.min x1 x2) (lx + 1) 0 Pa V LP HK) as (a1 & off1 & E1 & P1 & O1 & M1); try (unfold RB, PMAX, OBH in *; lia).
        rewrite E1. cbn [bind fst]. exists a1. split; [reflexivity|split; [exact P1|]]. apply (cost_weaken _ _ _ _ K M1); lia.
      + assert (exists px py sgn, line_start x1 y1 x2 y2 = (px, py, sgn) /\ - PMAX <= px <= PMAX /\ - PMAX <= py <= PMAX /\ (sgn = 1 \/ sgn = -1))
          as (px & py & sgn & ES & HPX & HPY & HS).
        { unfold line_start. destruct (y1 <? y2); [destruct (x2 <? x1)|destruct (x1 <? x2)]; eexists; eexists; eexists; (split; [reflexivity|lia]). }
        rewrite ES.
        destruct (ly <=? lx) eqn:EL; [apply Z.leb_le in EL|apply Z.leb_gt in EL].
        * apply line_xmajor_ok; auto; lia.
        * apply line_ymajor_ok; auto; lia.
  Qed.

  (* Bgi::rectangle *)
  Lemma rectangle_ok vp pat K a l t r b : P a -> VpOk vp -> (0 < length pat)%nat -> 0 <= K <= PMAX ->
    CoordOk l -> CoordOk t -> CoordOk r -> CoordOk b ->
    exists a', rectangle plot vp pat K a l t r b = Ok a' /\ P a' /\ mu a' <= mu a + (6 * (Z.abs (r - l) + Z.abs (b - t)) + 32) * K.
  Proof.
    intros Pa V LP HK Hl Ht Hr Hb. unfold rectangle.
    destruct (line_ok vp pat K a l t r t Pa V LP HK Hl Ht Hr Ht) as (a1 & E1 & P1 & M1). rewrite E1. cbn [bind].
    destruct (line_ok vp pat K a1 l b r b P1 V LP HK Hl Hb Hr Hb) as (a2 & E2 & P2 & M2). rewrite E2. cbn [bind].
    destruct (line_ok vp pat K a2 r t r b P2 V LP HK Hr Ht Hr Hb) as (a3 & E3 & P3 & M3). rewrite E3. cbn [bind].
    destruct (line_ok vp pat K a3 l t l b P3 V LP HK Hl Ht Hl Hb) as (a4 & E4 & P4 & M4).
    exists a4. split; [exact E4|split; [exact P4|]].
    replace (t - t) with 0 in * by lia. replace (b - b) with 0 in * by lia. replace (r - r) with 0 in * by lia. replace (l - l) with 0 in * by lia.
    change (Z.abs 0) with 0 in *. lia.
  Qed.

  (* polygons: every vertex within +-PMAX *)
  Definition PtOk (p : Z * Z) : Prop := CoordOk (fst p) /\ CoordOk (snd p).

  Lemma poly_loop_ok vp pat K pts : forall a last, P a -> VpOk vp -> (0 < length pat)%nat -> 0 <= K <= PMAX -> PtOk last -> Forall PtOk pts ->
    exists a' last', poly_loop plot vp pat K a last pts = Ok (a', last') /\ P a' /\ PtOk last'.
  Proof.
    induction pts as [|p t IH]; intros a last Pa V LP HK HL HF; cbn [poly_loop].
    - eauto.
    - inversion HF as [|? ? Hp Ht]; subst. destruct HL as [L1 L2]. destruct Hp as [Q1 Q2].
      destruct (line_ok vp pat K a (fst last) (snd last) (fst p) (snd p) Pa V LP HK L1 L2 Q1 Q2) as (a1 & E1 & P1 & _). rewrite E1. cbn [bind].
      apply IH; auto. split; assumption.
  Qed.

  Lemma draw_poly_ok vp pat K a pts : P a -> VpOk vp -> (0 < length pat)%nat -> 0 <= K <= PMAX -> Forall PtOk pts ->
    exists a', draw_poly plot vp pat K a pts = Ok a' /\ P a'.
  Proof.
    intros Pa V LP HK HF. unfold draw_poly. destruct pts as [|p0 t]; [eauto|].
    inversion HF as [|? ? H0 Ht]; subst.
    destruct (poly_loop_ok vp pat K (p0 :: t) a p0 Pa V LP HK H0 HF) as (a1 & last & E1 & P1 & HL). rewrite E1. cbn [bind].
    destruct HL as [L1 L2]. destruct H0 as [Q1 Q2].
    destruct (line_ok vp pat K a1 (fst last) (snd last) (fst p0) (snd p0) P1 V LP HK L1 L2 Q1 Q2) as (a2 & E2 & P2 & _). eauto.
  Qed.

  Lemma draw_poly_line_ok vp pat K a pts : P a -> VpOk vp -> (0 < length pat)%nat -> 0 <= K <= PMAX -> Forall PtOk pts ->
    exists a', draw_poly_line plot vp pat K a pts = Ok a' /\ P a'.
  Proof.
    intros Pa V LP HK HF. unfold draw_poly_line. destruct pts as [|p0 t]; [eauto|].
    inversion HF as [|? ? H0 Ht]; subst.
    destruct (poly_loop_ok vp pat K (p0 :: t) a p0 Pa V LP HK H0 HF) as (a1 & last & E1 & P1 & HL). rewrite E1. cbn [bind fst]. eauto.
  Qed.
End CanvasProofs.

(* ---------- instance 1: the real canvas ---------- *)
Definition SameAs (s0 s : bgi) : Prop := exists scr, s = upd_screen s0 scr /\ length scr = length (screen s0).

Lemma SameAs_refl s0 : SameAs s0 s0.
Proof. exists (screen s0). rewrite upd_screen_id. auto. Qed.

Lemma plot_bgi_ok s0 : InvBgi s0 -> forall a x y, SameAs s0 a -> - RB <= x <= RB -> - RB <= y <= RB ->
  exists a', plot_bgi a x y = Ok a' /\ SameAs s0 a' /\ (fun _ : bgi => 0) a' <= (fun _ : bgi => 0) a + 1.
Proof.
  intros I a x y (scr & -> & L) HX HY. unfold plot_bgi.
  destruct (put_pixel_ok (upd_screen s0 scr) x y (color (upd_screen s0 scr)) (InvBgi_upd_screen s0 scr I L) HX HY) as [scr' [E L']].
  rewrite E. exists (upd_screen s0 scr'). split; [reflexivity|split; [|lia]].
  exists scr'. split; [reflexivity|]. simpl in L'. lia.
Qed.

(* ---------- generated constants ---------- *)
Lemma line_patterns_shape : length LINE_PATTERNS = 5%nat /\ (0 < LINE_PATTERN_BITS)%nat.
Proof. vm_compute. split; [reflexivity|lia]. Qed.
Lemma linestyle_from_range : forallb (fun kv => (snd kv <=? 4)%N) LINESTYLE_FROM = true /\ (LINESTYLE_FROM_DEFAULT <= 4)%N.
Proof. vm_compute. split; [reflexivity|discriminate]. Qed.

Lemma ls_from_range n : (ls_from n <= 4)%N.
Proof.
  unfold ls_from. destruct linestyle_from_range as [F D].
  destruct (lookup n LINESTYLE_FROM) as [k|] eqn:E; [|exact D].
  revert E. generalize LINESTYLE_FROM F. intros l. induction l as [|[k' v] t IH]; simpl; [discriminate|].
  intros F' E. apply andb_true_iff in F'. destruct F' as [F1 F2].
  destruct (n =? k')%N; [inversion E; subst; apply N.leb_le; exact F1|apply IH; assumption].
Qed.

Lemma bits16_length v : (0 < length (bits16 v))%nat.
Proof. unfold bits16. rewrite map_length, seq_length. apply line_patterns_shape. Qed.

Lemma ls_pattern_ok st : (st <= 4)%N -> exists p, ls_pattern st = Ok p /\ (0 < length p)%nat.
Proof.
  intros H. unfold ls_pattern. destruct line_patterns_shape as [L5 _].
  destruct (idx_ok SITE_LINE_PATTERN LINE_PATTERNS (Z.of_N st)) as [v [E _]]; [rewrite L5; simpl; lia|].
  rewrite E. cbn [bind]. eexists. split; [reflexivity|apply bits16_length].
Qed.

(* ---------- the state with line attributes ---------- *)
Definition InvL (s : lbgi) : Prop :=
  InvBgi (lb s) /\ (0 < length (line_pattern s))%nat /\ 0 <= line_thickness s <= PMAX /\ (line_style s <= 4)%N.

Definition same_canvas2 (s s' : lbgi) : Prop :=
  win_w (lb s') = win_w (lb s) /\ win_h (lb s') = win_h (lb s) /\ length (screen (lb s')) = length (screen (lb s)).

Lemma InvL_with_lb s scr : InvL s -> length scr = length (screen (lb s)) ->
  InvL (with_lb s (upd_screen (lb s) scr)) /\ same_canvas2 s (with_lb s (upd_screen (lb s) scr)).
Proof.
  intros (I & LP & TK & LS) L. split; [split; [apply InvBgi_upd_screen; auto|auto]|]. unfold same_canvas2. simpl. auto.
Qed.

Definition LinePost (s : lbgi) (r : res lbgi) : Prop :=
  match r with Ok s' => InvL s' /\ same_canvas2 s s' | Panic _ => False end.

Lemma lift_same s (r : res bgi) : InvL s -> (exists a', r = Ok a' /\ SameAs (lb s) a') -> LinePost s (b <- r ;; Ok (with_lb s b)).
Proof.
  intros IL (a' & -> & scr & -> & L). cbn [bind LinePost]. apply InvL_with_lb; assumption.
Qed.

Lemma vp_ok s : InvL s -> VpOk (viewport (lb s)).
Proof. intros ((_ & _ & _ & V & _) & _). exact V. Qed.

Lemma bgi_line_ok s x1 y1 x2 y2 : InvL s -> CoordOk x1 -> CoordOk y1 -> CoordOk x2 -> CoordOk y2 -> LinePost s (bgi_line s x1 y1 x2 y2).
Proof.
  intros IL H1 H2 H3 H4. pose proof IL as (I & LP & TK & LS). unfold bgi_line. apply lift_same; [exact IL|].
  destruct (line_ok bgi plot_bgi (SameAs (lb s)) (fun _ => 0) (plot_bgi_ok (lb s) I) (viewport (lb s)) (line_pattern s) (line_thickness s) (lb s) x1 y1 x2 y2
              (SameAs_refl _) (vp_ok s IL) LP TK H1 H2 H3 H4) as (a' & E & S & _). eauto.
Qed.

Lemma bgi_rectangle_ok s l t r b : InvL s -> CoordOk l -> CoordOk t -> CoordOk r -> CoordOk b -> LinePost s (bgi_rectangle s l t r b).
Proof.
  intros IL H1 H2 H3 H4. pose proof IL as (I & LP & TK & LS). unfold bgi_rectangle. apply lift_same; [exact IL|].
  destruct (rectangle_ok bgi plot_bgi (SameAs (lb s)) (fun _ => 0) (plot_bgi_ok (lb s) I) (viewport (lb s)) (line_pattern s) (line_thickness s) (lb s) l t r b
              (SameAs_refl _) (vp_ok s IL) LP TK H1 H2 H3 H4) as (a' & E & S & _). eauto.
Qed.

Lemma bgi_draw_poly_ok s pts : InvL s -> Forall PtOk pts -> LinePost s (bgi_draw_poly s pts).
Proof.
  intros IL HF. pose proof IL as (I & LP & TK & LS). unfold bgi_draw_poly. apply lift_same; [exact IL|].
  destruct (draw_poly_ok bgi plot_bgi (SameAs (lb s)) (fun _ => 0) (plot_bgi_ok (lb s) I) (viewport (lb s)) (line_pattern s) (line_thickness s) (lb s) pts
              (SameAs_refl _) (vp_ok s IL) LP TK HF) as (a' & E & S). eauto.
Qed.

Lemma bgi_draw_poly_line_ok s pts : InvL s -> Forall PtOk pts -> LinePost s (bgi_draw_poly_line s pts).
Proof.
  intros IL HF. pose proof IL as (I & LP & TK & LS). unfold bgi_draw_poly_line. apply lift_same; [exact IL|].
  destruct (draw_poly_line_ok bgi plot_bgi (SameAs (lb s)) (fun _ => 0) (plot_bgi_ok (lb s) I) (viewport (lb s)) (line_pattern s) (line_thickness s) (lb s) pts
              (SameAs_refl _) (vp_ok s IL) LP TK HF) as (a' & E & S). eauto.
Qed.

(* ---------- instance 2: the number of put_pixel calls of one line ---------- *)
Lemma plot_count_ok : forall (a : nat) x y, True -> - RB <= x <= RB -> - RB <= y <= RB ->
  exists a', plot_count a x y = Ok a' /\ True /\ Z.of_nat a' <= Z.of_nat a + 1.
Proof. intros a x y _ _ _. exists (S a). split; [reflexivity|split; [exact I|lia]]. Qed.

Lemma line_plots_bound vp pat K x1 y1 x2 y2 : VpOk vp -> (0 < length pat)%nat -> 0 <= K <= PMAX ->
  CoordOk x1 -> CoordOk y1 -> CoordOk x2 -> CoordOk y2 ->
  exists n, line_plots vp pat K x1 y1 x2 y2 = Ok n /\ Z.of_nat n <= (3 * (Z.abs (x2 - x1) + Z.abs (y2 - y1)) + 8) * K.
Proof.
  intros V LP HK H1 H2 H3 H4. unfold line_plots.
  destruct (line_ok nat plot_count (fun _ => True) Z.of_nat plot_count_ok vp pat K 0%nat x1 y1 x2 y2 I V LP HK H1 H2 H3 H4) as (n & E & _ & M).
  exists n. split; [exact E|]. lia.
Qed.

(* ---------- Command::run with the line family ---------- *)
Definition poly_cmd (c : cmd) : bool := match c with CPolygon | CPolyLine => true | _ => false end.

Definition ArgsOk2 (c : pcmd) : Prop :=
  match pc_cmd c with
  | CLineStyle => exists st up th, pc_fields c = [st; up; th] /\ 0 <= st <= PMAX /\ 0 <= th <= PMAX   (* user_pat: any i32 *)
  | _ => ArgsOk c /\ (poly_cmd (pc_cmd c) = true -> Forall (fun v => 0 <= v <= PMAX) (pc_vec c))
  end.

Definition RunPost2 (s : lbgi) (r : run_result2) : Prop :=
  match r with
  | ROk2 s' => InvL s' /\ same_canvas2 s s'
  | RPanic2 _ => False
  | RUnmodelled2 => True
  end.

Lemma pairs_ok (v : list Z) : Forall (fun x => 0 <= x <= PMAX) v -> Forall (PtOk) (pairs v).
Proof.
  revert v. fix IH 1. intros [|a [|b t]] H; cbn [pairs]; try constructor.
  - inversion H as [|? ? Ha H']; subst. inversion H' as [|? ? Hb H'']; subst. unfold PtOk, CoordOk. simpl. lia.
  - apply IH. inversion H as [|? ? Ha H']; subst. inversion H' as [|? ? Hb H'']; subst. exact H''.
Qed.

Lemma LinePost_RunPost2 s r : LinePost s r -> RunPost2 s (lift2 r).
Proof. destruct r; simpl; auto. Qed.

Lemma run_cmd2_kernel s c : InvL s -> ArgsOk c ->
  RunPost2 s (match run_cmd (lb s) c with ROk b => ROk2 (with_lb s b) | RPanic p => RPanic2 p | RUnmodelled => RUnmodelled2 end).
Proof.
  intros (I & LP & TK & LS) A. pose proof (run_cmd_ok (lb s) c I A) as R.
  destruct (run_cmd (lb s) c) as [b|p|]; simpl in *; [|contradiction|exact Logic.I].
  destruct R as (IB & W & H & L). split; [split; [exact IB|auto]|]. unfold same_canvas2. simpl. auto.
Qed.

Lemma run_cmd2_ok s c : InvL s -> ArgsOk2 c -> RunPost2 s (run_cmd2 s c).
Proof.
  intros IL A. unfold ArgsOk2 in A. unfold run_cmd2.
  destruct (pc_cmd c) eqn:EC; try (apply run_cmd2_kernel; [exact IL|exact (proj1 A)]).
  - (* ResetWindows: the kernel command, then set_line_style(Solid) *)
    pose proof IL as (I & LP & TK & LS). pose proof (run_cmd_ok (lb s) c I (proj1 A)) as R.
    destruct (run_cmd (lb s) c) as [b|p|]; simpl in R; [|contradiction|exact Logic.I].
    destruct R as (IB & W & H & L). destruct (ls_pattern_ok 0%N ltac:(discriminate)) as (p & E & LPp). rewrite E. cbn [bind lift2 RunPost2].
    split; [split; [exact IB|split; [exact LPp|split; [exact TK|discriminate]]]|]. unfold same_canvas2. simpl. auto.
  - (* Line *)
    destruct A as [[L F] _]. rewrite EC in L. cbn [cmd_nfields] in L.
    destruct (pc_fields c) as [|a0 [|a1 [|a2 [|a3 [|]]]]] eqn:EF; try discriminate L.
    inversion F as [|? ? P0 F0]; subst. inversion F0 as [|? ? P1 F1]; subst. inversion F1 as [|? ? P2 F2]; subst. inversion F2 as [|? ? P3 F3]; subst.
    unfold arg. rewrite EF. cbn [nth_error bind]. apply LinePost_RunPost2. apply bgi_line_ok; auto; unfold CoordOk; lia.
  - (* Rectangle *)
    destruct A as [[L F] _]. rewrite EC in L. cbn [cmd_nfields] in L.
    destruct (pc_fields c) as [|a0 [|a1 [|a2 [|a3 [|]]]]] eqn:EF; try discriminate L.
    inversion F as [|? ? P0 F0]; subst. inversion F0 as [|? ? P1 F1]; subst. inversion F1 as [|? ? P2 F2]; subst. inversion F2 as [|? ? P3 F3]; subst.
    unfold arg. rewrite EF. cbn [nth_error bind]. apply LinePost_RunPost2. apply bgi_rectangle_ok; auto; unfold CoordOk; lia.
  - (* Polygon *)
    destruct A as [_ V]. apply LinePost_RunPost2. apply bgi_draw_poly_ok; [exact IL|]. apply pairs_ok. apply V. reflexivity.
  - (* PolyLine *)
    destruct A as [_ V]. apply LinePost_RunPost2. apply bgi_draw_poly_line_ok; [exact IL|]. apply pairs_ok. apply V. reflexivity.
  - (* LineStyle *)
    destruct A as (st & up & th & EF & Hst & Hth). unfold arg. rewrite EF. cbn [nth_error bind].
    destruct (ls_pattern_ok (ls_from (as_u8 st)) (ls_from_range _)) as (p & E & LPp). rewrite E. cbn [bind lift2 RunPost2].
    pose proof IL as (I & LP & TK & LS).
    split; [split; [exact I|split; [|split; [exact Hth|apply ls_from_range]]]|unfold same_canvas2; simpl; auto].
    cbn [line_pattern]. destruct (st =? 4); [apply bits16_length|exact LPp].
Qed.
