(* C09 for the emulations of Model/Emu.v: the invariant of every machine, the step lemma, the stream theorems. *)
From Coq Require Import ZArith NArith List Bool Lia.
From IE Require Import Model.TermCore Model.AnsiTok Model.Emu Proofs.TermProofs Proofs.AnsiProofs.
Import ListNotations.
Local Open Scope Z_scope.

Definition GoodM (o : mout) : Prop := match o with MOk m | MErr m => InvA (am m) | _ => True end.

Lemma fallback_good : forall m ch, InvA (am m) -> GoodM (fallback m ch).
Proof.
  intros m ch H. unfold fallback. pose proof (ansi_step_good (am m) ch H) as G.
  destruct (ansi_step (am m) ch); cbn; auto.
Qed.
Lemma gm_ok : forall m m0 t', am m0 = am m -> (Inv09 (mt m) -> Inv09 t') -> InvA (am m) -> GoodM (mok m0 t').
Proof. intros m m0 t' E Hi H. unfold mok, with_t. cbn. rewrite E. intro R. apply Hi. apply H. exact R. Qed.
Lemma gm_lift : forall m m0 r, am m0 = am m -> (forall t', Inv09 (mt m) -> r = ROk t' -> Inv09 t') -> InvA (am m) -> GoodM (mlift m0 r).
Proof. intros m m0 r E Hi H. unfold mlift. destruct r as [t'|s]; [|exact I]. cbn. rewrite E. intro R. eapply Hi; [|reflexivity]. apply H. exact R. Qed.
Lemma gm_same : forall m m0, am m0 = am m -> InvA (am m) -> InvA (am m0).
Proof. intros m m0 E H. rewrite E. exact H. Qed.

Ltac mifs := repeat match goal with |- GoodM (if ?c then _ else _) => destruct c end.
Ltac msame := first [ exact I | cbn; (eapply gm_same; [|eassumption]; reflexivity) ].
Ltac mgok := eapply gm_ok; [reflexivity| |eassumption]; keep.
Ltac mglift := eapply gm_lift; [reflexivity| |eassumption]; lim.

Lemma set_cx_dec_09 : forall t, Inv09 t -> Inv09 (set_cx t (Z.max 0 (cx t - 1))).
Proof.
  intros t [HG [HX HY]]. split; [eapply InvG_geo; [|exact HG]; reflexivity|].
  unfold InvC09, InvX, InvY in *. change (first (set_cx t (Z.max 0 (cx t - 1)))) with (first t).
  change (cy (set_cx t (Z.max 0 (cx t - 1)))) with (cy t). change (cx (set_cx t (Z.max 0 (cx t - 1)))) with (Z.max 0 (cx t - 1)).
  change (tw (set_cx t (Z.max 0 (cx t - 1)))) with (tw t). change (th (set_cx t (Z.max 0 (cx t - 1)))) with (th t). lia.
Qed.

(* ---- Avatar -------------------------------------------------------------------------------------------------------- *)
Lemma avt_repeat_good : forall n m ch, InvA (am m) -> GoodM (avt_repeat n m ch).
Proof.
  induction n as [|k IH]; intros m ch H; cbn [avt_repeat]; [exact H|].
  pose proof (fallback_good m ch H) as G. destruct (fallback m ch) as [m1|m1|s]; cbn in G |- *; auto.
Qed.
Lemma avatar_step_good : forall m ch, InvA (am m) -> GoodM (avatar_step m ch).
Proof.
  intros m ch H. unfold avatar_step. mifs;
    first [ apply fallback_good; exact H | apply avt_repeat_good; exact H | exact H | mgok | mglift | idtac ].
  all: try (eapply gm_ok; [reflexivity| |eassumption]; intro HI; destruct (bice _); (eapply Inv09_pgeo; [|exact HI]); reflexivity).
  all: try (eapply gm_ok; [reflexivity| |eassumption]; apply set_cx_dec_09).
Qed.

(* ---- PCBoard, Ctrl-A, Renegade, ASCII, ATASCII ------------------------------------------------------------------------------ *)
Lemma attr_from_u8_pgeo : forall t ice b, pgeo (attr_from_u8 t ice b) = pgeo t.
Proof. intros. unfold attr_from_u8. destruct ice; reflexivity. Qed.
Lemma pcboard_step_good : forall m ch, InvA (am m) -> GoodM (pcboard_step m ch).
Proof.
  intros m ch H. unfold pcboard_step. mifs; first [ apply fallback_good; exact H | exact H | idtac ].
  all: eapply gm_ok; [reflexivity| |eassumption]; intro HI; (eapply Inv09_pgeo; [|exact HI]); apply attr_from_u8_pgeo.
Qed.
Lemma ctrla_step_good : forall m ch, InvA (am m) -> GoodM (ctrla_step m ch).
Proof.
  intros m ch H. unfold ctrla_step.
  repeat match goal with
         | |- GoodM (if ?c then _ else _) => destruct c
         | |- GoodM (match index_of ?a ?b ?c with _ => _ end) => destruct (index_of a b c)
         end;
    first [ apply fallback_good; exact H | exact H | mgok | mglift | idtac ].
  all: try (eapply gm_ok; [reflexivity| |eassumption]; intro HI; destruct (_ <? 8); first [exact HI | (eapply Inv09_pgeo; [|exact HI]); reflexivity]).
  all: try (pose proof (fallback_good (with_e m 0 (eb m) (ec m) (ed m)) 1 H) as G; destruct (fallback _ 1); exact G).
Qed.
Lemma renegade_step_good : forall m ch, InvA (am m) -> GoodM (renegade_step m ch).
Proof.
  intros m ch H. unfold renegade_step. mifs; first [ apply fallback_good; exact H | exact H | mgok | idtac ].
Qed.
Lemma ascii_step_good : forall m ch, InvA (am m) -> GoodM (ascii_step m ch).
Proof.
  intros m ch H. unfold ascii_step, print_value. mifs; first [ exact H | mgok | mglift ].
Qed.
Lemma atascii_step_good : forall m ch, InvA (am m) -> GoodM (atascii_step m ch).
Proof.
  intros m ch H. unfold atascii_step, print_value. mifs; first [ exact H | mgok | mglift | idtac ].
  all: eapply gm_lift; [reflexivity| |eassumption]; intros t' HI E; eapply print_char_09; [|exact E];
       (eapply Inv09_pgeo; [|exact HI]); reflexivity.
Qed.

(* ---- the fixed-grid emulations ------------------------------------------------------------------------------------------------ *)
Definition InvFG (w h : Z) (t : term) : Prop :=
  tw t = w /\ th t = h /\ bw t = w /\ bh t = h /\ lw t = w /\ lh t = h /\ (length (lines t) <= Z.to_nat h)%nat /\
  0 <= cx t < w /\ 0 <= cy t < h /\ origin_m t = false /\ mtb t = None /\ mlr t = None.

Lemma length_set_nth : forall A (l : list A) i a, length (set_nth l i a) = length l.
Proof. induction l as [|x l IH]; intros [|i] a; cbn; auto. Qed.
Lemma length_resize : forall A (l : list A) n d, length (resize l n d) = n.
Proof. intros. unfold resize. rewrite app_length, firstn_length, repeat_length. lia. Qed.
Lemma length_lset : forall w h ls x y c, 0 <= h -> (length ls <= Z.to_nat h)%nat -> (length (lset w h ls x y c) <= Z.to_nat h)%nat.
Proof.
  intros w h ls x y c Hh Hl. unfold lset.
  destruct ((x <? 0) || (y <? 0) || (x >=? w) || (y >=? h)) eqn:E; [exact Hl|].
  apply orb_false_iff in E. destruct E as [E E4]. apply orb_false_iff in E. destruct E as [E E3]. apply orb_false_iff in E. destruct E as [E1 E2].
  assert (0 <= y < h) by (destruct (Z.ltb_spec y 0); [discriminate|]; destruct (Z.geb_spec y h); [discriminate|lia]).
  set (ls1 := if Nat.leb (length ls) (Z.to_nat y) then resize ls (S (Z.to_nat y)) (line_create w) else ls).
  assert (L1 : (length ls1 <= Z.to_nat h)%nat).
  { subst ls1. destruct (Nat.leb (length ls) (Z.to_nat y)); [rewrite length_resize; lia|exact Hl]. }
  destruct (nth_error ls1 (Z.to_nat y)); [rewrite length_set_nth|]; exact L1.
Qed.
Lemma length_fold_lset : forall A h (f : list (list cell) -> A -> list (list cell)) (l : list A) ls,
  (forall ls a, (length ls <= Z.to_nat h)%nat -> (length (f ls a) <= Z.to_nat h)%nat) ->
  (length ls <= Z.to_nat h)%nat -> (length (fold_left f l ls) <= Z.to_nat h)%nat.
Proof. intros A h f l. induction l as [|a l IH]; intros ls Hf Hl; cbn; auto. Qed.
Lemma length_scroll_up : forall t, 0 <= lh t -> (length (lines t) <= Z.to_nat (lh t))%nat -> (length (lines (scroll_up t)) <= Z.to_nat (lh t))%nat.
Proof.
  intros t Hh Hl. unfold scroll_up. cbn [lines set_lines].
  apply (length_fold_lset _ (lh t)); [|exact Hl]. intros ls x Hls. unfold scroll_up_col.
  apply length_lset; [exact Hh|]. apply (length_fold_lset _ (lh t)); [|exact Hls].
  intros ls2 y Hls2. apply length_lset; assumption.
Qed.

Lemma vd_up_fg : forall w h t, 1 <= w -> 1 <= h -> InvFG w h t -> InvFG w h (vd_up t).
Proof. intros w h t Hw Hh (A&B&C&D&E&F&G&X&Y&O&M&L). unfold vd_up, InvFG, sat_sub, sat, I32_MIN, I32_MAX. destruct (cy t >? 0) eqn:Q; cbn; repeat split; auto; try lia. Qed.
Lemma vd_down_fg : forall w h t, 1 <= w -> 1 <= h -> InvFG w h t -> InvFG w h (vd_down t).
Proof.
  intros w h t Hw Hh (A&B&C&D&E&F&G&X&Y&O&M&L). unfold vd_down, InvFG. cbn.
  destruct (Z.geb_spec (cy t + 1) (th t)); repeat split; auto; try lia.
Qed.
Lemma set_cx_fg : forall w h t x, 0 <= x < w -> InvFG w h t -> InvFG w h (set_cx t x).
Proof. intros w h t x Hx (A&B&C&D&E&F&G&X&Y&O&M&L). unfold InvFG. cbn. repeat split; auto; lia. Qed.
Lemma vd_right_fg : forall w h t, 1 <= w -> 1 <= h -> InvFG w h t -> InvFG w h (vd_right t).
Proof.
  intros w h t Hw Hh HI. pose proof HI as (A&B&C&D&E&F&G&X&Y&O&M&L). unfold vd_right.
  destruct (cx t + 1 >=? tw t) eqn:Q.
  - apply vd_down_fg; auto. apply set_cx_fg; auto. lia.
  - apply set_cx_fg; auto. destruct (Z.geb_spec (cx t + 1) (tw t)); [discriminate|lia].
Qed.
Lemma vd_left_fg : forall w h t, 1 <= w -> 1 <= h -> InvFG w h t -> InvFG w h (vd_left t).
Proof.
  intros w h t Hw Hh HI. pose proof HI as (A&B&C&D&E&F&G&X&Y&O&M&L). unfold vd_left.
  destruct (cx t >? 0) eqn:Q.
  - apply set_cx_fg; auto. apply Z.gtb_lt in Q. unfold sat_sub, sat, I32_MIN, I32_MAX. lia.
  - apply vd_up_fg; auto. apply set_cx_fg; auto. lia.
Qed.
Lemma reset_terminal_fields : forall t, tw (reset_terminal t) = tw t /\ th (reset_terminal t) = th t. Proof. split; reflexivity. Qed.
Lemma clear_fg : forall w h t, 1 <= w -> 1 <= h -> InvFG w h t -> InvFG w h (caret_reset_color (set_pos (set_lines (reset_terminal t) []) 0 0)).
Proof. intros w h t Hw Hh (A&B&C&D&E&F&G&X&Y&O&M&L). unfold InvFG. cbn. repeat split; auto; lia. Qed.
Lemma layer_set_fg : forall w h t x y c, 1 <= h -> InvFG w h t -> InvFG w h (layer_set t x y c).
Proof.
  intros w h t x y c Hh (A&B&C&D&E&F&G&X&Y&O&M&L). unfold InvFG, layer_set. cbn. repeat split; auto; try lia.
  rewrite F. apply length_lset; [lia|exact G].
Qed.
Lemma home_fg : forall w h t, 1 <= w -> 1 <= h -> InvFG w h t -> InvFG w h (caret_home t).
Proof.
  intros w h t Hw Hh (A&B&C&D&E&F&G&X&Y&O&M&L). unfold InvFG, caret_home, upper_left_y, first. rewrite O. cbn. rewrite B, D.
  repeat split; auto; lia.
Qed.
Lemma cr_fg : forall w h t, 1 <= w -> InvFG w h t -> InvFG w h (caret_cr t).
Proof. intros w h t Hw HI. apply set_cx_fg; auto. lia. Qed.
Lemma bs_fg : forall w h t, 1 <= w -> 1 <= h -> InvFG w h t -> InvFG w h (caret_bs t).
Proof.
  intros w h t Hw Hh HI. pose proof HI as (A&B&C&D&E&F&G&X&Y&O&M&L). unfold caret_bs.
  apply layer_set_fg; auto. apply set_cx_fg; auto. lia.
Qed.
(* Caret::index on a fixed grid: scrolls the page instead of growing it *)
Lemma index_fg : forall w h t t', 1 <= w -> 1 <= h -> InvFG w h t -> caret_index t = ROk t' -> InvFG w h t'.
Proof.
  intros w h t t' Hw Hh (A&B&C&D&E&F&G&X&Y&O&M&L). unfold caret_index, limit_caret_pos, check_scrolling_down.
  set (t1 := set_cy t (cy t + 1)).
  assert (LE : last_edit t1 = h - 1) by (unfold last_edit, first; cbn; rewrite M, B, D; lia).
  assert (FS : forall t2, bh t2 = h -> th t2 = h -> first t2 = 0) by (intros t2 P Q; unfold first; rewrite P, Q; lia).
  destruct ((needs_scrolling t1 || true) && (cy t1 >? last_edit t1)) eqn:Q.
  - match goal with |- (if origin_m ?x then _ else _) = _ -> _ => set (t2 := x) end.
    assert (O2 : origin_m t2 = false) by exact O. rewrite O2.
    assert (F2 : first t2 = 0) by (apply FS; [exact D|exact B]).
    rewrite F2. change (th t2) with (th t). change (tw t2) with (tw t). change (cx t2) with (cx t). change (cy t2) with (cy t + 1 - 1).
    destruct (0 + th t - 1 <? 0); [discriminate|]. intro H. inversion H; subst t'. clear H.
    assert (F1' : lh t1 = h) by exact F.
    assert (GL : (length (lines (scroll_up t1)) <= Z.to_nat h)%nat).
    { rewrite <- F1'. apply length_scroll_up; [rewrite F1'; lia|rewrite F1'; exact G]. }
    unfold InvFG. cbn. unfold clampz. repeat split; auto; try lia.
  - assert (O1 : origin_m t1 = false) by exact O. rewrite O1.
    assert (F1 : first t1 = 0) by (apply FS; [exact D|exact B]). rewrite F1.
    destruct (0 + th t1 - 1 <? 0); [discriminate|]. intro H. inversion H; subst t'. clear H.
    rewrite andb_false_iff in Q. destruct Q as [Q|Q]; [rewrite orb_true_r in Q; discriminate|].
    assert (cy t1 <= h - 1) by (rewrite <- LE; destruct (Z.gtb_spec (cy t1) (last_edit t1)); [discriminate|lia]).
    unfold InvFG. cbn in *. unfold clampz. repeat split; auto; try lia.
Qed.

Definition GoodFG (w h : Z) (o : mout) : Prop :=
  match o with MOk m | MErr m => InvFG w h (mt m) | _ => True end.

Lemma viewdata_step_fg : forall w h m ch, 1 <= w -> 1 <= h -> InvFG w h (mt m) -> GoodFG w h (viewdata_step m ch).
Proof.
  intros w h m ch Hw Hh H. unfold viewdata_step.
  repeat match goal with |- GoodFG _ _ (if ?c then _ else _) => destruct c end; cbn; try exact H.
  - apply vd_left_fg; auto.
  - apply vd_right_fg; auto.
  - apply vd_down_fg; auto.
  - apply vd_up_fg; auto.
  - apply clear_fg; auto.
  - apply cr_fg; auto.
  - apply home_fg; auto.
  - apply vd_right_fg; auto. apply layer_set_fg; auto.
Qed.
Lemma m7_right_fg : forall w h t t', 1 <= w -> 1 <= h -> InvFG w h t -> m7_right t = ROk t' -> InvFG w h t'.
Proof.
  intros w h t t' Hw Hh HI. pose proof HI as (A&B&C&D&E&F&G&X&Y&O&M&L). unfold m7_right.
  destruct (cx t + 1 >=? tw t) eqn:Q.
  - apply index_fg; auto. apply set_cx_fg; auto. lia.
  - intro H. inversion H. apply set_cx_fg; auto. destruct (Z.geb_spec (cx t + 1) (tw t)); [discriminate|lia].
Qed.
Lemma mode7_step_fg : forall w h m ch, 1 <= w -> 1 <= h -> InvFG w h (mt m) -> GoodFG w h (mode7_step m ch).
Proof.
  intros w h m ch Hw Hh H. unfold mode7_step, mlift.
  repeat match goal with |- GoodFG _ _ (if ?c then _ else _) => destruct c end; cbn; try exact H.
  - apply vd_left_fg; auto.
  - destruct (m7_right (mt m)) eqn:E; cbn; [|exact I]. eapply m7_right_fg; eauto.
  - destruct (caret_index (mt m)) eqn:E; cbn; [|exact I]. eapply index_fg; eauto.
  - apply vd_up_fg; auto.
  - apply clear_fg; auto.
  - apply cr_fg; auto.
  - apply home_fg; auto.
  - apply bs_fg; auto.
  - unfold m7_print. destruct (m7_right _) eqn:E; cbn; [|exact I]. eapply m7_right_fg; [| |apply layer_set_fg|exact E]; eauto.
Qed.

(* ---- the machines -------------------------------------------------------------------------------------------------------------- *)
Definition scrolling (e : emu) : bool := match e with EViewdata | EMode7 => false | _ => true end.

Lemma step_good : forall e m ch, scrolling e = true -> InvA (am m) -> GoodM (step e m ch).
Proof.
  intros e m ch He H. destruct e; try discriminate; cbn [step].
  - apply fallback_good; exact H.
  - apply avatar_step_good; exact H.
  - apply pcboard_step_good; exact H.
  - apply ctrla_step_good; exact H.
  - apply renegade_step_good; exact H.
  - apply ascii_step_good; exact H.
  - apply atascii_step_good; exact H.
Qed.
Lemma step_fg : forall e w h m ch, scrolling e = false -> 1 <= w -> 1 <= h -> InvFG w h (mt m) -> GoodFG w h (step e m ch).
Proof.
  intros e w h m ch He Hw Hh H. destruct e; try discriminate; cbn [step].
  - apply viewdata_step_fg; auto.
  - apply mode7_step_fg; auto.
Qed.

Lemma run_good : forall e cs m m', scrolling e = true -> InvA (am m) -> run e m cs = RunOk m' -> InvA (am m').
Proof.
  intros e cs. induction cs as [|c r IH]; intros m m' He H R; cbn in R; [inversion R; subst; exact H|].
  pose proof (step_good e m c He H) as G. destruct (step e m c) as [m1|m1|s]; try discriminate; eapply IH; eauto.
Qed.
Lemma run_fg : forall e w h cs m m', scrolling e = false -> 1 <= w -> 1 <= h -> InvFG w h (mt m) -> run e m cs = RunOk m' -> InvFG w h (mt m').
Proof.
  intros e w h cs. induction cs as [|c r IH]; intros m m' He Hw Hh H R; cbn in R; [inversion R; subst; exact H|].
  pose proof (step_fg e w h m c He Hw Hh H) as G. destruct (step e m c) as [m1|m1|s]; try discriminate; eapply IH; eauto.
Qed.

Lemma init_09 : forall w h, 1 <= w <= 132 -> 1 <= h <= 60 -> Inv09 (init_term w h).
Proof.
  intros w h Hw Hh. unfold Inv09, InvG, InvC09, InvX, InvY, first, init_term. cbn.
  repeat split; try lia; auto using reset_tabs_nonneg.
Qed.
Lemma init_fg : forall w h, 1 <= w -> 1 <= h -> InvFG w h (init_term w h).
Proof.
  intros w h Hw Hh. unfold InvFG, init_term. cbn. rewrite repeat_length. repeat split; auto; lia.
Qed.

(* C09, scrolling terminals: after every character of a stream that executes no text-area resize the cursor is
   inside the visible screen *)
Lemma c09_stream_proof : forall e music bs w h cs m',
  scrolling e = true -> 1 <= w <= 132 -> 1 <= h <= 60 ->
  run e (init music bs w h) cs = RunOk m' -> resized (ps (am m')) = false ->
  0 <= cx (mt m') < tw (mt m') /\ first (mt m') <= cy (mt m') < first (mt m') + th (mt m').
Proof.
  intros e music bs w h cs m' He Hw Hh R NR.
  assert (H0 : InvA (am (init music bs w h))) by (intro; apply init_09; assumption).
  pose proof (run_good e cs _ _ He H0 R NR) as [_ [HX HY]]. split; [exact HX|exact HY].
Qed.
(* without a resize the terminal keeps its size and origin mode never becomes WithinMargins *)
Lemma c09_geometry_proof : forall e music bs w h cs m',
  scrolling e = true -> 1 <= w <= 132 -> 1 <= h <= 60 ->
  run e (init music bs w h) cs = RunOk m' -> resized (ps (am m')) = false ->
  origin_m (mt m') = false /\ th (mt m') <= bh (mt m') /\ margins_ok (mtb (mt m')) (th (mt m')) /\ margins_ok (mlr (mt m')) (tw (mt m')).
Proof.
  intros e music bs w h cs m' He Hw Hh R NR.
  assert (H0 : InvA (am (init music bs w h))) by (intro; apply init_09; assumption).
  pose proof (run_good e cs _ _ He H0 R NR) as [(A&B&C&D&E&F&G&T) _]. auto.
Qed.
(* C09, fixed grids: Viewdata and Mode 7 keep exactly their page, for every stream *)
Lemma fixed_grid_proof : forall e music bs w h cs m',
  scrolling e = false -> 1 <= w -> 1 <= h ->
  run e (init music bs w h) cs = RunOk m' ->
  let t := mt m' in
  tw t = w /\ th t = h /\ bw t = w /\ bh t = h /\ lw t = w /\ lh t = h /\ (length (lines t) <= Z.to_nat h)%nat /\
  first t = 0 /\ 0 <= cx t < w /\ 0 <= cy t < h.
Proof.
  intros e music bs w h cs m' He Hw Hh R.
  pose proof (run_fg e w h cs (init music bs w h) m' He Hw Hh (init_fg w h Hw Hh) R) as (A&B&C&D&E&F&G&X&Y&O&M&L).
  cbn zeta. repeat split; auto; try lia. unfold first. rewrite B, D. lia.
Qed.
