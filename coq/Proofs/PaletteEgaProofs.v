(* C16, part 2: the EGA (ADF) palette codec from_ega_data / to_ega_data through the 16 colour offsets.
   Everything is stated over the generated tables EGA_COLOR_OFFSETS / EGA_PALETTE; the table-dependent steps are
   computations on those tables, so they are re-checked whenever the tables change in the source. *)
From Coq Require Import NArith List Bool Lia Arith.
From IE Require Import Lib.Tbl Lib.Bits Lib.C16Lib Gen.PaletteSrc Model.Palette Proofs.PaletteProofs.
Import ListNotations.
Local Open Scope N_scope.

Fixpoint nodupb (l : list N) : bool :=
  match l with [] => true | x :: t => negb (existsb (N.eqb x) t) && nodupb t end.

(* the shape of the generated tables the proofs below compute with *)
Lemma ega_tables_ok :
  (length EGA_COLOR_OFFSETS =? 16)%nat && (length EGA_PALETTE =? 64)%nat && (ega_to_count =? 16)
  && forallb (fun o => o <? 64) EGA_COLOR_OFFSETS && nodupb EGA_COLOR_OFFSETS = true.
Proof. vm_compute. reflexivity. Qed.

(* EGA_PALETTE with the 16 offsets overwritten by ys *)
Definition patch (ys : list rgb) : list rgb :=
  fold_left (fun acc oy => set_nth acc (N.to_nat (fst oy)) (snd oy)) (combine EGA_COLOR_OFFSETS ys) EGA_PALETTE.

Lemma patch_init : EGA_PALETTE = patch (map (fun o => nth (N.to_nat o) EGA_PALETTE black) EGA_COLOR_OFFSETS).
Proof. vm_compute. reflexivity. Qed.

Ltac sixteen ys :=
  do 16 (destruct ys as [|? ys]; [discriminate|]); destruct ys; [|discriminate].

Lemma Forall_set_nth {A} (Q : A -> Prop) (l : list A) : forall k x, Forall Q l -> Q x -> Forall Q (set_nth l k x).
Proof.
  induction l as [|h t IH]; intros [|k] x Hl Hx; cbn [set_nth]; try assumption.
  - inversion Hl; subst. constructor; assumption.
  - inversion Hl; subst. constructor; [assumption|apply IH; assumption].
Qed.

Lemma sixteen_indices i : In i (nrange 16) ->
  i = 0 \/ i = 1 \/ i = 2 \/ i = 3 \/ i = 4 \/ i = 5 \/ i = 6 \/ i = 7 \/ i = 8 \/ i = 9 \/ i = 10 \/ i = 11 \/
  i = 12 \/ i = 13 \/ i = 14 \/ i = 15.
Proof. intro H. vm_compute in H. intuition. Qed.

(* one iteration of the store loop of to_ega_data keeps the patch shape *)
Lemma ega_store_patch (Q : rgb -> Prop) p : (forall i, Q (crgb (get_color p i))) ->
  forall i, In i (nrange 16) -> forall ys, length ys = 16%nat -> Forall Q ys ->
  exists ys', length ys' = 16%nat /\ Forall Q ys' /\ ega_store p (Some (patch ys)) i = Some (patch ys').
Proof.
  intros HQ i Hi ys Hlen Hys. unfold ega_store.
  destruct (plen p <=? i); [exists ys; auto|].
  pose proof (HQ i) as Hc. set (c := crgb (get_color p i)) in *. clearbody c.
  exists (set_nth ys (N.to_nat i) c). split; [rewrite set_nth_length; exact Hlen|].
  split; [apply Forall_set_nth; assumption|].
  clear Hys Hc HQ. sixteen ys.
  apply sixteen_indices in Hi.
  repeat (destruct Hi as [->|Hi]; [reflexivity|]). subst i. reflexivity.
Qed.

Lemma ega_fold_patch (Q : rgb -> Prop) p : (forall i, Q (crgb (get_color p i))) ->
  forall idx, Forall (fun i => In i (nrange 16)) idx -> forall ys, length ys = 16%nat -> Forall Q ys ->
  exists ys', length ys' = 16%nat /\ Forall Q ys' /\ fold_left (ega_store p) idx (Some (patch ys)) = Some (patch ys').
Proof.
  intros HQ idx. induction idx as [|i idx IH]; intros Hidx ys Hlen Hys.
  - exists ys. auto.
  - inversion Hidx; subst. cbn [fold_left].
    destruct (ega_store_patch Q p HQ i H1 ys Hlen Hys) as (ys1 & Hl1 & Hq1 & ->).
    apply IH; assumption.
Qed.

Lemma ega_overlay_patch (Q : rgb -> Prop) p : (forall i, Q (crgb (get_color p i))) ->
  Forall Q EGA_PALETTE ->
  exists ys, length ys = 16%nat /\ Forall Q ys /\ ega_overlay p = Some (patch ys).
Proof.
  intros HQ HE. unfold ega_overlay. change ega_to_count with 16. rewrite patch_init.
  apply ega_fold_patch; [exact HQ| |reflexivity|].
  - apply Forall_forall. auto.
  - apply Forall_forall. intros y Hy. apply in_map_iff in Hy. destruct Hy as (o & <- & Ho).
    rewrite Forall_forall in HE. apply HE.
    apply nth_In. vm_compute in Ho. repeat (destruct Ho as [<-|Ho]; [vm_compute; lia|]). contradiction.
Qed.

Lemma ega_reduce_length l : length (flat_map ega_reduce l) = (3 * length l)%nat.
Proof. induction l as [|[[r g] b] l IH]; [reflexivity|]. cbn [flat_map ega_reduce app length]. rewrite IH. lia. Qed.

Lemma patch_length ys : length ys = 16%nat -> length (patch ys) = 64%nat.
Proof. intro H. sixteen ys. reflexivity. Qed.

Lemma ega_roundtrip_total_proof p : exists v, to_ega_data p = Some v /\ length v = 192%nat.
Proof.
  destruct (ega_overlay_patch (fun _ => True) p) as (ys & Hl & _ & E); [auto|apply Forall_forall; auto|].
  unfold to_ega_data. rewrite E. eexists. split; [reflexivity|].
  rewrite ega_reduce_length, patch_length by exact Hl. reflexivity.
Qed.

(* decode the 192 bytes, encode again: the same bytes *)
Lemma ega_cycle ys : length ys = 16%nat -> Forall byte_rgb ys ->
  exists q, from_ega_data (flat_map ega_reduce (patch ys)) = Some q /\
            to_ega_data q = Some (flat_map ega_reduce (patch ys)).
Proof.
  intros Hlen Hb. sixteen ys.
  repeat match goal with H : Forall _ (_ :: _) |- _ => inversion H; clear H; subst end.
  repeat match goal with c : rgb |- _ => destruct c as [[? ?] ?] end.
  repeat match goal with H : byte_rgb (_, _, _) |- _ => destruct H as (? & ? & ?) end.
  eexists. split.
  - cbv - [ega_to_r ega_to_g ega_to_b ega_from_r ega_from_g ega_from_b]. reflexivity.
  - cbv - [ega_to_r ega_to_g ega_to_b ega_from_r ega_from_g ega_from_b].
    repeat match goal with
           | H : ?x < 256 |- _ =>
               let E1 := fresh in let E2 := fresh in let E3 := fresh in
               destruct (ega_channel_idempotent_proof x H) as (E1 & E2 & E3);
               rewrite ?E1, ?E2, ?E3; clear H E1 E2 E3
           end.
    reflexivity.
Qed.

Lemma get_color_byte p : bytes_pal p -> forall i, byte_rgb (crgb (get_color p i)).
Proof.
  intros Hb i. unfold get_color.
  destruct (N.testbit i 31).
  - cbn [crgb unnamed byte_rgb]. unfold get_color_direct_r, get_color_direct_g, get_color_direct_b.
    repeat split; apply N.mod_lt; discriminate.
  - destruct (plen p <=? i); [cbn; lia|].
    destruct (Nat.lt_ge_cases (N.to_nat i) (length (pcolors p))) as [Hlt|Hge].
    + unfold bytes_pal in Hb. rewrite Forall_forall in Hb. apply Hb, nth_In, Hlt.
    + rewrite nth_overflow by exact Hge. cbn. lia.
Qed.

Lemma ega_palette_bytes : Forall byte_rgb EGA_PALETTE.
Proof.
  apply Forall_forall. intros c Hc.
  assert (H : forallb (fun c => let '(r, g, b) := c in (r <? 256) && (g <? 256) && (b <? 256)) EGA_PALETTE = true)
    by (vm_compute; reflexivity).
  rewrite forallb_forall in H. specialize (H c Hc). destruct c as [[r g] b].
  rewrite !andb_true_iff, !N.ltb_lt in H. cbn. tauto.
Qed.

Lemma ega_palette_idempotent_proof p : bytes_pal p ->
  exists v q, to_ega_data p = Some v /\ from_ega_data v = Some q /\ to_ega_data q = Some v.
Proof.
  intro Hb.
  destruct (ega_overlay_patch byte_rgb p (get_color_byte p Hb) ega_palette_bytes) as (ys & Hl & Hq & E).
  destruct (ega_cycle ys Hl Hq) as (q & H1 & H2).
  exists (flat_map ega_reduce (patch ys)), q. unfold to_ega_data at 1. rewrite E. auto.
Qed.
