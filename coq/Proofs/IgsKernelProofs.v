(* Lemmas about the IGS pixel kernel (Model/IgsKernel.v): set_pixel / get_pixel / fill_pixel / fill_rect and the modelled
   execute_command arms never reach a panic site, for ALL parameter values, and keep the canvas at width x height pixels with
   pen numbers below 16 (so get_picture_data indexes pen_colors in range). *)
From Coq Require Import NArith ZArith List Bool Lia Arith.

From IE Require Import Gen.IgsGen Model.RipTok Model.BgiKernel Model.IgsTok Model.IgsKernel Proofs.RipTokProofs Proofs.BgiProofs Proofs.IgsTokProofs.
Import ListNotations.
Local Open Scope Z_scope.

Definition PensOk (scr : list N) : Prop := Forall (fun p => (p < 16)%N) scr.

Definition InvE (e : iexec) : Prop :=
  (e_res e <= 2)%N /\ Z.of_nat (length (e_screen e)) = e_w e * e_h e /\ (0 < length (e_pattern e))%nat /\
  (e_fill_color e < 16)%N /\ PensOk (e_screen e) /\ length (e_pens e) = 16%nat.

(* ---------- generated constants ---------- *)
Lemma resolutions_ok : length IGS_RESOLUTIONS = 3%nat /\ forallb (fun wh => (1 <=? fst wh) && (fst wh <=? 1024) && (1 <=? snd wh) && (snd wh <=? 1024)) IGS_RESOLUTIONS = true.
Proof. vm_compute. auto. Qed.
Lemma igs_patterns_shape :
  (0 < length HOLLOW_PATTERN)%nat /\ (0 < length SOLID_PATTERN)%nat /\ (0 < length RANDOM_PATTERN)%nat /\
  length TYPE_PATTERN = 24%nat /\ length HATCH_PATTERN = 6%nat /\ length HATCH_WIDE_PATTERN = 6%nat /\
  forallb (fun p => negb (Nat.eqb (length p) 0)) (TYPE_PATTERN ++ HATCH_PATTERN ++ HATCH_WIDE_PATTERN) = true.
Proof. vm_compute. repeat split; try reflexivity; lia. Qed.
Lemma igs_pixels_ok : (IGS_INIT_PIXEL < 16)%N /\ (IGS_CLEAR_PIXEL < 16)%N /\ (IGS_SETRES_PIXEL < 16)%N /\
  length IGS_SYSTEM_PALETTE = 16%nat /\ length IGS_PALETTE = 16%nat.
Proof. vm_compute. repeat split; reflexivity. Qed.

Lemma res_bounds r : (r <= 2)%N -> 1 <= fst (res_of r) <= 1024 /\ 1 <= snd (res_of r) <= 1024.
Proof.
  intros H. destruct resolutions_ok as [L F]. unfold res_of.
  assert (K : (N.to_nat r < length IGS_RESOLUTIONS)%nat) by (rewrite L; lia).
  destruct (nth_error_some_lt IGS_RESOLUTIONS (N.to_nat r) K) as [wh E].
  rewrite (nth_error_nth _ _ (0, 0) E). rewrite forallb_forall in F. specialize (F wh (nth_error_In _ _ E)).
  repeat (apply andb_true_iff in F; destruct F as [F ?]).
  repeat match goal with H : (_ <=? _) = true |- _ => apply Z.leb_le in H end. lia.
Qed.

Lemma wh_bounds e : InvE e -> 1 <= e_w e <= 1024 /\ 1 <= e_h e <= 1024.
Proof. intros (R & _). apply res_bounds. exact R. Qed.

Lemma InvE_upd e scr : InvE e -> length scr = length (e_screen e) -> PensOk scr -> InvE (e_upd_screen e scr).
Proof. intros (R & L & P & F & S & PL) LS PS. unfold InvE, e_w, e_h in *. simpl. rewrite LS. auto 8. Qed.

Lemma e_upd_id e : e_upd_screen e (e_screen e) = e.
Proof. destruct e; reflexivity. Qed.

Lemma set_nth_Forall {A} (Q : A -> Prop) (l : list A) : forall n v l', set_nth l n v = Some l' -> Forall Q l -> Q v -> Forall Q l'.
Proof.
  induction l as [|a t IH]; intros n v l' H F Qv; simpl in H; [discriminate|].
  inversion F as [|? ? Qa Ft]; subst. destruct n.
  - inversion H; subst. constructor; assumption.
  - destruct (set_nth t n v) as [t'|] eqn:E; [|discriminate]. inversion H; subst. constructor; [exact Qa|]. eapply IH; eauto.
Qed.

Ltac chk_i := rewrite chk_ok by (unfold I32_MIN, I32_MAX in *; nia); cbn [bind].

(* ---------- set_pixel / get_pixel: every coordinate ---------- *)
Lemma igs_set_pixel_ok e x y c : InvE e -> (c < 16)%N ->
  exists scr, igs_set_pixel e x y c = Ok (e_upd_screen e scr) /\ length scr = length (e_screen e) /\ PensOk scr.
Proof.
  intros I C. pose proof (wh_bounds e I) as [BW BH]. pose proof I as (_ & L & _ & _ & S & _).
  unfold igs_set_pixel.
  destruct ((x <? 0) || (y <? 0) || (e_w e <=? x) || (e_h e <=? y)) eqn:G; [exists (e_screen e); rewrite e_upd_id; auto|].
  repeat (apply orb_false_iff in G; destruct G as [G ?]).
  apply Z.ltb_ge in G. repeat match goal with H : (_ <? _) = false |- _ => apply Z.ltb_ge in H | H : (_ <=? _) = false |- _ => apply Z.leb_gt in H end.
  repeat chk_i.
  destruct ((y * e_w e + x <? 0) || (Z.of_nat (length (e_screen e)) <=? y * e_w e + x)) eqn:G2; [exists (e_screen e); rewrite e_upd_id; auto|].
  apply orb_false_iff in G2. destruct G2 as [G1 G2]. apply Z.ltb_ge in G1. apply Z.leb_gt in G2.
  destruct (set_nth_some (e_screen e) (Z.to_nat (y * e_w e + x)) c) as [scr ES]; [lia|]. rewrite ES. cbn [bind].
  exists scr. split; [reflexivity|split; [eapply set_nth_length; eauto|eapply set_nth_Forall; eauto]].
Qed.

Lemma igs_get_pixel_ok e x y : InvE e -> exists v, igs_get_pixel e x y = Ok v.
Proof.
  intros I. pose proof (wh_bounds e I) as [BW BH]. unfold igs_get_pixel.
  destruct ((x <? 0) || (y <? 0) || (e_w e <=? x) || (e_h e <=? y)) eqn:G; [eauto|].
  repeat (apply orb_false_iff in G; destruct G as [G ?]).
  apply Z.ltb_ge in G. repeat match goal with H : (_ <? _) = false |- _ => apply Z.ltb_ge in H | H : (_ <=? _) = false |- _ => apply Z.leb_gt in H end.
  repeat chk_i.
  destruct ((y * e_w e + x <? 0) || (Z.of_nat (length (e_screen e)) <=? y * e_w e + x)) eqn:G2; [eauto|].
  apply orb_false_iff in G2. destruct G2 as [G1 G2]. apply Z.ltb_ge in G1. apply Z.leb_gt in G2.
  destruct (idx_ok SITE_IGS_SCREEN (e_screen e) (y * e_w e + x)) as [v [E _]]; [lia|]. eauto.
Qed.

(* the step relation of the pixel loops: the same executor with another canvas of the same size *)
Definition SameE (e0 e : iexec) : Prop := exists scr, e = e_upd_screen e0 scr /\ length scr = length (e_screen e0) /\ PensOk scr.

Lemma SameE_refl e : InvE e -> SameE e e.
Proof. intros (_ & _ & _ & _ & S & _). exists (e_screen e). rewrite e_upd_id. auto. Qed.

Lemma SameE_inv e0 e : InvE e0 -> SameE e0 e -> InvE e.
Proof. intros I (scr & -> & L & S). apply InvE_upd; assumption. Qed.

Lemma igs_fill_pixel_ok e0 e x y : InvE e0 -> SameE e0 e -> I32_MIN <= x -> I32_MIN <= y ->
  exists e', igs_fill_pixel e x y = Ok e' /\ SameE e0 e'.
Proof.
  intros I0 SE HX HY. pose proof (SameE_inv _ _ I0 SE) as I. pose proof I as (_ & _ & P & F & _).
  unfold igs_fill_pixel. destruct (Nat.eqb (length (e_pattern e)) 0) eqn:EL; [apply Nat.eqb_eq in EL; lia|].
  assert (U : 0 <= i32_as_usize y) by (unfold i32_as_usize; destruct (y <? 0) eqn:E1; [apply Z.ltb_lt in E1; unfold I32_MIN in *|apply Z.ltb_ge in E1]; lia).
  pose proof (Z.rem_bound_pos _ (Z.of_nat (length (e_pattern e))) U ltac:(lia)) as B.
  destruct (idx_ok SITE_IGS_PATTERN (e_pattern e) _ B) as [w [E _]]. rewrite E. cbn [bind].
  destruct (Z.testbit w (Z.rem (i32_as_usize x) 16)); [|eauto].
  destruct (igs_set_pixel_ok e x y (e_fill_color e) I F) as (scr & ES & LS & PS). rewrite ES.
  destruct SE as (scr0 & -> & L0 & S0). exists (e_upd_screen e0 scr). split; [reflexivity|]. exists scr. simpl in LS. split; [reflexivity|split; [lia|exact PS]].
Qed.

Lemma fill_row_ok e0 n : forall e x y, InvE e0 -> SameE e0 e -> I32_MIN <= x -> I32_MIN <= y ->
  exists e', fill_row n e x y = Ok e' /\ SameE e0 e'.
Proof.
  induction n as [|n IH]; intros e x y I0 SE HX HY; cbn [fill_row]; [eauto|].
  destruct (igs_fill_pixel_ok e0 e x y I0 SE HX HY) as (e1 & E1 & S1). rewrite E1. cbn [bind]. apply IH; auto. lia.
Qed.

Lemma fill_rows_ok e0 n : forall e x0 nx y, InvE e0 -> SameE e0 e -> I32_MIN <= x0 -> I32_MIN <= y ->
  exists e', fill_rows n e x0 nx y = Ok e' /\ SameE e0 e'.
Proof.
  induction n as [|n IH]; intros e x0 nx y I0 SE HX HY; cbn [fill_rows]; [eauto|].
  destruct (fill_row_ok e0 nx e x0 y I0 SE HX HY) as (e1 & E1 & S1). rewrite E1. cbn [bind]. apply IH; auto. lia.
Qed.

(* fill_rect: ALL coordinates *)
Lemma igs_fill_rect_ok e x0 y0 x1 y1 : InvE e -> exists e', igs_fill_rect e x0 y0 x1 y1 = Ok e' /\ SameE e e'.
Proof.
  intros I. pose proof (wh_bounds e I) as [BW BH]. unfold igs_fill_rect.
  destruct (if y1 <? y0 then (y1, y0) else (y0, y1)) as [ya yb]. destruct (if x1 <? x0 then (x1, x0) else (x0, x1)) as [xa xb].
  repeat chk_i. apply fill_rows_ok; [exact I|apply SameE_refl; exact I|unfold I32_MIN; lia|unfold I32_MIN; lia].
Qed.

(* the work of fill_rect is bounded by the canvas, whatever the coordinates *)
Lemma igs_fill_rect_cost e x0 y0 x1 y1 : InvE e -> 0 <= igs_fill_rect_calls e x0 y0 x1 y1 <= e_w e * e_h e.
Proof.
  intros I. pose proof (wh_bounds e I) as [BW BH]. unfold igs_fill_rect_calls, irange.
  destruct (if y1 <? y0 then (y1, y0) else (y0, y1)) as [ya yb]. destruct (if x1 <? x0 then (x1, x0) else (x0, x1)) as [xa xb].
  set (ny := Z.of_nat (Z.to_nat (Z.min yb (e_h e - 1) - Z.max ya 0 + 1))). set (nx := Z.of_nat (Z.to_nat (Z.min xb (e_w e - 1) - Z.max xa 0 + 1))).
  assert (0 <= ny <= e_h e) by (unfold ny; lia). assert (0 <= nx <= e_w e) by (unfold nx; lia). nia.
Qed.

(* ---------- get_picture_data ---------- *)
Lemma picture_ok pens scr : length pens = 16%nat -> PensOk scr -> exists l, picture pens scr = Ok l /\ length l = (4 * length scr)%nat.
Proof.
  intros LP. induction scr as [|i t IH]; intros S; simpl; [eauto|].
  inversion S as [|? ? Hi St]; subst.
  destruct (idx_ok SITE_IGS_PEN pens (Z.of_N i)) as [[[cr cg] cb] [E _]]; [rewrite LP; simpl; lia|]. rewrite E. cbn [bind].
  destruct (IH St) as (l & El & Ll). rewrite El. cbn [bind]. eexists. split; [reflexivity|]. simpl. lia.
Qed.

Lemma igs_picture_ok e : InvE e -> exists l, igs_picture e = Ok l /\ Z.of_nat (length l) = 4 * (e_w e * e_h e).
Proof.
  intros (_ & L & _ & _ & S & PL). destruct (picture_ok (e_pens e) (e_screen e) PL S) as (l & E & LL).
  exists l. split; [exact E|]. lia.
Qed.

(* ---------- execute_command ---------- *)
Lemma repeat_pens px n : (px < 16)%N -> PensOk (repeat px n).
Proof. intros H. apply Forall_forall. intros v IN. apply repeat_spec in IN. subst. exact H. Qed.

Lemma pattern_idx_ok (tab : list (list Z)) k : forallb (fun p => negb (Nat.eqb (length p) 0)) tab = true -> 0 <= k < Z.of_nat (length tab) ->
  exists pat, idx SITE_IGS_PATTERN tab k = Ok pat /\ (0 < length pat)%nat.
Proof.
  intros F B. destruct (idx_ok SITE_IGS_PATTERN tab k B) as [pat [E NE]]. exists pat. split; [exact E|].
  rewrite forallb_forall in F. specialize (F pat (nth_error_In _ _ NE)). apply negb_true_iff in F. apply Nat.eqb_neq in F. lia.
Qed.

Definition XPost (r : xres) : Prop := match r with XOk e' _ => InvE e' | XPanic _ => False | XUnmodelled => True end.

Lemma par_ok ps k : (k < length ps)%nat -> exists v, par ps k = Ok v.
Proof. intros H. unfold par. destruct (nth_error_some_lt ps k H) as [v E]. rewrite E. eauto. Qed.

Lemma igs_exec_ok e c ps s : InvE e -> XPost (igs_exec e c ps s).
Proof.
  intros I. pose proof I as (R & L & P & F & S & PL). pose proof (wh_bounds e I) as [BW BH].
  destruct igs_patterns_shape as (PH & PSo & PR & LT & LH & LW & FP). destruct igs_pixels_ok as (PX1 & PX2 & PX3 & LP1 & LP2).
  rewrite !forallb_app in FP. apply andb_true_iff in FP. destruct FP as [FT FP]. apply andb_true_iff in FP. destruct FP as [FH FW].
  unfold igs_exec.
  destruct (c =? 67)%N.
  { (* ColorSet *)
    destruct (Nat.eqb (length ps) 2) eqn:EL; cbn [negb xlift XPost]; [|exact I]. apply Nat.eqb_eq in EL.
    destruct (par_ok ps 0 ltac:(lia)) as [p0 E0]. destruct (par_ok ps 1 ltac:(lia)) as [p1 E1]. rewrite E0, E1. cbn [bind].
    destruct ((0 <=? p1) && (p1 <=? 15)) eqn:ER; cbn [negb xlift XPost]; [|exact I].
    apply andb_true_iff in ER. destruct ER as [R1 R2]. apply Z.leb_le in R1, R2.
    assert (V : (z_as_u8 p1 < 16)%N) by (unfold z_as_u8; rewrite Z.mod_small by lia; lia).
    destruct (p0 =? 0); [cbn [xlift XPost]; unfold InvE, e_w, e_h in *; simpl; auto 8|].
    destruct (p0 =? 1); [cbn [xlift XPost]; unfold InvE, e_w, e_h in *; simpl; auto 8|].
    destruct (p0 =? 2); [cbn [xlift XPost]; unfold InvE, e_w, e_h in *; simpl; auto 8|].
    destruct (p0 =? 3); cbn [xlift XPost]; [unfold InvE, e_w, e_h in *; simpl; auto 8|exact I]. }
  destruct (c =? 90)%N.
  { (* FilledRectangle *)
    destruct (Nat.eqb (length ps) 4) eqn:EL; cbn [negb xlift XPost]; [|exact I]. apply Nat.eqb_eq in EL.
    destruct (par_ok ps 0 ltac:(lia)) as [p0 E0]. destruct (par_ok ps 1 ltac:(lia)) as [p1 E1].
    destruct (par_ok ps 2 ltac:(lia)) as [p2 E2]. destruct (par_ok ps 3 ltac:(lia)) as [p3 E3]. rewrite E0, E1, E2, E3. cbn [bind].
    destruct (igs_fill_rect_ok e p0 p1 p2 p3 I) as (e' & E & SE). rewrite E. cbn [bind xlift XPost]. eapply SameE_inv; eauto. }
  destruct (c =? 65)%N.
  { (* AttributeForFills *)
    destruct (Nat.eqb (length ps) 3) eqn:EL; cbn [negb xlift XPost]; [|exact I]. apply Nat.eqb_eq in EL.
    destruct (par_ok ps 0 ltac:(lia)) as [p0 E0]. destruct (par_ok ps 1 ltac:(lia)) as [p1 E1]. destruct (par_ok ps 2 ltac:(lia)) as [p2 E2].
    rewrite E0, E1, E2. cbn [bind].
    assert (K : forall pat, (0 < length pat)%nat ->
                XPost (xlift (r <- Ok (Some pat) ;; match r with None => Ok (e, false) | Some pat0 =>
                       let e1 := e_with_pattern e pat0 in
                       if p2 =? 0 then Ok (e_with_border e1 false, true) else if p2 =? 1 then Ok (e_with_border e1 true, true) else Ok (e1, false) end))).
    { intros pat LPt. cbn [bind]. destruct (p2 =? 0); [cbn [xlift XPost]; unfold InvE, e_w, e_h in *; simpl; auto 8|].
      destruct (p2 =? 1); cbn [xlift XPost]; unfold InvE, e_w, e_h in *; simpl; auto 8. }
    destruct (p0 =? 0); [apply K; exact PH|]. destruct (p0 =? 1); [apply K; exact PSo|].
    destruct (p0 =? 2).
    { destruct (p1 =? 0); [apply K; exact PR|].
      destruct ((1 <=? p1) && (p1 <=? 24)) eqn:ER; [|apply K; exact PSo].
      apply andb_true_iff in ER. destruct ER as [R1 R2]. apply Z.leb_le in R1, R2.
      destruct (pattern_idx_ok TYPE_PATTERN (p1 - 1) FT ltac:(rewrite LT; simpl; lia)) as (pat & E & LPt). rewrite E. cbn [bind]. apply (K pat LPt). }
    destruct (p0 =? 3).
    { destruct ((1 <=? p1) && (p1 <=? 12)) eqn:ER; [|apply K; exact PSo].
      apply andb_true_iff in ER. destruct ER as [R1 R2]. apply Z.leb_le in R1, R2.
      destruct (p1 <=? 6) eqn:E6; [apply Z.leb_le in E6|apply Z.leb_gt in E6].
      - destruct (pattern_idx_ok HATCH_PATTERN (p1 - 1) FH ltac:(rewrite LH; simpl; lia)) as (pat & E & LPt). rewrite E. cbn [bind]. apply (K pat LPt).
      - destruct (pattern_idx_ok HATCH_WIDE_PATTERN (p1 - 7) FW ltac:(rewrite LW; simpl; lia)) as (pat & E & LPt). rewrite E. cbn [bind]. apply (K pat LPt). }
    destruct (p0 =? 4); [apply K; exact PSo|]. cbn [bind xlift XPost]. exact I. }
  destruct (c =? 115)%N.
  { (* ScreenClear *)
    unfold igs_blank. chk_i. cbn [xlift XPost]. unfold InvE, e_w, e_h in *. simpl. rewrite repeat_length.
    split; [exact R|split; [lia|split; [exact P|split; [exact F|split; [apply repeat_pens; exact PX2|exact PL]]]]]. }
  destruct (c =? 82)%N; [|
    destruct (c =? 72)%N; [destruct (Nat.eqb (length ps) 1) eqn:EL; cbn [negb xlift XPost]; [apply Nat.eqb_eq in EL; destruct (par_ok ps 0 ltac:(lia)) as [p0 E0]; rewrite E0; exact I|exact I]|];
    destruct (c =? 77)%N; [destruct (Nat.eqb (length ps) 1) eqn:EL; cbn [negb xlift XPost]; [apply Nat.eqb_eq in EL; destruct (par_ok ps 0 ltac:(lia)) as [p0 E0]; rewrite E0; exact I|exact I]|];
    destruct (c =? 83)%N; [
      destruct (Nat.eqb (length ps) 4) eqn:EL; cbn [negb xlift XPost]; [|exact I]; apply Nat.eqb_eq in EL;
      destruct (par_ok ps 0 ltac:(lia)) as [p0 E0]; destruct (par_ok ps 1 ltac:(lia)) as [p1 E1];
      destruct (par_ok ps 2 ltac:(lia)) as [p2 E2]; destruct (par_ok ps 3 ltac:(lia)) as [p3 E3]; rewrite E0, E1, E2, E3; cbn [bind];
      destruct ((0 <=? p0) && (p0 <=? 15)) eqn:ER; cbn [negb xlift XPost]; [|exact I];
      apply andb_true_iff in ER; destruct ER as [R1 R2]; apply Z.leb_le in R1, R2;
      match goal with |- context [set_nth (e_pens e) ?k ?v] => destruct (set_nth_some (e_pens e) k v ltac:(rewrite PL; lia)) as [pens ES]; rewrite ES end;
      cbn [xlift XPost]; unfold InvE, e_w, e_h in *; simpl; rewrite (set_nth_length _ _ _ _ ES); auto 8|];
    destruct (lookup c IGS_ARITY) as [n|]; [destruct (negb (Z.of_nat (length ps) =? n)); [exact I|exact Logic.I]|exact Logic.I]].
  { (* SetResolution *)
    destruct (Nat.eqb (length ps) 2) eqn:EL; cbn [negb xlift XPost]; [|exact I]. apply Nat.eqb_eq in EL.
    destruct (par_ok ps 0 ltac:(lia)) as [p0 E0]. destruct (par_ok ps 1 ltac:(lia)) as [p1 E1]. rewrite E0, E1. cbn [bind].
    destruct ((p0 =? 0) || (p0 =? 1)) eqn:ER; cbn [negb xlift XPost]; [|exact I].
    assert (R' : (Z.to_N p0 <= 2)%N) by (apply orb_true_iff in ER; destruct ER as [ER|ER]; apply Z.eqb_eq in ER; subst; discriminate).
    set (e1 := e_with_res e (Z.to_N p0)).
    pose proof (res_bounds (Z.to_N p0) R') as [BW1 BH1].
    change (e_w e1) with (fst (res_of (Z.to_N p0))). change (e_h e1) with (snd (res_of (Z.to_N p0))).
    chk_i.
    set (n := fst (res_of (Z.to_N p0)) * snd (res_of (Z.to_N p0))) in *.
    assert (I2 : InvE (if Nat.eqb (length (e_screen e1)) (Z.to_nat n) then e1 else e_upd_screen e1 (repeat IGS_SETRES_PIXEL (Z.to_nat n)))).
    { destruct (Nat.eqb (length (e_screen e1)) (Z.to_nat n)) eqn:EN.
      - apply Nat.eqb_eq in EN. unfold InvE, e_w, e_h, e1 in *. simpl in *.
        split; [exact R'|split; [fold n; lia|auto]].
      - unfold InvE, e_w, e_h, e1. simpl. rewrite repeat_length.
        split; [exact R'|split; [fold n; lia|split; [exact P|split; [exact F|split; [apply repeat_pens; exact PX3|exact PL]]]]]. }
    set (e2 := if Nat.eqb (length (e_screen e1)) (Z.to_nat n) then e1 else e_upd_screen e1 (repeat IGS_SETRES_PIXEL (Z.to_nat n))) in *.
    destruct I2 as (R2 & L2 & P2 & F2 & S2 & PL2).
    destruct (p1 =? 0); [cbn [xlift XPost]; unfold InvE; auto 8|].
    destruct (p1 =? 1); [cbn [xlift XPost]; unfold InvE, e_w, e_h in *; simpl; auto 8|].
    destruct (p1 =? 2); cbn [xlift XPost]; unfold InvE, e_w, e_h in *; simpl; auto 8. }
Qed.

Lemma iexec_new_inv : InvE iexec_new.
Proof.
  destruct igs_pixels_ok as (PX1 & _ & _ & LP1 & _). destruct igs_patterns_shape as (_ & PSo & _).
  unfold InvE, iexec_new, e_w, e_h. cbn [e_res e_screen e_pattern e_fill_color e_pens].
  pose proof (res_bounds 0%N ltac:(discriminate)) as [BW BH].
  split; [discriminate|split; [rewrite repeat_length; nia|split; [exact PSo|split; [reflexivity|split; [apply repeat_pens; exact PX1|exact LP1]]]]].
Qed.

(* the total executor: an invariant of the executor state *)
Definition XInv (x : xstate) : Prop := match x with SOkE e => InvE e | SPanicE _ => False | SUnmodelledE => True end.

Lemma igs_x_inv x c ps s : XInv x -> XInv (fst (igs_x x c ps s)).
Proof.
  destruct x as [e|p|]; intros H; simpl in *; [|contradiction|exact I].
  pose proof (igs_exec_ok e c ps s H) as Q. destruct (igs_exec e c ps s); simpl in *; auto.
Qed.

(* ---------- the whole IGS parser over the pixel kernel ---------- *)
Lemma igs_kernel_run_ok (FS : Type) (fb_print : FS -> N -> FS * bool) es : forall w,
  IgsInvN (w_p xstate FS w) -> XInv (w_x xstate FS w) ->
  match igs_run xstate igs_x FS fb_print w es with
  | Ok w' => IgsInvN (w_p xstate FS w') /\ XInv (w_x xstate FS w')
  | Panic _ => False
  end.
Proof.
  intros w HI HX.
  pose proof (igs_run_post xstate igs_x FS fb_print es w HI) as A.
  pose proof (igs_run_Q xstate igs_x FS fb_print XInv (fun x c ps s _ => igs_x_inv x c ps s) es w (proj2 HI) HX) as B.
  destruct (igs_run xstate igs_x FS fb_print w es); [split; assumption|exact A].
Qed.

Definition igs_world_init (FS : Type) (fs : FS) : iworld xstate FS := {| w_p := ipars_new; w_x := SOkE iexec_new; w_fb := fs |}.

Lemma igs_stream_kernel_lemma (FS : Type) (fb_print : FS -> N -> FS * bool) (fs : FS) es :
  match igs_run xstate igs_x FS fb_print (igs_world_init FS fs) es with
  | Ok w' => IgsInvN (w_p xstate FS w') /\
             match w_x xstate FS w' with
             | SOkE e => InvE e /\ exists px, igs_picture e = Ok px /\ Z.of_nat (length px) = 4 * (e_w e * e_h e)
             | SPanicE _ => False
             | SUnmodelledE => True
             end
  | Panic _ => False
  end.
Proof.
  pose proof (igs_kernel_run_ok FS fb_print es (igs_world_init FS fs) ipars_new_invN iexec_new_inv) as Q.
  destruct (igs_run xstate igs_x FS fb_print (igs_world_init FS fs) es) as [w'|s]; [|exact Q].
  destruct Q as [A B]. split; [exact A|]. destruct (w_x xstate FS w') as [e|p|]; simpl in B; [|contradiction|exact I].
  split; [exact B|apply igs_picture_ok; exact B].
Qed.
