(* C08 (extension), part 2: the public operations on the full document are sound edits — outside the known defect classes,
   which are predicates on the state the operation is applied to — and the history theorem over them. *)
From Coq Require Import List ZArith NArith Bool Arith Lia.
From IE Require Import Lib.C08Lib Gen.UndoGen Model.Undo Model.EditModel Model.EditOps Model.DocModel Model.DocOps Model.ScrollOps
  Proofs.UndoProofs Proofs.LayerProofs Proofs.EditProofs Proofs.ApiProofs Proofs.DocProofs Proofs.DocRowColProofs Proofs.ScrollProofs.
Import ListNotations.
Local Open Scope Z_scope.

Local Notation xlclosed := (lclosed xop_undo xop_redo xeqv).
Local Notation XUndoable := (Undoable xop_undo xop_redo xeqv).
Local Notation XRedoable := (Redoable xop_undo xop_redo xeqv).
Local Notation xedit_chain := (edit_chain xop_undo xop_redo xeqv).

Lemma xchain_trans (e1 e2 e3 : XE) : xedit_chain e1 e2 -> xedit_chain e2 e3 -> xedit_chain e1 e3.
Proof. eapply edit_chain_trans; eauto using xeqv_refl, xeqv_sym, xeqv_trans. Qed.
Lemma xchain_refl (e : XE) : xedit_chain e e.
Proof. eapply edit_chain_refl; eauto using xeqv_refl. Qed.

Lemma xpush_sound U R (e : XE) o s' : xlclosed U R -> R o (cur e) s' ->
  exists e', xpush o e = Ok e' /\ xedit_chain e e' /\ xeqv (cur e') s'.
Proof.
  intros Hc HR. unfold xpush.
  eapply push_action_chain; eauto using xeqv_refl, xeqv_sym, xeqv_trans.
  eapply leaf_Redoable; eauto.
Qed.

Lemma xplain_sound U R (e : XE) o s' : xlclosed U R -> U o (cur e) s' -> xedit_chain e (xplain o e s').
Proof.
  intros Hc HU. unfold xplain. eapply push_plain_chain; eauto using xeqv_refl, xeqv_sym, xeqv_trans.
  eapply leaf_Undoable; eauto.
Qed.

Lemma xupd_chain (e : XE) f : (forall s, xeqv (f s) s) -> xedit_chain e (xupd e f).
Proof. intro H. unfold xupd. eapply set_cur_chain; eauto using xeqv_refl, xeqv_sym, xeqv_trans. Qed.

Ltac xfinish H E C := rewrite E in H; cbn [bind] in H; try (injection H as <-); try exact C.

(* ------------------------------------------------------------------ every sound edit of the layer document is a sound edit of the full document *)
Lemma lift_edit_sound f : sound_edit op_undo op_redo eqv f -> forall e e', lift_edit f e = Ok e' -> xedit_chain e e'.
Proof.
  intros Hf e e' H. unfold lift_edit in H.
  set (e0 := mkEs (xb (cur e)) [] (match rstk e with [] => [] | _ => [Atomic []] end)) in H.
  destruct (f e0) as [e1| |] eqn:E; cbn [bind] in H; try discriminate. injection H as <-.
  destruct (Hf _ _ E) as (ops & HU & HC & HR). cbn [ustk cur rstk e0] in HU, HC, HR. rewrite app_nil_r in HU.
  exists (map xfop ops). cbn [ustk cur rstk]. split; [rewrite HU; reflexivity|]. split.
  - rewrite <- map_rev. rewrite <- (with_xb_xb (cur e)) at 1. apply UChain_lift. exact HC.
  - destruct HR as [HR|[-> HR]]; [left; rewrite HR; reflexivity|].
    right. split; [reflexivity|]. rewrite HR. unfold e0. cbn [rstk]. destruct (rstk e); reflexivity.
Qed.

(* ------------------------------------------------------------------ AtomicUndoGuard::end *)
Lemma end_always_chain (e e2 : XE) : rstk e = [] -> xedit_chain e e2 -> xedit_chain e (end_always (length (ustk e)) e2).
Proof.
  intros Hr (ops & HU & HC & HR). unfold end_always. rewrite HU, app_length.
  replace (length ops + length (ustk e) - length (ustk e))%nat with (length ops) by lia.
  rewrite firstn_app, Nat.sub_diag, firstn_all, firstn_O, app_nil_r.
  rewrite skipn_app, Nat.sub_diag, skipn_all, skipn_O. cbn [app].
  exists [Atomic (rev ops)]. cbn [app rev cur ustk rstk]. split; [reflexivity|]. split.
  - exists (cur e2). split; [|apply xeqv_refl]. apply atomic_Undoable; eauto using xeqv_sym, xeqv_trans.
  - left. destruct HR as [HR|[_ HR]]; [exact HR|]. rewrite HR. exact Hr.
Qed.

Lemma xguarded_end_chain (body : XE -> res XE) e e' :
  (forall e2, body (mkEs (cur e) (ustk e) []) = Ok e2 -> xedit_chain (mkEs (cur e) (ustk e) []) e2) ->
  xguarded_end body e = Ok e' -> xedit_chain e e'.
Proof.
  intros Hb. unfold xguarded_end. cbn [begin_guard].
  destruct (body (mkEs (cur e) (ustk e) [])) as [e2| |] eqn:E; cbn [bind]; [|discriminate|discriminate].
  intro H. injection H as <-. specialize (Hb e2 eq_refl).
  eapply xchain_trans; [apply (begin_guard_chain xop_undo xop_redo xeqv xeqv_refl e)|]. cbn [begin_guard snd].
  apply (end_always_chain (mkEs (cur e) (ustk e) []) e2 eq_refl Hb).
Qed.

Lemma xguarded_chain (body : XE -> res XE) e e' :
  (forall e2, body (mkEs (cur e) (ustk e) []) = Ok e2 -> xedit_chain (mkEs (cur e) (ustk e) []) e2) ->
  xguarded body e = Ok e' -> xedit_chain e e'.
Proof.
  intros Hb H. unfold xguarded in H. eapply with_guard_joint; eauto using xeqv_refl, xeqv_sym, xeqv_trans.
  intros e2 E. apply edit_chain_joint; eauto using xeqv_sym, xeqv_trans.
Qed.

(* The known defect classes this file used to carry as predicates on the state an operation is applied to (known_sauce_size, known_setfont,
   known_addfont, known_fontslot) were repaired by fix commits: every modelled operation is sound on EVERY state, `xmodelled` has no class
   index any more. The old records and their witnesses: end of this file (`*_before_fix_refuted_proof`). *)

(* ------------------------------------------------------------------ stage 1: component swaps *)
Lemma x_resize_buffer_sound w h e e' : x_resize_buffer w h e = Ok e' -> xedit_chain e e'.
Proof.
  intro H. unfold x_resize_buffer in H.
  destruct (xpush_sound _ _ e (XResizeBuffer (bw (xb (cur e))) (bh (xb (cur e))) w h (sauce_size (cur e))) (x_set_bsize (cur e) w h)
              (xstable_lclosed _ xresize_stable)) as (e1 & E1 & C1 & _).
  { exists w, h. split; [reflexivity|apply xeqv_refl]. }
  xfinish H E1 C1.
Qed.

Lemma x_switch_to_palette_sound p e e' : x_switch_to_palette p e = Ok e' -> xedit_chain e e'.
Proof.
  intro H. unfold x_switch_to_palette in H.
  destruct (xpush_sound _ _ e (XSwitchPalette p) (with_pal (cur e) p) palette_closed) as (e1 & E1 & C1 & _).
  { exists p. split; [reflexivity|apply xeqv_refl]. }
  xfinish H E1 C1.
Qed.

Lemma x_update_sauce_data_sound d e e' : x_update_sauce_data d e = Ok e' -> xedit_chain e e'.
Proof.
  intro H. unfold x_update_sauce_data in H.
  destruct (xpush_sound _ _ e (XSetSauce d) (with_sauce (cur e) d) sauce_closed) as (e1 & E1 & C1 & _).
  { exists d. split; [reflexivity|apply xeqv_refl]. }
  xfinish H E1 C1.
Qed.

Lemma x_switch_to_font_page_sound page e e' : x_switch_to_font_page page e = Ok e' -> xedit_chain e e'.
Proof.
  intro H. unfold x_switch_to_font_page in H.
  destruct (xpush_sound _ _ e (XSwitchFontPage (x_cfp (cur e)) page) (cur e) (xstable_lclosed _ xnodoc_stable)) as (e1 & E1 & C1 & _).
  { split; [left; eauto|apply xeqv_refl]. }
  xfinish H E1 C1.
Qed.

Lemma x_set_font_sound sv newf e e' : x_set_font sv newf e = Ok e' -> xedit_chain e e'.
Proof.
  intro H. unfold x_set_font in H.
  destruct ((x_fontmode (cur e) =? 0)%N && negb sv); [discriminate|].
  destruct newf as [nf|]; [|discriminate].
  destruct ((x_fontmode (cur e) =? 0)%N || (x_fontmode (cur e) =? 1)%N).
  - destruct (fget 0 (x_fonts (cur e))) as [f0|] eqn:E0; [|discriminate].
    destruct (xpush_sound _ _ e (XSetFont 0 (Some f0) nf) (with_fonts (cur e) (fset 0 nf (x_fonts (cur e)))) (xstable_lclosed _ setfont_stable)) as (e1 & E1 & C1 & _).
    { exists 0%N, nf. rewrite E0. split; [reflexivity|apply xeqv_refl]. }
    xfinish H E1 C1.
  - set (slot := x_cfp (cur e)) in *.
    destruct (xpush_sound _ _ e (XSetFont slot (fget slot (x_fonts (cur e))) nf) (with_fonts (cur e) (fset slot nf (x_fonts (cur e)))) (xstable_lclosed _ setfont_stable)) as (e1 & E1 & C1 & _).
    { exists slot, nf. split; [reflexivity|apply xeqv_refl]. }
    xfinish H E1 C1.
Qed.

Lemma x_add_ansi_font_sound page newf e e' : x_add_ansi_font page newf e = Ok e' -> xedit_chain e e'.
Proof.
  intro H. unfold x_add_ansi_font in H. destruct (x_fontmode (cur e) =? 3)%N; [|discriminate].
  destruct newf as [nf|]; [|discriminate].
  destruct (xpush_sound _ _ e (XAddFont (x_cfp (cur e)) page nf None) (with_fonts (cur e) (fset page nf (x_fonts (cur e)))) addfont_closed) as (e1 & E1 & C1 & _).
  { exists (x_cfp (cur e)), page, nf, None. split; [reflexivity|apply xeqv_refl]. }
  xfinish H E1 C1.
Qed.

Lemma x_replace_font_usage_sound from to e e' : x_replace_font_usage from to e = Ok e' -> xedit_chain e e'.
Proof.
  intro H. unfold x_replace_font_usage in H. destruct ((from =? 0)%N && negb (to =? 0)%N); [discriminate|].
  set (ncp := if (x_cfp (cur e) =? from)%N then to else x_cfp (cur e)) in H.
  set (nl := map (replace_fp from to) (xlayers (cur e))) in H.
  destruct (xpush_sound _ _ e (XReplaceFontUsage (x_cfp (cur e)) (xlayers (cur e)) ncp nl) (with_xlayers (cur e) nl) (xstable_lclosed _ replfont_stable)) as (e1 & E1 & C1 & _).
  { exists (x_cfp (cur e)), ncp, nl. split; [reflexivity|apply xeqv_refl]. }
  xfinish H E1 C1.
Qed.

Lemma x_set_ice_mode_gen_sound conv mode e e' : x_set_ice_mode_gen conv mode e = Ok e' -> xedit_chain e e'.
Proof.
  intro H. unfold x_set_ice_mode_gen in H.
  set (nl := map (map_cells (conv mode)) (xlayers (cur e))) in H.
  destruct (xpush_sound _ _ e (XSetIceMode (x_ice (cur e)) (xlayers (cur e)) mode nl) (with_ice (with_xlayers (cur e) nl) mode) (xstable_lclosed _ icemode_stable)) as (e1 & E1 & C1 & _).
  { exists mode, nl. split; [reflexivity|apply xeqv_refl]. }
  xfinish H E1 C1.
Qed.

Lemma x_set_palette_mode_gen_sound plan mode e e' : x_set_palette_mode_gen plan mode e = Ok e' -> xedit_chain e e'.
Proof.
  intro H. unfold x_set_palette_mode_gen in H. destruct (plan mode (cur e)) as [[npal nl]| |]; cbn [bind] in H; try discriminate.
  destruct (xpush_sound _ _ e (XSwitchPaletteMode (x_palmode (cur e)) (x_pal (cur e)) (xlayers (cur e)) mode npal nl)
              (with_xlayers (with_palmode (with_pal (cur e) npal) mode) nl) (xstable_lclosed _ palmode_stable)) as (e1 & E1 & C1 & _).
  { exists mode, npal, nl. split; [reflexivity|apply xeqv_refl]. }
  xfinish H E1 C1.
Qed.

Lemma xpush_fontslot_err from to pay (e : XE) : fget from (x_fonts (cur e)) = None -> xpush (XChangeFontSlot from to pay) e = Err 6.
Proof. intro Hn. unfold xpush, push_action. rewrite f_redo_leaf. cbn [xop_redo]. rewrite Hn. reflexivity. Qed.

Lemma x_change_font_slot_sound from to e e' : x_change_font_slot from to e = Ok e' -> xedit_chain e e'.
Proof.
  intro H. unfold x_change_font_slot in H. eapply xguarded_end_chain; [|exact H]. clear H e'.
  set (e0 := mkEs (cur e) (ustk e) []). intros e2 H. cbv beta in H.
  destruct (fget from (x_fonts (cur e))) as [f|] eqn:Ef.
  - destruct (xpush_sound _ _ e0 (XChangeFontSlot from to None) (with_fonts (cur e0) (fset to f (fdel from (x_fonts (cur e0))))) fontslot_closed) as (e1 & E1 & C1 & _).
    { exists from, to, f, None. split; [reflexivity|]. split; [exact Ef|apply xeqv_refl]. }
    rewrite E1 in H. eapply xchain_trans; [exact C1|]. eapply x_replace_font_usage_sound; exact H.
  - rewrite (xpush_fontslot_err from to None e0 Ef) in H. eapply x_replace_font_usage_sound; exact H.
Qed.

Lemma x_remove_font_sound font e e' : x_remove_font font e = Ok e' -> xedit_chain e e'.
Proof.
  intro H. unfold x_remove_font in H. eapply xguarded_end_chain; [|exact H]. clear H e'.
  set (e0 := mkEs (cur e) (ustk e) []). intros e2 H. cbv beta in H.
  set (e1 := match x_replace_font_usage font 0 e0 with Ok e' => e' | _ => e0 end) in H.
  assert (C01 : xedit_chain e0 e1).
  { unfold e1. destruct (x_replace_font_usage font 0 e0) as [e'| |] eqn:E; try apply xchain_refl. eapply x_replace_font_usage_sound; exact E. }
  eapply xchain_trans; [exact C01|].
  destruct (fget font (x_fonts (cur e1))) as [f|] eqn:Ef.
  - destruct (xpush_sound _ _ e1 (XRemoveFont font None) (with_fonts (cur e1) (fdel font (x_fonts (cur e1)))) remfont_closed) as (e3 & E3 & C3 & _).
    { exists font, None, f. split; [reflexivity|]. split; [exact Ef|apply xeqv_refl]. }
    xfinish H E3 C3.
  - exfalso. unfold xpush, push_action in H. rewrite f_redo_leaf in H. cbn [xop_redo] in H. rewrite Ef in H. discriminate.
Qed.

(* ================================================================================================================
   stage 2: stamp down (layer document), paste, merge down, anchor *)
Local Notation bsound_edit := (sound_edit op_undo op_redo eqv).

Lemma in_cells_xy w h x y : In (x, y) (cells_xy w h) <-> 0 <= x < w /\ 0 <= y < h.
Proof.
  unfold cells_xy. rewrite in_flat_map. split.
  - intros (x0 & Hx & H). apply in_map_iff in H. destruct H as (y0 & E & Hy). injection E as <- <-.
    apply in_zrange in Hx. apply in_zrange in Hy. auto.
  - intros [Hx Hy]. exists x. split; [apply in_zrange; exact Hx|]. apply in_map_iff. exists y. split; [reflexivity|apply in_zrange; exact Hy].
Qed.

Lemma api_stamp_layer_down_sound : bsound_edit api_stamp_layer_down.
Proof.
  intros e e' H. unfold api_stamp_layer_down, guarded in H.
  eapply with_guard_chain; eauto using eqv_refl, eqv_sym, eqv_trans.
  intros e1 e2 Hb. cbv beta in Hb.
  destruct (get_current_layer (cur e1)) as [i| |]; cbn [bind] in Hb; try discriminate.
  destruct (nth_error (layers (cur e1)) i) as [L|]; [|discriminate].
  destruct i as [|j]; [discriminate|].
  destruct (nth_error (layers (cur e1)) j) as [Bs|] eqn:Hn; [|discriminate].
  set (ax := l_ox L + l_ox Bs) in *. set (ay := l_oy L + l_oy Bs) in *.
  destruct (from_layer Bs (ax, ay, l_w L, l_h L)) as [old| |] eqn:Eo; cbn [bind] in Hb; try discriminate.
  set (B' := fold_left _ _ Bs) in Hb.
  destruct (from_layer B' (ax, ay, l_w L, l_h L)) as [new| |] eqn:En; cbn [bind] in Hb; try discriminate.
  injection Hb as <-.
  assert (Hd : differs Bs B' (ax, ay, l_w L, l_h L)).
  { unfold B'. apply fold_left_differs; [apply differs_refl|]. intros L1 [x y] Hin HL1. apply in_cells_xy in Hin.
    destruct (cell_visible _); [|exact HL1]. apply set_char_step; [exact HL1|]. apply in_cells_intro; lia. }
  eapply plain_sound; [apply (stable_lclosed _ change_stable)|].
  exists j, ax, ay, old, new, Bs, B'. split; [reflexivity|]. split; [exact Hn|]. split; [apply eqv_refl|].
  split; [eapply frame_undo; eauto|eapply frame_redo; eauto].
Qed.

Lemma xeqv_sel_none s : xeqv (with_xb s (with_sel (xb s) None)) s.
Proof. split; [exact (eqv_with_sel (xb s) None)|exact (rest_eq_refl s)]. Qed.

Lemma x_paste_clipboard_data_sound L e e' : x_paste_clipboard_data L e = Ok e' -> xedit_chain e e'.
Proof.
  intro H. unfold x_paste_clipboard_data in H.
  destruct (get_current_layer (xb (cur e))) as [c| |] eqn:Ec; cbn [bind] in H; try discriminate.
  destruct (get_current_layer_ok _ _ Ec) as (Lc & Hc).
  assert (Hlt : (c < length (xlayers (cur e)))%nat) by (apply nth_error_Some; unfold xlayers; congruence).
  destruct (xpush_sound _ _ e (XPaste c (Some L)) (with_xlayers (cur e) (insert_at (S c) L (xlayers (cur e)))) paste_closed) as (e1 & E1 & C1 & _).
  { exists c, L. split; [reflexivity|]. split; [lia|apply xeqv_refl]. }
  rewrite E1 in H. cbn [bind] in H. injection H as <-. eapply xchain_trans; [exact C1|]. apply xupd_chain. intro s. apply xeqv_sel_none.
Qed.

Lemma xeqv_clamp s : xeqv (with_xb s (clamp_cur (xb s))) s.
Proof. split; [exact (eqv_clamp_cur (xb s))|exact (rest_eq_refl s)]. Qed.

Lemma x_merge_layer_down_sound n e e' : x_merge_layer_down n e = Ok e' -> xedit_chain e e'.
Proof.
  intro H. unfold x_merge_layer_down in H. destruct n as [|j]; [discriminate|].
  destruct (length (xlayers (cur e)) <=? S j)%nat eqn:El; [discriminate|]. apply Nat.leb_gt in El.
  destruct (get_cur_layer (xb (cur e))) as [[ic Cl]|]; [|discriminate].
  destruct (l_role Cl =? 2)%N; [injection H as <-; apply xchain_refl|].
  destruct (nth_error (xlayers (cur e)) j) as [Bs|]; [|discriminate].
  destruct (nth_error (xlayers (cur e)) (S j)) as [C|]; [|discriminate].
  destruct (merge_layers Bs C) as [[M|]| |]; cbn [bind] in H; try discriminate; [|injection H as <-; apply xchain_refl].
  destruct (xpush_sound _ _ e (XMergeDown (S j) (Some M) None) (with_xlayers (cur e) (merged_list j M (xlayers (cur e)))) merge_closed) as (e1 & E1 & C1 & _).
  { exists j, None, M. split; [reflexivity|]. split; [exact El|apply xeqv_refl]. }
  rewrite E1 in H. cbn [bind] in H. injection H as <-. eapply xchain_trans; [exact C1|]. apply xupd_chain. intro s. apply xeqv_clamp.
Qed.

Lemma x_anchor_layer_sound e e' : x_anchor_layer e = Ok e' -> xedit_chain e e'.
Proof.
  intro H. unfold x_anchor_layer in H. destruct (get_cur_layer (xb (cur e))) as [[i Cl]|]; [|discriminate].
  destruct (l_role Cl =? 1)%N; [|injection H as <-; apply xchain_refl].
  eapply xguarded_chain; [|exact H]. intros e2 Hb. cbv beta in Hb.
  destruct (get_current_layer _) as [i1| |]; cbn [bind] in Hb; try discriminate.
  eapply x_merge_layer_down_sound. exact Hb.
Qed.

(* ================================================================================================================
   stage 3: crop / resize with layers *)
Lemma x_crop_rect_sound r e e' : x_crop_rect r e = Ok e' -> xedit_chain e e'.
Proof.
  intro H. unfold x_crop_rect in H. destruct r as [[[rx ry] rw] rh]. injection H as <-.
  eapply xplain_sound; [apply crop_closed|].
  exists rw, rh, (xlayers (cur e)), (crop_layers (rx, ry, rw, rh) (xlayers (cur e))).
  split; [reflexivity|]. split; [apply Forall2_leqv_refl|apply xeqv_refl].
Qed.

Lemma x_crop_sound e e' : x_crop e = Ok e' -> xedit_chain e e'.
Proof.
  intro H. unfold x_crop in H. destruct (sel (xb (cur e))); [eapply x_crop_rect_sound; eauto|injection H as <-; apply xchain_refl].
Qed.

Lemma x_resize_buffer_layers_sound w h e e' : x_resize_buffer_layers w h e = Ok e' -> xedit_chain e e'.
Proof.
  intro H. unfold x_resize_buffer_layers in H.
  destruct (crop_layers (0, 0, w, h) (xlayers (cur e))) as [|L0 lt]; [discriminate|]. injection H as <-.
  eapply xplain_sound; [apply crop_closed|].
  eexists w, h, (xlayers (cur e)), _. split; [reflexivity|]. split; [apply Forall2_leqv_refl|apply xeqv_refl].
Qed.

(* ================================================================================================================
   stage 4: the selection mask *)
Lemma xnodoc_push (e : XE) o :
  ((exists old new, o = XSwitchFontPage old new) \/ (exists old new, o = XSetMask old new) \/ (exists old sl, o = XAddToMask old sl) \/
   (exists sl old new, o = XInverse sl old new) \/ (exists sl m, o = XSelectNothing sl m)) ->
  exists e1, xpush o e = Ok e1 /\ xedit_chain e e1.
Proof.
  intro Ho. destruct (xpush_sound _ _ e o (cur e) (xstable_lclosed _ xnodoc_stable)) as (e1 & E1 & C1 & _).
  { split; [exact Ho|apply xeqv_refl]. }
  eauto.
Qed.

Lemma x_clear_selection_sound e e' : x_clear_selection e = Ok e' -> xedit_chain e e'.
Proof.
  intro H. unfold x_clear_selection in H. destruct (x_is_something_selected (cur e)); [|injection H as <-; apply xchain_refl].
  destruct (xnodoc_push (xupd e (fun s => with_xb s (with_sel (xb s) None))) (XSelectNothing (sel (xb (cur e))) (x_mask (cur e)))) as (e1 & E1 & C1).
  { right; right; right; right. eauto. }
  rewrite E1 in H. injection H as <-. eapply xchain_trans; [|exact C1]. apply xupd_chain. intro s. apply xeqv_sel_none.
Qed.

Lemma x_add_selection_to_mask_sound e e' : x_add_selection_to_mask e = Ok e' -> xedit_chain e e'.
Proof.
  intro H. unfold x_add_selection_to_mask in H. destruct (sel (xb (cur e))) as [sl|]; [|injection H as <-; apply xchain_refl].
  destruct (xnodoc_push e (XAddToMask (x_mask (cur e)) sl)) as (e1 & E1 & C1); [right; right; left; eauto|].
  xfinish H E1 C1.
Qed.

Lemma x_inverse_selection_sound e e' : x_inverse_selection e = Ok e' -> xedit_chain e e'.
Proof.
  intro H. unfold x_inverse_selection in H. injection H as <-.
  eapply xplain_sound; [apply (xstable_lclosed _ xnodoc_stable)|].
  split; [right; right; right; left; eauto|]. apply xeqv_sym. apply xeqv_sel_mask.
Qed.

Lemma x_enumerate_selections_sound f e e' : x_enumerate_selections f e = Ok e' -> xedit_chain e e'.
Proof.
  intro H. unfold x_enumerate_selections in H. destruct (get_cur_layer (xb (cur e))) as [[i L]|]; [|injection H as <-; apply xchain_refl].
  destruct (mask_eqb _ _); injection H as <-; [apply xchain_refl|].
  eapply xplain_sound; [apply (xstable_lclosed _ xnodoc_stable)|].
  split; [right; left; eauto|]. apply xeqv_sym. apply xeqv_with_mask.
Qed.

Lemma x_erase_selection_sound e e' : x_erase_selection e = Ok e' -> xedit_chain e e'.
Proof.
  intro H. unfold x_erase_selection in H. destruct (x_is_something_selected (cur e)); [|injection H as <-; apply xchain_refl].
  eapply xguarded_chain; [|exact H]. clear H e'. set (e0 := mkEs (cur e) (ustk e) []). intros e2 Hb. cbv beta in Hb.
  destruct (get_current_layer (xb (cur e0))) as [i| |] eqn:Ei; cbn [bind] in Hb; try discriminate.
  destruct (nth_error (xlayers (cur e0)) i) as [L|] eqn:Hn; [|discriminate].
  set (L' := fold_left _ (cells (l_w L) (l_h L)) L) in Hb.
  assert (Hd : differs L L' (0, 0, l_w L, l_h L)).
  { unfold L'. apply fold_left_differs; [apply differs_refl|]. intros L1 [x y] Hin HL1. apply in_cells_iff in Hin.
    destruct (x_is_selected _ _ _); [|exact HL1]. apply set_char_step; [exact HL1|]. rewrite !Z.sub_0_r. exact Hin. }
  eapply xchain_trans; [|apply x_clear_selection_sound; exact Hb].
  eapply xplain_sound; [apply (leaf_lift _ _ (stable_lclosed _ change_stable))|].
  eexists. split; [reflexivity|]. split; [|exact (rest_eq_refl (cur e0))].
  cbn [xb with_xb]. exists i, 0, 0, (snap_of_layer L), (snap_of_layer L'), L, L'. split; [reflexivity|]. split; [exact Hn|]. split; [apply eqv_refl|].
  split; [apply clone_undo; exact Hd|apply clone_redo; exact Hd].
Qed.

Lemma x_set_selection_sound sl e e' : x_set_selection sl e = Ok e' -> xedit_chain e e'.
Proof. apply lift_edit_sound. apply api_set_selection_sound. Qed.

Lemma x_line_op_sound r op : (forall e e', op e = Ok e' -> xedit_chain e e') -> forall e e', x_line_op r op e = Ok e' -> xedit_chain e e'.
Proof.
  intros Hop e e' H. unfold x_line_op in H. eapply xguarded_chain; [|exact H]. intros e2 Hb. cbv beta in Hb.
  destruct (r (xb (cur e))) as [s| |]; cbn [bind] in Hb; try discriminate.
  destruct (x_set_selection s _) as [e3| |] eqn:E3; cbn [bind] in Hb; try discriminate.
  destruct (op e3) as [e4| |] eqn:E4; cbn [bind] in Hb; try discriminate.
  eapply xchain_trans; [exact (x_set_selection_sound s _ _ E3)|].
  eapply xchain_trans; [exact (Hop _ _ E4)|]. exact (x_clear_selection_sound _ _ Hb).
Qed.

Lemma x_line_erase_sound r e e' : x_line_erase r e = Ok e' -> xedit_chain e e'.
Proof.
  intro H. unfold x_line_erase in H. eapply xguarded_chain; [|exact H]. intros e2 Hb. cbv beta in Hb.
  destruct (r (xb (cur e))) as [s| |]; cbn [bind] in Hb; try discriminate.
  destruct (x_set_selection s _) as [e3| |] eqn:E3; cbn [bind] in Hb; try discriminate.
  eapply xchain_trans; [exact (x_set_selection_sound s _ _ E3)|]. exact (x_erase_selection_sound _ _ Hb).
Qed.

(* ================================================================================================================
   stage 5: rotate_layer, scroll_area_up / down (whole layer width: the scroll records; part of it: the snapshot frame) *)
Lemma x_rotate_layer_sound rtab e e' : x_rotate_layer rtab e = Ok e' -> xedit_chain e e'.
Proof.
  intro H. unfold x_rotate_layer in H. destruct (nth_error (xlayers (cur e)) (curl (xb (cur e)))) as [L|] eqn:Hn; [|discriminate].
  destruct (layer_new (4, 0)%N (l_h L) (l_w L)) as [NL| |]; cbn [bind] in H; try discriminate.
  set (NL' := fold_left _ _ NL) in H.
  destruct (xpush_sound _ _ e (XRotate (curl (xb (cur e))) (l_lines L) (l_lines NL'))
              (with_xb (cur e) (upd_layer (xb (cur e)) (curl (xb (cur e))) (fun L0 => rot_swap L0 (l_lines NL')))) (xstable_lclosed _ rotate_stable)) as (e1 & E1 & C1 & _).
  { exists (curl (xb (cur e))), (l_lines NL'), L. split; [reflexivity|]. split; [exact Hn|apply xeqv_refl]. }
  xfinish H E1 C1.
Qed.

Lemma x_scroll_area_ud_sound up e e' : x_scroll_area_ud up e = Ok e' -> xedit_chain e e'.
Proof.
  intro H. unfold x_scroll_area_ud in H. eapply xguarded_chain; [|exact H]. clear H e'. set (e0 := mkEs (cur e) (ustk e) []).
  intros e2 Hb. cbv beta in Hb.
  destruct (get_cur_layer (xb (cur e0))) as [[i L]|] eqn:Ec; [|discriminate].
  destruct (get_cur_layer_some _ _ _ Ec) as [Hn _].
  destruct (get_area (sel (xb (cur e0))) L) as [[[ax ay] aw] ah].
  destruct (rect_is_empty (0, 0, aw, ah)); [injection Hb as <-; apply xchain_refl|].
  destruct (l_w L <=? aw); [|eapply lift_edit_sound; [apply area_body_scroll_ud_sound|exact Hb]].
  destruct up.
  - destruct (xpush_sound _ _ e0 (XScrollUp i) (with_xb (cur e0) (upd_layer (xb (cur e0)) i l_scroll_up)) (xstable_lclosed _ scroll_stable)) as (e1 & E1 & C1 & _).
    { exists i, L. split; [exact Hn|]. left. split; [reflexivity|apply xeqv_refl]. }
    xfinish Hb E1 C1.
  - destruct (xpush_sound _ _ e0 (XScrollDown i) (with_xb (cur e0) (upd_layer (xb (cur e0)) i l_scroll_down)) (xstable_lclosed _ scroll_stable)) as (e1 & E1 & C1 & _).
    { exists i, L. split; [exact Hn|]. right. split; [reflexivity|apply xeqv_refl]. }
    xfinish Hb E1 C1.
Qed.

(* ================================================================================================================
   stage 5, continued: insert / delete row and column (sound since the fix commit for C08-rowcol-raw-lines) *)
Lemma xpush_neg_row (e : XE) o i ln L : nth_error (xlayers (cur e)) i = Some L -> ln < 0 ->
  (o = XDeleteRow i ln [] \/ o = XInsertRow i ln []) -> xpush o e = Panic 42.
Proof.
  intros Hn Hln Ho. unfold xpush, push_action. rewrite f_redo_leaf.
  assert (Ha : as_index ln = Panic 42) by (unfold as_index; replace (ln <? 0) with true by (symmetry; apply Z.ltb_lt; exact Hln); reflexivity).
  destruct Ho as [-> | ->]; cbn [xop_redo]; rewrite Hn, Ha; reflexivity.
Qed.

Lemma x_delete_row_sound e e' : x_delete_row e = Ok e' -> xedit_chain e e'.
Proof.
  intro H. unfold x_delete_row in H. destruct (get_current_layer (xb (cur e))) as [i| |] eqn:Ec; cbn [bind] in H; try discriminate.
  destruct (get_current_layer_ok _ _ Ec) as (L & Hn). set (ln := caret_y (xb (cur e))) in *.
  destruct (Z_lt_ge_dec ln 0) as [Hneg|Hpos]; [rewrite (xpush_neg_row e _ i ln L Hn Hneg (or_introl eq_refl)) in H; discriminate|].
  destruct (xpush_sound _ _ e (XDeleteRow i ln []) (upd_x (cur e) i (del_row0 (Z.to_nat ln))) delrow_closed) as (e1 & E1 & C1 & _).
  { exists i, ln, [], L. split; [reflexivity|]. split; [lia|]. split; [exact Hn|apply xeqv_refl]. }
  xfinish H E1 C1.
Qed.

Lemma x_insert_row_sound e e' : x_insert_row e = Ok e' -> xedit_chain e e'.
Proof.
  intro H. unfold x_insert_row in H. destruct (get_current_layer (xb (cur e))) as [i| |] eqn:Ec; cbn [bind] in H; try discriminate.
  destruct (get_current_layer_ok _ _ Ec) as (L & Hn). set (ln := caret_y (xb (cur e))) in *.
  destruct (Z_lt_ge_dec ln 0) as [Hneg|Hpos]; [rewrite (xpush_neg_row e _ i ln L Hn Hneg (or_intror eq_refl)) in H; discriminate|].
  destruct (xpush_sound _ _ e (XInsertRow i ln []) (upd_x (cur e) i (ins_row (Z.to_nat ln) [])) insrow_closed) as (e1 & E1 & C1 & _).
  { exists i, ln, [], L. split; [reflexivity|]. split; [lia|]. split; [exact Hn|apply xeqv_refl]. }
  xfinish H E1 C1.
Qed.

Lemma x_delete_column_sound e e' : x_delete_column e = Ok e' -> xedit_chain e e'.
Proof.
  intro H. unfold x_delete_column in H. destruct (get_current_layer (xb (cur e))) as [i| |] eqn:Ec; cbn [bind] in H; try discriminate.
  destruct (get_current_layer_ok _ _ Ec) as (L & Hn). set (col := caret_x (xb (cur e))) in *.
  destruct (xpush_sound _ _ e (XDeleteColumn i col []) (upd_x (cur e) i (del_col (col_index col))) delcol_closed) as (e1 & E1 & C1 & _).
  { exists i, col, [], L. split; [reflexivity|]. split; [exact Hn|apply xeqv_refl]. }
  xfinish H E1 C1.
Qed.

Lemma x_insert_column_sound e e' : x_insert_column e = Ok e' -> xedit_chain e e'.
Proof.
  intro H. unfold x_insert_column in H. destruct (get_current_layer (xb (cur e))) as [i| |] eqn:Ec; cbn [bind] in H; try discriminate.
  destruct (get_current_layer_ok _ _ Ec) as (L & Hn). set (col := caret_x (xb (cur e))) in *.
  destruct (xpush_sound _ _ e (XInsertColumn i col) (upd_x (cur e) i (ins_col (col_index col))) (xstable_lclosed _ inscol_stable)) as (e1 & E1 & C1 & _).
  { exists i, col, L. split; [reflexivity|]. split; [exact Hn|apply xeqv_refl]. }
  xfinish H E1 C1.
Qed.

(* ================================================================================================================
   the modelled operations on the full document, each with its known class *)
(* the operations of Model/EditOps.v that read nothing but the layer document (resize_buffer and everything that reads the
   selection mask or the font table have their own definitions on the full document) *)
Inductive liftable : (E -> res E) -> Prop :=
| lf_set_char x y c : liftable (api_set_char x y c)
| lf_swap_char x1 y1 x2 y2 : liftable (api_swap_char x1 y1 x2 y2)
| lf_add_new_layer n : liftable (api_add_new_layer n)
| lf_remove_layer n : liftable (api_remove_layer n)
| lf_raise_layer n : liftable (api_raise_layer n)
| lf_lower_layer n : liftable (api_lower_layer n)
| lf_duplicate_layer n : liftable (api_duplicate_layer n)
| lf_clear_layer n : liftable (api_clear_layer n)
| lf_toggle_layer_visibility n : liftable (api_toggle_layer_visibility n)
| lf_move_layer x y : liftable (api_move_layer x y)
| lf_set_layer_size n w h : liftable (api_set_layer_size n w h)
| lf_set_selection s : liftable (api_set_selection s)
| lf_deselect : liftable api_deselect
| lf_area_op mutate : stays_inside mutate -> liftable (api_area_op mutate)
| lf_justify_left : liftable api_justify_left
| lf_justify_right : liftable api_justify_right
| lf_center : liftable api_center
| lf_make_layer_transparent : liftable api_make_layer_transparent
| lf_stamp_layer_down : liftable api_stamp_layer_down
| lf_scroll_area_lr left : liftable (api_scroll_area_lr left)
| lf_ctl_cur n : liftable (ctl_cur n)
| lf_ctl_mirror b : liftable (ctl_mirror b)
| lf_ctl_caret x y : liftable (ctl_caret x y).

Lemma liftable_sound f : liftable f -> bsound_edit f.
Proof.
  destruct 1; try (apply modelled_sound; constructor; assumption); [apply api_stamp_layer_down_sound|apply api_scroll_area_lr_sound].
Qed.

Inductive xmodelled : (XE -> res XE) -> Prop :=
| xm_lift f : liftable f -> xmodelled (lift_edit f)
| xm_flip_x ftabs : xmodelled (x_flip_x ftabs)
| xm_flip_y ftabs : xmodelled (x_flip_y ftabs)
| xm_resize_buffer w h : xmodelled (x_resize_buffer w h)
| xm_switch_to_palette p : xmodelled (x_switch_to_palette p)
| xm_update_sauce_data d : xmodelled (x_update_sauce_data d)
| xm_switch_to_font_page p : xmodelled (x_switch_to_font_page p)
| xm_set_font sv newf : xmodelled (x_set_font sv newf)
| xm_add_ansi_font page newf : xmodelled (x_add_ansi_font page newf)
| xm_replace_font_usage a b : xmodelled (x_replace_font_usage a b)
| xm_change_font_slot a b : xmodelled (x_change_font_slot a b)
| xm_remove_font f : xmodelled (x_remove_font f)
| xm_set_ice_mode conv mode : xmodelled (x_set_ice_mode_gen conv mode)
| xm_set_palette_mode plan mode : xmodelled (x_set_palette_mode_gen plan mode)
| xm_merge_layer_down n : xmodelled (x_merge_layer_down n)
| xm_anchor_layer : xmodelled x_anchor_layer
| xm_paste L : xmodelled (x_paste_clipboard_data L)
| xm_crop_rect r : xmodelled (x_crop_rect r)
| xm_crop : xmodelled x_crop
| xm_resize_buffer_layers w h : xmodelled (x_resize_buffer_layers w h)
| xm_clear_selection : xmodelled x_clear_selection
| xm_add_selection_to_mask : xmodelled x_add_selection_to_mask
| xm_inverse_selection : xmodelled x_inverse_selection
| xm_enumerate_selections f : xmodelled (x_enumerate_selections f)
| xm_erase_selection : xmodelled x_erase_selection
| xm_center_line : xmodelled x_center_line
| xm_justify_line_left : xmodelled x_justify_line_left
| xm_justify_line_right : xmodelled x_justify_line_right
| xm_erase_row : xmodelled x_erase_row
| xm_erase_row_to_start : xmodelled x_erase_row_to_start
| xm_erase_row_to_end : xmodelled x_erase_row_to_end
| xm_erase_column : xmodelled x_erase_column
| xm_erase_column_to_start : xmodelled x_erase_column_to_start
| xm_erase_column_to_end : xmodelled x_erase_column_to_end
| xm_rotate_layer rtab : xmodelled (x_rotate_layer rtab)
| xm_scroll_area_ud up : xmodelled (x_scroll_area_ud up)
| xm_delete_row : xmodelled x_delete_row
| xm_insert_row : xmodelled x_insert_row
| xm_delete_column : xmodelled x_delete_column
| xm_insert_column : xmodelled x_insert_column.

Lemma xlift_sound f : bsound_edit f -> forall e e', xlift f e = Ok e' -> xedit_chain e e'.
Proof. exact (lift_edit_sound f). Qed.

Theorem xmodelled_sound f : xmodelled f -> forall e e', f e = Ok e' -> xedit_chain e e'.
Proof.
  destruct 1 as [f Hl| | | | | | | | | | | | | | | | | | | | | | | | | | | | | | | | | | | | | | |]; intros e e' H;
  try solve [eauto using x_resize_buffer_sound, x_switch_to_palette_sound, x_update_sauce_data_sound, x_switch_to_font_page_sound,
    x_set_font_sound, x_add_ansi_font_sound, x_replace_font_usage_sound, x_change_font_slot_sound, x_remove_font_sound,
    x_set_ice_mode_gen_sound, x_set_palette_mode_gen_sound, x_merge_layer_down_sound, x_anchor_layer_sound, x_paste_clipboard_data_sound,
    x_crop_rect_sound, x_crop_sound, x_resize_buffer_layers_sound, x_clear_selection_sound, x_add_selection_to_mask_sound,
    x_inverse_selection_sound, x_enumerate_selections_sound, x_erase_selection_sound, x_rotate_layer_sound, x_scroll_area_ud_sound,
    x_line_erase_sound, x_delete_row_sound, x_insert_row_sound, x_delete_column_sound, x_insert_column_sound].
  - eapply lift_edit_sound; [apply liftable_sound; exact Hl|exact H].
  - unfold x_flip_x in H. eapply lift_edit_sound; [apply api_flip_x_sound|exact H].
  - unfold x_flip_y in H. eapply lift_edit_sound; [apply api_flip_y_sound|exact H].
  - eapply (x_line_op_sound row_sel (xlift api_center)); [apply xlift_sound, api_center_sound|exact H].
  - eapply (x_line_op_sound row_sel (xlift api_justify_left)); [apply xlift_sound, api_justify_left_sound|exact H].
  - eapply (x_line_op_sound row_sel (xlift api_justify_right)); [apply xlift_sound, api_justify_right_sound|exact H].
Qed.

(* a history: every operation is modelled and reports Ok *)
Inductive xrun : list (XE -> res XE) -> XE -> XE -> Prop :=
| xrun_nil e : xrun [] e e
| xrun_cons f fs e e1 e2 : xmodelled f -> f e = Ok e1 -> xrun fs e1 e2 -> xrun (f :: fs) e e2.

Lemma xrun_chain fs e e' : xrun fs e e' -> xedit_chain e e'.
Proof.
  induction 1 as [e|f fs e e1 e2 Hm Hf Hr IH]; [apply xchain_refl|].
  eapply xchain_trans; [eapply xmodelled_sound; eauto|exact IH].
Qed.

(* history_sound of Proofs/UndoProofs.v from a chain instead of a list of everywhere-sound edits *)
Theorem x_history_proof : forall fs (e0 en : XE) d, fresh e0 -> xrun fs e0 en ->
  let n := length (ustk en) in
  exists tl, length tl = S n /\ rstk en = [] /\
    xeqv (nth 0 tl d) (cur e0) /\ nth n tl d = cur en /\
    forall w, exists e', run_ur xop_undo xop_redo w en = Ok e' /\ xeqv (cur e') (nth (walk w n n) tl d).
Proof.
  intros fs e0 en d Hf Hrun n.
  pose proof (xrun_chain _ _ _ Hrun) as HC.
  destruct (edit_chain_zip xop_undo xop_redo xeqv xeqv_refl xeqv_sym xeqv_trans _ _ _ _ _ (fresh_zip xop_undo xop_redo xeqv xeqv_refl _ Hf) HC)
    as (mids & fut' & HZ & L & Hfut & H0).
  rewrite app_nil_r in HZ. destruct Hf as [Hu0 Hr0]. rewrite Hu0 in L. cbn [length] in L. rewrite Nat.sub_0_r in L.
  fold n in L.
  assert (fut' = []) as -> by (destruct Hfut as [|[_ ?]]; [auto|congruence]).
  assert (Hren : rstk en = []).
  { destruct HZ as (_ & _ & Hr). destruct (rstk en); [reflexivity|cbn in Hr; tauto]. }
  exists (timeline mids (cur en) []). unfold timeline.
  split; [rewrite app_length, rev_length; cbn; lia|]. split; [exact Hren|].
  split; [apply H0|]. split.
  - rewrite <- L, <- (rev_length mids). apply nth_middle.
  - intro w. destruct (interleaving_state xop_undo xop_redo xeqv w _ _ _ _ d HZ) as (e' & E & H).
    exists e'. split; [exact E|]. cbn [length] in H. rewrite Nat.add_0_r, L in H. exact H.
Qed.

(* ================================================================================================================
   a small concrete document for witnesses and Examples *)
Definition wit_base : estate := mkE 4 2 [mkLayer 0 true false false false false 0 0 0 4 2 (10, 0)%N []] 0 None false 0 0.
Definition wit_doc (f : fonts) (sa : option sauce) (fm cfp : N) : XE :=
  mkEs (mkX wit_base [0%N; 170%N] f sa 0 1 fm cfp (mkMask 4 2 [])) [] [].

(* ================================================================================================================
   the four repaired records (documentation): on a concrete document the operation followed by undo restores the document,
   while the record the code pushed BEFORE the fix commit, undone from the same state, does not.
   The old records are instances of the new ones:
     ResizeBuffer / Crop without a recorded SAUCE size            = XResizeBuffer .. None   (sauce_restore _ None is the identity)
     SetFont recording the font of slot 0 for the caret's slot    = XSetFont (caret page) (font of slot 0) new
     AddFont / ChangeFontSlot that never captured the old font    = XAddFont .. None / XChangeFontSlot .. None  undone as they are *)
Definition undo_restores (f : XE -> res XE) (e : XE) : Prop :=
  exists e1 e2, f e = Ok e1 /\ undo xop_undo e1 = Ok e2 /\ xeqv (cur e2) (cur e).
Definition old_record_fails (f : XE -> res XE) (e : XE) (old : xuop) : Prop :=
  exists e1 o' s2, f e = Ok e1 /\ xop_undo old (cur e1) = Ok (o', s2) /\ ~ xeqv s2 (cur e).
Definition before_fix_refuted (f : XE -> res XE) (e : XE) (old : xuop) : Prop := undo_restores f e /\ old_record_fails f e old.

Ltac fonts_eq_concrete :=
  let k := fresh "k" in intro k; cbn;
  repeat match goal with |- context [(k =? ?c)%N] => let E := fresh in destruct (k =? c)%N eqn:E; [apply N.eqb_eq in E; subst k; reflexivity|] end;
  reflexivity.

Lemma setfont_before_fix_refuted_proof :
  before_fix_refuted (x_set_font false (Some 8%N)) (wit_doc [(0, 1); (2, 6)]%N None 3 2) (XSetFont 2 (Some 1%N) 8).
Proof.
  split.
  - eexists _, _. split; [vm_compute; reflexivity|]. split; [vm_compute; reflexivity|].
    split; [apply eqv_refl|]. repeat split. fonts_eq_concrete.
  - eexists _, _, _. split; [vm_compute; reflexivity|]. split; [vm_compute; reflexivity|].
    intros [_ (_ & Hf & _)]. specialize (Hf 2%N). vm_compute in Hf. discriminate.
Qed.

Lemma addfont_before_fix_refuted_proof :
  before_fix_refuted (x_add_ansi_font 2 (Some 8%N)) (wit_doc [(0, 1); (2, 6)]%N None 3 0) (XAddFont 0 2 8 None).
Proof.
  split.
  - eexists _, _. split; [vm_compute; reflexivity|]. split; [vm_compute; reflexivity|].
    split; [apply eqv_refl|]. repeat split. fonts_eq_concrete.
  - eexists _, _, _. split; [vm_compute; reflexivity|]. split; [vm_compute; reflexivity|].
    intros [_ (_ & Hf & _)]. specialize (Hf 2%N). vm_compute in Hf. discriminate.
Qed.

Lemma fontslot_before_fix_refuted_proof :
  before_fix_refuted (x_change_font_slot 2 3) (wit_doc [(0, 1); (2, 6); (3, 7)]%N None 3 0) (XChangeFontSlot 2 3 None).
Proof.
  split.
  - eexists _, _. split; [vm_compute; reflexivity|]. split; [vm_compute; reflexivity|].
    split; [apply eqv_refl|]. repeat split. fonts_eq_concrete.
  - eexists _, _, _. split; [vm_compute; reflexivity|]. split; [vm_compute; reflexivity|].
    intros [_ (_ & Hf & _)]. specialize (Hf 3%N). vm_compute in Hf. discriminate.
Qed.

Lemma resize_sauce_size_before_fix_refuted_proof :
  before_fix_refuted (x_resize_buffer 3 1) (wit_doc [(0, 1)]%N (Some (mkSauce 7 3 5)) 0 0) (XResizeBuffer 4 2 3 1 None).
Proof.
  split.
  - eexists _, _. split; [vm_compute; reflexivity|]. split; [vm_compute; reflexivity|]. apply xeqv_refl.
  - eexists _, _, _. split; [vm_compute; reflexivity|]. split; [vm_compute; reflexivity|].
    intros [_ (_ & _ & Hs & _)]. vm_compute in Hs. discriminate.
Qed.
