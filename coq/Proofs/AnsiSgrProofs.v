(* C04 layer 1: the rendition refinement.  The writer's AnsiState / get_color against the parser's
   select_graphic_rendition + select_24bit_color + Caret::get_attribute.

   Main results
     sgr_sync_step : one cell.  If the writer state and the parser state are related (Rel), then after the parser has
                     consumed what get_color emitted they are related again and the parser's caret shows exactly the
                     colours / blink state of the cell that was written.
     sgr_sync_seq  : the same for every sequence of attributes, by induction, starting from the initial states. *)
From Coq Require Import NArith ZArith Bool List Lia.
From IE Require Import Lib.Tbl Lib.C04Lib Gen.Codepage Gen.AnsiConsts Model.Attr Model.AnsiWriter Model.AnsiParser
  Proofs.AnsiPalProofs.
Import ListNotations.
Local Open Scope N_scope.

(* ---------------------------------------------------------------- flag words *)
Definition getf (k : N) (a : TextAttribute) : bool := N.testbit (attr a) k.

Lemma has_flag_pow2 w k : has_flag w (2 ^ k) = N.testbit w k.
Proof. unfold has_flag. apply land_pow2_testbit. Qed.

Lemma getf_set_flag a k j on : j < 16 ->
  getf j (with_attr a (set_flag (attr a) (2 ^ k) on)) = if k =? j then on else getf j a.
Proof.
  intro Hj. unfold getf, with_attr, set_flag. cbn [attr]. destruct on.
  - rewrite lor_pow2_testbit. destruct (k =? j); [apply orb_true_r|apply orb_false_r].
  - rewrite clear_pow2_testbit by assumption. destruct (k =? j); [apply andb_false_r|apply andb_true_r].
Qed.

Lemma is_bold_getf a : is_bold a = getf 0 a. Proof. exact (has_flag_pow2 (attr a) 0). Qed.
Lemma is_faint_getf a : is_faint a = getf 1 a. Proof. exact (has_flag_pow2 (attr a) 1). Qed.
Lemma is_italic_getf a : is_italic a = getf 2 a. Proof. exact (has_flag_pow2 (attr a) 2). Qed.
Lemma is_blinking_getf a : is_blinking a = getf 3 a. Proof. exact (has_flag_pow2 (attr a) 3). Qed.
Lemma is_underlined_getf a : is_underlined a = getf 4 a. Proof. exact (has_flag_pow2 (attr a) 4). Qed.
Lemma is_dul_getf a : is_double_underlined a = getf 5 a. Proof. exact (has_flag_pow2 (attr a) 5). Qed.
Lemma is_concealed_getf a : is_concealed a = getf 6 a. Proof. exact (has_flag_pow2 (attr a) 6). Qed.
Lemma is_crossed_getf a : is_crossed_out a = getf 7 a. Proof. exact (has_flag_pow2 (attr a) 7). Qed.

(* the parser's view of an attribute: the eight rendition flags and the two colour indices *)
Record PA := mkPA {
  pa_bold : bool; pa_faint : bool; pa_italic : bool; pa_blink : bool; pa_ul : bool; pa_dul : bool;
  pa_conc : bool; pa_cross : bool; pa_fg : N; pa_bg : N }.

Definition abs (a : TextAttribute) : PA :=
  mkPA (is_bold a) (is_faint a) (is_italic a) (is_blinking a) (is_underlined a) (is_double_underlined a)
       (is_concealed a) (is_crossed_out a) (foreground_color a) (background_color a).

Lemma abs_getf a : abs a = mkPA (getf 0 a) (getf 1 a) (getf 2 a) (getf 3 a) (getf 4 a) (getf 5 a) (getf 6 a) (getf 7 a)
                                (foreground_color a) (background_color a).
Proof.
  unfold abs. rewrite is_bold_getf, is_faint_getf, is_italic_getf, is_blinking_getf, is_underlined_getf,
    is_dul_getf, is_concealed_getf, is_crossed_getf. reflexivity.
Qed.

Lemma abs_set_flag a k on : k < 16 ->
  abs (with_attr a (set_flag (attr a) (2 ^ k) on)) =
  let P := abs a in
  mkPA (if k =? 0 then on else pa_bold P) (if k =? 1 then on else pa_faint P) (if k =? 2 then on else pa_italic P)
       (if k =? 3 then on else pa_blink P) (if k =? 4 then on else pa_ul P) (if k =? 5 then on else pa_dul P)
       (if k =? 6 then on else pa_conc P) (if k =? 7 then on else pa_cross P) (pa_fg P) (pa_bg P).
Proof.
  intro Hk. rewrite !abs_getf. cbn zeta. cbn [pa_bold pa_faint pa_italic pa_blink pa_ul pa_dul pa_conc pa_cross pa_fg pa_bg].
  rewrite !getf_set_flag by lia. reflexivity.
Qed.

Lemma abs_set_fg a i : abs (set_fg a i) = let P := abs a in
  mkPA (pa_bold P) (pa_faint P) (pa_italic P) (pa_blink P) (pa_ul P) (pa_dul P) (pa_conc P) (pa_cross P) i (pa_bg P).
Proof. reflexivity. Qed.
Lemma abs_set_bg a i : abs (set_bg a i) = let P := abs a in
  mkPA (pa_bold P) (pa_faint P) (pa_italic P) (pa_blink P) (pa_ul P) (pa_dul P) (pa_conc P) (pa_cross P) (pa_fg P) i.
Proof. reflexivity. Qed.

Definition PA_default : PA := mkPA false false false false false false false false 7 0.
Lemma abs_reset a : abs (reset_color_attribute a) = PA_default.
Proof. reflexivity. Qed.
Lemma abs_default : abs default_attribute = PA_default.
Proof. reflexivity. Qed.

(* ---------------------------------------------------------------- what the parser does with the emitted numbers *)
Definition zl (l : list N) : list Z := map Z.of_N l.

Lemma sgr_loop_plain n l a pal a' :
  n <> 38%Z -> n <> 48%Z -> sgr_plain n a = Some a' -> sgr_loop (n :: l) a pal = sgr_loop l a' pal.
Proof.
  intros H1 H2 H. cbn [sgr_loop].
  apply Z.eqb_neq in H1, H2. rewrite H1, H2, H. reflexivity.
Qed.

Definition cset (b : bool) (f : TextAttribute -> TextAttribute) (a : TextAttribute) := if b then f a else a.

Lemma sgr_loop_opt (b : bool) c f l a pal :
  (forall a, sgr_plain (Z.of_N c) a = Some (f a)) -> Z.of_N c <> 38%Z -> Z.of_N c <> 48%Z ->
  sgr_loop (zl ((if b then [c] else []) ++ l)) a pal = sgr_loop (zl l) (cset b f a) pal.
Proof.
  intros H H1 H2. destruct b; [|reflexivity].
  cbn [app zl map cset]. apply sgr_loop_plain; auto.
Qed.

Definition setk (k : N) (a : TextAttribute) : TextAttribute := with_attr a (set_flag (attr a) (2 ^ k) true).

(* or-ing one flag of the abstraction *)
Definition por (k : N) (b : bool) (P : PA) : PA :=
  mkPA (if k =? 0 then pa_bold P || b else pa_bold P) (if k =? 1 then pa_faint P || b else pa_faint P)
       (if k =? 2 then pa_italic P || b else pa_italic P) (if k =? 3 then pa_blink P || b else pa_blink P)
       (if k =? 4 then pa_ul P || b else pa_ul P) (if k =? 5 then pa_dul P || b else pa_dul P)
       (if k =? 6 then pa_conc P || b else pa_conc P) (if k =? 7 then pa_cross P || b else pa_cross P)
       (pa_fg P) (pa_bg P).

Lemma abs_cset_setk k b a : k < 8 -> abs (cset b (setk k) a) = por k b (abs a).
Proof.
  intro Hk. unfold cset, setk, por. destruct b.
  - rewrite abs_set_flag by lia. cbn zeta. destruct (abs a).
    cbn [pa_bold pa_faint pa_italic pa_blink pa_ul pa_dul pa_conc pa_cross pa_fg pa_bg].
    rewrite !orb_true_r. reflexivity.
  - destruct (abs a). cbn [pa_bold pa_faint pa_italic pa_blink pa_ul pa_dul pa_conc pa_cross pa_fg pa_bg].
    rewrite !orb_false_r.
    destruct (k =? 0), (k =? 1), (k =? 2), (k =? 3), (k =? 4), (k =? 5), (k =? 6), (k =? 7); reflexivity.
Qed.

(* the eight flag codes *)
Lemma code_bold a : sgr_plain (Z.of_N SGR_BOLD) a = Some (setk 0 a). Proof. reflexivity. Qed.
Lemma code_faint a : sgr_plain (Z.of_N SGR_FAINT) a = Some (setk 1 a). Proof. reflexivity. Qed.
Lemma code_italic a : sgr_plain (Z.of_N SGR_ITALIC) a = Some (setk 2 a). Proof. reflexivity. Qed.
Lemma code_ul a : sgr_plain (Z.of_N SGR_UNDERLINE) a = Some (setk 4 a). Proof. reflexivity. Qed.
Lemma code_blink a : sgr_plain (Z.of_N SGR_BLINK) a = Some (setk 3 a). Proof. reflexivity. Qed.
Lemma code_conc a : sgr_plain (Z.of_N SGR_CONCEAL) a = Some (setk 6 a). Proof. reflexivity. Qed.
Lemma code_cross a : sgr_plain (Z.of_N SGR_CROSSED_OUT) a = Some (setk 7 a). Proof. reflexivity. Qed.
Lemma code_dul a : sgr_plain (Z.of_N SGR_DOUBLE_UNDERLINE) a = Some (setk 5 a). Proof. reflexivity. Qed.
Lemma code_reset a : sgr_plain 0%Z a = Some (reset_color_attribute a). Proof. reflexivity. Qed.

Lemma color_offsets_involution i : i < 8 -> tget COLOR_OFFSETS (tget COLOR_OFFSETS i) = i /\ tget COLOR_OFFSETS i < 8.
Proof.
  intro H.
  assert (C : i = 0 \/ i = 1 \/ i = 2 \/ i = 3 \/ i = 4 \/ i = 5 \/ i = 6 \/ i = 7) by lia.
  destruct C as [->|[->|[->|[->|[->|[->|[->| ->]]]]]]]; vm_compute; split; reflexivity.
Qed.

Lemma code_fg i a : i < 8 -> sgr_plain (Z.of_N (tget COLOR_OFFSETS i + SGR_FG_BASE)) a = Some (set_fg a i)
  /\ Z.of_N (tget COLOR_OFFSETS i + SGR_FG_BASE) <> 38%Z /\ Z.of_N (tget COLOR_OFFSETS i + SGR_FG_BASE) <> 48%Z.
Proof.
  intro H.
  assert (C : i = 0 \/ i = 1 \/ i = 2 \/ i = 3 \/ i = 4 \/ i = 5 \/ i = 6 \/ i = 7) by lia.
  destruct C as [->|[->|[->|[->|[->|[->|[->| ->]]]]]]]; (split; [reflexivity|split; discriminate]).
Qed.
Lemma code_bg i a : i < 8 -> sgr_plain (Z.of_N (tget COLOR_OFFSETS i + SGR_BG_BASE)) a = Some (set_bg a i)
  /\ Z.of_N (tget COLOR_OFFSETS i + SGR_BG_BASE) <> 38%Z /\ Z.of_N (tget COLOR_OFFSETS i + SGR_BG_BASE) <> 48%Z.
Proof.
  intro H.
  assert (C : i = 0 \/ i = 1 \/ i = 2 \/ i = 3 \/ i = 4 \/ i = 5 \/ i = 6 \/ i = 7) by lia.
  destruct C as [->|[->|[->|[->|[->|[->|[->| ->]]]]]]]; (split; [reflexivity|split; discriminate]).
Qed.

Lemma in_range_u8 e : e < 256 -> in_range 0 255 (Z.of_N e) = true.
Proof. intro H. unfold in_range. apply andb_true_intro. split; apply Z.leb_le; lia. Qed.

Lemma sgr_loop_ext_fg e l a pal : e < 256 ->
  sgr_loop (zl (SGR_EXT_FG ++ [e]) ++ l) a pal =
  let ip := pal_insert pal (pal_rgb XTERM_256_PALETTE e) in sgr_loop l (set_fg a (fst ip)) (snd ip).
Proof.
  intro H. change (zl (SGR_EXT_FG ++ [e]) ++ l) with (38%Z :: 5%Z :: Z.of_N e :: l).
  cbn [sgr_loop]. change ((38 =? 38)%Z || (38 =? 48)%Z) with true. cbv iota.
  change (5 =? 5)%Z with true. cbv iota. rewrite in_range_u8 by assumption.
  unfold zn. rewrite N2Z.id. reflexivity.
Qed.
Lemma sgr_loop_ext_bg e l a pal : e < 256 ->
  sgr_loop (zl (SGR_EXT_BG ++ [e]) ++ l) a pal =
  let ip := pal_insert pal (pal_rgb XTERM_256_PALETTE e) in sgr_loop l (set_bg a (fst ip)) (snd ip).
Proof.
  intro H. change (zl (SGR_EXT_BG ++ [e]) ++ l) with (48%Z :: 5%Z :: Z.of_N e :: l).
  cbn [sgr_loop]. change ((48 =? 38)%Z || (48 =? 48)%Z) with true. cbv iota.
  change (5 =? 5)%Z with true. cbv iota. rewrite in_range_u8 by assumption.
  unfold zn. rewrite N2Z.id. reflexivity.
Qed.

(* CSI k;r;g;b t *)
Definition apply_tc1 (t : tc4) (ap : TextAttribute * palette) : TextAttribute * palette :=
  let '(k, r, g, b) := t in select_24bit_color (Z.of_N k) (Z.of_N r) (Z.of_N g) (Z.of_N b) (fst ap) (snd ap).
Definition apply_tc (l : list tc4) (ap : TextAttribute * palette) : TextAttribute * palette :=
  fold_left (fun ap t => apply_tc1 t ap) l ap.
Definition apply_sgr (l : list N) (ap : TextAttribute * palette) : TextAttribute * palette :=
  match l with [] => ap | _ => select_graphic_rendition (zl l) (fst ap) (snd ap) end.

Lemma apply_sgr_loop l ap : apply_sgr l ap = sgr_loop (zl l) (fst ap) (snd ap).
Proof. destruct l; [destruct ap; reflexivity|reflexivity]. Qed.

Lemma tc_fg r g b a pal : r < 256 -> g < 256 -> b < 256 ->
  apply_tc1 (TC_FG, r, g, b) (a, pal) = let ip := pal_insert pal (r, g, b) in (set_fg a (fst ip), snd ip).
Proof.
  intros Hr Hg Hb. unfold apply_tc1, select_24bit_color. cbn [fst snd].
  rewrite !Z.mod_small by lia. unfold zn. rewrite !N2Z.id.
  destruct (pal_insert pal (r, g, b)) as [i p']. reflexivity.
Qed.
Lemma tc_bg r g b a pal : r < 256 -> g < 256 -> b < 256 ->
  apply_tc1 (TC_BG, r, g, b) (a, pal) = let ip := pal_insert pal (r, g, b) in (set_bg a (fst ip), snd ip).
Proof.
  intros Hr Hg Hb. unfold apply_tc1, select_24bit_color. cbn [fst snd].
  rewrite !Z.mod_small by lia. unfold zn. rewrite !N2Z.id.
  destruct (pal_insert pal (r, g, b)) as [i p']. reflexivity.
Qed.

(* ---------------------------------------------------------------- what the caret shows *)
Definition sfg (P : PA) : N := if pa_bold P && (pa_fg P <? 8) then pa_fg P + 8 else pa_fg P.
Definition sbg (cice : bool) (P : PA) : N := if cice && ((pa_bg P <? 8) && pa_blink P) then pa_bg P + 8 else pa_bg P.
Definition sblink (cice : bool) (P : PA) : bool := if cice then false else pa_blink P.
Definition plen (pal : palette) : N := N.of_nat (length pal).

(* the cell the parser stores for the current caret attribute (Caret::get_attribute), as the screen shows it *)
Definition caret_shows (cice : bool) (pal : palette) (a : TextAttribute) : rgb * rgb * bool :=
  let a' := get_attribute cice a in
  (pal_rgb pal (shown_fg a'), pal_rgb pal (background_color a'), is_blinking a').

Lemma set_is_blinking_false_abs a : abs (set_is_blinking a false) =
  let P := abs a in mkPA (pa_bold P) (pa_faint P) (pa_italic P) false (pa_ul P) (pa_dul P) (pa_conc P) (pa_cross P) (pa_fg P) (pa_bg P).
Proof. exact (abs_set_flag a 3 false eq_refl). Qed.

Lemma caret_shows_abs cice pal a :
  caret_shows cice pal a = (pal_rgb pal (sfg (abs a)), pal_rgb pal (sbg cice (abs a)), sblink cice (abs a)).
Proof.
  unfold caret_shows, get_attribute, sfg, sbg, sblink.
  destruct cice; cbn [andb]; [|reflexivity].
  set (r := if (background_color a <? 8) && is_blinking a then set_bg a (background_color a + 8) else a).
  pose proof (set_is_blinking_false_abs r) as E. cbn zeta in E.
  assert (Hb : is_bold (set_is_blinking r false) = pa_bold (abs r)) by (change (is_bold (set_is_blinking r false)) with (pa_bold (abs (set_is_blinking r false))); rewrite E; reflexivity).
  assert (Hk : is_blinking (set_is_blinking r false) = false) by (change (is_blinking (set_is_blinking r false)) with (pa_blink (abs (set_is_blinking r false))); rewrite E; reflexivity).
  unfold shown_fg, shown_fg_core. rewrite Hb, Hk.
  change (foreground_color (set_is_blinking r false)) with (foreground_color r).
  change (background_color (set_is_blinking r false)) with (background_color r).
  unfold r. cbn [abs pa_bold pa_fg pa_bg pa_blink].
  destruct ((background_color a <? 8) && is_blinking a); reflexivity.
Qed.

(* ---------------------------------------------------------------- the relation between writer and parser *)
Definition dos_prefix (pal : palette) : Prop := exists e, pal = DOS_DEFAULT_PALETTE ++ e.
Definition PalInv (pal : palette) : Prop := dos_prefix pal /\ NoDup pal.

Record Rel (cice : bool) (w : AnsiState) (P : PA) (pal : palette) : Prop := mkRel {
  r_bold : pa_bold P = st_bold w; r_faint : pa_faint P = st_faint w; r_italic : pa_italic P = st_italic w;
  r_blink : pa_blink P = st_blink w; r_ul : pa_ul P = st_ul w; r_dul : pa_dul P = st_dul w;
  r_conc : pa_conc P = st_concealed w; r_cross : pa_cross P = st_crossed w;
  r_pal : PalInv pal;
  r_fgv : pa_fg P < plen pal; r_bgv : pa_bg P < plen pal;
  r_fg : pal_rgb pal (sfg P) = st_fg w;
  r_fgidx : st_bold w = false -> in_dos (st_fg w) = true ->
            exists d, d < 8 /\ st_fg w = dos_rgb d /\ (st_fg_idx w = d \/ 8 <= st_fg_idx w);
  r_bg : pal_rgb pal (sbg cice P) = st_bg w;
  r_bgice : cice = true -> st_blink w = false -> forall d, 8 <= d -> d < 16 -> st_bg w <> dos_rgb d;
  r_bg0 : st_bg_idx w = 0 -> st_blink w = false -> st_bg w = black }.

Lemma palinv_len pal : PalInv pal -> 16 <= plen pal.
Proof. intros [[e ->] _]. unfold plen. rewrite app_length. change (length DOS_DEFAULT_PALETTE) with 16%nat. lia. Qed.

Lemma palinv_dos pal i : PalInv pal -> i < 16 -> pal_rgb pal i = dos_rgb i.
Proof. intros [[e ->] _] H. apply pal_rgb_app_l. exact H. Qed.

Lemma palinv_index pal i c : PalInv pal -> i < plen pal -> pal_rgb pal i = c -> pal_position pal c = Some i.
Proof. intros [_ ND] Hi <-. apply pal_position_nodup; assumption. Qed.

Lemma palinv_inj pal i j : PalInv pal -> i < plen pal -> j < plen pal -> pal_rgb pal i = pal_rgb pal j -> i = j.
Proof.
  intros PI Hi Hj E. pose proof (palinv_index pal i _ PI Hi eq_refl) as P1.
  pose proof (palinv_index pal j _ PI Hj eq_refl) as P2. rewrite E in P1. congruence.
Qed.

(* a colour outside the DOS palette is inserted at an index >= 16 *)
Lemma palinv_insert pal c : PalInv pal ->
  let ip := pal_insert pal c in
  PalInv (snd ip) /\ pal_extends pal (snd ip) /\ fst ip < plen (snd ip) /\ pal_rgb (snd ip) (fst ip) = c /\
  (in_dos c = false -> 16 <= fst ip).
Proof.
  intros PI. pose proof PI as [[e He] ND].
  pose proof (pal_insert_spec pal c ND) as (H1 & H2 & H3 & H4). cbn zeta.
  repeat split; try assumption.
  - destruct H3 as [f Hf]. exists (e ++ f). rewrite Hf, He. symmetry. apply app_assoc.
  - intro Hd. destruct (N.lt_ge_cases (fst (pal_insert pal c)) 16) as [L|G]; [|exact G]. exfalso.
    assert (PI' : PalInv (snd (pal_insert pal c))).
    { split; [|exact H4]. destruct H3 as [f Hf]. exists (e ++ f). rewrite Hf, He. symmetry. apply app_assoc. }
    rewrite (palinv_dos _ _ PI' L) in H1. rewrite <- H1, in_dos_dos_rgb in Hd by assumption. discriminate.
Qed.

Lemma rel_init cice pal : PalInv pal -> Rel cice init_state PA_default pal.
Proof.
  intro PI. pose proof (palinv_len _ PI) as L.
  constructor; try reflexivity; try assumption; cbn [PA_default pa_fg pa_bg init_state st_fg st_bg st_bold st_blink st_fg_idx st_bg_idx]; try lia.
  - change (sfg PA_default) with 7. apply palinv_dos; [assumption|lia].
  - intros _ _. exists 7. split; [lia|]. split; [reflexivity|left; reflexivity].
  - assert (E : sbg cice PA_default = 0) by (unfold sbg; cbn; rewrite andb_false_r; reflexivity).
    rewrite E. apply palinv_dos; [assumption|lia].
  - intros _ _ d H1 H2 E. apply dos_rgb_inj in E; lia.
Qed.

(* ---------------------------------------------------------------- domain of the source buffer *)
Definition cice_of (ice : IceMode) : bool := match ice with Ice => true | _ => false end.

(* index 0 is black (trimmed / skipped cells reload as black) and, among the indices 0..7, a dark DOS colour sits only
   at its own index (get_color takes the palette index for the DOS index when it switches bold on) *)
Definition pal_ok (bpal : palette) : Prop :=
  pal_rgb bpal 0 = black /\ forall i d, i < 8 -> d < 8 -> pal_rgb bpal i = dos_rgb d -> i = d.
Definition rgb_u8 (c : rgb) : Prop := let '(r, g, b) := c in r < 256 /\ g < 256 /\ b < 256.
Definition pal_u8 (bpal : palette) : Prop := Forall rgb_u8 bpal.
(* in ice mode the blink flag of a cell has no meaning on screen and cannot be encoded *)
Definition attr_ok (ice : IceMode) (a : TextAttribute) : Prop := ice = Ice -> is_blinking a = false.

Lemma pal_u8_rgb bpal i : pal_u8 bpal -> rgb_u8 (pal_rgb bpal i).
Proof.
  intro H. unfold pal_rgb. destruct (nth_error bpal (N.to_nat i)) eqn:E.
  - eapply Forall_forall in H; [exact H|]. eapply nth_error_In, E.
  - cbn. lia.
Qed.

(* what the cell shows in the source buffer *)
Definition src_shows (bpal : palette) (a : TextAttribute) : rgb * rgb * bool :=
  (pal_rgb bpal (shown_fg a), pal_rgb bpal (background_color a), is_blinking a).

(* ---------------------------------------------------------------- facts about gc_target *)
Record TgOK (ice : IceMode) (bpal : palette) (a : TextAttribute) (t : Target) : Prop := mkTgOK {
  t_fore : tg_fore t = pal_rgb bpal (shown_fg a);
  t_fg : tg_fg t = shown_fg a;
  t_back : tg_back t = pal_rgb bpal (background_color a);
  t_bg : tg_bg t = background_color a;
  t_fcase :
    (exists i, tg_fore_idx t = Some i /\ i < 8 /\ tg_bold t = false /\ tg_fore t = dos_rgb i) \/
    (exists i, tg_fore_idx t = Some i /\ i < 8 /\ tg_bold t = true /\ tg_fore t = dos_rgb (i + 8)) \/
    (tg_fore_idx t = None /\ in_dos (tg_fore t) = false);
  t_bcase :
    (exists i, tg_back_idx t = Some i /\ i < 8 /\ tg_back t = dos_rgb i /\ tg_blink t = is_blinking a) \/
    (exists i, tg_back_idx t = Some i /\ i < 8 /\ tg_back t = dos_rgb (i + 8) /\ tg_blink t = true /\ ice = Ice) \/
    (tg_back_idx t = None /\ tg_blink t = is_blinking a /\ (ice = Ice -> in_dos (tg_back t) = false));
  t_faint : tg_faint t = is_faint a; t_italic : tg_italic t = is_italic a; t_ul : tg_ul t = is_underlined a;
  t_dul : tg_dul t = is_double_underlined a; t_cross : tg_crossed t = is_crossed_out a;
  t_conc : tg_concealed t = is_concealed a }.

Lemma in_dos_false_position c : pal_position DOS_DEFAULT_PALETTE c = None -> in_dos c = false.
Proof.
  intro H. destruct (in_dos c) eqn:E; [|reflexivity].
  apply in_dos_position in E as [k E]. congruence.
Qed.

Lemma gc_target_ok ice bpal a : TgOK ice bpal a (gc_target ice bpal a).
Proof.
  unfold gc_target.
  set (fg := if is_bold a && (foreground_color a <? 8) then foreground_color a + 8 else foreground_color a).
  assert (Efg : fg = shown_fg a) by reflexivity.
  constructor; cbn [tg_fore tg_fg tg_back tg_bg tg_fore_idx tg_back_idx tg_bold tg_blink tg_faint tg_italic tg_ul tg_dul tg_crossed tg_concealed];
    try reflexivity.
  - (* foreground *)
    destruct (pal_position DOS_DEFAULT_PALETTE (pal_rgb bpal fg)) as [idx|] eqn:P.
    + pose proof (dos_position_lt _ _ P) as [L E].
      destruct (idx <? 8) eqn:C8; cbn [fst snd].
      * left. exists idx. apply N.ltb_lt in C8. auto.
      * apply N.ltb_ge in C8. apply N.ltb_lt in L as L'. rewrite L'. cbn [fst snd].
        right; left. exists (idx - 8). repeat split; [lia|]. replace (idx - 8 + 8) with idx by lia. symmetry; exact E.
    + right; right. split; [reflexivity|]. apply in_dos_false_position, P.
  - (* background *)
    destruct (pal_position DOS_DEFAULT_PALETTE (pal_rgb bpal (background_color a))) as [idx|] eqn:P.
    + pose proof (dos_position_lt _ _ P) as [L E]. apply N.ltb_lt in L as L'.
      destruct ice; cbn [fst snd].
      * destruct (7 <? idx) eqn:C.
        -- right; right. repeat split. discriminate.
        -- left. exists idx. apply N.ltb_ge in C. repeat split; [lia|auto].
      * rewrite L', andb_true_r. destruct (7 <? idx) eqn:C.
        -- right; right. repeat split. discriminate.
        -- left. exists idx. apply N.ltb_ge in C. repeat split; [lia|auto].
      * destruct (idx <? 8) eqn:C8; cbn [fst snd].
        -- left. exists idx. apply N.ltb_lt in C8. auto.
        -- rewrite L'. cbn [fst snd]. apply N.ltb_ge in C8. right; left. exists (idx - 8).
           repeat split; [lia|]. replace (idx - 8 + 8) with idx by lia. symmetry; exact E.
    + right; right. destruct ice; cbn [fst snd]; repeat split; try discriminate.
      intros _. apply in_dos_false_position, P.
Qed.

(* ---------------------------------------------------------------- phase A: the reset *)
Definition resetA (t : Target) (w : AnsiState) (a : TextAttribute) : TextAttribute :=
  if needs_reset t w then reset_color_attribute a else a.

Lemma needs_reset_init t : needs_reset t init_state = false.
Proof.
  unfold needs_reset. cbn [init_state st_bold st_blink st_faint st_italic st_ul st_dul st_crossed st_concealed st_fg].
  rewrite !andb_false_r. reflexivity.
Qed.

Lemma phaseA cice t w a pal l :
  Rel cice w (abs a) pal ->
  sgr_loop (zl (snd (gc_reset t w) ++ l)) a pal = sgr_loop (zl l) (resetA t w a) pal
  /\ Rel cice (fst (gc_reset t w)) (abs (resetA t w a)) pal
  /\ needs_reset t (fst (gc_reset t w)) = false.
Proof.
  intro R. unfold gc_reset, resetA. destruct (needs_reset t w) eqn:E; cbn [fst snd].
  - split; [|split].
    + cbn [app zl map]. apply sgr_loop_plain; [discriminate|discriminate|apply code_reset].
    + rewrite abs_reset. apply rel_init. exact (r_pal _ _ _ _ R).
    + apply needs_reset_init.
  - split; [reflexivity|]. split; [exact R|exact E].
Qed.

Lemma needs_reset_false t w : needs_reset t w = false ->
  (negb (tg_bold t) && st_bold w = false) /\ (negb (tg_blink t) && st_blink w = false) /\
  (negb (tg_italic t) && st_italic w = false) /\ (negb (tg_faint t) && st_faint w = false) /\
  (negb (tg_ul t) && st_ul w = false) /\ (negb (tg_dul t) && st_dul w = false) /\
  (negb (tg_crossed t) && st_crossed w = false) /\ (negb (tg_concealed t) && st_concealed w = false) /\
  (tg_bold t && negb (st_bold w) && negb (in_dos (st_fg w)) = false).
Proof.
  unfold needs_reset. intro H.
  repeat (apply orb_false_elim in H as [H ?]). repeat split; assumption.
Qed.

(* ---------------------------------------------------------------- phase B: switching flags on *)
Definition flagsB (t : Target) (w : AnsiState) (a : TextAttribute) : TextAttribute :=
  cset (tg_dul t && negb (st_dul w)) (setk 5)
  (cset (tg_crossed t && negb (st_crossed w)) (setk 7)
  (cset (tg_concealed t && negb (st_concealed w)) (setk 6)
  (cset (tg_blink t && negb (st_blink w)) (setk 3)
  (cset (tg_ul t && negb (st_ul w)) (setk 4)
  (cset (tg_italic t && negb (st_italic w)) (setk 2)
  (cset (tg_faint t && negb (st_faint w)) (setk 1)
  (cset (tg_bold t && negb (st_bold w)) (setk 0) a))))))).

Lemma phaseB_parse t w a pal l :
  sgr_loop (zl (snd (gc_flags t w) ++ l)) a pal = sgr_loop (zl l) (flagsB t w a) pal.
Proof.
  unfold gc_flags, flagsB. cbn [snd]. rewrite <- !app_assoc.
  rewrite (sgr_loop_opt _ _ (setk 0)) by (first [exact code_bold|discriminate]).
  rewrite (sgr_loop_opt _ _ (setk 1)) by (first [exact code_faint|discriminate]).
  rewrite (sgr_loop_opt _ _ (setk 2)) by (first [exact code_italic|discriminate]).
  rewrite (sgr_loop_opt _ _ (setk 4)) by (first [exact code_ul|discriminate]).
  rewrite (sgr_loop_opt _ _ (setk 3)) by (first [exact code_blink|discriminate]).
  rewrite (sgr_loop_opt _ _ (setk 6)) by (first [exact code_conc|discriminate]).
  rewrite (sgr_loop_opt _ _ (setk 7)) by (first [exact code_cross|discriminate]).
  rewrite (sgr_loop_opt _ _ (setk 5)) by (first [exact code_dul|discriminate]).
  reflexivity.
Qed.

Lemma abs_flagsB t w a :
  abs (flagsB t w a) =
  let P := abs a in
  mkPA (pa_bold P || (tg_bold t && negb (st_bold w))) (pa_faint P || (tg_faint t && negb (st_faint w)))
       (pa_italic P || (tg_italic t && negb (st_italic w))) (pa_blink P || (tg_blink t && negb (st_blink w)))
       (pa_ul P || (tg_ul t && negb (st_ul w))) (pa_dul P || (tg_dul t && negb (st_dul w)))
       (pa_conc P || (tg_concealed t && negb (st_concealed w))) (pa_cross P || (tg_crossed t && negb (st_crossed w)))
       (pa_fg P) (pa_bg P).
Proof.
  unfold flagsB. rewrite !abs_cset_setk by lia. destruct (abs a). reflexivity.
Qed.

Lemma flag_on tg st : negb tg && st = false -> st || (tg && negb st) = tg.
Proof. destruct tg, st; cbn; congruence. Qed.

(* after phase B: flags settled, colours possibly stale but then different from the target *)
Record RelB (cice : bool) (t : Target) (w : AnsiState) (P : PA) (pal : palette) : Prop := mkRelB {
  b_bold : st_bold w = tg_bold t; b_blink : st_blink w = tg_blink t; b_faint : st_faint w = tg_faint t;
  b_italic : st_italic w = tg_italic t; b_ul : st_ul w = tg_ul t; b_dul : st_dul w = tg_dul t;
  b_cross : st_crossed w = tg_crossed t; b_conc : st_concealed w = tg_concealed t;
  b_pbold : pa_bold P = st_bold w; b_pfaint : pa_faint P = st_faint w; b_pitalic : pa_italic P = st_italic w;
  b_pblink : pa_blink P = st_blink w; b_pul : pa_ul P = st_ul w; b_pdul : pa_dul P = st_dul w;
  b_pconc : pa_conc P = st_concealed w; b_pcross : pa_cross P = st_crossed w;
  b_pal : PalInv pal; b_fgv : pa_fg P < plen pal; b_bgv : pa_bg P < plen pal;
  b_fg : pal_rgb pal (sfg P) = st_fg w \/ st_fg w <> tg_fore t;
  b_fgidx : st_bold w = false -> in_dos (st_fg w) = true ->
            exists d, d < 8 /\ st_fg w = dos_rgb d /\ (st_fg_idx w = d \/ 8 <= st_fg_idx w);
  b_bg : pal_rgb pal (sbg cice P) = st_bg w \/ st_bg w <> tg_back t;
  b_bgice : cice = true -> st_blink w = false -> forall d, 8 <= d -> d < 16 -> st_bg w <> dos_rgb d;
  b_bg0 : st_bg_idx w = 0 -> st_blink w = false -> st_bg w = black }.

Lemma phaseB_rel ice bpal a t w P pal :
  TgOK ice bpal a t -> attr_ok ice a ->
  Rel (cice_of ice) w P pal -> needs_reset t w = false ->
  let P2 := mkPA (pa_bold P || (tg_bold t && negb (st_bold w))) (pa_faint P || (tg_faint t && negb (st_faint w)))
       (pa_italic P || (tg_italic t && negb (st_italic w))) (pa_blink P || (tg_blink t && negb (st_blink w)))
       (pa_ul P || (tg_ul t && negb (st_ul w))) (pa_dul P || (tg_dul t && negb (st_dul w)))
       (pa_conc P || (tg_concealed t && negb (st_concealed w))) (pa_cross P || (tg_crossed t && negb (st_crossed w)))
       (pa_fg P) (pa_bg P) in
  RelB (cice_of ice) t (fst (gc_flags t w)) P2 pal.
Proof.
  intros TG AO R NR P2.
  apply needs_reset_false in NR as (N1 & N2 & N3 & N4 & N5 & N6 & N7 & N8 & N9).
  destruct R as [R1 R2 R3 R4 R5 R6 R7 R8 RP RFV RBV RF RFI RB RBI RB0].
  pose proof (palinv_len _ RP) as LEN.
  unfold gc_flags. cbn [fst].
  constructor; cbn [st_bold st_blink st_faint st_italic st_ul st_dul st_crossed st_concealed st_fg st_fg_idx st_bg st_bg_idx];
    unfold P2; cbn [pa_bold pa_faint pa_italic pa_blink pa_ul pa_dul pa_conc pa_cross pa_fg pa_bg];
    try (apply flag_on; assumption); try (f_equal; assumption); try assumption.
  - (* foreground link *)
    destruct (tg_bold t && negb (st_bold w)) eqn:BB.
    + apply andb_prop in BB as [TB SB]. apply negb_true_iff in SB.
      cbn [andb] in N9. apply negb_false_iff in N9.
      destruct (RFI SB N9) as (d & Hd & Ed & Hidx).
      assert (PB : pa_bold P = false) by congruence.
      assert (Efg : pa_fg P = d).
      { apply (palinv_inj pal); [assumption|assumption|lia|].
        unfold sfg in RF. rewrite PB in RF. cbn [andb] in RF. rewrite RF, Ed. symmetry. apply palinv_dos; [assumption|lia]. }
      unfold sfg. cbn [pa_bold pa_fg]. rewrite PB. cbn [orb andb]. rewrite Efg.
      assert (L8 : (d <? 8) = true) by (apply N.ltb_lt; exact Hd). rewrite L8.
      destruct Hidx as [Hi|Hi].
      * left. rewrite Hi. assert (L16 : (d + 8 <? 16) = true) by (apply N.ltb_lt; lia). rewrite L16.
        apply palinv_dos; [assumption|lia].
      * right. assert (L16 : (st_fg_idx w + 8 <? 16) = false) by (apply N.ltb_ge; lia). rewrite L16.
        rewrite Ed. intro E.
        destruct (t_fcase _ _ _ _ TG) as [(i & _ & _ & Hb & _)|[(i & _ & Hi8 & _ & Ef)|(_ & Hnd)]].
        -- congruence.
        -- rewrite Ef in E. apply dos_rgb_inj in E; lia.
        -- rewrite <- E, in_dos_dos_rgb in Hnd by lia. discriminate.
    + left. unfold sfg. cbn [pa_bold pa_fg]. rewrite orb_false_r. exact RF.
  - (* fg index invariant *)
    intros SB ID. apply orb_false_elim in SB as [SB BB]. rewrite BB in ID |- *. cbn [andb] in ID |- *.
    exact (RFI SB ID).
  - (* background link *)
    destruct (tg_blink t && negb (st_blink w)) eqn:BB.
    + apply andb_prop in BB as [TB SB]. apply negb_true_iff in SB.
      destruct ice; cbn [cice_of] in *.
      * left. unfold sbg in *. cbn [andb] in *. exact RB.
      * left. unfold sbg in *. cbn [andb] in *. exact RB.
      * right. intro E.
        destruct (t_bcase _ _ _ _ TG) as [(i & _ & _ & _ & Hk)|[(i & _ & Hi8 & Eb & _)|(_ & Hk & _)]].
        -- rewrite (AO eq_refl) in Hk. congruence.
        -- rewrite Eb in E. exact (RBI eq_refl SB (i + 8) ltac:(lia) ltac:(lia) E).
        -- rewrite (AO eq_refl) in Hk. congruence.
    + left. unfold sbg in *. cbn [pa_bg pa_blink]. rewrite orb_false_r. exact RB.
  - (* ice: background not bright while not blinking *)
    intros CI SB. apply orb_false_elim in SB as [SB _]. exact (RBI CI SB).
  - intros B0 SB. apply orb_false_elim in SB as [SB _]. exact (RB0 B0 SB).
Qed.

(* ---------------------------------------------------------------- colour operations of the parser *)
Definition AP := (TextAttribute * palette)%type.
Definition op_fg_dos (i : N) (ap : AP) : AP := (set_fg (fst ap) i, snd ap).
Definition op_bg_dos (i : N) (ap : AP) : AP := (set_bg (fst ap) i, snd ap).
Definition op_fg_ins (c : rgb) (ap : AP) : AP := let ip := pal_insert (snd ap) c in (set_fg (fst ap) (fst ip), snd ip).
Definition op_bg_ins (c : rgb) (ap : AP) : AP := let ip := pal_insert (snd ap) c in (set_bg (fst ap) (fst ip), snd ip).
Definition op_id (ap : AP) : AP := ap.

Definition same_flags (P Q : PA) : Prop :=
  pa_bold P = pa_bold Q /\ pa_faint P = pa_faint Q /\ pa_italic P = pa_italic Q /\ pa_blink P = pa_blink Q /\
  pa_ul P = pa_ul Q /\ pa_dul P = pa_dul Q /\ pa_conc P = pa_conc Q /\ pa_cross P = pa_cross Q.

Definition WFap (ap : AP) : Prop :=
  PalInv (snd ap) /\ pa_fg (abs (fst ap)) < plen (snd ap) /\ pa_bg (abs (fst ap)) < plen (snd ap).

(* an operation that touches one colour index only and may extend the palette *)
Definition GoodOp (isfg : bool) (f : AP -> AP) : Prop :=
  forall ap, WFap ap ->
    WFap (f ap) /\ pal_extends (snd ap) (snd (f ap)) /\ same_flags (abs (fst ap)) (abs (fst (f ap))) /\
    (if isfg then pa_bg (abs (fst (f ap))) = pa_bg (abs (fst ap)) else pa_fg (abs (fst (f ap))) = pa_fg (abs (fst ap))).

Lemma same_flags_refl P : same_flags P P.
Proof. repeat split. Qed.

Lemma plen_extends p q : pal_extends p q -> plen p <= plen q.
Proof. intro H. apply pal_extends_len in H. unfold plen. lia. Qed.

Lemma good_id b : GoodOp b op_id.
Proof.
  intros ap W. unfold op_id. split; [exact W|]. split; [apply pal_extends_refl|]. split; [apply same_flags_refl|].
  destruct b; reflexivity.
Qed.

Lemma good_fg_dos i : i < 8 -> GoodOp true (op_fg_dos i).
Proof.
  intros Hi [a pal] (PI & FV & BV). unfold op_fg_dos, WFap. cbn [fst snd] in *.
  pose proof (palinv_len _ PI). rewrite !abs_set_fg. cbn zeta. cbn [pa_fg pa_bg].
  split; [split; [exact PI|split; [lia|exact BV]]|].
  split; [apply pal_extends_refl|]. split; [repeat split|reflexivity].
Qed.
Lemma good_bg_dos i : i < 8 -> GoodOp false (op_bg_dos i).
Proof.
  intros Hi [a pal] (PI & FV & BV). unfold op_bg_dos, WFap. cbn [fst snd] in *.
  pose proof (palinv_len _ PI). rewrite !abs_set_bg. cbn zeta. cbn [pa_fg pa_bg].
  split; [split; [exact PI|split; [exact FV|lia]]|].
  split; [apply pal_extends_refl|]. split; [repeat split|reflexivity].
Qed.
Lemma good_fg_ins c : GoodOp true (op_fg_ins c).
Proof.
  intros [a pal] (PI & FV & BV). unfold op_fg_ins, WFap. cbn [fst snd] in *.
  pose proof (palinv_insert pal c PI) as (PI' & EX & LT & _ & _). cbn zeta in *.
  rewrite !abs_set_fg. cbn zeta. cbn [pa_fg pa_bg]. pose proof (plen_extends _ _ EX).
  split; [split; [exact PI'|split; [exact LT|lia]]|].
  split; [exact EX|]. split; [repeat split|reflexivity].
Qed.
Lemma good_bg_ins c : GoodOp false (op_bg_ins c).
Proof.
  intros [a pal] (PI & FV & BV). unfold op_bg_ins, WFap. cbn [fst snd] in *.
  pose proof (palinv_insert pal c PI) as (PI' & EX & LT & _ & _). cbn zeta in *.
  rewrite !abs_set_bg. cbn zeta. cbn [pa_fg pa_bg]. pose proof (plen_extends _ _ EX).
  split; [split; [exact PI'|split; [lia|exact LT]]|].
  split; [exact EX|]. split; [repeat split|reflexivity].
Qed.

(* the two links *)
Definition FGL (c : rgb) (ap : AP) : Prop := pal_rgb (snd ap) (sfg (abs (fst ap))) = c.
Definition BGL (cice : bool) (c : rgb) (ap : AP) : Prop := pal_rgb (snd ap) (sbg cice (abs (fst ap))) = c.

Lemma sfg_lt P pal : PalInv pal -> pa_fg P < plen pal -> sfg P < plen pal.
Proof.
  intros PI H. pose proof (palinv_len _ PI). unfold sfg.
  destruct (pa_bold P && (pa_fg P <? 8)) eqn:E; [|exact H].
  apply andb_prop in E as [_ E]. apply N.ltb_lt in E. lia.
Qed.
Lemma sbg_lt cice P pal : PalInv pal -> pa_bg P < plen pal -> sbg cice P < plen pal.
Proof.
  intros PI H. pose proof (palinv_len _ PI). unfold sbg.
  destruct (cice && ((pa_bg P <? 8) && pa_blink P)) eqn:E; [|exact H].
  apply andb_prop in E as [_ E]. apply andb_prop in E as [E _]. apply N.ltb_lt in E. lia.
Qed.

Lemma FGL_keep c f ap : GoodOp false f -> WFap ap -> FGL c ap -> FGL c (f ap).
Proof.
  intros G W L. destruct (G ap W) as (W' & EX & (SB & _) & EF). destruct W as (PI & FV & BV).
  unfold FGL in *. unfold sfg in *. rewrite <- SB, EF.
  rewrite (pal_extends_rgb _ _ _ EX); [exact L|]. apply (sfg_lt _ _ PI FV).
Qed.
Lemma BGL_keep cice c f ap : GoodOp true f -> WFap ap -> BGL cice c ap -> BGL cice c (f ap).
Proof.
  intros G W L. destruct (G ap W) as (W' & EX & (_ & _ & _ & SK & _) & EF). destruct W as (PI & FV & BV).
  unfold BGL in *. unfold sbg in *. rewrite <- SK, EF.
  rewrite (pal_extends_rgb _ _ _ EX); [exact L|]. apply (sbg_lt _ _ _ PI BV).
Qed.

(* establishing the links *)
Lemma FGL_dos i c ap : WFap ap -> i < 8 ->
  (pa_bold (abs (fst ap)) = false /\ c = dos_rgb i) \/ (pa_bold (abs (fst ap)) = true /\ c = dos_rgb (i + 8)) ->
  FGL c (op_fg_dos i ap).
Proof.
  intros (PI & _ & _) Hi H. destruct ap as [a pal]. unfold FGL, op_fg_dos. cbn [fst snd] in *.
  rewrite abs_set_fg. cbn zeta. unfold sfg. cbn [pa_bold pa_fg].
  assert (L : (i <? 8) = true) by (apply N.ltb_lt; exact Hi). rewrite L, andb_true_r.
  destruct H as [[-> ->]|[-> ->]]; apply palinv_dos; try assumption; lia.
Qed.

Lemma FGL_ins c ap : WFap ap -> in_dos c = false -> FGL c (op_fg_ins c ap).
Proof.
  intros (PI & _ & _) Hd. destruct ap as [a pal]. unfold FGL, op_fg_ins. cbn [fst snd] in *.
  pose proof (palinv_insert pal c PI) as (_ & _ & _ & E & G). cbn zeta in *. specialize (G Hd).
  rewrite abs_set_fg. cbn zeta. unfold sfg. cbn [pa_bold pa_fg].
  assert (L : (fst (pal_insert pal c) <? 8) = false) by (apply N.ltb_ge; lia). rewrite L, andb_false_r. exact E.
Qed.

Lemma BGL_dos cice i c ap : WFap ap -> i < 8 ->
  (c = dos_rgb i /\ (cice = true -> pa_blink (abs (fst ap)) = false)) \/
  (c = dos_rgb (i + 8) /\ cice = true /\ pa_blink (abs (fst ap)) = true) ->
  BGL cice c (op_bg_dos i ap).
Proof.
  intros (PI & _ & _) Hi H. destruct ap as [a pal]. unfold BGL, op_bg_dos. cbn [fst snd] in *.
  rewrite abs_set_bg. cbn zeta. unfold sbg. cbn [pa_blink pa_bg].
  assert (L : (i <? 8) = true) by (apply N.ltb_lt; exact Hi). rewrite L. cbn [andb].
  destruct H as [[-> H]|(-> & -> & ->)].
  - destruct cice; cbn [andb]; [rewrite (H eq_refl)|]; apply palinv_dos; try assumption; lia.
  - cbn [andb]. apply palinv_dos; [assumption|lia].
Qed.

Lemma BGL_ins cice c ap : WFap ap -> (cice = false \/ in_dos c = false) -> BGL cice c (op_bg_ins c ap).
Proof.
  intros (PI & _ & _) H. destruct ap as [a pal]. unfold BGL, op_bg_ins. cbn [fst snd] in *.
  pose proof (palinv_insert pal c PI) as (_ & _ & _ & E & G). cbn zeta in *.
  rewrite abs_set_bg. cbn zeta. unfold sbg. cbn [pa_blink pa_bg].
  destruct H as [->|Hd]; [exact E|]. specialize (G Hd).
  assert (L : (fst (pal_insert pal c) <? 8) = false) by (apply N.ltb_ge; lia). rewrite L. cbn [andb]. rewrite andb_false_r. exact E.
Qed.

(* ---------------------------------------------------------------- phases C and D: what the parser executes *)
Definition opF_s (ext : bool) (t : Target) (w : AnsiState) : AP -> AP :=
  if rgb_eqb (tg_fore t) (st_fg w) then op_id else
  match tg_fore_idx t with
  | Some i => op_fg_dos i
  | None => match ext_lookup ext (tg_fore t) with Some _ => op_fg_ins (tg_fore t) | None => op_id end
  end.
Definition opF_t (ext : bool) (t : Target) (w : AnsiState) : AP -> AP :=
  if rgb_eqb (tg_fore t) (st_fg w) then op_id else
  match tg_fore_idx t with
  | Some _ => op_id
  | None => match ext_lookup ext (tg_fore t) with Some _ => op_id | None => op_fg_ins (tg_fore t) end
  end.
Definition opB_s (ext : bool) (t : Target) (w : AnsiState) : AP -> AP :=
  if rgb_eqb (tg_back t) (st_bg w) then op_id else
  match tg_back_idx t with
  | Some i => op_bg_dos i
  | None => match ext_lookup ext (tg_back t) with Some _ => op_bg_ins (tg_back t) | None => op_id end
  end.
Definition opB_t (ext : bool) (t : Target) (w : AnsiState) : AP -> AP :=
  if rgb_eqb (tg_back t) (st_bg w) then op_id else
  match tg_back_idx t with
  | Some _ => op_id
  | None => match ext_lookup ext (tg_back t) with Some _ => op_id | None => op_bg_ins (tg_back t) end
  end.

Lemma zl_app l1 l2 : zl (l1 ++ l2) = zl l1 ++ zl l2.
Proof. apply map_app. Qed.

Lemma fore_idx_lt ice bpal a t i : TgOK ice bpal a t -> tg_fore_idx t = Some i -> i < 8.
Proof.
  intros TG H. destruct (t_fcase _ _ _ _ TG) as [(j & E & L & _)|[(j & E & L & _)|(E & _)]]; congruence.
Qed.
Lemma back_idx_lt ice bpal a t i : TgOK ice bpal a t -> tg_back_idx t = Some i -> i < 8.
Proof.
  intros TG H. destruct (t_bcase _ _ _ _ TG) as [(j & E & L & _)|[(j & E & L & _)|(E & _)]]; congruence.
Qed.

Lemma parse_fg_sgr ice bpal a ext t w l pa pal : TgOK ice bpal a t ->
  sgr_loop (zl (snd (fst (gc_fg ext t w)) ++ l)) pa pal =
  sgr_loop (zl l) (fst (opF_s ext t w (pa, pal))) (snd (opF_s ext t w (pa, pal))).
Proof.
  intro TG. unfold gc_fg, opF_s. destruct (rgb_eqb (tg_fore t) (st_fg w)); [reflexivity|].
  destruct (tg_fore_idx t) as [i|] eqn:EI.
  - cbn [fst snd app]. pose proof (fore_idx_lt _ _ _ _ _ TG EI) as Hi.
    destruct (code_fg i pa Hi) as (C1 & C2 & C3). cbn [zl map]. apply sgr_loop_plain; assumption.
  - destruct (ext_lookup ext (tg_fore t)) as [e|] eqn:EE.
    + cbn [fst snd]. apply ext_lookup_some in EE as [He Ex]. rewrite zl_app, sgr_loop_ext_fg by assumption.
      cbn zeta. rewrite Ex. reflexivity.
    + destruct (tg_fore t) as [[r g] b]. reflexivity.
Qed.

Lemma parse_bg_sgr ice bpal a ext t w l pa pal : TgOK ice bpal a t ->
  sgr_loop (zl (snd (fst (gc_bg ext t w)) ++ l)) pa pal =
  sgr_loop (zl l) (fst (opB_s ext t w (pa, pal))) (snd (opB_s ext t w (pa, pal))).
Proof.
  intro TG. unfold gc_bg, opB_s. destruct (rgb_eqb (tg_back t) (st_bg w)); [reflexivity|].
  destruct (tg_back_idx t) as [i|] eqn:EI.
  - cbn [fst snd app]. pose proof (back_idx_lt _ _ _ _ _ TG EI) as Hi.
    destruct (code_bg i pa Hi) as (C1 & C2 & C3). cbn [zl map]. apply sgr_loop_plain; assumption.
  - destruct (ext_lookup ext (tg_back t)) as [e|] eqn:EE.
    + cbn [fst snd]. apply ext_lookup_some in EE as [He Ex]. rewrite zl_app, sgr_loop_ext_bg by assumption.
      cbn zeta. rewrite Ex. reflexivity.
    + destruct (tg_back t) as [[r g] b]. reflexivity.
Qed.

Lemma parse_fg_tc ext t w l ap : rgb_u8 (tg_fore t) ->
  apply_tc (snd (gc_fg ext t w) ++ l) ap = apply_tc l (opF_t ext t w ap).
Proof.
  intro U. unfold gc_fg, opF_t. destruct (rgb_eqb (tg_fore t) (st_fg w)); [reflexivity|].
  destruct (tg_fore_idx t) as [i|]; [reflexivity|].
  destruct (ext_lookup ext (tg_fore t)) as [e|]; [reflexivity|].
  destruct (tg_fore t) as [[r g] b]. destruct U as (Hr & Hg & Hb). destruct ap as [pa pal].
  cbn [snd app apply_tc fold_left]. rewrite tc_fg by assumption. reflexivity.
Qed.
Lemma parse_bg_tc ext t w l ap : rgb_u8 (tg_back t) ->
  apply_tc (snd (gc_bg ext t w) ++ l) ap = apply_tc l (opB_t ext t w ap).
Proof.
  intro U. unfold gc_bg, opB_t. destruct (rgb_eqb (tg_back t) (st_bg w)); [reflexivity|].
  destruct (tg_back_idx t) as [i|]; [reflexivity|].
  destruct (ext_lookup ext (tg_back t)) as [e|]; [reflexivity|].
  destruct (tg_back t) as [[r g] b]. destruct U as (Hr & Hg & Hb). destruct ap as [pa pal].
  cbn [snd app apply_tc fold_left]. rewrite tc_bg by assumption. reflexivity.
Qed.

Lemma good_opF_s ice bpal a ext t w : TgOK ice bpal a t -> GoodOp true (opF_s ext t w).
Proof.
  intro TG. unfold opF_s. destruct (rgb_eqb _ _); [apply good_id|].
  destruct (tg_fore_idx t) eqn:E; [apply good_fg_dos, (fore_idx_lt _ _ _ _ _ TG E)|].
  destruct (ext_lookup _ _); [apply good_fg_ins|apply good_id].
Qed.
Lemma good_opF_t ext t w : GoodOp true (opF_t ext t w).
Proof.
  unfold opF_t. destruct (rgb_eqb _ _); [apply good_id|].
  destruct (tg_fore_idx t); [apply good_id|]. destruct (ext_lookup _ _); [apply good_id|apply good_fg_ins].
Qed.
Lemma good_opB_s ice bpal a ext t w : TgOK ice bpal a t -> GoodOp false (opB_s ext t w).
Proof.
  intro TG. unfold opB_s. destruct (rgb_eqb _ _); [apply good_id|].
  destruct (tg_back_idx t) eqn:E; [apply good_bg_dos, (back_idx_lt _ _ _ _ _ TG E)|].
  destruct (ext_lookup _ _); [apply good_bg_ins|apply good_id].
Qed.
Lemma good_opB_t ext t w : GoodOp false (opB_t ext t w).
Proof.
  unfold opB_t. destruct (rgb_eqb _ _); [apply good_id|].
  destruct (tg_back_idx t); [apply good_id|]. destruct (ext_lookup _ _); [apply good_id|apply good_bg_ins].
Qed.

Lemma same_flags_trans P Q R : same_flags P Q -> same_flags Q R -> same_flags P R.
Proof.
  intros (A1 & A2 & A3 & A4 & A5 & A6 & A7 & A8) (B1 & B2 & B3 & B4 & B5 & B6 & B7 & B8).
  repeat split; congruence.
Qed.

Lemma good_step b f ap : GoodOp b f -> WFap ap ->
  WFap (f ap) /\ pal_extends (snd ap) (snd (f ap)) /\ same_flags (abs (fst ap)) (abs (fst (f ap))).
Proof. intros G W. destruct (G ap W) as (A & B & C & _). auto. Qed.

Section Colours.
  Variables (ice : IceMode) (bpal : palette) (a : TextAttribute) (ext : bool) (t : Target) (w wb : AnsiState).
  Hypothesis TG : TgOK ice bpal a t.
  Hypothesis AO : attr_ok ice a.
  Hypothesis SBG : st_bg wb = st_bg w.
  Variable ap : AP.
  Hypothesis W : WFap ap.
  Hypothesis RB : RelB (cice_of ice) t w (abs (fst ap)) (snd ap).

  Let ap3 := opF_s ext t w ap.
  Let ap4 := opB_s ext t wb ap3.
  Let ap5 := opF_t ext t w ap4.
  Let ap6 := opB_t ext t wb ap5.

  Lemma chain_wf : WFap ap3 /\ WFap ap4 /\ WFap ap5 /\ WFap ap6 /\
    pal_extends (snd ap) (snd ap6) /\
    same_flags (abs (fst ap)) (abs (fst ap3)) /\ same_flags (abs (fst ap)) (abs (fst ap4)) /\
    same_flags (abs (fst ap)) (abs (fst ap5)) /\ same_flags (abs (fst ap)) (abs (fst ap6)).
  Proof.
    destruct (good_step _ _ ap (good_opF_s _ _ _ ext _ w TG) W) as (W3 & E3 & S3).
    destruct (good_step _ _ ap3 (good_opB_s _ _ _ ext _ wb TG) W3) as (W4 & E4 & S4).
    destruct (good_step _ _ ap4 (good_opF_t ext t w) W4) as (W5 & E5 & S5).
    destruct (good_step _ _ ap5 (good_opB_t ext t wb) W5) as (W6 & E6 & S6).
    fold ap3 in W3, E3, S3. fold ap4 in W4, E4, S4. fold ap5 in W5, E5, S5. fold ap6 in W6, E6, S6.
    pose proof (same_flags_trans _ _ _ S3 S4) as S34. pose proof (same_flags_trans _ _ _ S34 S5) as S35.
    pose proof (same_flags_trans _ _ _ S35 S6) as S36.
    split; [exact W3|]. split; [exact W4|]. split; [exact W5|]. split; [exact W6|].
    split; [eapply pal_extends_trans; [exact E3|]; eapply pal_extends_trans; [exact E4|]; eapply pal_extends_trans; [exact E5|exact E6]|].
    split; [exact S3|]. split; [exact S34|]. split; [exact S35|exact S36].
  Qed.

  Lemma fg_final : FGL (tg_fore t) ap6.
  Proof.
    destruct chain_wf as (W3 & W4 & W5 & W6 & _ & S3 & S4 & S5 & S6).
    pose proof (good_opB_s _ _ _ ext _ wb TG) as GB_s. pose proof (good_opB_t ext t wb) as GB_t.
    unfold ap6, ap5, ap4, ap3 in *. unfold opF_s, opF_t in *.
    destruct (rgb_eqb (tg_fore t) (st_fg w)) eqn:EQ.
    - (* nothing emitted *)
      apply rgb_eqb_eq in EQ.
      assert (L : FGL (tg_fore t) ap).
      { destruct (b_fg _ _ _ _ _ RB) as [L|L]; [unfold FGL; congruence|congruence]. }
      unfold op_id in *. apply FGL_keep; [exact GB_t|assumption|]. apply FGL_keep; [exact GB_s|assumption|exact L].
    - destruct (tg_fore_idx t) as [i|] eqn:EI.
      + (* a DOS colour code *)
        unfold op_id in *. apply FGL_keep; [exact GB_t|assumption|]. apply FGL_keep; [exact GB_s|assumption|].
        pose proof (fore_idx_lt _ _ _ _ _ TG EI) as Hi.
        apply FGL_dos; [exact W|exact Hi|].
        rewrite (b_pbold _ _ _ _ _ RB), (b_bold _ _ _ _ _ RB).
        destruct (t_fcase _ _ _ _ TG) as [(j & E & _ & Hb & Ef)|[(j & E & _ & Hb & Ef)|(E & _)]].
        * left. assert (j = i) by congruence. subst j. auto.
        * right. assert (j = i) by congruence. subst j. auto.
        * congruence.
      + assert (ND : in_dos (tg_fore t) = false).
        { destruct (t_fcase _ _ _ _ TG) as [(j & E & _)|[(j & E & _)|(_ & E)]]; congruence. }
        destruct (ext_lookup ext (tg_fore t)) as [e|].
        * unfold op_id in *. apply FGL_keep; [exact GB_t|assumption|]. apply FGL_keep; [exact GB_s|assumption|].
          apply FGL_ins; assumption.
        * unfold op_id in *. apply FGL_keep; [exact GB_t|assumption|]. apply FGL_ins; assumption.
  Qed.
  Lemma bg_final : BGL (cice_of ice) (tg_back t) ap6.
  Proof.
    destruct chain_wf as (W3 & W4 & W5 & W6 & _ & S3 & S4 & S5 & S6).
    pose proof (good_opF_s _ _ _ ext _ w TG) as GF_s. pose proof (good_opF_t ext t w) as GF_t.
    assert (BK : pa_blink (abs (fst ap3)) = tg_blink t).
    { destruct S3 as (_ & _ & _ & K & _). rewrite <- K, (b_pblink _ _ _ _ _ RB). exact (b_blink _ _ _ _ _ RB). }
    unfold ap6, ap5, ap4 in *. unfold opB_s, opB_t in *. rewrite SBG in *.
    destruct (rgb_eqb (tg_back t) (st_bg w)) eqn:EQ.
    - apply rgb_eqb_eq in EQ.
      assert (L : BGL (cice_of ice) (tg_back t) ap).
      { destruct (b_bg _ _ _ _ _ RB) as [L|L]; [unfold BGL; congruence|congruence]. }
      unfold op_id in *. apply BGL_keep; [exact GF_t|assumption|]. apply BGL_keep; [exact GF_s|assumption|exact L].
    - destruct (tg_back_idx t) as [i|] eqn:EI.
      + unfold op_id in *. apply BGL_keep; [exact GF_t|assumption|].
        pose proof (back_idx_lt _ _ _ _ _ TG EI) as Hi.
        apply BGL_dos; [exact W3|exact Hi|]. rewrite BK.
        destruct (t_bcase _ _ _ _ TG) as [(j & E & _ & Eb & Hk)|[(j & E & _ & Eb & Hk & HI)|(E & _)]].
        * left. assert (j = i) by congruence. subst j. split; [exact Eb|].
          intro CI. rewrite Hk. apply AO. destruct ice; [discriminate|discriminate|reflexivity].
        * right. assert (j = i) by congruence. subst j. subst ice. auto.
        * congruence.
      + assert (ND : cice_of ice = false \/ in_dos (tg_back t) = false).
        { destruct (t_bcase _ _ _ _ TG) as [(j & E & _)|[(j & E & _)|(_ & _ & E)]]; try congruence.
          destruct ice; [left; reflexivity|left; reflexivity|right; apply E; reflexivity]. }
        destruct (ext_lookup ext (tg_back t)) as [e|].
        * unfold op_id in *. apply BGL_keep; [exact GF_t|assumption|]. apply BGL_ins; assumption.
        * unfold op_id in *. apply BGL_ins; assumption.
  Qed.
End Colours.

(* ---------------------------------------------------------------- writer-side facts about phases C and D *)
Lemma gc_fg_state ext t w :
  let w3 := fst (fst (gc_fg ext t w)) in
  st_fg w3 = tg_fore t /\ st_bg w3 = st_bg w /\ st_bg_idx w3 = st_bg_idx w /\
  st_bold w3 = st_bold w /\ st_blink w3 = st_blink w /\ st_faint w3 = st_faint w /\ st_italic w3 = st_italic w /\
  st_ul w3 = st_ul w /\ st_dul w3 = st_dul w /\ st_crossed w3 = st_crossed w /\ st_concealed w3 = st_concealed w /\
  (st_fg_idx w3 = if rgb_eqb (tg_fore t) (st_fg w) then st_fg_idx w else tg_fg t).
Proof.
  unfold gc_fg. destruct (rgb_eqb (tg_fore t) (st_fg w)) eqn:E.
  - apply rgb_eqb_eq in E. cbn [fst]. repeat split; auto.
  - destruct (tg_fore_idx t); [cbn [fst]; repeat split|].
    destruct (ext_lookup ext (tg_fore t)); [cbn [fst]; repeat split|].
    destruct (tg_fore t) as [[r g] b]. cbn [fst]. repeat split.
Qed.

Lemma gc_bg_state ext t w :
  let w4 := fst (fst (gc_bg ext t w)) in
  st_bg w4 = tg_back t /\ st_fg w4 = st_fg w /\ st_fg_idx w4 = st_fg_idx w /\
  st_bold w4 = st_bold w /\ st_blink w4 = st_blink w /\ st_faint w4 = st_faint w /\ st_italic w4 = st_italic w /\
  st_ul w4 = st_ul w /\ st_dul w4 = st_dul w /\ st_crossed w4 = st_crossed w /\ st_concealed w4 = st_concealed w /\
  (st_bg_idx w4 = if rgb_eqb (tg_back t) (st_bg w) then st_bg_idx w else
                  match tg_back_idx t with Some i => i | None => tg_bg t end).
Proof.
  unfold gc_bg. destruct (rgb_eqb (tg_back t) (st_bg w)) eqn:E.
  - apply rgb_eqb_eq in E. cbn [fst]. repeat split; auto.
  - destruct (tg_back_idx t); [cbn [fst]; repeat split|].
    destruct (ext_lookup ext (tg_back t)); [cbn [fst]; repeat split|].
    destruct (tg_back t) as [[r g] b]. cbn [fst]. repeat split.
Qed.

Lemma cice_of_true ice : cice_of ice = true -> ice = Ice.
Proof. destruct ice; [discriminate|discriminate|reflexivity]. Qed.

(* ---------------------------------------------------------------- the step theorem *)
Theorem sgr_sync_step ice bpal ext a w pa ppal :
  pal_ok bpal -> pal_u8 bpal -> attr_ok ice a ->
  Rel (cice_of ice) w (abs pa) ppal ->
  let r := get_color ice bpal ext a w in
  let ap' := apply_tc (snd r) (apply_sgr (snd (fst r)) (pa, ppal)) in
  Rel (cice_of ice) (fst (fst r)) (abs (fst ap')) (snd ap') /\
  caret_shows (cice_of ice) (snd ap') (fst ap') = src_shows bpal a /\
  pal_extends ppal (snd ap') /\
  st_bg (fst (fst r)) = pal_rgb bpal (background_color a) /\
  (st_blink (fst (fst r)) = false -> is_blinking a = false).
Proof.
  intros PO PU AO R.
  unfold get_color. set (t := gc_target ice bpal a).
  pose proof (gc_target_ok ice bpal a) as TG. fold t in TG.
  destruct (gc_reset t w) as [s1 l1] eqn:E1.
  destruct (gc_flags t s1) as [s2 l2] eqn:E2.
  destruct (gc_fg ext t s2) as [[s3 l3] c3] eqn:E3.
  destruct (gc_bg ext t s3) as [[s4 l4] c4] eqn:E4.
  cbn zeta. cbn [fst snd]. rewrite apply_sgr_loop. cbn [fst snd].
  (* parser side *)
  destruct (phaseA (cice_of ice) t w pa ppal (l2 ++ l3 ++ l4) R) as (PA1 & R1 & NR).
  rewrite E1 in PA1, R1, NR. cbn [fst snd] in PA1, R1, NR. rewrite PA1. clear PA1.
  set (a1 := resetA t w pa) in *.
  pose proof (phaseB_parse t s1 a1 ppal (l3 ++ l4)) as PB. rewrite E2 in PB. cbn [snd] in PB. rewrite PB. clear PB.
  set (a2 := flagsB t s1 a1).
  pose proof (parse_fg_sgr _ _ _ ext t s2 l4 a2 ppal TG) as PC. rewrite E3 in PC. cbn [fst snd] in PC. rewrite PC. clear PC.
  set (ap3 := opF_s ext t s2 (a2, ppal)).
  pose proof (parse_bg_sgr _ _ _ ext t s3 [] (fst ap3) (snd ap3) TG) as PD. rewrite E4 in PD. cbn [fst snd] in PD.
  rewrite app_nil_r in PD. rewrite PD. clear PD. cbn [zl map sgr_loop].
  rewrite <- surjective_pairing. rewrite <- surjective_pairing.
  set (ap4 := opB_s ext t s3 ap3).
  assert (UF : rgb_u8 (tg_fore t)) by (rewrite (t_fore _ _ _ _ TG); apply pal_u8_rgb, PU).
  assert (UB : rgb_u8 (tg_back t)) by (rewrite (t_back _ _ _ _ TG); apply pal_u8_rgb, PU).
  pose proof (parse_fg_tc ext t s2 c4 ap4 UF) as PE. rewrite E3 in PE. cbn [snd] in PE. rewrite PE. clear PE.
  set (ap5 := opF_t ext t s2 ap4).
  pose proof (parse_bg_tc ext t s3 [] ap5 UB) as PF. rewrite E4 in PF. cbn [snd] in PF. rewrite app_nil_r in PF. rewrite PF. clear PF.
  cbn [apply_tc fold_left].
  set (ap6 := opB_t ext t s3 ap5).
  (* relation after phase B *)
  pose proof (phaseB_rel ice bpal a t s1 (abs a1) ppal TG AO R1 NR) as RB. cbn zeta in RB.
  rewrite E2 in RB. cbn [fst] in RB. pose proof (abs_flagsB t s1 a1) as AF. cbn zeta in AF. rewrite <- AF in RB. clear AF. fold a2 in RB.
  assert (W2 : WFap (a2, ppal)).
  { split; [exact (b_pal _ _ _ _ _ RB)|]. split; [exact (b_fgv _ _ _ _ _ RB)|exact (b_bgv _ _ _ _ _ RB)]. }
  pose proof (gc_fg_state ext t s2) as F3. rewrite E3 in F3. cbn zeta in F3. cbn [fst] in F3.
  destruct F3 as (F3fg & F3bg & F3bi & F3a & F3b & F3c & F3d & F3e & F3f & F3g & F3h & F3i).
  pose proof (gc_bg_state ext t s3) as F4. rewrite E4 in F4. cbn zeta in F4. cbn [fst] in F4.
  destruct F4 as (F4bg & F4fg & F4fi & F4a & F4b & F4c & F4d & F4e & F4f & F4g & F4h & F4i).
  pose proof (chain_wf ice bpal a ext t s2 s3 TG (a2, ppal) W2) as CH. cbn zeta in CH.
  fold ap3 ap4 ap5 ap6 in CH. destruct CH as (_ & _ & _ & W6 & EX & _ & _ & _ & S6).
  pose proof (fg_final ice bpal a ext t s2 s3 TG (a2, ppal) W2 RB) as FL. cbn zeta in FL. fold ap3 ap4 ap5 ap6 in FL.
  pose proof (bg_final ice bpal a ext t s2 s3 TG AO F3bg (a2, ppal) W2 RB) as BL. cbn zeta in BL. fold ap3 ap4 ap5 ap6 in BL.
  cbn [fst snd] in S6, EX.
  destruct S6 as (S1 & S2 & S3 & S4 & S5 & S6 & S7 & S8). destruct W6 as (PI6 & FV6 & BV6).
  unfold FGL in FL. unfold BGL in BL.
  split; [|split; [|split; [|split]]].
  - (* Rel *)
    constructor.
    + rewrite <- S1, F4a, F3a. exact (b_pbold _ _ _ _ _ RB).
    + rewrite <- S2, F4c, F3c. exact (b_pfaint _ _ _ _ _ RB).
    + rewrite <- S3, F4d, F3d. exact (b_pitalic _ _ _ _ _ RB).
    + rewrite <- S4, F4b, F3b. exact (b_pblink _ _ _ _ _ RB).
    + rewrite <- S5, F4e, F3e. exact (b_pul _ _ _ _ _ RB).
    + rewrite <- S6, F4f, F3f. exact (b_pdul _ _ _ _ _ RB).
    + rewrite <- S7, F4h, F3h. exact (b_pconc _ _ _ _ _ RB).
    + rewrite <- S8, F4g, F3g. exact (b_pcross _ _ _ _ _ RB).
    + exact PI6.
    + exact FV6.
    + exact BV6.
    + rewrite F4fg, F3fg. exact FL.
    + (* fg index *)
      rewrite F4a, F3a, F4fg, F3fg, F4fi, F3i. intros SB ID.
      destruct (rgb_eqb (tg_fore t) (st_fg s2)) eqn:EQ.
      * apply rgb_eqb_eq in EQ. rewrite EQ in ID |- *. exact (b_fgidx _ _ _ _ _ RB SB ID).
      * rewrite (b_bold _ _ _ _ _ RB) in SB.
        destruct (t_fcase _ _ _ _ TG) as [(i & _ & Hi & _ & Ef)|[(i & _ & _ & Hb & _)|(_ & Hd)]]; [|congruence|congruence].
        exists i. split; [exact Hi|]. split; [exact Ef|].
        destruct (N.lt_ge_cases (tg_fg t) 8) as [L|G]; [left|right; exact G].
        destruct PO as [_ PO]. apply (PO (tg_fg t) i L Hi).
        rewrite <- Ef, (t_fore _ _ _ _ TG), (t_fg _ _ _ _ TG). reflexivity.
    + rewrite F4bg. exact BL.
    + (* ice: background not bright unless blinking *)
      rewrite F4b, F3b, F4bg, (b_blink _ _ _ _ _ RB). intros CI SB d D1 D2 E.
      apply cice_of_true in CI.
      destruct (t_bcase _ _ _ _ TG) as [(i & _ & Hi & Eb & _)|[(i & _ & _ & _ & Hk & _)|(_ & _ & Hd)]].
      * rewrite Eb in E. apply dos_rgb_inj in E; lia.
      * congruence.
      * rewrite E, in_dos_dos_rgb in Hd by assumption. specialize (Hd CI). discriminate.
    + (* background index 0 means black *)
      rewrite F4b, F3b, F4bg, F4i, F3bg, F3bi, (b_blink _ _ _ _ _ RB). intros B0 SB.
      destruct (rgb_eqb (tg_back t) (st_bg s2)) eqn:EQ.
      * apply rgb_eqb_eq in EQ. rewrite EQ. apply (b_bg0 _ _ _ _ _ RB B0). rewrite (b_blink _ _ _ _ _ RB). exact SB.
      * destruct (t_bcase _ _ _ _ TG) as [(i & Ei & _ & Eb & _)|[(i & _ & _ & _ & Hk & _)|(Ei & _)]].
        -- rewrite Ei in B0. subst i. rewrite Eb. reflexivity.
        -- congruence.
        -- rewrite Ei in B0. rewrite (t_back _ _ _ _ TG), <- (t_bg _ _ _ _ TG), B0. exact (proj1 PO).
  - (* what the caret shows *)
    rewrite caret_shows_abs. unfold src_shows. rewrite FL, BL.
    rewrite (t_fore _ _ _ _ TG), (t_back _ _ _ _ TG). f_equal.
    unfold sblink. rewrite <- S4, (b_pblink _ _ _ _ _ RB), (b_blink _ _ _ _ _ RB).
    destruct (cice_of ice) eqn:CI.
    + apply cice_of_true in CI. symmetry. exact (AO CI).
    + destruct (t_bcase _ _ _ _ TG) as [(i & _ & _ & _ & Hk)|[(i & _ & _ & _ & _ & HI)|(_ & Hk & _)]]; try assumption.
      subst ice. discriminate.
  - exact EX.
  - rewrite F4bg. exact (t_back _ _ _ _ TG).
  - rewrite F4b, F3b, (b_blink _ _ _ _ _ RB). intro SB.
    destruct (t_bcase _ _ _ _ TG) as [(i & _ & _ & _ & Hk)|[(i & _ & _ & _ & Hk & _)|(_ & Hk & _)]]; congruence.
Qed.

(* ---------------------------------------------------------------- any sequence of cells *)
(* the writer produces the rendition commands of a row of attributes; the parser consumes them cell by cell;
   `shows` collects what the caret shows when each cell is printed *)
Fixpoint run_attrs (ice : IceMode) (bpal : palette) (ext : bool) (attrs : list TextAttribute) (w : AnsiState) (ap : AP)
  : AnsiState * AP * list (rgb * rgb * bool) :=
  match attrs with
  | [] => (w, ap, [])
  | a :: rest =>
    let r := get_color ice bpal ext a w in
    let ap' := apply_tc (snd r) (apply_sgr (snd (fst r)) ap) in
    let res := run_attrs ice bpal ext rest (fst (fst r)) ap' in
    (fst (fst res), snd (fst res), caret_shows (cice_of ice) (snd ap') (fst ap') :: snd res)
  end.

Theorem sgr_sync_seq ice bpal ext attrs : pal_ok bpal -> pal_u8 bpal -> Forall (attr_ok ice) attrs ->
  forall w ap, Rel (cice_of ice) w (abs (fst ap)) (snd ap) ->
  let res := run_attrs ice bpal ext attrs w ap in
  snd res = map (src_shows bpal) attrs /\
  Rel (cice_of ice) (fst (fst res)) (abs (fst (snd (fst res)))) (snd (snd (fst res))) /\
  pal_extends (snd ap) (snd (snd (fst res))).
Proof.
  intros PO PU. induction attrs as [|a rest IH]; intros FA w ap R.
  - cbn. split; [reflexivity|]. split; [exact R|apply pal_extends_refl].
  - inversion FA as [|? ? AO FR]; subst. destruct ap as [pa ppal]. cbn [fst snd] in R.
    pose proof (sgr_sync_step ice bpal ext a w pa ppal PO PU AO R) as ST. cbn zeta in ST.
    destruct ST as (R' & SH & EX & _).
    cbn [run_attrs]. cbn zeta.
    set (r := get_color ice bpal ext a w) in *.
    set (ap' := apply_tc (snd r) (apply_sgr (snd (fst r)) (pa, ppal))) in *.
    specialize (IH FR (fst (fst r)) ap' R'). cbn zeta in IH. destruct IH as (I1 & I2 & I3).
    cbn [fst snd map]. split; [rewrite SH, I1; reflexivity|]. split; [exact I2|].
    eapply pal_extends_trans; [exact EX|exact I3].
Qed.

Lemma palinv_dos_default : PalInv DOS_DEFAULT_PALETTE.
Proof. split; [exists []; symmetry; apply app_nil_r|apply dos_nodup]. Qed.

(* from the state in which both sides start: AnsiState of generate_cells, Caret::default() and Palette::dos_default() *)
Corollary sgr_sync_from_start ice bpal ext attrs : pal_ok bpal -> pal_u8 bpal -> Forall (attr_ok ice) attrs ->
  snd (run_attrs ice bpal ext attrs init_state (default_attribute, DOS_DEFAULT_PALETTE)) = map (src_shows bpal) attrs.
Proof.
  intros PO PU FA.
  apply (sgr_sync_seq ice bpal ext attrs PO PU FA init_state (default_attribute, DOS_DEFAULT_PALETTE)).
  cbn [fst snd]. rewrite abs_default. apply rel_init, palinv_dos_default.
Qed.

(* ---------------------------------------------------------------- the behaviour before the first fix commit *)
(* get_color as it was: SGR 8 set `is_blink` in the writer's state and the reset arm left `is_concealed` alone *)
Definition gc_flags_old (t : Target) (st : AnsiState) : AnsiState * list N :=
  let r := gc_flags t st in
  let s := fst r in
  let b_conc := tg_concealed t && negb (st_concealed st) in
  (mkSt (st_bold s) (st_blink s || b_conc) (st_faint s) (st_italic s) (st_ul s) (st_dul s) (st_crossed s) (st_concealed st)
        (st_fg_idx s) (st_fg s) (st_bg_idx s) (st_bg s), snd r).
Definition gc_reset_old (t : Target) (st : AnsiState) : AnsiState * list N :=
  if needs_reset t st
  then (mkSt false false false false false false false (st_concealed st) 7 (dos_rgb 7) 0 (dos_rgb 0), [0])
  else (st, []).
Definition get_color_old (ice : IceMode) (bpal : palette) (ext : bool) (a : TextAttribute) (st : AnsiState)
  : AnsiState * list N * list tc4 :=
  let t := gc_target ice bpal a in
  let '(s1, l1) := gc_reset_old t st in
  let '(s2, l2) := gc_flags_old t s1 in
  let '(s3, l3, c3) := gc_fg ext t s2 in
  let '(s4, l4, c4) := gc_bg ext t s3 in
  (s4, l1 ++ l2 ++ l3 ++ l4, c3 ++ c4).
Fixpoint run_attrs_old (ice : IceMode) (bpal : palette) (ext : bool) (attrs : list TextAttribute) (w : AnsiState) (ap : AP)
  : list (list N) * list (rgb * rgb * bool) :=
  match attrs with
  | [] => ([], [])
  | a :: rest =>
    let r := get_color_old ice bpal ext a w in
    let ap' := apply_tc (snd r) (apply_sgr (snd (fst r)) ap) in
    let res := run_attrs_old ice bpal ext rest (fst (fst r)) ap' in
    (snd (fst r) :: fst res, caret_shows (cice_of ice) (snd ap') (fst ap') :: snd res)
  end.

(* concealed `A`, blinking `B`, plain `C` on the DOS palette in blink mode: the old writer emitted ESC[8m for the
   first cell and NOTHING for the second, so `B` was loaded without blink *)
Definition witness_attrs : list TextAttribute :=
  [mkAttr 0 7 0 ATTR_CONCEAL; mkAttr 0 7 0 ATTR_BLINK; mkAttr 0 7 0 0].

Lemma sgr_sync_refuted_before_fix :
  exists attrs, Forall (attr_ok Blink) attrs /\
    snd (run_attrs_old Blink DOS_DEFAULT_PALETTE true attrs init_state (default_attribute, DOS_DEFAULT_PALETTE))
    <> map (src_shows DOS_DEFAULT_PALETTE) attrs.
Proof.
  exists witness_attrs. split.
  - repeat constructor; discriminate.
  - vm_compute. discriminate.
Qed.

Lemma old_writer_output_on_witness :
  fst (run_attrs_old Blink DOS_DEFAULT_PALETTE true witness_attrs init_state (default_attribute, DOS_DEFAULT_PALETTE))
  = [[8]; []; [0]].
Proof. vm_compute. reflexivity. Qed.

(* the same cells with the repaired get_color *)
Lemma witness_after_fix :
  snd (run_attrs Blink DOS_DEFAULT_PALETTE true witness_attrs init_state (default_attribute, DOS_DEFAULT_PALETTE))
  = map (src_shows DOS_DEFAULT_PALETTE) witness_attrs.
Proof. vm_compute. reflexivity. Qed.
