(* C11, part 1: SauceString — strip_end / len / PartialEq, the `read` loop, and the write/read cycle of one field. *)
From Coq Require Import NArith ZArith List Bool Arith Lia.
From IE Require Import Lib.Tbl Gen.Sauce Model.Sauce Model.SauceSpec.
Import ListNotations.
Local Open Scope nat_scope.

(* ---- list_eqb ------------------------------------------------------------------------------ *)
Lemma list_eqb_eq a b : list_eqb a b = true <-> a = b.
Proof.
  revert b; induction a as [|x a IH]; intros [|y b]; simpl; split; intro H; try reflexivity; try discriminate.
  - apply andb_true_iff in H as [H1 H2]. apply N.eqb_eq in H1. apply IH in H2. now subst.
  - inversion H; subst. rewrite N.eqb_refl. simpl. now apply IH.
Qed.
Lemma list_eqb_refl a : list_eqb a a = true.
Proof. now apply list_eqb_eq. Qed.

(* ---- strip_end ------------------------------------------------------------------------------ *)
Lemma strip_end_cons p x t :
  strip_end p (x :: t) = if forallb p (x :: t) then [] else x :: strip_end p t.
Proof.
  revert x; induction t as [|y t IH]; intro x; simpl.
  - destruct (p x); reflexivity.
  - specialize (IH y). simpl in IH. rewrite IH.
    destruct (p y && forallb p t) eqn:E; simpl.
    + destruct (p x); reflexivity.
    + rewrite andb_false_r. reflexivity.
Qed.

Lemma strip_end_nil_iff p s : strip_end p s = [] <-> forallb p s = true.
Proof.
  destruct s as [|x t]; [simpl; tauto|]. rewrite strip_end_cons.
  destruct (forallb p (x :: t)); split; intro H; try reflexivity; try discriminate.
Qed.

Lemma strip_end_all p s : forallb p s = true -> strip_end p s = [].
Proof. apply strip_end_nil_iff. Qed.

Lemma strip_end_app_all p s t : forallb p t = true -> strip_end p (s ++ t) = strip_end p s.
Proof.
  intro Ht. induction s as [|x s IH]; simpl app.
  - rewrite strip_end_all by assumption. reflexivity.
  - rewrite !strip_end_cons. simpl forallb. rewrite forallb_app, Ht, andb_true_r, IH. reflexivity.
Qed.

Lemma strip_end_app_keep p s t : strip_end p t <> [] -> strip_end p (s ++ t) = s ++ strip_end p t.
Proof.
  intro Ht. induction s as [|x s IH]; simpl app; [reflexivity|].
  rewrite strip_end_cons. simpl forallb. rewrite forallb_app.
  assert (forallb p t = false) as ->.
  { destruct (forallb p t) eqn:E; [|reflexivity]. apply strip_end_nil_iff in E. contradiction. }
  rewrite andb_false_r, andb_false_r, IH. reflexivity.
Qed.

Lemma strip_end_prefix p s : exists t, s = strip_end p s ++ t /\ forallb p t = true.
Proof.
  induction s as [|x s (t & Hs & Ht)].
  - exists []. split; reflexivity.
  - rewrite strip_end_cons. destruct (forallb p (x :: s)) eqn:E.
    + exists (x :: s). split; [reflexivity|assumption].
    + exists t. split; [simpl; f_equal; exact Hs|assumption].
Qed.

Lemma strip_end_length p s : length (strip_end p s) <= length s.
Proof. destruct (strip_end_prefix p s) as (t & Hs & _). rewrite Hs at 2. rewrite app_length. lia. Qed.

Lemma firstn_strip_end p s : firstn (length (strip_end p s)) s = strip_end p s.
Proof.
  destruct (strip_end_prefix p s) as (t & Hs & _). rewrite Hs at 2.
  rewrite firstn_app, Nat.sub_diag, firstn_all. simpl. apply app_nil_r.
Qed.

Lemma strip_end_full p s : length (strip_end p s) = length s -> strip_end p s = s.
Proof.
  intro H. destruct (strip_end_prefix p s) as (t & Hs & _).
  assert (length t = 0) by (apply (f_equal (@length N)) in Hs; rewrite app_length in Hs; lia).
  destruct t; [|discriminate]. rewrite app_nil_r in Hs. now symmetry.
Qed.

Lemma strip_end_last_false p s : strip_end p s <> [] -> exists u x, strip_end p s = u ++ [x] /\ p x = false.
Proof.
  induction s as [|y s IH]; [intros H; now contradiction H|].
  rewrite strip_end_cons. destruct (forallb p (y :: s)) eqn:E; [intros H; now contradiction H|]. intros _.
  destruct (strip_end p s) as [|z r] eqn:Es.
  - apply strip_end_nil_iff in Es. simpl in E. rewrite Es, andb_true_r in E. exists [], y. split; [reflexivity|exact E].
  - destruct IH as (u & x & Hu & Hx); [discriminate|]. exists (y :: u), x. split; [simpl; now rewrite Hu|exact Hx].
Qed.

Lemma strip_end_idem p s : strip_end p (strip_end p s) = strip_end p s.
Proof.
  destruct (strip_end p s) as [|z r] eqn:E; [reflexivity|]. rewrite <- E.
  destruct (strip_end_last_false p s) as (u & x & Hu & Hx); [rewrite E; discriminate|].
  rewrite Hu. rewrite strip_end_app_keep; simpl; rewrite Hx; [reflexivity|discriminate].
Qed.

(* a coarser predicate strips at least as much *)
Lemma strip_end_coarser p q s : (forall x, q x = true -> p x = true) -> strip_end p (strip_end q s) = strip_end p s.
Proof.
  intro Hpq. destruct (strip_end_prefix q s) as (t & Hs & Ht).
  rewrite Hs at 2. rewrite strip_end_app_all; [reflexivity|].
  apply forallb_forall. intros x Hx. apply Hpq. rewrite forallb_forall in Ht. now apply Ht.
Qed.

Lemma forallb_repeat (p : N -> bool) x n : p x = true -> forallb p (repeat x n) = true.
Proof. intro H. induction n; simpl; [reflexivity|now rewrite H]. Qed.

Lemma is32_blank x : is32 x = true -> blank x = true.
Proof. unfold is32, blank. intros ->. apply orb_true_r. Qed.

(* ---- len / PartialEq ------------------------------------------------------------------------- *)
Lemma ss_eq_spec a b : ss_eq a b = true <-> strip_end blank a = strip_end blank b.
Proof.
  unfold ss_eq, ss_len. rewrite !firstn_strip_end, andb_true_iff, Nat.eqb_eq, list_eqb_eq.
  split; [tauto|]. intro H. now rewrite H.
Qed.

(* ---- the read loop ---------------------------------------------------------------------------- *)
Fixpoint scan_last (E : N) (s : list N) (i last : nat) : nat :=
  match s with [] => last | b :: t => scan_last E t (S i) (if N.eqb b E then last else S i) end.

Lemma nth_error_skipn (data : list N) i :
  i < length data -> exists b, nth_error data i = Some b /\ skipn i data = b :: skipn (S i) data.
Proof.
  revert i; induction data as [|x data IH]; intros i Hi; simpl in Hi; [lia|].
  destruct i; [exists x; split; reflexivity|].
  destruct (IH i) as (b & H1 & H2); [lia|]. exists b. split; [exact H1|exact H2].
Qed.

Lemma read_loop_nz E k : N.eqb E 0 = false -> forall i data acc last, i + k <= length data ->
  read_loop k i E data acc last
  = Ok (acc ++ firstn k (skipn i data), scan_last E (firstn k (skipn i data)) i last).
Proof.
  intro HE. induction k as [|k IH]; intros i data acc last Hlen; simpl.
  - now rewrite app_nil_r.
  - destruct (nth_error_skipn data i) as (b & Hb & Hs); [lia|]. rewrite Hb, HE. simpl.
    rewrite IH by lia. rewrite Hs. simpl. rewrite <- app_assoc. reflexivity.
Qed.

Lemma scan_last_spec E s : forall i last,
  scan_last E s i last = if forallb (fun b => N.eqb b E) s then last else i + length (strip_end (fun b => N.eqb b E) s).
Proof.
  induction s as [|b s IH]; intros i last; [reflexivity|].
  simpl scan_last. rewrite IH, strip_end_cons. simpl forallb.
  destruct (N.eqb b E); simpl.
  - destruct (forallb _ s); simpl; lia.
  - destruct (forallb _ s) eqn:F; simpl.
    + apply strip_end_all in F. rewrite F. simpl. lia.
    + lia.
Qed.

Theorem ss_read_blank LEN E data : N.eqb E 0 = false -> LEN <= length data ->
  ss_read LEN E data = Ok (let f := firstn LEN data in
                           if forallb (fun b => N.eqb b E) f then f else strip_end (fun b => N.eqb b E) f).
Proof.
  intros HE Hlen. unfold ss_read. rewrite read_loop_nz by (assumption || lia). simpl.
  rewrite scan_last_spec. cbv zeta.
  set (f := firstn LEN data). assert (Hf : length f = LEN) by (apply firstn_length_le; exact Hlen).
  destruct (forallb _ f) eqn:F.
  - rewrite Nat.ltb_irrefl. reflexivity.
  - simpl. pose proof (strip_end_length (fun b => N.eqb b E) f) as Hle.
    destruct (Nat.ltb_spec (length (strip_end (fun b => N.eqb b E) f)) LEN) as [Hlt|Hge].
    + rewrite firstn_strip_end. reflexivity.
    + rewrite strip_end_full by lia. reflexivity.
Qed.

Lemma read_loop_z k : forall i data acc last, i + k <= length data ->
  read_loop k i 0%N data acc last
  = Ok (acc ++ take_while nz (firstn k (skipn i data)),
        match take_while nz (firstn k (skipn i data)) with [] => last | tw => i + length tw end).
Proof.
  induction k as [|k IH]; intros i data acc last Hlen; simpl.
  - now rewrite app_nil_r.
  - destruct (nth_error_skipn data i) as (b & Hb & Hs); [lia|]. rewrite Hb. rewrite Hs. simpl.
    unfold nz at 1 3. destruct (N.eqb b 0) eqn:Eb; simpl.
    + now rewrite app_nil_r.
    + rewrite IH by lia. rewrite <- app_assoc. simpl. f_equal. f_equal.
      match goal with |- context [take_while nz ?l] => destruct (take_while nz l) end; simpl; lia.
Qed.

Theorem ss_read_nul LEN data : LEN <= length data ->
  ss_read LEN 0%N data = Ok (take_while nz (firstn LEN data)).
Proof.
  intro Hlen. unfold ss_read. rewrite read_loop_z by lia. simpl.
  destruct (take_while nz (firstn LEN data)) as [|x tw] eqn:E.
  - destruct (LEN <? LEN); [destruct LEN|]; reflexivity.
  - simpl. destruct (Nat.ltb_spec (S (length tw)) LEN); [|reflexivity].
    change (S (length tw)) with (length (x :: tw)). now rewrite firstn_all.
Qed.

(* the read loop never panics when the slice is long enough *)
Lemma ss_read_ok LEN E data : LEN <= length data -> exists s, ss_read LEN E data = Ok s /\ length s <= LEN.
Proof.
  intro Hlen. destruct (N.eqb E 0) eqn:HE.
  - apply N.eqb_eq in HE. subst E. rewrite ss_read_nul by assumption. eexists. split; [reflexivity|].
    assert (H : forall s, length (take_while nz s) <= length s).
    { induction s as [|x s IH]; simpl; [lia|]. destruct (nz x); simpl; lia. }
    etransitivity; [apply H|]. rewrite firstn_length. lia.
  - rewrite ss_read_blank by assumption. eexists. split; [reflexivity|]. cbv zeta.
    destruct (forallb _ _).
    + rewrite firstn_length. lia.
    + etransitivity; [apply strip_end_length|]. rewrite firstn_length. lia.
Qed.

(* ---- one field through append_to and read ------------------------------------------------------- *)
Lemma firstn_app_exact {A} (a b : list A) n : length a = n -> firstn n (a ++ b) = a.
Proof. intros <-. rewrite firstn_app, Nat.sub_diag, firstn_all. simpl. apply app_nil_r. Qed.
Lemma skipn_app_exact {A} (a b : list A) n : length a = n -> skipn n (a ++ b) = b.
Proof. intros <-. rewrite skipn_app, Nat.sub_diag, skipn_all. reflexivity. Qed.

Lemma pad_length LEN E s : length s <= LEN -> length (pad LEN E s) = LEN.
Proof. intro H. unfold pad. rewrite app_length, repeat_length. lia. Qed.

Lemma ss_append_pad LEN E s vec : ss_append LEN E s vec = vec ++ pad LEN E s.
Proof. reflexivity. Qed.

Lemma repeat_app_n {A} (x : A) a b : repeat x a ++ repeat x b = repeat x (a + b).
Proof. symmetry. apply repeat_app. Qed.

Lemma forallb_is32_repeat s : forallb is32 s = true -> s = repeat 32%N (length s).
Proof.
  induction s as [|x s IH]; simpl; [reflexivity|]. intro H. apply andb_true_iff in H as [H1 H2].
  apply N.eqb_eq in H1. subst x. f_equal. now apply IH.
Qed.

(* reading back a blank-padded field: norm_blank *)
Theorem read_pad_blank LEN s rest : length s <= LEN ->
  ss_read LEN 32%N (pad LEN 32%N s ++ rest) = Ok (norm_blank LEN s).
Proof.
  intro Hs. rewrite ss_read_blank; [|reflexivity|rewrite app_length, pad_length by assumption; lia].
  cbv zeta. rewrite firstn_app_exact by (now apply pad_length).
  unfold norm_blank, pad. change (fun b : N => N.eqb b 32) with is32.
  rewrite forallb_app, forallb_repeat by reflexivity. rewrite andb_true_r.
  destruct (forallb is32 s) eqn:F.
  - apply forallb_is32_repeat in F. rewrite F at 1. rewrite repeat_app_n.
    replace (length s + (LEN - length s)) with LEN by lia. reflexivity.
  - rewrite strip_end_app_all by (now apply forallb_repeat). reflexivity.
Qed.

Lemma take_while_app_stop p s x t : p x = false -> take_while p (s ++ x :: t) = take_while p s.
Proof. intro H. induction s as [|y s IH]; simpl; [now rewrite H|]. destruct (p y); [now rewrite IH|reflexivity]. Qed.
Lemma take_while_all p s : forallb p s = true -> take_while p s = s.
Proof. induction s as [|y s IH]; simpl; [reflexivity|]. intro H. apply andb_true_iff in H as [-> H]. now rewrite IH. Qed.
Lemma take_while_app_all p s t : forallb p s = true -> take_while p (s ++ t) = s ++ take_while p t.
Proof. induction s as [|y s IH]; simpl; [reflexivity|]. intro H. apply andb_true_iff in H as [-> H]. now rewrite IH. Qed.
Lemma take_while_split p s : exists r, s = take_while p s ++ r /\ forallb p (take_while p s) = true /\ (match r with [] => True | x :: _ => p x = false end).
Proof.
  induction s as [|y s (r & Hs & Ha & Hr)]; simpl.
  - exists []. repeat split.
  - destruct (p y) eqn:E.
    + exists r. simpl. rewrite E, Ha. repeat split; [now f_equal|assumption].
    + exists (y :: s). repeat split. exact E.
Qed.
Lemma take_while_zeros s n : take_while nz (s ++ repeat 0%N n) = take_while nz s.
Proof.
  destruct (take_while_split nz s) as (r & Hs & Ha & Hr). destruct r as [|x r].
  - rewrite app_nil_r in Hs. rewrite <- Hs in *. rewrite take_while_app_all by assumption.
    destruct n; simpl; now rewrite app_nil_r.
  - rewrite Hs at 1. rewrite <- app_assoc. simpl. rewrite take_while_app_stop by assumption.
    now apply take_while_all.
Qed.

(* reading back a NUL-padded field: norm_nul *)
Theorem read_pad_nul LEN s rest : length s <= LEN ->
  ss_read LEN 0%N (pad LEN 0%N s ++ rest) = Ok (norm_nul s).
Proof.
  intro Hs. rewrite ss_read_nul by (rewrite app_length, pad_length by assumption; lia).
  rewrite firstn_app_exact by (now apply pad_length). unfold norm_nul, pad. now rewrite take_while_zeros.
Qed.

(* the value read back equals the value written under the pad-stripping PartialEq *)
Theorem norm_blank_eq LEN s : ss_eq (norm_blank LEN s) s = true.
Proof.
  apply ss_eq_spec. unfold norm_blank. destruct (forallb is32 s) eqn:F.
  - rewrite !strip_end_all; [reflexivity| |].
    + apply forallb_forall. intros x Hx. apply is32_blank. rewrite forallb_forall in F. now apply F.
    + now apply forallb_repeat.
  - apply strip_end_coarser. exact is32_blank.
Qed.

Lemma forallb_nz_not_in s : forallb nz s = true -> ~ In 0%N s.
Proof. intros H Hin. rewrite forallb_forall in H. apply H in Hin. discriminate. Qed.

(* NUL-padded fields: equality holds exactly when no NUL is followed by a non-blank byte *)
Theorem norm_nul_eq_iff s : ss_eq (norm_nul s) s = true <-> ~ In 0%N (strip_end blank s).
Proof.
  rewrite ss_eq_spec. unfold norm_nul.
  destruct (take_while_split nz s) as (r & Hs & Ha & Hr).
  remember (take_while nz s) as tw eqn:Htw. clear Htw.
  destruct r as [|x r].
  - rewrite app_nil_r in Hs. subst s. split; [intros _|reflexivity].
    intro Hin. destruct (strip_end_prefix blank tw) as (t & Ht & _).
    apply (forallb_nz_not_in _ Ha). rewrite Ht. apply in_or_app. now left.
  - assert (Hx : x = 0%N) by (unfold nz in Hr; apply negb_false_iff, N.eqb_eq in Hr; exact Hr). subst x. subst s.
    destruct (forallb blank (0%N :: r)) eqn:B.
    + rewrite strip_end_app_all by assumption. split; [intros _|reflexivity].
      intro Hin. destruct (strip_end_prefix blank tw) as (t & Ht & _).
      apply (forallb_nz_not_in _ Ha). rewrite Ht. apply in_or_app. now left.
    + assert (Hne : strip_end blank (0%N :: r) <> []) by (intro E; apply strip_end_nil_iff in E; congruence).
      rewrite strip_end_app_keep by assumption. split.
      * intro E. apply (f_equal (@length N)) in E. rewrite app_length in E.
        pose proof (strip_end_length blank tw). destruct (strip_end blank (0%N :: r)); [contradiction|simpl in E; lia].
      * intro Hn. exfalso. apply Hn. apply in_or_app. right.
        rewrite strip_end_cons, B. now left.
Qed.
