(* C05 proofs for Tundra Draw (Model/C05Tundra.v): the colour-change stream and the file round trip. *)
From Coq Require Import NArith ZArith Bool List Lia PeanoNat.
From IE Require Import Lib.Tbl Lib.Bits Lib.C18Lib Lib.C05Lib Gen.Codepage Gen.Formats Model.Attr Model.C05Buf Model.C05Bin
  Model.C05XBin Model.C05Tundra Model.C05Spec Proofs.AttrProofs Proofs.C05BufProofs Proofs.C05BinProofs Proofs.C05AdfProofs
  Proofs.C05XBinProofs.
Import ListNotations.
Local Open Scope Z_scope.

(* ------------------------------------------------------------------ the loader's palette *)
Lemma find_rgb_spec c : forall p i0,
  match find_rgb p c i0 with
  | Some i => exists k, i = (i0 + N.of_nat k)%N /\ nth_error p k = Some c
  | None => True
  end.
Proof.
  induction p as [|h t IH]; intro i0; cbn [find_rgb]; [exact I|].
  destruct (rgb_eqb h c) eqn:E.
  - exists 0%nat. apply rgb_eqb_eq in E. subst h. split; [lia|reflexivity].
  - specialize (IH (i0 + 1)%N). destruct (find_rgb t c (i0 + 1)) as [i|]; [|exact I].
    destruct IH as (k & -> & Hk). exists (S k). split; [lia|exact Hk].
Qed.

Lemma insert_color_spec p c :
  exists ext, fst (insert_color p c) = p ++ ext /\ (length ext <= 1)%nat /\
              nth_error (fst (insert_color p c)) (N.to_nat (snd (insert_color p c))) = Some c.
Proof.
  unfold insert_color. pose proof (find_rgb_spec c p 0) as H.
  destruct (find_rgb p c 0) as [i|].
  - destruct H as (k & -> & Hk). exists []. cbn [fst snd]. rewrite app_nil_r. split; [reflexivity|]. split; [cbn; lia|].
    rewrite N.add_0_l, Nat2N.id. exact Hk.
  - exists [c]. cbn [fst snd]. split; [reflexivity|]. split; [cbn; lia|].
    rewrite Nat2N.id, nth_error_app2 by lia. rewrite Nat.sub_diag. reflexivity.
Qed.

Lemma testbit31_small i : (i < 2147483648)%N -> N.testbit i 31 = false.
Proof.
  intro H. rewrite N.testbit_odd, N.shiftr_div_pow2. change (2 ^ 31)%N with 2147483648%N.
  rewrite N.div_small by exact H. reflexivity.
Qed.

Lemma pal_get_rgb_nth p i c : (i < 2147483648)%N -> nth_error p (N.to_nat i) = Some c -> pal_get_rgb p i = c.
Proof. intros Hi H. unfold pal_get_rgb. rewrite testbit31_small by exact Hi. rewrite H. reflexivity. Qed.

Lemma pal_get_rgb_app p ext i : (N.to_nat i < length p)%nat -> pal_get_rgb (p ++ ext) i = pal_get_rgb p i.
Proof. intro H. unfold pal_get_rgb. rewrite nth_error_app1 by exact H. reflexivity. Qed.

(* ------------------------------------------------------------------ what the loader makes of one written cell *)
Definition tnd_dec1 (pal : list rgb) (first : bool) (prev : TextAttribute) (c : cell) (palL : list rgb) (atL : TextAttribute)
  : list rgb * TextAttribute :=
  let cur := c_attr c in
  let '(p1, a1) := if tnd_wf pal first prev c
                   then (fst (insert_color palL (pal_get_rgb pal (tnd_fgi cur))),
                         with_fg atL (snd (insert_color palL (pal_get_rgb pal (tnd_fgi cur)))))
                   else (palL, atL) in
  if tnd_wb pal first prev c
  then (fst (insert_color p1 (pal_get_rgb pal (background_color cur))),
        with_bg a1 (snd (insert_color p1 (pal_get_rgb pal (background_color cur)))))
  else (p1, a1).

Lemma pair_fst_snd {A B} (x : A * B) : x = (fst x, snd x).
Proof. destruct x; reflexivity. Qed.

Lemma tnd_loop_step pal first prev c fuel w L palL atL x y rest :
  (c_ch c < 256)%N ->
  tnd_loop (S fuel) w L palL atL x y (fst (tnd_cell pal first prev c) ++ rest) =
  (let '(p2, a2) := tnd_dec1 pal first prev c palL atL in
   let L' := put true L x y (mkCell (c_ch c) a2) in
   if x + 1 >=? w then tnd_loop fuel w L' p2 a2 0 (y + 1) rest else tnd_loop fuel w L' p2 a2 (x + 1) y rest).
Proof.
  intro Hch. unfold tnd_cell, tnd_dec1.
  unfold TUNDRA_POSITION, TUNDRA_COLOR_FOREGROUND, TUNDRA_COLOR_BACKGROUND.
  destruct (tnd_wf pal first prev c) eqn:Ewf; destruct (tnd_wb pal first prev c) eqn:Ewb; cbn [orb fst].
  - (* both colours *)
    destruct (pal_get_rgb pal (tnd_fgi (c_attr c))) as [[r g] b] eqn:Ef.
    destruct (pal_get_rgb pal (background_color (c_attr c))) as [[r' g'] b'] eqn:Eb.
    cbn [rgb_bytes app tnd_loop]. unfold TUNDRA_POSITION, TUNDRA_COLOR_FOREGROUND, TUNDRA_COLOR_BACKGROUND. change (2 + 4)%N with 6%N.
    destruct (insert_color palL (r, g, b)) as [p1 i1] eqn:E1. cbn. rewrite E1. cbn.
    destruct (insert_color p1 (r', g', b')) as [p2 i2] eqn:E2. cbn. reflexivity.
  - (* foreground only *)
    destruct (pal_get_rgb pal (tnd_fgi (c_attr c))) as [[r g] b] eqn:Ef.
    cbn [rgb_bytes app tnd_loop]. unfold TUNDRA_POSITION, TUNDRA_COLOR_FOREGROUND, TUNDRA_COLOR_BACKGROUND. change (2 + 0)%N with 2%N.
    destruct (insert_color palL (r, g, b)) as [p1 i1] eqn:E1. cbn. rewrite E1. cbn. reflexivity.
  - (* background only *)
    destruct (pal_get_rgb pal (background_color (c_attr c))) as [[r' g'] b'] eqn:Eb.
    cbn [rgb_bytes app tnd_loop]. unfold TUNDRA_POSITION, TUNDRA_COLOR_FOREGROUND, TUNDRA_COLOR_BACKGROUND. change (0 + 4)%N with 4%N.
    destruct (insert_color palL (r', g', b')) as [p1 i1] eqn:E1. cbn. rewrite E1. cbn. reflexivity.
  - (* a plain character: not one of the command bytes, because those force the foreground *)
    cbn [app tnd_loop]. unfold TUNDRA_POSITION.
    assert (Hnc : ((1 <=? c_ch c)%N && (c_ch c <=? 6)%N) = false).
    { unfold tnd_wf in Ewf. apply orb_false_elim in Ewf as [Ewf _]. apply orb_false_elim in Ewf as [Ewf _].
      apply orb_false_elim in Ewf as [_ Ewf]. exact Ewf. }
    assert (H1 : (c_ch c =? 1)%N = false).
    { apply N.eqb_neq. intro E. rewrite E in Hnc. discriminate. }
    assert (H2 : ((1 <? c_ch c)%N && (c_ch c <=? 6)%N) = false).
    { destruct (N.ltb_spec 1 (c_ch c)); [|reflexivity]. cbn [andb].
      destruct (N.leb_spec 1 (c_ch c)); [|lia]. cbn [andb] in Hnc. exact Hnc. }
    rewrite H1, H2. cbn [bind]. reflexivity.
Qed.

(* ------------------------------------------------------------------ the whole cell stream *)
Fixpoint tnd_bytes (pal : list rgb) (first : bool) (prev : TextAttribute) (cells : list cell) : list N :=
  match cells with
  | [] => []
  | c :: t => fst (tnd_cell pal first prev c) ++ tnd_bytes pal false (snd (tnd_cell pal first prev c)) t
  end.

Lemma tnd_cells_visible pal : forall cells first prev idx,
  Forall (fun c => is_visible c = true /\ (c_ch c < 256)%N) cells ->
  tnd_cells pal first prev None idx cells = Ok (tnd_bytes pal first prev cells, None).
Proof.
  induction cells as [|c t IH]; intros first prev idx H; [reflexivity|].
  inversion H as [|? ? (Hv & Hc) Ht]; subst. cbn [tnd_cells tnd_bytes]. rewrite Hv. cbn [negb].
  destruct (N.ltb_spec 255 (c_ch c)); [lia|].
  destruct (tnd_cell pal first prev c) as [bytes prev'] eqn:E. cbn [fst snd].
  rewrite IH by exact Ht. cbn [bind]. reflexivity.
Qed.

Fixpoint tnd_dec (pal : list rgb) (first : bool) (prev : TextAttribute) (cells : list cell)
         (palL : list rgb) (atL : TextAttribute) : list cell * list rgb * TextAttribute :=
  match cells with
  | [] => ([], palL, atL)
  | c :: t =>
    let pa := tnd_dec1 pal first prev c palL atL in
    let r := tnd_dec pal false (snd (tnd_cell pal first prev c)) t (fst pa) (snd pa) in
    (mkCell (c_ch c) (snd pa) :: fst (fst r), snd (fst r), snd r)
  end.

Fixpoint flat_fill (w : Z) (L : layer) (x y : Z) (cells : list cell) : layer * Z * Z :=
  match cells with
  | [] => (L, x, y)
  | c :: t => let L' := put true L x y c in
              if x + 1 >=? w then flat_fill w L' 0 (y + 1) t else flat_fill w L' (x + 1) y t
  end.

Lemma flat_fill_cons w L x y c t :
  flat_fill w L x y (c :: t) =
  if x + 1 >=? w then flat_fill w (put true L x y c) 0 (y + 1) t else flat_fill w (put true L x y c) (x + 1) y t.
Proof. reflexivity. Qed.

Lemma tnd_cell_bytes_nonempty pal first prev c : (1 <= length (fst (tnd_cell pal first prev c)))%nat.
Proof. unfold tnd_cell. destruct (tnd_wf pal first prev c || tnd_wb pal first prev c); cbn [fst length app]; lia. Qed.

Lemma tnd_loop_cells pal w : forall cells first prev fuel L palL atL x y rest,
  Forall (fun c => (c_ch c < 256)%N) cells ->
  (length (tnd_bytes pal first prev cells ++ rest) <= fuel)%nat ->
  exists fuel', (length rest <= fuel')%nat /\
    tnd_loop fuel w L palL atL x y (tnd_bytes pal first prev cells ++ rest) =
    (let r := tnd_dec pal first prev cells palL atL in
     let f := flat_fill w L x y (fst (fst r)) in
     tnd_loop fuel' w (fst (fst f)) (snd (fst r)) (snd r) (snd (fst f)) (snd f) rest).
Proof.
  induction cells as [|c t IH]; intros first prev fuel L palL atL x y rest Hall Hf.
  - exists fuel. split; [exact Hf|reflexivity].
  - inversion Hall as [|? ? Hc Ht]; subst. cbn [tnd_bytes] in *. rewrite <- app_assoc in *.
    pose proof (tnd_cell_bytes_nonempty pal first prev c) as Hne.
    rewrite app_length in Hf. destruct fuel as [|fuel]; [lia|].
    rewrite tnd_loop_step by exact Hc.
    destruct (tnd_dec1 pal first prev c palL atL) as [p2 a2] eqn:E1.
    cbn [tnd_dec]. rewrite E1. cbn [fst snd]. rewrite !flat_fill_cons.
    destruct (x + 1 >=? w).
    + destruct (IH false (snd (tnd_cell pal first prev c)) fuel (put true L x y (mkCell (c_ch c) a2)) p2 a2 0 (y + 1) rest Ht ltac:(lia))
        as (fuel' & Hf' & Heq). exists fuel'. split; [exact Hf'|]. exact Heq.
    + destruct (IH false (snd (tnd_cell pal first prev c)) fuel (put true L x y (mkCell (c_ch c) a2)) p2 a2 (x + 1) y rest Ht ltac:(lia))
        as (fuel' & Hf' & Heq). exists fuel'. split; [exact Hf'|]. exact Heq.
Qed.

Lemma flat_fill_row w cells : forall L x y rest,
  cells <> [] -> x + Z.of_nat (length cells) = w ->
  flat_fill w L x y (cells ++ rest) = flat_fill w (fill_row true L x y cells) 0 (y + 1) rest.
Proof.
  induction cells as [|c t IH]; intros L x y rest Hne Hw; [congruence|].
  cbn [app flat_fill fill_row]. destruct t as [|c' t'].
  - cbn [length] in Hw. destruct (Z.geb_spec (x + 1) w); [|lia]. reflexivity.
  - cbn [length] in Hw. destruct (Z.geb_spec (x + 1) w); [lia|].
    apply IH; [discriminate|cbn [length]; lia].
Qed.

Lemma flat_fill_rows w rows : forall L y,
  1 <= w -> Forall (fun r => Z.of_nat (length r) = w) rows ->
  flat_fill w L 0 y (concat rows) = (fill_rows true L y rows, 0, y + Z.of_nat (length rows)).
Proof.
  induction rows as [|r t IH]; intros L y Hw Hall.
  - cbn. rewrite Z.add_0_r. reflexivity.
  - inversion Hall as [|? ? Hr Ht]; subst. cbn [concat fill_rows length].
    rewrite flat_fill_row by (try lia; intro E; subst r; cbn in Hw; lia).
    rewrite IH by assumption. f_equal. lia.
Qed.

(* ------------------------------------------------------------------ colours survive: invariant between writer and loader *)
Definition tnd_flags_ok (a : TextAttribute) : Prop := attr a = attr (from_u8 0 Ice) /\ font_page a = 0%N.
Definition tnd_valid (palL : list rgb) (a : TextAttribute) : Prop :=
  (N.to_nat (foreground_color a) < length palL)%nat /\ (N.to_nat (background_color a) < length palL)%nat /\ tnd_flags_ok a.
Definition tnd_agree (pal : list rgb) (prev : TextAttribute) (palL : list rgb) (a : TextAttribute) : Prop :=
  pal_get_rgb pal (foreground_color prev) = pal_get_rgb palL (foreground_color a) /\
  pal_get_rgb pal (background_color prev) = pal_get_rgb palL (background_color a) /\ is_bold prev = false.

Lemma insert_color_ok palL col :
  (N.of_nat (length palL) < 2147483647)%N ->
  exists ext, fst (insert_color palL col) = palL ++ ext /\ (length ext <= 1)%nat /\
    (N.to_nat (snd (insert_color palL col)) < length (fst (insert_color palL col)))%nat /\
    pal_get_rgb (fst (insert_color palL col)) (snd (insert_color palL col)) = col.
Proof.
  intro Hlen. destruct (insert_color_spec palL col) as (ext & He & Hl & Hn). exists ext.
  split; [exact He|]. split; [exact Hl|].
  assert (Hlt : (N.to_nat (snd (insert_color palL col)) < length (fst (insert_color palL col)))%nat)
    by (apply nth_error_Some; congruence).
  split; [exact Hlt|]. apply pal_get_rgb_nth; [|exact Hn].
  rewrite He, app_length in Hlt. lia.
Qed.

Lemma rgb_eqb_refl a : rgb_eqb a a = true.
Proof. destruct a as [[r g] b]. cbn. rewrite !N.eqb_refl. reflexivity. Qed.

Lemma negb_rgb_eqb_false a b : negb (rgb_eqb a b) = false -> a = b.
Proof. intro H. apply negb_false_iff in H. apply rgb_eqb_eq, H. Qed.

Lemma tnd_dec1_spec pal first prev c palL atL :
  cell_tnd c -> tnd_valid palL atL -> (first = true \/ tnd_agree pal prev palL atL) ->
  (N.of_nat (length palL) + 2 < 2147483648)%N ->
  let pa := tnd_dec1 pal first prev c palL atL in
  exists ext, fst pa = palL ++ ext /\ (length ext <= 2)%nat /\ tnd_valid (fst pa) (snd pa) /\
    tnd_agree pal (snd (tnd_cell pal first prev c)) (fst pa) (snd pa) /\
    pal_get_rgb (fst pa) (foreground_color (snd pa)) = pal_get_rgb pal (foreground_color (c_attr c)) /\
    pal_get_rgb (fst pa) (background_color (snd pa)) = pal_get_rgb pal (background_color (c_attr c)).
Proof.
  intros (Hch & Hvis & Hpg & Hbold & Hblink & Hfg & Hbg) (Hvf & Hvb & Hfl) Hinv Hlen.
  assert (Hfgi : tnd_fgi (c_attr c) = foreground_color (c_attr c)) by (unfold tnd_fgi; rewrite Hbold; reflexivity).
  unfold tnd_dec1, tnd_cell. rewrite Hfgi.
  destruct (tnd_wf pal first prev c) eqn:Ewf; destruct (tnd_wb pal first prev c) eqn:Ewb; cbn [orb fst snd].
  - (* both *)
    destruct (insert_color_ok palL (pal_get_rgb pal (foreground_color (c_attr c))) ltac:(lia)) as (e1 & He1 & Hl1 & Hi1 & Hc1).
    set (p1 := fst (insert_color palL (pal_get_rgb pal (foreground_color (c_attr c))))) in *.
    set (i1 := snd (insert_color palL (pal_get_rgb pal (foreground_color (c_attr c))))) in *.
    assert (Hp1len : (N.of_nat (length p1) < 2147483647)%N) by (rewrite He1, app_length; lia).
    destruct (insert_color_ok p1 (pal_get_rgb pal (background_color (c_attr c))) Hp1len) as (e2 & He2 & Hl2 & Hi2 & Hc2).
    set (p2 := fst (insert_color p1 (pal_get_rgb pal (background_color (c_attr c))))) in *.
    set (i2 := snd (insert_color p1 (pal_get_rgb pal (background_color (c_attr c))))) in *.
    exists (e1 ++ e2). rewrite He2, He1, <- app_assoc. split; [reflexivity|]. split; [rewrite app_length; lia|].
    assert (Hfgp2 : pal_get_rgb (palL ++ e1 ++ e2) i1 = pal_get_rgb pal (foreground_color (c_attr c))).
    { rewrite app_assoc, <- He1. rewrite pal_get_rgb_app by exact Hi1. exact Hc1. }
    assert (Hbgp2 : pal_get_rgb (palL ++ e1 ++ e2) i2 = pal_get_rgb pal (background_color (c_attr c))).
    { rewrite app_assoc, <- He1, <- He2. exact Hc2. }
    split; [|split; [|split]].
    + unfold tnd_valid. cbn [with_bg with_fg foreground_color background_color attr font_page].
      split; [rewrite app_assoc, <- He1, app_length; lia|]. split; [rewrite app_assoc, <- He1, <- He2; exact Hi2|exact Hfl].
    + unfold tnd_agree. cbn [with_bg with_fg foreground_color background_color]. rewrite Hfgp2, Hbgp2. auto.
    + cbn [with_bg with_fg foreground_color]. exact Hfgp2.
    + cbn [with_bg with_fg background_color]. exact Hbgp2.
  - (* foreground only: not the first cell *)
    assert (Hnf : first = false) by (unfold tnd_wb in Ewb; apply orb_false_elim in Ewb; apply Ewb).
    destruct Hinv as [Hf|(Ha1 & Ha2 & Ha3)]; [congruence|].
    assert (Hbgeq : pal_get_rgb pal (background_color prev) = pal_get_rgb pal (background_color (c_attr c))).
    { unfold tnd_wb in Ewb. apply orb_false_elim in Ewb as [_ Ewb]. apply negb_rgb_eqb_false, Ewb. }
    destruct (insert_color_ok palL (pal_get_rgb pal (foreground_color (c_attr c))) ltac:(lia)) as (e1 & He1 & Hl1 & Hi1 & Hc1).
    set (p1 := fst (insert_color palL (pal_get_rgb pal (foreground_color (c_attr c))))) in *.
    set (i1 := snd (insert_color palL (pal_get_rgb pal (foreground_color (c_attr c))))) in *.
    exists e1. split; [exact He1|]. split; [lia|].
    assert (Hbgp : pal_get_rgb p1 (background_color atL) = pal_get_rgb pal (background_color (c_attr c))).
    { rewrite He1, pal_get_rgb_app by exact Hvb. rewrite <- Ha2. exact Hbgeq. }
    split; [|split; [|split]].
    + unfold tnd_valid. cbn [with_fg foreground_color background_color attr font_page].
      split; [exact Hi1|]. split; [rewrite He1, app_length; lia|exact Hfl].
    + unfold tnd_agree. cbn [with_fg foreground_color background_color]. rewrite Hc1, Hbgp. auto.
    + cbn [with_fg foreground_color]. exact Hc1.
    + cbn [with_fg background_color]. exact Hbgp.
  - (* background only: not the first cell *)
    assert (Hnf : first = false).
    { unfold tnd_wf in Ewf. apply orb_false_elim in Ewf as [Ewf _]. apply orb_false_elim in Ewf as [Ewf _].
      apply orb_false_elim in Ewf as [Ewf _]. exact Ewf. }
    destruct Hinv as [Hf|(Ha1 & Ha2 & Ha3)]; [congruence|].
    assert (Hfgeq : pal_get_rgb pal (foreground_color prev) = pal_get_rgb pal (foreground_color (c_attr c))).
    { unfold tnd_wf in Ewf. apply orb_false_elim in Ewf as [Ewf _]. apply orb_false_elim in Ewf as [_ Ewf].
      apply negb_rgb_eqb_false, Ewf. }
    destruct (insert_color_ok palL (pal_get_rgb pal (background_color (c_attr c))) ltac:(lia)) as (e1 & He1 & Hl1 & Hi1 & Hc1).
    set (p1 := fst (insert_color palL (pal_get_rgb pal (background_color (c_attr c))))) in *.
    set (i1 := snd (insert_color palL (pal_get_rgb pal (background_color (c_attr c))))) in *.
    exists e1. split; [exact He1|]. split; [lia|].
    assert (Hfgp : pal_get_rgb p1 (foreground_color atL) = pal_get_rgb pal (foreground_color (c_attr c))).
    { rewrite He1, pal_get_rgb_app by exact Hvf. rewrite <- Ha1. exact Hfgeq. }
    split; [|split; [|split]].
    + unfold tnd_valid. cbn [with_bg foreground_color background_color attr font_page].
      split; [rewrite He1, app_length; lia|]. split; [exact Hi1|exact Hfl].
    + unfold tnd_agree. cbn [with_bg foreground_color background_color]. rewrite Hc1, Hfgp. auto.
    + cbn [with_bg foreground_color]. exact Hfgp.
    + cbn [with_bg background_color]. exact Hc1.
  - (* nothing written *)
    assert (Hnf : first = false) by (unfold tnd_wb in Ewb; apply orb_false_elim in Ewb; apply Ewb).
    destruct Hinv as [Hf|(Ha1 & Ha2 & Ha3)]; [congruence|].
    assert (Hbgeq : pal_get_rgb pal (background_color prev) = pal_get_rgb pal (background_color (c_attr c))).
    { unfold tnd_wb in Ewb. apply orb_false_elim in Ewb as [_ Ewb]. apply negb_rgb_eqb_false, Ewb. }
    assert (Hfgeq : pal_get_rgb pal (foreground_color prev) = pal_get_rgb pal (foreground_color (c_attr c))).
    { unfold tnd_wf in Ewf. apply orb_false_elim in Ewf as [Ewf _]. apply orb_false_elim in Ewf as [_ Ewf].
      apply negb_rgb_eqb_false, Ewf. }
    exists []. rewrite app_nil_r. split; [reflexivity|]. split; [cbn; lia|].
    split; [|split; [|split]].
    + split; [exact Hvf|]. split; [exact Hvb|exact Hfl].
    + split; [exact Ha1|]. split; [exact Ha2|exact Ha3].
    + rewrite <- Ha1. exact Hfgeq.
    + rewrite <- Ha2. exact Hbgeq.
Qed.

(* a loaded cell, seen against the final palette *)
Definition tnd_loaded_ok (pal pf : list rgb) (c c' : cell) : Prop :=
  c_ch c' = c_ch c /\ tnd_flags_ok (c_attr c') /\
  pal_get_rgb pf (foreground_color (c_attr c')) = pal_get_rgb pal (foreground_color (c_attr c)) /\
  pal_get_rgb pf (background_color (c_attr c')) = pal_get_rgb pal (background_color (c_attr c)).

Lemma tnd_dec_spec pal : forall cells first prev palL atL,
  Forall cell_tnd cells -> tnd_valid palL atL -> (first = true \/ tnd_agree pal prev palL atL) ->
  (N.of_nat (length palL) + 2 * N.of_nat (length cells) < 2147483648)%N ->
  let r := tnd_dec pal first prev cells palL atL in
  (exists ext, snd (fst r) = palL ++ ext) /\ Forall2 (tnd_loaded_ok pal (snd (fst r))) cells (fst (fst r)).
Proof.
  induction cells as [|c t IH]; intros first prev palL atL Hall Hv Hinv Hlen.
  - cbn. split; [exists []; rewrite app_nil_r; reflexivity|constructor].
  - inversion Hall as [|? ? Hc Ht]; subst. cbn [length] in Hlen.
    destruct (tnd_dec1_spec pal first prev c palL atL Hc Hv Hinv ltac:(lia)) as (e1 & He1 & Hl1 & Hv1 & Ha1 & Hf1 & Hb1).
    cbn [tnd_dec]. cbv zeta.
    set (pa := tnd_dec1 pal first prev c palL atL) in *.
    assert (Hlen1 : (N.of_nat (length (fst pa)) + 2 * N.of_nat (length t) < 2147483648)%N) by (rewrite He1, app_length; lia).
    destruct (IH false (snd (tnd_cell pal first prev c)) (fst pa) (snd pa) Ht Hv1 (or_intror Ha1) Hlen1) as ((e2 & He2) & HF).
    set (r := tnd_dec pal false (snd (tnd_cell pal first prev c)) t (fst pa) (snd pa)) in *.
    cbn [fst snd]. split.
    + exists (e1 ++ e2). rewrite He2, He1, app_assoc. reflexivity.
    + constructor; [|exact HF]. destruct Hv1 as (Hvf & Hvb & Hfl).
      unfold tnd_loaded_ok. cbn [c_ch c_attr]. split; [reflexivity|]. split; [exact Hfl|].
      rewrite He2, !pal_get_rgb_app by assumption. auto.
Qed.

(* ------------------------------------------------------------------ file round trip *)
Lemma Forall2_concat_split {A B} (R : A -> B -> Prop) : forall rows l,
  Forall2 R (concat rows) l -> exists rows', l = concat rows' /\ Forall2 (Forall2 R) rows rows'.
Proof.
  induction rows as [|r t IH]; intros l H.
  - cbn in H. inversion H; subst. exists []. split; [reflexivity|constructor].
  - cbn [concat] in H. apply Forall2_app_inv_l in H. destruct H as (l1 & l2 & H1 & H2 & ->).
    destruct (IH l2 H2) as (t' & -> & Ht'). exists (l1 :: t'). split; [reflexivity|constructor; assumption].
Qed.

Lemma flags_ok_visible ch a : tnd_flags_ok a -> is_visible (mkCell ch a) = true /\ is_bold a = false /\ is_blinking a = false.
Proof.
  intros (Ha & _). unfold is_visible, is_bold, is_blinking. cbn [c_attr]. rewrite Ha. vm_compute. repeat split.
Qed.

Lemma tnd_same_cell pal pf c c' :
  cell_tnd c -> tnd_loaded_ok pal pf c c' -> same_cell_rgb pal pf c (seen c').
Proof.
  intros (_ & _ & _ & Hbold & Hblink & _ & _) (Hch & Hfl & Hfg & Hbg).
  destruct c' as [ch' a']. cbn [c_ch c_attr] in *.
  destruct (flags_ok_visible ch' a' Hfl) as (Hv & Hb' & Hbl').
  unfold seen. rewrite Hv. unfold same_cell_rgb. cbn [c_ch c_attr]. split; [symmetry; exact Hch|].
  unfold shown_rgb, shown_fg, shown_fg_core. rewrite Hb', Hbold. cbn [andb]. rewrite Hbl', Hblink, Hfg, Hbg. reflexivity.
Qed.

Lemma tnd_same_cells pal pf : forall rows rows',
  Forall (Forall cell_tnd) rows -> Forall2 (Forall2 (tnd_loaded_ok pal pf)) rows rows' ->
  Forall2 (Forall2 (same_cell_rgb pal pf)) rows (map (map seen) rows').
Proof.
  intros rows rows' Hall HF. revert Hall.
  induction HF as [|r0 r0' t t' Hr _ IH]; intro Hall; [constructor|].
  inversion Hall as [|? ? Hr0 Ht]; subst. cbn [map]. constructor; [|apply IH, Ht].
  clear -Hr Hr0. revert Hr0. induction Hr as [|c c' u u' Hc _ IHr]; intro Hr0; [constructor|].
  inversion Hr0; subst. cbn [map]. constructor; [apply tnd_same_cell; assumption|apply IHr; assumption].
Qed.

Lemma tnd_roundtrip_proof : forall p, representable_tnd p ->
  exists data b, save_tnd p = Ok data /\ load_tnd data (Some (tnd_sauce p)) = Ok b /\ same_picture_rgb p (pic_of b).
Proof.
  intros p (Hrect & Hw & Hsize & Hice & Hcells).
  destruct Hrect as (Hw0 & Hh0 & Hlen & Hrows).
  set (pal := p_pal p). set (cells := concat (p_rows p)).
  set (prev0 := from_u8 0 (p_ice p)).
  set (bytes := tnd_bytes pal true prev0 cells).
  set (data := [TUNDRA_VER] ++ TUNDRA_HEADER ++ bytes).
  assert (Hcellsall : Forall cell_tnd cells) by (apply Forall_concat; exact Hcells).
  assert (Hncells : Z.of_nat (length cells) = p_w p * p_h p).
  { unfold cells. rewrite (concat_length_const _ (Z.to_nat (p_w p))) by exact Hrows. rewrite Hlen. nia. }
  (* the loader's view *)
  set (palL0 := [(0, 0, 0)%N] : list rgb). set (atL0 := from_u8 0 Ice).
  set (r := tnd_dec pal true prev0 cells palL0 atL0).
  assert (Hv0 : tnd_valid palL0 atL0) by (unfold tnd_valid, tnd_flags_ok; cbn; repeat split; lia).
  destruct (tnd_dec_spec pal cells true prev0 palL0 atL0 Hcellsall Hv0 (or_introl eq_refl)) as (_ & HF).
  { cbn [palL0 length]. lia. }
  fold r in HF.
  destruct (Forall2_concat_split _ _ _ HF) as (rows' & Hloaded & HF2).
  set (pf := snd (fst r)) in *.
  set (ls0 := l_lines (layer_new 80 25)).
  set (L0 := mkLayer (p_w p) 0 ls0).
  set (Lf := fill_rows true L0 0 rows').
  set (bs := set_sauce (buffer_new 80 25) (Some (tnd_sauce p))).
  set (b0 := set_modes (set_ice (set_pal bs palL0) Ice) 0 (b_fmode bs)).
  set (bfin := set_height (set_width (set_pal (set_layer b0 Lf) pf) (l_w Lf)) (l_h Lf)).
  exists data, bfin.
  assert (Hrowsw : Forall (fun r => Z.of_nat (length r) = p_w p) (p_rows p)).
  { eapply Forall_impl; [|exact Hrows]. cbv beta. intros r0 Hr. rewrite Hr. lia. }
  assert (Hrows'w : Forall (fun r => Z.of_nat (length r) = p_w p) rows').
  { clear -HF2 Hrowsw. induction HF2 as [|r1 r1' t t' Hr _ IH]; [constructor|].
    inversion Hrowsw; subst. constructor; [|apply IH; assumption].
    rewrite <- (Forall2_length_eq _ _ _ Hr). assumption. }
  assert (Hlen' : length rows' = length (p_rows p)) by (symmetry; apply (Forall2_length_eq _ _ _ HF2)).
  assert (Hb0 : b_w b0 = p_w p /\ b_layer b0 = L0 /\ b_pal b0 = palL0).
  { unfold b0, bs, tnd_sauce. rewrite Z.mod_small by lia. rewrite set_sauce_some by lia. repeat split. }
  destruct Hb0 as (Hb0w & Hb0l & Hb0p).
  split; [|split].
  - (* save *)
    unfold save_tnd.
    assert (Hpg : Forall (Forall (fun c => font_page (c_attr c) = 0%N)) (p_rows p)).
    { eapply Forall_impl; [|exact Hcells]. intros r0 Hr. eapply Forall_impl; [|exact Hr]. intros c Hc. apply Hc. }
    rewrite used_pages_page0 by exact Hpg. cbn [length Nat.ltb Nat.leb].
    fold cells pal prev0. rewrite tnd_cells_visible.
    + cbn [bind]. cbn [Z.to_nat repeat]. rewrite app_nil_r. reflexivity.
    + eapply Forall_impl; [|exact Hcellsall]. intros c Hc. split; apply Hc.
  - (* load *)
    unfold load_tnd.
    assert (Hdl : (length data <? 1 + length TUNDRA_HEADER)%nat = false).
    { apply Nat.ltb_ge. unfold data. rewrite !app_length. cbn. lia. }
    rewrite Hdl. unfold data. cbn [app].
    rewrite firstn_app_exact by reflexivity.
    destruct (list_eq_dec N.eq_dec TUNDRA_HEADER TUNDRA_HEADER) as [_|Hn]; [|exfalso; apply Hn; reflexivity].
    cbn [negb]. rewrite skipn_app_exact by reflexivity.
    fold bs. fold palL0. fold b0.
    rewrite Hb0w, Hb0l, Hb0p.
    destruct (tnd_loop_cells pal (p_w p) cells true prev0 (length bytes) L0 palL0 atL0 0 0 []) as (fuel' & _ & Heq).
    { eapply Forall_impl; [|exact Hcellsall]. intros c Hc. apply Hc. }
    { fold bytes. rewrite app_nil_r. lia. }
    fold bytes in Heq. rewrite app_nil_r in Heq. fold atL0. rewrite Heq. cbv zeta. fold r.
    rewrite Hloaded, flat_fill_rows by (try assumption; lia). cbn [fst snd].
    destruct fuel'; cbn [tnd_loop bind]; reflexivity.
  - (* picture *)
    assert (HLf : Lf = mkLayer (p_w p) (match rows' with [] => 0 | _ => 0 + Z.of_nat (length rows') end) (lfill_rows (p_w p) ls0 0 rows')).
    { unfold Lf. rewrite fill_rows_spec; cbn [L0 l_w l_h l_lines].
      - reflexivity.
      - lia.
      - eapply Forall_impl; [|exact Hrows'w]. cbv beta. intros r0 Hr. split; [lia|]. intro E. subst r0. cbn in Hr. lia.
      - left. reflexivity. }
    assert (HLfh : l_h Lf = Z.of_nat (length rows')) by (rewrite HLf; cbn [l_h]; destruct rows'; cbn [length]; lia).
    assert (HLfw : l_w Lf = p_w p) by (rewrite HLf; reflexivity).
    assert (Hpic : p_rows (pic_of bfin) = map (map seen) rows').
    { apply pic_rows_of_lines with (w := Z.to_nat (p_w p)); unfold bfin; cbn [b_w b_h b_layer set_height set_width set_pal set_layer].
      - rewrite HLfw. lia.
      - exact HLfh.
      - lia.
      - lia.
      - eapply Forall_impl; [|exact Hrows'w]. cbv beta. intros r0 Hr. lia.
      - intros x y r0 c Hr Hc. rewrite HLf. cbn [l_lines]. rewrite cell_at_lfill_rows. cbn [Nat.leb]. rewrite Nat.sub_0_r, Hr, Hc. reflexivity. }
    unfold same_picture_rgb. rewrite Hpic.
    unfold bfin. cbn [pic_of p_w p_h p_ice p_pal b_w b_h b_ice b_pal set_height set_width set_pal set_layer].
    split; [symmetry; exact HLfw|]. split; [rewrite HLfh, Hlen', Hlen; lia|]. split.
    + unfold same_mode. rewrite Hice. reflexivity.
    + fold pal. apply tnd_same_cells; assumption.
Qed.

(* ------------------------------------------------------------------ Tundra: what any accepted file loads as *)
Definition tnd_stored (palL : list rgb) (c : cell) : Prop :=
  c = invisible_cell \/
  ((c_ch c < 256)%N /\ tnd_flags_ok (c_attr c) /\
   (N.to_nat (foreground_color (c_attr c)) < length palL)%nat /\ (N.to_nat (background_color (c_attr c)) < length palL)%nat).

Lemma tnd_stored_mono palL ext c : tnd_stored palL c -> tnd_stored (palL ++ ext) c.
Proof.
  intros [H | (H1 & H2 & H3 & H4)]; [left; exact H|right]. rewrite app_length.
  split; [exact H1|]. split; [exact H2|]. split; lia.
Qed.

Lemma all_cells_impl (P Q : cell -> Prop) ls : (forall c, P c -> Q c) -> all_cells P ls -> all_cells Q ls.
Proof. intros H Ha. eapply Forall_impl; [|exact Ha]. intros l Hl. eapply Forall_impl; [|exact Hl]. exact H. Qed.

Lemma tnd_valid_mono palL ext a : tnd_valid palL a -> tnd_valid (palL ++ ext) a.
Proof. intros (H1 & H2 & H3). unfold tnd_valid. rewrite app_length. split; [lia|]. split; [lia|exact H3]. Qed.

Lemma insert_fg_valid palL a col :
  tnd_valid palL a ->
  exists ext, fst (insert_color palL col) = palL ++ ext /\ (length ext <= 1)%nat /\
              tnd_valid (fst (insert_color palL col)) (with_fg a (snd (insert_color palL col))).
Proof.
  intros (H1 & H2 & H3). destruct (insert_color_spec palL col) as (ext & He & Hl & Hn). exists ext.
  split; [exact He|]. split; [exact Hl|].
  assert (Hlt : (N.to_nat (snd (insert_color palL col)) < length (fst (insert_color palL col)))%nat) by (apply nth_error_Some; congruence).
  unfold tnd_valid. cbn [with_fg foreground_color background_color attr font_page]. split; [exact Hlt|].
  split; [rewrite He, app_length; lia|exact H3].
Qed.

Lemma insert_bg_valid palL a col :
  tnd_valid palL a ->
  exists ext, fst (insert_color palL col) = palL ++ ext /\ (length ext <= 1)%nat /\
              tnd_valid (fst (insert_color palL col)) (with_bg a (snd (insert_color palL col))).
Proof.
  intros (H1 & H2 & H3). destruct (insert_color_spec palL col) as (ext & He & Hl & Hn). exists ext.
  split; [exact He|]. split; [exact Hl|].
  assert (Hlt : (N.to_nat (snd (insert_color palL col)) < length (fst (insert_color palL col)))%nat) by (apply nth_error_Some; congruence).
  unfold tnd_valid. cbn [with_bg foreground_color background_color attr font_page].
  split; [rewrite He, app_length; lia|]. split; [exact Hlt|exact H3].
Qed.

Lemma tnd_color_ok l c t : tnd_color l = Ok (c, t) -> exists s, l = s :: (fst (fst c)) :: (snd (fst c)) :: (snd c) :: t.
Proof.
  destruct l as [|s [|r [|g [|b t']]]]; cbn [tnd_color]; try discriminate.
  intro H. injection H as <- <-. exists s. reflexivity.
Qed.

Lemma tnd_loop_inv w : forall fuel data L palL atL x y L' pf,
  is_bytes data -> tnd_valid palL atL -> all_cells (tnd_stored palL) (l_lines L) ->
  tnd_loop fuel w L palL atL x y data = Ok (L', pf) ->
  l_w L' = l_w L /\ all_cells (tnd_stored pf) (l_lines L') /\ (length pf <= length palL + 2 * length data)%nat.
Proof.
  induction fuel as [|fuel IH]; intros data L palL atL x y L' pf Hb Hv Hc H.
  { destruct data; cbn [tnd_loop] in H; [|discriminate]. injection H as <- <-. repeat split; try assumption. lia. }
  destruct data as [|cmd rest]; cbn [tnd_loop] in H.
  { injection H as <- <-. repeat split; try assumption. lia. }
  unfold is_bytes in Hb. inversion Hb as [|? ? Hcmd Hrest]; subst.
  destruct (cmd =? TUNDRA_POSITION)%N.
  - (* a jump: the state is unchanged *)
    destruct rest as [|a0 [|a1 [|a2 [|a3 rest1]]]]; try discriminate.
    destruct (be_i32 a0 a1 a2 a3 >=? 65535); [discriminate|].
    destruct rest1 as [|c0 [|c1 [|c2 [|c3 rest2]]]]; try discriminate.
    destruct (be_i32 c0 c1 c2 c3 >=? w); [discriminate|].
    assert (Hr2 : is_bytes rest2).
    { unfold is_bytes. repeat match goal with Hx : Forall _ (_ :: _) |- _ => inversion Hx; clear Hx; subst end. assumption. }
    destruct (IH rest2 L palL atL _ _ L' pf Hr2 Hv Hc H) as (H1 & H2 & H3). repeat split; try assumption. cbn [length]. lia.
  - (* a cell, with or without colour changes *)
    assert (Htok : exists ch pal1 at1 rest1,
              (if (1 <? cmd)%N && (cmd <=? 6)%N
               then match rest with
                    | [] => Panic 6
                    | ch :: r0 =>
                      let* '(pal1, at1, r1) :=
                         if negb (N.land cmd TUNDRA_COLOR_FOREGROUND =? 0)%N
                         then let* '(c, r1) := tnd_color r0 in let '(pal1, i) := insert_color palL c in Ok (pal1, with_fg atL i, r1)
                         else Ok (palL, atL, r0) in
                      let* '(pal2, at2, r2) :=
                         if negb (N.land cmd TUNDRA_COLOR_BACKGROUND =? 0)%N
                         then let* '(c, r2) := tnd_color r1 in let '(pal2, i) := insert_color pal1 c in Ok (pal2, with_bg at1 i, r2)
                         else Ok (pal1, at1, r1) in
                      Ok (ch, pal2, at2, r2)
                    end
               else Ok (cmd, palL, atL, rest)) = Ok (ch, pal1, at1, rest1) /\
              (ch < 256)%N /\ is_bytes rest1 /\ (length rest1 <= length rest)%nat /\
              (exists ext, pal1 = palL ++ ext /\ (length ext <= 2)%nat) /\ tnd_valid pal1 at1).
    { destruct ((1 <? cmd)%N && (cmd <=? 6)%N).
      - destruct rest as [|ch r0]; [cbn [bind] in H; discriminate|].
        inversion Hrest as [|? ? Hch Hr0]; subst.
        (* foreground *)
        assert (Hfg : exists pa1 aa1 r1, (if negb (N.land cmd TUNDRA_COLOR_FOREGROUND =? 0)%N
                         then let* '(c, r1) := tnd_color r0 in let '(pal1, i) := insert_color palL c in Ok (pal1, with_fg atL i, r1)
                         else Ok (palL, atL, r0)) = Ok (pa1, aa1, r1) /\
                      is_bytes r1 /\ (length r1 <= length r0)%nat /\ (exists e1, pa1 = palL ++ e1 /\ (length e1 <= 1)%nat) /\ tnd_valid pa1 aa1).
        { destruct (negb (N.land cmd TUNDRA_COLOR_FOREGROUND =? 0)%N).
          - destruct (tnd_color r0) as [[c r1]| |] eqn:Ec; cbn [bind] in H |- *; try discriminate.
            destruct (tnd_color_ok _ _ _ Ec) as (s0 & ->).
            destruct (insert_fg_valid palL atL c Hv) as (e1 & He1 & Hl1 & Hv1).
            destruct (insert_color palL c) as [p1 i1]. cbn [fst snd] in *.
            exists p1, (with_fg atL i1), r1. split; [reflexivity|].
            split; [unfold is_bytes in *; repeat match goal with Hx : Forall _ (_ :: _) |- _ => inversion Hx; clear Hx; subst end; assumption|].
            split; [cbn [length]; lia|]. split; [exists e1; auto|exact Hv1].
          - exists palL, atL, r0. split; [reflexivity|]. split; [exact Hr0|]. split; [lia|].
            split; [exists []; rewrite app_nil_r; split; [reflexivity|cbn; lia]|exact Hv]. }
        destruct Hfg as (pa1 & aa1 & r1 & Hfgeq & Hr1 & Hl1 & (e1 & He1 & Hle1) & Hv1).
        rewrite Hfgeq in H |- *. cbn [bind] in H |- *.
        destruct (negb (N.land cmd TUNDRA_COLOR_BACKGROUND =? 0)%N).
        + destruct (tnd_color r1) as [[c r2]| |] eqn:Ec; cbn [bind] in H |- *; try discriminate.
          destruct (tnd_color_ok _ _ _ Ec) as (s0 & ->).
          destruct (insert_bg_valid pa1 aa1 c Hv1) as (e2 & He2 & Hl2 & Hv2).
          destruct (insert_color pa1 c) as [p2 i2]. cbn [fst snd] in *.
          exists ch, p2, (with_bg aa1 i2), r2. split; [reflexivity|]. split; [exact Hch|].
          split; [unfold is_bytes in *; repeat match goal with Hx : Forall _ (_ :: _) |- _ => inversion Hx; clear Hx; subst end; assumption|].
          split; [cbn [length] in *; lia|]. split; [|exact Hv2].
          exists (e1 ++ e2). rewrite He2, He1, <- app_assoc. split; [reflexivity|rewrite app_length; lia].
        + exists ch, pa1, aa1, r1. split; [reflexivity|]. split; [exact Hch|]. split; [exact Hr1|].
          split; [cbn [length]; lia|]. split; [exists e1; split; [exact He1|lia]|exact Hv1].
      - exists cmd, palL, atL, rest. split; [reflexivity|]. split; [exact Hcmd|]. split; [exact Hrest|]. split; [lia|].
        split; [exists []; rewrite app_nil_r; split; [reflexivity|cbn; lia]|exact Hv]. }
    destruct Htok as (ch & pal1 & at1 & rest1 & Heq & Hch & Hr1 & Hl1 & (ext & He & Hle) & Hv1).
    rewrite Heq in H. cbn [bind] in H.
    assert (Hc1 : all_cells (tnd_stored pal1) (l_lines (put true L x y (mkCell ch at1)))).
    { apply put_all_cells.
      - left. reflexivity.
      - right. cbn [c_ch c_attr]. destruct Hv1 as (V1 & V2 & V3). auto.
      - rewrite He. eapply all_cells_impl; [|exact Hc]. intros c0 Hc0. apply tnd_stored_mono, Hc0. }
    destruct (x + 1 >=? w).
    + destruct (IH rest1 _ pal1 at1 _ _ L' pf Hr1 Hv1 Hc1 H) as (H1 & H2 & H3).
      rewrite put_width in H1. repeat split; try assumption. rewrite He, app_length in H3. cbn [length]. lia.
    + destruct (IH rest1 _ pal1 at1 _ _ L' pf Hr1 Hv1 Hc1 H) as (H1 & H2 & H3).
      rewrite put_width in H1. repeat split; try assumption. rewrite He, app_length in H3. cbn [length]. lia.
Qed.

Definition tnd_sauce_like (s : option sauce) : Prop :=
  match s with None => True | Some s => 0 <= s_w s end.

Lemma default_cell_tnd : cell_tnd (cell_with_page default_cell 0).
Proof. unfold cell_tnd. vm_compute. repeat split; discriminate. Qed.

Lemma tnd_stored_seen pf c : (N.of_nat (length pf) <= 2147483648)%N -> tnd_stored pf c -> cell_tnd (seen c).
Proof.
  intros Hlen [-> | (Hch & Hfl & Hfg & Hbg)].
  - unfold seen. change (is_visible invisible_cell) with false. apply default_cell_tnd.
  - destruct c as [ch a]. cbn [c_ch c_attr] in *. destruct (flags_ok_visible ch a Hfl) as (Hv & Hb & Hbl).
    unfold seen. rewrite Hv. unfold cell_tnd. cbn [c_ch c_attr].
    split; [exact Hch|]. split; [exact Hv|]. split; [apply Hfl|]. split; [exact Hb|]. split; [exact Hbl|]. split; lia.
Qed.

Lemma tnd_load_representable : forall data s b,
  is_bytes data -> tnd_sauce_like s -> load_tnd data s = Ok b ->
  0 <= b_h b -> b_w b * b_h b < 1073741824 -> (N.of_nat (length data) < 536870912)%N ->
  representable_tnd (pic_of b).
Proof.
  intros data s b Hbytes Hs Hload Hh0 Hsize Hdlen. unfold load_tnd in Hload.
  set (b0 := set_sauce (buffer_new 80 25) s) in *.
  assert (Hb0 : exists w h0, 1 <= w <= 1000 /\ b_w b0 = w /\ b_layer b0 = mkLayer w h0 (l_lines (layer_new 80 25))).
  { unfold b0. destruct s as [s|]; [|exists 80, 25; repeat split; lia].
    cbn in Hs. unfold set_sauce.
    destruct (Z.eqb_spec (s_w s) 0) as [E|E]; cbn [orb].
    - exists 80, (s_h s). destruct (s_ice s); repeat split; lia.
    - destruct (Z.gtb_spec (s_w s) 1000).
      + exists 80, (s_h s). destruct (s_ice s); repeat split; lia.
      + exists (s_w s), (s_h s). destruct (s_ice s); repeat split; lia. }
  destruct Hb0 as (w & h0 & Hw & Hb0w & Hb0l).
  destruct (Nat.ltb_spec (length data) (1 + length TUNDRA_HEADER)) as [|Hlen]; [discriminate|].
  destruct data as [|ver rest]; [discriminate|].
  match type of Hload with (if negb ?c then _ else _) = _ => destruct c end; cbn [negb] in Hload; [|discriminate].
  set (b1 := set_modes (set_ice (set_pal b0 [(0, 0, 0)%N]) Ice) 0 (b_fmode b0)) in *.
  change (b_w b1) with (b_w b0) in Hload. change (b_layer b1) with (b_layer b0) in Hload.
  change (b_pal b1) with [(0, 0, 0)%N] in Hload. rewrite Hb0w, Hb0l in Hload.
  set (body := skipn (length TUNDRA_HEADER) rest) in *.
  destruct (tnd_loop (length body) w (mkLayer w h0 (l_lines (layer_new 80 25))) [(0, 0, 0)%N] (from_u8 0 Ice) 0 0 body)
    as [[L pf]| |] eqn:Eloop; cbn [bind] in Hload; try discriminate.
  injection Hload as <-.
  assert (Hbody : is_bytes body).
  { unfold body. apply is_bytes_skipn. unfold is_bytes in Hbytes. inversion Hbytes; assumption. }
  assert (Hv0 : tnd_valid [(0, 0, 0)%N] (from_u8 0 Ice)) by (unfold tnd_valid, tnd_flags_ok; cbn; repeat split; lia).
  assert (Hc0 : all_cells (tnd_stored [(0, 0, 0)%N]) (l_lines (mkLayer w h0 (l_lines (layer_new 80 25)))))
    by (cbn [l_lines]; apply layer_new_all_cells; left; reflexivity).
  destruct (tnd_loop_inv w (length body) body _ _ _ 0 0 L pf Hbody Hv0 Hc0 Eloop) as (HLw & Hcells & Hpl).
  cbn [l_w length] in HLw, Hpl.
  assert (Hbl : (length body <= length rest)%nat) by (unfold body; rewrite skipn_length; lia).
  cbn [length] in Hdlen.
  cbn [b_w b_h set_height set_width set_pal set_layer] in Hh0, Hsize.
  unfold representable_tnd.
  cbn [pic_of p_w p_h p_ice p_pal b_w b_h b_ice b_pal set_height set_width set_pal set_layer].
  split; [|split; [|split; [|split]]].
  - unfold rect. apply (pic_of_rect (set_height (set_width (set_pal (set_layer b1 L) pf) (l_w L)) (l_h L)));
      cbn [b_w b_h set_height set_width set_pal set_layer]; lia.
  - lia.
  - exact Hsize.
  - reflexivity.
  - unfold all_pic_cells.
    apply (pic_of_all_cells (tnd_stored pf) cell_tnd); cbn [b_w b_h b_layer set_height set_width set_pal set_layer].
    + lia.
    + lia.
    + left. reflexivity.
    + exact Hcells.
    + intros c Hc. apply (tnd_stored_seen pf); [lia|exact Hc].
Qed.

Lemma tnd_resave_proof : forall data s b,
  is_bytes data -> tnd_sauce_like s -> load_tnd data s = Ok b ->
  0 <= b_h b -> b_w b * b_h b < 1073741824 -> (N.of_nat (length data) < 536870912)%N ->
  exists data' b', save_tnd (pic_of b) = Ok data' /\ load_tnd data' (Some (tnd_sauce (pic_of b))) = Ok b' /\
                   same_picture_rgb (pic_of b) (pic_of b').
Proof.
  intros data s b Hd Hs Hl H0 Hsz Hlen. apply tnd_roundtrip_proof.
  exact (tnd_load_representable data s b Hd Hs Hl H0 Hsz Hlen).
Qed.
