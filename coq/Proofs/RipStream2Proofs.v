(* The RIP parser with the line family (Model/RipStream2.v): tokenizer invariant + vector invariant + kernel invariant with line
   attributes are kept by every character of every stream, whatever the wrapped ansi parser does; no panic site is reached. *)
From Coq Require Import NArith ZArith List Bool Lia Arith.
From IE Require Import Gen.RipGen Gen.RipLineGen Model.RipTok Model.BgiKernel Model.RipStream Model.BgiLine Model.RipStream2
                       Proofs.RipTokProofs Proofs.BgiProofs Proofs.RipStreamProofs Proofs.RipVecProofs Proofs.BgiLineProofs.
Import ListNotations.
Local Open Scope Z_scope.

Definition line_cmd (c : cmd) : bool := match c with CLine | CRectangle | CPolygon | CPolyLine | CLineStyle => true | _ => false end.

(* complete check of the generated tables: Line / Rectangle fields and the polygon point count are fed two digits, LineStyle's
   style and thickness two, its user pattern four *)
Lemma line_weights_ok :
  forallb (fun c => negb (is_chr c) && forallb (fun f => Nat.leb (wtot (arms_of c) f) 2) (seq 0 (cmd_nfields c))) [CLine; CRectangle; CPolygon; CPolyLine] = true /\
  is_chr CLineStyle = false /\ cmd_nfields CLineStyle = 3%nat /\
  wtot (arms_of CLineStyle) 0 = 2%nat /\ wtot (arms_of CLineStyle) 1 = 4%nat /\ wtot (arms_of CLineStyle) 2 = 2%nat.
Proof. vm_compute. repeat split; reflexivity. Qed.

Lemma CmdInv_ArgsOk_w c st : is_chr (pc_cmd c) = false ->
  forallb (fun f => Nat.leb (wtot (arms_of (pc_cmd c)) f) 2) (seq 0 (cmd_nfields (pc_cmd c))) = true -> CmdInv c st -> ArgsOk c.
Proof.
  intros NC W (L & Hst & B & _). specialize (B NC).
  split; [exact L|]. apply Forall_forall. intros v IN. apply In_nth_error in IN. destruct IN as [f E].
  specialize (B f v E).
  assert (F : (f < cmd_nfields (pc_cmd c))%nat) by (rewrite <- L; apply nth_error_Some; congruence).
  rewrite forallb_forall in W. specialize (W f). rewrite in_seq in W. specialize (W ltac:(lia)). apply Nat.leb_le in W.
  pose proof (wsum_le_wtot (arms_of (pc_cmd c)) f (Z.to_nat st)).
  assert (36 ^ Z.of_nat (wsum (arms_of (pc_cmd c)) f (Z.to_nat st)) <= 36 ^ Z.of_nat 2) by (apply pow36_mono; lia).
  change (36 ^ Z.of_nat 2) with 1296 in H0. unfold PMAX. lia.
Qed.

Lemma VecRange_PMAX v : VecRange v -> Forall (fun x => 0 <= x <= PMAX) v.
Proof. unfold VecRange. intros H. eapply Forall_impl; [|exact H]. simpl. unfold PMAX. intros; lia. Qed.

Lemma CmdInv_ArgsOk2 c st : line_cmd (pc_cmd c) = true -> CmdInv c st -> VecRange (pc_vec c) -> ArgsOk2 c.
Proof.
  intros LC CI VR. destruct line_weights_ok as (W4 & NC & NF & WT0 & WT1 & WT2).
  unfold ArgsOk2. destruct (pc_cmd c) eqn:EC; try discriminate LC.
  - split; [|discriminate]. apply (CmdInv_ArgsOk_w c st); [rewrite EC; reflexivity|rewrite EC; vm_compute; reflexivity|exact CI].
  - split; [|discriminate]. apply (CmdInv_ArgsOk_w c st); [rewrite EC; reflexivity|rewrite EC; vm_compute; reflexivity|exact CI].
  - split; [|intros _; apply VecRange_PMAX; exact VR]. apply (CmdInv_ArgsOk_w c st); [rewrite EC; reflexivity|rewrite EC; vm_compute; reflexivity|exact CI].
  - split; [|intros _; apply VecRange_PMAX; exact VR]. apply (CmdInv_ArgsOk_w c st); [rewrite EC; reflexivity|rewrite EC; vm_compute; reflexivity|exact CI].
  - destruct CI as (L & Hst & B & _). rewrite EC in L, B. specialize (B NC). rewrite NF in L.
    destruct (pc_fields c) as [|a0 [|a1 [|a2 [|]]]] eqn:EF; try discriminate L.
    exists a0, a1, a2. split; [reflexivity|]. unfold bounded in B. rewrite EF, EC in B.
    pose proof (B 0%nat a0 eq_refl) as B0. pose proof (B 2%nat a2 eq_refl) as B2.
    pose proof (pow36_mono _ _ (wsum_le_wtot (arms_of CLineStyle) 0 (Z.to_nat st))) as M0.
    pose proof (pow36_mono _ _ (wsum_le_wtot (arms_of CLineStyle) 2 (Z.to_nat st))) as M2.
    rewrite WT0 in M0. rewrite WT2 in M2. change (36 ^ Z.of_nat 2) with 1296 in *. unfold PMAX. lia.
Qed.

Lemma with_lb_id s : with_lb s (lb s) = s.
Proof. destruct s; reflexivity. Qed.

Lemma same_canvas2_refl s : same_canvas2 s s.
Proof. unfold same_canvas2. auto. Qed.

Lemma run_cmd2_inv s c st : InvL s -> CmdInv c st -> VecRange (pc_vec c) -> RunPost2 s (run_cmd2 s c).
Proof.
  intros IL CI VR. destruct (line_cmd (pc_cmd c)) eqn:LC.
  - apply run_cmd2_ok; [exact IL|]. eapply CmdInv_ArgsOk2; eauto.
  - destruct (uses_args (pc_cmd c)) eqn:U.
    + apply run_cmd2_ok; [exact IL|]. pose proof (CmdInv_ArgsOk c st U CI) as A.
      unfold ArgsOk2. destruct (pc_cmd c); try discriminate LC; (split; [exact A|discriminate]).
    + destruct (run_cmd_noargs (lb s) c U) as [E|E]; unfold run_cmd2;
        destruct (pc_cmd c) eqn:EC; try discriminate LC; try discriminate U; rewrite E; simpl; auto;
        rewrite with_lb_id; (split; [exact IL|apply same_canvas2_refl]).
Qed.

Section Stream2Proofs.
  Variable FS : Type.
  Variable fb_print : FS -> N -> FS * bool.
  Variable fb_mode : FS -> fbmode.
  Variable fb_reset : FS -> FS.

  Definition RInv2 (s : rstate2 FS) : Prop := TokInv (r_tok2 s) /\ TokVec (r_tok2 s) /\ InvL (r_bgi2 s).

  Definition StepPostR2 (s : rstate2 FS) (o : outcome2 FS) : Prop :=
    match o with
    | OOk2 s' _ => RInv2 s' /\ same_canvas2 (r_bgi2 s) (r_bgi2 s') /\ t_pstate (r_tok2 s') <= t_pstate (r_tok2 s) + 1
    | OPanic2 _ => False
    | OUnmodelled2 => True
    end.

  Lemma rip_step2_inv s ch : RInv2 s -> t_pstate (r_tok2 s) < I32_MAX -> StepPostR2 s (rip_step2 FS fb_print fb_mode fb_reset s ch).
  Proof.
    intros (TI & TV & BI) PM. unfold rip_step2.
    pose proof (tok_step_inv (fb_mode (r_fb2 s)) (r_tok2 s) ch TI PM) as Q.
    pose proof (tok_step_vec (fb_mode (r_fb2 s)) (r_tok2 s) ch (proj1 TI) TV) as QV.
    destruct (tok_step (fb_mode (r_fb2 s)) (r_tok2 s) ch) as [t a reset|site]; [|contradiction].
    destruct Q as (TI' & AO & PS). destruct QV as (TV' & AV).
    pose proof (same_canvas2_refl (r_bgi2 s)) as SC.
    destruct a as [| |c|cs|cs]; simpl.
    - split; [split; [|split]; assumption|auto].
    - split; [split; [|split]; assumption|auto].
    - destruct AO as [st CI]. pose proof (run_cmd2_inv (r_bgi2 s) c st BI CI AV) as R.
      destruct (run_cmd2 (r_bgi2 s) c) as [b|p|]; simpl in *; [|contradiction|exact I].
      destruct R as (IB & SC'). split; [split; [|split]; assumption|]. split; [exact SC'|exact PS].
    - destruct (suspend_text (lb (r_bgi2 s))); [simpl; split; [split; [|split]; assumption|auto]|].
      destruct (print_all FS fb_print (if reset then fb_reset (r_fb2 s) else r_fb2 s) cs) as [fs' ok]. simpl.
      split; [split; [|split]; assumption|auto].
    - destruct (print_all FS fb_print (if reset then fb_reset (r_fb2 s) else r_fb2 s) cs) as [fs' ok]. simpl.
      split; [split; [|split]; assumption|auto].
  Qed.

  Definition RunPostR2 (s : rstate2 FS) (o : outcome2 FS) : Prop :=
    match o with
    | OOk2 s' _ => RInv2 s' /\ same_canvas2 (r_bgi2 s) (r_bgi2 s')
    | OPanic2 _ => False
    | OUnmodelled2 => True
    end.

  Lemma rip_run2_inv cs : forall s errs, RInv2 s -> t_pstate (r_tok2 s) + Z.of_nat (length cs) <= I32_MAX ->
    RunPostR2 s (fst (rip_run2 FS fb_print fb_mode fb_reset s errs cs)).
  Proof.
    induction cs as [|c t IH]; intros s errs RI PM; simpl.
    - split; [exact RI|apply same_canvas2_refl].
    - simpl length in PM. pose proof (rip_step2_inv s c RI ltac:(lia)) as Q.
      destruct (rip_step2 FS fb_print fb_mode fb_reset s c) as [s' ok|p|]; simpl in *; [|contradiction|exact I].
      destruct Q as (RI' & (W & H & L) & PS).
      specialize (IH s' (if ok then errs else N.succ errs) RI' ltac:(lia)).
      destruct (fst (rip_run2 FS fb_print fb_mode fb_reset s' (if ok then errs else N.succ errs) t)) as [s'' ok'|p|]; simpl in *; auto.
      destruct IH as (RI'' & W' & H' & L'). split; [exact RI''|]. unfold same_canvas2. rewrite W', H', L'. auto.
  Qed.
End Stream2Proofs.

Lemma lbgi_new_inv : InvL lbgi_new.
Proof.
  split; [exact bgi_new_inv|]. split; [apply bits16_length|]. split; [simpl; unfold PMAX; lia|discriminate].
Qed.

(* sequences of commands with arbitrary admissible parameters *)
Fixpoint run_cmds2 (s : lbgi) (cs : list pcmd) : run_result2 :=
  match cs with
  | [] => ROk2 s
  | c :: t => match run_cmd2 s c with ROk2 s' => run_cmds2 s' t | r => r end
  end.

Lemma run_cmds2_ok cs : forall s, InvL s -> Forall ArgsOk2 cs -> RunPost2 s (run_cmds2 s cs).
Proof.
  induction cs as [|c t IH]; intros s I F; simpl.
  - split; [exact I|apply same_canvas2_refl].
  - inversion F as [|? ? A F']; subst. pose proof (run_cmd2_ok s c I A) as R.
    destruct (run_cmd2 s c) as [s'|p|]; simpl in *; [|contradiction|exact Logic.I].
    destruct R as (I' & W & H & L). specialize (IH s' I' F').
    destruct (run_cmds2 s' t) as [s''|p|]; simpl in *; auto.
    destruct IH as (I'' & W' & H' & L'). split; [exact I''|]. unfold same_canvas2. rewrite W', H', L'. auto.
Qed.

Definition rip_init2 (FS : Type) (fs : FS) : rstate2 FS := {| r_tok2 := tok_init; r_bgi2 := lbgi_new; r_fb2 := fs |}.

Lemma rip_stream_safe2_lemma (FS : Type) fb_print fb_mode fb_reset (fs : FS) cs errs :
  Z.of_nat (length cs) <= I32_MAX ->
  match fst (rip_run2 FS fb_print fb_mode fb_reset (rip_init2 FS fs) errs cs) with
  | OOk2 s _ => TokInv (r_tok2 s) /\ InvL (r_bgi2 s) /\
                Z.of_nat (length (screen (lb (r_bgi2 s)))) = SCREEN_W * SCREEN_H /\ win_w (lb (r_bgi2 s)) = SCREEN_W /\ win_h (lb (r_bgi2 s)) = SCREEN_H
  | OPanic2 _ => False
  | OUnmodelled2 => True
  end.
Proof.
  intros L.
  pose proof (rip_run2_inv FS fb_print fb_mode fb_reset cs (rip_init2 FS fs) errs (conj tok_init_inv (conj tok_init_vec lbgi_new_inv)) ltac:(simpl; lia)) as Q.
  destruct (fst (rip_run2 FS fb_print fb_mode fb_reset (rip_init2 FS fs) errs cs)) as [s ok|p|]; simpl in *; auto.
  destruct Q as ((TI & TV & BI) & W & H & LS). split; [exact TI|split; [exact BI|]].
  simpl in W, H. destruct BI as ((_ & _ & E & _) & _). rewrite E, W, H. auto.
Qed.

(* which commands can still end a stream as OUnmodelled2: exactly those whose run is outside the extended kernel *)
Definition modelled2 (c : cmd) : bool :=
  line_cmd c || uses_args c ||
  match c with
  | CHome | CEraseEOL | CTextVariable | CMouseFields | CBeginText | CRegionText | CEndText | CWriteIcon | CDefine | CQuery
  | CReadScene | CEnterBlockMode => true
  | _ => false
  end.

Lemma modelled2_not_unmodelled s c : modelled2 (pc_cmd c) = true -> run_cmd2 s c <> RUnmodelled2.
Proof.
  unfold run_cmd2, run_cmd. destruct (pc_cmd c); intros H; try discriminate H;
    repeat match goal with
           | |- context [lift2 ?r] => destruct r; simpl; try discriminate
           | |- context [lift ?r] => destruct r; simpl; try discriminate
           end; discriminate.
Qed.
